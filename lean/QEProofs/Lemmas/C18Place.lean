/-
  Lemmas for C18, part 3: `P = zeros(n); P[cols] = data` (`placeRow`) — entries, sum, number
  of positive entries.
-/
import Mathlib.Algebra.Order.Field.Basic
import Mathlib.Algebra.BigOperators.Group.List.Basic
import Mathlib.Data.List.Nodup
import Mathlib.Tactic.Linarith
import Mathlib.Tactic.Ring
import QEModel.C18
namespace QE.C18
set_option linter.unusedSectionVars false

variable {K : Type} [Field K] [LinearOrder K] [IsStrictOrderedRing K]

theorem getD_set_K (l : List K) (i j : Nat) (a : K) (hi : i < l.length) :
    (l.set i a).getD j 0 = if j = i then a else l.getD j 0 := by
  rw [List.getD_eq_getElem?_getD, List.getD_eq_getElem?_getD, List.getElem?_set]
  by_cases h : i = j
  · subst h; simp [hi]
  · have h' : ¬ j = i := fun e => h e.symm
    simp [h, h']

/-- overwriting a zero entry adds the new value to the sum -/
theorem sum_set_zero : ∀ (row : List K) (c : Nat) (v : K), c < row.length → row.getD c 0 = 0 →
    (row.set c v).sum = row.sum + v
  | [], c, v, h, _ => by simp at h
  | a :: row, 0, v, _, h0 => by
    simp at h0; subst h0; simp [add_comm]
  | a :: row, c + 1, v, h, h0 => by
    simp only [List.set_cons_succ, List.sum_cons]
    rw [sum_set_zero row c v (by simpa using h) (by simpa using h0)]; ring

/-- overwriting a zero entry changes the number of positive entries by `[0 < v]` -/
theorem countP_set_zero : ∀ (row : List K) (c : Nat) (v : K), c < row.length → row.getD c 0 = 0 →
    (row.set c v).countP (fun x => decide (0 < x))
      = row.countP (fun x => decide (0 < x)) + (if 0 < v then 1 else 0)
  | [], c, v, h, _ => by simp at h
  | a :: row, 0, v, _, h0 => by
    simp at h0; subst h0
    simp only [List.set_cons_zero, List.countP_cons]
    simp
  | a :: row, c + 1, v, h, h0 => by
    simp only [List.set_cons_succ, List.countP_cons]
    rw [countP_set_zero row c v (by simpa using h) (by simpa using h0)]; omega

/-- the scatter loop from an arbitrary start row -/
def scatter (row : List K) (cd : List (Nat × K)) : List K :=
  cd.foldl (fun row cv => row.set cv.1 cv.2) row

theorem scatter_spec : ∀ (cd : List (Nat × K)) (row : List K),
    (cd.map Prod.fst).Nodup → (∀ p ∈ cd, p.1 < row.length) →
    (scatter row cd).length = row.length ∧
      (∀ p ∈ cd, (scatter row cd).getD p.1 0 = p.2) ∧
      (∀ c, c ∉ cd.map Prod.fst → (scatter row cd).getD c 0 = row.getD c 0)
  | [], row, _, _ => by simp [scatter]
  | (c, v) :: rest, row, hnd, hlt => by
    have hc : c < row.length := hlt (c, v) (by simp)
    have hnd0 : (c :: rest.map Prod.fst).Nodup := hnd
    have hnd' := (List.nodup_cons.1 hnd0).2
    have hcn : c ∉ rest.map Prod.fst := (List.nodup_cons.1 hnd0).1
    have ih := scatter_spec rest (row.set c v) hnd'
      (fun p hp => by simpa using hlt p (List.mem_cons_of_mem _ hp))
    obtain ⟨h1, h2, h3⟩ := ih
    have hsc : scatter row ((c, v) :: rest) = scatter (row.set c v) rest := rfl
    rw [hsc]
    refine ⟨by simpa using h1, ?_, ?_⟩
    · intro p hp
      rcases List.mem_cons.1 hp with rfl | hp'
      · rw [h3 c hcn, getD_set_K _ _ _ _ hc]; simp
      · exact h2 p hp'
    · intro c' hc'
      have hne : c' ≠ c := by intro e; apply hc'; simp [e]
      have hnr : c' ∉ rest.map Prod.fst := by intro e; apply hc'; simp only [List.map_cons, List.mem_cons]; exact Or.inr e
      rw [h3 c' hnr, getD_set_K _ _ _ _ hc, if_neg hne]

theorem scatter_sum_count : ∀ (cd : List (Nat × K)) (row : List K),
    (cd.map Prod.fst).Nodup → (∀ p ∈ cd, p.1 < row.length) → (∀ p ∈ cd, row.getD p.1 0 = 0) →
    (scatter row cd).sum = row.sum + (cd.map Prod.snd).sum ∧
      (scatter row cd).countP (fun x => decide (0 < x))
        = row.countP (fun x => decide (0 < x)) + (cd.map Prod.snd).countP (fun x => decide (0 < x))
  | [], row, _, _, _ => by simp [scatter]
  | (c, v) :: rest, row, hnd, hlt, hz => by
    have hc : c < row.length := hlt (c, v) (by simp)
    have hc0 : row.getD c 0 = 0 := hz (c, v) (by simp)
    have hnd0 : (c :: rest.map Prod.fst).Nodup := hnd
    have hnd' := (List.nodup_cons.1 hnd0).2
    have hcn : c ∉ rest.map Prod.fst := (List.nodup_cons.1 hnd0).1
    have ih := scatter_sum_count rest (row.set c v) hnd'
      (fun p hp => by simpa using hlt p (List.mem_cons_of_mem _ hp))
      (fun p hp => by
        have hne : p.1 ≠ c := by
          intro e; apply hcn; rw [← e]; exact List.mem_map_of_mem hp
        rw [getD_set_K _ _ _ _ hc, if_neg hne]; exact hz p (List.mem_cons_of_mem _ hp))
    have hsc : scatter row ((c, v) :: rest) = scatter (row.set c v) rest := rfl
    rw [hsc, ih.1, ih.2, sum_set_zero row c v hc hc0, countP_set_zero row c v hc hc0]
    constructor
    · simp only [List.map_cons, List.sum_cons]; ring
    · simp only [List.map_cons, List.countP_cons]
      by_cases hv : 0 < v <;> simp [hv] <;> omega

theorem placeRow_eq_scatter (n : Nat) (cols : List Nat) (data : List K) :
    placeRow n cols data = scatter (List.replicate n 0) (cols.zip data) := rfl

theorem getD_replicate_zero (n c : Nat) : (List.replicate n (0 : K)).getD c 0 = 0 := by
  rw [List.getD_eq_getElem?_getD]
  by_cases h : c < n <;> simp [h]

end QE.C18
