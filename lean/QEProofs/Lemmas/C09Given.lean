/-
  Lemmas for C09, part 12: the stored arrays versus the pairs AS GIVEN (any order): a
  two-way correspondence between the positions of a state's block and the given pairs of
  that state, carrying reward, transition row and action.
-/
import QEProofs.Lemmas.C09Feasible
namespace QE.C09
set_option linter.unusedSectionVars false

/-- the states of the re-sorted pairs form a sorted permutation of the given states -/
theorem resorted_states (S A : List Nat) (hA : A.length = S.length) :
    List.Pairwise (· ≤ ·) ((resortPairs S A).map fun k => S.getD k 0) ∧
    ((resortPairs S A).map fun k => S.getD k 0).Perm S := by
  have heq : (resortPairs S A).map (fun k => S.getD k 0)
      = ((triples S A).mergeSort saLe).map fun t => t.1 := by
    rw [resortPairs_eq, List.map_map]
    apply List.map_congr_left
    intro t ht
    have ht' : t ∈ triples S A := (List.mergeSort_perm _ _).mem_iff.mp ht
    obtain ⟨hk, hSk⟩ := mem_triples S A hA t ht'
    simp only [Function.comp]
    rw [List.getD_eq_getElem?_getD, hSk]; rfl
  rw [heq]
  exact ⟨sorted_triples_fst S A, perm_triples_fst S A hA⟩

section
variable {K : Type}

theorem arrangeSa_beta (n : Nat) (beta : K) (R : List (Ext K)) (Q : List (List K)) (S A : List Nat) :
    (arrangeSa n beta R Q S A).beta = beta := by
  unfold arrangeSa
  by_cases hs : hasSortedSa S A = true
  · rw [if_pos hs]
  · rw [if_neg hs]

/-- position `j` of the stored arrays and given pair `k` carry the same data -/
def SameData (n : Nat) (beta : K) (R : List (Ext K)) (Q : List (List K)) (S A : List Nat) (j k : Nat) : Prop :=
  (arrangeSa n beta R Q S A).R.getD j .ninf = R.getD k .ninf ∧
  (arrangeSa n beta R Q S A).Q.getD j [] = Q.getD k [] ∧
  (arrangeSa n beta R Q S A).aInd[j]? = A[k]?

/-- **block positions ↔ given pairs of the state**, both branches of the constructor -/
theorem arranged_pairs (n : Nat) (beta : K) (R : List (Ext K)) (Q : List (List K)) (S A : List Nat)
    (hR : R.length = S.length) (hQ : Q.length = S.length) (hA : A.length = S.length) (i : Nat) :
    (∀ j, S.countP (· < i) ≤ j → j < S.countP (· < i + 1) →
      ∃ k, k < S.length ∧ S[k]? = some i ∧ SameData n beta R Q S A j k) ∧
    (∀ k, k < S.length → S[k]? = some i →
      ∃ j, S.countP (· < i) ≤ j ∧ j < S.countP (· < i + 1) ∧ SameData n beta R Q S A j k) := by
  by_cases hs : hasSortedSa S A = true
  · have hp := hasSortedSa_pairwise S A hA.symm hs
    have hsame : ∀ j, SameData n beta R Q S A j j := by
      intro j
      unfold SameData arrangeSa
      rw [if_pos hs]
      exact ⟨rfl, rfl, rfl⟩
    constructor
    · intro j h1 h2
      have hj : j < S.length := lt_of_lt_of_le h2 (countP_le_length' S _)
      refine ⟨j, hj, ?_, hsame j⟩
      rw [List.getElem?_eq_getElem hj, (sorted_block S hp j hj i).mp ⟨h1, h2⟩]
    · intro k hk hSk
      rw [List.getElem?_eq_getElem hk] at hSk
      have := (sorted_block S hp k hk i).mpr (Option.some.inj hSk)
      exact ⟨k, this.1, this.2, hsame k⟩
  · obtain ⟨hp, hperm⟩ := resorted_states S A hA
    set S' := (resortPairs S A).map (fun k => S.getD k 0) with hS'
    have hpermI := resortPairs_perm S A hA
    have hlen : (resortPairs S A).length = S.length := by rw [hpermI.length_eq, List.length_range]
    have hS'len : S'.length = S.length := by simp [hS', hlen]
    have hcount : ∀ t, S'.countP (· < t) = S.countP (· < t) := fun t => hperm.countP_eq _
    -- data at position j is the data of pair perm[j]
    have hdata : ∀ j, j < S.length → ∃ k, (resortPairs S A)[j]? = some k ∧ k < S.length ∧
        S'[j]? = S[k]? ∧ SameData n beta R Q S A j k := by
      intro j hj
      obtain ⟨k, hk, hkL, e1, e2, e3⟩ := arrangeSa_unsorted n beta R Q S A hR hQ hA hs j hj
      refine ⟨k, hk, hkL, ?_, ?_, ?_, e3⟩
      · rw [hS', List.getElem?_map, hk]
        simp [List.getD_eq_getElem?_getD, List.getElem?_eq_getElem hkL]
      · rw [List.getD_eq_getElem?_getD, List.getD_eq_getElem?_getD, e1]
      · rw [List.getD_eq_getElem?_getD, List.getD_eq_getElem?_getD, e2]
    constructor
    · intro j h1 h2
      have hj : j < S.length := lt_of_lt_of_le h2 (countP_le_length' S _)
      obtain ⟨k, _, hkL, hSk, hsd⟩ := hdata j hj
      refine ⟨k, hkL, ?_, hsd⟩
      have := (sorted_block S' hp j (by omega) i).mp (by rw [hcount, hcount]; exact ⟨h1, h2⟩)
      rw [← hSk, List.getElem?_eq_getElem (by omega : j < S'.length), this]
    · intro k hk hSk
      have hmem : k ∈ resortPairs S A := hpermI.mem_iff.mpr (List.mem_range.mpr hk)
      obtain ⟨j, hj, hjk⟩ := List.mem_iff_getElem.mp hmem
      have hjL : j < S.length := by omega
      obtain ⟨k', hk', _, hSk', hsd⟩ := hdata j hjL
      rw [List.getElem?_eq_getElem hj, hjk] at hk'
      cases hk'
      have hS'j : S'[j]'(by omega) = i := by
        have := hSk'
        rw [hSk, List.getElem?_eq_getElem (by omega : j < S'.length)] at this
        exact Option.some.inj this
      have := (sorted_block S' hp j (by omega) i).mpr hS'j
      rw [hcount, hcount] at this
      exact ⟨j, this.1, this.2, hsd⟩

end
section
variable {K : Type} [LinearOrder K] [Zero K] [One K] [Add K] [Mul K]

/-- value `R[k] + β·Q[k]·v` of the `k`-th pair **as given to the constructor** -/
def givenVal (beta : K) (R : List (Ext K)) (Q : List (List K)) (v : List K) (k : Nat) : Ext K :=
  qval beta (R.getD k .ninf) (Q.getD k []) v

theorem accepted_bellman_given' (n : Nat) (beta : K) (R : List (Ext K)) (Q : List (List K)) (S A : List Nat)
    (hR : R.length = Q.length) (hSl : S.length = Q.length) (hAl : A.length = Q.length)
    (hS : ∀ s ∈ S, s < n) (d : SaDDP K) (hd : mkSa n beta R Q S A = .ok d)
    (v : List K) (i : Nat) (hi : i < n) :
    ∃ k act, k < S.length ∧ S[k]? = some i ∧ A[k]? = some act ∧
      (d.bellman v).1[i]? = some (givenVal beta R Q v k) ∧ (d.bellman v).2[i]? = some act ∧
      ∀ k', k' < S.length → S[k']? = some i → ¬ givenVal beta R Q v k < givenVal beta R Q v k' := by
  obtain ⟨hf, hn⟩ := accepted_sa_feasible n beta R Q S A hR hSl hAl hS d hd
  have hde := mkSa_ok_eq n beta R Q S A d hd
  have hi' : i < d.n := by omega
  obtain ⟨hne, hhi, _⟩ := hf.block i hi'
  obtain ⟨m, act, h1, h2, h3, hTv, hsg, hmax, _⟩ := sa_bellman_spec d v i hi' hne hhi hf.lenQ hf.lenA
  have hptr := arrangeSa_indptr n beta R Q S A (by omega) hS
  obtain ⟨hfw, hbw⟩ := arranged_pairs n beta R Q S A (by omega) (by omega) (by omega) i
  -- block bounds in terms of counts
  have hlo : d.aIndptr.getD i 0 = S.countP (· < i) := by rw [hde]; exact hptr i (by omega)
  have hhi' : d.aIndptr.getD (i + 1) 0 = S.countP (· < i + 1) := by rw [hde]; exact hptr (i + 1) (by omega)
  have hbeta : d.beta = beta := by rw [hde]; exact arrangeSa_beta n beta R Q S A
  -- value of a block position = value of the corresponding given pair
  have hval : ∀ j k, SameData n beta R Q S A j k → d.pairVal v j = givenVal beta R Q v k := by
    intro j k hsd
    unfold SaDDP.pairVal givenVal
    rw [hbeta]
    have e1 : d.R.getD j .ninf = R.getD k .ninf := by rw [hde]; exact hsd.1
    have e2 : d.Q.getD j [] = Q.getD k [] := by rw [hde]; exact hsd.2.1
    rw [e1, e2]
  obtain ⟨k, hk, hSk, hsd⟩ := hfw m (by omega) (by omega)
  refine ⟨k, act, hk, hSk, ?_, ?_, hsg, ?_⟩
  · have : d.aInd[m]? = A[k]? := by rw [hde]; exact hsd.2.2
    rw [← this]; exact h3
  · rw [hTv, hval m k hsd]
  · intro k' hk' hSk'
    obtain ⟨j', hj1, hj2, hsd'⟩ := hbw k' hk' hSk'
    have := hmax j' (by omega) (by omega)
    rwa [hval m k hsd, hval j' k' hsd'] at this

end
section
variable {K : Type} [LinearOrder K] [Zero K] [One K] [Add K] [Mul K]

theorem accepted_rqSigma_given' (n : Nat) (beta : K) (R : List (Ext K)) (Q : List (List K)) (S A : List Nat)
    (hR : R.length = Q.length) (hSl : S.length = Q.length) (hAl : A.length = Q.length)
    (hS : ∀ s ∈ S, s < n)
    (hnodup : ∀ k k', k < S.length → k' < S.length → S[k]? = S[k']? → A[k]? = A[k']? → k = k')
    (d : SaDDP K) (hd : mkSa n beta R Q S A = .ok d)
    (sigma : List Nat) (hsl : sigma.length = n)
    (hsig : ∀ i, i < n → ∃ k, k < S.length ∧ S[k]? = some i ∧ A[k]? = some (sigma.getD i 0)) :
    ∃ (R' : List (Ext K)) (Q' : List (List K)), d.rqSigma sigma = some (R', Q') ∧
      R'.length = n ∧ Q'.length = n ∧
      ∀ i k, i < n → k < S.length → S[k]? = some i → A[k]? = some (sigma.getD i 0) →
        R'[i]? = some (R.getD k .ninf) ∧ Q'[i]? = some (Q.getD k []) := by
  obtain ⟨hf, hn⟩ := accepted_sa_feasible n beta R Q S A hR hSl hAl hS d hd
  have hde := mkSa_ok_eq n beta R Q S A d hd
  have hptr := arrangeSa_indptr n beta R Q S A (by omega) hS
  have hlo : ∀ i, i ≤ n → d.aIndptr.getD i 0 = S.countP (· < i) := by
    intro i hi; rw [hde]; exact hptr i hi
  have hsl' : sigma.length = d.n := by omega
  have hsome := sa_rqSigma_isSome d sigma hsl' (fun i hi => by
    obtain ⟨k, hk, hSk, hAk⟩ := hsig i (by omega)
    obtain ⟨j, hj1, hj2, hsd⟩ := (arranged_pairs n beta R Q S A (by omega) (by omega) (by omega) i).2 k hk hSk
    refine ⟨j, by rw [hlo i (by omega)]; exact hj1, by rw [hlo (i + 1) (by omega)]; exact hj2, ?_⟩
    have : d.aInd[j]? = A[k]? := by rw [hde]; exact hsd.2.2
    rw [this, hAk])
  cases hrq : d.rqSigma sigma with
  | none => rw [hrq] at hsome; cases hsome
  | some rq =>
    obtain ⟨R', Q'⟩ := rq
    obtain ⟨hl1, hl2, hrows⟩ := sa_rqSigma_rows d sigma hsl' R' Q' hrq
    refine ⟨R', Q', rfl, by omega, by omega, ?_⟩
    intro i k hi hk hSk hAk
    obtain ⟨j0, hj1, hj2, hj3, hRj, hQj⟩ := hrows i (by omega)
    rw [hlo i (by omega)] at hj1
    rw [hlo (i + 1) (by omega)] at hj2
    obtain ⟨k0, hk0, hSk0, hsd⟩ := (arranged_pairs n beta R Q S A (by omega) (by omega) (by omega) i).1 j0 hj1 hj2
    have hA0 : A[k0]? = some (sigma.getD i 0) := by
      have : d.aInd[j0]? = A[k0]? := by rw [hde]; exact hsd.2.2
      rw [← this]; exact hj3
    have hkk : k0 = k := hnodup k0 k hk0 hk (by rw [hSk0, hSk]) (by rw [hA0, hAk])
    subst hkk
    have e1 : d.R.getD j0 .ninf = R.getD k0 .ninf := by rw [hde]; exact hsd.1
    have e2 : d.Q.getD j0 [] = Q.getD k0 [] := by rw [hde]; exact hsd.2.1
    rw [hRj, hQj, e1, e2]
    exact ⟨rfl, rfl⟩

end
end QE.C09
