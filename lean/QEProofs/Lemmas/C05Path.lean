/-
  Lemmas for property C05 (Lemke-Howson), state level: the full invariant of the pair of
  tableaux (`LHFull`), similarity of states (`SSim`), and the three facts about one exact step
  of the loop body used by the path argument:
  * it keeps the invariant (`lhStep_full`),
  * it maps similar states to similar states (`lhStep_sim`),
  * applied twice in the same tableau it returns to a similar state (`lhStep_invol`).
-/
import QEProofs.Lemmas.C05Sim
import QEProofs.Lemmas.C05LHOut

namespace QE.C05
open QE QE.Pivot Finset

set_option linter.unusedSectionVars false
set_option linter.unusedVariables false
variable {K : Type} [Field K] [LinearOrder K] [IsStrictOrderedRing K]

/-! ### the two tableaux -/

theorem init0_tinit (m n : ℕ) (hn : 1 ≤ n) (B : ℕ → ℕ → K) : TInit (initT0 m n B) n (m + n) m :=
  { sh := init0_shape m n B
    hss := le_refl _
    hid := by
      intro q q' hq hq'
      rw [initT0_get m n B q (m + q') hq (by omega), if_neg (by omega), if_pos (by omega)]
      have : m + q' - m = q' := by omega
      rw [this]
      by_cases h : q = q'
      · rw [if_pos h, if_pos h.symm]
      · rw [if_neg h, if_neg (fun e => h e.symm)]
    nonneg := fun i j hi hj => init0_nonneg m n B i j hi hj
    colpos := fun c hc => init0_col_pos m n B hn c hc }

theorem init1_tinit (m n : ℕ) (hm : 1 ≤ m) (A : ℕ → ℕ → K) : TInit (initT1 m n A) m (m + n) 0 :=
  { sh := init1_shape m n A
    hss := by omega
    hid := by
      intro q q' hq hq'
      rw [initT1_get m n A q (0 + q') hq (by omega), if_pos (by omega), Nat.zero_add]
      by_cases h : q = q'
      · rw [if_pos h, if_pos h.symm]
      · rw [if_neg h, if_neg (fun e => h e.symm)]
    nonneg := fun i j hi hj => init1_nonneg m n A i j hi hj
    colpos := fun c hc => init1_col_pos m n A hm c hc }

/-- the full invariant of a state -/
structure LHFull (m n : ℕ) (A B : ℕ → ℕ → K) (s : LHState K) : Prop where
  i0 : TInv (initT0 m n B) s.T0 s.b0 n (m + n) m
  i1 : TInv (initT1 m n A) s.T1 s.b1 m (m + n) 0

theorem LHFull.base {m n : ℕ} {A B : ℕ → ℕ → K} {s : LHState K} (h : LHFull m n A B s) :
    LHBase m n A B s :=
  ⟨h.i0.sh, h.i1.sh, h.i0.can, h.i1.can, h.i0.rhs, h.i1.rhs, h.i0.sol, h.i1.sol⟩

theorem lhInit_full (m n : ℕ) (A B : ℕ → ℕ → K) (ip : ℕ) : LHFull m n A B (lhInit m n A B ip) := by
  refine ⟨⟨init0_shape m n B, init0_canon m n B, init0_rhs m n B, fun _ => Iff.rfl,
    C04.rowsSpan_refl _ _ _, ?_⟩, ⟨init1_shape m n A, init1_canon m n A, init1_rhs m n A,
    fun _ => Iff.rfl, C04.rowsSpan_refl _ _ _, ?_⟩⟩
  · intro i hi
    left
    show 0 < (initT0 m n B).get i (m + n)
    rw [initT0_get m n B i (m + n) hi (by omega), if_neg (by omega), if_neg (by omega)]
    exact zero_lt_one
  · intro i hi
    left
    show 0 < (initT1 m n A).get i (m + n)
    rw [initT1_get m n A i (m + n) hi (by omega), if_neg (by omega), if_neg (by omega)]
    exact zero_lt_one

/-! ### the step, field by field -/

theorem lhStep_zero (m : ℕ) (tp td : K) (s : LHState K) :
    lhStep m tp td s 0 =
      { s with T0 := pivot s.T0 s.pivot (lexMinRatio s.T0 s.pivot m tp td).2,
               b0 := s.b0.set (lexMinRatio s.T0 s.pivot m tp td).2 s.pivot,
               pivot := s.b0.getD (lexMinRatio s.T0 s.pivot m tp td).2 0,
               numIter := s.numIter + 1,
               nf := if (lexMinRatio s.T0 s.pivot m tp td).1 then s.nf else s.nf + 1,
               ties := s.ties + firstPassTie s.T0 s.pivot tp td } := by
  unfold lhStep; rw [if_pos rfl]

theorem lhStep_one (m : ℕ) (tp td : K) (s : LHState K) :
    lhStep m tp td s 1 =
      { s with T1 := pivot s.T1 s.pivot (lexMinRatio s.T1 s.pivot 0 tp td).2,
               b1 := s.b1.set (lexMinRatio s.T1 s.pivot 0 tp td).2 s.pivot,
               pivot := s.b1.getD (lexMinRatio s.T1 s.pivot 0 tp td).2 0,
               numIter := s.numIter + 1,
               nf := if (lexMinRatio s.T1 s.pivot 0 tp td).1 then s.nf else s.nf + 1,
               ties := s.ties + firstPassTie s.T1 s.pivot tp td } := by
  unfold lhStep; rw [if_neg (by omega)]

/-- similarity of states: both tableaux similar, same entering variable -/
def SSim (m n : ℕ) (s s' : LHState K) : Prop :=
  TSim s.T0 s.b0 s'.T0 s'.b0 n (m + n) ∧ TSim s.T1 s.b1 s'.T1 s'.b1 m (m + n) ∧ s.pivot = s'.pivot

theorem ssim_symm {m n : ℕ} {s s' : LHState K} (h : SSim m n s s') : SSim m n s' s :=
  ⟨tsim_symm h.1, tsim_symm h.2.1, h.2.2.symm⟩

theorem ssim_trans {m n : ℕ} {s1 s2 s3 : LHState K} (h12 : SSim m n s1 s2) (h23 : SSim m n s2 s3) :
    SSim m n s1 s3 :=
  ⟨tsim_trans h12.1 h23.1, tsim_trans h12.2.1 h23.2.1, h12.2.2.trans h23.2.2⟩

/-- the step keeps the full invariant -/
theorem lhStep_full (m n : ℕ) (hm : 1 ≤ m) (hn : 1 ≤ n) (A B : ℕ → ℕ → K) (s : LHState K) (pl : ℕ)
    (hpl : pl = 0 ∨ pl = 1) (h : LHFull m n A B s) (hpN : s.pivot < m + n) :
    LHFull m n A B (lhStep m 0 0 s pl) ∧ (lhStep m 0 0 s pl).pivot < m + n := by
  rcases hpl with rfl | rfl
  · obtain ⟨_, hr, _, hinv⟩ := tinv_step _ s.T0 s.b0 n (m + n) m s.pivot (init0_tinit m n hn B) h.i0 hpN
    rw [lhStep_zero]
    exact ⟨⟨hinv, h.i1⟩, (h.i0.can.2 _ hr).1⟩
  · obtain ⟨_, hr, _, hinv⟩ := tinv_step _ s.T1 s.b1 m (m + n) 0 s.pivot (init1_tinit m n hm A) h.i1 hpN
    rw [lhStep_one]
    exact ⟨⟨h.i0, hinv⟩, (h.i1.can.2 _ hr).1⟩

/-- the step respects similarity -/
theorem lhStep_sim (m n : ℕ) (hm : 1 ≤ m) (hn : 1 ≤ n) (A B : ℕ → ℕ → K) (s s' : LHState K) (pl : ℕ)
    (hpl : pl = 0 ∨ pl = 1) (h : LHFull m n A B s) (h' : LHFull m n A B s') (hs : SSim m n s s')
    (hpN : s.pivot < m + n) : SSim m n (lhStep m 0 0 s pl) (lhStep m 0 0 s' pl) := by
  obtain ⟨hs0, hs1, hp⟩ := hs
  rcases hpl with rfl | rfl
  · obtain ⟨e, g⟩ := tsim_step _ s.T0 s'.T0 s.b0 s'.b0 n (m + n) m s.pivot (init0_tinit m n hn B)
      h.i0 h'.i0 hs0 hpN
    rw [lhStep_zero, lhStep_zero, ← hp]
    exact ⟨g, hs1, e⟩
  · obtain ⟨e, g⟩ := tsim_step _ s.T1 s'.T1 s.b1 s'.b1 m (m + n) 0 s.pivot (init1_tinit m n hm A)
      h.i1 h'.i1 hs1 hpN
    rw [lhStep_one, lhStep_one, ← hp]
    exact ⟨hs0, g, e⟩

/-- one tableau: stepping back -/
theorem tinvol (T0 T : M K) (b : List ℕ) (L N ss c : ℕ) (h0 : TInit T0 L N ss)
    (h : TInv T0 T b L N ss) (hcN : c < N) :
    TSim (pivot (pivot T c (lexMinRatio T c ss (0 : K) 0).2) (b.getD (lexMinRatio T c ss (0 : K) 0).2 0)
        (lexMinRatio (pivot T c (lexMinRatio T c ss (0 : K) 0).2)
          (b.getD (lexMinRatio T c ss (0 : K) 0).2 0) ss (0 : K) 0).2)
      ((b.set (lexMinRatio T c ss (0 : K) 0).2 c).set
        (lexMinRatio (pivot T c (lexMinRatio T c ss (0 : K) 0).2)
          (b.getD (lexMinRatio T c ss (0 : K) 0).2 0) ss (0 : K) 0).2
        (b.getD (lexMinRatio T c ss (0 : K) 0).2 0)) T b L N ∧
    (b.set (lexMinRatio T c ss (0 : K) 0).2 c).getD
      (lexMinRatio (pivot T c (lexMinRatio T c ss (0 : K) 0).2)
          (b.getD (lexMinRatio T c ss (0 : K) 0).2 0) ss (0 : K) 0).2 0 = c := by
  obtain ⟨_, hr, hpos, _⟩ := tinv_step T0 T b L N ss c h0 h hcN
  rw [trev_row T0 T b L N ss c h0 h hcN]
  set r := (lexMinRatio T c ss (0 : K) 0).2 with hrdef
  have hrl : r < b.length := by rw [h.can.1]; exact hr
  constructor
  · apply tsim_of_eq
    · intro i hi
      rw [getD_set', getD_set']
      by_cases hir : r = i
      · rw [if_pos ⟨hir, by simpa using hrl⟩, hir]
      · rw [if_neg (by tauto), if_neg (by tauto)]
    · intro i j hi hj
      exact trev_tab T b L N c r h.sh h.can hr (ne_of_gt hpos) i j hi hj
  · rw [getD_set', if_pos ⟨rfl, hrl⟩]

/-- stepping twice in the same tableau returns to a similar state -/
theorem lhStep_invol (m n : ℕ) (hm : 1 ≤ m) (hn : 1 ≤ n) (A B : ℕ → ℕ → K) (s : LHState K) (pl : ℕ)
    (hpl : pl = 0 ∨ pl = 1) (h : LHFull m n A B s) (hpN : s.pivot < m + n) :
    SSim m n (lhStep m 0 0 (lhStep m 0 0 s pl) pl) s := by
  rcases hpl with rfl | rfl
  · obtain ⟨g, e⟩ := tinvol _ s.T0 s.b0 n (m + n) m s.pivot (init0_tinit m n hn B) h.i0 hpN
    rw [lhStep_zero, lhStep_zero]
    exact ⟨g, tsim_refl _ _ _ _, e⟩
  · obtain ⟨g, e⟩ := tinvol _ s.T1 s.b1 m (m + n) 0 s.pivot (init1_tinit m n hm A) h.i1 hpN
    rw [lhStep_one, lhStep_one]
    exact ⟨tsim_refl _ _ _ _, g, e⟩

/-- after a step in tableau `pl` the entering variable is basic there, the leaving one is not -/
theorem lhStep_exchange (m n : ℕ) (hm : 1 ≤ m) (hn : 1 ≤ n) (A B : ℕ → ℕ → K) (s : LHState K) (pl : ℕ)
    (hpl : pl = 0 ∨ pl = 1) (h : LHFull m n A B s) (hpN : s.pivot < m + n)
    (hent : if pl = 0 then ¬ InB s.b0 s.pivot else ¬ InB s.b1 s.pivot) :
    (if pl = 0 then InB (lhStep m 0 0 s pl).b0 s.pivot ∧
        ¬ InB (lhStep m 0 0 s pl).b0 (lhStep m 0 0 s pl).pivot
      else InB (lhStep m 0 0 s pl).b1 s.pivot ∧
        ¬ InB (lhStep m 0 0 s pl).b1 (lhStep m 0 0 s pl).pivot) := by
  rcases hpl with rfl | rfl
  · rw [if_pos rfl] at hent ⊢
    obtain ⟨_, hr, _, _⟩ := tinv_step _ s.T0 s.b0 n (m + n) m s.pivot (init0_tinit m n hn B) h.i0 hpN
    have hrl : (lexMinRatio s.T0 s.pivot m (0 : K) 0).2 < s.b0.length := by rw [h.i0.can.1]; exact hr
    rw [lhStep_zero]
    constructor
    · exact ⟨_, by simpa using hrl, by rw [getD_set', if_pos ⟨rfl, hrl⟩]⟩
    · exact (lab_step s.b0 [] 0 s.pivot _ hrl
        (fun i i' hi hi' e => tcanon_inj s.T0 s.b0 n (m + n) h.i0.can i i'
          (by rw [← h.i0.can.1]; exact hi) (by rw [← h.i0.can.1]; exact hi') e)
        (fun k _ => Or.inr (by rintro ⟨i, hi, _⟩; simp at hi)) hent
        (Or.inr (by rintro ⟨i, hi, _⟩; simp at hi))).2.1
  · rw [if_neg (by omega)] at hent ⊢
    obtain ⟨_, hr, _, _⟩ := tinv_step _ s.T1 s.b1 m (m + n) 0 s.pivot (init1_tinit m n hm A) h.i1 hpN
    have hrl : (lexMinRatio s.T1 s.pivot 0 (0 : K) 0).2 < s.b1.length := by rw [h.i1.can.1]; exact hr
    rw [lhStep_one]
    constructor
    · exact ⟨_, by simpa using hrl, by rw [getD_set', if_pos ⟨rfl, hrl⟩]⟩
    · exact (lab_step s.b1 [] 0 s.pivot _ hrl
        (fun i i' hi hi' e => tcanon_inj s.T1 s.b1 m (m + n) h.i1.can i i'
          (by rw [← h.i1.can.1]; exact hi) (by rw [← h.i1.can.1]; exact hi') e)
        (fun k _ => Or.inr (by rintro ⟨i, hi, _⟩; simp at hi)) hent
        (Or.inr (by rintro ⟨i, hi, _⟩; simp at hi))).2.1

end QE.C05
