/-
  Lemmas for C08, part 17: Jacobi's differential equation and orthogonality of the recurrence-defined
  Jacobi polynomials of `_qnwbeta1` under any linear functional obeying the integration-by-parts rule of
  the weight `(1−x)^a (1+x)^b` on `[−1, 1]`.
-/
import QEProofs.Lemmas.C08JacDeriv
import QEProofs.Lemmas.C08Gauss
import Mathlib.Algebra.Polynomial.Degree.Lemmas
namespace QE.C08
open Polynomial

set_option linter.unusedSectionVars false

variable {K : Type} [Field K] [LinearOrder K] [IsStrictOrderedRing K]

theorem one_sub_X_sq_ne_zero : (1 - X ^ 2 : K[X]) ≠ 0 := by
  intro h
  have := congrArg (Polynomial.eval 0) h
  simp at this

/-- Jacobi's differential equation:
    `(1 − X²) Pₙ'' + (b − a − (a+b+2) X) Pₙ' + n (n + a + b + 1) Pₙ = 0` -/
theorem jacobiPoly_ode (a b : K) (ha : -1 < a) (hb : -1 < b) (n : Nat) :
    (1 - X ^ 2) * derivative (derivative (jacobiPoly a b n))
      + (C b - C a - (C a + C b + 2) * X) * derivative (jacobiPoly a b n)
      + (n : K[X]) * ((n : K[X]) + (C a + C b) + 1) * jacobiPoly a b n = 0 := by
  cases n with
  | zero => simp [jacobiPoly]
  | succ n =>
    obtain ⟨hD, hE⟩ := jacobiPoly_deriv_pair a b ha hb n
    have hdD := congrArg derivative hD
    simp only [derivative_mul, derivative_sub, derivative_add, derivative_natCast, derivative_X, derivative_C,
      derivative_one, derivative_X_pow, derivative_ofNat, zero_mul, zero_add, add_zero, mul_one, zero_sub,
      sub_zero, mul_zero, C_eq_natCast, Nat.add_one_sub_one, pow_one] at hdD
    have htauK : ((2 * (n + 1) : Nat) : K) + (a + b) ≠ 0 := by
      have h2 : (2 : K) ≤ ((2 * (n + 1) : Nat) : K) := by
        have : 2 ≤ 2 * (n + 1) := by omega
        exact_mod_cast this
      have : (0 : K) < ((2 * (n + 1) : Nat) : K) + (a + b) := by linarith
      exact this.ne'
    have htau : (((2 * (n + 1) : Nat) : K[X]) + (C a + C b)) ≠ 0 := by
      have e : (((2 * (n + 1) : Nat) : K[X]) + (C a + C b)) = C (((2 * (n + 1) : Nat) : K) + (a + b)) := by
        simp only [C_add, C_eq_natCast]
      rw [e]
      exact C_ne_zero.mpr htauK
    have hK0 : (((2 * (n + 1) : Nat) : K[X]) + (C a + C b)) ^ 2 * (1 - X ^ 2) ≠ 0 :=
      mul_ne_zero (pow_ne_zero 2 htau) one_sub_X_sq_ne_zero
    apply mul_left_cancel₀ hK0
    push_cast at hD hE hdD ⊢
    linear_combination
      ((2 * ((n : K[X]) + 1) + (C a + C b)) * (1 - X ^ 2)) * hdD
      - (((n : K[X]) + 1 + (C a + C b)) * ((2 * ((n : K[X]) + 1) + (C a + C b)) * X + C a - C b)) * hD
      + (2 * ((n : K[X]) + 1 + C a) * ((n : K[X]) + 1 + C b)) * hE

/-- **Pairwise orthogonality** under any linear `Λ` with
    `Λ((1 − X²) f' + (b − a − (a+b+2) X) f) = 0` for all polynomials `f`
    (integration by parts against `(1−x)^a (1+x)^b` on `[−1, 1]`), for `a, b > −1` -/
theorem jacobiPoly_orthogonal (a b : K) (ha : -1 < a) (hb : -1 < b) (Λ : K[X] →ₗ[K] K)
    (hIBP : ∀ f : K[X], Λ ((1 - X ^ 2) * derivative f + (C b - C a - (C a + C b + 2) * X) * f) = 0)
    (n m : Nat) (hnm : n ≠ m) : Λ (jacobiPoly a b n * jacobiPoly a b m) = 0 := by
  have green : ∀ i j : Nat,
      -((i : K) * ((i : K) + (a + b) + 1)) * Λ (jacobiPoly a b i * jacobiPoly a b j)
        + Λ ((1 - X ^ 2) * derivative (jacobiPoly a b i) * derivative (jacobiPoly a b j)) = 0 := by
    intro i j
    have hh := hIBP (derivative (jacobiPoly a b i) * jacobiPoly a b j)
    have hode := jacobiPoly_ode a b ha hb i
    have e : (1 - X ^ 2) * derivative (derivative (jacobiPoly a b i) * jacobiPoly a b j)
          + (C b - C a - (C a + C b + 2) * X) * (derivative (jacobiPoly a b i) * jacobiPoly a b j)
        = (-((i : K) * ((i : K) + (a + b) + 1))) • (jacobiPoly a b i * jacobiPoly a b j)
          + (1 - X ^ 2) * derivative (jacobiPoly a b i) * derivative (jacobiPoly a b j) := by
      rw [smul_eq_C_mul, derivative_mul]
      simp only [C_neg, C_mul, C_add, C_1, C_eq_natCast]
      linear_combination (jacobiPoly a b j) * hode
    rw [e, map_add, map_smul, smul_eq_mul] at hh
    exact hh
  have g1 := green n m
  have g2 := green m n
  have hsym : Λ ((1 - X ^ 2) * derivative (jacobiPoly a b m) * derivative (jacobiPoly a b n))
      = Λ ((1 - X ^ 2) * derivative (jacobiPoly a b n) * derivative (jacobiPoly a b m)) := by
    congr 1; ring
  have hcomm : Λ (jacobiPoly a b m * jacobiPoly a b n) = Λ (jacobiPoly a b n * jacobiPoly a b m) := by
    congr 1; ring
  rw [hsym, hcomm] at g2
  have hdiff : (((m : K) - (n : K)) * ((m : K) + (n : K) + (a + b) + 1))
      * Λ (jacobiPoly a b n * jacobiPoly a b m) = 0 := by
    linear_combination g1 - g2
  rcases mul_eq_zero.mp hdiff with h0 | h0
  · exfalso
    rcases mul_eq_zero.mp h0 with h1 | h1
    · have h' : (m : K) = (n : K) := by linear_combination h1
      exact hnm (by exact_mod_cast h'.symm)
    · have hmn : (1 : K) ≤ (m : K) + (n : K) := by
        have : 1 ≤ m + n := by omega
        exact_mod_cast this
      linarith
  · exact h0

/-- coefficients of `P_{n+2}` from the recurrence -/
theorem jacobiPoly_coeff_succ (a b : K) (n k : Nat) :
    (jacobiPoly a b (n + 2)).coeff (k + 1)
      = (1 / jacAA a b (n + 2)) *
        (((((2 * (n + 2) : Nat) : K)) + (a + b) - 1) *
            ((a * a - b * b) * (jacobiPoly a b (n + 1)).coeff (k + 1)
              + ((((2 * (n + 2) : Nat) : K)) + (a + b)) * ((((2 * (n + 2) : Nat) : K)) + (a + b) - 2)
                * (jacobiPoly a b (n + 1)).coeff k)
          - 2 * ((((n + 2 - 1 : Nat) : K)) + a) * ((((n + 2 - 1 : Nat) : K)) + b)
              * ((((2 * (n + 2) : Nat) : K)) + (a + b)) * (jacobiPoly a b n).coeff (k + 1)) := by
  have e1 : ((((2 * (n + 2) : Nat) : K[X]) + (C a + C b) - 1) *
          (C a * C a - C b * C b
            + (((2 * (n + 2) : Nat) : K[X]) + (C a + C b)) * (((2 * (n + 2) : Nat) : K[X]) + (C a + C b) - ((2 : Nat) : K[X])) * X))
      = C (((((2 * (n + 2) : Nat) : K)) + (a + b) - 1) * (a * a - b * b))
        + C (((((2 * (n + 2) : Nat) : K)) + (a + b) - 1) * (((((2 * (n + 2) : Nat) : K)) + (a + b))
            * ((((2 * (n + 2) : Nat) : K)) + (a + b) - 2))) * X := by
    simp only [C_mul, C_add, C_sub, C_1, C_eq_natCast, C_ofNat]
    push_cast
    ring
  have e2 : ((2 : Nat) : K[X]) * (((n + 2 - 1 : Nat) : K[X]) + C a) * (((n + 2 - 1 : Nat) : K[X]) + C b)
          * (((2 * (n + 2) : Nat) : K[X]) + (C a + C b))
      = C (2 * ((((n + 2 - 1 : Nat) : K)) + a) * ((((n + 2 - 1 : Nat) : K)) + b)
          * ((((2 * (n + 2) : Nat) : K)) + (a + b))) := by
    simp only [C_mul, C_add, C_eq_natCast, C_ofNat]
    push_cast
    ring
  rw [jacobiPoly, e1, e2, coeff_C_mul, coeff_sub, add_mul, coeff_add, coeff_C_mul, coeff_C_mul, mul_assoc (C _) X,
    coeff_C_mul, coeff_X_mul]
  ring

/-- `Pₙ` has degree exactly `n` for `a, b > −1` -/
theorem jacobiPoly_coeffs (a b : K) (ha : -1 < a) (hb : -1 < b) : ∀ n : Nat,
    (∀ k, n < k → (jacobiPoly a b n).coeff k = 0) ∧ (jacobiPoly a b n).coeff n ≠ 0 := by
  intro n
  induction n using Nat.strongRecOn with
  | _ n ih =>
    match n with
    | 0 =>
      constructor
      · intro k hk
        simp only [jacobiPoly]
        rw [coeff_one, if_neg (by omega)]
      · simp [jacobiPoly]
    | 1 =>
      have h1 : jacobiPoly a b 1 = C ((a - b) / 2) + C ((2 + (a + b)) / 2) * X := by
        simp only [jacobiPoly, C_mul, C_add, C_sub, div_eq_mul_inv, one_mul]
        push_cast
        simp only [C_ofNat]
        ring
      constructor
      · intro k hk
        rw [h1, coeff_add, coeff_C, coeff_C_mul, coeff_X, if_neg (by omega), if_neg (by omega)]; ring
      · rw [h1, coeff_add, coeff_C, coeff_C_mul, coeff_X, if_neg (by omega), if_pos rfl]
        have : (0 : K) < 2 + (a + b) := by linarith
        have := this.ne'
        simp only [zero_add, mul_one]
        exact div_ne_zero this (by norm_num)
    | n + 2 =>
      obtain ⟨z1, p1⟩ := ih (n + 1) (by omega)
      obtain ⟨z0, _⟩ := ih n (by omega)
      have haa := jacAA_ne_zero a b ha hb (n + 2) (by omega)
      have hjK : (4 : K) ≤ ((2 * (n + 2) : Nat) : K) := by
        have : 4 ≤ 2 * (n + 2) := by omega
        exact_mod_cast this
      constructor
      · intro k hk
        obtain ⟨k', rfl⟩ : ∃ k', k = k' + 1 := ⟨k - 1, by omega⟩
        rw [jacobiPoly_coeff_succ, z1 (k' + 1) (by omega), z1 k' (by omega), z0 (k' + 1) (by omega)]
        ring
      · rw [jacobiPoly_coeff_succ, z1 (n + 1 + 1) (by omega), z0 (n + 1 + 1) (by omega)]
        have t1 : (0 : K) < ((2 * (n + 2) : Nat) : K) + (a + b) - 1 := by linarith
        have t2 : (0 : K) < ((2 * (n + 2) : Nat) : K) + (a + b) := by linarith
        have t3 : (0 : K) < ((2 * (n + 2) : Nat) : K) + (a + b) - 2 := by linarith
        have hne : (1 / jacAA a b (n + 2)) ≠ 0 := one_div_ne_zero haa
        have : (((2 * (n + 2) : Nat) : K) + (a + b) - 1) *
            ((((2 * (n + 2) : Nat) : K) + (a + b)) * (((2 * (n + 2) : Nat) : K) + (a + b) - 2)
              * (jacobiPoly a b (n + 1)).coeff (n + 1)) ≠ 0 :=
          mul_ne_zero t1.ne' (mul_ne_zero (mul_ne_zero t2.ne' t3.ne') p1)
        simp only [mul_zero, zero_add, sub_zero]
        exact mul_ne_zero hne this

theorem jacobiPoly_degree (a b : K) (ha : -1 < a) (hb : -1 < b) (n : Nat) :
    (jacobiPoly a b n).degree = (n : WithBot Nat) := by
  obtain ⟨zs, lne⟩ := jacobiPoly_coeffs a b ha hb n
  have h1 : (jacobiPoly a b n).natDegree ≤ n := natDegree_le_iff_coeff_eq_zero.mpr zs
  have h2 : n ≤ (jacobiPoly a b n).natDegree := le_natDegree_of_ne_zero lne
  have hne : jacobiPoly a b n ≠ 0 := by
    intro h0; rw [h0, coeff_zero] at lne; exact lne rfl
  rw [degree_eq_natDegree hne, le_antisymm h1 h2]

theorem jacobiPoly_orthogonal_lower (a b : K) (ha : -1 < a) (hb : -1 < b) (Λ : K[X] →ₗ[K] K)
    (hIBP : ∀ f : K[X], Λ ((1 - X ^ 2) * derivative f + (C b - C a - (C a + C b + 2) * X) * f) = 0) (n : Nat) :
    ∀ (d : Nat) (q : K[X]), q.natDegree ≤ d → d < n → Λ (jacobiPoly a b n * q) = 0 := by
  intro d
  induction d with
  | zero =>
    intro q hq hn
    have hqC : q = C (q.coeff 0) := eq_C_of_natDegree_le_zero hq
    have h0 := jacobiPoly_orthogonal a b ha hb Λ hIBP n 0 (by omega)
    rw [hqC]
    have e : jacobiPoly a b n * C (q.coeff 0) = (q.coeff 0) • (jacobiPoly a b n * jacobiPoly a b 0) := by
      rw [smul_eq_C_mul]; simp [jacobiPoly]; ring
    rw [e, map_smul, h0, smul_zero]
  | succ d ih =>
    intro q hq hn
    obtain ⟨zs, lne⟩ := jacobiPoly_coeffs a b ha hb (d + 1)
    set cc : K := q.coeff (d + 1) / (jacobiPoly a b (d + 1)).coeff (d + 1) with hcc
    have hq' : (q - C cc * jacobiPoly a b (d + 1)).natDegree ≤ d := by
      rw [natDegree_le_iff_coeff_eq_zero]
      intro N hN
      rw [coeff_sub, coeff_C_mul]
      by_cases hN1 : N = d + 1
      · subst hN1
        rw [hcc]; field_simp; ring
      · have hN2 : d + 1 < N := by omega
        rw [zs N hN2, coeff_eq_zero_of_natDegree_lt (lt_of_le_of_lt hq hN2)]
        ring
    have h1 := ih (q - C cc * jacobiPoly a b (d + 1)) hq' (by omega)
    have h2 := jacobiPoly_orthogonal a b ha hb Λ hIBP n (d + 1) (by omega)
    have e : jacobiPoly a b n * q
        = jacobiPoly a b n * (q - C cc * jacobiPoly a b (d + 1)) + cc • (jacobiPoly a b n * jacobiPoly a b (d + 1)) := by
      rw [smul_eq_C_mul]; ring
    rw [e, map_add, map_smul, h1, h2, smul_zero, add_zero]

theorem jacobiPoly_orth_degree (a b : K) (ha : -1 < a) (hb : -1 < b) (Λ : K[X] →ₗ[K] K)
    (hIBP : ∀ f : K[X], Λ ((1 - X ^ 2) * derivative f + (C b - C a - (C a + C b + 2) * X) * f) = 0) (n : Nat)
    (q : K[X]) (hq : q.degree < (n : WithBot Nat)) : Λ (jacobiPoly a b n * q) = 0 := by
  by_cases hq0 : q = 0
  · rw [hq0, mul_zero, map_zero]
  · have : q.natDegree < n := (natDegree_lt_iff_degree_lt hq0).mpr hq
    exact jacobiPoly_orthogonal_lower a b ha hb Λ hIBP n q.natDegree q (le_refl _) this

/-- moments of the normalised weight `(1−x)^a (1+x)^b` on `[−1, 1]`, by the recurrence the
    integration-by-parts rule dictates: `μ₀ = 1`, `μ₁ = (b−a)/(a+b+2)`,
    `μ_{k+2} = ((k+1) μ_k + (b−a) μ_{k+1})/(k+1+a+b+2)` -/
def jacMoment (a b : K) : Nat → K
  | 0 => 1
  | 1 => (b - a) / (a + b + 2)
  | k + 2 => (((k + 1 : Nat) : K) * jacMoment a b k + (b - a) * jacMoment a b (k + 1))
      / (((k + 1 : Nat) : K) + (a + b + 2))

noncomputable def jacFunctional (a b : K) : K[X] →ₗ[K] K :=
  Polynomial.lsum fun k => (jacMoment a b k) • (LinearMap.id : K →ₗ[K] K)

theorem jacFunctional_monomial (a b : K) (k : Nat) (c : K) :
    jacFunctional a b (monomial k c) = c * jacMoment a b k := by
  simp only [jacFunctional, Polynomial.lsum_apply]
  rw [Polynomial.sum_monomial_index]
  · simp only [LinearMap.smul_apply, LinearMap.id_apply, smul_eq_mul]; ring
  · simp

/-- it obeys the integration-by-parts rule of the weight `(1−x)^a (1+x)^b` (for `a, b > −1`) -/
theorem jacFunctional_ibp (a b : K) (ha : -1 < a) (hb : -1 < b) (f : K[X]) :
    jacFunctional a b ((1 - X ^ 2) * derivative f + (C b - C a - (C a + C b + 2) * X) * f) = 0 := by
  induction f using Polynomial.induction_on' with
  | add p q hp hq =>
    have e : (1 - X ^ 2) * derivative (p + q) + (C b - C a - (C a + C b + 2) * X) * (p + q)
        = ((1 - X ^ 2) * derivative p + (C b - C a - (C a + C b + 2) * X) * p)
          + ((1 - X ^ 2) * derivative q + (C b - C a - (C a + C b + 2) * X) * q) := by
      rw [derivative_add]; ring
    rw [e, map_add, hp, hq, add_zero]
  | monomial k c =>
    cases k with
    | zero =>
      have e : (1 - X ^ 2) * derivative (monomial 0 c) + (C b - C a - (C a + C b + 2) * X) * monomial 0 c
          = monomial 0 ((b - a) * c) - monomial 1 ((a + b + 2) * c) := by
        rw [monomial_zero_left, derivative_C, mul_zero, zero_add]
        simp only [← C_mul_X_pow_eq_monomial, pow_one, pow_zero, mul_one, C_mul, C_add, C_sub, C_ofNat]
        ring
      rw [e, map_sub, jacFunctional_monomial, jacFunctional_monomial]
      have h2 : a + b + 2 ≠ 0 := by
        have : (0 : K) < a + b + 2 := by linarith
        exact this.ne'
      simp only [jacMoment]
      field_simp
      ring
    | succ k =>
      have e : (1 - X ^ 2) * derivative (monomial (k + 1) c)
            + (C b - C a - (C a + C b + 2) * X) * monomial (k + 1) c
          = monomial k (c * ((k + 1 : Nat) : K)) + monomial (k + 1) ((b - a) * c)
            - monomial (k + 2) ((((k + 1 : Nat) : K) + (a + b + 2)) * c) := by
        rw [derivative_monomial, Nat.add_sub_cancel]
        simp only [← C_mul_X_pow_eq_monomial, C_mul, C_add, C_sub, C_ofNat, C_eq_natCast]
        push_cast
        ring
      rw [e, map_sub, map_add, jacFunctional_monomial, jacFunctional_monomial, jacFunctional_monomial]
      have hk : ((k + 1 : Nat) : K) + (a + b + 2) ≠ 0 := by
        have h0 : (0 : K) ≤ ((k + 1 : Nat) : K) := Nat.cast_nonneg _
        have : (0 : K) < ((k + 1 : Nat) : K) + (a + b + 2) := by linarith
        exact this.ne'
      rw [show k + 2 = k + 2 from rfl, jacMoment]
      field_simp
      ring

end QE.C08
