/-
  Lemmas for C18, part 6: indicator rows of the tournament game.
-/
import Mathlib.Data.List.Nodup
import Mathlib.Data.List.Range
import Mathlib.Logic.Function.Iterate
import QEModel.C18
namespace QE.C18

/-- `for i in range(k): row[X[i]] = 1` on a row that already has only 0/1 entries -/
def markRow (row : List Nat) (X : List Nat) : List Nat := X.foldl (fun row x => row.set x 1) row

theorem markRow_spec : ∀ (X : List Nat) (row : List Nat), (∀ x ∈ X, x < row.length) →
    (markRow row X).length = row.length ∧
      ∀ c, (markRow row X).getD c 0 = if c ∈ X then 1 else row.getD c 0
  | [], row, _ => by simp [markRow]
  | x :: X, row, h => by
    have hx : x < row.length := h x (by simp)
    obtain ⟨h1, h2⟩ := markRow_spec X (row.set x 1) (fun y hy => by simpa using h y (List.mem_cons_of_mem _ hy))
    have e : markRow row (x :: X) = markRow (row.set x 1) X := rfl
    rw [e]
    refine ⟨by simpa using h1, ?_⟩
    intro c
    rw [h2 c]
    by_cases hc : c ∈ X
    · simp [hc]
    · rw [if_neg hc, List.getD_eq_getElem?_getD, List.getElem?_set]
      by_cases hcx : x = c
      · subst hcx; simp [hx]
      · have : ¬ c = x := fun e => hcx e.symm
        simp [hcx, this, hc, List.getD_eq_getElem?_getD]

theorem tg1Rows_eq (n : Nat) : ∀ (m : Nat) (X : List Nat),
    tg1Rows (α := Nat) n m X
      = (List.range m).map fun j => markRow (List.replicate n 0) (QE.C16.nextKArray^[j] X)
  | 0, _ => by simp [tg1Rows]
  | m + 1, X => by
    rw [tg1Rows, tg1Rows_eq n m, List.range_succ_eq_map]
    simp [markRow, Function.iterate_succ]

end QE.C18
