/-
  Lemmas for property C05, vertex enumeration: the bit-mask arithmetic of
  `_ints_arr_to_bits` / `_vertex_enumeration_gen` (model `intsToBits`, masks as `Nat`) read as
  statements about label sets.
-/
import QEModel.C05
import Mathlib.Data.Nat.Bitwise

namespace QE.C05
open QE

theorem foldl_or_testBit (k : ℕ) : ∀ (l : List ℕ) (acc : ℕ),
    (l.foldl (fun acc i => acc ||| (1 <<< i)) acc).testBit k = true ↔ (acc.testBit k = true ∨ k ∈ l)
  | [], acc => by simp
  | x :: xs, acc => by
    rw [List.foldl_cons, foldl_or_testBit k xs, Nat.testBit_or, Nat.one_shiftLeft, Nat.testBit_two_pow]
    simp only [Bool.or_eq_true, decide_eq_true_eq, List.mem_cons]
    constructor
    · rintro ((h | h) | h)
      · exact Or.inl h
      · exact Or.inr (Or.inl h.symm)
      · exact Or.inr (Or.inr h)
    · rintro (h | h | h)
      · exact Or.inl (Or.inl h)
      · exact Or.inl (Or.inr h.symm)
      · exact Or.inr h

/-- bit `k` of the mask is set iff `k` is one of the labels -/
theorem intsToBits_testBit' (l : List ℕ) (k : ℕ) : (intsToBits l).testBit k = true ↔ k ∈ l := by
  unfold intsToBits
  rw [foldl_or_testBit]
  simp

theorem intsToBits_lt' (l : List ℕ) (N : ℕ) (h : ∀ k, k ∈ l → k < N) : intsToBits l < 2 ^ N := by
  apply Nat.lt_pow_two_of_testBit
  intro i hi
  rw [Bool.eq_false_iff]
  intro hb
  have := h i ((intsToBits_testBit' l i).mp hb)
  omega

end QE.C05
