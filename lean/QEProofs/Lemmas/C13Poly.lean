/-
  Lemmas for C13, part 5: coefficient extraction (two coefficient lists with the same generating
  function over an infinite field are equal) and the Binomial(n-1, 1/2) law.
-/
import Mathlib.Algebra.Polynomial.Roots
import Mathlib.Data.Nat.Choose.Sum
import Mathlib.Algebra.Order.Field.Basic
import Mathlib.Algebra.CharZero.Infinite
import Mathlib.Algebra.BigOperators.Field
import Mathlib.Tactic.FieldSimp
import QEProofs.Lemmas.C13Rouw
namespace QE.C13
open QE Finset

section
variable {K : Type} [Field K] [Infinite K]

/-- if `Σ_{j<n} r_j x^j = Σ_{j<n} r'_j x^j` for every `x` of an infinite field then `r = r'` on `range n` -/
theorem coeff_ext (n : ℕ) (r r' : ℕ → K)
    (h : ∀ x : K, ∑ j ∈ range n, r j * x ^ j = ∑ j ∈ range n, r' j * x ^ j) :
    ∀ j, j < n → r j = r' j := by
  have hPQ : (∑ j ∈ range n, Polynomial.C (r j) * Polynomial.X ^ j : Polynomial K)
      = ∑ j ∈ range n, Polynomial.C (r' j) * Polynomial.X ^ j := by
    apply Polynomial.funext
    intro x
    simp only [Polynomial.eval_finsetSum, Polynomial.eval_mul, Polynomial.eval_C, Polynomial.eval_pow,
      Polynomial.eval_X]
    exact h x
  intro j hj
  have := congrArg (fun p : Polynomial K => p.coeff j) hPQ
  simp only [Polynomial.finsetSum_coeff, Polynomial.coeff_C_mul_X_pow] at this
  rw [sum_eq_single j, sum_eq_single j] at this
  · simpa using this
  · intro b _ hb; simp [Ne.symm hb]
  · intro hn; exact absurd (mem_range.mpr hj) hn
  · intro b _ hb; simp [Ne.symm hb]
  · intro hn; exact absurd (mem_range.mpr hj) hn

end

section
variable {K : Type} [Field K] [CharZero K]

/-- **Binomial(n-1, 1/2) is stationary** for the Rouwenhorst matrix with `p = q` (`n = m+2`). -/
theorem rouwMat_stationary (p : K) (m j : ℕ) (hj : j < m + 2) :
    ∑ i ∈ range (m + 2), ((Nat.choose (m + 1) i : K) / 2 ^ (m + 1)) * (rouwMat p p m).get i j
      = (Nat.choose (m + 1) j : K) / 2 ^ (m + 1) := by
  refine coeff_ext (m + 2)
    (fun j => ∑ i ∈ range (m + 2), ((Nat.choose (m + 1) i : K) / 2 ^ (m + 1)) * (rouwMat p p m).get i j)
    (fun j => (Nat.choose (m + 1) j : K) / 2 ^ (m + 1)) ?_ j hj
  intro x
  have hL : ∑ j ∈ range (m + 2),
      (∑ i ∈ range (m + 2), ((Nat.choose (m + 1) i : K) / 2 ^ (m + 1)) * (rouwMat p p m).get i j) * x ^ j
      = ∑ i ∈ range (m + 2), ((Nat.choose (m + 1) i : K) / 2 ^ (m + 1)) * rowE p p m i (fun j => x ^ j) := by
    simp only [sum_mul]
    rw [sum_comm]
    apply sum_congr rfl
    intro i _
    unfold rowE rowExp
    rw [mul_sum]
    apply sum_congr rfl
    intro j _; ring
  rw [hL, sum_congr rfl (fun i hi => by rw [rowE_genfun p p x m i (mem_range.mp hi)])]
  have h1 := add_pow (1 - p + p * x) (p + (1 - p) * x) (m + 1)
  have h2 := add_pow x 1 (m + 1)
  have e1 : ∑ i ∈ range (m + 2), ((Nat.choose (m + 1) i : K) / 2 ^ (m + 1))
        * ((p + (1 - p) * x) ^ (m + 1 - i) * (1 - p + p * x) ^ i)
      = ((1 - p + p * x) + (p + (1 - p) * x)) ^ (m + 1) / 2 ^ (m + 1) := by
    rw [h1, sum_div]
    apply sum_congr rfl
    intro i _; ring
  have e2 : ∑ j ∈ range (m + 2), ((Nat.choose (m + 1) j : K) / 2 ^ (m + 1)) * x ^ j
      = (x + 1) ^ (m + 1) / 2 ^ (m + 1) := by
    rw [h2, sum_div]
    apply sum_congr rfl
    intro i _; simp; ring
  rw [e1, e2]
  congr 1
  ring

/-- every row of the Rouwenhorst matrix with `p = q = 1/2` is the Binomial(n-1, 1/2) law -/
theorem binom_eq_row (m i j : ℕ) (hi : i < m + 2) (hj : j < m + 2) :
    (Nat.choose (m + 1) j : K) / 2 ^ (m + 1) = (rouwMat (1 / 2 : K) (1 / 2) m).get i j := by
  refine coeff_ext (m + 2) (fun j => (Nat.choose (m + 1) j : K) / 2 ^ (m + 1))
    (fun j => (rouwMat (1 / 2 : K) (1 / 2) m).get i j) ?_ j hj
  intro x
  have hg := rowE_genfun (1 / 2 : K) (1 / 2) x m i hi
  unfold rowE rowExp at hg
  rw [hg]
  have h2 := add_pow x 1 (m + 1)
  have e2 : ∑ j ∈ range (m + 2), ((Nat.choose (m + 1) j : K) / 2 ^ (m + 1)) * x ^ j
      = (x + 1) ^ (m + 1) / 2 ^ (m + 1) := by
    rw [h2, sum_div]
    apply sum_congr rfl
    intro i _; simp; ring
  have e3 : m + 1 - i + i = m + 1 := by omega
  have e4 : (1 / 2 + (1 - 1 / 2) * x : K) = (x + 1) / 2 := by ring
  have e5 : (1 - 1 / 2 + 1 / 2 * x : K) = (x + 1) / 2 := by ring
  rw [e2, e4, e5, ← pow_add, e3, div_pow]

end
end QE.C13
