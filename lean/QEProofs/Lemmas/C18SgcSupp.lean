/-
  Lemmas for C18, part 12: in every Nash equilibrium of the SGC game (k ≥ 2) no player puts weight
  on one of the last 2k actions.
-/
import Mathlib.Algebra.Order.BigOperators.Group.Finset
import Mathlib.Algebra.BigOperators.Ring.Finset
import QEProofs.Lemmas.C18SgcDef
import Mathlib.Tactic.Linarith
namespace QE.C18
set_option linter.unusedSectionVars false
open Finset

variable {K : Type} [Field K] [LinearOrder K] [IsStrictOrderedRing K]

/-- expected payoff of player 0's action `i` against the mixed action `y` of player 1 -/
def sgcU0 (k : Nat) (y : Nat → K) (i : Nat) : K := ∑ j ∈ range (4 * k - 1), sgcEntry0 k i j * y j

/-- expected payoff of player 1's action `j` against the mixed action `x` of player 0 -/
def sgcU1 (k : Nat) (x : Nat → K) (j : Nat) : K := ∑ i ∈ range (4 * k - 1), sgcEntry1 k j i * x i

/-- a mixed action on `n` actions -/
def IsMixed (n : Nat) (x : Nat → K) : Prop := (∀ i, 0 ≤ x i) ∧ ∑ i ∈ range n, x i = 1

/-- the partner of an action of the lower block (`m+2h ↔ m+2h+1`) -/
def sgcPartner (k r : Nat) : Nat := if (r - (2 * k - 1)) % 2 = 0 then r + 1 else r - 1

theorem sgc_top_ge_half (k : Nat) (hk : 2 ≤ k) (i j : Nat) (hi : i < 2 * k - 1) (hj : j < 4 * k - 1) :
    (1 / 2 : K) ≤ sgcEntry0 k i j ∧ (1 / 2 : K) ≤ sgcEntry1 k i j := by
  obtain ⟨h0, h1⟩ := sgc_def' (K := K) k hk i j (by omega) hj
  rw [h0, h1]
  constructor <;> split_ifs <;> norm_num

theorem sgcU_top (k : Nat) (hk : 2 ≤ k) (z : Nat → K) (hz : IsMixed (4 * k - 1) z) (i : Nat)
    (hi : i < 2 * k - 1) : (1 / 2 : K) ≤ sgcU0 k z i ∧ (1 / 2 : K) ≤ sgcU1 k z i := by
  have hsum : (1 / 2 : K) = ∑ j ∈ range (4 * k - 1), (1 / 2) * z j := by
    rw [← mul_sum, hz.2]; ring
  unfold sgcU0 sgcU1
  constructor
  · rw [hsum]
    apply sum_le_sum
    intro j hj
    exact mul_le_mul_of_nonneg_right (sgc_top_ge_half k hk i j hi (mem_range.1 hj)).1 (hz.1 j)
  · rw [hsum]
    apply sum_le_sum
    intro j hj
    exact mul_le_mul_of_nonneg_right (sgc_top_ge_half k hk i j hi (mem_range.1 hj)).2 (hz.1 j)

theorem sgcU0_bottom (k : Nat) (hk : 2 ≤ k) (y : Nat → K) (i : Nat) (hi : 2 * k - 1 ≤ i)
    (hin : i < 4 * k - 1) : sgcU0 k y i = 3 / 4 * y i := by
  unfold sgcU0
  rw [sum_eq_single i]
  · rw [(sgc_def' (K := K) k hk i i hin hin).1]
    have : ¬ i < 2 * k - 1 := by omega
    simp [this]
  · intro j hj hne
    rw [(sgc_def' (K := K) k hk i j hin (mem_range.1 hj)).1]
    have h1 : ¬ i < 2 * k - 1 := by omega
    have h2 : ¬ i = j := fun e => hne e.symm
    simp [h1, h2]
  · intro h; exact absurd (mem_range.2 hin) h

theorem sgcPartner_spec (k r : Nat) (hk : 2 ≤ k) (hr : 2 * k - 1 ≤ r) (hrn : r < 4 * k - 1) :
    2 * k - 1 ≤ sgcPartner k r ∧ sgcPartner k r < 4 * k - 1 ∧ sgcPartner k r ≠ r ∧
      sgcPartner k (sgcPartner k r) = r := by
  unfold sgcPartner
  split_ifs <;> omega

theorem sgcU1_bottom (k : Nat) (hk : 2 ≤ k) (x : Nat → K) (r : Nat) (hr : 2 * k - 1 ≤ r)
    (hrn : r < 4 * k - 1) : sgcU1 k x r = 3 / 4 * x (sgcPartner k r) := by
  obtain ⟨p1, p2, p3, _⟩ := sgcPartner_spec k r hk hr hrn
  unfold sgcU1
  rw [sum_eq_single (sgcPartner k r)]
  · rw [(sgc_def' (K := K) k hk r _ hrn p2).2]
    have h1 : ¬ r < 2 * k - 1 := by omega
    have h2 : 2 * k - 1 ≤ sgcPartner k r ∧ r ≠ sgcPartner k r ∧
        (r - (2 * k - 1)) / 2 = (sgcPartner k r - (2 * k - 1)) / 2 := by
      unfold sgcPartner at p1 p2 p3 ⊢
      split_ifs at p1 p2 p3 ⊢ <;> omega
    simp [h1, h2]
  · intro i hi hne
    rw [(sgc_def' (K := K) k hk r i hrn (mem_range.1 hi)).2]
    have h1 : ¬ r < 2 * k - 1 := by omega
    have h2 : ¬ (2 * k - 1 ≤ i ∧ r ≠ i ∧ (r - (2 * k - 1)) / 2 = (i - (2 * k - 1)) / 2) := by
      unfold sgcPartner at hne
      split_ifs at hne <;> omega
    rw [if_neg h1, if_neg h2]; simp
  · intro h; exact absurd (mem_range.2 p2) h

theorem mixed_pair_le_one (n : Nat) (z : Nat → K) (hz : IsMixed n z) (a b : Nat) (ha : a < n)
    (hb : b < n) (hab : a ≠ b) : z a + z b ≤ 1 := by
  rw [← hz.2, ← sum_pair hab]
  apply sum_le_sum_of_subset_of_nonneg
  · intro t ht
    rcases mem_insert.1 ht with rfl | ht'
    · exact mem_range.2 ha
    · rw [mem_singleton.1 ht']; exact mem_range.2 hb
  · intro t _ _; exact hz.1 t

/-- Nash equilibrium in mixed actions of `sgc_game(k)`: both are mixed actions and every action played
    with positive probability is a best response (each array indexed by the own action first) -/
def SgcNash (k : Nat) (x y : Nat → K) : Prop :=
  IsMixed (4 * k - 1) x ∧ IsMixed (4 * k - 1) y ∧
  (∀ i, i < 4 * k - 1 → 0 < x i → ∀ i', i' < 4 * k - 1 → sgcU0 k y i' ≤ sgcU0 k y i) ∧
  (∀ j, j < 4 * k - 1 → 0 < y j → ∀ j', j' < 4 * k - 1 → sgcU1 k x j' ≤ sgcU1 k x j)

theorem sgc_stepX (k : Nat) (hk : 2 ≤ k) (x y : Nat → K) (h : SgcNash k x y) (a : Nat)
    (ha : 2 * k - 1 ≤ a) (han : a < 4 * k - 1) (hpos : 0 < x a) : (2 / 3 : K) ≤ y a := by
  obtain ⟨_, hy, h0, _⟩ := h
  have h1 := h0 a han hpos 0 (by omega)
  rw [sgcU0_bottom k hk y a ha han] at h1
  have h2 := (sgcU_top k hk y hy 0 (by omega)).1
  linarith

theorem sgc_stepY (k : Nat) (hk : 2 ≤ k) (x y : Nat → K) (h : SgcNash k x y) (a : Nat)
    (ha : 2 * k - 1 ≤ a) (han : a < 4 * k - 1) (hpos : 0 < y a) : (2 / 3 : K) ≤ x (sgcPartner k a) := by
  obtain ⟨hx, _, _, h1'⟩ := h
  have h1 := h1' a han hpos 0 (by omega)
  rw [sgcU1_bottom k hk x a ha han] at h1
  have h2 := (sgcU_top k hk x hx 0 (by omega)).2
  linarith

/-- in every equilibrium both players put probability 0 on each of the last `2k` actions -/
theorem sgc_nash_support' (k : Nat) (hk : 2 ≤ k) (x y : Nat → K) (h : SgcNash k x y) (i : Nat)
    (hi : 2 * k - 1 ≤ i) (hin : i < 4 * k - 1) : x i = 0 ∧ y i = 0 := by
  obtain ⟨p1, p2, p3, p4⟩ := sgcPartner_spec k i hk hi hin
  have hx := h.1
  have hy := h.2.1
  constructor
  · by_contra hne
    have hpos : 0 < x i := lt_of_le_of_ne (hx.1 i) (Ne.symm hne)
    have a1 := sgc_stepX k hk x y h i hi hin hpos
    have a2 := sgc_stepY k hk x y h i hi hin (by linarith)
    have a3 := sgc_stepX k hk x y h _ p1 p2 (by linarith)
    have := mixed_pair_le_one _ y hy i (sgcPartner k i) hin p2 (Ne.symm p3)
    linarith
  · by_contra hne
    have hpos : 0 < y i := lt_of_le_of_ne (hy.1 i) (Ne.symm hne)
    have a1 := sgc_stepY k hk x y h i hi hin hpos
    have a2 := sgc_stepX k hk x y h _ p1 p2 (by linarith)
    have a3 := sgc_stepY k hk x y h _ p1 p2 (by linarith)
    rw [p4] at a3
    have := mixed_pair_le_one _ x hx i (sgcPartner k i) hin p2 (Ne.symm p3)
    linarith

end QE.C18
