/-
  Lemmas for C08, part 14: pairwise orthogonality of the recurrence-defined Legendre polynomials
  under any linear functional obeying the fundamental theorem of calculus on `[-1, 1]`.
-/
import QEProofs.Lemmas.C08Deriv
import Mathlib.Algebra.Polynomial.Degree.Lemmas
namespace QE.C08
open Polynomial

set_option linter.unusedSectionVars false

variable {K : Type} [Field K] [LinearOrder K] [IsStrictOrderedRing K]

/-- Legendre's differential equation for the recurrence-defined polynomials:
    `((1 − X²) Pₙ')' = −n(n+1) Pₙ` -/
theorem legendrePoly_ode (n : Nat) :
    derivative ((1 - X ^ 2) * derivative (legendrePoly n : K[X]))
      = -(((n : K[X])) * ((n : K[X]) + 1)) * legendrePoly n := by
  cases n with
  | zero => simp [legendrePoly]
  | succ n =>
    obtain ⟨hE, hD⟩ := legendrePoly_deriv_pair (K := K) n
    have h1 : (1 - X ^ 2) * derivative (legendrePoly (n + 1) : K[X])
        = -(((n + 1 : Nat) : K[X]) * (X * legendrePoly (n + 1) - legendrePoly n)) := by
      linear_combination -hD
    rw [h1]
    simp only [derivative_neg, derivative_mul, derivative_sub, derivative_natCast, derivative_X, zero_mul,
      zero_add, one_mul]
    push_cast at hE ⊢
    linear_combination (-((n : K[X]) + 1)) * hE

/-- **Pairwise orthogonality.** For any linear `Λ` with `Λ(f') = f(1) − f(−1)` for all polynomials
    (i.e. `Λ = ∫_{−1}^{1}`), `Λ(Pₙ Pₘ) = 0` whenever `n ≠ m`. -/
theorem legendrePoly_orthogonal (Λ : K[X] →ₗ[K] K)
    (hFTC : ∀ f : K[X], Λ (derivative f) = f.eval 1 - f.eval (-1)) (n m : Nat) (hnm : n ≠ m) :
    Λ (legendrePoly n * legendrePoly m) = 0 := by
  -- Green's identity from the ODE
  have green : ∀ i j : Nat,
      -(((i : K)) * ((i : K) + 1)) * Λ (legendrePoly i * legendrePoly j)
        + Λ ((1 - X ^ 2) * derivative (legendrePoly i : K[X]) * derivative (legendrePoly j)) = 0 := by
    intro i j
    have h := hFTC ((1 - X ^ 2) * derivative (legendrePoly i : K[X]) * legendrePoly j)
    have hz : ((1 - X ^ 2) * derivative (legendrePoly i : K[X]) * legendrePoly j).eval 1
        - ((1 - X ^ 2) * derivative (legendrePoly i : K[X]) * legendrePoly j).eval (-1) = 0 := by
      simp
    rw [hz, derivative_mul, legendrePoly_ode] at h
    have e : -(((i : K[X])) * ((i : K[X]) + 1)) * legendrePoly i * legendrePoly j
        = (-(((i : K)) * ((i : K) + 1))) • (legendrePoly i * legendrePoly j) := by
      rw [smul_eq_C_mul]
      simp only [C_neg, C_mul, C_add, C_1, C_eq_natCast]
      ring
    rw [e, map_add, map_smul, smul_eq_mul] at h
    exact h
  have g1 := green n m
  have g2 := green m n
  have hsym : Λ ((1 - X ^ 2) * derivative (legendrePoly m : K[X]) * derivative (legendrePoly n))
      = Λ ((1 - X ^ 2) * derivative (legendrePoly n : K[X]) * derivative (legendrePoly m)) := by
    congr 1; ring
  have hcomm : Λ (legendrePoly m * legendrePoly n) = Λ (legendrePoly n * legendrePoly m) := by
    congr 1; ring
  rw [hsym, hcomm] at g2
  have hdiff : (((m : K)) * ((m : K) + 1) - (n : K) * ((n : K) + 1)) * Λ (legendrePoly n * legendrePoly m) = 0 := by
    linear_combination g1 - g2
  rcases mul_eq_zero.mp hdiff with h | h
  · exfalso
    have h' : ((m * (m + 1) : Nat) : K) = ((n * (n + 1) : Nat) : K) := by
      push_cast; linear_combination h
    have h'' : m * (m + 1) = n * (n + 1) := by exact_mod_cast h'
    rcases Nat.lt_or_gt_of_ne hnm with hlt | hlt
    · have : n * (n + 1) < m * (m + 1) := Nat.mul_lt_mul'' hlt (by omega)
      omega
    · have : m * (m + 1) < n * (n + 1) := Nat.mul_lt_mul'' hlt (by omega)
      omega
  · exact h

/-- coefficients of `P_{n+2}` from the recurrence -/
theorem legendrePoly_coeff_succ (n k : Nat) :
    (legendrePoly (n + 2) : K[X]).coeff (k + 1)
      = (1 / ((n + 2 : Nat) : K)) * (((2 * n + 3 : Nat) : K) * (legendrePoly (n + 1) : K[X]).coeff k
          - ((n + 1 : Nat) : K) * (legendrePoly n : K[X]).coeff (k + 1)) := by
  rw [legendrePoly, coeff_C_mul, coeff_sub]
  congr 2
  · rw [mul_assoc, ← C_eq_natCast, coeff_C_mul, coeff_X_mul]
  · rw [← C_eq_natCast, coeff_C_mul]

/-- `Pₙ` has degree exactly `n` with a positive leading coefficient -/
theorem legendrePoly_coeffs : ∀ n : Nat,
    (∀ k, n < k → (legendrePoly n : K[X]).coeff k = 0) ∧ 0 < (legendrePoly n : K[X]).coeff n := by
  intro n
  induction n using Nat.strongRecOn with
  | _ n ih =>
    match n with
    | 0 =>
      constructor
      · intro k hk
        simp only [legendrePoly]
        rw [coeff_one, if_neg (by omega)]
      · simp [legendrePoly]
    | 1 =>
      constructor
      · intro k hk
        simp only [legendrePoly]
        rw [coeff_X, if_neg (by omega)]
      · simp [legendrePoly]
    | n + 2 =>
      obtain ⟨z1, p1⟩ := ih (n + 1) (by omega)
      obtain ⟨z0, _⟩ := ih n (by omega)
      have hpos : (0 : K) < 1 / ((n + 2 : Nat) : K) := by
        apply div_pos one_pos
        have : 0 < n + 2 := by omega
        exact_mod_cast this
      constructor
      · intro k hk
        obtain ⟨k', rfl⟩ : ∃ k', k = k' + 1 := ⟨k - 1, by omega⟩
        rw [legendrePoly_coeff_succ, z1 k' (by omega), z0 (k' + 1) (by omega)]
        ring
      · rw [legendrePoly_coeff_succ, z0 (n + 1 + 1) (by omega)]
        have h3 : (0 : K) < ((2 * n + 3 : Nat) : K) := by
          have : 0 < 2 * n + 3 := by omega
          exact_mod_cast this
        have := mul_pos hpos (mul_pos h3 p1)
        simpa using this

/-- **Orthogonality to every polynomial of lower degree**: `Λ(Pₙ · q) = 0` for `natDegree q < n` -/
theorem legendrePoly_orthogonal_lower (Λ : K[X] →ₗ[K] K)
    (hFTC : ∀ f : K[X], Λ (derivative f) = f.eval 1 - f.eval (-1)) (n : Nat) :
    ∀ (d : Nat) (q : K[X]), q.natDegree ≤ d → d < n → Λ (legendrePoly n * q) = 0 := by
  intro d
  induction d with
  | zero =>
    intro q hq hn
    have hqC : q = C (q.coeff 0) := eq_C_of_natDegree_le_zero hq
    have h0 := legendrePoly_orthogonal Λ hFTC n 0 (by omega)
    rw [hqC]
    have e : (legendrePoly n : K[X]) * C (q.coeff 0) = (q.coeff 0) • (legendrePoly n * legendrePoly 0) := by
      rw [smul_eq_C_mul]; simp [legendrePoly]; ring
    rw [e, map_smul, h0, smul_zero]
  | succ d ih =>
    intro q hq hn
    obtain ⟨zs, lpos⟩ := legendrePoly_coeffs (K := K) (d + 1)
    set c : K := q.coeff (d + 1) / (legendrePoly (d + 1) : K[X]).coeff (d + 1) with hc
    have hq' : (q - C c * legendrePoly (d + 1)).natDegree ≤ d := by
      rw [natDegree_le_iff_coeff_eq_zero]
      intro N hN
      rw [coeff_sub, coeff_C_mul]
      by_cases hN1 : N = d + 1
      · subst hN1
        rw [hc]; field_simp; ring
      · have hN2 : d + 1 < N := by omega
        rw [zs N hN2, coeff_eq_zero_of_natDegree_lt (lt_of_le_of_lt hq hN2)]
        ring
    have h1 := ih (q - C c * legendrePoly (d + 1)) hq' (by omega)
    have h2 := legendrePoly_orthogonal Λ hFTC n (d + 1) (by omega)
    have e : (legendrePoly n : K[X]) * q
        = legendrePoly n * (q - C c * legendrePoly (d + 1)) + c • (legendrePoly n * legendrePoly (d + 1)) := by
      rw [smul_eq_C_mul]; ring
    rw [e, map_add, map_smul, h1, h2, smul_zero, add_zero]

theorem legendrePoly_degree (n : Nat) : (legendrePoly n : K[X]).degree = (n : WithBot Nat) := by
  obtain ⟨zs, lpos⟩ := legendrePoly_coeffs (K := K) n
  have h1 : (legendrePoly n : K[X]).natDegree ≤ n := natDegree_le_iff_coeff_eq_zero.mpr zs
  have h2 : n ≤ (legendrePoly n : K[X]).natDegree := le_natDegree_of_ne_zero lpos.ne'
  have hne : (legendrePoly n : K[X]) ≠ 0 := by
    intro h0
    rw [h0, coeff_zero] at lpos
    exact lt_irrefl _ lpos
  rw [degree_eq_natDegree hne, le_antisymm h1 h2]

/-- orthogonality in the `degree <` form used by `gauss_reduction` -/
theorem legendrePoly_orth_degree (Λ : K[X] →ₗ[K] K)
    (hFTC : ∀ f : K[X], Λ (derivative f) = f.eval 1 - f.eval (-1)) (n : Nat) (q : K[X])
    (hq : q.degree < (n : WithBot Nat)) : Λ (legendrePoly n * q) = 0 := by
  by_cases hq0 : q = 0
  · rw [hq0, mul_zero, map_zero]
  · have : q.natDegree < n := (natDegree_lt_iff_degree_lt hq0).mpr hq
    exact legendrePoly_orthogonal_lower Λ hFTC n q.natDegree q (le_refl _) this

/-- the Lebesgue functional on `[-1,1]`: the linear map with `Λ(c·X^k) = c·(1 − (−1)^{k+1})/(k+1)` -/
noncomputable def lebesgue11 : K[X] →ₗ[K] K :=
  Polynomial.lsum fun k => ((1 - (-1 : K) ^ (k + 1)) / ((k + 1 : Nat) : K)) • (LinearMap.id : K →ₗ[K] K)

theorem lebesgue11_monomial (k : Nat) (c : K) :
    lebesgue11 (monomial k c) = c * ((1 ^ (k + 1) - (-1 : K) ^ (k + 1)) / ((k + 1 : Nat) : K)) := by
  simp only [lebesgue11, Polynomial.lsum_apply]
  rw [Polynomial.sum_monomial_index]
  · simp only [LinearMap.smul_apply, LinearMap.id_apply, smul_eq_mul, one_pow]; ring
  · simp

/-- it obeys the fundamental theorem of calculus on polynomials -/
theorem lebesgue11_ftc (f : K[X]) : lebesgue11 (derivative f) = f.eval 1 - f.eval (-1) := by
  induction f using Polynomial.induction_on' with
  | add p q hp hq => rw [derivative_add, map_add, hp, hq, eval_add, eval_add]; ring
  | monomial k c =>
    cases k with
    | zero => simp [lebesgue11]
    | succ k =>
      rw [derivative_monomial]
      simp only [Nat.add_sub_cancel, lebesgue11_monomial, eval_monomial]
      have h : ((k + 1 : Nat) : K) ≠ 0 := by
        have : k + 1 ≠ 0 := by omega
        exact_mod_cast this
      field_simp

end QE.C08
