/-
  Lemmas for C17: the generic helpers of QEModel.C17 read over an ordered field.
-/
import Mathlib.Algebra.Order.Field.Basic
import Mathlib.Algebra.Order.Ring.Abs
import Mathlib.Tactic.Linarith
import Mathlib.Tactic.Ring
import Mathlib.Tactic.FieldSimp
import QEModel.C17
namespace QE.C17
set_option linter.unusedSectionVars false

section
variable {K : Type} [Field K] [LinearOrder K] [IsStrictOrderedRing K]

theorem absv_eq_abs (x : K) : absv x = |x| := by
  unfold absv
  split
  · next h => rw [abs_of_neg h]
  · next h => rw [abs_of_nonneg (not_lt.mp h)]

theorem two_eq : (two : K) = 2 := by unfold two; norm_num
theorem three_eq : (three : K) = 3 := by unfold three; norm_num
theorem half_eq : (half : K) = 1 / 2 := by unfold half; norm_num

theorem beq_zero_iff (x : K) : (x == 0) = true ↔ x = 0 := beq_iff_eq

/-- sign rule used by the bracket invariants: `u·v < 0` and `0 ≤ v·w`, `w ≠ 0` give `u·w < 0` -/
theorem mul_neg_of_mul_neg_of_mul_pos {u v w : K} (h1 : u * v < 0) (h2 : 0 < v * w) : u * w < 0 := by
  have hv : v ≠ 0 := by rintro rfl; simp at h1
  have hvv : 0 < v * v := mul_self_pos.mpr hv
  have : (u * w) * (v * v) < 0 := by
    have : (u * w) * (v * v) = (u * v) * (v * w) := by ring
    rw [this]; exact mul_neg_of_neg_of_pos h1 h2
  by_contra hc
  have hc' : 0 ≤ u * w := not_lt.mp hc
  have := mul_nonneg hc' hvv.le
  linarith

theorem mul_nonpos_of_mul_neg_of_mul_nonneg {u v w : K} (h1 : u * v < 0) (h2 : 0 ≤ v * w) : u * w ≤ 0 := by
  have hv : v ≠ 0 := by rintro rfl; simp at h1
  have hvv : 0 < v * v := mul_self_pos.mpr hv
  have : (u * w) * (v * v) ≤ 0 := by
    have : (u * w) * (v * v) = (u * v) * (v * w) := by ring
    rw [this]; exact mul_nonpos_of_nonpos_of_nonneg h1.le h2
  by_contra hc
  have hc' : 0 < u * w := not_le.mp hc
  have := mul_pos hc' hvv
  linarith

end
end QE.C17
