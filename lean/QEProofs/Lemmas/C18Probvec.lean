/-
  Lemmas for C18, part 2: `_probvec` (sorted-uniform spacings) over an ordered field.
-/
import Mathlib.Algebra.Order.Field.Basic
import Mathlib.Algebra.BigOperators.Group.List.Basic
import Mathlib.Data.List.Nodup
import Mathlib.Data.List.Perm.Basic
import Mathlib.Tactic.Linarith
import Mathlib.Tactic.Ring
import QEModel.C18
namespace QE.C18
set_option linter.unusedSectionVars false

variable {K : Type} [Field K] [LinearOrder K] [IsStrictOrderedRing K]

theorem spacings_length (p : K) : ∀ xs : List K, (spacings p xs).length = xs.length + 1
  | [] => rfl
  | x :: xs => by simp [spacings, spacings_length x xs]

/-- telescoping: the spacings after `p` add up to `1 - p` (no order needed) -/
theorem spacings_sum : ∀ (xs : List K) (p : K), (spacings p xs).sum = 1 - p
  | [], p => by simp [spacings]
  | x :: xs, p => by
    simp only [spacings, List.sum_cons]
    rw [spacings_sum xs x]; ring

theorem spacings_nonneg : ∀ (xs : List K) (p : K), List.Pairwise (· ≤ ·) (p :: xs) →
    (∀ x ∈ p :: xs, x ≤ 1) → ∀ y ∈ spacings p xs, 0 ≤ y
  | [], p, _, h1 => by
    intro y hy
    have hp := h1 p (by simp)
    simp [spacings] at hy; subst hy; linarith
  | x :: xs, p, hs, h1 => by
    intro y hy
    simp only [spacings, List.mem_cons] at hy
    rcases hy with rfl | hy
    · have := (List.pairwise_cons.1 hs).1 x (by simp); linarith
    · exact spacings_nonneg xs x (List.pairwise_cons.1 hs).2 (fun z hz => h1 z (List.mem_cons_of_mem _ hz)) y hy

/-- all spacings are strictly positive iff the (sorted) values strictly increase and stay below 1 -/
theorem spacings_pos_iff : ∀ (xs : List K) (p : K), List.Pairwise (· ≤ ·) (p :: xs) →
    ((∀ y ∈ spacings p xs, 0 < y) ↔
      (List.Pairwise (· < ·) (p :: xs) ∧ ∀ x ∈ p :: xs, x < 1))
  | [], p, _ => by
    simp [spacings]
  | x :: xs, p, hs => by
    have hs' := (List.pairwise_cons.1 hs).2
    have hpx : ∀ y ∈ x :: xs, p ≤ y := (List.pairwise_cons.1 hs).1
    have hxy : ∀ y ∈ xs, x ≤ y := (List.pairwise_cons.1 hs').1
    have ih := spacings_pos_iff xs x hs'
    constructor
    · intro h
      have h0 : 0 < x - p := h _ (by simp [spacings])
      have hrest : ∀ y ∈ spacings x xs, 0 < y := fun y hy => h y (by simp [spacings, hy])
      obtain ⟨hlt, h1⟩ := ih.1 hrest
      refine ⟨List.pairwise_cons.2 ⟨?_, hlt⟩, ?_⟩
      · intro y hy
        rcases List.mem_cons.1 hy with rfl | hy'
        · linarith
        · have := hxy y hy'; linarith
      · intro z hz
        rcases List.mem_cons.1 hz with rfl | hz'
        · have := h1 x (by simp); linarith
        · exact h1 z hz'
    · rintro ⟨hlt, h1⟩ y hy
      simp only [spacings, List.mem_cons] at hy
      rcases hy with rfl | hy
      · have := (List.pairwise_cons.1 hlt).1 x (by simp); linarith
      · exact ih.2 ⟨(List.pairwise_cons.1 hlt).2, fun z hz => h1 z (List.mem_cons_of_mem _ hz)⟩ y hy

/-! #### the sort -/

theorem sortAsc_perm (r : List K) : (sortAsc r).Perm r := List.mergeSort_perm r _

theorem sortAsc_sorted (r : List K) : (sortAsc r).Pairwise (· ≤ ·) := by
  have h := List.pairwise_mergeSort (le := fun a b : K => decide (a ≤ b))
    (by intro a b c h1 h2; simp only [decide_eq_true_eq] at *; exact le_trans h1 h2)
    (by intro a b; simp only [Bool.or_eq_true, decide_eq_true_eq]; exact le_total a b) r
  unfold sortAsc
  exact h.imp (by intro a b hab; simpa using hab)

theorem sortAsc_mem (r : List K) (x : K) : x ∈ sortAsc r ↔ x ∈ r := (sortAsc_perm r).mem_iff

theorem sortAsc_length (r : List K) : (sortAsc r).length = r.length := (sortAsc_perm r).length_eq

/-- a sorted list is strictly sorted iff it has no repeated entry -/
theorem sorted_lt_iff_nodup (s : List K) (hs : s.Pairwise (· ≤ ·)) :
    s.Pairwise (· < ·) ↔ s.Nodup := by
  constructor
  · intro h; exact h.imp (fun hab => ne_of_lt hab)
  · intro h
    have := hs.and h
    exact this.imp (fun ⟨h1, h2⟩ => lt_of_le_of_ne h1 h2)

end QE.C18
