/-
  C12 helper lemmas, part 5: `stationary_distributions` returns stationary moments.

  * the permutation matrix of `__partition` is orthogonal (`permMat_orth`);
  * a row passing the three tests is a unit row and its `C` row vanishes (`constRow_unit`,
    over a linearly ordered field: a sum of squares);
  * in sorted coordinates `As = P A P'`, `Cs = P C` satisfy `As Ec = Ec + E A21`, `As E = E A22`,
    `Cs = E C2` for the coordinate embeddings `Ec` (constant block), `E` (the rest);
  * hence the assembled `mu_x`, `Sigma_x` satisfy `A mu_x = mu_x`, `Sigma_x = A Sigma_x A' + CC'`.
-/
import QEProofs.Lemmas.C12Lss
import Mathlib.Algebra.Order.Field.Basic
import Mathlib.Algebra.Order.BigOperators.Group.Finset
import Mathlib.Tactic.Linarith
import Mathlib.Tactic.Positivity

set_option linter.unusedSectionVars false
set_option linter.unusedVariables false

namespace QE.C12
open QE QE.MatAlg Matrix Finset
open QE.C06 (toMat Dim dim_mmul dim_madd dim_msub dim_mT dim_smul dim_ident toMat_mmul toMat_madd
  toMat_msub toMat_mT toMat_smul toMat_ident SolSpec)

/-! ### list facts -/

theorem perm_getD_lt {n : ℕ} {idx : List ℕ} (hp : idx.Perm (List.range n)) {i : ℕ} (hi : i < n) :
    idx.getD i n < n := by
  have hl : idx.length = n := by rw [hp.length_eq, List.length_range]
  have hi' : i < idx.length := by rw [hl]; exact hi
  rw [List.getD_eq_getElem?_getD, List.getElem?_eq_getElem hi', Option.getD_some]
  have : idx[i] ∈ List.range n := hp.mem_iff.mp (List.getElem_mem hi')
  exact List.mem_range.mp this

theorem perm_getD_inj {n : ℕ} {idx : List ℕ} (hp : idx.Perm (List.range n)) {i j : ℕ} (hi : i < n)
    (hj : j < n) (h : idx.getD i n = idx.getD j n) : i = j := by
  have hl : idx.length = n := by rw [hp.length_eq, List.length_range]
  have hi' : i < idx.length := by rw [hl]; exact hi
  have hj' : j < idx.length := by rw [hl]; exact hj
  rw [List.getD_eq_getElem?_getD, List.getD_eq_getElem?_getD, List.getElem?_eq_getElem hi',
    List.getElem?_eq_getElem hj', Option.getD_some, Option.getD_some] at h
  have hnd : idx.Nodup := hp.nodup_iff.mpr List.nodup_range
  exact (List.Nodup.getElem_inj_iff hnd).mp h

section
variable {K : Type} [Field K] [LinearOrder K] [IsStrictOrderedRing K]

/-! ### the permutation matrix -/

theorem permMat_get (n : ℕ) (idx : List ℕ) (i j : ℕ) (hi : i < n) (hj : j < n) :
    (permMat n idx : M K).get i j = if idx.getD i n = j then 1 else 0 := by
  unfold permMat; rw [M.get_tab _ _ _ _ _ hi hj]

/-- `(P X)[i, b] = X[idx i, b]` -/
theorem permMat_mmul_get {n c : ℕ} {idx : List ℕ} (hp : idx.Perm (List.range n)) (X : M K)
    (hX : Dim X n c) (i b : ℕ) (hi : i < n) (hb : b < c) :
    (mmul (permMat n idx) X).get i b = X.get (idx.getD i n) b := by
  have hP : Dim (permMat n idx : M K) n n := ⟨rfl, rfl⟩
  rw [mmul_get _ _ _ _ (by rw [hP.nr]; exact hi) (by rw [hX.nc]; exact hb), hP.nc]
  rw [Finset.sum_congr rfl (fun a ha => by
    rw [permMat_get n idx i a hi (Finset.mem_range.mp ha), ite_mul, one_mul, zero_mul])]
  rw [Finset.sum_ite_eq, if_pos (Finset.mem_range.mpr (perm_getD_lt hp hi))]

/-- `(X P')[a, j] = X[a, idx j]` -/
theorem mmul_permMatT_get {n r : ℕ} {idx : List ℕ} (hp : idx.Perm (List.range n)) (X : M K)
    (hX : Dim X r n) (a j : ℕ) (ha : a < r) (hj : j < n) :
    (mmul X (mT (permMat n idx))).get a j = X.get a (idx.getD j n) := by
  have hP : Dim (permMat n idx : M K) n n := ⟨rfl, rfl⟩
  rw [mmul_get _ _ _ _ (by rw [hX.nr]; exact ha) (by rw [(dim_mT hP).nc]; exact hj), hX.nc]
  rw [Finset.sum_congr rfl (fun b hb => by
    rw [mT_get _ _ _ (by rw [hP.nc]; exact Finset.mem_range.mp hb) (by rw [hP.nr]; exact hj),
      permMat_get n idx j b hj (Finset.mem_range.mp hb), mul_ite, mul_one, mul_zero])]
  rw [Finset.sum_ite_eq, if_pos (Finset.mem_range.mpr (perm_getD_lt hp hj))]

/-- `P P' = I` and `P' P = I` -/
theorem permMat_orth {n : ℕ} {idx : List ℕ} (hp : idx.Perm (List.range n)) :
    toMat n n (permMat n idx : M K) * (toMat n n (permMat n idx : M K))ᵀ = 1 ∧
    (toMat n n (permMat n idx : M K))ᵀ * toMat n n (permMat n idx : M K) = 1 := by
  have h1 : toMat n n (permMat n idx : M K) * (toMat n n (permMat n idx : M K))ᵀ = 1 := by
    ext i j
    simp only [Matrix.mul_apply, Matrix.transpose_apply, toMat]
    rw [Finset.sum_congr rfl (fun q _ => by
      rw [permMat_get n idx i q i.2 q.2, permMat_get n idx j q j.2 q.2])]
    rw [Matrix.one_apply]
    by_cases hij : i = j
    · subst hij
      rw [if_pos rfl]
      rw [Finset.sum_eq_single ⟨idx.getD i n, perm_getD_lt hp i.2⟩]
      · rw [if_pos rfl, mul_one]
      · intro q _ hq
        have : ¬ idx.getD (↑i) n = (q : ℕ) := fun h => hq (Fin.ext h.symm)
        rw [if_neg this, zero_mul]
      · intro h; exact absurd (Finset.mem_univ _) h
    · rw [if_neg hij]
      apply Finset.sum_eq_zero
      intro q _
      by_cases h1 : idx.getD (↑i) n = (q : ℕ)
      · have h2 : ¬ idx.getD (↑j) n = (q : ℕ) := by
          intro h2
          exact hij (Fin.ext (perm_getD_inj hp i.2 j.2 (h1.trans h2.symm)))
        rw [if_neg h2, mul_zero]
      · rw [if_neg h1, zero_mul]
  exact ⟨h1, mul_eq_one_comm.mp h1⟩

/-! ### constant rows -/

/-- a row passing the three tests of `__partition` is the unit row `e_c` and `C`'s row is zero -/
theorem constRow_unit {n m : ℕ} (A C : M K) (hA : Dim A n n) (hC : Dim C n m) (c : ℕ) (hc : c < n)
    (h : isConstRow A C c = true) :
    (∀ q, q < n → A.get c q = if q = c then 1 else 0) ∧ ∀ j, j < m → C.get c j = 0 := by
  unfold isConstRow at h
  simp only [Bool.and_eq_true, beq_iff_eq, List.all_eq_true, List.mem_range] at h
  obtain ⟨⟨hd, hCz⟩, hs⟩ := h
  rw [sumRange_eq_sum, hA.nc] at hs
  refine ⟨?_, fun j hj => hCz j (by rw [hC.nc]; exact hj)⟩
  -- Σ_q A[c,q]² = 1 with A[c,c] = 1
  have hsplit := Finset.add_sum_erase (range n) (fun q => A.get c q * A.get c q) (Finset.mem_range.mpr hc)
  rw [hs, hd] at hsplit
  have hrest : ∑ q ∈ (range n).erase c, A.get c q * A.get c q = 0 := by linarith
  have hz := (Finset.sum_eq_zero_iff_of_nonneg (fun q _ => mul_self_nonneg (A.get c q))).mp hrest
  intro q hq
  by_cases hqc : q = c
  · rw [if_pos hqc, hqc, hd]
  · rw [if_neg hqc]
    have := hz q (Finset.mem_erase.mpr ⟨hqc, Finset.mem_range.mpr hq⟩)
    exact mul_self_eq_zero.mp this

/-! ### coordinate embeddings of the constant block and of the rest -/

/-- `n × nc`, `Ec[i, j] = [i = j]` -/
def Ec (n nc : ℕ) : Matrix (Fin n) (Fin nc) K := Matrix.of fun i j => if (i : ℕ) = (j : ℕ) then 1 else 0

/-- `n × (n − nc)`, `Er[i, j] = [i = nc + j]` -/
def Er (n nc : ℕ) : Matrix (Fin n) (Fin (n - nc)) K :=
  Matrix.of fun i j => if (i : ℕ) = nc + (j : ℕ) then 1 else 0

variable {n nc : ℕ}

theorem mul_Er {r : ℕ} (X : M K) (hnc : nc ≤ n) :
    toMat r n X * (Er n nc : Matrix _ _ K) = Matrix.of fun (i : Fin r) (j : Fin (n - nc)) => X.get i (nc + j) := by
  ext i j
  simp only [Matrix.mul_apply, Er, Matrix.of_apply, toMat]
  rw [Finset.sum_eq_single ⟨nc + j, by have := j.2; omega⟩]
  · rw [if_pos rfl, mul_one]
  · intro q _ hq
    have : ¬ (q : ℕ) = nc + (j : ℕ) := fun h => hq (Fin.ext h)
    rw [if_neg this, mul_zero]
  · intro h; exact absurd (Finset.mem_univ _) h

theorem mul_Ec {r : ℕ} (X : M K) (hnc : nc ≤ n) :
    toMat r n X * (Ec n nc : Matrix _ _ K) = Matrix.of fun (i : Fin r) (j : Fin nc) => X.get i j := by
  ext i j
  simp only [Matrix.mul_apply, Ec, Matrix.of_apply, toMat]
  rw [Finset.sum_eq_single ⟨j, by have := j.2; omega⟩]
  · rw [if_pos rfl, mul_one]
  · intro q _ hq
    have : ¬ (q : ℕ) = (j : ℕ) := fun h => hq (Fin.ext h)
    rw [if_neg this, mul_zero]
  · intro h; exact absurd (Finset.mem_univ _) h

theorem Er_mul {c : ℕ} (Y : Matrix (Fin (n - nc)) (Fin c) K) :
    (Er n nc : Matrix _ _ K) * Y = Matrix.of fun (i : Fin n) (j : Fin c) =>
      if h : nc ≤ (i : ℕ) then Y ⟨i - nc, by have := i.2; omega⟩ j else 0 := by
  ext i j
  simp only [Matrix.mul_apply, Er, Matrix.of_apply]
  by_cases h : nc ≤ (i : ℕ)
  · rw [dif_pos h, Finset.sum_eq_single ⟨i - nc, by have := i.2; omega⟩]
    · rw [if_pos (by simp; omega), one_mul]
    · intro q _ hq
      have : ¬ (i : ℕ) = nc + (q : ℕ) := fun h' => hq (Fin.ext (by simp; omega))
      rw [if_neg this, zero_mul]
    · intro h'; exact absurd (Finset.mem_univ _) h'
  · rw [dif_neg h]
    apply Finset.sum_eq_zero
    intro q _
    have : ¬ (i : ℕ) = nc + (q : ℕ) := by omega
    rw [if_neg this, zero_mul]

theorem Ec_mul {c : ℕ} (Y : Matrix (Fin nc) (Fin c) K) :
    (Ec n nc : Matrix _ _ K) * Y = Matrix.of fun (i : Fin n) (j : Fin c) =>
      if h : (i : ℕ) < nc then Y ⟨i, h⟩ j else 0 := by
  ext i j
  simp only [Matrix.mul_apply, Ec, Matrix.of_apply]
  by_cases h : (i : ℕ) < nc
  · rw [dif_pos h, Finset.sum_eq_single ⟨i, h⟩]
    · rw [if_pos rfl, one_mul]
    · intro q _ hq
      have : ¬ (i : ℕ) = (q : ℕ) := fun h' => hq (Fin.ext h'.symm)
      rw [if_neg this, zero_mul]
    · intro h'; exact absurd (Finset.mem_univ _) h'
  · rw [dif_neg h]
    apply Finset.sum_eq_zero
    intro q _
    have : ¬ (i : ℕ) = (q : ℕ) := by have := q.2; omega
    rw [if_neg this, zero_mul]

/-! ### the sorted model -/

/-- what `constant_states_first` provides about `sorted_idx` -/
structure SortedOK (A C : M K) (n nc : ℕ) (idx : List ℕ) : Prop where
  perm : idx.Perm (List.range n)
  le : nc ≤ n
  const : ∀ i, i < nc → isConstRow A C (idx.getD i n) = true

variable {m : ℕ} {idx : List ℕ}

theorem block_get (X : M K) (r0 nr c0 ncc i j : ℕ) (hi : i < nr) (hj : j < ncc) :
    (block X r0 nr c0 ncc).get i j = X.get (r0 + i) (c0 + j) := by
  unfold block; rw [M.get_tab _ _ _ _ _ hi hj]

theorem sA_get (A C : M K) (hA : Dim A n n) (hs : SortedOK A C n nc idx) (i j : ℕ) (hi : i < n)
    (hj : j < n) :
    (mmul (mmul (permMat n idx) A) (mT (permMat n idx))).get i j =
      A.get (idx.getD i n) (idx.getD j n) := by
  have hP : Dim (permMat n idx : M K) n n := ⟨rfl, rfl⟩
  rw [mmul_permMatT_get hs.perm _ (dim_mmul hP hA) i j hi hj,
    permMat_mmul_get hs.perm A hA i _ hi (perm_getD_lt hs.perm hj)]

/-- entries of the sorted `A` in a constant row -/
theorem sA_const_row (A C : M K) (hA : Dim A n n) (hC : Dim C n m) (hs : SortedOK A C n nc idx)
    (i j : ℕ) (hi : i < nc) (hj : j < n) :
    (mmul (mmul (permMat n idx) A) (mT (permMat n idx))).get i j = if i = j then 1 else 0 := by
  have hin : i < n := lt_of_lt_of_le hi hs.le
  rw [sA_get A C hA hs i j hin hj,
    (constRow_unit A C hA hC _ (perm_getD_lt hs.perm hin) (hs.const i hi)).1 _ (perm_getD_lt hs.perm hj)]
  by_cases hij : i = j
  · rw [if_pos hij, if_pos (by rw [hij])]
  · rw [if_neg hij, if_neg (fun h => hij (perm_getD_inj hs.perm hj hin h).symm)]

/-- `As E = E A22` -/
theorem sorted_B2 (A C : M K) (hA : Dim A n n) (hC : Dim C n m) (hs : SortedOK A C n nc idx) :
    toMat n n (mmul (mmul (permMat n idx) A) (mT (permMat n idx))) * (Er n nc : Matrix _ _ K) =
      Er n nc * toMat (n - nc) (n - nc)
        (block (mmul (mmul (permMat n idx) A) (mT (permMat n idx))) nc (n - nc) nc (n - nc)) := by
  rw [mul_Er _ hs.le, Er_mul]
  ext i j
  simp only [Matrix.of_apply, toMat]
  have hj := j.2
  by_cases h : nc ≤ (i : ℕ)
  · rw [dif_pos h, block_get _ _ _ _ _ _ _ (by have := i.2; omega) hj]
    congr 1; omega
  · rw [dif_neg h, sA_const_row A C hA hC hs _ _ (by omega) (by omega), if_neg (by omega)]

/-- `As Ec = Ec + E A21` -/
theorem sorted_B1 (A C : M K) (hA : Dim A n n) (hC : Dim C n m) (hs : SortedOK A C n nc idx) :
    toMat n n (mmul (mmul (permMat n idx) A) (mT (permMat n idx))) * (Ec n nc : Matrix _ _ K) =
      Ec n nc + Er n nc * toMat (n - nc) nc
        (block (mmul (mmul (permMat n idx) A) (mT (permMat n idx))) nc (n - nc) 0 nc) := by
  rw [mul_Ec _ hs.le, Er_mul]
  ext i j
  simp only [Matrix.of_apply, toMat, Matrix.add_apply, Ec]
  have hj := j.2
  have hle := hs.le
  by_cases h : nc ≤ (i : ℕ)
  · rw [dif_pos h, block_get _ _ _ _ _ _ _ (by have := i.2; omega) hj, if_neg (by omega), zero_add]
    congr 1 <;> omega
  · rw [dif_neg h, add_zero, sA_const_row A C hA hC hs _ _ (by omega) (by omega)]

/-- `Cs = E C2` -/
theorem sorted_B3 (A C : M K) (hA : Dim A n n) (hC : Dim C n m) (hs : SortedOK A C n nc idx) :
    toMat n m (mmul (permMat n idx) C) =
      Er n nc * toMat (n - nc) m (block (mmul (permMat n idx) C) nc (n - nc) 0 m) := by
  rw [Er_mul]
  ext i j
  simp only [Matrix.of_apply, toMat]
  by_cases h : nc ≤ (i : ℕ)
  · rw [dif_pos h, block_get _ _ _ _ _ _ _ (by have := i.2; omega) j.2]
    congr 1 <;> omega
  · rw [dif_neg h, permMat_mmul_get hs.perm C hC _ _ i.2 j.2]
    exact (constRow_unit A C hA hC _ (perm_getD_lt hs.perm i.2) (hs.const i (by omega))).2 _ j.2

/-! ### the algebra of the assembly -/

section algebra
variable {p q r : ℕ}

/-- if `a Z = Z A22`, `c = Z C2` and `Σ = A22 Σ A22' + C2 C2'`, then `Z Σ Z'` is stationary -/
theorem lyap_push (a : Matrix (Fin p) (Fin p) K) (Z : Matrix (Fin p) (Fin q) K)
    (A22 Sg : Matrix (Fin q) (Fin q) K) (c : Matrix (Fin p) (Fin r) K) (C2 : Matrix (Fin q) (Fin r) K)
    (haZ : a * Z = Z * A22) (hc : c = Z * C2) (hSg : Sg = A22 * Sg * A22ᵀ + C2 * C2ᵀ) :
    Z * Sg * Zᵀ = a * (Z * Sg * Zᵀ) * aᵀ + c * cᵀ := by
  have h1 : a * (Z * Sg * Zᵀ) * aᵀ = Z * (A22 * Sg * A22ᵀ) * Zᵀ := by
    have : a * (Z * Sg * Zᵀ) * aᵀ = (a * Z) * Sg * (a * Z)ᵀ := by
      rw [Matrix.transpose_mul]; simp only [Matrix.mul_assoc]
    rw [this, haZ, Matrix.transpose_mul]; simp only [Matrix.mul_assoc]
  have h2 : c * cᵀ = Z * (C2 * C2ᵀ) * Zᵀ := by
    rw [hc, Matrix.transpose_mul]; simp only [Matrix.mul_assoc]
  rw [h1, h2, ← Matrix.add_mul, ← Matrix.mul_add, ← hSg]

/-- if `a Zc = Zc + Z A21`, `a Z = Z A22` and `(I − A22) μ = A21 μc`, then `Zc μc + Z μ` is a
    fixed point of `a` -/
theorem mean_push (a : Matrix (Fin p) (Fin p) K) (Zc : Matrix (Fin p) (Fin r) K)
    (Z : Matrix (Fin p) (Fin q) K) (A21 : Matrix (Fin q) (Fin r) K) (A22 : Matrix (Fin q) (Fin q) K)
    (muc : Matrix (Fin r) (Fin 1) K) (mu : Matrix (Fin q) (Fin 1) K)
    (haZc : a * Zc = Zc + Z * A21) (haZ : a * Z = Z * A22) (hmu : (1 - A22) * mu = A21 * muc) :
    a * (Zc * muc + Z * mu) = Zc * muc + Z * mu := by
  have hmu' : A21 * muc + A22 * mu = mu := by
    rw [← hmu, Matrix.sub_mul, Matrix.one_mul]; abel
  rw [Matrix.mul_add, ← Matrix.mul_assoc, ← Matrix.mul_assoc, haZc, haZ, Matrix.add_mul]
  simp only [Matrix.mul_assoc]
  rw [add_assoc, ← Matrix.mul_add, hmu']

end algebra

theorem mul_ErT {c : ℕ} (X : Matrix (Fin c) (Fin (n - nc)) K) :
    X * (Er n nc : Matrix _ _ K)ᵀ = Matrix.of fun (i : Fin c) (j : Fin n) =>
      if h : nc ≤ (j : ℕ) then X i ⟨j - nc, by have := j.2; omega⟩ else 0 := by
  have := congrArg Matrix.transpose (Er_mul (n := n) (nc := nc) Xᵀ)
  rw [Matrix.transpose_mul, Matrix.transpose_transpose] at this
  rw [this]
  ext i j
  simp only [Matrix.transpose_apply, Matrix.of_apply]

/-- `sorted_idx` of the model satisfies `SortedOK` -/
theorem sortedOK (A C : M K) : SortedOK A C A.nr (sortedIdx A C).2 (sortedIdx A C).1 := by
  have h : sortedIdx A C = sortedIdxUpTo (isConstRow A C) A.nr := rfl
  rw [h, sortedIdxUpTo_eq]
  refine ⟨?_, ?_, ?_⟩
  · refine (List.Perm.append_right _ (List.reverse_perm _)).trans ?_
    exact List.filter_append_perm (isConstRow A C) (List.range A.nr)
  · calc ((List.range A.nr).filter (isConstRow A C)).length ≤ (List.range A.nr).length :=
          List.length_filter_le _ _
      _ = A.nr := List.length_range
  · intro i hi
    simp only at hi ⊢
    have hi' : i < ((List.range A.nr).filter (isConstRow A C)).reverse.length := by
      rw [List.length_reverse]; exact hi
    rw [List.getD_eq_getElem?_getD, List.getElem?_append_left hi', List.getElem?_eq_getElem hi',
      Option.getD_some]
    have hm : ((List.range A.nr).filter (isConstRow A C)).reverse[i] ∈
        (List.range A.nr).filter (isConstRow A C) := List.mem_reverse.mp (List.getElem_mem hi')
    exact (List.mem_filter.mp hm).2

/-- **`stationary_distributions` returns stationary moments** (mean and covariance) -/
theorem stationaryDist_stationary (sol lyap : M K → M K → Option (M K)) (A C G : M K)
    (H : Option (M K)) (mu0 : M K) {k l : ℕ} (hA : Dim A n n) (hC : Dim C n m) (hG : Dim G k n)
    (hH : ∀ Hm, H = some Hm → Dim Hm k l)
    (hsol : SolSpec sol (n - (partition A C).numConst))
    (hlyap : LyapSpec lyap (n - (partition A C).numConst))
    (mux muy sigx sigy sigyx : M K)
    (h : stationaryDist sol lyap A C G H mu0 = .ok mux muy sigx sigy sigyx) :
    toMat n n A * toMat n 1 mux = toMat n 1 mux ∧
    toMat n n sigx = toMat n n A * toMat n n sigx * (toMat n n A)ᵀ + toMat n m C * (toMat n m C)ᵀ := by
  obtain ⟨mu, Sg, dmu, dSg, e1, e2, e3, e4, -, -, -⟩ :=
    stationaryDist_unpack sol lyap A C G H mu0 _ hA hG hH rfl hsol hlyap mux muy sigx sigy sigyx h
  have hAr := hA.nr
  subst hAr
  have hCc := hC.nc
  subst hCc
  have hs := sortedOK A C
  have hP : Dim (permMat A.nr (sortedIdx A C).1 : M K) A.nr A.nr := ⟨rfl, rfl⟩
  obtain ⟨-, hPP⟩ := permMat_orth (K := K) hs.perm
  -- the fields of `partition`
  have hidx : (partition A C).idx = (sortedIdx A C).1 := rfl
  have hncE : (partition A C).numConst = (sortedIdx A C).2 := rfl
  have hPe : (partition A C).P = permMat A.nr (sortedIdx A C).1 := rfl
  have hA21 : (partition A C).A21 = block (mmul (mmul (permMat A.nr (sortedIdx A C).1) A)
      (mT (permMat A.nr (sortedIdx A C).1))) (sortedIdx A C).2 (A.nr - (sortedIdx A C).2) 0
      (sortedIdx A C).2 := rfl
  have hA22 : (partition A C).A22 = block (mmul (mmul (permMat A.nr (sortedIdx A C).1) A)
      (mT (permMat A.nr (sortedIdx A C).1))) (sortedIdx A C).2 (A.nr - (sortedIdx A C).2)
      (sortedIdx A C).2 (A.nr - (sortedIdx A C).2) := rfl
  have hC2 : (partition A C).C2 = block (mmul (permMat A.nr (sortedIdx A C).1) C)
      (sortedIdx A C).2 (A.nr - (sortedIdx A C).2) 0 C.nc := rfl
  rw [hncE] at e1 e2 e3 e4 dmu dSg
  rw [hidx] at e1 e3
  rw [hPe] at e3 e4
  rw [hA21, hA22] at e1
  rw [hA22, hC2] at e2
  have B1 := sorted_B1 A C hA hC hs
  have B2 := sorted_B2 A C hA hC hs
  have B3 := sorted_B3 A C hA hC hs
  have hAs : toMat A.nr A.nr (mmul (mmul (permMat A.nr (sortedIdx A C).1) A)
      (mT (permMat A.nr (sortedIdx A C).1))) =
      toMat A.nr A.nr (permMat A.nr (sortedIdx A C).1 : M K) * toMat A.nr A.nr A *
        (toMat A.nr A.nr (permMat A.nr (sortedIdx A C).1 : M K))ᵀ := by
    rw [toMat_mmul (dim_mmul hP hA) (dim_mT hP), toMat_mmul hP hA, toMat_mT hP]
  have hCs : toMat A.nr C.nc (mmul (permMat A.nr (sortedIdx A C).1) C) =
      toMat A.nr A.nr (permMat A.nr (sortedIdx A C).1 : M K) * toMat A.nr C.nc C := toMat_mmul hP hC
  rw [hAs] at B1 B2
  rw [hCs] at B3
  generalize toMat A.nr A.nr (permMat A.nr (sortedIdx A C).1 : M K) = Pm at *
  generalize toMat A.nr A.nr A = a at *
  generalize toMat (A.nr - (sortedIdx A C).2) (sortedIdx A C).2
    (block (mmul (mmul (permMat A.nr (sortedIdx A C).1) A) (mT (permMat A.nr (sortedIdx A C).1)))
      (sortedIdx A C).2 (A.nr - (sortedIdx A C).2) 0 (sortedIdx A C).2) = A21m at *
  generalize toMat (A.nr - (sortedIdx A C).2) (A.nr - (sortedIdx A C).2)
    (block (mmul (mmul (permMat A.nr (sortedIdx A C).1) A) (mT (permMat A.nr (sortedIdx A C).1)))
      (sortedIdx A C).2 (A.nr - (sortedIdx A C).2) (sortedIdx A C).2 (A.nr - (sortedIdx A C).2)) = A22m at *
  generalize toMat (A.nr - (sortedIdx A C).2) C.nc
    (block (mmul (permMat A.nr (sortedIdx A C).1) C) (sortedIdx A C).2 (A.nr - (sortedIdx A C).2) 0 C.nc)
    = C2m at *
  -- `a P' = P' As`
  have h1 : ∀ {c : ℕ} (X : Matrix (Fin A.nr) (Fin c) K), a * (Pmᵀ * X) = Pmᵀ * (Pm * a * Pmᵀ * X) := by
    intro c X
    have : Pmᵀ * (Pm * a * Pmᵀ * X) = (Pmᵀ * Pm) * (a * (Pmᵀ * X)) := by simp only [Matrix.mul_assoc]
    rw [this, hPP, Matrix.one_mul]
  have haZ : a * (Pmᵀ * (Er A.nr (sortedIdx A C).2 : Matrix (Fin A.nr) (Fin (A.nr - (sortedIdx A C).2)) K)) =
      Pmᵀ * (Er A.nr (sortedIdx A C).2 : Matrix (Fin A.nr) (Fin (A.nr - (sortedIdx A C).2)) K) * A22m := by
    rw [h1, B2, Matrix.mul_assoc]
  have haZc : a * (Pmᵀ * (Ec A.nr (sortedIdx A C).2 : Matrix (Fin A.nr) (Fin (sortedIdx A C).2) K)) =
      Pmᵀ * (Ec A.nr (sortedIdx A C).2 : Matrix (Fin A.nr) (Fin (sortedIdx A C).2) K) +
        Pmᵀ * (Er A.nr (sortedIdx A C).2 : Matrix (Fin A.nr) (Fin (A.nr - (sortedIdx A C).2)) K) * A21m := by
    rw [h1, B1, Matrix.mul_add, Matrix.mul_assoc]
  have hc : toMat A.nr C.nc C = Pmᵀ * Er A.nr (sortedIdx A C).2 * C2m := by
    have : Pmᵀ * (Pm * toMat A.nr C.nc C) = toMat A.nr C.nc C := by
      rw [← Matrix.mul_assoc, hPP, Matrix.one_mul]
    rw [← this, B3, Matrix.mul_assoc]
  refine ⟨?_, ?_⟩
  · -- mean
    have hmu : (1 - A22m) * toMat _ 1 mu = A21m *
        Matrix.of (fun (i : Fin (sortedIdx A C).2) (_ : Fin 1) => mu0.get ((sortedIdx A C).1.getD i A.nr) 0) := by
      rw [e1]
      split
      · rfl
      · rename_i h0
        ext i j
        simp only [Matrix.zero_apply, Matrix.mul_apply]
        symm
        apply Finset.sum_eq_zero
        intro q _
        exact absurd q.2 (by omega)
    have hB4 : (Matrix.of fun (i : Fin A.nr) (_ : Fin 1) =>
        if (i : ℕ) < (sortedIdx A C).2 then mu0.get ((sortedIdx A C).1.getD i A.nr) 0
        else mu.get (i - (sortedIdx A C).2) 0) =
        Ec A.nr (sortedIdx A C).2 * Matrix.of (fun (i : Fin (sortedIdx A C).2) (_ : Fin 1) =>
          mu0.get ((sortedIdx A C).1.getD i A.nr) 0) +
        Er A.nr (sortedIdx A C).2 * toMat (A.nr - (sortedIdx A C).2) 1 mu := by
      rw [Ec_mul, Er_mul]
      ext i j
      have hj : (j : ℕ) = 0 := by omega
      simp only [Matrix.of_apply, Matrix.add_apply, toMat, hj]
      by_cases hi : (i : ℕ) < (sortedIdx A C).2
      · rw [if_pos hi, dif_pos hi, dif_neg (by omega), add_zero]
      · rw [if_neg hi, dif_neg hi, dif_pos (by omega), zero_add]
    rw [e3, hB4, Matrix.mul_add, ← Matrix.mul_assoc, ← Matrix.mul_assoc]
    exact mean_push a _ _ _ _ _ _ haZc haZ hmu
  · -- covariance
    have hB5 : (Matrix.of fun (i j : Fin A.nr) =>
        if (sortedIdx A C).2 ≤ (i : ℕ) ∧ (sortedIdx A C).2 ≤ (j : ℕ) then
          Sg.get (i - (sortedIdx A C).2) (j - (sortedIdx A C).2) else 0) =
        Er A.nr (sortedIdx A C).2 * toMat (A.nr - (sortedIdx A C).2) (A.nr - (sortedIdx A C).2) Sg *
          (Er A.nr (sortedIdx A C).2 : Matrix _ _ K)ᵀ := by
      rw [mul_ErT, Er_mul]
      ext i j
      simp only [Matrix.of_apply, toMat]
      by_cases hi : (sortedIdx A C).2 ≤ (i : ℕ)
      · by_cases hj : (sortedIdx A C).2 ≤ (j : ℕ)
        · rw [if_pos ⟨hi, hj⟩, dif_pos hj, dif_pos hi]
        · rw [if_neg (fun h => hj h.2), dif_neg hj]
      · by_cases hj : (sortedIdx A C).2 ≤ (j : ℕ)
        · rw [if_neg (fun h => hi h.1), dif_pos hj, dif_neg hi]
        · rw [if_neg (fun h => hi h.1), dif_neg hj]
    have hZ : Pmᵀ * (Er A.nr (sortedIdx A C).2 *
        toMat (A.nr - (sortedIdx A C).2) (A.nr - (sortedIdx A C).2) Sg *
        (Er A.nr (sortedIdx A C).2 : Matrix _ _ K)ᵀ) * Pm =
        (Pmᵀ * (Er A.nr (sortedIdx A C).2 : Matrix (Fin A.nr) (Fin (A.nr - (sortedIdx A C).2)) K)) *
          toMat (A.nr - (sortedIdx A C).2) (A.nr - (sortedIdx A C).2) Sg *
          (Pmᵀ * (Er A.nr (sortedIdx A C).2 : Matrix (Fin A.nr) (Fin (A.nr - (sortedIdx A C).2)) K))ᵀ := by
      rw [Matrix.transpose_mul, Matrix.transpose_transpose]; simp only [Matrix.mul_assoc]
    rw [e4, hB5, hZ]
    exact lyap_push a _ _ _ _ _ haZ hc e2

/-- the states after the first `num_const` of `sorted_idx` are not constant -/
theorem sorted_nonconst (A C : M K) (i : ℕ) (h1 : (sortedIdx A C).2 ≤ i) (h2 : i < A.nr) :
    isConstRow A C ((sortedIdx A C).1.getD i A.nr) = false := by
  have hp := (sortedOK A C).perm
  have hl : (sortedIdx A C).1.length = A.nr := by rw [hp.length_eq, List.length_range]
  have h : sortedIdx A C = sortedIdxUpTo (isConstRow A C) A.nr := rfl
  rw [h, sortedIdxUpTo_eq] at h1 hl ⊢
  simp only at h1 hl ⊢
  have hi : i < (((List.range A.nr).filter (isConstRow A C)).reverse ++
      (List.range A.nr).filter (fun i => !isConstRow A C i)).length := by rw [hl]; exact h2
  have hr : ((List.range A.nr).filter (isConstRow A C)).reverse.length ≤ i := by
    rw [List.length_reverse]; exact h1
  rw [List.getD_eq_getElem?_getD, List.getElem?_eq_getElem hi, Option.getD_some,
    List.getElem_append_right hr]
  have hm := List.getElem_mem (l := (List.range A.nr).filter (fun i => !isConstRow A C i))
    (n := i - ((List.range A.nr).filter (isConstRow A C)).reverse.length)
    (by rw [List.length_append] at hi; omega)
  have := (List.mem_filter.mp hm).2
  simpa using this

/-- **the constant states keep their initial values** in the returned `mu_x` -/
theorem stationaryDist_const (sol lyap : M K → M K → Option (M K)) (A C G : M K)
    (H : Option (M K)) (mu0 : M K) {k l : ℕ} (hA : Dim A n n) (hG : Dim G k n)
    (hH : ∀ Hm, H = some Hm → Dim Hm k l)
    (hsol : SolSpec sol (n - (partition A C).numConst))
    (hlyap : LyapSpec lyap (n - (partition A C).numConst))
    (mux muy sigx sigy sigyx : M K)
    (h : stationaryDist sol lyap A C G H mu0 = .ok mux muy sigx sigy sigyx)
    (c : ℕ) (hc : c < n) (hconst : isConstRow A C c = true) :
    mux.get c 0 = mu0.get c 0 := by
  obtain ⟨mu, Sg, dmu, dSg, -, -, e3, -, -, -, -⟩ :=
    stationaryDist_unpack sol lyap A C G H mu0 _ hA hG hH rfl hsol hlyap mux muy sigx sigy sigyx h
  have hAr := hA.nr
  subst hAr
  have hs := sortedOK A C
  have hl : (sortedIdx A C).1.length = A.nr := by rw [hs.perm.length_eq, List.length_range]
  -- position of `c` in `sorted_idx`
  have hmem : c ∈ (sortedIdx A C).1 := hs.perm.mem_iff.mpr (List.mem_range.mpr hc)
  obtain ⟨i0, hi0, hget⟩ := List.getElem_of_mem hmem
  have hi0n : i0 < A.nr := by rw [← hl]; exact hi0
  have hgetD : (sortedIdx A C).1.getD i0 A.nr = c := by
    rw [List.getD_eq_getElem?_getD, List.getElem?_eq_getElem hi0, Option.getD_some, hget]
  have hi0c : i0 < (sortedIdx A C).2 := by
    by_contra hge
    have := sorted_nonconst A C i0 (by omega) hi0n
    rw [hgetD, hconst] at this
    exact Bool.noConfusion this
  have hentry := congrFun (congrFun e3 ⟨c, hc⟩) (0 : Fin 1)
  simp only [toMat, Matrix.mul_apply, Matrix.transpose_apply, Matrix.of_apply] at hentry
  have hidx : (partition A C).idx = (sortedIdx A C).1 := rfl
  have hncE : (partition A C).numConst = (sortedIdx A C).2 := rfl
  have hPe : (partition A C).P = permMat A.nr (sortedIdx A C).1 := rfl
  rw [hidx, hncE, hPe] at hentry
  rw [show mux.get c 0 = mux.get ((⟨c, hc⟩ : Fin A.nr) : ℕ) ((0 : Fin 1) : ℕ) from rfl, hentry,
    Finset.sum_eq_single ⟨i0, hi0n⟩]
  · rw [permMat_get _ _ _ _ hi0n hc, if_pos hgetD, one_mul, if_pos hi0c, hgetD]
  · intro q _ hq
    rw [permMat_get _ _ _ _ q.2 hc, if_neg, zero_mul]
    intro hqc
    exact hq (Fin.ext (perm_getD_inj hs.perm q.2 hi0n (hqc.trans hgetD.symm)))
  · intro h'; exact absurd (Finset.mem_univ _) h'

end
end QE.C12
