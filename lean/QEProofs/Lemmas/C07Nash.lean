/-
  C07 helper lemmas, part 8: one pass of the `nnash` loop read as matrices, and the algebra
  showing that each player's new `(F_i, P_i)` is the LQ update of that player's problem given
  the other player's new feedback.
-/
import QEProofs.Lemmas.C07Bridge

set_option linter.unusedSectionVars false

namespace QE.C07
open QE QE.MatAlg QE.C06 Finset Matrix

/-- discharges `Dim` side goals of the `toMat_*` rewriting lemmas from the hypotheses in context -/
macro "dim_tac" : tactic =>
  `(tactic| repeat' (first | assumption | exact dim_ident _ | apply dim_mmul | apply dim_madd | apply dim_msub | apply dim_mT | apply dim_mneg | apply dim_smul))

section algebra
variable {K : Type} [CommRing K] {n k1 k2 : ℕ}

/-- the first-order condition of player 1 hidden in lines 120-125 of `_lqnash.py` -/
theorem nash_foc1 (A P1 : Matrix (Fin n) (Fin n) K) (B1 W1 : Matrix (Fin n) (Fin k1) K)
    (B2 : Matrix (Fin n) (Fin k2) K) (Q1 G1 : Matrix (Fin k1) (Fin k1) K)
    (M1 : Matrix (Fin k2) (Fin k1) K) (L2 : Matrix (Fin k2) (Fin k1) K)
    (F1 : Matrix (Fin k1) (Fin n) K) (F2 X2 : Matrix (Fin k2) (Fin n) K)
    (hG1 : (B1ᵀ * (P1 * B1) + Q1) * G1 = 1)
    (hF1 : (1 - (G1 * (B1ᵀ * P1) * B2 + G1 * M1ᵀ) * L2) * F1
        = G1 * (B1ᵀ * P1) * A + G1 * W1ᵀ - (G1 * (B1ᵀ * P1) * B2 + G1 * M1ᵀ) * X2)
    (hF2 : F2 = X2 - L2 * F1) :
    (Q1 + (1 : K) • (B1ᵀ * (P1 * B1))) * F1
      = (1 : K) • (B1ᵀ * (P1 * (A - B2 * F2))) + (W1ᵀ - M1ᵀ * F2) := by
  have e1 : F1 = G1 * (B1ᵀ * P1) * A + G1 * W1ᵀ - (G1 * (B1ᵀ * P1) * B2 + G1 * M1ᵀ) * F2 := by
    obtain ⟨L1, hL1⟩ : ∃ L1, L1 = G1 * (B1ᵀ * P1) * B2 + G1 * M1ᵀ := ⟨_, rfl⟩
    obtain ⟨Y, hY⟩ : ∃ Y, Y = G1 * (B1ᵀ * P1) * A + G1 * W1ᵀ := ⟨_, rfl⟩
    rw [← hL1, ← hY] at hF1
    rw [← hL1, ← hY]
    have h3 : F1 - L1 * (L2 * F1) = Y - L1 * X2 := by
      rw [← hF1, Matrix.sub_mul, Matrix.one_mul, Matrix.mul_assoc]
    calc F1 = (F1 - L1 * (L2 * F1)) + L1 * (L2 * F1) := by abel
      _ = (Y - L1 * X2) + L1 * (L2 * F1) := by rw [h3]
      _ = Y - L1 * F2 := by rw [hF2, Matrix.mul_sub]; abel
  have hS : Q1 + (1 : K) • (B1ᵀ * (P1 * B1)) = B1ᵀ * (P1 * B1) + Q1 := by rw [one_smul, add_comm]
  have c : ∀ {p : ℕ} (X : Matrix (Fin k1) (Fin p) K), (B1ᵀ * (P1 * B1) + Q1) * (G1 * X) = X := by
    intro p X; rw [← Matrix.mul_assoc, hG1, Matrix.one_mul]
  rw [hS, one_smul]
  conv_lhs => rw [e1]
  simp only [Matrix.mul_sub, Matrix.mul_add, Matrix.add_mul, Matrix.mul_assoc, c]
  abel

/-- the value update of player 1 (lines 127-133) in LQ form -/
theorem nash_val1 (Lam P1 R1 : Matrix (Fin n) (Fin n) K) (B1 W1 : Matrix (Fin n) (Fin k1) K)
    (M1 : Matrix (Fin k2) (Fin k1) K) (S1 : Matrix (Fin k2) (Fin k2) K)
    (F1 : Matrix (Fin k1) (Fin n) K) (F2 : Matrix (Fin k2) (Fin n) K) (hP : P1ᵀ = P1) :
    Lamᵀ * (P1 * Lam) + (R1 + F2ᵀ * (S1 * F2)) - (Lamᵀ * (P1 * B1) + W1 - F2ᵀ * M1) * F1
      = (R1 + F2ᵀ * (S1 * F2)) - ((1 : K) • (B1ᵀ * (P1 * Lam)) + (W1ᵀ - M1ᵀ * F2))ᵀ * F1
        + (1 : K) • (Lamᵀ * (P1 * Lam)) := by
  simp only [one_smul, transpose_add, transpose_sub, transpose_mul, transpose_transpose, hP, Matrix.mul_assoc]
  abel

/-- the first-order condition of player 2 (line 125) -/
theorem nash_foc2 (A P2 : Matrix (Fin n) (Fin n) K) (B1 : Matrix (Fin n) (Fin k1) K)
    (B2 W2 : Matrix (Fin n) (Fin k2) K) (Q2 G2 : Matrix (Fin k2) (Fin k2) K)
    (M2 : Matrix (Fin k1) (Fin k2) K) (F1 : Matrix (Fin k1) (Fin n) K) (F2 : Matrix (Fin k2) (Fin n) K)
    (hG2 : (B2ᵀ * (P2 * B2) + Q2) * G2 = 1)
    (hF2 : F2 = G2 * (B2ᵀ * P2) * A + G2 * W2ᵀ - (G2 * (B2ᵀ * P2) * B1 + G2 * M2ᵀ) * F1) :
    (Q2 + (1 : K) • (B2ᵀ * (P2 * B2))) * F2
      = (1 : K) • (B2ᵀ * (P2 * (A - B1 * F1))) + (W2ᵀ - M2ᵀ * F1) := by
  have hS : Q2 + (1 : K) • (B2ᵀ * (P2 * B2)) = B2ᵀ * (P2 * B2) + Q2 := by rw [one_smul, add_comm]
  have c : ∀ {p : ℕ} (X : Matrix (Fin k2) (Fin p) K), (B2ᵀ * (P2 * B2) + Q2) * (G2 * X) = X := by
    intro p X; rw [← Matrix.mul_assoc, hG2, Matrix.one_mul]
  rw [hS, one_smul, hF2]
  simp only [Matrix.mul_sub, Matrix.mul_add, Matrix.add_mul, Matrix.mul_assoc, c]
  abel

end algebra

section bridge
variable {K : Type} [CommRing K] {n k1 k2 : ℕ}

/-- the shapes of the data of `nnash`: `n` states, `k1`, `k2` controls -/
structure NashDim (g : Nash K) (n k1 k2 : ℕ) : Prop where
  A : Dim g.A n n
  B1 : Dim g.B1 n k1
  B2 : Dim g.B2 n k2
  R1 : Dim g.R1 n n
  R2 : Dim g.R2 n n
  Q1 : Dim g.Q1 k1 k1
  Q2 : Dim g.Q2 k2 k2
  S1 : Dim g.S1 k2 k2
  S2 : Dim g.S2 k1 k1
  W1 : Dim g.W1 n k1
  W2 : Dim g.W2 n k2
  M1 : Dim g.M1 k2 k1
  M2 : Dim g.M2 k1 k2

/-- player 1's LQ problem when player 2 uses `u2 = -F2 x` (`A`, `B` already scaled by `sqrt(beta)`, so the
    discount factor of the scaled problem is 1): state cost `R1 + F2'S1F2`, transition `A - B2F2`, cross term
    `W1' - M1'F2` -/
def nashLQ1 (g : Nash K) (F2 : M K) : LQ K :=
  ⟨g.Q1, madd g.R1 (mmul (mT F2) (mmul g.S1 F2)), msub g.A (mmul g.B2 F2), g.B1, zero g.A.nr 1,
    msub (mT g.W1) (mmul (mT g.M1) F2), 1⟩

/-- player 2's LQ problem when player 1 uses `u1 = -F1 x` -/
def nashLQ2 (g : Nash K) (F1 : M K) : LQ K :=
  ⟨g.Q2, madd g.R2 (mmul (mT F1) (mmul g.S2 F1)), msub g.A (mmul g.B1 F1), g.B2, zero g.A.nr 1,
    msub (mT g.W2) (mmul (mT g.M2) F1), 1⟩

theorem dim_zero (r c : ℕ) : Dim (zero r c : M K) r c := ⟨rfl, rfl⟩

theorem nashLQ1_dim {g : Nash K} (hd : NashDim g n k1 k2) {F2 : M K} (_hF2 : Dim F2 k2 n) :
    LQDim (nashLQ1 g F2) n k1 1 := by
  have := hd.A; have := hd.B1; have := hd.B2; have := hd.R1; have := hd.Q1; have := hd.S1
  have := hd.W1; have := hd.M1
  refine ⟨hd.Q1, ?_, ?_, hd.B1, ?_, ?_⟩
  · show Dim (madd g.R1 _) n n; dim_tac
  · show Dim (msub g.A _) n n; dim_tac
  · show Dim (zero g.A.nr 1) n 1; rw [hd.A.nr]; exact dim_zero n 1
  · show Dim (msub (mT g.W1) _) k1 n; dim_tac

theorem nashLQ2_dim {g : Nash K} (hd : NashDim g n k1 k2) {F1 : M K} (_hF1 : Dim F1 k1 n) :
    LQDim (nashLQ2 g F1) n k2 1 := by
  have := hd.A; have := hd.B1; have := hd.B2; have := hd.R2; have := hd.Q2; have := hd.S2
  have := hd.W2; have := hd.M2
  refine ⟨hd.Q2, ?_, ?_, hd.B2, ?_, ?_⟩
  · show Dim (madd g.R2 _) n n; dim_tac
  · show Dim (msub g.A _) n n; dim_tac
  · show Dim (zero g.A.nr 1) n 1; rw [hd.A.nr]; exact dim_zero n 1
  · show Dim (msub (mT g.W2) _) k2 n; dim_tac

/-- one pass of the loop, as matrices -/
theorem nnashStep_toMat (sol : M K → M K → Option (M K)) (hs1 : SolSpec sol k1) (hs2 : SolSpec sol k2)
    {g : Nash K} (hd : NashDim g n k1 k2) {P1 P2 : M K} (hP1 : Dim P1 n n) (hP2 : Dim P2 n n)
    {s : NashState K} (h : nnashStep sol g P1 P2 = some s) :
    Dim s.F1 k1 n ∧ Dim s.F2 k2 n ∧ Dim s.P1 n n ∧ Dim s.P2 n n ∧
    ∃ (G1 : Matrix (Fin k1) (Fin k1) K) (G2 : Matrix (Fin k2) (Fin k2) K),
      ((toMat n k1 g.B1)ᵀ * (toMat n n P1 * toMat n k1 g.B1) + toMat k1 k1 g.Q1) * G1 = 1 ∧
      ((toMat n k2 g.B2)ᵀ * (toMat n n P2 * toMat n k2 g.B2) + toMat k2 k2 g.Q2) * G2 = 1 ∧
      (1 - (G1 * ((toMat n k1 g.B1)ᵀ * toMat n n P1) * toMat n k2 g.B2 + G1 * (toMat k2 k1 g.M1)ᵀ)
            * (G2 * ((toMat n k2 g.B2)ᵀ * toMat n n P2) * toMat n k1 g.B1 + G2 * (toMat k1 k2 g.M2)ᵀ))
          * toMat k1 n s.F1
        = G1 * ((toMat n k1 g.B1)ᵀ * toMat n n P1) * toMat n n g.A + G1 * (toMat n k1 g.W1)ᵀ
          - (G1 * ((toMat n k1 g.B1)ᵀ * toMat n n P1) * toMat n k2 g.B2 + G1 * (toMat k2 k1 g.M1)ᵀ)
            * (G2 * ((toMat n k2 g.B2)ᵀ * toMat n n P2) * toMat n n g.A + G2 * (toMat n k2 g.W2)ᵀ) ∧
      toMat k2 n s.F2
        = G2 * ((toMat n k2 g.B2)ᵀ * toMat n n P2) * toMat n n g.A + G2 * (toMat n k2 g.W2)ᵀ
          - (G2 * ((toMat n k2 g.B2)ᵀ * toMat n n P2) * toMat n k1 g.B1 + G2 * (toMat k1 k2 g.M2)ᵀ)
            * toMat k1 n s.F1 ∧
      toMat n n s.P1
        = (toMat n n g.A - toMat n k2 g.B2 * toMat k2 n s.F2)ᵀ
            * (toMat n n P1 * (toMat n n g.A - toMat n k2 g.B2 * toMat k2 n s.F2))
          + (toMat n n g.R1 + (toMat k2 n s.F2)ᵀ * (toMat k2 k2 g.S1 * toMat k2 n s.F2))
          - ((toMat n n g.A - toMat n k2 g.B2 * toMat k2 n s.F2)ᵀ * (toMat n n P1 * toMat n k1 g.B1)
              + toMat n k1 g.W1 - (toMat k2 n s.F2)ᵀ * toMat k2 k1 g.M1) * toMat k1 n s.F1 ∧
      toMat n n s.P2
        = (toMat n n g.A - toMat n k1 g.B1 * toMat k1 n s.F1)ᵀ
            * (toMat n n P2 * (toMat n n g.A - toMat n k1 g.B1 * toMat k1 n s.F1))
          + (toMat n n g.R2 + (toMat k1 n s.F1)ᵀ * (toMat k1 k1 g.S2 * toMat k1 n s.F1))
          - ((toMat n n g.A - toMat n k1 g.B1 * toMat k1 n s.F1)ᵀ * (toMat n n P2 * toMat n k2 g.B2)
              + toMat n k2 g.W2 - (toMat k1 n s.F1)ᵀ * toMat k1 k2 g.M2) * toMat k2 n s.F2 := by
  have hA := hd.A; have hB1 := hd.B1; have hB2 := hd.B2; have hR1 := hd.R1; have hR2 := hd.R2
  have hQ1 := hd.Q1; have hQ2 := hd.Q2; have hS1 := hd.S1; have hS2 := hd.S2
  have hW1 := hd.W1; have hW2 := hd.W2; have hM1 := hd.M1; have hM2 := hd.M2
  unfold nnashStep at h
  simp only at h
  rw [hd.B1.nc, hd.B2.nc] at h
  split at h
  · rename_i G2 G1 e2 e1
    have dW2 : Dim (madd (mmul (mT g.B2) (mmul P2 g.B2)) g.Q2) k2 k2 := by dim_tac
    have dW1 : Dim (madd (mmul (mT g.B1) (mmul P1 g.B1)) g.Q1) k1 k1 := by dim_tac
    obtain ⟨dG2, mG2, _⟩ := hs2 k2 _ _ _ dW2 (dim_ident k2) e2
    obtain ⟨dG1, mG1, _⟩ := hs1 k1 _ _ _ dW1 (dim_ident k1) e1
    rw [toMat_ident] at mG1 mG2
    simp (disch := dim_tac) only [toMat_mmul, toMat_madd, toMat_mT] at mG1 mG2
    split at h
    · cases h
    · rename_i F1 e3
      simp only [Option.some.injEq] at h
      subst h
      have dL : Dim (msub (ident k1) (mmul (madd (mmul (mmul G1 (mmul (mT g.B1) P1)) g.B2) (mmul G1 (mT g.M1)))
          (madd (mmul (mmul G2 (mmul (mT g.B2) P2)) g.B1) (mmul G2 (mT g.M2))))) k1 k1 := by dim_tac
      have dR : Dim (msub (madd (mmul (mmul G1 (mmul (mT g.B1) P1)) g.A) (mmul G1 (mT g.W1)))
          (mmul (madd (mmul (mmul G1 (mmul (mT g.B1) P1)) g.B2) (mmul G1 (mT g.M1)))
            (madd (mmul (mmul G2 (mmul (mT g.B2) P2)) g.A) (mmul G2 (mT g.W2))))) k1 n := by dim_tac
      obtain ⟨dF1, mF1, _⟩ := hs1 n _ _ _ dL dR e3
      simp (disch := dim_tac) only [toMat_mmul, toMat_madd, toMat_msub, toMat_mT, toMat_ident] at mF1
      have dF2 : Dim (msub (madd (mmul (mmul G2 (mmul (mT g.B2) P2)) g.A) (mmul G2 (mT g.W2)))
          (mmul (madd (mmul (mmul G2 (mmul (mT g.B2) P2)) g.B1) (mmul G2 (mT g.M2))) F1)) k2 n := by dim_tac
      refine ⟨dF1, dF2, by dim_tac, by dim_tac, toMat k1 k1 G1, toMat k2 k2 G2, mG1, mG2, mF1, ?_, ?_, ?_⟩
      · simp (disch := dim_tac) only [toMat_mmul, toMat_madd, toMat_msub, toMat_mT]
      · simp (disch := dim_tac) only [toMat_mmul, toMat_madd, toMat_msub, toMat_mT]
      · simp (disch := dim_tac) only [toMat_mmul, toMat_madd, toMat_msub, toMat_mT]
  · cases h

end bridge
end QE.C07
