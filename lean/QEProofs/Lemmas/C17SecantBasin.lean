/-
  Lemmas for C17: the secant method on a convex, strictly increasing function with both starting
  points to the right of the root — every new iterate lies in `[r, min(p0, p1)]`.
-/
import QEProofs.Lemmas.C17Basic
namespace QE.C17
set_option linter.unusedSectionVars false

section
variable {K : Type} [Field K] [LinearOrder K] [IsStrictOrderedRing K]

/-- `f` is strictly increasing and convex on `[r, ∞)` with `f r = 0`; convexity in chord form: to the
    left of two points the graph lies above the line through them (no derivative involved). -/
structure ConvexChord (f : K → K) (r : K) : Prop where
  root : f r = 0
  incr : ∀ x y, r ≤ x → x < y → f x < f y
  chord : ∀ z a b, r ≤ z → z ≤ a → a < b → (f b - f a) * (z - a) ≤ (f z - f a) * (b - a)

theorem ConvexChord.nonneg {f : K → K} {r : K} (h : ConvexChord f r) (x : K) (hx : r ≤ x) : 0 ≤ f x := by
  rcases eq_or_lt_of_le hx with h0 | h0
  · rw [← h0, h.root]
  · have := h.incr r x (le_refl _) h0; rw [h.root] at this; exact this.le

/-- one secant step from two points right of the root lands in `[r, min a b]` -/
theorem ConvexChord.step {f : K → K} {r : K} (h : ConvexChord f r) (a b : K) (ha : r ≤ a) (hb : r ≤ b)
    (hne : f b ≠ f a) :
    r ≤ b - f b * (b - a) / (f b - f a) ∧ b - f b * (b - a) / (f b - f a) ≤ a ∧
    b - f b * (b - a) / (f b - f a) ≤ b := by
  have hfa := h.nonneg a ha
  have hfb := h.nonneg b hb
  rcases lt_trichotomy a b with hab | hab | hab
  · have hD : 0 < f b - f a := sub_pos.mpr (h.incr a b ha hab)
    have hc := h.chord r a b (le_refl _) ha hab
    rw [h.root] at hc
    have hq : f b * (b - a) / (f b - f a) ≤ b - r := by
      rw [div_le_iff₀ hD]; nlinarith
    have hq2 : b - a ≤ f b * (b - a) / (f b - f a) := by
      rw [le_div_iff₀ hD]; nlinarith
    exact ⟨by linarith, by linarith, by linarith⟩
  · exact absurd (by rw [hab]) hne
  · have hD : 0 < f a - f b := sub_pos.mpr (h.incr b a hb hab)
    have hc := h.chord r b a (le_refl _) hb hab
    rw [h.root] at hc
    have e : f b * (b - a) / (f b - f a) = f b * (a - b) / (f a - f b) := by
      rw [div_eq_div_iff (sub_ne_zero.mpr hne) (ne_of_gt hD)]; ring
    rw [e]
    have hq : f b * (a - b) / (f a - f b) ≤ b - r := by
      rw [div_le_iff₀ hD]; nlinarith
    have hq0 : 0 ≤ f b * (a - b) / (f a - f b) := div_nonneg (mul_nonneg hfb (by linarith)) hD.le
    exact ⟨by linarith, by linarith, by linarith⟩

/-- **secant in the monotone basin.** With both current points in `[r, X]`: the returned point lies in
    `[r, X]`, the loop fails only by running out of passes, and — measured from the later point `p1` —
    every pass that does not stop moves down by at least `tol`, so `p1 − r < N·tol` and `N ≤ fuel`
    force a converged exit within `N` passes. -/
theorem secantLoop_convex (f : K → K) (r X tol : K) (h : ConvexChord f r) :
    ∀ (fuel itr : Nat) (p0 p1 : K) (calls : Nat), r ≤ p0 → p0 ≤ X → r ≤ p1 → p1 ≤ X →
      r ≤ (secantLoop f tol fuel itr p0 p1 (f p0) (f p1) calls).root ∧
      (secantLoop f tol fuel itr p0 p1 (f p0) (f p1) calls).root ≤ X ∧
      ((secantLoop f tol fuel itr p0 p1 (f p0) (f p1) calls).conv = false →
        (secantLoop f tol fuel itr p0 p1 (f p0) (f p1) calls).iters = itr + fuel) ∧
      (∀ N : Nat, p1 - r < N * tol → N ≤ fuel →
        (secantLoop f tol fuel itr p0 p1 (f p0) (f p1) calls).conv = true ∧
        (secantLoop f tol fuel itr p0 p1 (f p0) (f p1) calls).iters ≤ itr + N) := by
  intro fuel
  induction fuel with
  | zero =>
    intro itr p0 p1 calls _ _ h3 h4
    refine ⟨by simp [secantLoop, h3], by simp [secantLoop, h4], by simp [secantLoop], ?_⟩
    intro N hN hN0
    have : N = 0 := by omega
    subst this; simp at hN; linarith
  | succ fuel ih =>
    intro itr p0 p1 calls h1 h2 h3 h4
    unfold secantLoop
    by_cases h0 : f p1 = f p0
    · simp only [beq_iff_eq, h0, if_true]
      refine ⟨?_, ?_, by simp, fun N hN hNf => ⟨trivial, ?_⟩⟩
      · rw [two_eq]; linarith
      · rw [two_eq]; linarith
      · have : 1 ≤ N := by
          rcases Nat.eq_zero_or_pos N with hz | hz
          · rw [hz] at hN; simp at hN; linarith
          · exact hz
        show itr + 1 ≤ itr + N; omega
    · obtain ⟨s1, s2, s3⟩ := h.step p0 p1 h1 h3 h0
      by_cases hc : absv (p1 - f p1 * (p1 - p0) / (f p1 - f p0) - p1) < tol
      · simp only [beq_iff_eq, h0, hc, if_false, if_true]
        refine ⟨s1, le_trans s3 h4, by simp, fun N hN hNf => ⟨trivial, ?_⟩⟩
        have : 1 ≤ N := by
          rcases Nat.eq_zero_or_pos N with hz | hz
          · rw [hz] at hN; simp at hN; linarith
          · exact hz
        show itr + 1 ≤ itr + N; omega
      · simp only [beq_iff_eq, h0, hc, if_false]
        have := ih (itr + 1) p1 (p1 - f p1 * (p1 - p0) / (f p1 - f p0)) (calls + 1) h3 h4 s1 (le_trans s3 h4)
        obtain ⟨a1, a2, a3, a4⟩ := this
        refine ⟨a1, a2, fun hf => by have := a3 hf; omega, fun N hN hNf => ?_⟩
        rw [absv_eq_abs, abs_sub_comm, abs_of_nonneg (by linarith)] at hc
        have hstep : tol ≤ p1 - (p1 - f p1 * (p1 - p0) / (f p1 - f p0)) := not_lt.mp hc
        have hN1 : 1 ≤ N := by
          rcases Nat.eq_zero_or_pos N with hz | hz
          · rw [hz] at hN; simp at hN; linarith
          · exact hz
        have hN' : (p1 - f p1 * (p1 - p0) / (f p1 - f p0)) - r < ((N - 1 : Nat) : K) * tol := by
          rw [Nat.cast_sub hN1]; push_cast; linarith
        have := a4 (N - 1) hN' (by omega)
        exact ⟨this.1, by have := this.2; omega⟩

end
end QE.C17
