/-
  C04 — lexicographic positivity of the constraint rows is kept by every pivot of
  `solve_tableau`, and each pivot makes the criterion row strictly lexicographically smaller
  (along right-hand side, then the `slack_start` block).
-/
import QEProofs.Lemmas.C04LexRatio
import QEProofs.Lemmas.C04Simplex
namespace QE.C04
open QE QE.Pivot Finset

variable {K : Type} [Field K] [LinearOrder K] [IsStrictOrderedRing K]

/-- every constraint row is lexicographically positive -/
def LexRows (T : M K) (L N ss : ℕ) : Prop :=
  ∀ i, i < L → LexPos (lexCols L N ss) (fun col => T.get i col)

theorem lexCols_lt (L N ss : ℕ) (h : ss + L ≤ N + 1) : ∀ col ∈ lexCols L N ss, col < N + 1 := by
  intro col hcol
  unfold lexCols at hcol
  rcases List.mem_cons.mp hcol with e | hm
  · omega
  · obtain ⟨q, hq, e⟩ := List.mem_map.mp hm
    have := List.mem_range.mp hq
    omega

/-- lexicographic positivity of the rows survives a pivot on the strict lex-minimiser -/
theorem lexRows_pivot (T : M K) (L N ss c r : ℕ) (hs : Shape T L N) (hss : ss + L ≤ N + 1)
    (hlex : LexRows T L N ss) (hr : r < L) (hp : 0 < T.get r c)
    (hmin : ∀ i, i < L → i ≠ r → 0 < T.get i c →
      LexLt (lexCols L N ss) (ratioVec T c r) (ratioVec T c i)) :
    LexRows (pivot T c r) L N ss := by
  intro i hi
  have hcols := lexCols_lt L N ss hss
  by_cases hir : i = r
  · rw [hir]
    have h1 := lexPos_smul (lexCols L N ss) (1 / T.get r c) _ (by positivity) (hlex r hr)
    unfold LexPos at h1 ⊢
    apply lexLt_congr _ _ _ _ _ (fun _ _ => rfl) _ h1
    intro col hcol
    rw [pivot_get_r T c r col (by rw [hs.1]; omega) (by rw [hs.2]; exact hcols col hcol)]; ring
  · have hget : ∀ col ∈ lexCols L N ss,
        (pivot T c r).get i col = T.get i col - T.get r col / T.get r c * T.get i c := fun col hcol =>
      pivot_get_i T c r i col (by rw [hs.1]; omega) (by rw [hs.2]; exact hcols col hcol) hir
    by_cases hm : 0 < T.get i c
    · have h1 := (lexLt_iff_pos _ _ _).mp (hmin i hi hir hm)
      have h2 := lexPos_smul _ (T.get i c) _ hm h1
      unfold LexPos at h2 ⊢
      apply lexLt_congr _ _ _ _ _ (fun _ _ => rfl) _ h2
      intro col hcol
      rw [hget col hcol]
      unfold ratioVec
      field_simp
    · have hm' : T.get i c ≤ 0 := not_lt.mp hm
      rcases lt_or_eq_of_le hm' with hneg | hz
      · have h1 := lexPos_smul _ (- T.get i c / T.get r c) _
          (div_pos (by linarith) hp) (hlex r hr)
        have h2 := lexPos_add _ _ _ (hlex i hi) h1
        unfold LexPos at h2 ⊢
        apply lexLt_congr _ _ _ _ _ (fun _ _ => rfl) _ h2
        intro col hcol
        rw [hget col hcol]; ring
      · have h2 := hlex i hi
        unfold LexPos at h2 ⊢
        apply lexLt_congr _ _ _ _ _ (fun _ _ => rfl) _ h2
        intro col hcol
        rw [hget col hcol, hz]; ring

/-- the criterion row strictly lex-decreases -/
theorem crit_lex_decreases (T : M K) (L N ss c r : ℕ) (hs : Shape T L N) (hss : ss + L ≤ N + 1)
    (hlex : LexRows T L N ss) (hr : r < L) (hp : 0 < T.get r c) (hpos : 0 < T.get L c) :
    LexLt (lexCols L N ss) (fun col => (pivot T c r).get L col) (fun col => T.get L col) := by
  have hcols := lexCols_lt L N ss hss
  rw [lexLt_iff_pos]
  have h1 := lexPos_smul _ (T.get L c / T.get r c) _ (div_pos hpos hp) (hlex r hr)
  unfold LexPos at h1 ⊢
  apply lexLt_congr _ _ _ _ _ (fun _ _ => rfl) _ h1
  intro col hcol
  rw [pivot_get_i T c r L col (by rw [hs.1]; omega) (by rw [hs.2]; exact hcols col hcol) (by omega)]
  ring

omit [IsStrictOrderedRing K] in
/-- what a pivoting iteration does, with the strict lexicographic minimality of the row -/
theorem step_data_lex (skip : Bool) (T : M K) (b : List ℕ) (T' : M K) (b' : List ℕ) (L N : ℕ)
    (hs : Shape T L N) (h : Step (tol0 : Tol K) skip T b T' b') :
    ∃ c r, c < N - (if skip then L else 0) ∧ r < L ∧ 0 < T.get r c ∧ 0 < T.get L c ∧
      (∀ i, i < L → i ≠ r → 0 < T.get i c →
        LexLt (lexCols L N (N - L)) (ratioVec T c r) (ratioVec T c i)) ∧
      T' = pivot T c r ∧ b' = b.set r c := by
  obtain ⟨hnr, hnc⟩ := hs
  obtain ⟨c, hpc, hf, hT, hb⟩ := h
  have hL : T.nr - 1 = L := by rw [hnr]; rfl
  have hN : T.nc - 1 = N := by rw [hnc]; rfl
  obtain ⟨h1, h2, _⟩ := pivotCol_some T skip (tol0 : Tol K).fea c hpc
  rw [hL, hN] at h1
  rw [hL] at h2
  set r := (lexMinRatio (dropLast T) c (T.nc - (T.nr - 1) - 1) (tol0 : Tol K).piv (tol0 : Tol K).diff).2
    with hr
  have hfound : lexMinRatio (dropLast T) c (T.nc - (T.nr - 1) - 1) (0 : K) 0 = (true, r) :=
    Prod.ext hf rfl
  obtain ⟨g1, g2, _⟩ := lexMinRatio_found (dropLast T) c _ 0 r hfound
  have g3 := lexMinRatio_strict (dropLast T) c _ r hfound
  simp only [dropLast_nr, dropLast_nc, dropLast_get, hL, hN] at g1 g2 g3
  have hss : T.nc - L - 1 = N - L := by rw [hnc]; omega
  rw [hss] at g3
  exact ⟨c, r, h1, g1, g2, h2, fun i hi hir hpos => g3 i hi hir hpos, hT, hb⟩

end QE.C04
