/-
  C06 helper lemmas, part 8: the doubling identity of the structured-doubling step.
  `PhiRel A G H X Y` says `Y = H + Aᵀ X (I + G X)^{-1} A` with the "inverse" given by a witness `S`
  (`(I + G X) S = A`, `Y = H + Aᵀ X S`); when `I + G X` is invertible this is the function value.
-/
import QEProofs.Lemmas.C06Ricc

set_option linter.unusedSectionVars false

namespace QE.C06
open QE QE.MatAlg Finset Matrix

section
variable {K : Type} [CommRing K] {k : ℕ}

/-- `Y` is a value of the Riccati map of the triple `(A, G, H)` at `X` -/
def PhiRel (A G H X Y : Matrix (Fin k) (Fin k) K) : Prop :=
  ∃ S, (1 + G * X) * S = A ∧ Y = H + Aᵀ * X * S

/-- `m`-fold composition of `PhiRel` -/
def PhiRelN (A G H : Matrix (Fin k) (Fin k) K) : ℕ → Matrix (Fin k) (Fin k) K → Matrix (Fin k) (Fin k) K → Prop
  | 0, X, Y => X = Y
  | m + 1, X, Y => ∃ Z, PhiRelN A G H m X Z ∧ PhiRel A G H Z Y

theorem phiRelN_add (A G H : Matrix (Fin k) (Fin k) K) (m p : ℕ) (X Y : Matrix (Fin k) (Fin k) K)
    (h : PhiRelN A G H (m + p) X Y) : ∃ Z, PhiRelN A G H m X Z ∧ PhiRelN A G H p Z Y := by
  induction p generalizing Y with
  | zero => exact ⟨Y, h, rfl⟩
  | succ p ih =>
    obtain ⟨Z, hZ, hZY⟩ := h
    obtain ⟨Z', h1, h2⟩ := ih Z hZ
    exact ⟨Z', h1, Z, h2, hZY⟩

/-- with `I + G X` invertible the relation is the function `H + Aᵀ X (I + G X)^{-1} A` -/
theorem phiRel_iff_of_inv (A G H X Y Wi : Matrix (Fin k) (Fin k) K)
    (h1 : Wi * (1 + G * X) = 1) (h2 : (1 + G * X) * Wi = 1) :
    PhiRel A G H X Y ↔ Y = H + Aᵀ * X * (Wi * A) := by
  constructor
  · rintro ⟨S, hS, hY⟩
    have : S = Wi * A := by rw [← hS, ← Matrix.mul_assoc, h1, Matrix.one_mul]
    rw [hY, this]
  · intro hY
    exact ⟨Wi * A, by rw [← Matrix.mul_assoc, h2, Matrix.one_mul], hY⟩

/-- **doubling identity, matrix form.** Two applications of the map of `(A, G, H)` are one
    application of the map of the stepped triple
    `A1 = A V A`, `G1 = G + A V G Aᵀ`, `H1 = H + Aᵀ H V A`, `V = (I + G H)^{-1}` (`G, H` symmetric). -/
theorem sda_compose (A G H V X S T : Matrix (Fin k) (Fin k) K)
    (hG : Gᵀ = G) (hH : Hᵀ = H) (hVW : V * (1 + G * H) = 1)
    (hS : (1 + G * X) * S = A) (hT : (1 + G * (H + Aᵀ * X * S)) * T = A) :
    (1 + (G + A * V * G * Aᵀ) * X) * (S * T) = A * V * A ∧
    H + Aᵀ * (H + Aᵀ * X * S) * T = (H + Aᵀ * H * V * A) + (A * V * A)ᵀ * X * (S * T) := by
  constructor
  · calc (1 + (G + A * V * G * Aᵀ) * X) * (S * T)
        = ((1 + G * X) * S + A * V * G * Aᵀ * X * S) * T := by noncomm_ring
      _ = (A * (V * (1 + G * H)) + A * V * G * Aᵀ * X * S) * T := by rw [hS, hVW, mul_one]
      _ = A * V * ((1 + G * (H + Aᵀ * X * S)) * T) := by noncomm_ring
      _ = A * V * A := by rw [hT]
  · have hVt1 : (1 + H * G) * Vᵀ = 1 := by
      have := congrArg transpose hVW
      rw [transpose_mul, transpose_add, transpose_one, transpose_mul, hG, hH] at this
      exact this
    have hL : (1 - H * V * G) * (1 + H * G) = 1 := by
      calc (1 - H * V * G) * (1 + H * G) = 1 + H * G - H * (V * (1 + G * H)) * G := by noncomm_ring
        _ = 1 := by rw [hVW]; noncomm_ring
    have hVt : Vᵀ = 1 - H * V * G := by
      calc Vᵀ = ((1 - H * V * G) * (1 + H * G)) * Vᵀ := by rw [hL, one_mul]
        _ = (1 - H * V * G) * ((1 + H * G) * Vᵀ) := by rw [mul_assoc]
        _ = 1 - H * V * G := by rw [hVt1, mul_one]
    have hTe : T = V * A - V * G * Aᵀ * X * S * T := by
      have h0 : V * ((1 + G * (H + Aᵀ * X * S)) * T) = V * A := by rw [hT]
      have e : V * ((1 + G * (H + Aᵀ * X * S)) * T) = (V * (1 + G * H)) * T + V * G * Aᵀ * X * S * T := by
        noncomm_ring
      rw [e, hVW, one_mul] at h0
      exact eq_sub_of_add_eq h0
    calc H + Aᵀ * (H + Aᵀ * X * S) * T
        = (H + Aᵀ * H * V * A) + (A * V * A)ᵀ * X * (S * T)
            + Aᵀ * H * (T - (V * A - V * G * Aᵀ * X * S * T)) := by
          rw [transpose_mul, transpose_mul, hVt]; noncomm_ring
      _ = (H + Aᵀ * H * V * A) + (A * V * A)ᵀ * X * (S * T) := by
          rw [← hTe, sub_self, mul_zero, add_zero]

/-- the model's step in the forms used by `sda_compose` -/
theorem sdaStep_forms (sol : M K → M K → Option (M K)) (hsol : SolSpec sol k) (s s1 : Sda K)
    (hA : Dim s.A k k) (hG : Dim s.G k k) (hH : Dim s.H k k) (h : sdaStep sol s = some s1) :
    ∃ V : Matrix (Fin k) (Fin k) K,
      V * (1 + toMat k k s.G * toMat k k s.H) = 1 ∧ (1 + toMat k k s.G * toMat k k s.H) * V = 1 ∧
      toMat k k s1.A = toMat k k s.A * V * toMat k k s.A ∧
      toMat k k s1.G = toMat k k s.G + toMat k k s.A * V * toMat k k s.G * (toMat k k s.A)ᵀ ∧
      toMat k k s1.H = toMat k k s.H + (toMat k k s.A)ᵀ * toMat k k s.H * V * toMat k k s.A := by
  obtain ⟨_, _, _, S1, S2, S3, V1, V2, e1, e2, e3, v1a, v1b, v2a, v2b, rA, rG, rH⟩ :=
    sdaStep_toMat sol hsol s s1 hA hG hH h
  refine ⟨V1, v1a, v1b, ?_, ?_, ?_⟩
  · have : S1 = V1 * toMat k k s.A := by rw [← e1, ← Matrix.mul_assoc, v1a, Matrix.one_mul]
    rw [rA, this, Matrix.mul_assoc]
  · have hS2 : S2 = V2 * (toMat k k s.A)ᵀ := by rw [← e2, ← Matrix.mul_assoc, v2a, Matrix.one_mul]
    have hpush : toMat k k s.G * V2 = V1 * toMat k k s.G := by
      calc toMat k k s.G * V2
          = (V1 * (1 + toMat k k s.G * toMat k k s.H)) * toMat k k s.G * V2 := by rw [v1a, Matrix.one_mul]
        _ = V1 * toMat k k s.G * ((1 + toMat k k s.H * toMat k k s.G) * V2) := by noncomm_ring
        _ = V1 * toMat k k s.G := by rw [v2b, Matrix.mul_one]
    rw [rG, hS2]
    have : toMat k k s.A * toMat k k s.G * (V2 * (toMat k k s.A)ᵀ)
        = toMat k k s.A * (toMat k k s.G * V2) * (toMat k k s.A)ᵀ := by noncomm_ring
    rw [this, hpush]; noncomm_ring
  · have hS3 : S3 = V2 * (toMat k k s.H * toMat k k s.A) := by
      rw [← e3, ← Matrix.mul_assoc, v2a, Matrix.one_mul]
    have hpush : V2 * toMat k k s.H = toMat k k s.H * V1 := by
      calc V2 * toMat k k s.H
          = V2 * toMat k k s.H * ((1 + toMat k k s.G * toMat k k s.H) * V1) := by rw [v1b, Matrix.mul_one]
        _ = (V2 * (1 + toMat k k s.H * toMat k k s.G)) * toMat k k s.H * V1 := by noncomm_ring
        _ = toMat k k s.H * V1 := by rw [v2a, Matrix.one_mul]
    rw [rH, hS3, ← Matrix.mul_assoc V2, hpush]; noncomm_ring

end
end QE.C06
