/-
  C04 — `linprog_simplex` with status 0 returns an optimal solution (assembly of
  Phase 1, clean-up, `_set_criterion_row`, Phase 2 and `get_solution`).
-/
import QEProofs.Lemmas.C04Phase2
namespace QE.C04
open QE QE.Pivot Finset

variable {K : Type} [Field K] [LinearOrder K] [IsStrictOrderedRing K]

omit [IsStrictOrderedRing K] in
theorem feasible_congr (P : LP K) (x y : ℕ → K) (h : ∀ j, j < P.n → x j = y j)
    (hx : Feasible P x) : Feasible P y := by
  obtain ⟨h0, h1, h2⟩ := hx
  refine ⟨fun j hj => by rw [← h j hj]; exact h0 j hj, ?_, ?_⟩
  · intro i hi
    have : ∑ j ∈ range P.n, P.Aub i j * y j = ∑ j ∈ range P.n, P.Aub i j * x j :=
      Finset.sum_congr rfl (fun j hj => by rw [h j (Finset.mem_range.mp hj)])
    rw [this]; exact h1 i hi
  · intro i hi
    have : ∑ j ∈ range P.n, P.Aeq i j * y j = ∑ j ∈ range P.n, P.Aeq i j * x j :=
      Finset.sum_congr rfl (fun j hj => by rw [h j (Finset.mem_range.mp hj)])
    rw [this]; exact h2 i hi

omit [LinearOrder K] [IsStrictOrderedRing K] in
theorem objective_congr (P : LP K) (x y : ℕ → K) (h : ∀ j, j < P.n → x j = y j) :
    objective P x = objective P y :=
  Finset.sum_congr rfl (fun j hj => by rw [h j (Finset.mem_range.mp hj)])

/-- the Phase-2 run of `linprog_simplex` (what is executed when Phase 1 succeeds) -/
def phase2Run (P : LP K) (fuel : ℕ) (tol : Tol K) : Res K :=
  let r1 := solvePhase1 tol fuel (initTableau P) (initBasis P)
  solveTableau tol true (fuel - r1.iters) (setCriterionRow P.c P.n r1.basis r1.T) r1.basis

omit [IsStrictOrderedRing K] in
theorem linprogSimplex_of_phase1_ok (P : LP K) (fuel : ℕ) (tol : Tol K)
    (h1 : (solvePhase1 tol fuel (initTableau P) (initBasis P)).status = 0) :
    (linprogSimplex P fuel tol).status = (phase2Run P fuel tol).status ∧
    (linprogSimplex P fuel tol).x = getX (phase2Run P fuel tol).T (phase2Run P fuel tol).basis P.n ∧
    (linprogSimplex P fuel tol).fn = some (getFun (phase2Run P fuel tol).T) := by
  have hne : ¬ (solvePhase1 tol fuel (initTableau P) (initBasis P)).status ≠ 0 := by simp [h1]
  unfold linprogSimplex phase2Run
  simp only
  rw [if_neg hne]
  exact ⟨rfl, rfl, rfl⟩

omit [IsStrictOrderedRing K] in
theorem linprogSimplex_status0 (P : LP K) (fuel : ℕ) (tol : Tol K)
    (h : (linprogSimplex P fuel tol).status = 0) :
    (solvePhase1 tol fuel (initTableau P) (initBasis P)).status = 0 ∧
      (phase2Run P fuel tol).status = 0 := by
  rw [linprogSimplex_status] at h
  by_cases h1 : (solvePhase1 tol fuel (initTableau P) (initBasis P)).status ≠ 0
  · rw [if_pos h1] at h; exact absurd h h1
  · rw [if_neg h1] at h
    exact ⟨by simpa using h1, h⟩

/-- everything known about the final Phase-2 tableau when Phase 1 succeeded -/
theorem phase2_facts (P : LP K) (fuel : ℕ)
    (h1 : (solvePhase1 tol0 fuel (initTableau P) (initBasis P)).status = 0) :
    let L := P.m + P.k
    let N := P.n + P.m + (P.m + P.k)
    let r2 := phase2Run P fuel (tol0 : Tol K)
    let T1 := setCriterionRow P.c P.n (solvePhase1 tol0 fuel (initTableau P) (initBasis P)).basis
      (solvePhase1 tol0 fuel (initTableau P) (initBasis P)).T
    Inv0 T1 L N r2.T r2.basis ∧ ZeroRows r2.T r2.basis L N (P.n + P.m) L ∧
    (∀ z, RowsSat T1 z L ↔ RowsSat (initTableau P) z L) ∧
    (∀ z, RowsSat T1 z L → resid T1 z L = ∑ j ∈ range P.n, P.c j * z j) := by
  intro L N r2 T1
  have I1 := solvePhase1_success P fuel h1
  set r1 := solvePhase1 (tol0 : Tol K) fuel (initTableau P) (initBasis P) with hr1
  have hsT1 : Shape T1 L N := setCriterionRow_shape P.c P.n r1.basis r1.T L N I1.shape
  obtain ⟨hcT1, hobj⟩ := setCriterionRow_spec P.c P.n r1.basis r1.T L N I1.shape I1.canon
    (by show P.n ≤ P.n + P.m + (P.m + P.k); omega)
  have hrows : ∀ i j, i < L → j < N + 1 → T1.get i j = r1.T.get i j :=
    fun i j hi hj => setCriterionRow_get_row P.c P.n r1.basis r1.T L N i j I1.shape hi hj
  have hrhs : RhsNonneg T1 L N := by
    intro i hi; rw [hrows i N hi (by omega)]; exact I1.rhs i hi
  have hNL : N - L = P.n + P.m := by show P.n + P.m + (P.m + P.k) - (P.m + P.k) = P.n + P.m; omega
  have hzero : ZeroRows T1 r1.basis L N (N - L) L := by
    rw [hNL]
    intro i hi hai
    obtain ⟨z1, z2⟩ := I1.zero i hi hai
    refine ⟨by rw [hrows i N hi (by omega)]; exact z1, ?_⟩
    intro _ j hj
    rw [hrows i j hi (by show j < P.n + P.m + (P.m + P.k) + 1; omega)]
    exact z2 hi j hj
  obtain ⟨hinv, hz2⟩ := phase2_inv (fuel - r1.iters) T1 r1.basis L N hsT1 hcT1 hrhs hzero
  rw [hNL] at hz2
  refine ⟨hinv, hz2, ?_, hobj⟩
  intro z
  rw [setCriterionRow_rowsSat P.c P.n r1.basis r1.T L N I1.shape z]
  exact I1.sol z

/-- **linprog_simplex, status 0 ⇒ optimal** (exact arithmetic) -/
theorem linprog_status0_core (P : LP K) (fuel : ℕ)
    (h : (linprogSimplex P fuel tol0).status = 0) :
    let x := fun j => (linprogSimplex P fuel (tol0 : Tol K)).x.getD j 0
    Feasible P x ∧ (linprogSimplex P fuel (tol0 : Tol K)).fn = some (objective P x) ∧
      ∀ x', Feasible P x' → objective P x' ≤ objective P x := by
  intro x
  obtain ⟨h1, h2⟩ := linprogSimplex_status0 P fuel tol0 h
  obtain ⟨_, hx, hfn⟩ := linprogSimplex_of_phase1_ok P fuel tol0 h1
  obtain ⟨hinv, hz, hsol, hobj⟩ := phase2_facts P fuel h1
  set L := P.m + P.k with hL
  set N := P.n + P.m + (P.m + P.k) with hN
  set r2 := phase2Run P fuel (tol0 : Tol K) with hr2
  set T1 := setCriterionRow P.c P.n (solvePhase1 tol0 fuel (initTableau P) (initBasis P)).basis
      (solvePhase1 tol0 fuel (initTableau P) (initBasis P)).T with hT1
  have hpc : pivotCol r2.T true (0 : K) = none :=
    solveTableau_status0 (tol0 : Tol K) true _ _ _ h2
  obtain ⟨hz0, hzrows, hzval, hzopt⟩ := inv0_optimal true T1 L N r2.T r2.basis hinv hpc
  set zs := bsol r2.T r2.basis L N with hzs
  -- artificial components of the basic solution vanish
  have hart : ∀ q, q < L → zs (P.n + P.m + q) = 0 := by
    intro q hq
    by_cases hex : ∃ i, i < L ∧ r2.basis.getD i 0 = P.n + P.m + q
    · obtain ⟨i, hi, hbi⟩ := hex
      rw [hzs, ← hbi, bsol_basic r2.T r2.basis L N i hinv.canon hi]
      exact (hz i hi (by omega)).1
    · exact bsol_nonbasic r2.T r2.basis L N _ (fun i hi e => hex ⟨i, hi, e⟩)
  have hfeas : Feasible P zs :=
    rows_project P zs (fun j _ => hz0 j) ((hsol zs).mp hzrows) hart
  have hxz : ∀ j, j < P.n → zs j = x j := by
    intro j hj
    show zs j = (linprogSimplex P fuel (tol0 : Tol K)).x.getD j 0
    rw [hx, getX_eq_bsol r2.T r2.basis L N P.n j hinv.shape hinv.canon hj]
  have hobjz : objective P zs = - r2.T.get L N := by
    unfold objective
    rw [← hobj zs hzrows, hzval]
  refine ⟨feasible_congr P zs x hxz hfeas, ?_, ?_⟩
  · rw [hfn, ← objective_congr P zs x hxz, hobjz]
    unfold getFun
    have e1 : r2.T.nr - 1 = L := by rw [hinv.shape.1]; rfl
    have e2 : r2.T.nc - 1 = N := by rw [hinv.shape.2]; rfl
    rw [e1, e2]
  · intro x' hx'
    obtain ⟨z', hz'0, hz'rows, hz'art, hz'x⟩ := feasible_embed P x' hx'
    have hz'T1 : RowsSat T1 z' L := (hsol z').mpr hz'rows
    have hle := hzopt z' hz'0 hz'T1 (by
      intro _ j hj1 hj2
      have : j = P.n + P.m + (j - (P.n + P.m)) := by omega
      rw [this]; exact hz'art _ (by omega))
    rw [hobj z' hz'T1, hobj zs hzrows] at hle
    rw [← objective_congr P zs x hxz]
    have : objective P x' = ∑ j ∈ range P.n, P.c j * z' j :=
      objective_congr P x' z' (fun j hj => (hz'x j hj).symm)
    rw [this]
    exact hle

end QE.C04
