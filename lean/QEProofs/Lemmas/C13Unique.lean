/-
  Lemmas for C13, part 8: a stochastic matrix with strictly positive entries has at most one
  stationary probability vector.
-/
import Mathlib.Algebra.BigOperators.Group.Finset.Basic
import Mathlib.Algebra.BigOperators.Ring.Finset
import Mathlib.Algebra.Order.BigOperators.Group.Finset
import Mathlib.Algebra.Order.Field.Basic
import Mathlib.Algebra.Order.AbsoluteValue.Basic
import Mathlib.Tactic.Linarith
namespace QE.C13
open Finset

section
variable {K : Type} [Field K] [LinearOrder K] [IsStrictOrderedRing K]

/-- a left fixed vector with zero total mass of a positive row-stochastic matrix is zero -/
theorem fixed_zero_sum_eq_zero (n : ℕ) (P : ℕ → ℕ → K)
    (hpos : ∀ i j, i < n → j < n → 0 < P i j) (hrow : ∀ i, i < n → ∑ j ∈ range n, P i j = 1)
    (v : ℕ → K) (hv : ∀ j, j < n → ∑ i ∈ range n, v i * P i j = v j)
    (hsum : ∑ i ∈ range n, v i = 0) : ∀ i, i < n → v i = 0 := by
  by_contra hne
  push Not at hne
  obtain ⟨k, hk, hvk⟩ := hne
  -- there is a strictly positive and a strictly negative coordinate
  have hab : (∃ a, a < n ∧ 0 < v a) ∧ (∃ b, b < n ∧ v b < 0) := by
    constructor
    · by_contra hno
      push Not at hno
      have hall : ∀ i ∈ range n, 0 ≤ -v i := fun i hi => by linarith [hno i (mem_range.mp hi)]
      have hz : ∑ i ∈ range n, -v i = 0 := by rw [sum_neg_distrib, hsum, neg_zero]
      have := (sum_eq_zero_iff_of_nonneg hall).mp hz k (mem_range.mpr hk)
      exact hvk (by linarith)
    · by_contra hno
      push Not at hno
      have hall : ∀ i ∈ range n, 0 ≤ v i := fun i hi => hno i (mem_range.mp hi)
      have := (sum_eq_zero_iff_of_nonneg hall).mp hsum k (mem_range.mpr hk)
      exact hvk this
  obtain ⟨⟨a, ha, hva⟩, ⟨b, hb, hvb⟩⟩ := hab
  -- strict contraction in every column
  have hcol : ∀ j ∈ range n, |v j| < ∑ i ∈ range n, |v i| * P i j := by
    intro j hj
    have hj' := mem_range.mp hj
    rw [← hv j hj']
    have hup : ∑ i ∈ range n, v i * P i j < ∑ i ∈ range n, |v i| * P i j := by
      apply sum_lt_sum
      · intro i hi
        exact mul_le_mul_of_nonneg_right (le_abs_self _) (hpos i j (mem_range.mp hi) hj').le
      · refine ⟨b, mem_range.mpr hb, ?_⟩
        apply mul_lt_mul_of_pos_right _ (hpos b j hb hj')
        rw [abs_of_neg hvb]; linarith
    have hlo : -(∑ i ∈ range n, v i * P i j) < ∑ i ∈ range n, |v i| * P i j := by
      rw [← sum_neg_distrib]
      apply sum_lt_sum
      · intro i hi
        have := mul_le_mul_of_nonneg_right (neg_abs_le (v i)) (hpos i j (mem_range.mp hi) hj').le
        linarith
      · refine ⟨a, mem_range.mpr ha, ?_⟩
        have := mul_lt_mul_of_pos_right (show -v a < |v a| by rw [abs_of_pos hva]; linarith) (hpos a j ha hj')
        linarith
    exact abs_lt.mpr ⟨by linarith, hup⟩
  have hne' : (range n).Nonempty := ⟨a, mem_range.mpr ha⟩
  have hlt : ∑ j ∈ range n, |v j| < ∑ j ∈ range n, ∑ i ∈ range n, |v i| * P i j :=
    sum_lt_sum_of_nonempty hne' hcol
  rw [sum_comm] at hlt
  have heq : ∑ i ∈ range n, ∑ j ∈ range n, |v i| * P i j = ∑ i ∈ range n, |v i| := by
    apply sum_congr rfl
    intro i hi
    rw [← mul_sum, hrow i (mem_range.mp hi), mul_one]
  rw [heq] at hlt
  exact lt_irrefl _ hlt

/-- **Uniqueness of the stationary distribution** of a positive row-stochastic matrix -/
theorem stationary_unique (n : ℕ) (P : ℕ → ℕ → K)
    (hpos : ∀ i j, i < n → j < n → 0 < P i j) (hrow : ∀ i, i < n → ∑ j ∈ range n, P i j = 1)
    (π π' : ℕ → K) (h1 : ∀ j, j < n → ∑ i ∈ range n, π i * P i j = π j)
    (h2 : ∀ j, j < n → ∑ i ∈ range n, π' i * P i j = π' j)
    (hs : ∑ i ∈ range n, π i = ∑ i ∈ range n, π' i) : ∀ i, i < n → π i = π' i := by
  intro i hi
  have := fixed_zero_sum_eq_zero n P hpos hrow (fun i => π i - π' i)
    (fun j hj => by
      simp only [sub_mul, sum_sub_distrib, h1 j hj, h2 j hj])
    (by rw [sum_sub_distrib, hs, sub_self]) i hi
  linarith

end
end QE.C13
