/-
  C04 — two facts towards termination (which itself is not proved): the objective never
  decreases along the pivots of `solve_tableau`, and a basis determines the right-hand
  side column, the basic solution and the objective value.
-/
import QEProofs.Lemmas.C04Simplex
namespace QE.C04
open QE QE.Pivot Finset

variable {K : Type} [Field K] [LinearOrder K] [IsStrictOrderedRing K]

/-- one pivoting iteration does not decrease the objective `−T[L,N]` -/
theorem step_objective_monotone (skip : Bool) (T0 : M K) (L N : ℕ) (T : M K) (b : List ℕ) (T' : M K)
    (b' : List ℕ) (h : Inv0 T0 L N T b) (hst : Step (tol0 : Tol K) skip T b T' b') :
    T'.get L N ≤ T.get L N := by
  obtain ⟨c, r, _, hr, hp, hpos, _, hT, _⟩ := step_data skip T b T' b' L N h.shape hst
  subst hT
  rw [pivot_get_i T c r L N (by rw [h.shape.1]; omega) (by rw [h.shape.2]; omega) (by omega)]
  have : 0 ≤ T.get r N / T.get r c * T.get L c :=
    mul_nonneg (div_nonneg (h.rhs r hr) (le_of_lt hp)) (le_of_lt hpos)
  linarith

/-- **the reported objective never decreases during `solve_tableau`** -/
theorem solveTableau_objective_monotone (skip : Bool) (fuel : ℕ) (T0 : M K) (b0 : List ℕ) (L N : ℕ)
    (hs : Shape T0 L N) (hc : Canon T0 b0 L N) (hr : RhsNonneg T0 L N) :
    (solveTableau tol0 skip fuel T0 b0).T.get L N ≤ T0.get L N := by
  have := solveTableau_induct (tol0 : Tol K) skip
    (fun T b => Inv0 T0 L N T b ∧ T.get L N ≤ T0.get L N)
    (fun T b T' b' h hst => ⟨inv0_step skip T0 L N T b T' b' h.1 hst,
      le_trans (step_objective_monotone skip T0 L N T b T' b' h.1 hst) h.2⟩)
    fuel T0 b0 ⟨inv0_refl T0 b0 L N hs hc hr, le_refl _⟩
  exact this.2

omit [LinearOrder K] [IsStrictOrderedRing K] in
/-- **a basis determines the vertex**: two canonical tableaux with the same basis whose rows have
    the same solution set have the same right-hand sides, hence the same basic solution; if
    their criterion rows define the same objective on that set, the same objective value -/
theorem basis_determines_vertex (T T' : M K) (b : List ℕ) (L N : ℕ)
    (hs : Shape T L N) (hs' : Shape T' L N) (hc : Canon T b L N) (hc' : Canon T' b L N)
    (hsol : ∀ z, RowsSat T z L ↔ RowsSat T' z L) :
    (∀ i, i < L → T.get i N = T'.get i N) ∧ (∀ j, bsol T b L N j = bsol T' b L N j) ∧
    ((∀ z, RowsSat T z L → resid T z L = resid T' z L) → T.get L N = T'.get L N) := by
  have hrhs : ∀ i, i < L → T.get i N = T'.get i N := by
    intro i hi
    have hz' := bsol_rowsSat T' b L N hs' hc'
    have hz := (hsol _).mpr hz' i hi
    unfold RowSat at hz
    have hN : T.nc - 1 = N := by rw [hs.2]; rfl
    rw [hN] at hz
    unfold bsol at hz
    rw [sum_mul_basis b L N (fun j => T.get i j) (fun i => T'.get i N) (fun i hi => (hc.2 i hi).1),
      canon_row_basis T b L N i (fun i => T'.get i N) hc (by omega), if_pos hi] at hz
    exact hz.symm
  have hb : ∀ j, bsol T b L N j = bsol T' b L N j := by
    intro j
    unfold bsol
    apply Finset.sum_congr rfl
    intro i hi
    rw [hrhs i (Finset.mem_range.mp hi)]
  refine ⟨hrhs, hb, ?_⟩
  intro hobj
  have hz := bsol_rowsSat T b L N hs hc
  have h1 := hobj _ hz
  rw [bsol_obj T b L N hs hc] at h1
  have : bsol T b L N = bsol T' b L N := funext hb
  rw [this, bsol_obj T' b L N hs' hc'] at h1
  exact neg_injective h1

end QE.C04
