/-
  C07 helper lemmas, part 5: the expected value of a quadratic form under a finitely supported
  shock distribution with mean zero and identity second moment (no probability theory: a weighted
  finite sum), which is what the constant `d` of the value function accounts for.
-/
import QEProofs.Lemmas.C07Bridge

set_option linter.unusedSectionVars false

namespace QE.C07
open QE Finset Matrix

variable {K : Type} [CommRing K] {n j : ℕ} {ι : Type} [Fintype ι]

theorem entry_eq_trace (X : Matrix (Fin 1) (Fin 1) K) : X 0 0 = Matrix.trace X := by
  simp [Matrix.trace]

/-- `Σ_s p_s (y + C w_s)' P (y + C w_s) = y'Py + tr(P C C')` when `Σ p_s = 1`, `Σ p_s w_s = 0`,
    `Σ p_s w_s w_s' = I` -/
theorem expect_qf (p : ι → K) (w : ι → Fin j → K) (P : Matrix (Fin n) (Fin n) K)
    (C : Matrix (Fin n) (Fin j) K) (y : Fin n → K)
    (hp : ∑ s, p s = 1) (hmean : ∑ s, p s • colM (w s) = 0)
    (hcov : ∑ s, p s • (colM (w s) * (colM (w s))ᵀ) = 1) :
    ∑ s, p s * qf P (y + C *ᵥ w s) = qf P y + Matrix.trace (P * (C * Cᵀ)) := by
  have hexp : ∀ s, qf P (y + C *ᵥ w s)
      = qf P y + ((colM y)ᵀ * P * C * colM (w s)) 0 0 + ((colM (w s))ᵀ * (Cᵀ * P * colM y)) 0 0
        + Matrix.trace ((Cᵀ * P * C) * (colM (w s) * (colM (w s))ᵀ)) := by
    intro s
    have ht : Matrix.trace ((Cᵀ * P * C) * (colM (w s) * (colM (w s))ᵀ))
        = ((colM (w s))ᵀ * (Cᵀ * P * C) * colM (w s)) 0 0 := by
      rw [entry_eq_trace ((colM (w s))ᵀ * (Cᵀ * P * C) * colM (w s)), ← Matrix.mul_assoc,
        Matrix.trace_mul_comm, ← Matrix.mul_assoc]
    rw [ht]
    unfold qf
    rw [colM_add, colM_mulVec]
    simp only [transpose_add, transpose_mul, Matrix.add_mul, Matrix.mul_add, Matrix.add_apply,
      Matrix.mul_assoc]
    ring
  have t2 : ∑ s, p s * ((colM y)ᵀ * P * C * colM (w s)) 0 0
      = ((colM y)ᵀ * P * C * ∑ s, p s • colM (w s)) 0 0 := by
    simp [Matrix.mul_sum, Matrix.sum_apply]
  have t3 : ∑ s, p s * ((colM (w s))ᵀ * (Cᵀ * P * colM y)) 0 0
      = ((∑ s, p s • colM (w s))ᵀ * (Cᵀ * P * colM y)) 0 0 := by
    simp [Matrix.sum_mul, Matrix.sum_apply, Matrix.transpose_sum]
  have t4 : ∑ s, p s * Matrix.trace ((Cᵀ * P * C) * (colM (w s) * (colM (w s))ᵀ))
      = Matrix.trace ((Cᵀ * P * C) * ∑ s, p s • (colM (w s) * (colM (w s))ᵀ)) := by
    simp [Matrix.mul_sum, Matrix.trace_sum, Matrix.trace_smul]
  simp only [hexp, mul_add, Finset.sum_add_distrib]
  rw [t2, t3, t4, hmean, hcov, ← Finset.sum_mul, hp]
  have hc : Matrix.trace (Cᵀ * P * C * 1) = Matrix.trace (P * (C * Cᵀ)) := by
    rw [Matrix.mul_one, Matrix.mul_assoc, Matrix.trace_mul_comm, Matrix.mul_assoc]
  rw [hc]
  simp

end QE.C07
