/-
  Lemmas for C08, part 2: panel decomposition of the trapezoid and Simpson sums and the
  telescoping argument (induction over the number of panels).
-/
import QEProofs.Lemmas.C08Basic
namespace QE.C08
open Finset

set_option linter.unusedSectionVars false

variable {K : Type} [Field K] [LinearOrder K] [IsStrictOrderedRing K]

/-! ### blocks of a `flatMap` -/

theorem flatMap_block {β γ : Type} (f : β → List γ) (m : Nat) :
    ∀ (l : List β), (∀ x ∈ l, (f x).length = m) → ∀ (i j : Nat), j < m →
      (l.flatMap f)[i * m + j]? = (l[i]?).bind fun x => (f x)[j]? := by
  intro l
  induction l with
  | nil => intro _ i j _; simp
  | cons x t ih =>
    intro hf i j hj
    have hx : (f x).length = m := hf x (by simp)
    rw [List.flatMap_cons]
    cases i with
    | zero =>
      simp only [Nat.zero_mul, Nat.zero_add, List.getElem?_cons_zero, Option.bind_some]
      rw [List.getElem?_append_left (by omega)]
    | succ i =>
      have e : (i + 1) * m + j = (f x).length + (i * m + j) := by rw [hx]; ring
      rw [e, List.getElem?_append_right (by omega), Nat.add_sub_cancel_left]
      rw [ih (fun y hy => hf y (by simp [hy])) i j hj]
      simp

theorem flatMap_block_length {β γ : Type} (f : β → List γ) (m : Nat) :
    ∀ (l : List β), (∀ x ∈ l, (f x).length = m) → (l.flatMap f).length = l.length * m := by
  intro l
  induction l with
  | nil => intro _; simp
  | cons x t ih =>
    intro hf
    rw [List.flatMap_cons, List.length_append, ih (fun y hy => hf y (by simp [hy])), hf x (by simp)]
    simp; ring

/-- `np.kron(a, b)[i*len(b) + j] = a[i]*b[j]` -/
theorem kron_getD (a b : List K) (i j : Nat) (hi : i < a.length) (hj : j < b.length) :
    (kron a b).getD (i * b.length + j) 0 = a.getD i 0 * b.getD j 0 := by
  unfold kron
  rw [List.getD_eq_getElem?_getD, flatMap_block _ b.length a (by intro x _; simp) i j hj]
  simp [List.getD_eq_getElem?_getD, hi, hj]

theorem kron_length (a b : List K) : (kron a b).length = a.length * b.length := by
  unfold kron
  exact flatMap_block_length _ b.length a (by intro x _; simp)

/-! ### trapezoid: panels -/

theorem trap_panels (g : Nat → K) : ∀ m, 1 ≤ m →
    ∑ i ∈ range (m + 1), trapCoef (m + 1) i * g i = ∑ p ∈ range m, (g p + g (p + 1)) / 2 := by
  intro m hm
  induction m, hm using Nat.le_induction with
  | base => simp [Finset.sum_range_succ, trapCoef]; ring
  | succ m hm ih =>
    rw [Finset.sum_range_succ _ (m + 1), Finset.sum_range_succ _ m, Finset.sum_range_succ _ m, ← ih,
      Finset.sum_range_succ _ m]
    have hc : ∀ i ∈ range m, trapCoef (m + 1 + 1) i * g i = trapCoef (m + 1) i * g i := by
      intro i hi
      have : i < m := by simpa using hi
      unfold trapCoef
      have h1 : ¬ (i = m + 1) := by omega
      have h2 : ¬ (i = m) := by omega
      simp [h1, h2]
    rw [Finset.sum_congr rfl hc]
    have h0 : m ≠ 0 := by omega
    simp [trapCoef, h0]
    ring

/-- the uniform grid advances by the step -/
theorem node_succ (n : Nat) (a b : K) (i : Nat) :
    node n a b (i + 1) = node n a b i + (b - a) / ((n - 1 : Nat) : K) := by
  unfold node; push_cast; ring

/-- **Trapezoid, general form.** If `f` and `F` satisfy the one-panel identity
    `(h/2)(f x + f (x+h)) = F (x+h) − F x`, then the composite rule on the uniform grid with
    `m ≥ 1` panels returns `F b − F a`. -/
theorem trap_sum_of_panel (m : Nat) (hm : 1 ≤ m) (a b : K) (f F : K → K)
    (hp : ∀ x h : K, h / 2 * (f x + f (x + h)) = F (x + h) - F x) :
    ∑ i ∈ range (m + 1), ((b - a) / ((m + 1 - 1 : Nat) : K) * trapCoef (m + 1) i) * f (node (m + 1) a b i)
      = F b - F a := by
  set h : K := (b - a) / ((m + 1 - 1 : Nat) : K) with hh
  have e1 : ∀ i ∈ range (m + 1), (h * trapCoef (m + 1) i) * f (node (m + 1) a b i)
      = h * (trapCoef (m + 1) i * f (node (m + 1) a b i)) := by intro i _; ring
  rw [Finset.sum_congr rfl e1, ← Finset.mul_sum, trap_panels (fun i => f (node (m + 1) a b i)) m hm,
    Finset.mul_sum]
  have e2 : ∀ p ∈ range m, h * ((f (node (m + 1) a b p) + f (node (m + 1) a b (p + 1))) / 2)
      = F (node (m + 1) a b (p + 1)) - F (node (m + 1) a b p) := by
    intro p _
    rw [node_succ, ← hh, ← hp]; ring
  rw [Finset.sum_congr rfl e2, Finset.sum_range_sub (fun p => F (node (m + 1) a b p))]
  have := node_last (m + 1) a b (by omega)
  simp only [Nat.add_sub_cancel] at this
  rw [this, node_zero]

/-! ### Simpson: panels -/

/-- Simpson coefficients `1, 4, 2, 4, …, 2, 4, 1` -/
def simpCoef (n i : Nat) : K := if i = 0 ∨ i + 1 = n then 1 else if i % 2 = 0 then 2 else 4

theorem simp_panels (g : Nat → K) : ∀ m, 1 ≤ m →
    ∑ i ∈ range (2 * m + 1), simpCoef (2 * m + 1) i * g i
      = ∑ p ∈ range m, (g (2 * p) + 4 * g (2 * p + 1) + g (2 * p + 2)) := by
  intro m hm
  induction m, hm using Nat.le_induction with
  | base => simp [Finset.sum_range_succ, simpCoef]
  | succ m hm ih =>
    have e : 2 * (m + 1) + 1 = 2 * m + 1 + 1 + 1 := by ring
    rw [e, Finset.sum_range_succ _ (2 * m + 1 + 1), Finset.sum_range_succ _ (2 * m + 1),
      Finset.sum_range_succ _ (2 * m), Finset.sum_range_succ _ m, ← ih, Finset.sum_range_succ _ (2 * m)]
    have hc : ∀ i ∈ range (2 * m), simpCoef (2 * m + 1 + 1 + 1) i * g i = simpCoef (2 * m + 1) i * g i := by
      intro i hi
      have : i < 2 * m := by simpa using hi
      unfold simpCoef
      have h1 : ¬ (i = 2 * m + 2) := by omega
      have h2 : ¬ (i = 2 * m) := by omega
      simp [h1, h2]
    rw [Finset.sum_congr rfl hc]
    have h0 : ¬ (2 * m = 0) := by omega
    have h3 : (2 * m + 1) % 2 = 1 := by omega
    have h4 : (2 * m) % 2 = 0 := by omega
    have h5 : ¬ (2 * m + 1 = 0) := by omega
    simp [simpCoef, h0, h3, h4]
    ring

/-- **Simpson, general form.** If `f` and `F` satisfy the one-panel identity
    `(h/3)(f x + 4 f (x+h) + f (x+2h)) = F (x+2h) − F x`, then the composite rule on the uniform
    grid with `2m+1` nodes (`m ≥ 1` panels) returns `F b − F a`. -/
theorem simp_sum_of_panel (m : Nat) (hm : 1 ≤ m) (a b : K) (f F : K → K)
    (hp : ∀ x h : K, h / 3 * (f x + 4 * f (x + h) + f (x + 2 * h)) = F (x + 2 * h) - F x) :
    ∑ i ∈ range (2 * m + 1),
        ((b - a) / ((2 * m + 1 - 1 : Nat) : K) / 3 * simpCoef (2 * m + 1) i) * f (node (2 * m + 1) a b i)
      = F b - F a := by
  set h : K := (b - a) / ((2 * m + 1 - 1 : Nat) : K) with hh
  have e1 : ∀ i ∈ range (2 * m + 1), (h / 3 * simpCoef (2 * m + 1) i) * f (node (2 * m + 1) a b i)
      = h / 3 * (simpCoef (2 * m + 1) i * f (node (2 * m + 1) a b i)) := by intro i _; ring
  rw [Finset.sum_congr rfl e1, ← Finset.mul_sum,
    simp_panels (fun i => f (node (2 * m + 1) a b i)) m hm, Finset.mul_sum]
  have e2 : ∀ p ∈ range m, h / 3 * (f (node (2 * m + 1) a b (2 * p)) + 4 * f (node (2 * m + 1) a b (2 * p + 1))
        + f (node (2 * m + 1) a b (2 * p + 2)))
      = F (node (2 * m + 1) a b (2 * (p + 1))) - F (node (2 * m + 1) a b (2 * p)) := by
    intro p _
    have s1 : node (2 * m + 1) a b (2 * p + 1) = node (2 * m + 1) a b (2 * p) + h := node_succ _ _ _ _
    have s2 : node (2 * m + 1) a b (2 * p + 2) = node (2 * m + 1) a b (2 * p) + 2 * h := by
      rw [show 2 * p + 2 = 2 * p + 1 + 1 by ring, node_succ, s1, ← hh]; ring
    rw [show 2 * (p + 1) = 2 * p + 2 by ring, s1, s2, ← hp]
  rw [Finset.sum_congr rfl e2, Finset.sum_range_sub (fun p => F (node (2 * m + 1) a b (2 * p)))]
  have := node_last (2 * m + 1) a b (by omega)
  simp only [Nat.add_sub_cancel] at this
  rw [this, Nat.mul_zero, node_zero]

/-! ### the model's rules in closed form -/

/-- `_qnwtrap1` in exact arithmetic: uniform grid, weights `h·(1/2, 1, …, 1, 1/2)` -/
theorem trapRule_eq (n : Nat) (hn : 2 ≤ n) (a b : K) :
    trapRule n a b = some ((List.range n).map (node n a b),
      (List.range n).map fun i => (b - a) / ((n - 1 : Nat) : K) * trapCoef n i) := by
  unfold trapRule
  rw [if_neg (by omega)]
  dsimp only
  rw [linspace_dx n a b hn, trap_weights_eq n _ hn, linspace_eq n a b hn]

theorem simpPattern_eq (m : Nat) (hm : 1 ≤ m) :
    (simpPattern (2 * m + 1) : List K) = (List.range (2 * m + 1)).map (simpCoef (2 * m + 1)) := by
  unfold simpPattern
  dsimp only
  have hk : (2 * m + 1 + 1) / 2 = m + 1 := by omega
  rw [hk]
  apply List.ext_getElem
  · simp [kron_length]; omega
  · intro i h1 h2
    have hi : i < 2 * m + 1 := by simpa using h2
    rw [List.getElem_set, List.getElem_set, List.getElem_take, List.getElem_map, List.getElem_range]
    have hlen : (kron (List.replicate (m + 1) (1 : K)) [((2 : Nat) : K), ((4 : Nat) : K)]).length = (m + 1) * 2 := by
      rw [kron_length]; simp
    have hget : (kron (List.replicate (m + 1) (1 : K)) [((2 : Nat) : K), ((4 : Nat) : K)])[i]'(by rw [hlen]; omega)
        = if i % 2 = 0 then 2 else 4 := by
      have hd := kron_getD (List.replicate (m + 1) (1 : K)) [((2 : Nat) : K), ((4 : Nat) : K)] (i / 2) (i % 2)
        (by simp; omega) (by simp; omega)
      have e : i / 2 * [((2 : Nat) : K), ((4 : Nat) : K)].length + i % 2 = i := by simp; omega
      rw [e, List.getD_eq_getElem?_getD, List.getElem?_eq_getElem (by rw [hlen]; omega)] at hd
      simp only [Option.getD_some] at hd
      rw [hd]
      have hr : (List.replicate (m + 1) (1 : K)).getD (i / 2) 0 = 1 := by
        rw [List.getD_eq_getElem?_getD, List.getElem?_replicate, if_pos (by omega)]; rfl
      rw [hr, one_mul]
      have h01 : i % 2 = 0 ∨ i % 2 = 1 := by omega
      rcases h01 with h | h
      · rw [h, if_pos rfl]; simp
      · rw [h, if_neg (by omega)]; simp
    rw [hget]
    unfold simpCoef
    by_cases hlast : 2 * m + 1 - 1 = i
    · have : i + 1 = 2 * m + 1 := by omega
      simp [hlast, this]
    · have hne : ¬ (i = 2 * m) := by omega
      have hne' : ¬ (2 * m = i) := by omega
      by_cases h0 : 0 = i
      · subst h0; simp
      · have : ¬ (i = 0) := by omega
        simp [h0, this, hne, hne']

theorem simpN_eq (n0 : Nat) : simpN n0 = 2 * (n0 / 2) + 1 := by
  unfold simpN
  split <;> omega

/-- `_qnwsimp1` in exact arithmetic: `2m+1` nodes with `m = n0 / 2` (the rounding-up of an even
    `n0` included), weights `(h/3)·(1, 4, 2, …, 4, 1)` -/
theorem simpRule_eq (n0 : Nat) (hn : 2 ≤ n0) (a b : K) :
    simpRule n0 a b = ((List.range (2 * (n0 / 2) + 1)).map (node (2 * (n0 / 2) + 1) a b),
      (List.range (2 * (n0 / 2) + 1)).map fun i =>
        (b - a) / ((2 * (n0 / 2) + 1 - 1 : Nat) : K) / 3 * simpCoef (2 * (n0 / 2) + 1) i) := by
  unfold simpRule
  dsimp only
  rw [simpN_eq]
  have hm : 1 ≤ n0 / 2 := by omega
  have hn' : 2 ≤ 2 * (n0 / 2) + 1 := by omega
  rw [linspace_dx _ a b hn', linspace_eq _ a b hn', simpPattern_eq _ hm, List.map_map]
  congr 1

end QE.C08
