/-
  Lemmas for C02: a closed class's row of `stationaryDists` is a stationary distribution of the
  whole chain (composition of the GTH theorem on `P[C,C]` with the scatter lemma).
-/
import QEModel.C02
import QEProofs.Lemmas.C02Gth
import QEProofs.Lemmas.C02Scatter
import QEProofs.Lemmas.C02Reach
namespace QE.C02
open Finset

set_option linter.unusedSectionVars false

section
variable {K : Type} [Field K] [LinearOrder K] [IsStrictOrderedRing K]

theorem getD_mem_of_lt (C : List ℕ) (a : ℕ) (ha : a < C.length) : C.getD a 0 ∈ C := by
  have : C.getD a 0 = C[a] := by simp [List.getD_eq_getElem?_getD, ha]
  rw [this]; exact List.getElem_mem ha

theorem closedB_sound (n : ℕ) (P : M K) (C : List ℕ) (h : closedB n P C = true)
    (hnn : ∀ i j, i < n → j < n → 0 ≤ P.get i j) (hC : ∀ c ∈ C, c < n) :
    ∀ c ∈ C, ∀ j, j < n → j ∉ C → P.get c j = 0 := by
  intro c hc j hj hjC
  unfold closedB at h
  rw [List.all_eq_true] at h
  have h1 := h c hc
  rw [List.all_eq_true] at h1
  have h2 := h1 j (List.mem_range.2 hj)
  have hcont : C.contains j = false := by
    simpa using hjC
  rw [hcont, Bool.false_or, decide_eq_true_eq] at h2
  exact le_antisymm h2 (hnn c j (hC c hc) hj)

theorem class_row_stationary_aux (n : ℕ) (P : M K) (C : List ℕ)
    (hnd : C.Nodup) (hC : ∀ c ∈ C, c < n) (hne : C ≠ [])
    (hnn : ∀ i j, i < n → j < n → 0 ≤ P.get i j)
    (hrow : ∀ i, i < n → ∑ j ∈ range n, P.get i j = 1)
    (hclosed : ∀ c ∈ C, ∀ j, j < n → j ∉ C → P.get c j = 0) :
    (∀ j, j < n → ∑ i ∈ range n,
        (scatter n C (gthSolve C.length (restrict P C))).getD i 0 * P.get i j
          = (scatter n C (gthSolve C.length (restrict P C))).getD j 0)
    ∧ (∀ i, 0 ≤ (scatter n C (gthSolve C.length (restrict P C))).getD i 0)
    ∧ ∑ i ∈ range n, (scatter n C (gthSolve C.length (restrict P C))).getD i 0 = 1
    ∧ (∀ i, i ∉ C → (scatter n C (gthSolve C.length (restrict P C))).getD i 0 = 0) := by
  have hlen : 1 ≤ C.length := List.length_pos_iff.2 hne
  have hR : OffNonneg C.length (restrict P C) := by
    intro a b ha hb _
    rw [restrict_get P C a b ha hb]
    exact hnn _ _ (hC _ (getD_mem_of_lt C a ha)) (hC _ (getD_mem_of_lt C b hb))
  have hRrow : ∀ a, a < C.length → ∑ b ∈ range C.length, (restrict P C).get a b = 1 := by
    intro a ha
    rw [restrict_rowsum n P C hnd hC hclosed a ha]
    exact hrow _ (hC _ (getD_mem_of_lt C a ha))
  have hinv := gthSolve_invariant_aux C.length hlen (restrict P C) hR hRrow
  obtain ⟨_, hx0, hx1, _⟩ := gthSolve_stationary_aux C.length hlen (restrict P C) hR
  obtain ⟨s1, s2, _⟩ := scatter_invariant_aux n P C (gthSolve C.length (restrict P C)) hnd hC hclosed hinv
  refine ⟨s1, ?_, ?_, s2⟩
  · intro i
    rcases scatter_cases n C (gthSolve C.length (restrict P C)) hnd hC i with h | ⟨a, _, h⟩
    · rw [h]
    · rw [h]; exact hx0 a
  · have := scatter_sum n C (gthSolve C.length (restrict P C)) hnd hC (fun _ => (1 : K))
    simp only [mul_one] at this
    rw [this, hx1]

theorem adjB_iff (P : M K) (a b : ℕ) : adjB P a b = true ↔ 0 < P.get a b := by
  unfold adjB
  simp only [Bool.not_eq_true', decide_eq_false_iff_not, not_le]

/-- **The closedness certificate always holds** for the classes the model computes. -/
theorem closedB_recClasses (n : ℕ) (P : M K) (C : List ℕ)
    (h : C ∈ recClasses n (reachMat n (adjB P))) : closedB n P C = true := by
  obtain ⟨i, hi, _, _, _, hm⟩ := recClasses_sound n (adjB P) C h
  unfold closedB
  rw [List.all_eq_true]
  intro c hc
  rw [List.all_eq_true]
  intro j hj
  have hj := List.mem_range.1 hj
  have hcn : c < n := Rch_lt n (adjB P) ((hm c).1 hc).1 hi
  by_cases hjC : j ∈ C
  · simp [hjC]
  · simp only [Bool.or_eq_true, decide_eq_true_eq]
    right
    by_contra hpos
    exact hjC (recClasses_closed n (adjB P) C h c j hc ⟨hcn, hj, (adjB_iff P c j).2 (not_le.1 hpos)⟩)

end
end QE.C02
