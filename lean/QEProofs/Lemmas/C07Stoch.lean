/-
  C07 helper lemmas, part 16: expected cost of a sequence of state-feedback policies under a
  finitely supported shock law (nested finite sums), for the stochastic finite-horizon theorem.
-/
import QEProofs.Lemmas.C07Horizon
import QEProofs.Lemmas.C07Noise

set_option linter.unusedSectionVars false

namespace QE.C07
open QE Finset Matrix

variable {K : Type} [Field K] [LinearOrder K] [IsStrictOrderedRing K] {n k j : ℕ} {ι : Type} [Fintype ι]

/-- expected discounted cost of the state-feedback policies `πs` (time order: the head is used first) from `x`,
    with terminal loss `x_T' Rf x_T`: `E[Σ_t β^t loss(x_t, π_t x_t) + β^T x_T'Rf x_T]`,
    `x_{t+1} = A x_t + B π_t(x_t) + C w_{t+1}`, shocks i.i.d. with law `(p, w)` -/
def eCostPol (R A Rf : Matrix (Fin n) (Fin n) K) (Q : Matrix (Fin k) (Fin k) K) (N : Matrix (Fin k) (Fin n) K)
    (B : Matrix (Fin n) (Fin k) K) (C : Matrix (Fin n) (Fin j) K) (β : K) (p : ι → K) (w : ι → Fin j → K) :
    List ((Fin n → K) → (Fin k → K)) → (Fin n → K) → K
  | [], x => qf Rf x
  | π :: r, x => stage R Q N x (π x)
      + β * ∑ s, p s * eCostPol R A Rf Q N B C β p w r (A *ᵥ x + B *ᵥ (π x) + C *ᵥ w s)

theorem weighted_sum_le {p f g : ι → K} (hp : ∀ s, 0 ≤ p s) (h : ∀ s, f s ≤ g s) :
    ∑ s, p s * f s ≤ ∑ s, p s * g s :=
  sum_le_sum fun s _ => mul_le_mul_of_nonneg_left (h s) (hp s)

end QE.C07
