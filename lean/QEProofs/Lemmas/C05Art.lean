/-
  Lemmas for property C05 (Lemke-Howson): a completely labelled final state whose read-out `x`
  is the zero vector is the initial state up to the order of the rows (all slack variables are
  basic in both tableaux, and a tableau whose slack variables are all basic consists of the
  rows of the initial tableau).
-/
import QEProofs.Lemmas.C05Mirror

namespace QE.C05
open QE QE.Pivot QE.MatAlg Finset

set_option linter.unusedSectionVars false
set_option linter.unusedVariables false
variable {K : Type} [Field K] [LinearOrder K] [IsStrictOrderedRing K]

/-- if every slack variable is basic, the tableau is the initial one up to the order of rows -/
theorem tsim_init (T0 T : M K) (b binit : List ℕ) (L N ss : ℕ) (h0 : TInit T0 L N ss)
    (h : TInv T0 T b L N ss) (hbi : ∀ q, q < L → binit.getD q 0 = ss + q)
    (hall : ∀ q, q < L → InB b (ss + q)) : TSim T b T0 binit L N := by
  have hbl := h.can.1
  -- every basic variable is a slack variable (counting)
  have key1 : ∀ i, i < L → ∃ q, q < L ∧ b.getD i 0 = ss + q := by
    have hinj : Set.InjOn (fun i => b.getD i 0) (range L : Set ℕ) := by
      intro i hi i' hi' e
      exact tcanon_inj T b L N h.can i i' (by simpa using hi) (by simpa using hi') e
    have hcS : ((range L).image fun i => b.getD i 0).card = L := by
      rw [card_image_of_injOn hinj, card_range]
    have hcSl : ((range L).image fun q => ss + q).card = L := by
      rw [card_image_of_injective _ (fun a b e => by simpa using e), card_range]
    have hsub : ((range L).image fun q => ss + q) ⊆ ((range L).image fun i => b.getD i 0) := by
      intro v hv
      obtain ⟨q, hq, rfl⟩ := mem_image.mp hv
      obtain ⟨i, hi, e⟩ := hall q (mem_range.mp hq)
      exact mem_image.mpr ⟨i, mem_range.mpr (by rw [← hbl]; exact hi), e⟩
    have heq := eq_of_subset_of_card_le hsub (by rw [hcS, hcSl])
    intro i hi
    have : b.getD i 0 ∈ ((range L).image fun q => ss + q) := by
      rw [heq]; exact mem_image.mpr ⟨i, mem_range.mpr hi, rfl⟩
    obtain ⟨q, hq, e⟩ := mem_image.mp this
    exact ⟨q, mem_range.mp hq, e.symm⟩
  -- the row whose basic variable is the slack `ss + q` is row `q` of the initial tableau
  have key2 : ∀ i q, i < L → q < L → b.getD i 0 = ss + q →
      ∀ j, j < N + 1 → T.get i j = T0.get q j := by
    intro i q hi hq e j hj
    have hci := C04.span_coeff T0 L N ss (fun j => T.get i j) h0.hss h0.hid (h.span i hi) j hj
    have hcoef : ∀ q' ∈ range L, T.get i (ss + q') * T0.get q' j
        = if q = q' then T0.get q' j else 0 := by
      intro q' hq'
      obtain ⟨i'', hi'', e''⟩ := hall q' (mem_range.mp hq')
      have hi''L : i'' < L := by rw [← hbl]; exact hi''
      have hcol := (h.can.2 i'' hi''L).2 i hi
      rw [e''] at hcol
      rw [hcol]
      by_cases hqq : q = q'
      · have : i = i'' := tcanon_inj T b L N h.can i i'' hi hi''L (by rw [e, e'', hqq])
        rw [if_pos this, if_pos hqq, one_mul]
      · have : ¬ i = i'' := by
          intro e3; apply hqq
          rw [e3, e''] at e; omega
        rw [if_neg this, if_neg hqq, zero_mul]
    rw [hci, sum_congr rfl hcoef, sum_ite_eq (range L) q (fun q' => T0.get q' j),
      if_pos (mem_range.mpr hq)]
  constructor
  · intro i hi
    obtain ⟨q, hq, e⟩ := key1 i hi
    exact ⟨q, hq, by rw [e, hbi q hq], key2 i q hi hq e⟩
  · intro q hq
    obtain ⟨i, hi, e⟩ := hall q hq
    have hiL : i < L := by rw [← hbl]; exact hi
    exact ⟨i, hiL, by rw [e, hbi q hq], fun j hj => (key2 i q hiL hq e j hj).symm⟩

/-- **the artificial equilibrium is the initial state**: a state satisfying the invariant,
    completely labelled, with `x = 0`, is similar to the freshly initialised state -/
theorem art_ssim (m n : ℕ) (hm : 1 ≤ m) (hn : 1 ≤ n) (A B : ℕ → ℕ → K) (ip : ℕ) (s : LHState K)
    (hf : LHFull m n A B s) (hlab : ∀ k, ¬ InB s.b0 k ∨ ¬ InB s.b1 k) (hpiv : s.pivot = ip)
    (hx0 : basicSum s.T0 s.b0 0 m = 0) : SSim m n s (lhInit m n A B ip) := by
  have hb := hf.base
  have hz0 := (hb.sol0 _).mp (tsol_rowsSat s.T0 s.b0 n (m + n) hb.sh0 hb.can0)
  have hz1 := (hb.sol1 _).mp (tsol_rowsSat s.T1 s.b1 m (m + n) hb.sh1 hb.can1)
  have nn0 := tsol_nonneg s.T0 s.b0 n (m + n) hb.rhs0
  have nn1 := tsol_nonneg s.T1 s.b1 m (m + n) hb.rhs1
  have e0 := init0_rows m n B _ hz0
  have e1 := init1_rows m n A _ hz1
  have sx : basicSum s.T0 s.b0 0 m = ∑ i ∈ range m, tsol s.T0 s.b0 n (m + n) i := by
    have := basicSum_eq s.T0 s.b0 n (m + n) 0 m hb.sh0
    simpa using this
  rw [sx] at hx0
  have hx : ∀ i, i < m → tsol s.T0 s.b0 n (m + n) i = 0 := fun i hi =>
    (sum_eq_zero_iff_of_nonneg (fun i _ => nn0 i)).mp hx0 i (mem_range.mpr hi)
  -- all slacks of tableau 0 are basic
  have hall0 : ∀ q, q < n → InB s.b0 (m + q) := by
    intro q hq
    by_contra hnb
    have hpay : payoffVec m (shB m n B) (tsol s.T0 s.b0 n (m + n)) q = 0 := by
      rw [payoffVec_eq]
      apply sum_eq_zero
      intro i hi
      rw [hx i (mem_range.mp hi), mul_zero]
    have := e0 q hq
    rw [hpay, zero_add, tsol_nonbasic s.T0 s.b0 n (m + n) hb.can0.1 (m + q) hnb] at this
    exact zero_ne_one this
  -- hence `y = 0` and all slacks of tableau 1 are basic
  have hy : ∀ q, q < n → tsol s.T1 s.b1 m (m + n) (m + q) = 0 := by
    intro q hq
    rcases hlab (m + q) with h | h
    · exact absurd (hall0 q hq) h
    · exact tsol_nonbasic s.T1 s.b1 m (m + n) hb.can1.1 (m + q) h
  have hall1 : ∀ i, i < m → InB s.b1 (0 + i) := by
    intro i hi
    rw [Nat.zero_add]
    by_contra hnb
    have hpay : payoffVec n (shA m n A) (fun j => tsol s.T1 s.b1 m (m + n) (m + j)) i = 0 := by
      rw [payoffVec_eq]
      apply sum_eq_zero
      intro j hj
      rw [hy j (mem_range.mp hj), mul_zero]
    have := e1 i hi
    rw [hpay, add_zero, tsol_nonbasic s.T1 s.b1 m (m + n) hb.can1.1 i hnb] at this
    exact zero_ne_one this
  refine ⟨?_, ?_, hpiv⟩
  · exact tsim_init _ s.T0 s.b0 ((List.range n).map (· + m)) n (m + n) m (init0_tinit m n hn B) hf.i0
      (fun q hq => by rw [b0_getD m n q hq, Nat.add_comm]) hall0
  · exact tsim_init _ s.T1 s.b1 (List.range m) m (m + n) 0 (init1_tinit m n hm A) hf.i1
      (fun q hq => by rw [b1_getD m q hq, Nat.zero_add]) hall1

end QE.C05
