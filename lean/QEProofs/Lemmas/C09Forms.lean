/-
  Lemmas for C09, part 8: conversion between the product form and the SA-pair form.
-/
import QEProofs.Lemmas.C09Policy
import QEProofs.Lemmas.C09Resort
namespace QE.C09
set_option linter.unusedSectionVars false
section
variable {K : Type}

theorem mem_feasiblePairs (R : List (List (Ext K))) (Q : List (List (List K))) (s a : Nat) (r : K) (q : List K) :
    (s, a, r, q) ∈ feasiblePairs R Q ↔
      s < R.length ∧ a < (R.getD s []).length ∧ (R.getD s []).getD a .ninf = .fin r ∧
        q = (Q.getD s []).getD a [] := by
  unfold feasiblePairs
  simp only [List.mem_flatMap, List.mem_range, List.mem_filterMap]
  constructor
  · rintro ⟨s', hs', a', ha', h⟩
    cases hr : (R.getD s' []).getD a' Ext.ninf with
    | ninf => rw [hr] at h; cases h
    | fin r' =>
      rw [hr] at h
      simp only [Option.some.injEq, Prod.mk.injEq] at h
      obtain ⟨rfl, rfl, rfl, rfl⟩ := h
      exact ⟨hs', ha', hr, rfl⟩
  · rintro ⟨hs, ha, hr, rfl⟩
    exact ⟨s, hs, a, ha, by rw [hr]⟩

theorem lookupPair_some (S A : List Nat) (s a i : Nat) (h : lookupPair S A s a = some i) :
    i < S.length ∧ S[i]? = some s ∧ A[i]? = some a := by
  unfold lookupPair at h
  rcases findLoop_some (fun i => S[i]? = some s ∧ A[i]? = some a) _ _ _ h with ⟨hm, hp⟩ | h2
  · exact ⟨List.mem_range.mp hm, hp.1, hp.2⟩
  · simp at h2

theorem lookupPair_isSome (S A : List Nat) (s a i : Nat) (hi : i < S.length)
    (h1 : S[i]? = some s) (h2 : A[i]? = some a) : (lookupPair S A s a).isSome = true := by
  unfold lookupPair
  apply findLoop_isSome (fun i => S[i]? = some s ∧ A[i]? = some a)
  right
  exact ⟨i, List.mem_range.mpr hi, h1, h2⟩

theorem le_foldl_max : ∀ (l : List Nat) (init a : Nat), (a ≤ init ∨ a ∈ l) → a ≤ l.foldl max init := by
  intro l
  induction l with
  | nil => intro init a h; rcases h with h | h
           · exact h
           · simp at h
  | cons x xs ih =>
    intro init a h
    simp only [List.foldl_cons]
    apply ih
    rcases h with h | h
    · left; exact le_trans h (le_max_left _ _)
    · rcases List.mem_cons.mp h with rfl | h
      · left; exact le_max_right _ _
      · right; exact h


/-- strict lexicographic order on the `(s, a)` part of a pair record -/
def lexLt4 (p q : Nat × Nat × K × List K) : Prop := p.1 < q.1 ∨ (p.1 = q.1 ∧ p.2.1 < q.2.1)

theorem hasSortedSa_of_pairwise : ∀ (ps : List (Nat × Nat × K × List K)), List.Pairwise lexLt4 ps →
    hasSortedSa (ps.map fun p => p.1) (ps.map fun p => p.2.1) = true := by
  intro ps
  induction ps with
  | nil => intro _; rfl
  | cons p0 ps ih =>
    intro hp
    cases ps with
    | nil => rfl
    | cons p1 rest =>
      rw [List.pairwise_cons] at hp
      have h01 : lexLt4 p0 p1 := hp.1 p1 List.mem_cons_self
      have ih' := ih hp.2
      simp only [List.map_cons] at ih' ⊢
      unfold hasSortedSa
      unfold lexLt4 at h01
      rw [if_neg (by omega), if_neg (by omega)]
      exact ih'

theorem feasiblePairs_pairwise (R : List (List (Ext K))) (Q : List (List (List K))) :
    List.Pairwise lexLt4 (feasiblePairs R Q) := by
  unfold feasiblePairs
  rw [List.pairwise_flatMap]
  constructor
  · intro s _
    simp only
    rw [List.pairwise_filterMap]
    apply List.Pairwise.imp _ List.pairwise_lt_range
    intro a a' haa' b hb b' hb'
    cases hr : (R.getD s []).getD a Ext.ninf with
    | ninf => rw [hr] at hb; cases hb
    | fin r =>
      rw [hr] at hb
      cases hr' : (R.getD s []).getD a' Ext.ninf with
      | ninf => rw [hr'] at hb'; cases hb'
      | fin r' =>
        rw [hr'] at hb'
        simp only [Option.some.injEq] at hb hb'
        subst hb; subst hb'
        exact Or.inr ⟨rfl, haa'⟩
  · apply List.Pairwise.imp _ List.pairwise_lt_range
    intro s s' hss' x hx y hy
    simp only [List.mem_filterMap, List.mem_range] at hx hy
    obtain ⟨a, _, hxa⟩ := hx
    obtain ⟨a', _, hya⟩ := hy
    have hx1 : x.1 = s := by
      cases hr : (R.getD s []).getD a Ext.ninf with
      | ninf => rw [hr] at hxa; cases hxa
      | fin r => rw [hr] at hxa; simp only [Option.some.injEq] at hxa; subst hxa; rfl
    have hy1 : y.1 = s' := by
      cases hr : (R.getD s' []).getD a' Ext.ninf with
      | ninf => rw [hr] at hya; cases hya
      | fin r => rw [hr] at hya; simp only [Option.some.injEq] at hya; subst hya; rfl
    exact Or.inl (by omega)

end

section
variable {K : Type} [LinearOrder K] [Zero K] [One K]

theorem mkSa_ok_eq (n : Nat) (beta : K) (R : List (Ext K)) (Q : List (List K)) (S A : List Nat)
    (e : SaDDP K) (h : mkSa n beta R Q S A = .ok e) : e = arrangeSa n beta R Q S A := by
  unfold mkSa at h
  simp only at h
  split at h
  · cases h
  · split at h
    · cases h
    · split at h
      · cases h
      · cases hc : checkFeasibleSa n (arrangeSa n beta R Q S A).R (arrangeSa n beta R Q S A).aInd
            (arrangeSa n beta R Q S A).aIndptr with
        | error e' => rw [hc] at h; cases h
        | ok u =>
          rw [hc] at h
          simp only at h
          cases hb : checkBeta beta with
          | error e' => rw [hb] at h; cases h
          | ok u' =>
            rw [hb] at h
            simp only [Except.ok.injEq] at h
            exact h.symm

theorem mkProd_ok_eq (beta : K) (R : List (List (Ext K))) (Q : List (List (List K))) (d : ProdDDP K)
    (h : mkProd beta R Q = .ok d) :
    d = { n := R.length, m := (R.headD []).length, beta := beta, R := R, Q := Q } := by
  unfold mkProd at h
  simp only at h
  split at h
  · cases h
  · cases hc : checkFeasibleProd R with
    | error e' => rw [hc] at h; cases h
    | ok u =>
      rw [hc] at h
      simp only at h
      cases hb : checkBeta beta with
      | error e' => rw [hb] at h; cases h
      | ok u' =>
        rw [hb] at h
        simp only [Except.ok.injEq] at h
        exact h.symm

/-- what `to_sa_pair_form` stores: the feasible pairs in row-major order, untouched -/
theorem toSaPair_ok (d : ProdDDP K) (e : SaDDP K) (h : toSaPair d = .ok e) :
    e.n = d.n ∧ e.beta = d.beta ∧
    e.R = (feasiblePairs d.R d.Q).map (fun p => Ext.fin p.2.2.1) ∧
    e.Q = (feasiblePairs d.R d.Q).map (fun p => p.2.2.2) ∧
    e.sInd = (feasiblePairs d.R d.Q).map (fun p => p.1) ∧
    e.aInd = (feasiblePairs d.R d.Q).map (fun p => p.2.1) := by
  unfold toSaPair at h
  have := mkSa_ok_eq _ _ _ _ _ _ _ h
  have hs := hasSortedSa_of_pairwise _ (feasiblePairs_pairwise d.R d.Q)
  unfold arrangeSa at this
  rw [if_pos hs] at this
  subst this
  exact ⟨rfl, rfl, rfl, rfl, rfl, rfl⟩


/-- entry `(s, a)` of the reward table built by `to_product_form` -/
theorem toProduct_ok (e : SaDDP K) (d' : ProdDDP K) (h : toProduct e = .ok d') :
    d'.n = e.n ∧ d'.beta = e.beta ∧ (0 < e.n → d'.m = e.aInd.foldl max 0 + 1) ∧
    ∀ s a, s < e.n → a < e.aInd.foldl max 0 + 1 →
      (d'.R.getD s [])[a]? = some (match lookupPair e.sInd e.aInd s a with
        | some i => e.R.getD i Ext.ninf
        | none => Ext.ninf) ∧
      (d'.Q.getD s [])[a]? = some (match lookupPair e.sInd e.aInd s a with
        | some i => e.Q.getD i []
        | none => List.replicate e.n 0) := by
  unfold toProduct at h
  have := mkProd_ok_eq _ _ _ _ h
  subst this
  refine ⟨by simp, rfl, ?_, ?_⟩
  · intro hn
    simp only
    cases hn' : e.n with
    | zero => omega
    | succ k => simp [List.range_succ_eq_map]
  · intro s a hs ha
    simp only
    constructor
    · simp [List.getD_eq_getElem?_getD, List.getElem?_map, List.getElem?_range hs, List.getElem?_range ha]
      cases lookupPair e.sInd e.aInd s a <;> rfl
    · simp [List.getD_eq_getElem?_getD, List.getElem?_map, List.getElem?_range hs, List.getElem?_range ha]
      cases lookupPair e.sInd e.aInd s a <;> rfl


theorem roundtrip_prod (d : ProdDDP K) (e : SaDDP K) (d' : ProdDDP K)
    (h1 : toSaPair d = .ok e) (h2 : toProduct e = .ok d') (hn : d.n = d.R.length) :
    d'.n = d.n ∧ d'.beta = d.beta ∧
    ∀ s a, s < d.n →
      (∀ r, a < (d.R.getD s []).length → (d.R.getD s []).getD a .ninf = .fin r →
        a < d'.m ∧ (d'.R.getD s [])[a]? = some (.fin r) ∧
        (d'.Q.getD s [])[a]? = some ((d.Q.getD s []).getD a [])) ∧
      ((¬ ∃ r, a < (d.R.getD s []).length ∧ (d.R.getD s []).getD a .ninf = .fin r) → a < d'.m →
        (d'.R.getD s [])[a]? = some .ninf) := by
  obtain ⟨en, eb, eR, eQ, eS, eA⟩ := toSaPair_ok d e h1
  obtain ⟨dn, db, dm, dtab⟩ := toProduct_ok e d' h2
  refine ⟨by omega, by rw [db, eb], ?_⟩
  intro s a hs
  have hs' : s < e.n := by omega
  have hm := dm (by omega)
  set ps := feasiblePairs d.R d.Q with hps
  -- data of the pair found by the lookup
  have hfound : ∀ i, lookupPair e.sInd e.aInd s a = some i →
      ∃ r' q', (s, a, r', q') ∈ ps ∧ e.R.getD i .ninf = .fin r' ∧ e.Q.getD i [] = q' := by
    intro i hi
    obtain ⟨hil, hsi, hai⟩ := lookupPair_some _ _ _ _ _ hi
    rw [eS, List.length_map] at hil
    rw [eS, List.getElem?_map, List.getElem?_eq_getElem hil] at hsi
    rw [eA, List.getElem?_map, List.getElem?_eq_getElem hil] at hai
    simp only [Option.map_some, Option.some.injEq] at hsi hai
    refine ⟨ps[i].2.2.1, ps[i].2.2.2, ?_, ?_, ?_⟩
    · have : ps[i] ∈ ps := List.getElem_mem hil
      rw [← hsi, ← hai]; exact this
    · rw [eR]; simp [List.getD_eq_getElem?_getD, List.getElem?_map, List.getElem?_eq_getElem hil]
    · rw [eQ]; simp [List.getD_eq_getElem?_getD, List.getElem?_map, List.getElem?_eq_getElem hil]
  constructor
  · intro r ha hr
    have hmem : (s, a, r, (d.Q.getD s []).getD a []) ∈ ps :=
      (mem_feasiblePairs d.R d.Q s a r _).mpr ⟨by omega, ha, hr, rfl⟩
    obtain ⟨i, hi, hpi⟩ := List.mem_iff_getElem.mp hmem
    have haA : a ∈ e.aInd := by
      rw [eA, List.mem_map]; exact ⟨_, hmem, rfl⟩
    have hana : a < e.aInd.foldl max 0 + 1 := by
      have := le_foldl_max e.aInd 0 a (Or.inr haA); omega
    have hsome : (lookupPair e.sInd e.aInd s a).isSome = true := by
      apply lookupPair_isSome _ _ _ _ i (by rw [eS, List.length_map]; exact hi)
      · rw [eS, List.getElem?_map, List.getElem?_eq_getElem hi, hpi]; rfl
      · rw [eA, List.getElem?_map, List.getElem?_eq_getElem hi, hpi]; rfl
    obtain ⟨hR', hQ'⟩ := dtab s a hs' hana
    cases hl : lookupPair e.sInd e.aInd s a with
    | none => rw [hl] at hsome; cases hsome
    | some i' =>
      obtain ⟨r', q', hmem', hRi, hQi⟩ := hfound i' hl
      obtain ⟨_, _, hr', hq'⟩ := (mem_feasiblePairs d.R d.Q s a r' q').mp hmem'
      rw [hr] at hr'
      have : r = r' := by injection hr'
      subst this
      rw [hl] at hR' hQ'
      simp only at hR' hQ'
      refine ⟨by omega, ?_, ?_⟩
      · rw [hR', hRi]
      · rw [hQ', hQi, hq']
  · intro hno ha
    rw [hm] at ha
    obtain ⟨hR', _⟩ := dtab s a hs' ha
    cases hl : lookupPair e.sInd e.aInd s a with
    | none => rw [hl] at hR'; exact hR'
    | some i' =>
      exfalso
      obtain ⟨r', q', hmem', _, _⟩ := hfound i' hl
      obtain ⟨_, h2', h3', _⟩ := (mem_feasiblePairs d.R d.Q s a r' q').mp hmem'
      exact hno ⟨r', h2', h3'⟩


theorem toProduct_shape (e : SaDDP K) (d' : ProdDDP K) (h : toProduct e = .ok d') :
    d'.R.length = e.n ∧ ∀ s, s < e.n → (d'.R.getD s []).length = e.aInd.foldl max 0 + 1 := by
  unfold toProduct at h
  have := mkProd_ok_eq _ _ _ _ h
  subst this
  refine ⟨by simp, ?_⟩
  intro s hs
  simp [List.getD_eq_getElem?_getD, List.getElem?_map, List.getElem?_range hs]

/-- **SA-pair → product → SA-pair keeps exactly the pairs with a finite reward, with their
    rewards and rows** (pairs of `e` pairwise distinct): a record `(s, a, r, q)` is stored in
    the result iff `e` stores the pair `(s, a)` with reward `r` (finite) and row `q`. -/
theorem roundtrip_sa (e : SaDDP K) (d' : ProdDDP K) (e' : SaDDP K)
    (h1 : toProduct e = .ok d') (h2 : toSaPair d' = .ok e')
    (hsn : ∀ s ∈ e.sInd, s < e.n)
    (hnodup : ∀ k k', k < e.sInd.length → k' < e.sInd.length → e.sInd[k]? = e.sInd[k']? →
      e.aInd[k]? = e.aInd[k']? → k = k')
    (s a : Nat) (r : K) (q : List K) :
    (∃ j : Nat, e'.sInd[j]? = some s ∧ e'.aInd[j]? = some a ∧ e'.R[j]? = some (Ext.fin r) ∧ e'.Q[j]? = some q) ↔
    (∃ i, i < e.sInd.length ∧ e.sInd[i]? = some s ∧ e.aInd[i]? = some a ∧
      e.R.getD i .ninf = .fin r ∧ e.Q.getD i [] = q) := by
  obtain ⟨dn, _, _, dtab⟩ := toProduct_ok e d' h1
  obtain ⟨dlen, drow⟩ := toProduct_shape e d' h1
  obtain ⟨_, _, eR, eQ, eS, eA⟩ := toSaPair_ok d' e' h2
  set ps := feasiblePairs d'.R d'.Q with hps
  -- records of e' are the members of ps
  have hrec : (∃ j : Nat, e'.sInd[j]? = some s ∧ e'.aInd[j]? = some a ∧ e'.R[j]? = some (Ext.fin r) ∧
      e'.Q[j]? = some q) ↔ (s, a, r, q) ∈ ps := by
    rw [eS, eA, eR, eQ]
    constructor
    · rintro ⟨j, h1, h2, h3, h4⟩
      simp only [List.getElem?_map] at h1 h2 h3 h4
      cases hp : ps[j]? with
      | none => rw [hp] at h1; cases h1
      | some p =>
        rw [hp] at h1 h2 h3 h4
        simp only [Option.map_some, Option.some.injEq, Ext.fin.injEq] at h1 h2 h3 h4
        have : p = (s, a, r, q) := by
          obtain ⟨p1, p2, p3, p4⟩ := p
          simp only at h1 h2 h3 h4
          subst h1; subst h2; subst h3; subst h4; rfl
        rw [← this]
        exact List.mem_of_getElem? hp
    · intro hm
      obtain ⟨j, hj, hpj⟩ := List.mem_iff_getElem.mp hm
      refine ⟨j, ?_, ?_, ?_, ?_⟩ <;>
        simp [List.getElem?_map, List.getElem?_eq_getElem hj, hpj]
  rw [hrec, mem_feasiblePairs]
  constructor
  · rintro ⟨hs, ha, hr, hq⟩
    rw [dlen] at hs
    rw [drow s hs] at ha
    obtain ⟨hR', hQ'⟩ := dtab s a hs ha
    have hRd : (d'.R.getD s []).getD a .ninf = match lookupPair e.sInd e.aInd s a with
        | some i => e.R.getD i Ext.ninf
        | none => Ext.ninf := by
      rw [List.getD_eq_getElem?_getD, hR']; rfl
    have hQd : (d'.Q.getD s []).getD a [] = match lookupPair e.sInd e.aInd s a with
        | some i => e.Q.getD i []
        | none => List.replicate e.n 0 := by
      rw [List.getD_eq_getElem?_getD, hQ']; rfl
    cases hl : lookupPair e.sInd e.aInd s a with
    | none => rw [hRd, hl] at hr; cases hr
    | some i =>
      rw [hl] at hRd hQd
      simp only at hRd hQd
      obtain ⟨hi, hsi, hai⟩ := lookupPair_some _ _ _ _ _ hl
      exact ⟨i, hi, hsi, hai, by rw [← hRd]; exact hr, by rw [hq, hQd]⟩
  · rintro ⟨i, hi, hsi, hai, hri, hqi⟩
    have hs : s < e.n := hsn s (List.mem_of_getElem? hsi)
    have haA : a ∈ e.aInd := List.mem_of_getElem? hai
    have hana : a < e.aInd.foldl max 0 + 1 := by
      have := le_foldl_max e.aInd 0 a (Or.inr haA); omega
    obtain ⟨hR', hQ'⟩ := dtab s a hs hana
    have hsome := lookupPair_isSome e.sInd e.aInd s a i hi hsi hai
    cases hl : lookupPair e.sInd e.aInd s a with
    | none => rw [hl] at hsome; cases hsome
    | some i' =>
      obtain ⟨hi', hsi', hai'⟩ := lookupPair_some _ _ _ _ _ hl
      have : i' = i := hnodup i' i hi' hi (by rw [hsi', hsi]) (by rw [hai', hai])
      subst this
      rw [hl] at hR' hQ'
      simp only at hR' hQ'
      refine ⟨by rw [dlen]; exact hs, by rw [drow s hs]; exact hana, ?_, ?_⟩
      · rw [List.getD_eq_getElem?_getD, hR']; exact hri
      · rw [List.getD_eq_getElem?_getD, hQ']; exact hqi.symm

end
end QE.C09
