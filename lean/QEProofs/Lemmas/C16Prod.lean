/-
  Lemmas for C16, part: `cartesian` IS the product list — order C: the standard recursive
  cartesian product (what `itertools.product(*nodes)` enumerates); order F: the product of the
  reversed grids with every row reversed.
-/
import QEProofs.Lemmas.C16NearestIdx
namespace QE.C16

/-- the cartesian product of a list of lists, first factor varying slowest
    (`itertools.product(*nodes)`) -/
def cartProd {α : Type} : List (List α) → List (List α)
  | [] => [[]]
  | g :: gs => g.flatMap fun a => (cartProd gs).map (a :: ·)

/-- indexing a `flatMap` whose blocks all have the same length `P` -/
theorem flatMap_block_getElem? {α β : Type} (f : α → List β) (P : Nat) (hP : 0 < P)
    (hf : ∀ a, (f a).length = P) : ∀ (g : List α) (r : Nat), r < g.length * P →
    (g.flatMap f)[r]? = (g[r / P]?).bind fun a => (f a)[r % P]?
  | [], r, h => by simp at h
  | a :: g, r, h => by
    rw [List.flatMap_cons]
    rcases Nat.lt_or_ge r P with hr | hr
    · rw [List.getElem?_append_left (by rw [hf]; exact hr), Nat.div_eq_of_lt hr,
        Nat.mod_eq_of_lt hr]
      simp
    · rw [List.getElem?_append_right (by rw [hf]; exact hr), hf]
      have hlen : r - P < g.length * P := by
        rw [List.length_cons, Nat.add_mul, Nat.one_mul] at h; omega
      rw [flatMap_block_getElem? f P hP hf g (r - P) hlen]
      have e : r = P + (r - P) := by omega
      have h1 : r / P = (r - P) / P + 1 := by
        conv_lhs => rw [e]
        exact Nat.add_div_left _ hP
      have h2 : r % P = (r - P) % P := by
        conv_lhs => rw [e]
        exact Nat.add_mod_left _ _
      rw [h1, h2]
      simp

theorem cartProd_length {α : Type} : ∀ (nodes : List (List α)),
    (cartProd nodes).length = (nodes.map List.length).prod
  | [] => by simp [cartProd]
  | g :: gs => by
    have ih := cartProd_length gs
    simp only [cartProd, List.map_cons, List.prod_cons]
    rw [← ih]
    generalize cartProd gs = T
    induction g with
    | nil => simp
    | cons a g ihg =>
      rw [List.flatMap_cons, List.length_append, ihg, List.length_map, List.length_cons]
      ring

/-- row `r` of the product: head from the first grid, tail from the product of the rest -/
theorem cartProd_cons_getD {α : Type} (g : List α) (gs : List (List α)) (r : Nat)
    (hr : r < g.length * (gs.map List.length).prod) :
    ∃ a, g[r / (gs.map List.length).prod]? = some a ∧
      (cartProd (g :: gs)).getD r [] = a :: (cartProd gs).getD (r % (gs.map List.length).prod) [] := by
  set P := (gs.map List.length).prod with hPdef
  have hP : 0 < P := by
    rcases Nat.eq_zero_or_pos P with h | h
    · rw [h] at hr; simp at hr
    · exact h
  have hq : r / P < g.length := (Nat.div_lt_iff_lt_mul hP).mpr hr
  have hm : r % P < (cartProd gs).length := by rw [cartProd_length]; exact Nat.mod_lt _ hP
  refine ⟨g[r / P], List.getElem?_eq_getElem hq, ?_⟩
  rw [List.getD_eq_getElem?_getD]
  show ((g.flatMap fun a => (cartProd gs).map (a :: ·))[r]?).getD [] = _
  rw [flatMap_block_getElem? _ P hP (fun a => by rw [List.length_map, cartProd_length]) g r hr,
    List.getElem?_eq_getElem hq]
  simp only [Option.bind_some, List.getElem?_map, List.getElem?_eq_getElem hm, Option.map_some,
    Option.getD_some]
  rw [List.getD_eq_getElem?_getD, List.getElem?_eq_getElem hm]
  rfl

section
variable {α : Type} [Zero α]

/-- rows of `cartProd` have one entry per grid and entry `d` is `nodes[d][digitC r]` -/
theorem cartProd_entry : ∀ (nodes : List (List α)) (r : Nat),
    r < (nodes.map List.length).prod →
    ((cartProd nodes).getD r []).length = nodes.length ∧
    ∀ d, d < nodes.length →
      ((cartProd nodes).getD r []).getD d 0
        = (nodes.getD d []).getD (digitC (nodes.map List.length) d r) 0
  | [], r, _ => by
    have : r = 0 := by simp at *; omega
    subst this
    simp [cartProd]
  | g :: gs, r, hr => by
    simp only [List.map_cons, List.prod_cons] at hr
    obtain ⟨a, ha, hrow⟩ := cartProd_cons_getD g gs r hr
    set P := (gs.map List.length).prod with hPdef
    have hP : 0 < P := by
      rcases Nat.eq_zero_or_pos P with h | h
      · rw [h] at hr; simp at hr
      · exact h
    have hq : r / P < g.length := (Nat.div_lt_iff_lt_mul hP).mpr hr
    obtain ⟨ihl, ihe⟩ := cartProd_entry gs (r % P) (Nat.mod_lt _ hP)
    rw [hrow]
    refine ⟨by rw [List.length_cons, List.length_cons, ihl], fun d hd => ?_⟩
    cases d with
    | zero =>
      simp only [List.getD_cons_zero, List.map_cons]
      unfold digitC
      simp only [Nat.zero_add, List.drop_succ_cons, List.drop_zero, List.getD_cons_zero]
      rw [← hPdef, Nat.mod_eq_of_lt hq, List.getD_eq_getElem?_getD, ha]; rfl
    | succ d =>
      have hd' : d < gs.length := by simpa using hd
      simp only [List.getD_cons_succ, List.map_cons]
      rw [ihe d hd']
      congr 1
      have e : digitC (g.length :: gs.map List.length) (d + 1) r
          = digitC (gs.map List.length) d r := by
        unfold digitC; simp
      rw [e]
      have hsplit : r = (r / P) * (gs.map List.length).prod + r % P := by
        rw [← hPdef, Nat.mul_comm]; exact (Nat.div_add_mod r P).symm
      conv_rhs => rw [hsplit]
      exact (digitC_shift _ d _ _ (by simpa using hd')).symm

theorem list_ext_getD {β : Type} (dflt : β) {l1 l2 : List β} (hl : l1.length = l2.length)
    (h : ∀ i, i < l1.length → l1.getD i dflt = l2.getD i dflt) : l1 = l2 := by
  apply List.ext_getElem hl
  intro i h1 h2
  have := h i h1
  rw [List.getD_eq_getElem?_getD, List.getD_eq_getElem?_getD, List.getElem?_eq_getElem h1,
    List.getElem?_eq_getElem h2] at this
  exact this

/-- **order C: `cartesian nodes` is the product list** -/
theorem cartesian_C_eq_cartProd (nodes : List (List α)) :
    cartesian nodes false = cartProd nodes := by
  apply list_ext_getD []
  · rw [cartesian_length, cartProd_length]
  · intro r hr
    rw [cartesian_length] at hr
    obtain ⟨hl, he⟩ := cartProd_entry nodes r hr
    apply list_ext_getD 0
    · rw [cartesian_row_length nodes false r hr, hl]
    · intro d hd
      rw [cartesian_row_length nodes false r hr] at hd
      rw [cartesian_C nodes r d hr hd, he d hd]

theorem digitF_eq_digitC_reverse (s : List Nat) (d r : Nat) (hd : d < s.length) :
    digitF s d r = digitC s.reverse (s.length - 1 - d) r := by
  have h : (digitsF s r).getD d 0 = ((digitsC s.reverse r).reverse).getD d 0 := by
    rw [digitsF_eq]
  rw [digitsF_getD s r d hd] at h
  rw [h, List.getD_eq_getElem?_getD,
    List.getElem?_reverse (by rw [digitsC_length, List.length_reverse]; exact hd),
    digitsC_length, List.length_reverse, ← List.getD_eq_getElem?_getD,
    digitsC_getD _ _ _ (by rw [List.length_reverse]; omega)]

/-- **order F: `cartesian nodes` is the product of the reversed grids, every row reversed** -/
theorem cartesian_F_eq_cartProd (nodes : List (List α)) :
    cartesian nodes true = (cartProd nodes.reverse).map List.reverse := by
  have hprod : (nodes.reverse.map List.length).prod = (nodes.map List.length).prod := by
    rw [List.map_reverse, List.prod_reverse]
  apply list_ext_getD []
  · rw [cartesian_length, List.length_map, cartProd_length, hprod]
  · intro r hr
    rw [cartesian_length] at hr
    obtain ⟨hl, he⟩ := cartProd_entry nodes.reverse r (by rw [hprod]; exact hr)
    have hrow : ((cartProd nodes.reverse).map List.reverse).getD r []
        = ((cartProd nodes.reverse).getD r []).reverse := by
      have hlt : r < (cartProd nodes.reverse).length := by
        rw [cartProd_length, hprod]; exact hr
      simp [List.getD_eq_getElem?_getD, List.getElem?_map, List.getElem?_eq_getElem hlt]
    rw [hrow]
    apply list_ext_getD 0
    · rw [cartesian_row_length nodes true r hr, List.length_reverse, hl, List.length_reverse]
    · intro d hd
      rw [cartesian_row_length nodes true r hr] at hd
      rw [cartesian_F nodes r d hr hd]
      rw [List.length_reverse] at hl
      have hd2 : nodes.length - 1 - d < nodes.reverse.length := by
        rw [List.length_reverse]; omega
      have hE := he (nodes.length - 1 - d) hd2
      rw [List.getD_eq_getElem?_getD (l := List.reverse _),
        List.getElem?_reverse (by rw [hl]; exact hd), hl, ← List.getD_eq_getElem?_getD, hE]
      have hn : nodes.reverse.getD (nodes.length - 1 - d) [] = nodes.getD d [] := by
        rw [List.getD_eq_getElem?_getD, List.getElem?_reverse (by omega),
          ← List.getD_eq_getElem?_getD]
        congr 1; omega
      rw [hn, List.map_reverse]
      have := digitF_eq_digitC_reverse (nodes.map List.length) d r (by simpa using hd)
      rw [List.length_map] at this
      rw [this]

end

end QE.C16
