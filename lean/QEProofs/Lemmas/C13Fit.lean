/-
  Lemmas for C13, part 6: the one-dimensional nearest-grid-point search used by
  `fit_discrete_mc` (`QE.C16.nearest1`, the model of `_cartesian_nearest_indices` per dimension)
  returns a grid point at minimal distance.
-/
import Mathlib.Algebra.Order.Field.Basic
import Mathlib.Algebra.Order.AbsoluteValue.Basic
import Mathlib.Tactic.Linarith
import QEModel.C16
namespace QE.C13
open QE QE.C16

section
variable {K : Type} [Field K] [LinearOrder K] [IsStrictOrderedRing K]

omit [IsStrictOrderedRing K] in
/-- `np.searchsorted(a, v)` (left): everything before the returned position is `< v`, the element
    at the position (if any) is `≥ v` -/
theorem searchLeft_spec (a : List K) (v : K) :
    searchLeft a v ≤ a.length ∧ (∀ i, i < searchLeft a v → a.getD i 0 < v) ∧
      (searchLeft a v < a.length → v ≤ a.getD (searchLeft a v) 0) := by
  induction a with
  | nil => simp [searchLeft]
  | cons y t ih =>
    unfold searchLeft at ih ⊢
    by_cases h : v ≤ y
    · simp [List.takeWhile, h]
    · have h' : (List.takeWhile (fun y => decide ¬v ≤ y) (y :: t))
          = y :: List.takeWhile (fun y => decide ¬v ≤ y) t := by
        simp [List.takeWhile, h]
      rw [h']
      obtain ⟨h1, h2, h3⟩ := ih
      refine ⟨by simpa using h1, ?_, ?_⟩
      · intro i hi
        cases i with
        | zero => simpa using not_le.mp h
        | succ i => simpa using h2 i (by simpa using hi)
      · intro hlt
        simpa using h3 (by simpa using hlt)

omit [IsStrictOrderedRing K] in
theorem getD_lt_of_pairwise (g : List K) (hg : g.Pairwise (· < ·)) (i j : ℕ) (hij : i < j)
    (hj : j < g.length) : g.getD i 0 < g.getD j 0 := by
  have hi : i < g.length := by omega
  rw [List.getD_eq_getElem?_getD, List.getD_eq_getElem?_getD, List.getElem?_eq_getElem hi,
    List.getElem?_eq_getElem hj]
  simp only [Option.getD_some]
  exact List.pairwise_iff_getElem.mp hg i j hi hj hij

omit [IsStrictOrderedRing K] in
theorem getD_le_of_pairwise (g : List K) (hg : g.Pairwise (· < ·)) (i j : ℕ) (hij : i ≤ j)
    (hj : j < g.length) : g.getD i 0 ≤ g.getD j 0 := by
  rcases Nat.lt_or_eq_of_le hij with h | rfl
  · exact (getD_lt_of_pairwise g hg i j h hj).le
  · exact le_rfl

/-- **Nearest grid point (one dimension).** On a strictly increasing non-empty grid the index
    returned by `nearest1` is in range and no grid point is closer to `x`. -/
theorem nearest1_spec (g : List K) (hg : g.Pairwise (· < ·)) (hne : 0 < g.length) (x : K) :
    nearest1 g x < g.length ∧
      ∀ j, j < g.length → |g.getD (nearest1 g x) 0 - x| ≤ |g.getD j 0 - x| := by
  unfold nearest1
  by_cases h1 : x ≤ g.getD 0 0
  · rw [if_pos h1]
    refine ⟨hne, fun j hj => ?_⟩
    have := getD_le_of_pairwise g hg 0 j (Nat.zero_le _) hj
    rw [abs_of_nonneg (by linarith), abs_of_nonneg (by linarith)]; linarith
  rw [if_neg h1]
  by_cases h2 : g.getD (g.length - 1) 0 ≤ x
  · rw [if_pos h2]
    refine ⟨by omega, fun j hj => ?_⟩
    have := getD_le_of_pairwise g hg j (g.length - 1) (by omega) (by omega)
    rw [abs_of_nonpos (by linarith), abs_of_nonpos (by linarith)]; linarith
  rw [if_neg h2]
  obtain ⟨hk1, hk2, hk3⟩ := searchLeft_spec g x
  set k := searchLeft g x with hk
  have hklt : k < g.length := by
    by_contra hc
    have : g.getD (g.length - 1) 0 < x := hk2 (g.length - 1) (by omega)
    exact h2 this.le
  have hk0 : 1 ≤ k := by
    by_contra hc
    have hk0 : k = 0 := by omega
    have := hk3 hklt
    rw [hk0] at this
    exact h1 this
  have hxk : x ≤ g.getD k 0 := hk3 hklt
  have hkx : g.getD (k - 1) 0 < x := hk2 (k - 1) (by omega)
  simp only []
  by_cases h3 : g.getD k 0 - x < x - g.getD (k - 1) 0
  · rw [if_pos h3]
    refine ⟨hklt, fun j hj => ?_⟩
    rw [abs_of_nonneg (by linarith)]
    by_cases hjk : k ≤ j
    · have := getD_le_of_pairwise g hg k j hjk hj
      rw [abs_of_nonneg (by linarith)]; linarith
    · have := getD_le_of_pairwise g hg j (k - 1) (by omega) (by omega)
      rw [abs_of_nonpos (by linarith)]; linarith
  · rw [if_neg h3]
    refine ⟨by omega, fun j hj => ?_⟩
    rw [abs_of_nonpos (by linarith)]
    by_cases hjk : k ≤ j
    · have := getD_le_of_pairwise g hg k j hjk hj
      rw [abs_of_nonneg (by linarith)]; linarith
    · have := getD_le_of_pairwise g hg j (k - 1) (by omega) (by omega)
      rw [abs_of_nonpos (by linarith)]; linarith

end
end QE.C13
