/-
  Lemmas for C16, part: `_repeat_1d` — the triple write loop `out[k*N*L + n*L + l] = x[n]`
  fills position `ind` with `x[(ind / L) % N]`.
-/
import Mathlib.Tactic.Ring
import Mathlib.Tactic.Linarith
import QEModel.C16
namespace QE.C16

/-! ### a list of array writes -/

section writes
variable {α ι : Type}

/-- size is unchanged by a sequence of (bounds-checked) writes -/
theorem writes_size (pos : ι → Nat) (val : ι → α) (ws : List ι) (out : Array α) :
    (ws.foldl (fun o w => o.setIfInBounds (pos w) (val w)) out).size = out.size := by
  induction ws generalizing out with
  | nil => rfl
  | cons w ws ih => rw [List.foldl_cons, ih, Array.size_setIfInBounds]

/-- a position that no write hits keeps its value -/
theorem writes_untouched (pos : ι → Nat) (val : ι → α) (ws : List ι) (out : Array α) (p : Nat)
    (h : ∀ w ∈ ws, pos w ≠ p) :
    (ws.foldl (fun o w => o.setIfInBounds (pos w) (val w)) out)[p]? = out[p]? := by
  induction ws generalizing out with
  | nil => rfl
  | cons w ws ih =>
    rw [List.foldl_cons, ih _ (fun w' hw' => h w' (List.mem_cons_of_mem _ hw')),
      Array.getElem?_setIfInBounds, if_neg (h w List.mem_cons_self)]

/-- a position inside the array that some write hits, all writes hitting it carrying the same
    value `v`, ends up holding `v` -/
theorem writes_hit (pos : ι → Nat) (val : ι → α) (ws : List ι) (out : Array α) (p : Nat) (v : α)
    (hp : p < out.size) (hex : ∃ w ∈ ws, pos w = p) (hval : ∀ w ∈ ws, pos w = p → val w = v) :
    (ws.foldl (fun o w => o.setIfInBounds (pos w) (val w)) out)[p]? = some v := by
  induction ws generalizing out with
  | nil => obtain ⟨w, hw, _⟩ := hex; cases hw
  | cons w ws ih =>
    rw [List.foldl_cons]
    by_cases hlater : ∃ w' ∈ ws, pos w' = p
    · exact ih _ (by rw [Array.size_setIfInBounds]; exact hp) hlater
        (fun w' hw' => hval w' (List.mem_cons_of_mem _ hw'))
    · have hno : ∀ w' ∈ ws, pos w' ≠ p := fun w' hw' hc => hlater ⟨w', hw', hc⟩
      rw [writes_untouched pos val ws _ p hno, Array.getElem?_setIfInBounds]
      obtain ⟨w0, hw0, hpw0⟩ := hex
      have hw : pos w = p := by
        rcases List.mem_cons.mp hw0 with h | h
        · rw [← h]; exact hpw0
        · exact absurd hpw0 (hno w0 h)
      rw [if_pos hw, if_pos (by omega), hval w List.mem_cons_self hw]

end writes

/-! ### index arithmetic of the (K,N,L) block layout -/

theorem block_digit (N L n k l : Nat) (hn : n < N) (hl : l < L) :
    ((k * N * L + n * L + l) / L) % N = n := by
  have hL : 0 < L := by omega
  have e : k * N * L + n * L + l = L * (N * k + n) + l := by ring
  rw [e, Nat.mul_add_div hL, Nat.div_eq_of_lt hl, Nat.add_zero, Nat.mul_add_mod,
    Nat.mod_eq_of_lt hn]

theorem block_decomp (K N L p : Nat) (hp : p < K * N * L) :
    ∃ n k l, n < N ∧ k < K ∧ l < L ∧ k * N * L + n * L + l = p := by
  have hL : 0 < L := by
    rcases Nat.eq_zero_or_pos L with h | h
    · subst h; simp at hp
    · exact h
  have hN : 0 < N := by
    rcases Nat.eq_zero_or_pos N with h | h
    · subst h; simp at hp
    · exact h
  have hq : p / L < K * N := (Nat.div_lt_iff_lt_mul hL).mpr hp
  have hk : p / L / N < K := (Nat.div_lt_iff_lt_mul hN).mpr hq
  refine ⟨p / L % N, p / L / N, p % L, Nat.mod_lt _ hN, hk, Nat.mod_lt _ hL, ?_⟩
  have h1 : N * (p / L / N) + p / L % N = p / L := Nat.div_add_mod (p / L) N
  have h2 : L * (p / L) + p % L = p := Nat.div_add_mod p L
  calc p / L / N * N * L + p / L % N * L + p % L
      = L * (N * (p / L / N) + p / L % N) + p % L := by ring
    _ = p := by rw [h1, h2]

/-! ### `_repeat_1d` -/

/-- the writes of `_repeat_1d` as one flat list of `(n, k, l)` triples -/
def repeatWrites (N K L : Nat) : List (Nat × Nat × Nat) :=
  (List.range N).flatMap fun n => (List.range K).flatMap fun k => (List.range L).map fun l => (n, k, l)

theorem mem_repeatWrites (N K L : Nat) (w : Nat × Nat × Nat) :
    w ∈ repeatWrites N K L ↔ w.1 < N ∧ w.2.1 < K ∧ w.2.2 < L := by
  obtain ⟨n, k, l⟩ := w
  simp only [repeatWrites, List.mem_flatMap, List.mem_range, List.mem_map, Prod.mk.injEq]
  constructor
  · rintro ⟨n', hn', k', hk', l', hl', rfl, rfl, rfl⟩; exact ⟨hn', hk', hl'⟩
  · rintro ⟨h1, h2, h3⟩; exact ⟨n, h1, k, h2, l, h3, rfl, rfl, rfl⟩

section
variable {α : Type} [Zero α]

/-- `repeat1d` is the fold of the flat write list over the zero array -/
theorem repeat1d_eq_writes (x : List α) (K total : Nat) :
    repeat1d x K total =
      ((repeatWrites x.length K (total / (K * x.length))).foldl
        (fun o w => o.setIfInBounds (w.2.1 * x.length * (total / (K * x.length))
            + w.1 * (total / (K * x.length)) + w.2.2) (x.getD w.1 0))
        (Array.replicate total 0)).toList := by
  unfold repeat1d repeatWrites
  simp only [List.foldl_flatMap, List.foldl_map]

theorem repeat1d_length (x : List α) (K total : Nat) : (repeat1d x K total).length = total := by
  rw [repeat1d_eq_writes, Array.length_toList, writes_size, Array.size_replicate]

/-- **`_repeat_1d`.** With `N = len x` and `L = total // (K·N)`, every position
    `ind < K·N·L` of the output holds `x[(ind / L) % N]`: each element repeated `L` times,
    the whole pattern `K` times. -/
theorem repeat1d_getD (x : List α) (K total ind : Nat)
    (hfit : K * x.length * (total / (K * x.length)) ≤ total)
    (hind : ind < K * x.length * (total / (K * x.length))) :
    (repeat1d x K total).getD ind 0 = x.getD ((ind / (total / (K * x.length))) % x.length) 0 := by
  rw [repeat1d_eq_writes, List.getD_eq_getElem?_getD, Array.getElem?_toList]
  generalize hL : total / (K * x.length) = L at hfit hind ⊢
  rw [writes_hit (fun w : Nat × Nat × Nat => w.2.1 * x.length * L + w.1 * L + w.2.2)
    (fun w => x.getD w.1 0) _ _ ind (x.getD ((ind / L) % x.length) 0)]
  · rfl
  · rw [Array.size_replicate]; omega
  · obtain ⟨n, k, l, hn, hk, hl, he⟩ := block_decomp K x.length L ind hind
    exact ⟨(n, k, l), (mem_repeatWrites _ _ _ _).mpr ⟨hn, hk, hl⟩, he⟩
  · rintro ⟨n, k, l⟩ hw he
    obtain ⟨hn, hk, hl⟩ := (mem_repeatWrites _ _ _ _).mp hw
    simp only at he hn hk hl ⊢
    rw [← he, block_digit x.length L n k l hn hl]

/-- positions beyond the `K·N·L` written ones keep the initial 0 (only relevant when `K·N` does
    not divide `total`; never the case inside `cartesian`) -/
theorem repeat1d_getD_rest (x : List α) (K total ind : Nat)
    (hind : K * x.length * (total / (K * x.length)) ≤ ind) :
    (repeat1d x K total).getD ind 0 = 0 := by
  rw [repeat1d_eq_writes, List.getD_eq_getElem?_getD, Array.getElem?_toList]
  generalize hL : total / (K * x.length) = L at hind ⊢
  rw [writes_untouched (fun w : Nat × Nat × Nat => w.2.1 * x.length * L + w.1 * L + w.2.2)
    (fun w => x.getD w.1 0)]
  · rw [Array.getElem?_replicate]; split <;> rfl
  · rintro ⟨n, k, l⟩ hw he
    obtain ⟨hn, hk, hl⟩ := (mem_repeatWrites _ _ _ _).mp hw
    simp only at he hn hk hl
    have h1 : k * x.length * L + n * L + l < K * x.length * L := by
      have : (k * x.length + n) * L + l < (k * x.length + n + 1) * L := by
        rw [Nat.add_mul _ 1 L]; omega
      have h2 : (k * x.length + n + 1) * L ≤ K * x.length * L := by
        apply Nat.mul_le_mul_right
        calc k * x.length + n + 1 ≤ k * x.length + x.length := by omega
          _ = (k + 1) * x.length := by ring
          _ ≤ K * x.length := Nat.mul_le_mul_right _ hk
      calc k * x.length * L + n * L + l = (k * x.length + n) * L + l := by ring
        _ < _ := this
        _ ≤ _ := h2
    omega

end

end QE.C16
