/-
  C04 — "status 2 exactly when infeasible", unconditionally: Phase 1 always terminates, never
  reports status 3, and a Phase-1 optimum of value ≤ 0 yields a feasible point.
-/
import QEProofs.Lemmas.C04TermSet2
namespace QE.C04
open QE QE.Pivot Finset

variable {K : Type} [Field K] [LinearOrder K] [IsStrictOrderedRing K]

/-- a Phase-1 optimum with criterion value `≤ 0` exhibits a feasible point of the LP -/
theorem phase1_feasible_point (P : LP K) (fuel : ℕ)
    (hle : ¬ (tol0 : Tol K).fea <
      (solveTableau (tol0 : Tol K) false fuel (initTableau P) (initBasis P)).T.get
        ((solveTableau (tol0 : Tol K) false fuel (initTableau P) (initBasis P)).T.nr - 1)
        ((solveTableau (tol0 : Tol K) false fuel (initTableau P) (initBasis P)).T.nc - 1)) :
    ∃ x, Feasible P x := by
  have hinv := solveTableau_inv0 false fuel (initTableau P) (initBasis P) _ _
    (initTableau_shape P) (initTableau_canon P) (initTableau_rhs_nonneg P)
  set r := solveTableau (tol0 : Tol K) false fuel (initTableau P) (initBasis P) with hr
  set L := P.m + P.k with hL
  set N := P.n + P.m + (P.m + P.k) with hN
  have hLr : r.T.nr - 1 = L := by rw [hinv.shape.1]; rfl
  have hNr : r.T.nc - 1 = N := by rw [hinv.shape.2]; rfl
  rw [hLr, hNr] at hle
  have hle' : r.T.get L N ≤ 0 := not_lt.mp hle
  have hz := phase1_art_zero P r.T r.basis hinv hle'
  set zs := bsol r.T r.basis L N with hzs
  have hsat := (hinv.sol zs).mp (bsol_rowsSat r.T r.basis L N hinv.shape hinv.canon)
  have hart : ∀ q, q < L → zs (P.n + P.m + q) = 0 := by
    intro q hq
    by_cases hex : ∃ i, i < L ∧ r.basis.getD i 0 = P.n + P.m + q
    · obtain ⟨i, hi, hbi⟩ := hex
      rw [hzs, ← hbi, bsol_basic r.T r.basis L N i hinv.canon hi]
      exact hz i hi (by omega)
    · exact bsol_nonbasic r.T r.basis L N _ (fun i hi e => hex ⟨i, hi, e⟩)
  exact ⟨zs, rows_project P zs (fun j _ => bsol_nonneg r.T r.basis L N j hinv.rhs) hsat hart⟩

/-- **status 2 ⇔ infeasible**, for every LP, once `max_iter > C(N,L) + 1` — no hypothesis on the
    exit status and none on Phase 2 -/
theorem linprog_status2_iff (P : LP K) (fuel : ℕ)
    (hfuel : (P.n + P.m + (P.m + P.k)).choose (P.m + P.k) + 1 < fuel) :
    (linprogSimplex P fuel tol0).status = 2 ↔ ¬ ∃ x, Feasible P x := by
  constructor
  · intro h
    apply phase1_status2_infeasible P fuel
    rw [linprogSimplex_status] at h
    by_cases h1 : (solvePhase1 (tol0 : Tol K) fuel (initTableau P) (initBasis P)).status ≠ 0
    · rw [if_pos h1] at h; exact h
    · rw [if_neg h1] at h
      rcases solveTableau_status (tol0 : Tol K) true _ _ _ with s | s | s <;> rw [s] at h <;> simp at h
  · intro hinf
    obtain ⟨hne1, _⟩ := phase1_loop_terminates_choose P fuel hfuel
    have hne3 := phase1_not_status3 P fuel
    have h0 : (solveTableau (tol0 : Tol K) false fuel (initTableau P) (initBasis P)).status = 0 := by
      rcases solveTableau_status (tol0 : Tol K) false fuel (initTableau P) (initBasis P) with s | s | s
      · exact s
      · exact absurd s hne1
      · exact absurd s hne3
    rw [linprogSimplex_status]
    rcases solvePhase1_cases (tol0 : Tol K) fuel (initTableau P) (initBasis P) with
      ⟨h1, _⟩ | ⟨_, _, e⟩ | ⟨_, h2, _⟩
    · exact absurd h0 h1
    · rw [e]; simp
    · exact absurd (phase1_feasible_point P fuel h2) hinf

end QE.C04
