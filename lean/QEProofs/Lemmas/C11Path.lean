/-
  Lemke's path argument, abstract part: a partial step map `F` with an involution `ι`
  ("enter the complement instead"), reversible up to an equivalence `R` that `F` respects,
  admits no "palindromic" path `s₁ → … → s_t` with `ι s_t ~ s₁`; and no two states of a path
  starting at a state whose mirror image is a dead end are equivalent.
-/
import Mathlib.Logic.Basic
import Mathlib.Tactic.Common
import Mathlib.Order.Basic

namespace QE.C11.Path

variable {S : Type}

/-- `k`-fold iteration of a partial map -/
def iter (F : S → Option S) : ℕ → S → Option S
  | 0, s => some s
  | k + 1, s => (F s).bind (iter F k)

theorem iter_zero (F : S → Option S) (s : S) : iter F 0 s = some s := rfl
theorem iter_succ (F : S → Option S) (k : ℕ) (s : S) : iter F (k + 1) s = (F s).bind (iter F k) := rfl

theorem iter_succ_right (F : S → Option S) : ∀ (k : ℕ) (s : S),
    iter F (k + 1) s = (iter F k s).bind F := by
  intro k
  induction k with
  | zero => intro s; simp [iter]
  | succ k ih =>
    intro s
    rw [iter_succ F (k + 1) s, iter_succ F k s]
    cases h : F s with
    | none => simp
    | some s' => simp only [Option.bind_some]; exact ih s'

theorem iter_good (F : S → Option S) (G : S → Prop) (hGF : ∀ s s', G s → F s = some s' → G s') :
    ∀ (k : ℕ) (s st : S), G s → iter F k s = some st → G st := by
  intro k
  induction k with
  | zero => intro s st hg h; simp [iter] at h; rw [← h]; exact hg
  | succ k ih =>
    intro s st hg h
    rw [iter_succ] at h
    cases h1 : F s with
    | none => rw [h1] at h; simp at h
    | some s' => rw [h1] at h; simp only [Option.bind_some] at h; exact ih s' st (hGF s s' hg h1) h

theorem iter_add (F : S → Option S) : ∀ (a b : ℕ) (s sa : S), iter F a s = some sa →
    iter F (a + b) s = iter F b sa := by
  intro a
  induction a with
  | zero => intro b s sa h; simp [iter] at h; rw [h]; simp
  | succ a ih =>
    intro b s sa h
    rw [show a + 1 + b = (a + b) + 1 by omega, iter_succ]
    rw [iter_succ] at h
    cases h1 : F s with
    | none => rw [h1] at h; simp at h
    | some s' =>
      rw [h1] at h; simp only [Option.bind_some] at h ⊢
      exact ih b s' sa h

section palindrome
variable (F : S → Option S) (ι : S → S) (R : S → S → Prop) (G : S → Prop)
  (hGF : ∀ s s', G s → F s = some s' → G s')
  (hGι : ∀ s, G s → G (ι s))
  (hsymm : ∀ s u, R s u → R u s) (htrans : ∀ s u w, R s u → R u w → R s w)
  (hRF : ∀ s u s', G s → G u → R s u → F s = some s' → ∃ u', F u = some u' ∧ R s' u')
  (hrev : ∀ s s', G s → F s = some s' → ∃ w, F (ι s') = some w ∧ R w (ι s))
  (ha : ∀ s, G s → ¬ R (ι s) s)
  (hb : ∀ s s', G s → F s = some s' → ¬ R (ι s') s)

include hGF hGι hsymm htrans hRF hrev ha hb in
/-- no palindromic path -/
theorem no_palindrome : ∀ (k : ℕ) (s1 st : S), G s1 → iter F (k + 1) s1 = some st →
    ¬ R (ι st) s1 := by
  intro k
  induction k using Nat.strongRecOn with
  | _ k ih =>
    intro s1 st hg h hR
    cases k with
    | zero =>
      rw [iter_succ] at h
      cases h1 : F s1 with
      | none => rw [h1] at h; simp at h
      | some s2 =>
        rw [h1] at h; simp [iter] at h
        rw [h] at h1
        exact hb s1 st hg h1 hR
    | succ m =>
      -- first step
      have h' := h
      rw [iter_succ] at h'
      cases h1 : F s1 with
      | none => rw [h1] at h'; simp at h'
      | some s2 =>
        rw [h1] at h'; simp only [Option.bind_some] at h'
        have hg2 := hGF s1 s2 hg h1
        -- last step
        rw [iter_succ_right] at h'
        cases h2 : iter F m s2 with
        | none => rw [h2] at h'; simp at h'
        | some sp =>
          rw [h2] at h'; simp only [Option.bind_some] at h'
          have hgp := iter_good F G hGF m s2 sp hg2 h2
          have hgt := hGF sp st hgp h'
          obtain ⟨w, hw, hRw⟩ := hrev sp st hgp h'
          obtain ⟨u', hu', hRu'⟩ := hRF (ι st) s1 w (hGι st hgt) hg hR hw
          rw [h1] at hu'
          have : u' = s2 := (Option.some.inj hu').symm
          rw [this] at hRu'
          have hR2 : R (ι sp) s2 := htrans _ _ _ (hsymm _ _ hRw) hRu'
          cases m with
          | zero =>
            simp [iter] at h2
            rw [← h2] at hR2
            exact ha s2 hg2 hR2
          | succ m' =>
            exact ih m' (by omega) s2 sp hg2 h2 hR2

include hGF hGι hsymm htrans hRF hrev in
/-- if the mirror image of the start is a dead end, no two states of the path are equivalent -/
theorem no_repeat (hRι : ∀ s u, G s → G u → R (ι s) (ι u) → R s u)
    (hRι' : ∀ s u, G s → G u → R s u → R (ι s) (ι u))
    (s1 : S) (hg : G s1) (hdead : F (ι s1) = none) :
    ∀ (a b : ℕ) (sa sb : S), a < b → iter F a s1 = some sa → iter F b s1 = some sb → ¬ R sa sb := by
  intro a
  induction a with
  | zero =>
    intro b sa sb hab ha hb hR
    simp [iter] at ha
    rw [← ha] at hR
    obtain ⟨b', rfl⟩ : ∃ b', b = b' + 1 := ⟨b - 1, by omega⟩
    rw [iter_succ_right] at hb
    cases h2 : iter F b' s1 with
    | none => rw [h2] at hb; simp at hb
    | some sp =>
      rw [h2] at hb; simp only [Option.bind_some] at hb
      have hgp := iter_good F G hGF b' s1 sp hg h2
      have hgb := hGF sp sb hgp hb
      obtain ⟨w, hw, _⟩ := hrev sp sb hgp hb
      have hR' : R (ι sb) (ι s1) := hsymm _ _ (hRι' s1 sb hg hgb hR)
      obtain ⟨u', hu', _⟩ := hRF (ι sb) (ι s1) w (hGι sb hgb) (hGι s1 hg) hR' hw
      rw [hdead] at hu'; simp at hu'
  | succ a ih =>
    intro b sa sb hab ha hb hR
    obtain ⟨b', rfl⟩ : ∃ b', b = b' + 1 := ⟨b - 1, by omega⟩
    rw [iter_succ_right] at ha hb
    cases h1 : iter F a s1 with
    | none => rw [h1] at ha; simp at ha
    | some sa0 =>
      cases h2 : iter F b' s1 with
      | none => rw [h2] at hb; simp at hb
      | some sb0 =>
        rw [h1] at ha; rw [h2] at hb
        simp only [Option.bind_some] at ha hb
        have hga0 := iter_good F G hGF a s1 sa0 hg h1
        have hgb0 := iter_good F G hGF b' s1 sb0 hg h2
        have hga := hGF sa0 sa hga0 ha
        have hgb := hGF sb0 sb hgb0 hb
        obtain ⟨w1, hw1, hR1⟩ := hrev sa0 sa hga0 ha
        obtain ⟨w2, hw2, hR2⟩ := hrev sb0 sb hgb0 hb
        obtain ⟨u', hu', hRu⟩ := hRF (ι sa) (ι sb) w1 (hGι sa hga) (hGι sb hgb)
          (hRι' sa sb hga hgb hR) hw1
        rw [hw2] at hu'
        have : u' = w2 := (Option.some.inj hu').symm
        rw [this] at hRu
        have hR0 : R (ι sa0) (ι sb0) :=
          htrans _ _ _ (hsymm _ _ hR1) (htrans _ _ _ hRu hR2)
        exact ih b' sa0 sb0 (by omega) h1 h2 (hRι sa0 sb0 hga0 hgb0 hR0)

end palindrome

end QE.C11.Path
