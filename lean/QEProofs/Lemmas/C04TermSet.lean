/-
  C04 — sharper termination bound: the criterion row is determined by the *set* of basic
  columns, so `solve_tableau` from a lex-positive start visits every `L`-subset of the `N`
  columns at most once: at most `C(N,L) + 1` iterations.
-/
import QEProofs.Lemmas.C04Term2
import Mathlib.Data.Finset.Powerset
import Mathlib.Data.Fintype.Powerset
import Mathlib.Data.Nat.Choose.Basic
namespace QE.C04
open QE QE.Pivot Finset

variable {K : Type} [Field K] [LinearOrder K] [IsStrictOrderedRing K]

omit [LinearOrder K] [IsStrictOrderedRing K] in
/-- as `crit_of_basis`, needing of `T'` only that its criterion row vanishes on the basic columns of `T` -/
theorem crit_of_zero (T0 T T' : M K) (b : List ℕ) (L N : ℕ) (base : ℕ → K)
    (hc : Canon T b L N) (hz' : ∀ k, k < L → T'.get L (b.getD k 0) = 0)
    (hrev : RowsSpan T T0 L N) (hcs : CritSpan T0 T L N base) (hcs' : CritSpan T0 T' L N base) :
    ∀ j, j < N + 1 → T.get L j = T'.get L j := by
  obtain ⟨w, hw⟩ := hcs
  obtain ⟨w', hw'⟩ := hcs'
  have hcoef : ∀ q, q < L → ∀ j, j < N + 1 →
      T0.get q j = ∑ k ∈ range L, T0.get q (b.getD k 0) * T.get k j := by
    intro q hq
    exact span_coeff_cols T L N (fun k => b.getD k 0) (fun j => T0.get q j)
      (fun k hk => by have := (hc.2 k hk).1; omega)
      (fun k k' hk hk' => by rw [(hc.2 k' hk').2 k (by omega)])
      (hrev q hq)
  have hzero : ∀ k, k < L → ∑ q ∈ range L, (w q - w' q) * T0.get q (b.getD k 0) = 0 := by
    intro k hk
    have hbk := (hc.2 k hk).1
    have e1 := hw (b.getD k 0) (by omega)
    have e2 := hw' (b.getD k 0) (by omega)
    simp only at e1 e2
    rw [(hc.2 k hk).2 L (by omega), if_neg (by omega)] at e1
    rw [hz' k hk] at e2
    simp only [sub_mul, Finset.sum_sub_distrib]
    rw [← e1, ← e2]; ring
  intro j hj
  have e1 := hw j hj
  have e2 := hw' j hj
  simp only at e1 e2
  have hdiff : ∑ q ∈ range L, (w q - w' q) * T0.get q j = 0 := by
    have : ∀ q ∈ range L, (w q - w' q) * T0.get q j
        = ∑ k ∈ range L, ((w q - w' q) * T0.get q (b.getD k 0)) * T.get k j := by
      intro q hq
      rw [hcoef q (Finset.mem_range.mp hq) j hj, Finset.mul_sum]
      apply Finset.sum_congr rfl; intro k _; ring
    rw [Finset.sum_congr rfl this, Finset.sum_comm]
    apply Finset.sum_eq_zero
    intro k hk
    rw [← Finset.sum_mul, hzero k (Finset.mem_range.mp hk), zero_mul]
  simp only [sub_mul, Finset.sum_sub_distrib] at hdiff
  rw [← e1, ← e2] at hdiff
  linear_combination -hdiff

omit [LinearOrder K] [IsStrictOrderedRing K] in
theorem canon_toFinset (T : M K) (b : List ℕ) (L N : ℕ) (hc : Canon T b L N) :
    b.toFinset = (range L).image (fun i => b.getD i 0) := by
  ext a
  simp only [List.mem_toFinset, Finset.mem_image, Finset.mem_range]
  constructor
  · intro ha
    obtain ⟨i, hi, e⟩ := List.mem_iff_getElem.mp ha
    exact ⟨i, by rw [← hc.1]; exact hi, by rw [← e, List.getElem_eq_getD (h := hi) 0]⟩
  · rintro ⟨i, hi, e⟩
    have hi' : i < b.length := by rw [hc.1]; exact hi
    rw [← e, ← List.getElem_eq_getD (h := hi') 0]
    exact List.getElem_mem hi'

omit [LinearOrder K] [IsStrictOrderedRing K] in
/-- the set of basic columns is an `L`-subset of the `N` columns -/
theorem canon_mem_powersetCard (T : M K) (b : List ℕ) (L N : ℕ) (hc : Canon T b L N) :
    b.toFinset ∈ powersetCard L (range N) := by
  rw [Finset.mem_powersetCard, canon_toFinset T b L N hc]
  constructor
  · intro a ha
    obtain ⟨i, hi, e⟩ := Finset.mem_image.mp ha
    rw [← e]; exact Finset.mem_range.mpr (hc.2 i (Finset.mem_range.mp hi)).1
  · rw [Finset.card_image_of_injOn, Finset.card_range]
    intro i hi i' hi' e
    exact canon_basis_inj T b L N i i' hc (Finset.mem_range.mp hi) (Finset.mem_range.mp hi') e

omit [LinearOrder K] [IsStrictOrderedRing K] in
/-- the criterion row is determined by the set of basic columns -/
theorem crit_of_basis_set (T0 T T' : M K) (b b' : List ℕ) (L N : ℕ) (base : ℕ → K)
    (hc : Canon T b L N) (hc' : Canon T' b' L N) (hset : b.toFinset = b'.toFinset)
    (hrev : RowsSpan T T0 L N) (hcs : CritSpan T0 T L N base) (hcs' : CritSpan T0 T' L N base) :
    ∀ j, j < N + 1 → T.get L j = T'.get L j := by
  apply crit_of_zero T0 T T' b L N base hc _ hrev hcs hcs'
  intro k hk
  have hmem : b.getD k 0 ∈ b.toFinset := by
    rw [canon_toFinset T b L N hc]
    exact Finset.mem_image.mpr ⟨k, Finset.mem_range.mpr hk, rfl⟩
  rw [hset, canon_toFinset T' b' L N hc'] at hmem
  obtain ⟨k', hk', e⟩ := Finset.mem_image.mp hmem
  rw [← e, (hc'.2 k' (Finset.mem_range.mp hk')).2 L (by omega), if_neg]
  have := Finset.mem_range.mp hk'; omega

/-- **iteration bound by the number of `L`-subsets**: at most `C(N,L) + 1 − #seen` iterations -/
theorem solveTableau_iters_bound_set (skip : Bool) (T0 : M K) (base : ℕ → K) (L N : ℕ) (hLN : L ≤ N) :
    ∀ (fuel : ℕ) (T : M K) (b : List ℕ) (seen : Finset (Finset ℕ)),
      TermInv T0 base L N T b → seen ⊆ powersetCard L (range N) →
      (∀ s ∈ seen, ∃ T' b', TermInv T0 base L N T' b' ∧ b'.toFinset = s ∧
        LexLt (lexCols L N (N - L)) (fun col => T.get L col) (fun col => T'.get L col)) →
      (solveTableau (tol0 : Tol K) skip fuel T b).iters + seen.card ≤ N.choose L + 1 := by
  intro fuel
  have hcard : ∀ seen : Finset (Finset ℕ), seen ⊆ powersetCard L (range N) → seen.card ≤ N.choose L := by
    intro seen hsub
    have := Finset.card_le_card hsub
    rwa [Finset.card_powersetCard, Finset.card_range] at this
  induction fuel with
  | zero =>
    intro T b seen _ hsub _
    have := hcard seen hsub
    simp only [solveTableau]; omega
  | succ fuel ih =>
    intro T b seen hinv hsub hseen
    have hlen := hcard seen hsub
    unfold solveTableau
    cases hpc : pivotCol T skip (tol0 : Tol K).fea with
    | none => simp only; omega
    | some c =>
      simp only
      by_cases hf : (lexMinRatio (dropLast T) c (T.nc - (T.nr - 1) - 1) (tol0 : Tol K).piv
          (tol0 : Tol K).diff).1 = true
      · rw [if_pos hf]
        have hst : Step (tol0 : Tol K) skip T b
            (pivot T c (lexMinRatio (dropLast T) c (T.nc - (T.nr - 1) - 1)
              (tol0 : Tol K).piv (tol0 : Tol K).diff).2)
            (b.set (lexMinRatio (dropLast T) c (T.nc - (T.nr - 1) - 1)
              (tol0 : Tol K).piv (tol0 : Tol K).diff).2 c) := ⟨c, hpc, hf, rfl, rfl⟩
        obtain ⟨hinv', hlt⟩ := termInv_step skip T0 base L N hLN T b _ _ hinv hst
        have hns : b.toFinset ∉ seen := by
          intro hb
          obtain ⟨T', b', hT', hset, hlt'⟩ := hseen _ hb
          have heq := crit_of_basis_set T0 T T' b b' L N base hinv.canon hT'.canon hset.symm
            hinv.rev hinv.crit hT'.crit
          have hcols := lexCols_lt L N (N - L) (by omega)
          have := lexLt_congr _ _ _ _ _ (fun _ _ => rfl)
            (fun col hcol => (heq col (hcols col hcol)).symm) hlt'
          exact lexLt_irrefl _ _ this
        have := ih _ _ (insert b.toFinset seen) hinv'
          (by
            intro x hx
            rcases Finset.mem_insert.mp hx with rfl | hx
            · exact canon_mem_powersetCard T b L N hinv.canon
            · exact hsub hx)
          (by
            intro s hs
            rcases Finset.mem_insert.mp hs with rfl | hs
            · exact ⟨T, b, hinv, rfl, hlt⟩
            · obtain ⟨T', b', hT', hset, hlt'⟩ := hseen s hs
              exact ⟨T', b', hT', hset, lexLt_trans _ _ _ _ hlt hlt'⟩)
        rw [Finset.card_insert_of_notMem hns] at this
        simp only
        omega
      · rw [if_neg hf]; simp only; omega

/-- **termination, sharp bound**: status ≠ 1 as soon as `max_iter > C(N,L) + 1` -/
theorem solveTableau_terminates_set (skip : Bool) (T0 : M K) (base : ℕ → K) (L N : ℕ) (hLN : L ≤ N)
    (fuel : ℕ) (T : M K) (b : List ℕ) (h : TermInv T0 base L N T b) (hfuel : N.choose L + 1 < fuel) :
    (solveTableau (tol0 : Tol K) skip fuel T b).status ≠ 1 ∧
      (solveTableau (tol0 : Tol K) skip fuel T b).iters ≤ N.choose L + 1 := by
  have hb := solveTableau_iters_bound_set skip T0 base L N hLN fuel T b ∅ h (by simp) (by simp)
  simp only [Finset.card_empty, add_zero] at hb
  refine ⟨fun h1 => ?_, hb⟩
  have := solveTableau_status1 (tol0 : Tol K) skip fuel T b h1
  omega

end QE.C04
