/-
  C07 helper lemmas, part 13: explicit geometric bounds on the discounted tail `β^T x_T' P x_T`
  of a closed loop with `β ‖K‖∞² < 1` (norm layer of C06Norm), and the Archimedean step.
-/
import QEProofs.Lemmas.C06Norm
import QEProofs.Lemmas.C06Lyap
import QEProofs.Lemmas.C07Opt
import Mathlib.Algebra.Order.Archimedean.Basic

set_option linter.unusedSectionVars false

namespace QE.C07
open QE QE.C06 Finset Matrix

variable {K : Type} [Field K] [LinearOrder K] [IsStrictOrderedRing K] {n : ℕ}

/-- `‖x‖_max ≤ m` -/
def VecBound (x : Fin n → K) (m : K) : Prop := ∀ i, |x i| ≤ m

theorem vecBound_mulVec {A : Matrix (Fin n) (Fin n) K} {a m : K} {x : Fin n → K}
    (hA : RowBound A a) (hx : VecBound x m) (hm : 0 ≤ m) : VecBound (A *ᵥ x) (a * m) := by
  intro p
  show |∑ c, A p c * x c| ≤ a * m
  calc |∑ c, A p c * x c| ≤ ∑ c, |A p c| * |x c| :=
        le_trans (abs_sum_le_sum_abs _ _) (le_of_eq (sum_congr rfl fun c _ => abs_mul _ _))
    _ ≤ ∑ c, |A p c| * m := sum_le_sum fun c _ => mul_le_mul_of_nonneg_left (hx c) (abs_nonneg _)
    _ = (∑ c, |A p c|) * m := (sum_mul _ _ _).symm
    _ ≤ a * m := mul_le_mul_of_nonneg_right (hA p) hm

theorem abs_qf_le {P : Matrix (Fin n) (Fin n) K} {g m : K} {y : Fin n → K}
    (hP : EntryBound P g) (hy : VecBound y m) (hg : 0 ≤ g) (hm : 0 ≤ m) :
    |qf P y| ≤ (n : K) * (n : K) * g * m * m := by
  rw [qf_eq_sum]
  have h1 : ∀ i l, |y i * P i l * y l| ≤ m * g * m := by
    intro i l
    rw [abs_mul, abs_mul]
    exact mul_le_mul (mul_le_mul (hy i) (hP i l) (abs_nonneg _) hm) (hy l) (abs_nonneg _) (mul_nonneg hm hg)
  calc |∑ i, ∑ l, y i * P i l * y l| ≤ ∑ i, |∑ l, y i * P i l * y l| := abs_sum_le_sum_abs _ _
    _ ≤ ∑ i : Fin n, ∑ l : Fin n, |y i * P i l * y l| := sum_le_sum fun i _ => abs_sum_le_sum_abs _ _
    _ ≤ ∑ _i : Fin n, ∑ _l : Fin n, m * g * m := sum_le_sum fun i _ => sum_le_sum fun l _ => h1 i l
    _ = (n : K) * (n : K) * g * m * m := by
        simp only [sum_const, card_univ, Fintype.card_fin, nsmul_eq_mul]; ring

/-- the discounted tail of a closed loop `Kc` with `‖Kc‖∞ ≤ κ`:
    `|β^T x_T'P x_T| ≤ n²·g·m²·(βκ²)^T` for `x_T = Kc^T x`, `‖P‖_max ≤ g`, `‖x‖_max ≤ m` -/
theorem tail_bound {Kc P : Matrix (Fin n) (Fin n) K} {κ g m β : K} {x : Fin n → K}
    (hK : RowBound Kc κ) (hκ : 0 ≤ κ) (hP : EntryBound P g) (hg : 0 ≤ g) (hx : VecBound x m) (hm : 0 ≤ m)
    (hβ : 0 ≤ β) (T : ℕ) :
    |β ^ T * qf P ((Kc ^ T) *ᵥ x)| ≤ (n : K) * (n : K) * g * m * m * (β * κ ^ 2) ^ T := by
  have hv := vecBound_mulVec (rowBound_pow hK hκ T) hx hm
  have hq := abs_qf_le hP hv hg (mul_nonneg (pow_nonneg hκ T) hm)
  rw [abs_mul, abs_of_nonneg (pow_nonneg hβ T)]
  calc β ^ T * |qf P ((Kc ^ T) *ᵥ x)|
      ≤ β ^ T * ((n : K) * (n : K) * g * (κ ^ T * m) * (κ ^ T * m)) :=
        mul_le_mul_of_nonneg_left hq (pow_nonneg hβ T)
    _ = (n : K) * (n : K) * g * m * m * (β * κ ^ 2) ^ T := by
        rw [mul_pow, ← pow_mul, mul_comm 2 T, pow_mul]; ring

/-- Archimedean step: a geometric sequence with ratio in `[0, 1)` is eventually below any `ε > 0` -/
theorem geometric_small [Archimedean K] (C r ε : K) (hC : 0 ≤ C) (hr0 : 0 ≤ r) (hr1 : r < 1) (hε : 0 < ε) :
    ∃ T0 : ℕ, ∀ T, T0 ≤ T → C * r ^ T < ε := by
  obtain ⟨k, hk⟩ := exists_pow_lt_of_lt_one (div_pos hε (by linarith : 0 < C + 1)) hr1
  refine ⟨k, fun T hT => ?_⟩
  have h1 : r ^ T ≤ r ^ k := pow_le_pow_of_le_one hr0 (le_of_lt hr1) hT
  have h2 : (C + 1) * r ^ k < ε := by
    rw [lt_div_iff₀ (by linarith : 0 < C + 1)] at hk; linarith
  have h3 : 0 ≤ r ^ k := pow_nonneg hr0 k
  nlinarith [mul_le_mul_of_nonneg_left h1 hC]

section noise
variable {k j : ℕ} {ι : Type} [Fintype ι]

theorem vecBound_add {x y : Fin n → K} {a b : K} (hx : VecBound x a) (hy : VecBound y b) :
    VecBound (x + y) (a + b) := fun i => le_trans (abs_add_le _ _) (add_le_add (hx i) (hy i))

/-- an invariant box of the noisy closed loop: `‖A − BF‖∞ ≤ κ`, `‖C w_s‖_max ≤ c`, `κ·mb + c ≤ mb` -/
theorem box_invariant (A : Matrix (Fin n) (Fin n) K) (B : Matrix (Fin n) (Fin k) K) (F : Matrix (Fin k) (Fin n) K)
    (C : Matrix (Fin n) (Fin j) K) (w : ι → Fin j → K) (κ c mb : K)
    (hK : RowBound (A - B * F) κ) (hc : ∀ s, VecBound (C *ᵥ w s) c) (hmb : 0 ≤ mb) (hbox : κ * mb + c ≤ mb)
    (y : Fin n → K) (hy : VecBound y mb) (s : ι) :
    VecBound (A *ᵥ y + B *ᵥ (-(F *ᵥ y)) + C *ᵥ w s) mb := by
  rw [closed_loop_step]
  intro i
  exact le_trans (vecBound_add (vecBound_mulVec hK hy hmb) (hc s) i) hbox

/-- the expected discounted terminal value inside an invariant box: `|β^T E[x_T'Px_T + d]| ≤ β^T (n² g mb² + |d|)` -/
theorem eTerm_bound (A P : Matrix (Fin n) (Fin n) K) (F : Matrix (Fin k) (Fin n) K) (B : Matrix (Fin n) (Fin k) K)
    (C : Matrix (Fin n) (Fin j) K) (β d g mb : K) (p : ι → K) (w : ι → Fin j → K)
    (hβ : 0 ≤ β) (hp0 : ∀ s, 0 ≤ p s) (hp : ∑ s, p s = 1) (hP : EntryBound P g) (hg : 0 ≤ g) (hmb : 0 ≤ mb)
    (hinv : ∀ y, VecBound y mb → ∀ s, VecBound (A *ᵥ y + B *ᵥ (-(F *ᵥ y)) + C *ᵥ w s) mb) :
    ∀ (T : ℕ) (x : Fin n → K), VecBound x mb →
      |eTerm A P F B C β d p w T x| ≤ β ^ T * ((n : K) * (n : K) * g * mb * mb + |d|) := by
  intro T
  induction T with
  | zero =>
    intro x hx
    simp only [eTerm, pow_zero, one_mul]
    exact le_trans (abs_add_le _ _) (add_le_add (abs_qf_le hP hx hg hmb) (le_refl _))
  | succ T ih =>
    intro x hx
    simp only [eTerm]
    rw [abs_mul, abs_of_nonneg hβ, pow_succ, mul_comm (β ^ T) β, mul_assoc]
    apply mul_le_mul_of_nonneg_left _ hβ
    calc |∑ s, p s * eTerm A P F B C β d p w T (A *ᵥ x + B *ᵥ (-(F *ᵥ x)) + C *ᵥ w s)|
        ≤ ∑ s, p s * |eTerm A P F B C β d p w T (A *ᵥ x + B *ᵥ (-(F *ᵥ x)) + C *ᵥ w s)| :=
          le_trans (abs_sum_le_sum_abs _ _)
            (le_of_eq (sum_congr rfl fun s _ => by rw [abs_mul, abs_of_nonneg (hp0 s)]))
      _ ≤ ∑ s, p s * (β ^ T * ((n : K) * (n : K) * g * mb * mb + |d|)) :=
          sum_le_sum fun s _ => mul_le_mul_of_nonneg_left (ih _ (hinv x hx s)) (hp0 s)
      _ = β ^ T * ((n : K) * (n : K) * g * mb * mb + |d|) := by rw [← sum_mul, hp, one_mul]

end noise

end QE.C07
