/-
  Lemmas for C08, part 16: Hermite's differential equation and orthogonality of the orthonormal
  Hermite functions of `_qnwnorm1` under any linear functional obeying the integration-by-parts
  rule of the weight `e^{-x²}`.
-/
import QEProofs.Lemmas.C08Herm
import QEProofs.Lemmas.C08Gauss
import Mathlib.Algebra.Polynomial.Degree.Lemmas
namespace QE.C08
open Polynomial

set_option linter.unusedSectionVars false

variable {K : Type} [Field K] [LinearOrder K] [IsStrictOrderedRing K]

/-- `(n+1)·c_{n+2}·c_{n+1} = 2·t_{n+2}` -/
theorem sqrtTable_ode (sq : Nat → K × K) (h : IsSqrtTable sq) (n : Nat) :
    ((n + 1 : Nat) : K) * (sq (n + 2)).1 * (sq (n + 1)).1 = 2 * (sq (n + 2)).2 := by
  have r2 := sqrtTable_rel sq h (n + 2) (by omega)
  simp only [show n + 2 - 1 = n + 1 by omega] at r2
  have q1 := h.sq1 (n + 1) (by omega)
  have hn1 : ((n + 1 : Nat) : K) ≠ 0 := by
    have : n + 1 ≠ 0 := by omega
    exact_mod_cast this
  have q1' : ((n + 1 : Nat) : K) * ((sq (n + 1)).1 * (sq (n + 1)).1) = 2 := by
    rw [q1]; field_simp
  linear_combination (-(((n + 1 : Nat) : K)) * (sq (n + 1)).1) * r2 + (sq (n + 2)).2 * q1'

/-- Hermite's differential equation for the functions the loop evaluates: `hₙ'' − 2X hₙ' + 2n hₙ = 0` -/
theorem hermPoly_ode (sq : Nat → K × K) (h : IsSqrtTable sq) (c : K) (n : Nat) :
    derivative (derivative (hermPoly sq c n)) - 2 * X * derivative (hermPoly sq c n)
      + 2 * (n : K[X]) * hermPoly sq c n = 0 := by
  match n with
  | 0 => simp [hermPoly]
  | 1 =>
    have hd := hermPoly_derivative sq h c 0
    have hP1 : hermPoly sq c 1 = X * C (sq 1).1 * hermPoly sq c 0 := by simp [hermPoly]
    have hd0 : derivative (hermPoly sq c 0) = 0 := by simp [hermPoly]
    simp only [Nat.zero_add] at hd
    rw [hd]
    simp only [derivative_mul, derivative_natCast, derivative_C, hd0, zero_mul, mul_zero, add_zero]
    push_cast
    linear_combination (2 : K[X]) * hP1
  | n + 2 =>
    have d2 := hermPoly_derivative sq h c (n + 1)
    have d1 := hermPoly_derivative sq h c n
    have hP : hermPoly sq c (n + 2)
        = X * C (sq (n + 2)).1 * hermPoly sq c (n + 1) - C (sq (n + 2)).2 * hermPoly sq c n := by
      rw [hermPoly]
    have S := congrArg C (sqrtTable_ode sq h n)
    simp only [C_mul, C_eq_natCast, C_ofNat] at S
    have e : n + 1 + 1 = n + 2 := by omega
    rw [e] at d2
    rw [d2]
    simp only [derivative_mul, derivative_natCast, derivative_C, zero_mul, mul_zero, add_zero, zero_add, d1]
    push_cast at S ⊢
    linear_combination (2 * ((n : K[X]) + 2)) * hP + (((n : K[X]) + 2) * hermPoly sq c n) * S

/-- **Pairwise orthogonality** under any linear `Λ` with `Λ(f' − 2X f) = 0` for all polynomials `f`
    (integration by parts against `e^{−x²}` on the real line) -/
theorem hermPoly_orthogonal (sq : Nat → K × K) (h : IsSqrtTable sq) (c : K) (Λ : K[X] →ₗ[K] K)
    (hIBP : ∀ f : K[X], Λ (derivative f - 2 * X * f) = 0) (n m : Nat) (hnm : n ≠ m) :
    Λ (hermPoly sq c n * hermPoly sq c m) = 0 := by
  have green : ∀ i j : Nat,
      -(2 * (i : K)) * Λ (hermPoly sq c i * hermPoly sq c j)
        + Λ (derivative (hermPoly sq c i) * derivative (hermPoly sq c j)) = 0 := by
    intro i j
    have hh := hIBP (derivative (hermPoly sq c i) * hermPoly sq c j)
    have hode := hermPoly_ode sq h c i
    have e : derivative (derivative (hermPoly sq c i) * hermPoly sq c j)
          - 2 * X * (derivative (hermPoly sq c i) * hermPoly sq c j)
        = (-(2 * (i : K))) • (hermPoly sq c i * hermPoly sq c j)
          + derivative (hermPoly sq c i) * derivative (hermPoly sq c j) := by
      rw [smul_eq_C_mul, derivative_mul]
      simp only [C_neg, C_mul, C_eq_natCast, C_ofNat]
      linear_combination (hermPoly sq c j) * hode
    rw [e, map_add, map_smul, smul_eq_mul] at hh
    exact hh
  have g1 := green n m
  have g2 := green m n
  have hsym : Λ (derivative (hermPoly sq c m) * derivative (hermPoly sq c n))
      = Λ (derivative (hermPoly sq c n) * derivative (hermPoly sq c m)) := by
    congr 1; ring
  have hcomm : Λ (hermPoly sq c m * hermPoly sq c n) = Λ (hermPoly sq c n * hermPoly sq c m) := by
    congr 1; ring
  rw [hsym, hcomm] at g2
  have hdiff : (2 * ((m : K) - (n : K))) * Λ (hermPoly sq c n * hermPoly sq c m) = 0 := by
    linear_combination g1 - g2
  rcases mul_eq_zero.mp hdiff with h0 | h0
  · exfalso
    have h' : (m : K) = (n : K) := by linear_combination h0 / 2
    exact hnm (by exact_mod_cast h'.symm)
  · exact h0

theorem hermPoly_coeff_succ (sq : Nat → K × K) (c : K) (n k : Nat) :
    (hermPoly sq c (n + 2)).coeff (k + 1)
      = (sq (n + 2)).1 * (hermPoly sq c (n + 1)).coeff k - (sq (n + 2)).2 * (hermPoly sq c n).coeff (k + 1) := by
  rw [hermPoly, coeff_sub, coeff_C_mul, mul_comm X, mul_assoc, coeff_C_mul, coeff_X_mul]

/-- `hₙ` has degree exactly `n` (for `c ≠ 0`) -/
theorem hermPoly_coeffs (sq : Nat → K × K) (h : IsSqrtTable sq) (c : K) (hc : c ≠ 0) : ∀ n : Nat,
    (∀ k, n < k → (hermPoly sq c n).coeff k = 0) ∧ (hermPoly sq c n).coeff n ≠ 0 := by
  intro n
  induction n using Nat.strongRecOn with
  | _ n ih =>
    match n with
    | 0 =>
      constructor
      · intro k hk
        simp only [hermPoly, coeff_C]
        rw [if_neg (by omega)]
      · simpa [hermPoly] using hc
    | 1 =>
      have h1 : hermPoly sq c 1 = C ((sq 1).1 * c) * X := by
        simp only [hermPoly, C_mul]; ring
      constructor
      · intro k hk
        rw [h1, coeff_C_mul, coeff_X, if_neg (by omega), mul_zero]
      · rw [h1, coeff_C_mul, coeff_X, if_pos rfl, mul_one]
        exact mul_ne_zero (h.pos1 1 (le_refl _)).ne' hc
    | n + 2 =>
      obtain ⟨z1, p1⟩ := ih (n + 1) (by omega)
      obtain ⟨z0, _⟩ := ih n (by omega)
      constructor
      · intro k hk
        obtain ⟨k', rfl⟩ : ∃ k', k = k' + 1 := ⟨k - 1, by omega⟩
        rw [hermPoly_coeff_succ, z1 k' (by omega), z0 (k' + 1) (by omega)]
        ring
      · rw [hermPoly_coeff_succ, z0 (n + 1 + 1) (by omega), mul_zero, sub_zero]
        exact mul_ne_zero (h.pos1 (n + 2) (by omega)).ne' p1

theorem hermPoly_degree (sq : Nat → K × K) (h : IsSqrtTable sq) (c : K) (hc : c ≠ 0) (n : Nat) :
    (hermPoly sq c n).degree = (n : WithBot Nat) := by
  obtain ⟨zs, lne⟩ := hermPoly_coeffs sq h c hc n
  have h1 : (hermPoly sq c n).natDegree ≤ n := natDegree_le_iff_coeff_eq_zero.mpr zs
  have h2 : n ≤ (hermPoly sq c n).natDegree := le_natDegree_of_ne_zero lne
  have hne : hermPoly sq c n ≠ 0 := by
    intro h0; rw [h0, coeff_zero] at lne; exact lne rfl
  rw [degree_eq_natDegree hne, le_antisymm h1 h2]

theorem hermPoly_orthogonal_lower (sq : Nat → K × K) (h : IsSqrtTable sq) (c : K) (hc : c ≠ 0)
    (Λ : K[X] →ₗ[K] K) (hIBP : ∀ f : K[X], Λ (derivative f - 2 * X * f) = 0) (n : Nat) :
    ∀ (d : Nat) (q : K[X]), q.natDegree ≤ d → d < n → Λ (hermPoly sq c n * q) = 0 := by
  intro d
  induction d with
  | zero =>
    intro q hq hn
    have hqC : q = C (q.coeff 0) := eq_C_of_natDegree_le_zero hq
    have h0 := hermPoly_orthogonal sq h c Λ hIBP n 0 (by omega)
    rw [hqC]
    have e : hermPoly sq c n * C (q.coeff 0) = (q.coeff 0 / c) • (hermPoly sq c n * hermPoly sq c 0) := by
      rw [smul_eq_C_mul]
      simp only [hermPoly]
      rw [mul_comm (hermPoly sq c n) (C c), ← mul_assoc, ← C_mul, div_mul_cancel₀ _ hc]; ring
    rw [e, map_smul, h0, smul_zero]
  | succ d ih =>
    intro q hq hn
    obtain ⟨zs, lne⟩ := hermPoly_coeffs sq h c hc (d + 1)
    set cc : K := q.coeff (d + 1) / (hermPoly sq c (d + 1)).coeff (d + 1) with hcc
    have hq' : (q - C cc * hermPoly sq c (d + 1)).natDegree ≤ d := by
      rw [natDegree_le_iff_coeff_eq_zero]
      intro N hN
      rw [coeff_sub, coeff_C_mul]
      by_cases hN1 : N = d + 1
      · subst hN1
        rw [hcc]; field_simp; ring
      · have hN2 : d + 1 < N := by omega
        rw [zs N hN2, coeff_eq_zero_of_natDegree_lt (lt_of_le_of_lt hq hN2)]
        ring
    have h1 := ih (q - C cc * hermPoly sq c (d + 1)) hq' (by omega)
    have h2 := hermPoly_orthogonal sq h c Λ hIBP n (d + 1) (by omega)
    have e : hermPoly sq c n * q
        = hermPoly sq c n * (q - C cc * hermPoly sq c (d + 1)) + cc • (hermPoly sq c n * hermPoly sq c (d + 1)) := by
      rw [smul_eq_C_mul]; ring
    rw [e, map_add, map_smul, h1, h2, smul_zero, add_zero]

theorem hermPoly_orth_degree (sq : Nat → K × K) (h : IsSqrtTable sq) (c : K) (hc : c ≠ 0)
    (Λ : K[X] →ₗ[K] K) (hIBP : ∀ f : K[X], Λ (derivative f - 2 * X * f) = 0) (n : Nat) (q : K[X])
    (hq : q.degree < (n : WithBot Nat)) : Λ (hermPoly sq c n * q) = 0 := by
  by_cases hq0 : q = 0
  · rw [hq0, mul_zero, map_zero]
  · have : q.natDegree < n := (natDegree_lt_iff_degree_lt hq0).mpr hq
    exact hermPoly_orthogonal_lower sq h c hc Λ hIBP n q.natDegree q (le_refl _) this

/-- moments of the (normalised) weight `e^{-x²}`: `μ₀ = 1`, `μ₁ = 0`, `μ_{k+2} = (k+1)/2 · μ_k` -/
def gaussMoment : Nat → K
  | 0 => 1
  | 1 => 0
  | k + 2 => (((k + 1 : Nat) : K) / 2) * gaussMoment k

noncomputable def hermFunctional : K[X] →ₗ[K] K :=
  Polynomial.lsum fun k => (gaussMoment k : K) • (LinearMap.id : K →ₗ[K] K)

theorem hermFunctional_monomial (k : Nat) (c : K) :
    hermFunctional (monomial k c) = c * gaussMoment k := by
  simp only [hermFunctional, Polynomial.lsum_apply]
  rw [Polynomial.sum_monomial_index]
  · simp only [LinearMap.smul_apply, LinearMap.id_apply, smul_eq_mul]; ring
  · simp

/-- it obeys the integration-by-parts rule of the weight `e^{-x²}` -/
theorem hermFunctional_ibp (f : K[X]) : hermFunctional (derivative f - 2 * X * f) = 0 := by
  induction f using Polynomial.induction_on' with
  | add p q hp hq =>
    have e : derivative (p + q) - 2 * X * (p + q)
        = (derivative p - 2 * X * p) + (derivative q - 2 * X * q) := by
      rw [derivative_add]; ring
    rw [e, map_add, hp, hq, add_zero]
  | monomial k c =>
    have e2 : 2 * X * monomial k c = monomial (k + 1) (2 * c) := by
      simp only [← C_mul_X_pow_eq_monomial, C_mul, C_ofNat]; ring
    cases k with
    | zero =>
      rw [e2, monomial_zero_left, derivative_C, zero_sub, map_neg, hermFunctional_monomial]
      simp [gaussMoment]
    | succ k =>
      rw [e2, derivative_monomial, Nat.add_sub_cancel, map_sub, hermFunctional_monomial, hermFunctional_monomial]
      rw [show k + 1 + 1 = k + 2 from rfl, gaussMoment]
      push_cast
      ring

end QE.C08
