/-
  Lemmas for C10, part 12: `simulate` on a chain with 2-D `state_values` (one label row per state).
-/
import QEModel.C10
import QEProofs.Lemmas.C10Search
import QEProofs.Lemmas.C10Path
namespace QE.C10
variable {α : Type}

/-- `_get_index` (2-D): the first row equal to the value -/
theorem findRow_eq_some_iff (sv : List (List Int)) (v : List Int) (i : Nat) :
    findRow sv v = some i ↔ ∃ h : i < sv.length, sv[i] = v ∧ ∀ j (hj : j < i), sv[j] ≠ v := by
  unfold findRow
  rw [List.findIdx?_eq_some_iff_getElem]
  constructor
  · rintro ⟨h, h1, h2⟩
    exact ⟨h, by simpa using h1, fun j hj => by simpa using h2 j hj⟩
  · rintro ⟨h, h1, h2⟩
    exact ⟨h, by simpa using h1, fun j hj => by simpa using h2 j hj⟩

theorem findRow_eq_none_iff (sv : List (List Int)) (v : List Int) : findRow sv v = none ↔ v ∉ sv := by
  unfold findRow
  rw [List.findIdx?_eq_none_iff]
  constructor
  · intro h hv
    have := h v hv
    simp at this
  · intro h x hx
    simp only [beq_eq_false_iff_ne, ne_eq]
    intro hxe; subst hxe; exact h hx

theorem mapM_option_eq_none_iff {β γ : Type} (f : β → Option γ) (l : List β) :
    l.mapM f = none ↔ ∃ x ∈ l, f x = none := by
  induction l with
  | nil => simp
  | cons x xs ih =>
    rw [List.mapM_cons]
    cases hx : f x with
    | none => simp [hx]
    | some y =>
      cases hxs : xs.mapM f with
      | none =>
        have := ih.mp hxs
        obtain ⟨z, hz, hfz⟩ := this
        simp only [Option.bind_eq_bind, Option.bind_some, Option.bind_none, true_iff]
        exact ⟨z, by simp [hz], hfz⟩
      | some ys =>
        simp only [Option.bind_eq_bind, Option.bind_some, Option.pure_def, reduceCtorEq, false_iff]
        rintro ⟨z, hz, hfz⟩
        rcases List.mem_cons.mp hz with rfl | hz
        · rw [hx] at hfz; cases hfz
        · have := ih.mpr ⟨z, hz, hfz⟩
          rw [hxs] at this; cases this

/-- which values are refused -/
def Init2Bad (sv : List (List Int)) : Init2 → Prop
  | .none => False
  | .bad => True
  | .row v => v ∉ sv
  | .rows l => ∃ v ∈ l, v ∉ sv

theorem getIndexSV2_error_iff (sv : List (List Int)) (init : Init2) :
    ((∃ e, getIndexSV2 sv init = .error e) ↔ Init2Bad sv init) ∧
    ∀ e, getIndexSV2 sv init = .error e → e = .valueError := by
  cases init with
  | none => simp [getIndexSV2, Init2Bad]
  | bad => simp [getIndexSV2, Init2Bad]
  | row v =>
    simp only [getIndexSV2, Init2Bad]
    cases h : findRow sv v with
    | none =>
      have := (findRow_eq_none_iff sv v).mp h
      simp [this]
    | some i =>
      have hv : v ∈ sv := by
        by_contra hc
        rw [(findRow_eq_none_iff sv v).mpr hc] at h; cases h
      simp [hv]
  | rows l =>
    simp only [getIndexSV2, Init2Bad]
    cases h : l.mapM (findRow sv) with
    | none =>
      obtain ⟨v, hv, hf⟩ := (mapM_option_eq_none_iff _ _).mp h
      have : ∃ v ∈ l, v ∉ sv := ⟨v, hv, (findRow_eq_none_iff sv v).mp hf⟩
      simp [this]
    | some is =>
      have : ¬ ∃ v ∈ l, v ∉ sv := by
        rintro ⟨v, hv, hn⟩
        have := (mapM_option_eq_none_iff (findRow sv) l).mpr ⟨v, hv, (findRow_eq_none_iff sv v).mpr hn⟩
        rw [h] at this; cases this
      simp [this]

theorem mapM_getRow_of_lt (sv : List (List Int)) (p : List Nat) (hp : ∀ s ∈ p, s < sv.length) :
    p.mapM (fun s => sv[s]?) = some (p.map fun s => sv.getD s []) := by
  induction p with
  | nil => rfl
  | cons s ss ih =>
    have hs : s < sv.length := hp s (by simp)
    rw [List.mapM_cons, ih (fun x hx => hp x (by simp [hx])), List.getElem?_eq_getElem hs]
    simp [List.getD_eq_getElem?_getD, List.getElem?_eq_getElem hs]

theorem annotate2_spec (sv : List (List Int)) (paths : List (List Nat))
    (hp : ∀ p ∈ paths, ∀ s ∈ p, s < sv.length) :
    annotate2 sv paths = some (paths.map fun p => p.map fun s => sv.getD s []) := by
  unfold annotate2
  induction paths with
  | nil => rfl
  | cons p ps ih =>
    rw [List.mapM_cons, mapM_getRow_of_lt sv p (hp p (by simp)), ih (fun q hq => hp q (by simp [hq]))]
    rfl

end QE.C10
