/-
  Lemmas for C02: the model's reachability closure `reachMat` (n rounds of `reachStep` from the
  identity) is exactly reachability in the digraph of the adjacency predicate, for every n
  (saturation by a cardinality argument); hence `recurrentB`, `classOf`, `recClasses` compute the
  recurrent (= closed communicating) classes.
-/
import QEModel.C02
import Mathlib.Data.Finset.Card
import Mathlib.Data.Finset.Range
import Mathlib.Data.Finset.Filter
import Mathlib.Logic.Relation
import Mathlib.Logic.Function.Iterate
import Mathlib.Data.List.Nodup
import Mathlib.Data.List.Range
import Mathlib.Tactic.Ring
namespace QE.C02
open Finset

/-! ### saturation of an inflationary map on the subsets of a finite set -/

theorem iterate_sub (U : Finset ℕ) (F : Finset ℕ → Finset ℕ) (hU : ∀ S, S ⊆ U → F S ⊆ U)
    (S0 : Finset ℕ) (h0 : S0 ⊆ U) : ∀ t, F^[t] S0 ⊆ U := by
  intro t
  induction t with
  | zero => simpa using h0
  | succ t ih => rw [Function.iterate_succ_apply']; exact hU _ ih

theorem saturate (U : Finset ℕ) (F : Finset ℕ → Finset ℕ)
    (hinfl : ∀ S, S ⊆ U → S ⊆ F S) (hU : ∀ S, S ⊆ U → F S ⊆ U)
    (S0 : Finset ℕ) (h0 : S0 ⊆ U) (hne : S0.Nonempty) :
    F (F^[U.card] S0) = F^[U.card] S0 := by
  have hsub := iterate_sub U F hU S0 h0
  -- either already stable before t, or at least t+1 elements
  have key : ∀ t, (∃ t', t' < t ∧ F^[t'+1] S0 = F^[t'] S0) ∨ t + 1 ≤ (F^[t] S0).card := by
    intro t
    induction t with
    | zero => right; simpa using hne.card_pos
    | succ t ih =>
      rcases ih with ⟨t', ht', h⟩ | hc
      · left; exact ⟨t', by omega, h⟩
      · by_cases hst : F^[t+1] S0 = F^[t] S0
        · left; exact ⟨t, by omega, hst⟩
        · right
          have hss : F^[t] S0 ⊂ F^[t+1] S0 := by
            refine (Finset.ssubset_iff_subset_ne).2 ⟨?_, fun h => hst h.symm⟩
            rw [Function.iterate_succ_apply']
            exact hinfl _ (hsub t)
          have := Finset.card_lt_card hss
          omega
  rcases key U.card with ⟨t', ht', h⟩ | hc
  · -- stable from t' on
    have hstab : ∀ m, F^[t' + m] S0 = F^[t'] S0 := by
      intro m
      induction m with
      | zero => rfl
      | succ m ih =>
        rw [← Nat.add_assoc, Function.iterate_succ_apply', ih, ← Function.iterate_succ_apply' F t' S0, h]
    have e : U.card = t' + (U.card - t') := by omega
    rw [e, hstab, ← Function.iterate_succ_apply' F t' S0, h]
  · have := Finset.card_le_card (hsub U.card)
    omega

/-! ### `reachMat` is reachability -/

section reach
variable (n : ℕ) (adj : ℕ → ℕ → Bool)

/-- edge of the digraph on `[0,n)` -/
def E (a b : ℕ) : Prop := a < n ∧ b < n ∧ adj a b = true

/-- reachability (reflexive-transitive closure of the edges) -/
def Rch : ℕ → ℕ → Prop := Relation.ReflTransGen (E n adj)

theorem reachStep_iff (R : M ℕ) (i j : ℕ) (hi : i < n) (hj : j < n) :
    (reachStep n adj R).get i j = 1 ↔ (R.get i j = 1 ∨ ∃ k, k < n ∧ R.get i k = 1 ∧ adj k j = true) := by
  unfold reachStep
  rw [M.get_tab _ _ _ _ _ hi hj]
  constructor
  · intro h
    split at h
    · rename_i hc
      simp only [Bool.or_eq_true, decide_eq_true_eq, List.any_eq_true, List.mem_range,
        Bool.and_eq_true] at hc
      rcases hc with hc | ⟨k, hk, h1, h2⟩
      · exact Or.inl hc
      · exact Or.inr ⟨k, hk, h1, h2⟩
    · omega
  · intro h
    rw [if_pos]
    simp only [Bool.or_eq_true, decide_eq_true_eq, List.any_eq_true, List.mem_range,
      Bool.and_eq_true]
    rcases h with h | ⟨k, hk, h1, h2⟩
    · exact Or.inl h
    · exact Or.inr ⟨k, hk, h1, h2⟩

theorem iter_eq_iterate {β : Type} (f : β → β) (t : ℕ) (b : β) : iter f t b = f^[t] b := by
  induction t generalizing b with
  | zero => rfl
  | succ t ih => rw [iter, ih, Function.iterate_succ_apply]

/-- row `i` of a 0/1 matrix as a set of states -/
def rowSet (R : M ℕ) (i : ℕ) : Finset ℕ := (range n).filter (fun j => R.get i j = 1)

open Classical in
/-- one closure round on a set of states -/
noncomputable def G (S : Finset ℕ) : Finset ℕ :=
  (range n).filter (fun j => j ∈ S ∨ ∃ k, k ∈ S ∧ adj k j = true)

theorem rowSet_step (R : M ℕ) (i : ℕ) (hi : i < n) :
    rowSet n (reachStep n adj R) i = G n adj (rowSet n R i) := by
  classical
  ext j
  simp only [rowSet, G, mem_filter, mem_range]
  constructor
  · rintro ⟨hj, h⟩
    refine ⟨hj, ?_⟩
    rcases (reachStep_iff n adj R i j hi hj).1 h with h | ⟨k, hk, h1, h2⟩
    · exact Or.inl ⟨hj, h⟩
    · exact Or.inr ⟨k, ⟨hk, h1⟩, h2⟩
  · rintro ⟨hj, h⟩
    refine ⟨hj, (reachStep_iff n adj R i j hi hj).2 ?_⟩
    rcases h with ⟨_, h⟩ | ⟨k, ⟨hk, h1⟩, h2⟩
    · exact Or.inl h
    · exact Or.inr ⟨k, hk, h1, h2⟩

theorem rowSet_iterate (R : M ℕ) (i : ℕ) (hi : i < n) (t : ℕ) :
    rowSet n ((reachStep n adj)^[t] R) i = (G n adj)^[t] (rowSet n R i) := by
  induction t with
  | zero => rfl
  | succ t ih =>
    rw [Function.iterate_succ_apply', Function.iterate_succ_apply', rowSet_step n adj _ i hi, ih]

theorem rowSet_id (i : ℕ) (hi : i < n) :
    rowSet n (M.tab n n fun a b => if a = b then 1 else 0) i = {i} := by
  ext j
  simp only [rowSet, mem_filter, mem_range, mem_singleton]
  constructor
  · rintro ⟨hj, h⟩
    rw [M.get_tab _ _ _ _ _ hi hj] at h
    by_contra hne
    rw [if_neg (fun h' => hne h'.symm)] at h
    omega
  · rintro rfl
    refine ⟨hi, ?_⟩
    rw [M.get_tab _ _ _ _ _ hi hi, if_pos rfl]

theorem G_sub (S : Finset ℕ) : G n adj S ⊆ range n := by
  classical
  intro j hj
  simp only [G, mem_filter] at hj
  exact hj.1

theorem G_infl (S : Finset ℕ) (hS : S ⊆ range n) : S ⊆ G n adj S := by
  classical
  intro j hj
  simp only [G, mem_filter]
  exact ⟨hS hj, Or.inl hj⟩

/-- **`reachMat` is reachability**, for every `n`. -/
theorem reachMat_iff (i j : ℕ) (hi : i < n) (hj : j < n) :
    (reachMat n adj).get i j = 1 ↔ Rch n adj i j := by
  classical
  unfold reachMat
  rw [iter_eq_iterate]
  have hrow : ∀ t, rowSet n ((reachStep n adj)^[t] (M.tab n n fun a b => if a = b then 1 else 0)) i
      = (G n adj)^[t] {i} := by
    intro t; rw [rowSet_iterate n adj _ i hi t, rowSet_id n i hi]
  have hmem : ∀ t j, j < n → (((reachStep n adj)^[t] (M.tab n n fun a b => if a = b then 1 else 0)).get i j = 1
      ↔ j ∈ (G n adj)^[t] {i}) := by
    intro t j hj
    rw [← hrow t]
    simp only [rowSet, mem_filter, mem_range, hj, true_and]
  rw [hmem n j hj]
  have h0 : ({i} : Finset ℕ) ⊆ range n := by
    intro x hx; rw [mem_singleton] at hx; subst hx; exact mem_range.2 hi
  constructor
  · -- soundness, for every number of rounds
    have : ∀ t j, j ∈ (G n adj)^[t] {i} → Rch n adj i j := by
      intro t
      induction t with
      | zero =>
        intro j hj
        simp only [Function.iterate_zero, id_eq, mem_singleton] at hj
        subst hj; exact Relation.ReflTransGen.refl
      | succ t ih =>
        intro j hj
        rw [Function.iterate_succ_apply'] at hj
        simp only [G, mem_filter, mem_range] at hj
        rcases hj.2 with h | ⟨k, hk, hkj⟩
        · exact ih j h
        · have hkn : k < n := mem_range.1 (iterate_sub (range n) (G n adj) (fun S _ => G_sub n adj S) {i} h0 t hk)
          exact Relation.ReflTransGen.tail (ih k hk) ⟨hkn, hj.1, hkj⟩
    exact this n j
  · -- completeness by saturation
    have hsat := saturate (range n) (G n adj) (fun S hS => G_infl n adj S hS) (fun S _ => G_sub n adj S)
      {i} h0 (singleton_nonempty i)
    rw [card_range] at hsat
    intro hr
    induction hr with
    | refl =>
      have : ∀ t, i ∈ (G n adj)^[t] {i} := by
        intro t
        induction t with
        | zero => simp
        | succ t ih =>
          rw [Function.iterate_succ_apply']
          exact G_infl n adj _ (iterate_sub (range n) (G n adj) (fun S _ => G_sub n adj S) {i} h0 t) ih
      exact this n
    | @tail a b _ hab ih =>
      rw [← hsat]
      simp only [G, mem_filter, mem_range]
      exact ⟨hab.2.1, Or.inr ⟨a, ih hab.1, hab.2.2⟩⟩

theorem Rch_lt {i j : ℕ} (h : Rch n adj i j) (hi : i < n) : j < n := by
  induction h with
  | refl => exact hi
  | tail _ hab _ => exact hab.2.1

theorem reachMat_01 (i j : ℕ) (hi : i < n) (hj : j < n) :
    (reachMat n adj).get i j = 0 ∨ (reachMat n adj).get i j = 1 := by
  unfold reachMat
  rw [iter_eq_iterate]
  obtain ⟨m, rfl⟩ : ∃ m, n = m + 1 := ⟨n - 1, by omega⟩
  rw [Function.iterate_succ_apply']
  unfold reachStep
  rw [M.get_tab _ _ _ _ _ hi hj]
  split
  · right; rfl
  · left; rfl

/-- `i` is recurrent: whatever it reaches leads back to it -/
def Recurrent (i : ℕ) : Prop := ∀ j, Rch n adj i j → Rch n adj j i

theorem recurrentB_iff (i : ℕ) (hi : i < n) :
    recurrentB n (reachMat n adj) i = true ↔ Recurrent n adj i := by
  unfold recurrentB Recurrent
  rw [List.all_eq_true]
  constructor
  · intro h j hij
    have hj := Rch_lt n adj hij hi
    have := h j (List.mem_range.2 hj)
    simp only [Bool.or_eq_true, decide_eq_true_eq] at this
    rcases this with h0 | h1
    · have := (reachMat_iff n adj i j hi hj).2 hij
      omega
    · exact (reachMat_iff n adj j i hj hi).1 h1
  · intro h j hj
    have hj := List.mem_range.1 hj
    simp only [Bool.or_eq_true, decide_eq_true_eq]
    rcases reachMat_01 n adj i j hi hj with h0 | h1
    · exact Or.inl h0
    · exact Or.inr ((reachMat_iff n adj j i hj hi).2 (h j ((reachMat_iff n adj i j hi hj).1 h1)))

theorem mem_classOf (i j : ℕ) (hi : i < n) :
    j ∈ classOf n (reachMat n adj) i ↔ (Rch n adj i j ∧ Rch n adj j i) := by
  unfold classOf
  simp only [List.mem_filter, List.mem_range, Bool.and_eq_true, decide_eq_true_eq]
  constructor
  · rintro ⟨hj, h1, h2⟩
    exact ⟨(reachMat_iff n adj i j hi hj).1 h1, (reachMat_iff n adj j i hj hi).1 h2⟩
  · rintro ⟨h1, h2⟩
    have hj := Rch_lt n adj h1 hi
    exact ⟨hj, (reachMat_iff n adj i j hi hj).2 h1, (reachMat_iff n adj j i hj hi).2 h2⟩

theorem classOf_congr (i i' : ℕ) (hi : i < n) (hi' : i' < n)
    (h1 : Rch n adj i i') (h2 : Rch n adj i' i) :
    classOf n (reachMat n adj) i = classOf n (reachMat n adj) i' := by
  have hmem : ∀ j, j ∈ classOf n (reachMat n adj) i ↔ j ∈ classOf n (reachMat n adj) i' := by
    intro j
    rw [mem_classOf n adj i j hi, mem_classOf n adj i' j hi']
    constructor
    · rintro ⟨a, b⟩; exact ⟨h2.trans a, b.trans h1⟩
    · rintro ⟨a, b⟩; exact ⟨h1.trans a, b.trans h2⟩
  unfold classOf at hmem ⊢
  apply List.filter_congr
  intro j hj
  have := hmem j
  simp only [List.mem_filter, hj, true_and] at this
  exact Bool.eq_iff_iff.2 this

theorem recurrent_of_comm (i i' : ℕ) (h1 : Rch n adj i i') (_h2 : Rch n adj i' i)
    (hr : Recurrent n adj i) : Recurrent n adj i' := by
  intro j hj
  exact (hr j (h1.trans hj)).trans h1

/-- every list in `recClasses` is the communication class of a recurrent state -/
theorem recClasses_sound (C : List ℕ) (h : C ∈ recClasses n (reachMat n adj)) :
    ∃ i, i < n ∧ Recurrent n adj i ∧ C = classOf n (reachMat n adj) i ∧ C.head? = some i ∧
      ∀ j, j ∈ C ↔ (Rch n adj i j ∧ Rch n adj j i) := by
  unfold recClasses at h
  obtain ⟨i, hi, rfl⟩ := List.mem_map.1 h
  obtain ⟨hin, hcond⟩ := List.mem_filter.1 hi
  have hin := List.mem_range.1 hin
  simp only [Bool.and_eq_true, beq_iff_eq] at hcond
  exact ⟨i, hin, (recurrentB_iff n adj i hin).1 hcond.1, rfl, hcond.2, fun j => mem_classOf n adj i j hin⟩

/-- every recurrent state lies in one of the lists of `recClasses` -/
theorem recClasses_complete (i : ℕ) (hi : i < n) (hr : Recurrent n adj i) :
    ∃ C, C ∈ recClasses n (reachMat n adj) ∧ i ∈ C := by
  have hself : i ∈ classOf n (reachMat n adj) i :=
    (mem_classOf n adj i i hi).2 ⟨Relation.ReflTransGen.refl, Relation.ReflTransGen.refl⟩
  have hne : classOf n (reachMat n adj) i ≠ [] := List.ne_nil_of_mem hself
  obtain ⟨i0, rest, hC⟩ := List.exists_cons_of_ne_nil hne
  have hi0mem : i0 ∈ classOf n (reachMat n adj) i := by rw [hC]; simp
  have hcomm := (mem_classOf n adj i i0 hi).1 hi0mem
  have hi0 : i0 < n := Rch_lt n adj hcomm.1 hi
  have hcls := classOf_congr n adj i i0 hi hi0 hcomm.1 hcomm.2
  refine ⟨classOf n (reachMat n adj) i0, ?_, by rw [← hcls]; exact hself⟩
  unfold recClasses
  refine List.mem_map.2 ⟨i0, List.mem_filter.2 ⟨List.mem_range.2 hi0, ?_⟩, rfl⟩
  simp only [Bool.and_eq_true, beq_iff_eq]
  refine ⟨(recurrentB_iff n adj i0 hi0).2 (recurrent_of_comm n adj i i0 hcomm.1 hcomm.2 hr), ?_⟩
  rw [← hcls, hC]; rfl

/-- two lists of `recClasses` sharing a state are equal -/
theorem recClasses_disjoint (C1 C2 : List ℕ) (h1 : C1 ∈ recClasses n (reachMat n adj))
    (h2 : C2 ∈ recClasses n (reachMat n adj)) (j : ℕ) (hj1 : j ∈ C1) (hj2 : j ∈ C2) : C1 = C2 := by
  obtain ⟨i1, hi1, _, rfl, _, hm1⟩ := recClasses_sound n adj C1 h1
  obtain ⟨i2, hi2, _, rfl, _, hm2⟩ := recClasses_sound n adj C2 h2
  have a := (hm1 j).1 hj1
  have b := (hm2 j).1 hj2
  exact classOf_congr n adj i1 i2 hi1 hi2 (a.1.trans b.2) (b.1.trans a.2)

theorem recClasses_nodup : (recClasses n (reachMat n adj)).Nodup := by
  unfold recClasses
  apply List.Nodup.map_on
  · intro x hx y hy hxy
    have hx2 := (List.mem_filter.1 hx).2
    have hy2 := (List.mem_filter.1 hy).2
    simp only [Bool.and_eq_true, beq_iff_eq] at hx2 hy2
    have : some x = some y := by rw [← hx2.2, ← hy2.2, hxy]
    exact Option.some.inj this
  · exact List.Nodup.filter _ List.nodup_range

/-- the lists of `recClasses` are closed: no edge leaves them -/
theorem recClasses_closed (C : List ℕ) (h : C ∈ recClasses n (reachMat n adj))
    (c j : ℕ) (hc : c ∈ C) (hcj : E n adj c j) : j ∈ C := by
  obtain ⟨i, hi, hr, rfl, _, hm⟩ := recClasses_sound n adj C h
  have a := (hm c).1 hc
  have hij : Rch n adj i j := Relation.ReflTransGen.tail a.1 hcj
  exact (hm j).2 ⟨hij, hr j hij⟩

end reach
end QE.C02
