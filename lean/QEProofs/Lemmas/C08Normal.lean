/-
  Lemmas for C08, part 7: mixed moments of the tensor rule; the tensor product of standard
  (mass 1, mean 0, variance 1) rules has mean 0 and identity second moments.
-/
import QEProofs.Lemmas.C08Product
namespace QE.C08
open Finset

set_option linter.unusedSectionVars false

variable {K : Type} [Field K] [LinearOrder K] [IsStrictOrderedRing K]

theorem prod_map_range (n : Nat) (h : Nat → K) :
    ((List.range n).map h).prod = ∏ i ∈ range n, h i := by
  induction n with
  | zero => simp
  | succ n ih =>
    rw [List.range_succ, List.map_append, List.prod_append, ih, Finset.prod_range_succ]
    simp

theorem eq_map_range_getD' {β : Type} (l : List β) (dflt : β) :
    l = (List.range l.length).map fun i => l.getD i dflt := by
  apply List.ext_getElem
  · simp
  · intro i h1 h2
    simp [List.getD_eq_getElem?_getD, h1]

/-- a product over `zipWith g l (exponents)` as a `Finset` product over positions -/
theorem prod_zipWith_range {β : Type} (l : List β) (dflt : β) (g : β → Nat → K) (e : Nat → Nat) :
    (List.zipWith g l ((List.range l.length).map e)).prod
      = ∏ j ∈ range l.length, g (l.getD j dflt) (e j) := by
  have gen : ∀ (n : Nat) (f : Nat → β),
      (List.zipWith g ((List.range n).map f) ((List.range n).map e)).prod
        = ∏ j ∈ range n, g (f j) (e j) := by
    intro n f
    rw [zipWith_map_range, prod_map_range]
  have := gen l.length (fun j => l.getD j dflt)
  rwa [← eq_map_range_getD' l dflt] at this

/-- attach the integrand `t ↦ t^e` to each one-dimensional rule -/
def withPow (rules1 : List (List K × List K)) (es : List Nat) : List (List K × List K × (K → K)) :=
  List.zipWith (fun r e => (r.1, r.2, fun t : K => t ^ e)) rules1 es

theorem withPow_nodes : ∀ (rules1 : List (List K × List K)) (es : List Nat),
    es.length = rules1.length → (withPow rules1 es).map (fun r => r.1) = rules1.map (fun r => r.1) := by
  intro rules1
  induction rules1 with
  | nil => intro es _; simp [withPow]
  | cons r rs ih =>
    intro es h
    cases es with
    | nil => simp at h
    | cons e es =>
      have := ih es (by simpa using h)
      simp only [withPow] at this ⊢
      simp [this]

theorem withPow_weights : ∀ (rules1 : List (List K × List K)) (es : List Nat),
    es.length = rules1.length → (withPow rules1 es).map (fun r => r.2.1) = rules1.map (fun r => r.2) := by
  intro rules1
  induction rules1 with
  | nil => intro es _; simp [withPow]
  | cons r rs ih =>
    intro es h
    cases es with
    | nil => simp at h
    | cons e es =>
      have := ih es (by simpa using h)
      simp only [withPow] at this ⊢
      simp [this]

theorem withPow_length (rules1 : List (List K × List K)) (es : List Nat)
    (h : es.length = rules1.length) : (withPow rules1 es).length = rules1.length := by
  simp [withPow, h]

theorem withPow_integrand : ∀ (rules1 : List (List K × List K)) (es : List Nat) (row : List K),
    (List.zipWith (fun (r : List K × List K × (K → K)) v => r.2.2 v) (withPow rules1 es) row).prod
      = (List.zipWith (fun (v : K) (p : (List K × List K) × Nat) => v ^ p.2) row (rules1.zip es)).prod := by
  intro rules1
  induction rules1 with
  | nil => intro es row; simp [withPow]
  | cons r rs ih =>
    intro es row
    cases es with
    | nil => simp [withPow]
    | cons e es =>
      cases row with
      | nil => simp [withPow]
      | cons v row =>
        have := ih es row
        simp only [withPow] at this ⊢
        simp [this]

theorem zipWith_zip_snd : ∀ (row : List K) (rules1 : List (List K × List K)) (es : List Nat),
    es.length = rules1.length →
    List.zipWith (fun (v : K) (p : (List K × List K) × Nat) => v ^ p.2) row (rules1.zip es)
      = List.zipWith (fun (v : K) e => v ^ e) row es := by
  intro row
  induction row with
  | nil => intro rules1 es _; simp
  | cons v row ih =>
    intro rules1 es h
    cases rules1 with
    | nil =>
      have : es = [] := by simpa using h
      subst this; simp
    | cons r rs =>
      cases es with
      | nil => simp at h
      | cons e es => simp [ih rs es (by simpa using h)]

theorem withPow_moments (rules1 : List (List K × List K)) (es : List Nat) :
    (withPow rules1 es).map (fun r => quadSum r.2.1 r.1 r.2.2)
      = List.zipWith (fun (r : List K × List K) e => quadSum r.2 r.1 (fun t => t ^ e)) rules1 es := by
  simp [withPow, List.map_zipWith]

/-- **Mixed moments of the tensor rule.**  With exponents `e j` for dimension `j`:
    `Σ_idx W[idx] · Π_j X[idx][j]^{e j} = Π_j (Σ_i w_j[i] x_j[i]^{e j})`. -/
theorem tensor_mixed_moments (rules1 : List (List K × List K)) (hne : rules1 ≠ [])
    (hshape : ∀ r ∈ rules1, r.2.length = r.1.length) (e : Nat → Nat) :
    quadSumRows (ckronRev (rules1.map fun r => r.2)) (gridRows (rules1.map fun r => r.1))
        (fun row => ∏ j ∈ range rules1.length, (row.getD j 0) ^ (e j))
      = ∏ j ∈ range rules1.length,
          quadSum (rules1.getD j ([], [])).2 (rules1.getD j ([], [])).1 (fun t => t ^ (e j)) := by
  set d := rules1.length with hd
  set es := (List.range d).map e with hes
  have hesl : es.length = rules1.length := by simp [hes, hd]
  have hne' : withPow rules1 es ≠ [] := by
    intro h0
    have := withPow_length rules1 es hesl
    rw [h0] at this
    simp at this
    exact hne (List.eq_nil_of_length_eq_zero this.symm)
  have hsh' : ∀ r ∈ withPow rules1 es, r.2.1.length = r.1.length := by
    intro r hr
    unfold withPow at hr
    rw [List.mem_iff_getElem] at hr
    obtain ⟨i, hi, rfl⟩ := hr
    simp only [List.getElem_zipWith]
    exact hshape _ (List.getElem_mem _)
  have main := tensor_product_sum (withPow rules1 es) hne' hsh'
  rw [withPow_nodes rules1 es hesl, withPow_weights rules1 es hesl, withPow_moments] at main
  -- right-hand side
  have hr : (List.zipWith (fun (r : List K × List K) e => quadSum r.2 r.1 (fun t => t ^ e)) rules1 es).prod
      = ∏ j ∈ range d, quadSum (rules1.getD j ([], [])).2 (rules1.getD j ([], [])).1 (fun t => t ^ (e j)) := by
    rw [hes, hd]
    exact prod_zipWith_range rules1 ([], []) (fun r e => quadSum r.2 r.1 (fun t => t ^ e)) e
  rw [hr] at main
  rw [← main]
  -- left-hand side: the two integrands agree on every row of the grid
  set xs := rules1.map fun r => r.1 with hxs
  set ws := rules1.map fun r => r.2 with hws
  have hxne : xs ≠ [] := by simp [hxs, hne]
  have hwne : ws ≠ [] := by simp [hws, hne]
  have hsh : ws.map List.length = xs.map List.length := by
    rw [hxs, hws, List.map_map, List.map_map]
    apply List.map_congr_left
    intro r hr
    exact hshape r hr
  have hlenG : (gridRows xs).length = (xs.map List.length).prod := gridRows_length xs hxne
  have hlenW : (ckronRev ws).length = (xs.map List.length).prod := by
    rw [ckronRev_length ws hwne, hsh]
  rw [quadSumRows_eq_sum _ _ (by rw [hlenG, hlenW]), quadSumRows_eq_sum _ _ (by rw [hlenG, hlenW])]
  apply Finset.sum_congr rfl
  intro idx hidx
  have hidx' : idx < (xs.map List.length).prod := by rw [← hlenW]; simpa using hidx
  obtain ⟨hv, hmr⟩ := digits_spec (xs.map List.length) idx hidx'
  have hv' : List.Forall₂ (fun i (x : List K) => i < x.length) (digits idx (xs.map List.length)) xs :=
    List.forall₂_map_right_iff.mp hv
  obtain ⟨g1, _⟩ := gridRows_index xs _ hxne hv'
  rw [hmr] at g1
  have hrow : (gridRows xs).getD idx []
      = List.zipWith (fun (x : List K) i => x.getD i 0) xs (digits idx (xs.map List.length)) := by
    rw [List.getD_eq_getElem?_getD, g1]; rfl
  have hrl : ((gridRows xs).getD idx []).length = d := by
    have hdl : (digits idx (xs.map List.length)).length = d := by
      rw [hv.length_eq]; simp [hxs, hd]
    rw [hrow, List.length_zipWith, hdl, hxs]
    simp [hd]
  congr 1
  rw [withPow_integrand, zipWith_zip_snd _ _ _ hesl, hes, ← hrl]
  exact (prod_zipWith_range _ 0 (fun v e => v ^ e) e).symm

theorem prod_pow_delta (d k : Nat) (hk : k < d) (x : Nat → K) :
    ∏ j ∈ range d, (x j) ^ (if j = k then 1 else 0) = x k := by
  have : ∀ j ∈ range d, (x j) ^ (if j = k then 1 else 0) = if j = k then x j else 1 := by
    intro j _; split <;> simp
  rw [Finset.prod_congr rfl this, Finset.prod_ite_eq' (range d) k x]
  simp [hk]

/-- **The tensor product of standard rules is standard.**  If every one-dimensional rule has
    mass 1, mean 0 and second moment 1, the tensor rule has mass 1, mean vector 0 and identity
    second-moment matrix — the hypotheses of `qnwnorm_moments`. -/
theorem tensor_standard (rules1 : List (List K × List K)) (hne : rules1 ≠ [])
    (hshape : ∀ r ∈ rules1, r.2.length = r.1.length)
    (hm : ∀ r ∈ rules1, quadSum r.2 r.1 (fun t => t ^ 0) = 1 ∧ quadSum r.2 r.1 (fun t => t ^ 1) = 0 ∧
      quadSum r.2 r.1 (fun t => t ^ 2) = 1) :
    let W := ckronRev (rules1.map fun r => r.2)
    let Z := gridRows (rules1.map fun r => r.1)
    quadSumRows W Z (fun _ => 1) = 1 ∧
    (∀ k, k < rules1.length → quadSumRows W Z (fun z => z.getD k 0) = 0) ∧
    (∀ k k', k < rules1.length → k' < rules1.length →
      quadSumRows W Z (fun z => z.getD k 0 * z.getD k' 0) = if k = k' then 1 else 0) := by
  intro W Z
  have hmem : ∀ j ∈ range rules1.length, rules1.getD j ([], []) ∈ rules1 := by
    intro j hj
    have : j < rules1.length := by simpa using hj
    simp [List.getD_eq_getElem?_getD, this]
  refine ⟨?_, ?_, ?_⟩
  · have := tensor_mixed_moments rules1 hne hshape (fun _ => 0)
    simp only [pow_zero, Finset.prod_const_one] at this
    rw [this]
    apply Finset.prod_eq_one
    intro j hj
    have := (hm _ (hmem j hj)).1
    simpa using this
  · intro k hk
    have := tensor_mixed_moments rules1 hne hshape (fun j => if j = k then 1 else 0)
    have hf : (fun row : List K => ∏ j ∈ range rules1.length, (row.getD j 0) ^ (if j = k then 1 else 0))
        = fun z => z.getD k 0 := by
      funext row
      exact prod_pow_delta rules1.length k hk (fun j => row.getD j 0)
    rw [hf] at this
    rw [this]
    apply Finset.prod_eq_zero (Finset.mem_range.mpr hk)
    simp only [if_true]
    exact (hm _ (hmem k (Finset.mem_range.mpr hk))).2.1
  · intro k k' hk hk'
    have := tensor_mixed_moments rules1 hne hshape
      (fun j => (if j = k then 1 else 0) + (if j = k' then 1 else 0))
    have hf : (fun row : List K => ∏ j ∈ range rules1.length,
          (row.getD j 0) ^ ((if j = k then 1 else 0) + (if j = k' then 1 else 0)))
        = fun z => z.getD k 0 * z.getD k' 0 := by
      funext row
      simp only [pow_add, Finset.prod_mul_distrib]
      rw [prod_pow_delta rules1.length k hk (fun j => row.getD j 0),
        prod_pow_delta rules1.length k' hk' (fun j => row.getD j 0)]
    rw [hf] at this
    rw [this]
    by_cases hkk : k = k'
    · subst hkk
      rw [if_pos rfl]
      apply Finset.prod_eq_one
      intro j hj
      by_cases hjk : j = k
      · subst hjk
        simp only [if_true]
        exact (hm _ (hmem j hj)).2.2
      · simp only [if_neg hjk, Nat.add_zero]
        exact (hm _ (hmem j hj)).1
    · rw [if_neg hkk]
      apply Finset.prod_eq_zero (Finset.mem_range.mpr hk)
      have : ¬ (k = k') := hkk
      simp only [if_true, if_neg this, Nat.add_zero]
      exact (hm _ (hmem k (Finset.mem_range.mpr hk))).2.1

/-- every row of the grid has one entry per array -/
theorem gridRows_row_length (xs : List (List K)) (hne : xs ≠ []) :
    ∀ z ∈ gridRows xs, z.length = xs.length := by
  intro z hz
  rw [List.mem_iff_getElem] at hz
  obtain ⟨idx, hidx, rfl⟩ := hz
  have hidx' : idx < (xs.map List.length).prod := by rw [← gridRows_length xs hne]; exact hidx
  obtain ⟨hv, hmr⟩ := digits_spec (xs.map List.length) idx hidx'
  have hv' : List.Forall₂ (fun i (x : List K) => i < x.length) (digits idx (xs.map List.length)) xs :=
    List.forall₂_map_right_iff.mp hv
  obtain ⟨g1, _⟩ := gridRows_index xs _ hne hv'
  rw [hmr, List.getElem?_eq_getElem hidx] at g1
  rw [Option.some.inj g1, List.length_zipWith, hv'.length_eq]
  simp

end QE.C08
