/-
  Lemmas for C13, part 3: `_fill_tauchen` — telescoping of the rows, non-negativity.
-/
import Mathlib.Algebra.BigOperators.Group.Finset.Basic
import Mathlib.Algebra.Order.Field.Basic
import Mathlib.Order.Monotone.Basic
import Mathlib.Tactic.Ring
import Mathlib.Tactic.FieldSimp
import Mathlib.Tactic.Linarith
import QEProofs.Lemmas.C13Grid
namespace QE.C13
open QE Finset

section
variable {K : Type} [Field K] [LinearOrder K] [IsStrictOrderedRing K]

/-- on an evenly spaced grid (`x[j+1] = x[j] + 2h`) the lower boundary of cell `j+1` is the upper
    boundary of cell `j` -/
theorem tauArgLo_succ (x : List K) (rho sigma h : K) (i j : ℕ)
    (hx : x.getD (j + 1) 0 = x.getD j 0 + 2 * h) :
    tauArgLo x rho sigma h i (j + 1) = tauArgUp x rho sigma h i j := by
  unfold tauArgLo tauArgUp; rw [hx]; ring_nf

/-- partial row sums telescope: `Σ_{j ≤ k} P[i,j] = Φ(upper boundary of cell k)` while `k` is not
    the last column -/
theorem tauchen_partial_sum (Φ : K → K) (x : List K) (n : ℕ) (rho sigma h : K) (i : ℕ)
    (hx : ∀ j, j + 1 < n → x.getD (j + 1) 0 = x.getD j 0 + 2 * h) (k : ℕ) (hk : k + 1 < n) :
    ∑ j ∈ range (k + 1), tauchenEntry Φ x n rho sigma h i j = Φ (tauArgUp x rho sigma h i k) := by
  induction k with
  | zero =>
    rw [sum_range_one]
    unfold tauchenEntry
    rw [if_neg (by omega), if_pos rfl]
  | succ k ih =>
    rw [sum_range_succ, ih (by omega)]
    unfold tauchenEntry
    rw [if_neg (by omega), if_neg (by omega), tauArgLo_succ x rho sigma h i k (hx k (by omega))]
    ring

/-- **Rows of `_fill_tauchen` sum to exactly one**, for any function `Φ` whatsoever, any `n ≥ 2`,
    on an evenly spaced grid with half step `h`. -/
theorem tauchen_row_sum (Φ : K → K) (x : List K) (n : ℕ) (hn : 2 ≤ n) (rho sigma h : K) (i : ℕ)
    (hx : ∀ j, j + 1 < n → x.getD (j + 1) 0 = x.getD j 0 + 2 * h) :
    ∑ j ∈ range n, tauchenEntry Φ x n rho sigma h i j = 1 := by
  obtain ⟨m, rfl⟩ : ∃ m, n = m + 2 := ⟨n - 2, by omega⟩
  rw [sum_range_succ, tauchen_partial_sum Φ x (m + 2) rho sigma h i hx m (by omega)]
  unfold tauchenEntry
  rw [if_pos rfl, tauArgLo_succ x rho sigma h i m (hx m (by omega))]
  ring

/-- **Entries are non-negative** when `Φ` is non-decreasing with values in `[0,1]`, `h ≥ 0`, `σ > 0`. -/
theorem tauchen_entry_nonneg (Φ : K → K) (hmono : Monotone Φ) (h0 : ∀ z, 0 ≤ Φ z) (h1 : ∀ z, Φ z ≤ 1)
    (x : List K) (n : ℕ) (rho sigma h : K) (hh : 0 ≤ h) (hs : 0 < sigma) (i j : ℕ) :
    0 ≤ tauchenEntry Φ x n rho sigma h i j := by
  unfold tauchenEntry
  split_ifs
  · linarith [h1 (tauArgLo x rho sigma h i j)]
  · exact h0 _
  · have : tauArgLo x rho sigma h i j ≤ tauArgUp x rho sigma h i j := by
      unfold tauArgLo tauArgUp
      apply div_le_div_of_nonneg_right _ hs.le
      linarith
    linarith [hmono this]

/-- `std_norm_cdf` built from an antitone `erfc` with values in `[0,2]` and a positive `sqrt(2)`
    is non-decreasing with values in `[0,1]` -/
theorem stdNormCdf_props (erfc : K → K) (s2 : K) (hs2 : 0 < s2) (hanti : Antitone erfc)
    (e0 : ∀ z, 0 ≤ erfc z) (e2 : ∀ z, erfc z ≤ 2) :
    Monotone (stdNormCdf erfc s2) ∧ (∀ z, 0 ≤ stdNormCdf erfc s2 z) ∧ (∀ z, stdNormCdf erfc s2 z ≤ 1) := by
  have h12 : ((1 : K) / (1 + 1)) = 1 / 2 := by norm_num
  refine ⟨?_, ?_, ?_⟩
  · intro a b hab
    unfold stdNormCdf
    have : -b / s2 ≤ -a / s2 := by
      apply div_le_div_of_nonneg_right _ hs2.le; linarith
    have := hanti this
    rw [h12]; linarith
  · intro z; unfold stdNormCdf; rw [h12]; linarith [e0 (-z / s2)]
  · intro z; unfold stdNormCdf; rw [h12]; linarith [e2 (-z / s2)]

/-- the demeaned Tauchen grid is evenly spaced with spacing twice the half step -/
theorem tauchenX_spacing (sqrt : K → K) (n : ℕ) (hn : 2 ≤ n) (rho sigma : K) (nstd : ℕ) (j : ℕ)
    (hj : j + 1 < n) :
    (tauchenX sqrt n rho sigma nstd).1.getD (j + 1) 0
      = (tauchenX sqrt n rho sigma nstd).1.getD j 0 + 2 * (tauchenX sqrt n rho sigma nstd).2 := by
  have hc : (((n - 1 : ℕ)) : K) = (n : K) - 1 := by
    rw [Nat.cast_sub (by omega)]; simp
  have hne : (n : K) - 1 ≠ 0 := by
    have : (2 : K) ≤ (n : K) := by exact_mod_cast hn
    intro h0; linarith
  unfold tauchenX
  simp only []
  rw [linspace_getD _ _ n hn (j + 1) hj, linspace_getD _ _ n hn j (by omega), hc]
  push_cast
  field_simp
  ring

end
end QE.C13
