/-
  Lemmas for C01, part 8: the linear system posed by `evaluate_policy`.  A solution of
  `(I − βQ_σ) x = R_σ` (rows of `policyMatrix`, read with `dot`) is a fixed point of `T_σ`.
-/
import QEProofs.Lemmas.C01Mpi

set_option linter.unusedSectionVars false

namespace QE.C01
open List

variable {K : Type} [Field K] [LinearOrder K] [IsStrictOrderedRing K]

/-- `dot` as an indexed sum, for two lists of the same length `n` -/
theorem dot_eq_sum : ∀ (n : ℕ) (q x : List K), q.length = n → x.length = n →
    dot q x = ((range n).map fun j => q.getD j 0 * x.getD j 0).sum := by
  intro n
  induction n with
  | zero =>
    intro q x hq hx
    rw [length_eq_zero_iff.mp hq]; simp [dot]
  | succ n ih =>
    intro q x hq hx
    cases q with
    | nil => simp at hq
    | cons a q =>
      cases x with
      | nil => simp at hx
      | cons b x =>
        simp only [length_cons, Nat.add_right_cancel_iff] at hq hx
        rw [range_succ_eq_map]
        simp only [dot, map_cons, sum_cons, map_map, getD_cons_zero]
        rw [ih q x hq hx]
        congr 1

theorem sum_map_sub' (n : ℕ) (f g : ℕ → K) :
    ((range n).map fun j => f j - g j).sum = ((range n).map f).sum - ((range n).map g).sum := by
  induction n with
  | zero => simp
  | succ n ih => simp only [range_succ, map_append, sum_append, map_cons, map_nil, sum_cons, sum_nil, ih]; ring

theorem sum_map_mul_left' (n : ℕ) (c : K) (f : ℕ → K) :
    ((range n).map fun j => c * f j).sum = c * ((range n).map f).sum := by
  induction n with
  | zero => simp
  | succ n ih => simp only [range_succ, map_append, sum_append, map_cons, map_nil, sum_cons, sum_nil, ih]; ring

theorem sum_delta (n i : ℕ) (hi : i < n) (g : ℕ → K) :
    ((range n).map fun j => (if i = j then (1 : K) else 0) * g j).sum = g i := by
  induction n with
  | zero => omega
  | succ n ih =>
    simp only [range_succ, map_append, sum_append, map_cons, map_nil, sum_cons, sum_nil, add_zero]
    by_cases h : i = n
    · subst h
      have : ((range i).map fun j => (if i = j then (1 : K) else 0) * g j).sum = 0 := by
        apply List.sum_eq_zero
        intro y hy
        obtain ⟨j, hj, rfl⟩ := mem_map.mp hy
        have : i ≠ j := by have := mem_range.mp hj; omega
        simp [this]
      rw [this]; simp
    · rw [ih (by omega)]
      simp [h]

/-- row `i` of `I − βQ_σ` applied to `x` is `x_i − β q_i·x` -/
theorem policyRow_dot (β : K) (q x : List K) (n i : ℕ) (hi : i < n) (hq : q.length = n)
    (hx : x.length = n) :
    dot ((range n).map fun j => (if i = j then (1 : K) else 0) - β * q.getD j 0) x
      = x.getD i 0 - β * dot q x := by
  rw [dot_eq_sum n _ x (by simp) hx, dot_eq_sum n q x hq hx]
  have : ((range n).map fun j => (((range n).map fun j => (if i = j then (1 : K) else 0) - β * q.getD j 0).getD j 0) * x.getD j 0)
      = (range n).map fun j => (if i = j then (1 : K) else 0) * x.getD j 0 - β * (q.getD j 0 * x.getD j 0) := by
    apply map_congr_left
    intro j hj
    have hj' := mem_range.mp hj
    rw [← getElem_eq_getD (h := by simpa using hj') 0]
    simp only [getElem_map, getElem_range]
    ring
  rw [this, sum_map_sub', sum_delta n i hi, sum_map_mul_left']

/-- a solution of the linear system posed by `evaluate_policy` is the fixed point of `T_σ` -/
theorem tSigma_fixed_of_system {P : Prob K} (hP : WF P) {β : K} {σ : List ℕ} (hf : Feasible P σ)
    {x : List K} (hlen : x.length = P.length)
    (hsol : Forall₂ (fun row b => dot row x = b) (policyMatrix β (polActs P σ))
      ((polActs P σ).map fun y => y.r)) :
    tSigma P β σ x = x := by
  have hσl : σ.length = P.length := (Forall₂.length_eq hf).symm
  have hal : (polActs P σ).length = P.length := by simp [polActs, hσl]
  have hst := polActs_stoch hP hf
  apply ext_getElem (by rw [tSigma_length, hσl, hlen]; simp)
  intro i h1 h2
  have hi : i < P.length := by rw [← hlen]; exact h2
  have hia : i < (polActs P σ).length := by rw [hal]; exact hi
  rw [forall₂_iff_get] at hsol
  have hrow := hsol.2 i (by simp [policyMatrix, hal, hi]) (by simp [hal, hi])
  simp only [get_eq_getElem, policyMatrix, getElem_map, getElem_range] at hrow
  have hget : (polActs P σ).getD i dfltAct = (polActs P σ)[i] := (getElem_eq_getD dfltAct).symm
  simp only [hget] at hrow
  have hq := hst _ (getElem_mem hia)
  rw [policyRow_dot β _ x (polActs P σ).length i hia (by rw [hal]; exact hq.2.2)
    (by rw [hal]; exact hlen)] at hrow
  simp only [tSigma, getElem_map, qval]
  have hx : x.getD i 0 = x[i] := (getElem_eq_getD 0).symm
  rw [hx] at hrow
  linarith

end QE.C01
