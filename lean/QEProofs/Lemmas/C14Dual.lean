/-
  Lemmas for C14, part 9: weak duality for a matrix game given as functions on index ranges
  (used for the certificate form of mixed-strategy domination).
-/
import Mathlib.Algebra.BigOperators.Ring.Finset
import Mathlib.Algebra.Order.BigOperators.Ring.Finset
import Mathlib.Algebra.Order.Field.Basic
import Mathlib.Tactic.Linarith
import QEModel.C14
namespace QE.C14

open Finset

variable {K : Type} [Field K] [LinearOrder K] [IsStrictOrderedRing K]

omit [LinearOrder K] [IsStrictOrderedRing K] in
theorem foldl_eq_finset_sum (n : Nat) (h : Nat → K) :
    (List.range n).foldl (fun acc b => acc + h b) 0 = ∑ b ∈ range n, h b := by
  induction n with
  | zero => simp
  | succ n ih => simp [List.range_succ, List.foldl_append, ih, Finset.sum_range_succ]

/-- if the column player's mix `y` concedes at most `v` against every row, then no row mix `x'`
    gets more than `v` against every column -/
theorem weak_duality (m n : Nat) (D : Nat → Nat → K) (y x' : Nat → K) (v : K)
    (hy0 : ∀ j, j < n → 0 ≤ y j) (hy1 : ∑ j ∈ range n, y j = 1)
    (hrow : ∀ i, i < m → ∑ j ∈ range n, D i j * y j ≤ v)
    (hx0 : ∀ k, k < m → 0 ≤ x' k) (hx1 : ∑ k ∈ range m, x' k = 1) :
    ∃ j, j < n ∧ ∑ k ∈ range m, x' k * D k j ≤ v := by
  by_contra hcon
  push Not at hcon
  have key : ∑ j ∈ range n, y j * ∑ k ∈ range m, x' k * D k j
      = ∑ k ∈ range m, x' k * ∑ j ∈ range n, D k j * y j := by
    simp only [Finset.mul_sum]
    rw [Finset.sum_comm]
    apply Finset.sum_congr rfl
    intro k _
    apply Finset.sum_congr rfl
    intro j _
    ring
  have hle : ∑ k ∈ range m, x' k * ∑ j ∈ range n, D k j * y j ≤ v := by
    calc ∑ k ∈ range m, x' k * ∑ j ∈ range n, D k j * y j
        ≤ ∑ k ∈ range m, x' k * v := by
          apply Finset.sum_le_sum
          intro k hk
          exact mul_le_mul_of_nonneg_left (hrow k (mem_range.mp hk)) (hx0 k (mem_range.mp hk))
      _ = v := by rw [← Finset.sum_mul, hx1, one_mul]
  have hpos : ∃ j ∈ range n, 0 < y j := by
    by_contra hno
    push Not at hno
    have : ∑ j ∈ range n, y j = 0 := by
      apply Finset.sum_eq_zero
      intro j hj
      exact le_antisymm (hno j hj) (hy0 j (mem_range.mp hj))
    rw [this] at hy1
    exact zero_ne_one hy1
  have hlt : ∑ j ∈ range n, y j * v < ∑ j ∈ range n, y j * ∑ k ∈ range m, x' k * D k j := by
    apply Finset.sum_lt_sum
    · intro j hj
      exact mul_le_mul_of_nonneg_left (le_of_lt (hcon j (mem_range.mp hj))) (hy0 j (mem_range.mp hj))
    · obtain ⟨j, hj, hyj⟩ := hpos
      exact ⟨j, hj, mul_lt_mul_of_pos_left (hcon j (mem_range.mp hj)) hyj⟩
  rw [← Finset.sum_mul, hy1, one_mul, key] at hlt
  exact absurd hle (not_le.mpr hlt)

end QE.C14
