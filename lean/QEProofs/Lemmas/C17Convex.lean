/-
  Lemmas for C17: Newton's method on a convex increasing function, started to the right of the
  root — the textbook basin in which the iteration is monotone. Ordered field, no analysis:
  convexity is the tangent-line inequality for the supplied derivative.
-/
import QEProofs.Lemmas.C17Basic
namespace QE.C17
set_option linter.unusedSectionVars false

section
variable {K : Type} [Field K] [LinearOrder K] [IsStrictOrderedRing K]

/-- `fp` is a positive derivative of the convex function `f` on `[r, ∞)` and `r` is a root:
    every tangent line lies below the graph. -/
structure ConvexRight (f fp : K → K) (r : K) : Prop where
  root : f r = 0
  tangent : ∀ x y, r ≤ x → r ≤ y → f x + fp x * (y - x) ≤ f y
  pos : ∀ x, r ≤ x → 0 < fp x

theorem ConvexRight.step {f fp : K → K} {r : K} (h : ConvexRight f fp r) (p0 : K) (hp : r ≤ p0) :
    0 ≤ f p0 ∧ r ≤ p0 - f p0 / fp p0 ∧ p0 - f p0 / fp p0 ≤ p0 ∧
    f p0 = fp p0 * (p0 - (p0 - f p0 / fp p0)) := by
  have hpos := h.pos p0 hp
  have h1 := h.tangent r p0 (le_refl _) hp
  rw [h.root] at h1
  have hf0 : 0 ≤ f p0 := by
    have := mul_nonneg (h.pos r (le_refl _)).le (sub_nonneg.mpr hp); linarith
  have h2 := h.tangent p0 r hp (le_refl _)
  rw [h.root] at h2
  have hdiv : f p0 / fp p0 ≤ p0 - r := by
    rw [div_le_iff₀ hpos]; nlinarith
  have hq : 0 ≤ f p0 / fp p0 := div_nonneg hf0 hpos.le
  refine ⟨hf0, by linarith, by linarith, ?_⟩
  have : p0 - (p0 - f p0 / fp p0) = f p0 / fp p0 := by ring
  rw [this, mul_div_cancel₀ _ (ne_of_gt hpos)]

/-- **Newton in the monotone basin.** From any `p0 ∈ [r, X]` every iterate stays in `[r, X]`; the
    loop can fail only by running out of passes; a converged exit is an exact zero or the last
    Newton step `q → root` with `r ≤ root ≤ q ≤ X`, `q − root < tol` and the a-posteriori bound
    `(root − r)·f'(r) ≤ (f'(q) − f'(root))·(q − root)`. -/
theorem newtonLoop_convex (f fp : K → K) (r X tol : K) (h : ConvexRight f fp r) :
    ∀ (fuel itr : Nat) (p0 : K) (calls : Nat), r ≤ p0 → p0 ≤ X →
      r ≤ (newtonLoop f fp tol fuel itr p0 calls).root ∧
      (newtonLoop f fp tol fuel itr p0 calls).root ≤ X ∧
      ((newtonLoop f fp tol fuel itr p0 calls).conv = false →
        (newtonLoop f fp tol fuel itr p0 calls).iters = itr + fuel) ∧
      ((newtonLoop f fp tol fuel itr p0 calls).conv = true →
        f (newtonLoop f fp tol fuel itr p0 calls).root = 0 ∨
        ∃ q, (newtonLoop f fp tol fuel itr p0 calls).root ≤ q ∧ q ≤ X ∧
          q - (newtonLoop f fp tol fuel itr p0 calls).root < tol ∧
          (newtonLoop f fp tol fuel itr p0 calls).root = q - f q / fp q ∧
          ((newtonLoop f fp tol fuel itr p0 calls).root - r) * fp r
            ≤ (fp q - fp (newtonLoop f fp tol fuel itr p0 calls).root) * (q - (newtonLoop f fp tol fuel itr p0 calls).root)) := by
  intro fuel
  induction fuel with
  | zero => intro itr p0 calls h1 h2; simp [newtonLoop, h1, h2]
  | succ fuel ih =>
    intro itr p0 calls h1 h2
    unfold newtonLoop
    by_cases h0 : f p0 = 0
    · simp [h0, h1, h2]
    · have hfp : fp p0 ≠ 0 := ne_of_gt (h.pos p0 h1)
      obtain ⟨s1, s2, s3, s4⟩ := h.step p0 h1
      by_cases hc : absv (p0 - f p0 / fp p0 - p0) < tol
      · simp only [beq_iff_eq, h0, hfp, hc, if_false, if_true]
        refine ⟨s2, le_trans s3 h2, by simp, fun _ => Or.inr ⟨p0, s3, h2, ?_, rfl, ?_⟩⟩
        · rw [absv_eq_abs, abs_sub_comm, abs_of_nonneg (by linarith)] at hc; exact hc
        · have t1 := h.tangent r (p0 - f p0 / fp p0) (le_refl _) s2
          rw [h.root] at t1
          have t2 := h.tangent (p0 - f p0 / fp p0) p0 s2 h1
          generalize p0 - f p0 / fp p0 = P at s4 t1 t2 ⊢
          linarith
      · simp only [beq_iff_eq, h0, hfp, hc, if_false]
        have := ih (itr + 1) (p0 - f p0 / fp p0) (calls + 2) s2 (le_trans s3 h2)
        obtain ⟨a1, a2, a3, a4⟩ := this
        exact ⟨a1, a2, fun hf => by have := a3 hf; omega, a4⟩

/-- **Newton terminates in the monotone basin.** Every pass that does not stop moves the iterate down by
    at least `tol` while it stays `≥ r`; so if `p0 − r < N·tol` and `N` passes are available, the loop
    stops converged within `N` passes. -/
theorem newtonLoop_convex_terminates (f fp : K → K) (r tol : K) (h : ConvexRight f fp r) :
    ∀ (N fuel itr : Nat) (p0 : K) (calls : Nat), r ≤ p0 → p0 - r < N * tol → N ≤ fuel →
      (newtonLoop f fp tol fuel itr p0 calls).conv = true ∧
      (newtonLoop f fp tol fuel itr p0 calls).iters ≤ itr + N := by
  intro N
  induction N with
  | zero => intro fuel itr p0 calls h1 h2 _; simp at h2; linarith
  | succ N ih =>
    intro fuel itr p0 calls h1 h2 h3
    cases fuel with
    | zero => omega
    | succ fuel =>
      unfold newtonLoop
      by_cases h0 : f p0 = 0
      · simp [h0]
      · have hfp : fp p0 ≠ 0 := ne_of_gt (h.pos p0 h1)
        obtain ⟨_, s2, s3, _⟩ := h.step p0 h1
        by_cases hc : absv (p0 - f p0 / fp p0 - p0) < tol
        · simp only [beq_iff_eq, h0, hfp, hc, if_false, if_true]
          exact ⟨trivial, by omega⟩
        · simp only [beq_iff_eq, h0, hfp, hc, if_false]
          rw [absv_eq_abs, abs_sub_comm, abs_of_nonneg (by linarith)] at hc
          have hstep : tol ≤ p0 - (p0 - f p0 / fp p0) := not_lt.mp hc
          have hN : (p0 - f p0 / fp p0) - r < N * tol := by
            push_cast at h2; linarith
          have := ih fuel (itr + 1) (p0 - f p0 / fp p0) (calls + 2) s2 hN (by omega)
          exact ⟨this.1, by have := this.2; omega⟩

end
end QE.C17
