/-
  Lemmas for C14, part 6: `max`, best responses, domination tests against their definitions
  (over a linearly ordered field).
-/
import Mathlib.Algebra.Order.Field.Basic
import Mathlib.Tactic.Linarith
import QEProofs.Lemmas.C14Index
namespace QE.C14

section lin
variable {K : Type} [LinearOrder K]

theorem foldl_max_spec : ∀ (l : List K) (m : K),
    (l.foldl (fun m x => if m < x then x else m) m = m ∨
      l.foldl (fun m x => if m < x then x else m) m ∈ l) ∧
    m ≤ l.foldl (fun m x => if m < x then x else m) m ∧
    ∀ x ∈ l, x ≤ l.foldl (fun m x => if m < x then x else m) m
  | [], m => by simp
  | y :: l, m => by
    simp only [List.foldl_cons]
    obtain ⟨h1, h2, h3⟩ := foldl_max_spec l (if m < y then y else m)
    have hm : m ≤ (if m < y then y else m) := by split <;> [exact le_of_lt ‹_›; exact le_refl _]
    have hy : y ≤ (if m < y then y else m) := by
      split
      · exact le_refl _
      · exact not_lt.mp ‹_›
    refine ⟨?_, le_trans hm h2, ?_⟩
    · rcases h1 with h1 | h1
      · rw [h1]
        by_cases h : m < y
        · simp [h]
        · simp [h]
      · exact Or.inr (List.mem_cons_of_mem _ h1)
    · intro x hx
      rcases List.mem_cons.mp hx with rfl | hx
      · exact le_trans hy h2
      · exact h3 x hx

/-- `ndarray.max()`: an element of the vector that bounds all the others -/
theorem maxList_spec [Zero K] (v : List K) (h : v ≠ []) :
    maxList v ∈ v ∧ ∀ x ∈ v, x ≤ maxList v := by
  cases v with
  | nil => exact absurd rfl h
  | cons y l =>
    obtain ⟨h1, h2, h3⟩ := foldl_max_spec (y :: l) y
    unfold maxList
    simp only [List.headD_cons]
    refine ⟨?_, h3⟩
    rcases h1 with h1 | h1
    · rw [h1]; exact List.mem_cons_self
    · exact h1

end lin

section field
variable {K : Type} [Field K] [LinearOrder K] [IsStrictOrderedRing K]

theorem getD_mem (v : List K) (b : Nat) (hb : b < v.length) : v.getD b 0 ∈ v := by
  rw [List.getD_eq_getElem?_getD, List.getElem?_eq_getElem hb]
  exact List.getElem_mem hb

theorem max_sub_le_iff (v : List K) (tol y : K) (h : v ≠ []) :
    maxList v - tol ≤ y ↔ ∀ b, b < v.length → v.getD b 0 - tol ≤ y := by
  obtain ⟨hm, hle⟩ := maxList_spec v h
  constructor
  · intro hy b hb
    have := hle _ (getD_mem v b hb)
    linarith
  · intro hall
    obtain ⟨b, hb, e⟩ := List.mem_iff_getElem.mp hm
    have := hall b hb
    rw [List.getD_eq_getElem?_getD, List.getElem?_eq_getElem hb] at this
    simp only [Option.getD_some] at this
    rw [← e]; exact this

end field
end QE.C14
