/-
  Lemmas for C01, part 2: the Bellman operator `bellman` and the policy operator `tSigma`
  of `QEModel.C01` are monotone, sub-homogeneous under shifts, hence β-contractions in the
  sup norm; the greedy policy attains the maximum.
-/
import QEProofs.Lemmas.C01Basic

set_option linter.unusedSectionVars false

namespace QE.C01
open List

variable {K : Type} [Field K] [LinearOrder K] [IsStrictOrderedRing K]

/-! ### well-formed problems (what the constructor of `DiscreteDP` is given) -/

/-- a non-negative transition row with total mass at most 1 -/
def SubStoch (x : Act K) : Prop := (∀ e ∈ x.q, 0 ≤ e) ∧ x.q.sum ≤ 1

/-- a probability vector over the `n` states -/
def Stoch (n : ℕ) (x : Act K) : Prop := (∀ e ∈ x.q, 0 ≤ e) ∧ x.q.sum = 1 ∧ x.q.length = n

theorem Stoch.sub {n : ℕ} {x : Act K} (h : Stoch n x) : SubStoch x := ⟨h.1, le_of_eq h.2.1⟩

/-- a well-formed discrete DP: every state has a feasible action, the action labels of a
    state are distinct, every transition row is a probability vector over the states -/
structure WF (P : Prob K) : Prop where
  nonempty : ∀ acts ∈ P, acts ≠ []
  nodup : ∀ acts ∈ P, (acts.map fun x => x.a).Nodup
  stoch : ∀ acts ∈ P, ∀ x ∈ acts, Stoch P.length x

/-- `σ` picks a feasible action in every state -/
def Feasible (P : Prob K) (σ : List ℕ) : Prop :=
  Forall₂ (fun acts a => ∃ x ∈ acts, x.a = a) P σ

theorem subStoch_dflt : SubStoch (dfltAct : Act K) := by
  constructor
  · intro e he; simp [dfltAct] at he
  · simp [dfltAct]

/-! ### one action -/

theorem qval_leAdd {β c : K} (hβ : 0 ≤ β) (hc : 0 ≤ c) {x : Act K} (hx : SubStoch x)
    {v w : List K} (h : LeAdd c v w) : qval β v x ≤ qval β w x + β * c := by
  unfold qval
  have h1 := dot_leAdd hc h x.q hx.1
  have h2 : c * x.q.sum ≤ c := by
    have := mul_le_mul_of_nonneg_left hx.2 hc
    simpa using this
  have h3 : β * dot x.q v ≤ β * (dot x.q w + c) := mul_le_mul_of_nonneg_left (by linarith) hβ
  linarith

/-! ### the Bellman operator -/

@[simp] theorem bellman_length (P : Prob K) (β : K) (v : List K) :
    (bellman P β v).length = P.length := by simp [bellman]

@[simp] theorem greedy_length (P : Prob K) (β : K) (v : List K) :
    (greedy P β v).length = P.length := by simp [greedy]

theorem bestAct_mem {β : K} {v : List K} {acts : List (Act K)} (h : acts ≠ []) :
    bestAct β v acts ∈ acts := by
  cases acts with
  | nil => exact absurd rfl h
  | cons x xs => exact scanMax_mem _ xs x

theorem bestAct_ge {β : K} {v : List K} {acts : List (Act K)} :
    ∀ y ∈ acts, qval β v y ≤ qval β v (bestAct β v acts) := by
  cases acts with
  | nil => intro y hy; simp at hy
  | cons x xs => exact scanMax_ge _ xs x

theorem bestAct_leAdd {β c : K} (hβ : 0 ≤ β) (hc : 0 ≤ c) {v w : List K} (h : LeAdd c v w)
    (acts : List (Act K)) (hs : ∀ x ∈ acts, SubStoch x) :
    qval β v (bestAct β v acts) ≤ qval β w (bestAct β w acts) + β * c := by
  cases acts with
  | nil => exact qval_leAdd hβ hc subStoch_dflt h
  | cons x xs =>
    exact scanMax_leAdd _ _ _ x xs fun y hy => qval_leAdd hβ hc (hs y hy) h

/-- **monotone and sub-homogeneous**: `v ≤ w + c` entrywise ⇒ `T v ≤ T w + β c` -/
theorem bellman_leAdd {P : Prob K} (hs : ∀ acts ∈ P, ∀ x ∈ acts, SubStoch x) {β c : K}
    (hβ : 0 ≤ β) (hc : 0 ≤ c) {v w : List K} (h : LeAdd c v w) :
    LeAdd (β * c) (bellman P β v) (bellman P β w) := by
  unfold LeAdd bellman
  rw [forall₂_map_left_iff, forall₂_map_right_iff, forall₂_same]
  intro acts hacts
  exact bestAct_leAdd hβ hc h acts (hs acts hacts)

theorem bellman_close {P : Prob K} (hs : ∀ acts ∈ P, ∀ x ∈ acts, SubStoch x) {β c : K}
    (hβ : 0 ≤ β) (hc : 0 ≤ c) {v w : List K} (h : Close c v w) :
    Close (β * c) (bellman P β v) (bellman P β w) := by
  rw [close_iff] at *
  exact ⟨bellman_leAdd hs hβ hc h.1, bellman_leAdd hs hβ hc h.2⟩

/-- the executed sup-distance contracts by β -/
theorem bellman_supDist {P : Prob K} (hs : ∀ acts ∈ P, ∀ x ∈ acts, SubStoch x) {β : K}
    (hβ : 0 ≤ β) {v w : List K} (h : v.length = w.length) :
    supDist (bellman P β v) (bellman P β w) ≤ β * supDist v w := by
  refine (supDist_le_iff (by simp) _).mpr ⟨mul_nonneg hβ (supDist_nonneg _ _), ?_⟩
  exact bellman_close hs hβ (supDist_nonneg _ _) (close_supDist h)

/-! ### the policy operator -/

theorem findAct_foldl_keep (a : ℕ) : ∀ (ys : List (Act K)) (cur : Act K), (∀ y ∈ ys, y.a ≠ a) →
    ys.foldl (fun cur x => if x.a = a then x else cur) cur = cur := by
  intro ys
  induction ys with
  | nil => intro cur _; rfl
  | cons y ys ih =>
    intro cur h
    simp only [foldl_cons]
    rw [if_neg (h y (by simp))]
    exact ih cur fun z hz => h z (by simp [hz])

theorem findAct_foldl_mem_or (a : ℕ) : ∀ (ys : List (Act K)) (cur : Act K),
    ys.foldl (fun cur x => if x.a = a then x else cur) cur = cur ∨
    (ys.foldl (fun cur x => if x.a = a then x else cur) cur ∈ ys ∧
     (ys.foldl (fun cur x => if x.a = a then x else cur) cur).a = a) := by
  intro ys
  induction ys with
  | nil => intro cur; left; rfl
  | cons y ys ih =>
    intro cur
    simp only [foldl_cons]
    by_cases hy : y.a = a
    · rw [if_pos hy]
      rcases ih y with h | h
      · right; rw [h]; exact ⟨by simp, hy⟩
      · right; exact ⟨by simp [h.1], h.2⟩
    · rw [if_neg hy]
      rcases ih cur with h | h
      · left; exact h
      · right; exact ⟨by simp [h.1], h.2⟩

theorem findAct_mem_or (acts : List (Act K)) (a : ℕ) :
    findAct acts a = dfltAct ∨ (findAct acts a ∈ acts ∧ (findAct acts a).a = a) :=
  findAct_foldl_mem_or a acts dfltAct

/-- with distinct labels, looking a member up by its label returns it -/
theorem findAct_eq_of_mem : ∀ (acts : List (Act K)) (cur : Act K) (x : Act K), x ∈ acts →
    (acts.map fun y => y.a).Nodup →
    acts.foldl (fun cur y => if y.a = x.a then y else cur) cur = x := by
  intro acts
  induction acts with
  | nil => intro cur x hx; simp at hx
  | cons y ys ih =>
    intro cur x hx hnd
    simp only [map_cons, nodup_cons, mem_map, not_exists, not_and] at hnd
    simp only [foldl_cons]
    rcases mem_cons.mp hx with rfl | hx'
    · rw [if_pos rfl]
      exact findAct_foldl_keep _ ys _ fun z hz => hnd.1 z hz
    · exact ih _ x hx' hnd.2

theorem findAct_foldl_mem (a : ℕ) : ∀ (ys : List (Act K)) (cur : Act K), (∃ x ∈ ys, x.a = a) →
    (ys.foldl (fun cur x => if x.a = a then x else cur) cur ∈ ys) := by
  intro ys
  induction ys with
  | nil => intro cur h; obtain ⟨_, hx, _⟩ := h; simp at hx
  | cons y ys ih =>
    intro cur h
    simp only [foldl_cons]
    by_cases hy : y.a = a
    · rw [if_pos hy]
      rcases findAct_foldl_mem_or a ys y with h' | h'
      · rw [h']; simp
      · simp [h'.1]
    · rw [if_neg hy]
      obtain ⟨x, hx, hxa⟩ := h
      rcases mem_cons.mp hx with rfl | hx'
      · exact absurd hxa hy
      · have := ih cur ⟨x, hx', hxa⟩
        simp [this]

theorem findAct_exists {acts : List (Act K)} {a : ℕ} (h : ∃ x ∈ acts, x.a = a) :
    findAct acts a ∈ acts := findAct_foldl_mem a acts dfltAct h

theorem polActs_subStoch {P : Prob K} (hs : ∀ acts ∈ P, ∀ x ∈ acts, SubStoch x) :
    ∀ (σ : List ℕ), ∀ y ∈ polActs P σ, SubStoch y := by
  induction P with
  | nil => intro σ y hy; simp [polActs] at hy
  | cons acts P ih =>
    intro σ y hy
    cases σ with
    | nil => simp [polActs] at hy
    | cons a σ =>
      simp only [polActs, zipWith_cons_cons, mem_cons] at hy
      rcases hy with rfl | hy
      · rcases findAct_mem_or acts a with h | h
        · rw [h]; exact subStoch_dflt
        · exact hs acts (by simp) _ h.1
      · exact ih (fun acts' h' => hs acts' (by simp [h'])) σ y hy

theorem tSigma_length (P : Prob K) (β : K) (σ : List ℕ) (v : List K) :
    (tSigma P β σ v).length = min P.length σ.length := by
  simp [tSigma, polActs]

/-- `T_σ` is monotone and sub-homogeneous -/
theorem tSigma_leAdd {P : Prob K} (hs : ∀ acts ∈ P, ∀ x ∈ acts, SubStoch x) {β c : K}
    (hβ : 0 ≤ β) (hc : 0 ≤ c) (σ : List ℕ) {v w : List K} (h : LeAdd c v w) :
    LeAdd (β * c) (tSigma P β σ v) (tSigma P β σ w) := by
  unfold LeAdd tSigma
  rw [forall₂_map_left_iff, forall₂_map_right_iff, forall₂_same]
  intro y hy
  exact qval_leAdd hβ hc (polActs_subStoch hs σ y hy) h

theorem tSigma_close {P : Prob K} (hs : ∀ acts ∈ P, ∀ x ∈ acts, SubStoch x) {β c : K}
    (hβ : 0 ≤ β) (hc : 0 ≤ c) (σ : List ℕ) {v w : List K} (h : Close c v w) :
    Close (β * c) (tSigma P β σ v) (tSigma P β σ w) := by
  rw [close_iff] at *
  exact ⟨tSigma_leAdd hs hβ hc σ h.1, tSigma_leAdd hs hβ hc σ h.2⟩

theorem tSigma_supDist {P : Prob K} (hs : ∀ acts ∈ P, ∀ x ∈ acts, SubStoch x) {β : K}
    (hβ : 0 ≤ β) (σ : List ℕ) {v w : List K} (h : v.length = w.length) :
    supDist (tSigma P β σ v) (tSigma P β σ w) ≤ β * supDist v w := by
  refine (supDist_le_iff (by simp [tSigma_length]) _).mpr ⟨mul_nonneg hβ (supDist_nonneg _ _), ?_⟩
  exact tSigma_close hs hβ (supDist_nonneg _ _) σ (close_supDist h)

/-- a feasible policy never beats the maximum: `T_σ v ≤ T v` -/
theorem tSigma_le_bellman {P : Prob K} {σ : List ℕ} (hf : Feasible P σ) (β : K) (v : List K) :
    LeAdd 0 (tSigma P β σ v) (bellman P β v) := by
  unfold Feasible at hf
  unfold LeAdd
  induction hf with
  | nil => simp [tSigma, polActs, bellman]
  | cons hx _ ih =>
    simp only [tSigma, polActs, bellman, zipWith_cons_cons, map_cons, forall₂_cons] at ih ⊢
    refine ⟨?_, ih⟩
    have := bestAct_ge (β := β) (v := v) _ (findAct_exists hx)
    linarith

/-- the greedy policy attains the maximum: `T_{greedy v} v = T v` -/
theorem tSigma_greedy {P : Prob K} (hne : ∀ acts ∈ P, acts ≠ [])
    (hnd : ∀ acts ∈ P, (acts.map fun x => x.a).Nodup) (β : K) (v : List K) :
    tSigma P β (greedy P β v) v = bellman P β v := by
  induction P with
  | nil => simp [tSigma, polActs, bellman, greedy]
  | cons acts P ih =>
    have ih' := ih (fun a h => hne a (by simp [h])) (fun a h => hnd a (by simp [h]))
    simp only [tSigma, polActs, bellman, greedy, map_cons, zipWith_cons_cons, cons.injEq] at ih' ⊢
    refine ⟨?_, ih'⟩
    have hm : bestAct β v acts ∈ acts := bestAct_mem (hne acts (by simp))
    have : findAct acts (bestAct β v acts).a = bestAct β v acts :=
      findAct_eq_of_mem acts dfltAct _ hm (hnd acts (by simp))
    rw [this]

theorem greedy_feasible {P : Prob K} (hne : ∀ acts ∈ P, acts ≠ []) (β : K) (v : List K) :
    Feasible P (greedy P β v) := by
  unfold Feasible greedy
  rw [forall₂_map_right_iff, forall₂_same]
  intro acts h
  exact ⟨_, bestAct_mem (hne acts h), rfl⟩

end QE.C01
