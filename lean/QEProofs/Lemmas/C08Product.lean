/-
  Lemmas for C08, part 5: the tensor rule integrates products of univariate integrands
  (sum over all positions = nested sum over multi-indices = product of the 1-d sums).
-/
import QEProofs.Lemmas.C08Tensor
import QEProofs.Lemmas.C08Affine
namespace QE.C08
open Finset

set_option linter.unusedSectionVars false

variable {K : Type} [Field K] [LinearOrder K] [IsStrictOrderedRing K]

/-- nested sum over all multi-indices `is` with `is_k < ns_k` -/
def nestSum : List Nat → (List Nat → K) → K
  | [], h => h []
  | n :: ns, h => ∑ i ∈ range n, nestSum ns (fun is => h (i :: is))

theorem sum_range_mul_blocks (n P : Nat) (φ : Nat → K) :
    ∑ idx ∈ range (n * P), φ idx = ∑ q ∈ range P, ∑ i ∈ range n, φ (i + n * q) := by
  induction P with
  | zero => simp
  | succ P ih =>
    rw [Nat.mul_succ, Finset.sum_range_add, ih, Finset.sum_range_succ]
    congr 1
    apply Finset.sum_congr rfl
    intro i _
    rw [Nat.add_comm]

/-- a sum over all positions is the nested sum over the multi-indices -/
theorem sum_range_prod_eq_nestSum : ∀ (ns : List Nat) (φ : Nat → K),
    ∑ idx ∈ range ns.prod, φ idx = nestSum ns (fun is => φ (mixedRadix is ns)) := by
  intro ns
  induction ns with
  | nil => intro φ; simp [nestSum, mixedRadix]
  | cons n ns ih =>
    intro φ
    rw [List.prod_cons, sum_range_mul_blocks, Finset.sum_comm]
    simp only [nestSum]
    apply Finset.sum_congr rfl
    intro i _
    rw [ih (fun q => φ (i + n * q))]
    rfl

theorem nestSum_congr : ∀ (ns : List Nat) (h h' : List Nat → K),
    (∀ is, List.Forall₂ (fun i n => i < n) is ns → h is = h' is) → nestSum ns h = nestSum ns h' := by
  intro ns
  induction ns with
  | nil => intro h h' hh; exact hh [] List.Forall₂.nil
  | cons n ns ih =>
    intro h h' hh
    simp only [nestSum]
    apply Finset.sum_congr rfl
    intro i hi
    apply ih
    intro is his
    exact hh (i :: is) (List.Forall₂.cons (by simpa using hi) his)

theorem nestSum_mul_left : ∀ (ns : List Nat) (c : K) (h : List Nat → K),
    nestSum ns (fun is => c * h is) = c * nestSum ns h := by
  intro ns
  induction ns with
  | nil => intro c h; rfl
  | cons n ns ih =>
    intro c h
    simp only [nestSum]
    rw [Finset.mul_sum]
    apply Finset.sum_congr rfl
    intro i _
    exact ih c (fun is => h (i :: is))

/-- the nested sum of a product of per-dimension terms is the product of the sums -/
theorem nestSum_prod {ρ : Type} (len : ρ → Nat) (a : ρ → Nat → K) : ∀ (rules : List ρ),
    nestSum (rules.map len) (fun is => (List.zipWith (fun r i => a r i) rules is).prod)
      = (rules.map fun r => ∑ i ∈ range (len r), a r i).prod := by
  intro rules
  induction rules with
  | nil => simp [nestSum]
  | cons r rules ih =>
    simp only [List.map_cons, nestSum, List.zipWith_cons_cons, List.prod_cons]
    rw [Finset.sum_mul]
    apply Finset.sum_congr rfl
    intro i _
    rw [nestSum_mul_left, ih]

/-! ### small list lemmas -/

theorem prod_zipWith_mul {ρ : Type} (g h : ρ → Nat → K) : ∀ (l : List ρ) (is : List Nat),
    (List.zipWith g l is).prod * (List.zipWith h l is).prod
      = (List.zipWith (fun r i => g r i * h r i) l is).prod := by
  intro l
  induction l with
  | nil => intro is; simp
  | cons r l ih =>
    intro is
    cases is with
    | nil => simp
    | cons i is =>
      simp only [List.zipWith_cons_cons, List.prod_cons]
      rw [← ih is]; ring

theorem zipWith_zipWith_left {ρ β γ : Type} (f : ρ → β → γ) (g : ρ → Nat → β) :
    ∀ (l : List ρ) (is : List Nat),
      List.zipWith f l (List.zipWith g l is) = List.zipWith (fun r i => f r (g r i)) l is := by
  intro l
  induction l with
  | nil => intro is; simp
  | cons r l ih =>
    intro is
    cases is with
    | nil => simp
    | cons i is => simp [ih is]

theorem quadSum_eq_sum (w x : List K) (F : K → K) (hx : w.length = x.length) :
    quadSum w x F = ∑ i ∈ range x.length, w.getD i 0 * F (x.getD i 0) := by
  unfold quadSum
  rw [dot_eq_sum _ _ (by simp [hx]), hx]
  apply Finset.sum_congr rfl
  intro i hi
  have : i < x.length := by simpa using hi
  simp [List.getD_eq_getElem?_getD, this]

/-- **the tensor rule on products.**  For rules `r = (nodes, weights, f)` (at least one, with
    `|weights| = |nodes|`): `Σ_idx W[idx] · Π_k f_k(G[idx][k]) = Π_k Σ_i w_k[i] f_k(x_k[i])` with
    `G = gridRows nodes`, `W = ckronRev weights`. -/
theorem tensor_product_sum (rules : List (List K × List K × (K → K))) (hne : rules ≠ [])
    (hshape : ∀ r ∈ rules, r.2.1.length = r.1.length) :
    quadSumRows (ckronRev (rules.map fun r => r.2.1)) (gridRows (rules.map fun r => r.1))
        (fun row => (List.zipWith (fun r v => r.2.2 v) rules row).prod)
      = (rules.map fun r => quadSum r.2.1 r.1 r.2.2).prod := by
  set xs := rules.map fun r => r.1 with hxs
  set ws := rules.map fun r => r.2.1 with hws
  have hxne : xs ≠ [] := by simp [hxs, hne]
  have hwne : ws ≠ [] := by simp [hws, hne]
  have hsh : ws.map List.length = xs.map List.length := by
    rw [hxs, hws, List.map_map, List.map_map]
    apply List.map_congr_left
    intro r hr
    exact hshape r hr
  -- any multi-index valid for the nodes
  have hvalid : ∀ is, List.Forall₂ (fun i n => i < n) is (xs.map List.length) →
      List.Forall₂ (fun i (x : List K) => i < x.length) is xs ∧
      List.Forall₂ (fun i (w : List K) => i < w.length) is ws := by
    intro is his
    refine ⟨List.forall₂_map_right_iff.mp his, ?_⟩
    rw [← hsh] at his
    exact List.forall₂_map_right_iff.mp his
  have hlenG : (gridRows xs).length = (xs.map List.length).prod := gridRows_length xs hxne
  have hlenW : (ckronRev ws).length = (xs.map List.length).prod := by
    rw [ckronRev_length ws hwne, hsh]
  have hns : xs.map List.length = rules.map (fun r => r.1.length) := by
    rw [hxs, List.map_map]; rfl
  rw [quadSumRows_eq_sum _ _ (by rw [hlenG, hlenW]), hlenW, sum_range_prod_eq_nestSum]
  rw [nestSum_congr _ _ (fun is => (List.zipWith
      (fun (r : List K × List K × (K → K)) i => r.2.1.getD i 0 * r.2.2 (r.1.getD i 0)) rules is).prod)]
  · rw [hns, nestSum_prod (fun (r : List K × List K × (K → K)) => r.1.length)
      (fun r i => r.2.1.getD i 0 * r.2.2 (r.1.getD i 0)) rules]
    congr 1
    apply List.map_congr_left
    intro r hr
    rw [quadSum_eq_sum _ _ _ (hshape r hr)]
  · intro is his
    obtain ⟨hx, hw⟩ := hvalid is his
    obtain ⟨g1, _⟩ := gridRows_index xs is hxne hx
    obtain ⟨w1, _⟩ := ckronRev_index ws is hwne hw
    rw [hsh] at w1
    have hg : (gridRows xs).getD (mixedRadix is (xs.map List.length)) []
        = List.zipWith (fun (x : List K) i => x.getD i 0) xs is := by
      rw [List.getD_eq_getElem?_getD, g1]; rfl
    rw [hg, w1, hxs, hws, List.zipWith_map_left, List.zipWith_map_left, zipWith_zipWith_left,
      prod_zipWith_mul]

end QE.C08
