/-
  Lemmas for C16, part 3: `simplex_index` is injective on compositions, hence `simplex_grid`
  lists every `m`-part composition of `n` exactly once, in lexicographic order, and
  `simplex_index` is the position in that list.
-/
import Mathlib.Data.Nat.Choose.Basic
import Mathlib.Tactic.Ring
import Mathlib.Tactic.Linarith
import Mathlib.Logic.Function.Iterate
import QEModel.C16
import QEProofs.Lemmas.C16Comb
import QEProofs.Lemmas.C16Simplex
namespace QE.C16

theorem rankTerm_succ_succ (r d : Nat) : rankTerm (r + 1) (d + 1) = Nat.choose (d + r) r := by
  simp [rankTerm]

theorem rankTerm_mono (r : Nat) {d d' : Nat} (h : d ≤ d') : rankTerm r d ≤ rankTerm r d' := by
  unfold rankTerm
  by_cases h0 : d = 0
  · simp [h0]
  · rw [if_neg h0, if_neg (by omega)]
    exact Nat.choose_le_choose _ (by omega)

/-- `rankSub (a :: xs)` is strictly below the next value of the leading term. -/
theorem rankSub_cons_lt : ∀ (xs : List Nat) (a : Nat),
    rankSub (a :: xs) + 1 ≤ Nat.choose (xs.sum + xs.length) xs.length
  | [], a => by simp [rankSub, rankTerm]
  | b :: ys, a => by
    have ih := rankSub_cons_lt ys b
    have hmono : Nat.choose (ys.sum + ys.length) ys.length
        ≤ Nat.choose (b + ys.sum + ys.length) ys.length :=
      Nat.choose_le_choose _ (by omega)
    rw [rankSub]
    simp only [List.length_cons, List.sum_cons]
    rcases Nat.eq_zero_or_pos (b + ys.sum) with h0 | h0
    · rw [h0, rankTerm_zero]
      have hb : b = 0 := by omega
      have hs : ys.sum = 0 := by omega
      rw [hs] at ih
      simp at ih ⊢
      omega
    · obtain ⟨d, hd⟩ : ∃ d, b + ys.sum = d + 1 := ⟨b + ys.sum - 1, by omega⟩
      rw [hd] at hmono ⊢
      rw [rankTerm_succ_succ, show d + 1 + (ys.length + 1) = (d + 1 + ys.length) + 1 by omega,
        Nat.choose_succ_succ', show d + (ys.length + 1) = d + 1 + ys.length by omega]
      omega

/-- `0 ≤ simplex_index(x) < L` for every composition. -/
theorem rankSub_lt_numCompositions (x : List Nat) (m n : Nat) (hm : 1 ≤ m)
    (hl : x.length = m) (hs : x.sum = n) : rankSub x + 1 ≤ numCompositions m n := by
  rw [numCompositions_eq_choose]
  match x, hl, hs with
  | [], hl, _ => simp at hl; omega
  | a :: xs, hl, hs =>
    have h1 := rankSub_cons_lt xs a
    have h2 : Nat.choose (xs.sum + xs.length) xs.length
        ≤ Nat.choose (a + xs.sum + xs.length) xs.length :=
      Nat.choose_le_choose _ (by omega)
    simp at hl hs
    have e1 : m - 1 = xs.length := by omega
    have e2 : n + m - 1 = a + xs.sum + xs.length := by omega
    rw [e1, e2]; omega

/-- `rankSub` (hence `simplex_index`) is injective on lists of equal length and sum. -/
theorem rankSub_injective : ∀ (x y : List Nat), x.length = y.length → x.sum = y.sum →
    rankSub x = rankSub y → x = y
  | [], [], _, _, _ => rfl
  | [], _ :: _, h, _, _ => by simp at h
  | _ :: _, [], h, _, _ => by simp at h
  | a :: xs, b :: ys, hl, hs, hr => by
    have hl' : xs.length = ys.length := by simpa using hl
    have hs' : a + xs.sum = b + ys.sum := by simpa using hs
    have hx := rankSub_cons_lt xs a
    have hy := rankSub_cons_lt ys b
    have hsum : xs.sum = ys.sum := by
      rcases Nat.lt_trichotomy xs.sum ys.sum with h | h | h
      · exfalso
        have h1 : rankTerm (ys.length + 1) (xs.sum + 1) ≤ rankTerm (ys.length + 1) ys.sum :=
          rankTerm_mono _ h
        rw [rankTerm_succ_succ, ← hl'] at h1
        have h2 : rankTerm (ys.length + 1) ys.sum ≤ rankSub (b :: ys) := by
          rw [rankSub]; omega
        rw [← hl'] at h2
        omega
      · exact h
      · exfalso
        have h1 : rankTerm (xs.length + 1) (ys.sum + 1) ≤ rankTerm (xs.length + 1) xs.sum :=
          rankTerm_mono _ h
        rw [rankTerm_succ_succ, hl'] at h1
        have h2 : rankTerm (xs.length + 1) xs.sum ≤ rankSub (a :: xs) := by
          rw [rankSub]; omega
        rw [hl'] at h2
        omega
    have hab : a = b := by omega
    have hrr : rankSub xs = rankSub ys := by
      rw [rankSub, rankSub, hsum, hl'] at hr; omega
    rw [hab, rankSub_injective xs ys hl' hsum hrr]

/-- `simplex_index` is injective on the `m`-part compositions of `n`. -/
theorem simplexIndex_injective (m n : Nat) (hm : 1 ≤ m) (x y : List Nat)
    (hx : x.length = m) (hy : y.length = m) (sx : x.sum = n) (sy : y.sum = n)
    (h : simplexIndex x m n = simplexIndex y m n) : x = y := by
  rw [simplexIndex_eq x m n hm hx, simplexIndex_eq y m n hm hy] at h
  exact rankSub_injective x y (by omega) (by omega) (by omega)

/-- completeness, and correctness of `simplex_index` on every point of the simplex: an
    `m`-part composition `y` of `n` is row number `simplex_index(y)` of `simplex_grid(m, n)`
    (in particular `0 ≤ simplex_index(y) < L`). -/
theorem simplexGrid_complete (m n : Nat) (hm : 1 ≤ m) (y : List Nat)
    (hl : y.length = m) (hs : y.sum = n) :
    ∃ i, i < numCompositions m n ∧ simplexIndex y m n = i ∧
      (sgRows m (numCompositions m n) (sgInit m n))[i]? = some y := by
  have hb := rankSub_lt_numCompositions y m n hm hl hs
  refine ⟨numCompositions m n - 1 - rankSub y, by omega, ?_, ?_⟩
  · rw [simplexIndex_eq y m n hm hl]; omega
  · obtain ⟨row, e, rl, rs, ri⟩ :=
      simplexGrid_row_spec m n (numCompositions m n - 1 - rankSub y) hm (by omega)
    rw [e]; congr 1
    apply simplexIndex_injective m n hm row y rl hl rs hs
    rw [ri, simplexIndex_eq y m n hm hl]; omega

/-! ### lexicographic order -/

/-- T6 (first half): the successor of a normal form is lexicographically larger. -/
theorem lex_step (pre : List Nat) (u v z : Nat) :
    List.Lex (· < ·) (pre ++ u :: v :: List.replicate z 0)
      (pre ++ (u + 1) :: (List.replicate z 0 ++ [v - 1])) := by
  induction pre with
  | nil => exact List.Lex.rel (Nat.lt_succ_self u)
  | cons a pre ih => exact List.Lex.cons ih

/-- consecutive rows of the grid are lexicographically increasing. -/
theorem simplexGrid_rows_lex_succ (m n i : Nat) (hm : 1 ≤ m)
    (hi : i + 1 < numCompositions m n) :
    List.Lex (· < ·) ((sgStep m)^[i] (sgInit m n)).x ((sgStep m)^[i + 1] (sgInit m n)).x := by
  obtain ⟨hNL, _, hidx⟩ := sg_invariant m n hm i (by omega)
  rw [Function.iterate_succ_apply']
  rcases hNL with h | h
  · obtain ⟨pre, u, v, z, _, hmz, e⟩ := h
    rw [e, sgStep_normal pre u v z m hmz]
    exact lex_step pre u v z
  · exfalso
    have := h.index hm
    rw [hidx] at this; omega

/-- the rows of the grid are strictly increasing in lexicographic order (`<` on `List Nat`
    is `List.Lex (· < ·)`). -/
theorem simplexGrid_rows_lex (m n : Nat) (hm : 1 ≤ m) : ∀ (j i : Nat), i < j →
    j < numCompositions m n →
    ((sgStep m)^[i] (sgInit m n)).x < ((sgStep m)^[j] (sgInit m n)).x := by
  intro j
  induction j with
  | zero => intro i h; omega
  | succ j ih =>
    intro i hij hj
    have hstep : ((sgStep m)^[j] (sgInit m n)).x < ((sgStep m)^[j + 1] (sgInit m n)).x :=
      simplexGrid_rows_lex_succ m n j hm hj
    rcases Nat.lt_or_ge i j with h | h
    · exact List.lt_trans (ih i h (by omega)) hstep
    · have : i = j := by omega
      subst this; exact hstep

/-- same, stated on the list of rows. -/
theorem simplexGrid_rows_sorted (m n i j : Nat) (hm : 1 ≤ m) (hij : i < j)
    (hj : j < numCompositions m n) :
    ∃ ri rj, (sgRows m (numCompositions m n) (sgInit m n))[i]? = some ri ∧
      (sgRows m (numCompositions m n) (sgInit m n))[j]? = some rj ∧ ri < rj :=
  ⟨_, _, sgRows_getElem? m _ _ i (by omega), sgRows_getElem? m _ _ j hj,
    simplexGrid_rows_lex m n hm j i hij hj⟩

/-- `simplex_index` is strictly monotone for the lexicographic order on compositions: it is
    the lexicographic rank. -/
theorem simplexIndex_lt_iff (m n : Nat) (hm : 1 ≤ m) (x y : List Nat)
    (hx : x.length = m) (hy : y.length = m) (sx : x.sum = n) (sy : y.sum = n) :
    simplexIndex x m n < simplexIndex y m n ↔ x < y := by
  obtain ⟨i, hi, ei, ri⟩ := simplexGrid_complete m n hm x hx sx
  obtain ⟨j, hj, ej, rj⟩ := simplexGrid_complete m n hm y hy sy
  rw [sgRows_getElem? m _ _ i hi] at ri
  rw [sgRows_getElem? m _ _ j hj] at rj
  have exi : ((sgStep m)^[i] (sgInit m n)).x = x := by simpa using ri
  have eyj : ((sgStep m)^[j] (sgInit m n)).x = y := by simpa using rj
  rw [ei, ej]
  constructor
  · intro h
    rw [← exi, ← eyj]
    exact simplexGrid_rows_lex m n hm j i (by exact_mod_cast h) hj
  · intro h
    rcases Nat.lt_trichotomy i j with hlt | heq | hgt
    · exact_mod_cast hlt
    · exfalso
      subst heq
      rw [exi] at eyj; subst eyj
      exact List.lt_irrefl _ h
    · exfalso
      have h' := simplexGrid_rows_lex m n hm i j hgt hi
      rw [exi, eyj] at h'
      exact List.lt_asymm h h'

/-- T6 (second half): no composition lies strictly between a normal form and its successor. -/
theorem lex_step_no_gap (pre : List Nat) (u v z m n : Nat) (hm : m = pre.length + 2 + z)
    (hv : 1 ≤ v) (hsum : (pre ++ u :: v :: List.replicate z 0).sum = n)
    (w : List Nat) (hw : w.length = m) (sw : w.sum = n) :
    ¬ (pre ++ u :: v :: List.replicate z 0 < w ∧
        w < pre ++ (u + 1) :: (List.replicate z 0 ++ [v - 1])) := by
  intro ⟨h1, h2⟩
  have hm1 : 1 ≤ m := by omega
  have hxl : (pre ++ u :: v :: List.replicate z 0).length = m := by simp; omega
  have hyl : (pre ++ (u + 1) :: (List.replicate z 0 ++ [v - 1])).length = m := by simp; omega
  have hys : (pre ++ (u + 1) :: (List.replicate z 0 ++ [v - 1])).sum = n := by
    simp at hsum ⊢; omega
  have i1 := (simplexIndex_lt_iff m n hm1 _ w hxl hw hsum sw).mpr h1
  have i2 := (simplexIndex_lt_iff m n hm1 w _ hw hyl sw hys).mpr h2
  rw [simplexIndex_step pre u v z m n hm hv] at i2
  omega

/-- the grid as a list: its members are exactly the `m`-part compositions of `n`, and it is
    strictly sorted lexicographically. -/
theorem sgRows_mem_iff (m n : Nat) (hm : 1 ≤ m) (y : List Nat) :
    y ∈ sgRows m (numCompositions m n) (sgInit m n) ↔ y.length = m ∧ y.sum = n := by
  rw [List.mem_iff_getElem?]
  constructor
  · rintro ⟨i, hi⟩
    have hlt : i < numCompositions m n := by
      have := (List.getElem?_eq_some_iff.mp hi).1
      rwa [sgRows_length] at this
    obtain ⟨row, e, rl, rs, _⟩ := simplexGrid_row_spec m n i hm hlt
    rw [e] at hi
    have : row = y := by simpa using hi
    subst this; exact ⟨rl, rs⟩
  · rintro ⟨hl, hs⟩
    obtain ⟨i, _, _, e⟩ := simplexGrid_complete m n hm y hl hs
    exact ⟨i, e⟩

theorem sgRows_pairwise_lt (m n : Nat) (hm : 1 ≤ m) :
    (sgRows m (numCompositions m n) (sgInit m n)).Pairwise (· < ·) := by
  rw [List.pairwise_iff_getElem]
  intro i j hi hj hij
  rw [sgRows_length] at hi hj
  obtain ⟨ri, rj, ei, ej, h⟩ := simplexGrid_rows_sorted m n i j hm hij hj
  rw [(List.getElem_eq_iff _).mpr ei, (List.getElem_eq_iff _).mpr ej]
  exact h

/-- full specification of `simplex_grid(m, n)` and `simplex_index` when `comb_jit` is exact:
    the output has `L` rows, its rows are exactly the `m`-part compositions of `n`, strictly
    increasing in lexicographic order, and `simplex_index(y)` is the row number of `y`. -/
theorem simplexGrid_full_spec (m n : Nat) (hm : 1 ≤ m)
    (hL : numCompositionsJit m n = numCompositions m n) :
    ∃ rows, simplexGrid m n = some rows ∧ rows.length = numCompositions m n ∧
      (∀ y, y ∈ rows ↔ y.length = m ∧ y.sum = n) ∧
      rows.Pairwise (· < ·) ∧
      ∀ y, y.length = m → y.sum = n →
        ∃ i, i < numCompositions m n ∧ simplexIndex y m n = i ∧ rows[i]? = some y := by
  have hpos := numCompositions_pos m n hm
  refine ⟨sgRows m (numCompositions m n) (sgInit m n), ?_, sgRows_length _ _ _,
    sgRows_mem_iff m n hm, sgRows_pairwise_lt m n hm,
    fun y hl hs => simplexGrid_complete m n hm y hl hs⟩
  unfold simplexGrid
  simp only [hL]
  rw [if_neg (by omega)]; simp

example : ∃ i, i < numCompositions 3 4 ∧ simplexIndex [1, 2, 1] 3 4 = i ∧
    (sgRows 3 (numCompositions 3 4) (sgInit 3 4))[i]? = some [1, 2, 1] :=
  simplexGrid_complete 3 4 (by decide) [1, 2, 1] rfl rfl

example : simplexIndex [1, 2, 1] 3 4 = 7 := by decide

end QE.C16
