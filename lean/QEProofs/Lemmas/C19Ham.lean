/-
  Lemmas for C19, part 4: the Hamilton filter (lag matrix, decomposition, normal equations).
-/
import Mathlib.Algebra.BigOperators.Group.Finset.Basic
import Mathlib.Algebra.BigOperators.Ring.Finset
import Mathlib.Data.List.GetD
import Mathlib.Tactic.Ring
import Mathlib.Tactic.Linarith
import QEModel.C19
import QEProofs.Lemmas.MatBridge
set_option linter.unusedSectionVars false
namespace QE.C19
open Finset QE.MatAlg

section
variable {K : Type} [Field K]

theorem hamX_nr (y : List K) (h p : ℕ) : (hamX y h p).nr = y.length + 1 - p - h := rfl
theorem hamX_nc (y : List K) (h p : ℕ) : (hamX y h p).nc = p + 1 := rfl
theorem hamTarget_nr (y : List K) (h p : ℕ) : (hamTarget y h p).nr = y.length + 1 - p - h := rfl
theorem hamTarget_nc (y : List K) (h p : ℕ) : (hamTarget y h p).nc = 1 := rfl

theorem hamX_get (y : List K) (h p t j : ℕ) (ht : t < y.length + 1 - p - h) (hj : j < p + 1) :
    (hamX y h p).get t j = if j = 0 then 1 else y.getD (p - j + t) 0 := by
  unfold hamX
  rw [M.get_tab _ _ _ _ _ ht hj]

theorem hamTarget_get (y : List K) (h p t : ℕ) (ht : t < y.length + 1 - p - h) :
    (hamTarget y h p).get t 0 = y.getD (p + h - 1 + t) 0 := by
  unfold hamTarget
  rw [M.get_tab _ _ _ _ _ ht (by omega)]

theorem hamFit_length (y : List K) (h p : ℕ) (b : M K) : (hamFit y h p b).length = y.length + 1 - p - h := by
  unfold hamFit; simp

theorem hamFit_getD (y : List K) (h p : ℕ) (b : M K) (t : ℕ) (ht : t < y.length + 1 - p - h) :
    (hamFit y h p b).getD t 0 = (mmul (hamX y h p) b).get t 0 := by
  unfold hamFit
  rw [List.getD_eq_getElem _ _ (by simp; exact ht)]
  simp

theorem getD_replicate_append_lt {α : Type} (n : ℕ) (x d : α) (l : List α) (i : ℕ) (hi : i < n) :
    (List.replicate n x ++ l).getD i d = x := by
  rw [List.getD_append _ _ _ _ (by simp; exact hi)]
  simp [List.getD_eq_getElem?_getD, hi]

theorem getD_replicate_append_ge {α : Type} (n : ℕ) (x d : α) (l : List α) (i : ℕ) (hi : n ≤ i) :
    (List.replicate n x ++ l).getD i d = l.getD (i - n) d := by
  rw [List.getD_append_right _ _ _ _ (by simp; exact hi)]
  simp

end
end QE.C19
