/-
  Lemmas for C08, part 12: the Jacobi polynomials in `K[X]` and the derivative formula
  `(2n+a+b)(1−X²) Pₙ' = n(a−b−(2n+a+b)X) Pₙ + 2(n+a)(n+b) Pₙ₋₁` behind the `pp` of `_qnwbeta1`.
-/
import QEProofs.Lemmas.C08Jac
import QEProofs.Lemmas.C08Deriv
namespace QE.C08
open Polynomial

set_option linter.unusedSectionVars false

variable {K : Type} [Field K] [LinearOrder K] [IsStrictOrderedRing K]

/-- `aa` of iteration `j` as an element of `K` -/
def jacAA (a b : K) (j : Nat) : K :=
  ((2 * j : Nat) : K) * ((j : K) + (a + b)) * (((2 * j : Nat) : K) + (a + b) - ((2 : Nat) : K))

/-- Jacobi polynomials in `K[X]` by the recurrence of the code -/
noncomputable def jacobiPoly (a b : K) : Nat → K[X]
  | 0 => 1
  | 1 => C (1 / ((2 : Nat) : K)) * (C a - C b + (((2 : Nat) : K[X]) + (C a + C b)) * X)
  | n + 2 =>
    C (1 / jacAA a b (n + 2)) *
      (((((2 * (n + 2) : Nat) : K[X]) + (C a + C b) - 1) *
          (C a * C a - C b * C b
            + (((2 * (n + 2) : Nat) : K[X]) + (C a + C b)) * (((2 * (n + 2) : Nat) : K[X]) + (C a + C b) - ((2 : Nat) : K[X])) * X))
          * jacobiPoly a b (n + 1)
        - ((2 : Nat) : K[X]) * (((n + 2 - 1 : Nat) : K[X]) + C a) * (((n + 2 - 1 : Nat) : K[X]) + C b)
            * (((2 * (n + 2) : Nat) : K[X]) + (C a + C b)) * jacobiPoly a b n)

theorem jacobiPoly_eval (a b z : K) : ∀ n, (jacobiPoly a b n).eval z = jacobiP a b z n := by
  intro n
  induction n using Nat.strongRecOn with
  | _ n ih =>
    match n with
    | 0 => simp [jacobiPoly, jacobiP]
    | 1 =>
      simp only [jacobiPoly, jacobiP, eval_mul, eval_C, eval_sub, eval_add, eval_natCast, eval_X]
      ring
    | n + 2 =>
      rw [jacobiPoly, jacobiP]
      simp only [eval_mul, eval_C, eval_sub, eval_add, eval_natCast, eval_X, eval_one, ih (n + 1) (by omega),
        ih n (by omega), jacAA]
      ring

theorem C_jacAA (a b : K) (j : Nat) :
    C (jacAA a b j) = ((2 * j : Nat) : K[X]) * ((j : K[X]) + (C a + C b))
      * (((2 * j : Nat) : K[X]) + (C a + C b) - ((2 : Nat) : K[X])) := by
  simp only [jacAA, C_mul, C_add, C_sub, C_eq_natCast]

/-- the recurrence with the division cleared (needs `aa ≠ 0`) -/
theorem jacobiPoly_rec (a b : K) (n : Nat) (haa : jacAA a b (n + 2) ≠ 0) :
    C (jacAA a b (n + 2)) * jacobiPoly a b (n + 2)
      = ((((2 * (n + 2) : Nat) : K[X]) + (C a + C b) - 1) *
          (C a * C a - C b * C b
            + (((2 * (n + 2) : Nat) : K[X]) + (C a + C b)) * (((2 * (n + 2) : Nat) : K[X]) + (C a + C b) - ((2 : Nat) : K[X])) * X))
          * jacobiPoly a b (n + 1)
        - ((2 : Nat) : K[X]) * (((n + 2 - 1 : Nat) : K[X]) + C a) * (((n + 2 - 1 : Nat) : K[X]) + C b)
            * (((2 * (n + 2) : Nat) : K[X]) + (C a + C b)) * jacobiPoly a b n := by
  rw [jacobiPoly]
  have hc : C (jacAA a b (n + 2)) * C (1 / jacAA a b (n + 2)) = 1 := by
    rw [← C_mul, mul_one_div_cancel haa, C_1]
  rw [← mul_assoc, hc, one_mul]

theorem jacAA_ne_zero (a b : K) (ha : -1 < a) (hb : -1 < b) (j : Nat) (hj : 2 ≤ j) : jacAA a b j ≠ 0 := by
  unfold jacAA
  have hjK : (2 : K) ≤ (j : K) := by exact_mod_cast hj
  have h1 : (0 : K) < ((2 * j : Nat) : K) := by
    have : 0 < 2 * j := by omega
    exact_mod_cast this
  have h2 : (0 : K) < (j : K) + (a + b) := by linarith
  have h3 : (0 : K) < ((2 * j : Nat) : K) + (a + b) - ((2 : Nat) : K) := by
    push_cast; linarith
  exact (mul_pos (mul_pos h1 h2) h3).ne'

/-- the two identities carried through the induction (`m = n + 1`, `τ = 2m + a + b`):
    `τ(1−X²) Pₘ' = m(a−b−τX) Pₘ + 2(m+a)(m+b) Pₘ₋₁` and
    `τ(1−X²) Pₘ₋₁' = (m+a+b)(τX+a−b) Pₘ₋₁ − 2m(m+a+b) Pₘ` -/
theorem jacobiPoly_deriv_pair (a b : K) (ha : -1 < a) (hb : -1 < b) : ∀ n : Nat,
    ((((2 * (n + 1) : Nat) : K[X]) + (C a + C b)) * (1 - X ^ 2) * derivative (jacobiPoly a b (n + 1))
        = ((n + 1 : Nat) : K[X]) * (C a - C b - (((2 * (n + 1) : Nat) : K[X]) + (C a + C b)) * X) * jacobiPoly a b (n + 1)
          + 2 * (((n + 1 : Nat) : K[X]) + C a) * (((n + 1 : Nat) : K[X]) + C b) * jacobiPoly a b n) ∧
    ((((2 * (n + 1) : Nat) : K[X]) + (C a + C b)) * (1 - X ^ 2) * derivative (jacobiPoly a b n)
        = (((n + 1 : Nat) : K[X]) + (C a + C b)) * ((((2 * (n + 1) : Nat) : K[X]) + (C a + C b)) * X + C a - C b) * jacobiPoly a b n
          - 2 * ((n + 1 : Nat) : K[X]) * (((n + 1 : Nat) : K[X]) + (C a + C b)) * jacobiPoly a b (n + 1)) := by
  intro n
  induction n with
  | zero =>
    have h2 : C (1 / ((2 : Nat) : K)) * (2 : K[X]) = 1 := by
      have : (2 : K[X]) = C ((2 : Nat) : K) := by rw [C_eq_natCast]; norm_num
      rw [this, ← C_mul]
      have h : ((2 : Nat) : K) ≠ 0 := by norm_num
      rw [one_div_mul_cancel h, C_1]
    constructor
    · simp only [jacobiPoly, derivative_mul, derivative_C, derivative_add, derivative_sub, derivative_X,
        derivative_natCast, zero_mul, zero_add, add_zero, mul_one, sub_self]
      push_cast
      linear_combination (2 * (1 + C a) * (1 + C b)) * h2
    · simp only [jacobiPoly, derivative_one, mul_zero]
      push_cast
      linear_combination ((1 + (C a + C b)) * (C a - C b + (2 + (C a + C b)) * X)) * h2
  | succ n ih =>
    obtain ⟨hD, hE⟩ := ih
    have haa := jacAA_ne_zero a b ha hb (n + 2) (by omega)
    have hR := jacobiPoly_rec a b n haa
    rw [C_jacAA] at hR
    have hdR := congrArg derivative hR
    simp only [derivative_mul, derivative_sub, derivative_add, derivative_natCast, derivative_X, derivative_C,
      derivative_one, zero_mul, zero_add, add_zero, mul_one, sub_self, mul_zero] at hdR
    -- τ = 2(n+1) + a + b ≠ 0 as a polynomial
    have htauK : ((2 * (n + 1) : Nat) : K) + (a + b) ≠ 0 := by
      have : (0 : K) < ((2 * (n + 1) : Nat) : K) + (a + b) := by
        have h2 : (2 : K) ≤ ((2 * (n + 1) : Nat) : K) := by
          have : 2 ≤ 2 * (n + 1) := by omega
          exact_mod_cast this
        linarith
      exact this.ne'
    have htau : (((2 * (n + 1) : Nat) : K[X]) + (C a + C b)) ≠ 0 := by
      have e : (((2 * (n + 1) : Nat) : K[X]) + (C a + C b)) = C (((2 * (n + 1) : Nat) : K) + (a + b)) := by
        simp only [C_add, C_eq_natCast]
      rw [e]
      exact C_ne_zero.mpr htauK
    have haaX : ((2 * (n + 2) : Nat) : K[X]) * (((n + 2 : Nat) : K[X]) + (C a + C b))
        * (((2 * (n + 2) : Nat) : K[X]) + (C a + C b) - ((2 : Nat) : K[X])) ≠ 0 := by
      rw [← C_jacAA]
      exact C_ne_zero.mpr haa
    have hE' : (((2 * (n + 1 + 1) : Nat) : K[X]) + (C a + C b)) * (1 - X ^ 2) * derivative (jacobiPoly a b (n + 1))
        = (((n + 1 + 1 : Nat) : K[X]) + (C a + C b)) * ((((2 * (n + 1 + 1) : Nat) : K[X]) + (C a + C b)) * X + C a - C b) * jacobiPoly a b (n + 1)
          - 2 * ((n + 1 + 1 : Nat) : K[X]) * (((n + 1 + 1 : Nat) : K[X]) + (C a + C b)) * jacobiPoly a b (n + 1 + 1) := by
      apply mul_left_cancel₀ htau
      push_cast at hD hR ⊢
      linear_combination (2 * ((n : K[X]) + 1 + 1) + (C a + C b)) * hD + hR
    refine ⟨?_, hE'⟩
    apply mul_left_cancel₀ (mul_ne_zero htau haaX)
    push_cast at hD hE hR hdR ⊢
    linear_combination
      ((2 * ((n : K[X]) + 2) + (C a + C b)) * (1 - X ^ 2) * (2 * ((n : K[X]) + 1) + (C a + C b))) * hdR
      + ((2 * ((n : K[X]) + 2) + (C a + C b)) *
          ((2 * ((n : K[X]) + 2) + (C a + C b) - 1) *
            (C a * C a - C b * C b + (2 * ((n : K[X]) + 2) + (C a + C b)) * (2 * ((n : K[X]) + 2) + (C a + C b) - 2) * X))) * hD
      - ((2 * ((n : K[X]) + 2) + (C a + C b)) *
          (2 * ((n : K[X]) + 1 + C a) * ((n : K[X]) + 1 + C b) * (2 * ((n : K[X]) + 2) + (C a + C b)))) * hE
      - ((2 * ((n : K[X]) + 1) + (C a + C b)) * ((n : K[X]) + 2) *
          (C a - C b - (2 * ((n : K[X]) + 2) + (C a + C b)) * X)) * hR

end QE.C08
