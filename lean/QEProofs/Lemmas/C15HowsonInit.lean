/-
  Lemmas for C15, part 8: the state of `polym_lcp_solver` after its `N` initial pivots
  (lines 137-143) satisfies the tableau invariant `HInv` and the label invariant `LInv` at level 0.
-/
import Mathlib.Tactic.Linarith
import Mathlib.Algebra.Order.Field.Basic
import QEModel.C15
import QEProofs.Lemmas.C15Howson
import QEProofs.Lemmas.C15HowsonLabels
import QEProofs.Lemmas.C15Blocks
namespace QE.C15
open QE QE.Pivot

set_option linter.unusedSectionVars false
variable {K : Type} [Field K] [LinearOrder K] [IsStrictOrderedRing K]

/-! ### `locate` inverts `indptr` -/

theorem locate_sum (l : List Nat) : ∀ (q s p0 : Nat), q < l.length → s < l.getD q 0 →
    locate l ((l.take q).sum + s) p0 = (p0 + q, s) := by
  induction l with
  | nil => intro q s p0 hq; simp at hq
  | cons k ks ih =>
    intro q s p0 hq hs
    cases q with
    | zero =>
      simp only [List.take_zero, List.sum_nil, Nat.zero_add, List.getD_cons_zero] at hs ⊢
      unfold locate; rw [if_pos hs]; simp
    | succ q =>
      simp only [List.take_succ_cons, List.sum_cons, List.getD_cons_succ] at hs ⊢
      unfold locate
      rw [if_neg (by omega)]
      have e : k + (ks.take q).sum + s - k = (ks.take q).sum + s := by omega
      rw [e, ih q s (p0 + 1) (by simpa using hq) hs]
      congr 1; omega

theorem locate_labX (nums start : List Nat) (q : Nat) (hq : q < nums.length)
    (hs : start.getD q 0 < nums.getD q 0) :
    locate nums (labX nums start q) 0 = (q, start.getD q 0) := by
  unfold labX
  rw [indptr_eq_sum, locate_sum nums q _ 0 hq hs]; simp

/-! ### the initial tableau -/

theorem foldl_add_eq_sum (l : List Nat) : l.foldl (· + ·) 0 = l.sum := by rw [List.sum_eq_foldl]

theorem hTableau_get (nums : List Nat) (A : Nat → Nat → Nat → Nat → K) (pcm : K) (i j : Nat)
    (hi : i < nums.foldl (· + ·) 0 + nums.length)
    (hj : j < 2 * (nums.foldl (· + ·) 0 + nums.length) + 1) :
    (hTableau nums A pcm).get i j =
      if j < nums.foldl (· + ·) 0 + nums.length then (if i = j then 1 else 0)
      else if j < 2 * (nums.foldl (· + ·) 0 + nums.length)
        then -(hM nums A pcm (nums.foldl (· + ·) 0) i (j - (nums.foldl (· + ·) 0 + nums.length)))
      else (if i < nums.foldl (· + ·) 0 then 0 else -(1 : K)) := by
  unfold hTableau
  simp only
  rw [M.get_tab _ _ _ _ _ hi hj]

/-- the initial tableau with the identity basis satisfies the invariant -/
theorem hinv_initial (nums : List Nat) (A : Nat → Nat → Nat → Nat → K) (pcm : K) :
    HInv (nums.foldl (· + ·) 0 + nums.length) (hTableau nums A pcm) (hTableau nums A pcm)
      (List.range (nums.foldl (· + ·) 0 + nums.length)) := by
  refine ⟨rfl, rfl, ?_, fun z => Iff.rfl, by simp, ?_, ?_⟩
  · unfold hTableau; exact wf_tab _ _ _
  · intro j hj
    rw [List.getD_eq_getElem?_getD, List.getElem?_range hj]; simp; omega
  · intro i j hi hj
    rw [List.getD_eq_getElem?_getD, List.getElem?_range hj, Option.getD_some,
      hTableau_get nums A pcm i j hi (by omega), if_pos hj]

/-- entry of a sum-constraint row `ta + q` of the initial tableau in the column of `x_{q', s}` -/
theorem hTableau_sumrow (nums start : List Nat) (A : Nat → Nat → Nat → Nat → K) (pcm : K) (q q' : Nat)
    (hq : q < nums.length) (hq' : q' < nums.length)
    (hs : start.getD q' 0 < nums.getD q' 0) :
    (hTableau nums A pcm).get (nums.foldl (· + ·) 0 + q)
        (nums.foldl (· + ·) 0 + nums.length + labX nums start q')
      = -(if q' = q then (1 : K) else 0) := by
  have hlx : labX nums start q' < nums.foldl (· + ·) 0 := by
    have := indptr_block_le nums q' hq'
    rw [foldl_add_eq_sum]; unfold labX; omega
  rw [hTableau_get nums A pcm _ _ (by omega) (by omega), if_neg (by omega), if_pos (by omega)]
  have e : nums.foldl (· + ·) 0 + nums.length + labX nums start q' - (nums.foldl (· + ·) 0 + nums.length)
      = labX nums start q' := by omega
  rw [e]
  unfold hM
  rw [if_neg (by omega), if_pos hlx, locate_labX nums start q' hq' hs]
  have e2 : nums.foldl (· + ·) 0 + q - nums.foldl (· + ·) 0 = q := by omega
  simp only [e2]

/-! ### the fold of initial pivots -/

/-- the state after the first `k` initial pivots -/
def hInitK (nums start : List Nat) (T0 : M K) (k : Nat) : M K × List Nat :=
  (List.range k).foldl (fun (s : M K × List Nat) pl =>
    (pivot s.1 (nums.foldl (· + ·) 0 + nums.length + indptr nums pl + start.getD pl 0)
        (nums.foldl (· + ·) 0 + pl),
      s.2.set (nums.foldl (· + ·) 0 + pl)
        (nums.foldl (· + ·) 0 + nums.length + indptr nums pl + start.getD pl 0)))
    (T0, List.range (nums.foldl (· + ·) 0 + nums.length))

theorem hInit_eq (nums start : List Nat) (T0 : M K) : hInit nums start T0 = hInitK nums start T0 nums.length := rfl

theorem hInitK_succ (nums start : List Nat) (T0 : M K) (k : Nat) :
    hInitK nums start T0 (k + 1) =
      (pivot (hInitK nums start T0 k).1
          (nums.foldl (· + ·) 0 + nums.length + indptr nums k + start.getD k 0) (nums.foldl (· + ·) 0 + k),
        (hInitK nums start T0 k).2.set (nums.foldl (· + ·) 0 + k)
          (nums.foldl (· + ·) 0 + nums.length + indptr nums k + start.getD k 0)) := by
  unfold hInitK
  rw [List.range_succ, List.foldl_append]; rfl

theorem cnt_range (n m L : Nat) (hm : m ≤ n) : cnt n (List.range m) L = ind (L < m) := by
  induction m with
  | zero => simp [cnt, ind]
  | succ m ih =>
    unfold cnt at ih ⊢
    rw [List.range_succ, List.countP_append, ih (by omega)]
    have hmod : m % n = m := Nat.mod_eq_of_lt (by omega)
    simp only [List.countP_cons, List.countP_nil, hmod, decide_eq_true_eq]
    unfold ind
    split_ifs <;> omega

/-- invariant of the fold: tableau invariant, untouched sum rows, label counts -/
theorem hInitK_inv (nums start : List Nat) (A : Nat → Nat → Nat → Nat → K) (pcm : K)
    (hstart : ∀ q, q < nums.length → start.getD q 0 < nums.getD q 0) :
    ∀ k, k ≤ nums.length →
      HInv (nums.foldl (· + ·) 0 + nums.length) (hTableau nums A pcm)
        (hInitK nums start (hTableau nums A pcm) k).1 (hInitK nums start (hTableau nums A pcm) k).2 ∧
      (∀ q, k ≤ q → q < nums.length →
        (∀ j, (hInitK nums start (hTableau nums A pcm) k).1.get (nums.foldl (· + ·) 0 + q) j
            = (hTableau nums A pcm).get (nums.foldl (· + ·) 0 + q) j) ∧
        (hInitK nums start (hTableau nums A pcm) k).2.getD (nums.foldl (· + ·) 0 + q) 0
            = nums.foldl (· + ·) 0 + q) ∧
      (∀ L, L < nums.foldl (· + ·) 0 + nums.length →
        cnt (nums.foldl (· + ·) 0 + nums.length) (hInitK nums start (hTableau nums A pcm) k).2 L
          + ind (nums.foldl (· + ·) 0 ≤ L ∧ L < nums.foldl (· + ·) 0 + k)
          = 1 + (List.range k).countP (fun q => decide (labX nums start q = L))) := by
  intro k
  induction k with
  | zero =>
    intro _
    refine ⟨hinv_initial nums A pcm, ?_, ?_⟩
    · intro q _ hq
      refine ⟨fun j => rfl, ?_⟩
      show (List.range _).getD _ 0 = _
      rw [List.getD_eq_getElem?_getD, List.getElem?_range (by omega)]; rfl
    · intro L hL
      show cnt _ (List.range _) L + _ = _
      rw [cnt_range _ _ _ (le_refl _)]
      unfold ind; simp [hL]
  | succ k ih =>
    intro hk
    obtain ⟨hinv, hun, hlab⟩ := ih (by omega)
    have hkN : k < nums.length := by omega
    rw [hInitK_succ]
    set S := hInitK nums start (hTableau nums A pcm) k with hS
    have hlx : labX nums start k < nums.foldl (· + ·) 0 := by
      have := indptr_block_le nums k hkN
      have := hstart k hkN
      rw [foldl_add_eq_sum]; unfold labX; omega
    have hcol : nums.foldl (· + ·) 0 + nums.length + indptr nums k + start.getD k 0
        = nums.foldl (· + ·) 0 + nums.length + labX nums start k := by unfold labX; omega
    have hpe : S.1.get (nums.foldl (· + ·) 0 + k)
        (nums.foldl (· + ·) 0 + nums.length + indptr nums k + start.getD k 0) = -(1 : K) := by
      rw [(hun k (le_refl _) hkN).1, hcol, hTableau_sumrow nums start A pcm k k hkN hkN (hstart k hkN)]
      simp
    have hpne : S.1.get (nums.foldl (· + ·) 0 + k)
        (nums.foldl (· + ·) 0 + nums.length + indptr nums k + start.getD k 0) ≠ 0 := by
      rw [hpe]; simp
    refine ⟨hinv_pivot _ _ _ _ _ _ hinv (by omega) (by rw [hcol]; omega) hpne, ?_, ?_⟩
    · intro q hkq hq
      have hqk : nums.foldl (· + ·) 0 + q ≠ nums.foldl (· + ·) 0 + k := by omega
      refine ⟨fun j => ?_, ?_⟩
      · -- the multiplier of row `ta + q` in the pivot column is zero
        have hz : S.1.get (nums.foldl (· + ·) 0 + q)
            (nums.foldl (· + ·) 0 + nums.length + indptr nums k + start.getD k 0) = 0 := by
          rw [(hun q (by omega) hq).1, hcol, hTableau_sumrow nums start A pcm q k hq hkN (hstart k hkN),
            if_neg (by omega)]; simp
        by_cases hj : j < S.1.nc
        · rw [pivot_get_i S.1 _ _ _ j (by rw [hinv.nr]; omega) hj hqk, hz, (hun q (by omega) hq).1]; ring
        · rw [wf_pivot S.1 _ _ _ j (Or.inr (by simpa using hj))]
          rw [← (hun q (by omega) hq).1 j, hinv.wf _ j (Or.inr (by omega))]
      · rw [getD_set_eq _ _ _ _ (by rw [hinv.blen]; omega), if_neg hqk]
        exact (hun q (by omega) hq).2
    · intro L hL
      have h1 := cnt_set (nums.foldl (· + ·) 0 + nums.length) S.2 (nums.foldl (· + ·) 0 + k)
        (nums.foldl (· + ·) 0 + nums.length + indptr nums k + start.getD k 0) L (by rw [hinv.blen]; omega)
      rw [(hun k (le_refl _) hkN).2, Nat.mod_eq_of_lt (by omega : nums.foldl (· + ·) 0 + k
        < nums.foldl (· + ·) 0 + nums.length), hcol, Nat.add_mod_left, Nat.mod_eq_of_lt (by omega)] at h1
      have h2 := hlab L hL
      rw [List.range_succ, List.countP_append]
      simp only [List.countP_cons, List.countP_nil, decide_eq_true_eq]
      unfold ind at h1 h2 ⊢
      rw [← hcol] at h1
      split_ifs at h1 h2 ⊢ <;> omega

/-! ### feasibility after the initial pivots -/

/-- second invariant of the fold: processed sum rows are the negated original rows (right-hand side
    `1`), the columns of the `x_{q,start_q}` still to enter are untouched in the action rows, and the
    action rows have a non-negative right-hand side — provided all costs `M[i,j]`, `i, j < ta`, are
    non-negative (that is what `positive_cost_maker` is for). -/
theorem hInitK_feas (nums start : List Nat) (A : Nat → Nat → Nat → Nat → K) (pcm : K)
    (hstart : ∀ q, q < nums.length → start.getD q 0 < nums.getD q 0)
    (hcost : ∀ i j, i < nums.foldl (· + ·) 0 → j < nums.foldl (· + ·) 0 →
      0 ≤ hM nums A pcm (nums.foldl (· + ·) 0) i j) :
    ∀ k, k ≤ nums.length →
      (∀ q, q < k → ∀ j, (hInitK nums start (hTableau nums A pcm) k).1.get (nums.foldl (· + ·) 0 + q) j
          = -(hTableau nums A pcm).get (nums.foldl (· + ·) 0 + q) j) ∧
      (∀ i, i < nums.foldl (· + ·) 0 → ∀ q, k ≤ q → q < nums.length →
        (hInitK nums start (hTableau nums A pcm) k).1.get i
            (nums.foldl (· + ·) 0 + nums.length + labX nums start q)
          = (hTableau nums A pcm).get i (nums.foldl (· + ·) 0 + nums.length + labX nums start q)) ∧
      (∀ i, i < nums.foldl (· + ·) 0 →
        0 ≤ (hInitK nums start (hTableau nums A pcm) k).1.get i (2 * (nums.foldl (· + ·) 0 + nums.length))) := by
  intro k
  induction k with
  | zero =>
    intro _
    refine ⟨fun q hq => absurd hq (by omega), fun i _ q _ _ => rfl, ?_⟩
    intro i hi
    show 0 ≤ (hTableau nums A pcm).get i _
    rw [hTableau_get nums A pcm i _ (by omega) (by omega), if_neg (by omega), if_neg (by omega), if_pos hi]
  | succ k ih =>
    intro hk
    obtain ⟨h1, h3, h4⟩ := ih (by omega)
    obtain ⟨hinv, hun, _⟩ := hInitK_inv nums start A pcm hstart k (by omega)
    have hkN : k < nums.length := by omega
    rw [hInitK_succ]
    set S := hInitK nums start (hTableau nums A pcm) k with hS
    have hlxq : ∀ q, q < nums.length → labX nums start q < nums.foldl (· + ·) 0 := by
      intro q hq
      have := indptr_block_le nums q hq
      have := hstart q hq
      rw [foldl_add_eq_sum]; unfold labX; omega
    have hcol : nums.foldl (· + ·) 0 + nums.length + indptr nums k + start.getD k 0
        = nums.foldl (· + ·) 0 + nums.length + labX nums start k := by unfold labX; omega
    rw [hcol]
    have hpe : S.1.get (nums.foldl (· + ·) 0 + k)
        (nums.foldl (· + ·) 0 + nums.length + labX nums start k) = -(1 : K) := by
      rw [(hun k (le_refl _) hkN).1, hTableau_sumrow nums start A pcm k k hkN hkN (hstart k hkN)]
      simp
    have hrk : nums.foldl (· + ·) 0 + k < S.1.nr := by rw [hinv.nr]; omega
    refine ⟨?_, ?_, ?_⟩
    · intro q hq j
      by_cases hj : j < S.1.nc
      · by_cases hqk : q = k
        · subst hqk
          rw [pivot_get_r S.1 _ _ j hrk hj, hpe, (hun q (le_refl _) hkN).1]
          rw [div_neg, div_one]
        · have hne : nums.foldl (· + ·) 0 + q ≠ nums.foldl (· + ·) 0 + k := by omega
          have hz : S.1.get (nums.foldl (· + ·) 0 + q)
              (nums.foldl (· + ·) 0 + nums.length + labX nums start k) = 0 := by
            rw [h1 q (by omega), hTableau_sumrow nums start A pcm q k (by omega) hkN (hstart k hkN),
              if_neg (by omega)]; simp
          rw [pivot_get_i S.1 _ _ _ j (by rw [hinv.nr]; omega) hj hne, hz, h1 q (by omega)]; ring
      · rw [wf_pivot S.1 _ _ _ j (Or.inr (by simpa using hj))]
        have hw : (hTableau nums A pcm).get (nums.foldl (· + ·) 0 + q) j = 0 := by
          have : WF (hTableau nums A pcm) := by unfold hTableau; exact wf_tab _ _ _
          apply this _ j (Or.inr _)
          have e : (hTableau nums A pcm).nc = 2 * (nums.foldl (· + ·) 0 + nums.length) + 1 := rfl
          rw [e]; rw [hinv.nc] at hj; omega
        rw [hw]; simp
    · intro i hi q hkq hq
      have hne : i ≠ nums.foldl (· + ·) 0 + k := by omega
      have hz : S.1.get (nums.foldl (· + ·) 0 + k)
          (nums.foldl (· + ·) 0 + nums.length + labX nums start q) = 0 := by
        rw [(hun k (le_refl _) hkN).1, hTableau_sumrow nums start A pcm k q hkN hq (hstart q hq),
          if_neg (by omega)]; simp
      rw [pivot_get_i S.1 _ _ i _ (by rw [hinv.nr]; omega)
        (by rw [hinv.nc]; have := hlxq q hq; omega) hne, hz, h3 i hi q (by omega) hq]; ring
    · intro i hi
      have hne : i ≠ nums.foldl (· + ·) 0 + k := by omega
      have hrhs : S.1.get (nums.foldl (· + ·) 0 + k) (2 * (nums.foldl (· + ·) 0 + nums.length)) = -(1 : K) := by
        rw [(hun k (le_refl _) hkN).1, hTableau_get nums A pcm _ _ (by omega) (by omega),
          if_neg (by omega), if_neg (by omega), if_neg (by omega)]
      rw [pivot_get_i S.1 _ _ i _ (by rw [hinv.nr]; omega) (by rw [hinv.nc]; omega) hne, hrhs, hpe,
        h3 i hi k (le_refl _) hkN]
      have hlx := hlxq k hkN
      rw [hTableau_get nums A pcm i _ (by omega) (by omega), if_neg (by omega), if_pos (by omega)]
      have e : nums.foldl (· + ·) 0 + nums.length + labX nums start k - (nums.foldl (· + ·) 0 + nums.length)
          = labX nums start k := by omega
      rw [e]
      have := hcost i (labX nums start k) hi hlx
      have := h4 i hi
      have e2 : (-(1 : K)) / (-1) = 1 := by norm_num
      rw [e2]; linarith

/-- the state after the initial pivots is feasible -/
theorem hInit_feas (nums start : List Nat) (A : Nat → Nat → Nat → Nat → K) (pcm : K)
    (hstart : ∀ q, q < nums.length → start.getD q 0 < nums.getD q 0)
    (hcost : ∀ i j, i < nums.foldl (· + ·) 0 → j < nums.foldl (· + ·) 0 →
      0 ≤ hM nums A pcm (nums.foldl (· + ·) 0) i j) :
    ∀ i, i < nums.foldl (· + ·) 0 + nums.length →
      0 ≤ (hInit nums start (hTableau nums A pcm)).1.get i (2 * (nums.foldl (· + ·) 0 + nums.length)) := by
  obtain ⟨h1, _, h4⟩ := hInitK_feas nums start A pcm hstart hcost nums.length (le_refl _)
  rw [hInit_eq]
  intro i hi
  by_cases hia : i < nums.foldl (· + ·) 0
  · exact h4 i hia
  · have e : i = nums.foldl (· + ·) 0 + (i - nums.foldl (· + ·) 0) := by omega
    rw [e, h1 (i - nums.foldl (· + ·) 0) (by omega),
      hTableau_get nums A pcm _ _ (by omega) (by omega), if_neg (by omega), if_neg (by omega), if_neg (by omega)]
    simp

end QE.C15
