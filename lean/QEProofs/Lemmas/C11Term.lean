/-
  Finite termination of `lcpLemke` (tolerances 0): no two states of the run have the same
  entering column and the same set of basic variables, hence at most
  `C(2n+1, n) · 2n` passes of the loop are possible.
-/
import QEProofs.Lemmas.C11NoReturn
import Mathlib.Data.Finset.Powerset
import Mathlib.Data.Finset.Prod
import Mathlib.Combinatorics.Pigeonhole

namespace QE.C11
open QE QE.Pivot Finset
set_option linter.unusedVariables false
set_option linter.unusedSectionVars false

variable {K : Type} [Field K] [LinearOrder K] [IsStrictOrderedRing K]

theorem Path.iter_prefix {S : Type} (F : S → Option S) : ∀ (a b : ℕ) (s t : S),
    Path.iter F (a + b) s = some t → ∃ sa, Path.iter F a s = some sa := by
  intro a
  induction a with
  | zero => intro b s t _; exact ⟨s, rfl⟩
  | succ a ih =>
    intro b s t h
    rw [show a + 1 + b = (a + b) + 1 by omega, Path.iter_succ] at h
    rw [Path.iter_succ]
    cases h1 : F s with
    | none => rw [h1] at h; simp at h
    | some s' =>
      rw [h1] at h; simp only [Option.bind_some] at h ⊢
      exact ih b s' t h

section
variable (n : ℕ) (Mm : ℕ → ℕ → K) (q d : ℕ → K)

theorem sameSet_flip_iff (s u : St K) (hs : s.c < 2 * n) (hu : u.c < 2 * n) :
    SameSet n (flipSt n s) (flipSt n u) ↔ SameSet n s u := by
  constructor
  · rintro ⟨h1, h2⟩
    refine ⟨?_, h2⟩
    have : complement n s.c = complement n u.c := h1
    have := congrArg (complement n) this
    rwa [complement_invol n _ hs, complement_invol n _ hu] at this
  · rintro ⟨h1, h2⟩
    exact ⟨by show complement n s.c = complement n u.c; rw [h1], h2⟩

/-- the mirror image of the start state is the primary ray: a dead end -/
theorem start_dead (hn : 0 < n) (hd : ∀ i, i < n → 0 < d i) :
    stepF n (flipSt n (startSt n Mm q d)) = none := by
  have hr := firstPivotRow_lt n hn q d (0 : K)
  set r := firstPivotRow n q d 0 with hrdef
  have hc : (flipSt n (startSt n Mm q d)).c = r := by
    show complement n (r + n) = r
    unfold complement; rw [if_neg (by omega)]; omega
  have hT : (flipSt n (startSt n Mm q d)).T = pivot (initTableau n Mm q d) (2 * n) r := rfl
  have hnr : (initTableau n Mm q d).nr = n := rfl
  have hnc : (initTableau n Mm q d).nc = 2 * n + 2 := rfl
  have hcol : ∀ k, k < (pivot (initTableau n Mm q d) (2 * n) r).nr →
      (pivot (initTableau n Mm q d) (2 * n) r).get k r ≤ 0 := by
    intro k hk
    have hk' : k < n := hk
    have hdr := hd r hr
    by_cases hkr : k = r
    · have e1 : (initTableau n Mm q d).get r r = 1 := by
        rw [init_get n Mm q d r r hr (by omega), if_pos hr, if_pos rfl]
      rw [hkr, pivot_get_r _ _ _ _ (by omega) (by omega), e1, init_get_art n Mm q d hn r hr, div_neg]
      have := one_div_pos.mpr hdr
      linarith
    · have e1 : (initTableau n Mm q d).get r r = 1 := by
        rw [init_get n Mm q d r r hr (by omega), if_pos hr, if_pos rfl]
      have e2 : (initTableau n Mm q d).get k r = 0 := by
        rw [init_get n Mm q d k r hk' (by omega), if_pos hr, if_neg (show ¬ r = k from fun e => hkr e.symm)]
      rw [pivot_get_i _ _ _ _ _ (by omega) (by omega) hkr, e1, e2, init_get_art n Mm q d hn r hr,
        init_get_art n Mm q d hn k hk']
      have : 1 / -d r * -d k = d k / d r := by rw [div_neg]; ring
      rw [this, zero_sub, neg_nonpos]
      exact le_of_lt (div_pos (hd k hk') hdr)
  unfold stepF
  rw [hc, hT, lexMinRatio_of_nonpos _ r 0 (0 : K) 0 hcol]
  simp

/-- key of a state: set of basic variables and entering column -/
def keyOf (s : St K) : Finset ℕ × ℕ := ((range n).image s.basis, s.c)

theorem sameSet_of_key (s u : St K) (h : keyOf n s = keyOf n u) : SameSet n s u := by
  unfold keyOf at h
  have h1 := (Prod.mk.injEq _ _ _ _ ▸ h : _ ∧ _)
  refine ⟨h1.2, ?_⟩
  intro v
  have e : v ∈ (range n).image s.basis ↔ v ∈ (range n).image u.basis := by rw [h1.1]
  simp only [Finset.mem_image, mem_range] at e
  exact e

theorem key_mem (s : St K) (hg : Good n Mm q d s) :
    keyOf n s ∈ (powersetCard n (range (2 * n + 1))) ×ˢ (range (2 * n)) := by
  obtain ⟨hI, he, hc, _⟩ := hg
  unfold keyOf
  rw [Finset.mem_product, Finset.mem_powersetCard]
  refine ⟨⟨?_, ?_⟩, mem_range.mpr hc⟩
  · intro v hv
    obtain ⟨a, ha, e⟩ := Finset.mem_image.mp hv
    have := hI.le a (mem_range.mp ha)
    rw [mem_range]; omega
  · rw [Finset.card_image_of_injOn, Finset.card_range]
    intro a ha b hb e
    exact hI.inj a b (by simpa using ha) (by simpa using hb) e

/-- **bound on the length of the path** -/
theorem iter_bound (hn : 0 < n) (hd : ∀ i, i < n → 0 < d i) (hq : ∃ i, i < n ∧ q i < 0)
    (N : ℕ) (st : St K) (h : Path.iter (stepF n) N (startSt n Mm q d) = some st) :
    N + 1 ≤ (2 * n + 1).choose n * (2 * n) := by
  by_contra hlt
  have hg1 := startSt_good n Mm q d hn hd hq
  -- states along the path
  have hpre : ∀ k, k ≤ N → ∃ sk, Path.iter (stepF n) k (startSt n Mm q d) = some sk := by
    intro k hk
    exact Path.iter_prefix (stepF n) k (N - k) _ st (by rw [show k + (N - k) = N by omega]; exact h)
  let f : ℕ → Finset ℕ × ℕ := fun k =>
    keyOf n ((Path.iter (stepF n) k (startSt n Mm q d)).getD (startSt n Mm q d))
  have hmaps : ∀ k ∈ range (N + 1), f k ∈ (powersetCard n (range (2 * n + 1))) ×ˢ (range (2 * n)) := by
    intro k hk
    obtain ⟨sk, hsk⟩ := hpre k (by have := mem_range.mp hk; omega)
    show keyOf n ((Path.iter (stepF n) k (startSt n Mm q d)).getD _) ∈ _
    rw [hsk]
    exact key_mem n Mm q d sk
      (Path.iter_good (stepF n) (Good n Mm q d) (good_step n Mm q d hn) k _ sk hg1 hsk)
  have hcard : ((powersetCard n (range (2 * n + 1))) ×ˢ (range (2 * n))).card < (range (N + 1)).card := by
    rw [Finset.card_product, Finset.card_powersetCard, Finset.card_range, Finset.card_range,
      Finset.card_range]
    omega
  obtain ⟨x, hx, y, hy, hxy, hfxy⟩ := Finset.exists_ne_map_eq_of_card_lt_of_maps_to hcard hmaps
  -- w.l.o.g. x < y
  have key : ∀ a b, a < b → b ≤ N → f a = f b → False := by
    intro a b hab hb hf
    obtain ⟨sa, hsa⟩ := hpre a (by omega)
    obtain ⟨sb, hsb⟩ := hpre b hb
    have hfa : f a = keyOf n sa := by show keyOf n ((Path.iter _ a _).getD _) = _; rw [hsa]; rfl
    have hfb : f b = keyOf n sb := by show keyOf n ((Path.iter _ b _).getD _) = _; rw [hsb]; rfl
    rw [hfa, hfb] at hf
    have hR := sameSet_of_key n sa sb hf
    exact Path.no_repeat (stepF n) (flipSt n) (SameSet n) (Good n Mm q d)
      (good_step n Mm q d hn) (good_flip n Mm q d) (sameSet_symm n) (sameSet_trans n)
      (step_sameSet n Mm q d hn) (step_rev n Mm q d hn)
      (fun s u hs hu hR => (sameSet_flip_iff n s u hs.2.2.1 hu.2.2.1).mp hR)
      (fun s u hs hu hR => (sameSet_flip_iff n s u hs.2.2.1 hu.2.2.1).mpr hR)
      (startSt n Mm q d) hg1 (start_dead n Mm q d hn hd) a b sa sb hab hsa hsb hR
  have hx' := mem_range.mp hx
  have hy' := mem_range.mp hy
  rcases Nat.lt_or_gt_of_ne hxy with hlt' | hgt'
  · exact key x y hlt' (by omega) hfxy
  · exact key y x hgt' (by omega) hfxy.symm

/-- **finite termination**: with an iteration limit above `C(2n+1,n)·2n` the run does not stop
    at the limit -/
theorem run_status_ne_one (hn : 0 < n) (hd : ∀ i, i < n → 0 < d i) (hq : ∃ i, i < n ∧ q i < 0)
    (maxIter : ℕ) (hm : (2 * n + 1).choose n * (2 * n) < maxIter) :
    (lemkeRun n Mm q d maxIter (0 : K) 0).status ≠ 1 := by
  intro hs
  have hrun : lemkeRun n Mm q d maxIter (0 : K) 0
      = lemkeLoop n (0 : K) 0 (maxIter - 1) (startSt n Mm q d).T (startSt n Mm q d).basis
          (startSt n Mm q d).c 1 := rfl
  rw [hrun] at hs
  obtain ⟨st, hst⟩ := (loop_iter n (maxIter - 1) (startSt n Mm q d) 1).2 hs
  have := iter_bound n Mm q d hn hd hq (maxIter - 1) st hst
  omega

end

end QE.C11
