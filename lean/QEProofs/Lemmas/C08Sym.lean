import QEProofs.Lemmas.C08Rec
import Mathlib.Tactic.NormNum
namespace QE.C08
open Finset
set_option linter.unusedSectionVars false
variable {K : Type} [Field K] [LinearOrder K] [IsStrictOrderedRing K]

theorem legeRule_symm (n : Nat) (a b tol : K) (z0 : List K) (hm : z0.length = (n + 1) / 2)
    (nodes weights : List K) (h : legeRule n a b tol z0 = some (nodes, weights))
    (k : Nat) (hk : k < n) (hmid : k ≠ n - 1 - k) :
    nodes.length = n ∧ weights.length = n ∧
    nodes.getD k 0 + nodes.getD (n - 1 - k) 0 = a + b ∧
    weights.getD k 0 = weights.getD (n - 1 - k) 0 := by
  unfold legeRule at h
  dsimp only at h
  generalize legeNewton n tol 100 0 z0 = res at h
  obtain ⟨st, its⟩ := res
  dsimp only at h
  split at h
  · exact absurd h (by simp)
  · simp only [Option.some.injEq, Prod.mk.injEq] at h
    obtain ⟨rfl, rfl⟩ := h
    have hk' : n - 1 - k < n := by omega
    have hkk : n - 1 - (n - 1 - k) = k := by omega
    refine ⟨by simp, by simp, ?_, ?_⟩
    · simp only [List.getD_eq_getElem?_getD, List.getElem?_map, List.getElem?_range hk,
        List.getElem?_range hk', Option.map_some, Option.getD_some, hkk, hm]
      by_cases h1 : k < (n + 1) / 2
      · have h2 : ¬ (n - 1 - k < (n + 1) / 2) := by omega
        rw [if_neg h2, if_pos h1, half_eq]; ring
      · have h2 : n - 1 - k < (n + 1) / 2 := by omega
        rw [if_pos h2, if_neg h1, half_eq]; ring
    · simp only [List.getD_eq_getElem?_getD, List.getElem?_map, List.getElem?_range hk,
        List.getElem?_range hk', Option.map_some, Option.getD_some, hkk, hm]
      by_cases h1 : k < (n + 1) / 2
      · have h2 : ¬ (n - 1 - k < (n + 1) / 2) := by omega
        rw [if_pos h1, if_neg h2]
      · have h2 : n - 1 - k < (n + 1) / 2 := by omega
        rw [if_neg h1, if_pos h2]
theorem legeNewton_length (n : Nat) (tol : K) : ∀ (fuel its : Nat) (zs : List K),
    (legeNewton n tol fuel its zs).1.length = zs.length := by
  intro fuel
  induction fuel with
  | zero => intro its zs; simp [legeNewton]
  | succ fuel ih =>
    intro its zs
    rw [legeNewton]
    split
    · simp
    · rw [ih]; simp

/-- support and positivity of the Gauss-Legendre rule of the model, *given* that the final Newton
    iterates lie in `(−1, 1)` and the derivative values `pp` are non-zero -/
theorem legeRule_support (n : Nat) (a b tol : K) (hab : a < b) (z0 : List K) (hm : z0.length = (n + 1) / 2)
    (nodes weights : List K) (h : legeRule n a b tol z0 = some (nodes, weights))
    (hst : ∀ s ∈ (legeNewton n tol 100 0 z0).1, -1 < s.1 ∧ s.1 < 1 ∧ s.2 ≠ 0) :
    (∀ x ∈ nodes, a < x ∧ x < b) ∧ (∀ w ∈ weights, 0 < w) := by
  have hlen := legeNewton_length n tol 100 0 z0
  unfold legeRule at h
  dsimp only at h
  generalize legeNewton n tol 100 0 z0 = res at h hst hlen
  obtain ⟨st, its⟩ := res
  dsimp only at h hst hlen
  split at h
  · exact absurd h (by simp)
  · simp only [Option.some.injEq, Prod.mk.injEq] at h
    obtain ⟨rfl, rfl⟩ := h
    have hxl : 0 < half * (b - a) := by rw [half_eq]; linarith
    have hmem : ∀ idx, idx < (n + 1) / 2 → st.getD idx (0, 0) ∈ st := by
      intro idx hidx
      have : idx < st.length := by rw [hlen, hm]; exact hidx
      simp [List.getD_eq_getElem?_getD, this]
    constructor
    · intro x hx
      obtain ⟨k, hk, rfl⟩ := List.mem_map.mp hx
      have hk' : k < n := by simpa using hk
      rw [hm]
      by_cases h1 : n - 1 - k < (n + 1) / 2
      · rw [if_pos h1]
        obtain ⟨l1, l2, _⟩ := hst _ (hmem _ h1)
        rw [half_eq] at *
        constructor <;> nlinarith
      · rw [if_neg h1]
        have h2 : k < (n + 1) / 2 := by omega
        obtain ⟨l1, l2, _⟩ := hst _ (hmem _ h2)
        rw [half_eq] at *
        constructor <;> nlinarith
    · intro w hw
      obtain ⟨k, hk, rfl⟩ := List.mem_map.mp hw
      have hk' : k < n := by simpa using hk
      rw [hm]
      have key : ∀ s : K × K, -1 < s.1 ∧ s.1 < 1 ∧ s.2 ≠ 0 →
          0 < ((2 : Nat) : K) * (half * (b - a)) / ((1 - s.1 * s.1) * s.2 * s.2) := by
        intro s ⟨l1, l2, l3⟩
        apply div_pos
        · have : (0 : K) < ((2 : Nat) : K) := by norm_num
          exact mul_pos this hxl
        · have h1 : 0 < 1 - s.1 * s.1 := by nlinarith
          have h2 : 0 < s.2 * s.2 := mul_self_pos.mpr l3
          rw [mul_assoc]
          exact mul_pos h1 h2
      by_cases h1 : k < (n + 1) / 2
      · simp only [if_pos h1]
        exact key _ (hst _ (hmem _ h1))
      · simp only [if_neg h1]
        have h2 : n - 1 - k < (n + 1) / 2 := by omega
        exact key _ (hst _ (hmem _ h2))

theorem hermAssemble_symm (n : Nat) (zs pps : List K) (sqrtpi sqrt2 : K) (hm : zs.length = (n + 1) / 2)
    (k : Nat) (hk : k < n) (hmid : k ≠ n - 1 - k) :
    (hermAssemble n zs pps sqrtpi sqrt2).1.length = n ∧ (hermAssemble n zs pps sqrtpi sqrt2).2.length = n ∧
    (hermAssemble n zs pps sqrtpi sqrt2).1.getD k 0 + (hermAssemble n zs pps sqrtpi sqrt2).1.getD (n - 1 - k) 0 = 0 ∧
    (hermAssemble n zs pps sqrtpi sqrt2).2.getD k 0 = (hermAssemble n zs pps sqrtpi sqrt2).2.getD (n - 1 - k) 0 := by
  unfold hermAssemble
  dsimp only
  have hk' : n - 1 - k < n := by omega
  have hkk : n - 1 - (n - 1 - k) = k := by omega
  refine ⟨by simp, by simp, ?_, ?_⟩
  · simp only [List.getD_eq_getElem?_getD, List.getElem?_map, List.getElem?_range hk,
      List.getElem?_range hk', Option.map_some, Option.getD_some, hkk, hm]
    by_cases h1 : k < (n + 1) / 2
    · have h2 : ¬ (n - 1 - k < (n + 1) / 2) := by omega
      rw [if_neg h2, if_pos h1]; ring
    · have h2 : n - 1 - k < (n + 1) / 2 := by omega
      rw [if_pos h2, if_neg h1]; ring
  · simp only [List.getD_eq_getElem?_getD, List.getElem?_map, List.getElem?_range hk,
      List.getElem?_range hk', Option.map_some, Option.getD_some, hkk, hm]
    by_cases h1 : k < (n + 1) / 2
    · have h2 : ¬ (n - 1 - k < (n + 1) / 2) := by omega
      rw [if_pos h1, if_neg h2]
    · have h2 : n - 1 - k < (n + 1) / 2 := by omega
      rw [if_neg h1, if_pos h2]

end QE.C08
