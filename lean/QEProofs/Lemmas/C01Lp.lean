/-
  Lemmas for C01, part 10: the linear-programming method.  Every tableau reached by
  `ddp_linprog_simplex` (the `n` initial pivots and the pivots of `solve_tableau`) is a row
  transform of the initial tableau whose multipliers can be read off its slack block
  (`RowInv`); at status 0 the criterion row therefore holds the reduced costs
  `r(s,a) + β q(s,a)·v − v(s)` of the returned `v`, all `≤ fea_tol`.
-/
import QEProofs.Lemmas.C01More
import QEProofs.Lemmas.C01Solve
import QEProofs.Lemmas.C04Simplex

set_option linter.unusedSectionVars false

namespace QE.C01
open List QE.Pivot

variable {K : Type} [Field K] [LinearOrder K] [IsStrictOrderedRing K]

/-- `T` (shape `(n+1) × (L+n+1)`) is obtained from `T0` by row operations that never use the
    criterion row `n` as a pivot row, `T0` having the identity in columns `L … L+n−1` of its
    first `n` rows and zeros there in row `n`: every row of `T` is the combination of the rows of
    `T0` with the multipliers found in its own slack block (plus row `n` of `T0` for row `n`). -/
def RowInv (T0 T : M K) (n L : ℕ) : Prop :=
  T.nr = n + 1 ∧ T.nc = L + n + 1 ∧
  ∀ i, i ≤ n → ∀ j, j < L + n + 1 →
    T.get i j = (if i = n then T0.get n j else 0) +
      ∑ k ∈ Finset.range n, T.get i (L + k) * T0.get k j

theorem rowInv_pivot {T0 T : M K} {n L : ℕ} (h : RowInv T0 T n L) (c r : ℕ) (hr : r < n) :
    RowInv T0 (pivot T c r) n L := by
  obtain ⟨hnr, hnc, hinv⟩ := h
  refine ⟨by simpa using hnr, by simpa using hnc, ?_⟩
  intro i hi j hj
  have hrr : r < T.nr := by omega
  have hii : i < T.nr := by omega
  have hjj : j < T.nc := by omega
  have hk : ∀ k ∈ Finset.range n, L + k < T.nc := fun k hk => by
    have := Finset.mem_range.mp hk; omega
  have hinvr := hinv r (by omega) j hj
  rw [if_neg (by omega)] at hinvr
  by_cases hir : i = r
  · subst hir
    rw [pivot_get_r T c i j hrr hjj, if_neg (by omega), zero_add]
    rw [Finset.sum_congr rfl fun k hk' => by rw [pivot_get_r T c i (L + k) hrr (hk k hk')]]
    rw [zero_add] at hinvr
    rw [hinvr, Finset.sum_div]
    apply Finset.sum_congr rfl
    intro k _
    ring
  · rw [pivot_get_i T c r i j hii hjj hir]
    rw [Finset.sum_congr rfl fun k hk' => by
      rw [pivot_get_i T c r i (L + k) hii (hk k hk') hir]]
    have hinvi := hinv i hi j hj
    rw [hinvi, hinvr, zero_add]
    simp only [sub_mul, Finset.sum_sub_distrib]
    have : ∑ x ∈ Finset.range n, T.get r (L + x) / T.get r c * T.get i c * T0.get x j
        = (∑ k ∈ Finset.range n, T.get r (L + k) * T0.get k j) / T.get r c * T.get i c := by
      rw [Finset.sum_div, Finset.sum_mul]
      apply Finset.sum_congr rfl
      intro k _
      ring
    rw [this]
    ring

/-! ### the initial tableau -/

theorem lpTableau_nr (P : Prob K) (β : K) : (lpTableau P β).nr = P.length + 1 := rfl
theorem lpTableau_nc (P : Prob K) (β : K) : (lpTableau P β).nc = (lpCols P).length + P.length + 1 := rfl

/-- slack block of the initial tableau: identity in the first `n` rows, zero in the criterion row -/
theorem lpTableau_slack (P : Prob K) (β : K) (i k : ℕ) (hi : i ≤ P.length) (hk : k < P.length) :
    (lpTableau P β).get i ((lpCols P).length + k) = if i = k then 1 else 0 := by
  unfold lpTableau
  rw [M.get_tab _ _ _ _ _ (by omega) (by omega)]
  by_cases hin : i < P.length
  · simp only [hin, if_true]
    rw [if_neg (by omega), if_pos (by omega)]
    by_cases hik : i = k
    · simp [hik]
    · rw [if_neg (by omega), if_neg hik]
  · have : i = P.length := by omega
    simp only [hin, if_false]
    rw [if_neg (by omega), if_neg (by omega)]

theorem rowInv_init (P : Prob K) (β : K) :
    RowInv (lpTableau P β) (lpTableau P β) P.length (lpCols P).length := by
  refine ⟨lpTableau_nr P β, lpTableau_nc P β, ?_⟩
  intro i hi j hj
  rw [Finset.sum_congr rfl fun k hk => by
    rw [lpTableau_slack P β i k hi (Finset.mem_range.mp hk)]]
  by_cases hin : i = P.length
  · subst hin
    rw [if_pos rfl]
    rw [Finset.sum_eq_zero]
    · simp
    · intro k hk
      have := Finset.mem_range.mp hk
      rw [if_neg (by omega)]; simp
  · rw [if_neg hin, zero_add]
    simp only [ite_mul, one_mul, zero_mul]
    rw [Finset.sum_ite_eq]
    simp [Finset.mem_range, show i < P.length by omega]

theorem rowInv_start (P : Prob K) (β : K) (basis0 : List ℕ) :
    RowInv (lpTableau P β) (lpStart P β basis0) P.length (lpCols P).length := by
  unfold lpStart
  have key : ∀ (l : List ℕ) (T : M K), (∀ i ∈ l, i < P.length) →
      RowInv (lpTableau P β) T P.length (lpCols P).length →
      RowInv (lpTableau P β) (l.foldl (fun T i => pivot T (basis0.getD i 0) i) T) P.length
        (lpCols P).length := by
    intro l
    induction l with
    | nil => intro T _ h; exact h
    | cons a l ih =>
      intro T hl h
      simp only [foldl_cons]
      exact ih _ (fun i hi => hl i (by simp [hi])) (rowInv_pivot h _ a (hl a (by simp)))
  exact key _ _ (fun i hi => mem_range.mp hi) (rowInv_init P β)

/-! ### `solve_tableau` (the C04 model, any tolerances) -/

theorem rowInv_step (tol : QE.C04.Tol K) {T0 T T' : M K} {b b' : List ℕ} {n L : ℕ}
    (h : RowInv T0 T n L) (hst : QE.C04.Step tol true T b T' b') : RowInv T0 T' n L := by
  obtain ⟨c, _, hf, hT, _⟩ := hst
  subst hT
  have hrow := (lexMinRatio_found_pos (QE.C04.dropLast T) c _ tol.piv tol.diff hf).1
  have : (QE.C04.dropLast T).nr = n := by simp [h.1]
  rw [this] at hrow
  exact rowInv_pivot h c _ hrow

theorem solveTableau_inv (tol : QE.C04.Tol K) {T0 : M K} {n L : ℕ} (fuel : ℕ) (T : M K) (b : List ℕ)
    (h : RowInv T0 T n L) :
    RowInv T0 (QE.C04.solveTableau tol true fuel T b).T n L ∧
    ((QE.C04.solveTableau tol true fuel T b).status = 0 →
      ∀ j < L, (QE.C04.solveTableau tol true fuel T b).T.get n j ≤ tol.fea) := by
  have hinv := QE.C04.solveTableau_induct tol true (fun T _ => RowInv T0 T n L)
    (fun T b T' b' hT hst => rowInv_step tol hT hst) fuel T b h
  refine ⟨hinv, fun hs j hj => ?_⟩
  have hpc := QE.C04.solveTableau_status0 tol true fuel T b hs
  have := QE.C04.pivotCol_none _ true tol.fea hpc j (by
    simp only [if_true]; rw [hinv.1, hinv.2.1]; omega)
  rwa [hinv.1] at this

/-! ### the columns -/

theorem list_sum_range_eq (n : ℕ) (f : ℕ → K) :
    ((range n).map f).sum = ∑ k ∈ Finset.range n, f k := by
  induction n with
  | zero => simp
  | succ n ih => rw [range_succ, map_append, sum_append, ih, Finset.sum_range_succ]; simp

/-- every column is a pair `(i, x)` with `i` a state and `x` one of its feasible pairs -/
theorem lpCols_mem {P : Prob K} {t : ℕ × Act K} :
    t ∈ lpCols P ↔ ∃ (h : t.1 < P.length), t.2 ∈ P[t.1] := by
  unfold lpCols
  rw [mem_flatMap]
  constructor
  · rintro ⟨⟨i, acts⟩, hz, ht⟩
    obtain ⟨k, hk, hkeq⟩ := mem_iff_getElem.mp hz
    simp only [getElem_zip, getElem_range, Prod.mk.injEq] at hkeq
    obtain ⟨x, hx, rfl⟩ := mem_map.mp ht
    have hkP : k < P.length := by simp at hk; omega
    simp only
    obtain ⟨rfl, rfl⟩ := hkeq
    exact ⟨hkP, hx⟩
  · rintro ⟨h, hx⟩
    refine ⟨(t.1, P[t.1]), ?_, mem_map.mpr ⟨t.2, hx, rfl⟩⟩
    apply mem_iff_getElem.mpr
    exact ⟨t.1, by simp [h], by simp⟩

theorem lpTableau_crit (P : Prob K) (β : K) (j : ℕ) (hj : j < (lpCols P).length) :
    (lpTableau P β).get P.length j = ((lpCols P).getD j dfltCol).2.r := by
  unfold lpTableau
  rw [M.get_tab _ _ _ _ _ (by omega) (by omega)]
  simp [hj]

theorem lpTableau_body (P : Prob K) (β : K) (k j : ℕ) (hk : k < P.length)
    (hj : j < (lpCols P).length) :
    (lpTableau P β).get k j = ((lpCols P).getD j dfltCol).2.q.getD k 0 * (-β) +
      (if ((lpCols P).getD j dfltCol).1 = k then 1 else 0) := by
  unfold lpTableau
  rw [M.get_tab _ _ _ _ _ (by omega) (by omega)]
  simp only [hk, hj, if_true]
  split_ifs <;> simp

/-- **reduced costs.** In a tableau satisfying `RowInv`, the criterion-row entry of the column of the
    pair `x` of state `i` is `r + β q·v − v(i)`, where `v(k) = −T[n, L+k]` is what
    `ddp_linprog_simplex` returns. -/
theorem rowInv_reduced_cost {P : Prob K} {β : K} {T : M K}
    (h : RowInv (lpTableau P β) T P.length (lpCols P).length) (j : ℕ) (hj : j < (lpCols P).length)
    (i : ℕ) (x : Act K) (hcol : (lpCols P).getD j dfltCol = (i, x))
    (hi : i < P.length) (hq : x.q.length = P.length) :
    T.get P.length j =
      qval β ((range P.length).map fun k => T.get P.length ((lpCols P).length + k) * (-(1 : K))) x
      - ((range P.length).map fun k => T.get P.length ((lpCols P).length + k) * (-(1 : K))).getD i 0 := by
  have hv : ∀ k, k < P.length →
      ((range P.length).map fun k => T.get P.length ((lpCols P).length + k) * (-(1 : K))).getD k 0
        = T.get P.length ((lpCols P).length + k) * (-(1 : K)) := by
    intro k hk
    rw [← getElem_eq_getD (h := by simp [hk]) 0]
    simp
  have hinv := h.2.2 P.length le_rfl j (by omega)
  rw [if_pos rfl, lpTableau_crit P β j hj] at hinv
  rw [Finset.sum_congr rfl fun k hk => by
    rw [lpTableau_body P β k j (Finset.mem_range.mp hk) hj]] at hinv
  simp only [hcol] at hinv
  rw [hinv]
  unfold qval
  rw [dot_eq_sum P.length x.q _ hq (by simp), list_sum_range_eq]
  rw [hv i hi]
  have h1 : ∑ k ∈ Finset.range P.length, x.q.getD k 0 *
        ((range P.length).map fun k => T.get P.length ((lpCols P).length + k) * (-(1 : K))).getD k 0
      = ∑ k ∈ Finset.range P.length, x.q.getD k 0 * (T.get P.length ((lpCols P).length + k) * (-(1 : K))) :=
    Finset.sum_congr rfl fun k hk => by rw [hv k (Finset.mem_range.mp hk)]
  rw [h1]
  simp only [mul_add, Finset.sum_add_distrib, mul_ite, mul_one, mul_zero]
  rw [Finset.sum_ite_eq]
  simp only [Finset.mem_range, hi, if_true]
  rw [Finset.mul_sum]
  have h2 : ∑ k ∈ Finset.range P.length, T.get P.length ((lpCols P).length + k) * (x.q.getD k 0 * -β)
      = ∑ k ∈ Finset.range P.length, β * (x.q.getD k 0 * (T.get P.length ((lpCols P).length + k) * -1)) :=
    Finset.sum_congr rfl fun k _ => by ring
  rw [h2]
  ring

/-- the value vector read off a tableau: `v(k) = −T[n, L+k]` -/
def vOfTab (P : Prob K) (T : M K) : List K :=
  (range P.length).map fun k => T.get P.length ((lpCols P).length + k) * (-(1 : K))

theorem vOfTab_getD (P : Prob K) (T : M K) (i : ℕ) (hi : i < P.length) :
    (vOfTab P T).getD i 0 = T.get P.length ((lpCols P).length + i) * (-(1 : K)) := by
  unfold vOfTab
  rw [← getElem_eq_getD (h := by simp [hi]) 0]; simp

@[simp] theorem vOfTab_length (P : Prob K) (T : M K) : (vOfTab P T).length = P.length := by
  simp [vOfTab]

/-- reduced costs bounded by `fea` in a tableau satisfying `RowInv` ⇒ `T v ≤ v + fea` -/
theorem dual_feasible_of_rowInv {P : Prob K} (hP : WF P) {β : K} {T : M K} {fea : K}
    (hinv : RowInv (lpTableau P β) T P.length (lpCols P).length)
    (hred : ∀ j < (lpCols P).length, T.get P.length j ≤ fea) :
    LeAdd fea (bellman P β (vOfTab P T)) (vOfTab P T) := by
  unfold LeAdd
  rw [forall₂_iff_get]
  refine ⟨by simp, fun i h1 h2 => ?_⟩
  have hi : i < P.length := by simpa using h1
  simp only [get_eq_getElem, bellman, getElem_map]
  have hx : bestAct β (vOfTab P T) P[i] ∈ P[i] := bestAct_mem (hP.nonempty _ (getElem_mem hi))
  set x := bestAct β (vOfTab P T) P[i] with hxdef
  have hmem : (i, x) ∈ lpCols P := lpCols_mem.mpr ⟨hi, hx⟩
  obtain ⟨j, hj, hjeq⟩ := mem_iff_getElem.mp hmem
  have hcol : (lpCols P).getD j dfltCol = (i, x) := by
    rw [← getElem_eq_getD (h := hj) dfltCol]; exact hjeq
  have hq := (hP.stoch _ (getElem_mem hi) x hx).2.2
  have hrc := rowInv_reduced_cost hinv j hj i x hcol hi hq
  have hle := hred j hj
  rw [hrc] at hle
  change qval β (vOfTab P T) x - (vOfTab P T).getD i 0 ≤ fea at hle
  rw [getElem_eq_getD 0]
  linarith

/-- **approximate dual feasibility at status 0.**  When `ddp_linprog_simplex` reports success, the
    returned `v` satisfies `r(s,a) + β q(s,a)·v ≤ v(s) + fea_tol` for every feasible pair, i.e.
    `T v ≤ v + fea_tol` entrywise — whatever start policy, pivot history and iteration count. -/
theorem lpSolve_dual_feasible {P : Prob K} (hP : WF P) {β : K} (tol : QE.C04.Tol K) (σ0 : List ℕ)
    (maxIter : ℕ) (hstop : (lpSolve tol P β σ0 maxIter).stopped = true) :
    LeAdd tol.fea (bellman P β (lpSolve tol P β σ0 maxIter).v) (lpSolve tol P β σ0 maxIter).v := by
  unfold lpSolve at hstop ⊢
  simp only at hstop ⊢
  generalize hb : ((range P.length).map fun i => findCol (lpCols P) i (σ0.getD i 0)) = basis0 at hstop ⊢
  have hinv := solveTableau_inv tol (maxIter - P.length) _ basis0 (rowInv_start P β basis0)
  have hst : (QE.C04.solveTableau tol true (maxIter - P.length) (lpStart P β basis0) basis0).status = 0 := by
    simpa using hstop
  exact dual_feasible_of_rowInv hP hinv.1 (hinv.2 hst)

end QE.C01
