/-
  Lemmas for C01, part 10: the linear-programming method.  Every tableau reached by
  `ddp_linprog_simplex` (the `n` initial pivots and the pivots of `solve_tableau`) is a row
  transform of the initial tableau whose multipliers can be read off its slack block
  (`RowInv`); at status 0 the criterion row therefore holds the reduced costs
  `r(s,a) + β q(s,a)·v − v(s)` of the returned `v`, all `≤ fea_tol`.
-/
import QEProofs.Lemmas.C01More
import QEProofs.Lemmas.C01Solve
import Mathlib.Algebra.BigOperators.Field
import Mathlib.Algebra.BigOperators.Ring.Finset
import Mathlib.Tactic.FieldSimp

set_option linter.unusedSectionVars false

namespace QE.C01
open List QE.Pivot

variable {K : Type} [Field K] [LinearOrder K] [IsStrictOrderedRing K]

/-! ### facts about the shared pivoting model `QEModel.Pivot` needed here
  (self-contained re-proofs, so that this file depends on no other property's lemma files) -/

@[simp] theorem lp_pivot_nr (T : M K) (c r : ℕ) : (pivot T c r).nr = T.nr := rfl
@[simp] theorem lp_pivot_nc (T : M K) (c r : ℕ) : (pivot T c r).nc = T.nc := rfl

theorem pivot_get_r (T : M K) (c r j : ℕ) (hr : r < T.nr) (hj : j < T.nc) :
    (pivot T c r).get r j = T.get r j / T.get r c := by
  unfold pivot
  rw [M.get_tab _ _ _ _ _ hr hj]
  simp

theorem pivot_get_i (T : M K) (c r i j : ℕ) (hi : i < T.nr) (hj : j < T.nc) (hir : i ≠ r) :
    (pivot T c r).get i j = T.get i j - (T.get r j / T.get r c) * T.get i c := by
  unfold pivot
  rw [M.get_tab _ _ _ _ _ hi hj]
  simp only [if_neg hir]
  by_cases hm : T.get i c = 0
  · simp [hm]
  · have : (T.get i c == 0) = false := by simpa using hm
    simp [this]

/-- the minimisers returned by one pass of the ratio test are among the candidates -/
theorem minRatio_foldl_subset (T : M K) (pc tc : ℕ) (tp td : K) : ∀ (l : List ℕ) (st : MRState K),
    ∀ i ∈ (l.foldl (minRatioStep T pc tc tp td) st).2, i ∈ st.2 ∨ i ∈ l := by
  intro l
  induction l with
  | nil => intro st i hi; exact Or.inl hi
  | cons a l ih =>
    intro st i hi
    simp only [foldl_cons] at hi
    rcases ih _ i hi with h | h
    · -- i is in the list part of the state after one step
      unfold minRatioStep at h
      split_ifs at h
      · exact Or.inl h
      · cases hst : st.1 with
        | none => simp only [hst] at h; simp at h; exact Or.inr (by simp [h])
        | some rmin =>
          simp only [hst] at h
          split_ifs at h
          · exact Or.inl h
          · simp at h; exact Or.inr (by simp [h])
          · simp only [mem_append, mem_singleton] at h
            rcases h with h | h
            · exact Or.inl h
            · exact Or.inr (by simp [h])
    · exact Or.inr (by simp [h])

theorem minRatioNoTie_subset (T : M K) (pc tc : ℕ) (cands : List ℕ) (tp td : K) (i : ℕ)
    (hi : i ∈ minRatioNoTie T pc tc cands tp td) : i ∈ cands := by
  unfold minRatioNoTie at hi
  rcases minRatio_foldl_subset T pc tc tp td cands (none, []) i hi with h | h
  · simp at h
  · exact h

theorem lexLoop_subset (T : M K) (pc : ℕ) (tp td : K) (js : List ℕ) :
    ∀ (a : List ℕ) (i : ℕ), i ∈ (lexLoop T pc tp td js a).2 → i ∈ a := by
  induction js with
  | nil => intro a i hi; simpa [lexLoop] using hi
  | cons j js ih =>
    intro a i hi
    unfold lexLoop at hi
    by_cases hj : j = pc
    · rw [if_pos hj] at hi; exact ih a i hi
    · rw [if_neg hj] at hi
      by_cases hl : (minRatioNoTie T pc j a tp td).length = 1
      · simp only [hl, if_true] at hi
        exact minRatioNoTie_subset T pc j a tp td i hi
      · simp only [hl, if_false] at hi
        exact minRatioNoTie_subset T pc j a tp td i (ih _ i hi)

theorem lexLoop_true_len (T : M K) (pc : ℕ) (tp td : K) (js : List ℕ) :
    ∀ (a : List ℕ), (lexLoop T pc tp td js a).1 = true →
      (lexLoop T pc tp td js a).2.length = 1 := by
  induction js with
  | nil => intro a h; simp [lexLoop] at h
  | cons j js ih =>
    intro a h
    unfold lexLoop at h ⊢
    by_cases hj : j = pc
    · rw [if_pos hj] at h ⊢; exact ih a h
    · rw [if_neg hj] at h ⊢
      by_cases hl : (minRatioNoTie T pc j a tp td).length = 1
      · simp only [hl, if_true]
      · simp only [hl, if_false] at h ⊢
        exact ih _ h

theorem headD_mem_len_one (l : List ℕ) (h : l.length = 1) : l.headD 0 ∈ l := by
  match l, h with
  | [x], _ => simp

/-- a found pivot row is a row of the tableau -/
theorem lexMinRatio_lt (T : M K) (pc ss : ℕ) (tp td : K)
    (h : (lexMinRatio T pc ss tp td).1 = true) : (lexMinRatio T pc ss tp td).2 < T.nr := by
  have hmem : (lexMinRatio T pc ss tp td).2 ∈
      minRatioNoTie T pc (T.nc - 1) (List.range T.nr) tp td := by
    unfold lexMinRatio at h ⊢
    by_cases h1 : (minRatioNoTie T pc (T.nc - 1) (List.range T.nr) tp td).length = 1
    · simp only [h1, if_true]
      exact headD_mem_len_one _ h1
    · simp only [h1, if_false] at h ⊢
      by_cases h2 : (minRatioNoTie T pc (T.nc - 1) (List.range T.nr) tp td).length ≥ 2
      · simp only [h2, if_true] at h ⊢
        have hlen := lexLoop_true_len T pc tp td _ _ h
        exact lexLoop_subset T pc tp td _ _ _ (headD_mem_len_one _ hlen)
      · simp only [h2, if_false] at h
        exact absurd h (by simp)
  exact List.mem_range.mp (minRatioNoTie_subset T pc _ _ tp td _ hmem)

/-- `T` (shape `(n+1) × (L+n+1)`) is obtained from `T0` by row operations that never use the
    criterion row `n` as a pivot row, `T0` having the identity in columns `L … L+n−1` of its
    first `n` rows and zeros there in row `n`: every row of `T` is the combination of the rows of
    `T0` with the multipliers found in its own slack block (plus row `n` of `T0` for row `n`). -/
def RowInv (T0 T : M K) (n L : ℕ) : Prop :=
  T.nr = n + 1 ∧ T.nc = L + n + 1 ∧
  ∀ i, i ≤ n → ∀ j, j < L + n + 1 →
    T.get i j = (if i = n then T0.get n j else 0) +
      ∑ k ∈ Finset.range n, T.get i (L + k) * T0.get k j

theorem rowInv_pivot {T0 T : M K} {n L : ℕ} (h : RowInv T0 T n L) (c r : ℕ) (hr : r < n) :
    RowInv T0 (pivot T c r) n L := by
  obtain ⟨hnr, hnc, hinv⟩ := h
  refine ⟨by simpa using hnr, by simpa using hnc, ?_⟩
  intro i hi j hj
  have hrr : r < T.nr := by omega
  have hii : i < T.nr := by omega
  have hjj : j < T.nc := by omega
  have hk : ∀ k ∈ Finset.range n, L + k < T.nc := fun k hk => by
    have := Finset.mem_range.mp hk; omega
  have hinvr := hinv r (by omega) j hj
  rw [if_neg (by omega)] at hinvr
  by_cases hir : i = r
  · subst hir
    rw [pivot_get_r T c i j hrr hjj, if_neg (by omega), zero_add]
    rw [Finset.sum_congr rfl fun k hk' => by rw [pivot_get_r T c i (L + k) hrr (hk k hk')]]
    rw [zero_add] at hinvr
    rw [hinvr, Finset.sum_div]
    apply Finset.sum_congr rfl
    intro k _
    ring
  · rw [pivot_get_i T c r i j hii hjj hir]
    rw [Finset.sum_congr rfl fun k hk' => by
      rw [pivot_get_i T c r i (L + k) hii (hk k hk') hir]]
    have hinvi := hinv i hi j hj
    rw [hinvi, hinvr, zero_add]
    simp only [sub_mul, Finset.sum_sub_distrib]
    have : ∑ x ∈ Finset.range n, T.get r (L + x) / T.get r c * T.get i c * T0.get x j
        = (∑ k ∈ Finset.range n, T.get r (L + k) * T0.get k j) / T.get r c * T.get i c := by
      rw [Finset.sum_div, Finset.sum_mul]
      apply Finset.sum_congr rfl
      intro k _
      ring
    rw [this]
    ring

/-! ### the initial tableau -/

theorem lpTableau_nr (P : Prob K) (β : K) : (lpTableau P β).nr = P.length + 1 := rfl
theorem lpTableau_nc (P : Prob K) (β : K) : (lpTableau P β).nc = (lpCols P).length + P.length + 1 := rfl

/-- slack block of the initial tableau: identity in the first `n` rows, zero in the criterion row -/
theorem lpTableau_slack (P : Prob K) (β : K) (i k : ℕ) (hi : i ≤ P.length) (hk : k < P.length) :
    (lpTableau P β).get i ((lpCols P).length + k) = if i = k then 1 else 0 := by
  unfold lpTableau
  rw [M.get_tab _ _ _ _ _ (by omega) (by omega)]
  by_cases hin : i < P.length
  · simp only [hin, if_true]
    rw [if_neg (by omega), if_pos (by omega)]
    by_cases hik : i = k
    · simp [hik]
    · rw [if_neg (by omega), if_neg hik]
  · have : i = P.length := by omega
    simp only [hin, if_false]
    rw [if_neg (by omega), if_neg (by omega)]

theorem rowInv_init (P : Prob K) (β : K) :
    RowInv (lpTableau P β) (lpTableau P β) P.length (lpCols P).length := by
  refine ⟨lpTableau_nr P β, lpTableau_nc P β, ?_⟩
  intro i hi j hj
  rw [Finset.sum_congr rfl fun k hk => by
    rw [lpTableau_slack P β i k hi (Finset.mem_range.mp hk)]]
  by_cases hin : i = P.length
  · subst hin
    rw [if_pos rfl]
    rw [Finset.sum_eq_zero]
    · simp
    · intro k hk
      have := Finset.mem_range.mp hk
      rw [if_neg (by omega)]; simp
  · rw [if_neg hin, zero_add]
    simp only [ite_mul, one_mul, zero_mul]
    rw [Finset.sum_ite_eq]
    simp [Finset.mem_range, show i < P.length by omega]

theorem rowInv_start (P : Prob K) (β : K) (basis0 : List ℕ) :
    RowInv (lpTableau P β) (lpStart P β basis0) P.length (lpCols P).length := by
  unfold lpStart
  have key : ∀ (l : List ℕ) (T : M K), (∀ i ∈ l, i < P.length) →
      RowInv (lpTableau P β) T P.length (lpCols P).length →
      RowInv (lpTableau P β) (l.foldl (fun T i => pivot T (basis0.getD i 0) i) T) P.length
        (lpCols P).length := by
    intro l
    induction l with
    | nil => intro T _ h; exact h
    | cons a l ih =>
      intro T hl h
      simp only [foldl_cons]
      exact ih _ (fun i hi => hl i (by simp [hi])) (rowInv_pivot h _ a (hl a (by simp)))
  exact key _ _ (fun i hi => mem_range.mp hi) (rowInv_init P β)

/-! ### `_pivot_col` -/

theorem pivotCol_some_stays (T : M K) : ∀ (l : List ℕ) (c : K) (j : ℕ),
    (l.foldl (fun (st : K × Option ℕ) j =>
      if st.1 < T.get (T.nr - 1) j then (T.get (T.nr - 1) j, some j) else st) (c, some j)).2 ≠ none := by
  intro l
  induction l with
  | nil => intro c j; simp
  | cons a l ih =>
    intro c j
    simp only [foldl_cons]
    split_ifs
    · exact ih _ _
    · exact ih _ _

theorem pivotCol_none_aux (T : M K) : ∀ (l : List ℕ) (c : K),
    (l.foldl (fun (st : K × Option ℕ) j =>
      if st.1 < T.get (T.nr - 1) j then (T.get (T.nr - 1) j, some j) else st) (c, none)).2 = none →
    ∀ j ∈ l, T.get (T.nr - 1) j ≤ c := by
  intro l
  induction l with
  | nil => intro c _ j hj; simp at hj
  | cons a l ih =>
    intro c h j hj
    simp only [foldl_cons] at h
    by_cases hlt : c < T.get (T.nr - 1) a
    · rw [if_pos hlt] at h
      exact absurd h (pivotCol_some_stays T l _ _)
    · rw [if_neg hlt] at h
      rcases mem_cons.mp hj with rfl | hj
      · exact not_lt.mp hlt
      · exact ih c h j hj

/-- no entering column: every scanned criterion coefficient is `≤ fea_tol` -/
theorem pivotCol_none {T : M K} {stop : ℕ} {fea : K} (h : pivotCol T stop fea = none) :
    ∀ j < stop, T.get (T.nr - 1) j ≤ fea := by
  intro j hj
  exact pivotCol_none_aux T (range stop) fea h j (mem_range.mpr hj)

/-! ### `solve_tableau` -/

theorem solveTableau_inv (tol : PivTol K) {T0 : M K} {n L : ℕ} : ∀ (fuel : ℕ) (T : M K) (b : List ℕ),
    RowInv T0 T n L →
    RowInv T0 (solveTableau tol fuel T b).T n L ∧
    ((solveTableau tol fuel T b).status = 0 →
      ∀ j < L, (solveTableau tol fuel T b).T.get n j ≤ tol.fea) := by
  intro fuel
  induction fuel with
  | zero => intro T b h; exact ⟨h, fun hs => by simp [solveTableau] at hs⟩
  | succ fuel ih =>
    intro T b h
    simp only [solveTableau]
    cases hpc : pivotCol T (T.nc - 1 - (T.nr - 1)) tol.fea with
    | none =>
      simp only
      refine ⟨h, fun _ j hj => ?_⟩
      have := pivotCol_none hpc j (by rw [h.1, h.2.1]; omega)
      rwa [h.1] at this
    | some c =>
      simp only
      by_cases hf : (lexMinRatio { T with nr := T.nr - 1 } c (T.nc - (T.nr - 1) - 1) tol.piv tol.diff).1 = true
      · rw [if_pos hf]
        have hrow := lexMinRatio_lt { T with nr := T.nr - 1 } c _ tol.piv tol.diff hf
        have hr : (lexMinRatio { T with nr := T.nr - 1 } c (T.nc - (T.nr - 1) - 1) tol.piv tol.diff).2 < n := by
          have : ({ T with nr := T.nr - 1 } : M K).nr = n := by simp [h.1]
          rwa [this] at hrow
        exact ih _ _ (rowInv_pivot h c _ hr)
      · rw [if_neg hf]
        exact ⟨h, fun hs => by simp at hs⟩

/-! ### the columns -/

theorem list_sum_range_eq (n : ℕ) (f : ℕ → K) :
    ((range n).map f).sum = ∑ k ∈ Finset.range n, f k := by
  induction n with
  | zero => simp
  | succ n ih => rw [range_succ, map_append, sum_append, ih, Finset.sum_range_succ]; simp

/-- every column is a pair `(i, x)` with `i` a state and `x` one of its feasible pairs -/
theorem lpCols_mem {P : Prob K} {t : ℕ × Act K} :
    t ∈ lpCols P ↔ ∃ (h : t.1 < P.length), t.2 ∈ P[t.1] := by
  unfold lpCols
  rw [mem_flatMap]
  constructor
  · rintro ⟨⟨i, acts⟩, hz, ht⟩
    obtain ⟨k, hk, hkeq⟩ := mem_iff_getElem.mp hz
    simp only [getElem_zip, getElem_range, Prod.mk.injEq] at hkeq
    obtain ⟨x, hx, rfl⟩ := mem_map.mp ht
    have hkP : k < P.length := by simp at hk; omega
    simp only
    obtain ⟨rfl, rfl⟩ := hkeq
    exact ⟨hkP, hx⟩
  · rintro ⟨h, hx⟩
    refine ⟨(t.1, P[t.1]), ?_, mem_map.mpr ⟨t.2, hx, rfl⟩⟩
    apply mem_iff_getElem.mpr
    exact ⟨t.1, by simp [h], by simp⟩

theorem lpTableau_crit (P : Prob K) (β : K) (j : ℕ) (hj : j < (lpCols P).length) :
    (lpTableau P β).get P.length j = ((lpCols P).getD j dfltCol).2.r := by
  unfold lpTableau
  rw [M.get_tab _ _ _ _ _ (by omega) (by omega)]
  simp [hj]

theorem lpTableau_body (P : Prob K) (β : K) (k j : ℕ) (hk : k < P.length)
    (hj : j < (lpCols P).length) :
    (lpTableau P β).get k j = ((lpCols P).getD j dfltCol).2.q.getD k 0 * (-β) +
      (if ((lpCols P).getD j dfltCol).1 = k then 1 else 0) := by
  unfold lpTableau
  rw [M.get_tab _ _ _ _ _ (by omega) (by omega)]
  simp only [hk, hj, if_true]
  split_ifs <;> simp

/-- **reduced costs.** In a tableau satisfying `RowInv`, the criterion-row entry of the column of the
    pair `x` of state `i` is `r + β q·v − v(i)`, where `v(k) = −T[n, L+k]` is what
    `ddp_linprog_simplex` returns. -/
theorem rowInv_reduced_cost {P : Prob K} {β : K} {T : M K}
    (h : RowInv (lpTableau P β) T P.length (lpCols P).length) (j : ℕ) (hj : j < (lpCols P).length)
    (i : ℕ) (x : Act K) (hcol : (lpCols P).getD j dfltCol = (i, x))
    (hi : i < P.length) (hq : x.q.length = P.length) :
    T.get P.length j =
      qval β ((range P.length).map fun k => T.get P.length ((lpCols P).length + k) * (-(1 : K))) x
      - ((range P.length).map fun k => T.get P.length ((lpCols P).length + k) * (-(1 : K))).getD i 0 := by
  have hv : ∀ k, k < P.length →
      ((range P.length).map fun k => T.get P.length ((lpCols P).length + k) * (-(1 : K))).getD k 0
        = T.get P.length ((lpCols P).length + k) * (-(1 : K)) := by
    intro k hk
    rw [← getElem_eq_getD (h := by simp [hk]) 0]
    simp
  have hinv := h.2.2 P.length le_rfl j (by omega)
  rw [if_pos rfl, lpTableau_crit P β j hj] at hinv
  rw [Finset.sum_congr rfl fun k hk => by
    rw [lpTableau_body P β k j (Finset.mem_range.mp hk) hj]] at hinv
  simp only [hcol] at hinv
  rw [hinv]
  unfold qval
  rw [dot_eq_sum P.length x.q _ hq (by simp), list_sum_range_eq]
  rw [hv i hi]
  have h1 : ∑ k ∈ Finset.range P.length, x.q.getD k 0 *
        ((range P.length).map fun k => T.get P.length ((lpCols P).length + k) * (-(1 : K))).getD k 0
      = ∑ k ∈ Finset.range P.length, x.q.getD k 0 * (T.get P.length ((lpCols P).length + k) * (-(1 : K))) :=
    Finset.sum_congr rfl fun k hk => by rw [hv k (Finset.mem_range.mp hk)]
  rw [h1]
  simp only [mul_add, Finset.sum_add_distrib, mul_ite, mul_one, mul_zero]
  rw [Finset.sum_ite_eq]
  simp only [Finset.mem_range, hi, if_true]
  rw [Finset.mul_sum]
  have h2 : ∑ k ∈ Finset.range P.length, T.get P.length ((lpCols P).length + k) * (x.q.getD k 0 * -β)
      = ∑ k ∈ Finset.range P.length, β * (x.q.getD k 0 * (T.get P.length ((lpCols P).length + k) * -1)) :=
    Finset.sum_congr rfl fun k _ => by ring
  rw [h2]
  ring

/-- **approximate dual feasibility at status 0.**  When `ddp_linprog_simplex` reports success, the
    returned `v` satisfies `r(s,a) + β q(s,a)·v ≤ v(s) + fea_tol` for every feasible pair, i.e.
    `T v ≤ v + fea_tol` entrywise — whatever start policy, pivot history and iteration count. -/
theorem lpSolve_dual_feasible {P : Prob K} (hP : WF P) {β : K} (tol : PivTol K) (σ0 : List ℕ)
    (maxIter : ℕ) (hstop : (lpSolve tol P β σ0 maxIter).stopped = true) :
    LeAdd tol.fea (bellman P β (lpSolve tol P β σ0 maxIter).v) (lpSolve tol P β σ0 maxIter).v := by
  unfold lpSolve at hstop ⊢
  simp only at hstop ⊢
  generalize hb : ((range P.length).map fun i => findCol (lpCols P) i (σ0.getD i 0)) = basis0 at hstop ⊢
  have hinv := solveTableau_inv tol (maxIter - P.length) _ basis0 (rowInv_start P β basis0)
  have hst : (solveTableau tol (maxIter - P.length) (lpStart P β basis0) basis0).status = 0 := by
    simpa using hstop
  have hred := hinv.2 hst
  set rT := (solveTableau tol (maxIter - P.length) (lpStart P β basis0) basis0).T with hrT
  unfold LeAdd
  rw [forall₂_iff_get]
  refine ⟨by simp, fun i h1 h2 => ?_⟩
  have hi : i < P.length := by simpa using h1
  simp only [get_eq_getElem, bellman, getElem_map]
  have hx : bestAct β ((range P.length).map fun k => rT.get P.length ((lpCols P).length + k) * (-(1 : K))) P[i]
      ∈ P[i] := bestAct_mem (hP.nonempty _ (getElem_mem hi))
  set x := bestAct β ((range P.length).map fun k => rT.get P.length ((lpCols P).length + k) * (-(1 : K))) P[i]
    with hxdef
  have hmem : (i, x) ∈ lpCols P := lpCols_mem.mpr ⟨hi, hx⟩
  obtain ⟨j, hj, hjeq⟩ := mem_iff_getElem.mp hmem
  have hcol : (lpCols P).getD j dfltCol = (i, x) := by
    rw [← getElem_eq_getD (h := hj) dfltCol]; exact hjeq
  have hq := (hP.stoch _ (getElem_mem hi) x hx).2.2
  have hrc := rowInv_reduced_cost hinv.1 j hj i x hcol hi hq
  have hle := hred j hj
  rw [hrc] at hle
  have hvi : ((range P.length).map fun k => rT.get P.length ((lpCols P).length + k) * (-(1 : K))).getD i 0
      = rT.get P.length ((lpCols P).length + i) * (-(1 : K)) := by
    rw [← getElem_eq_getD (h := by simp [hi]) 0]; simp
  rw [hvi] at hle
  simp only [getElem_range]
  linarith

end QE.C01
