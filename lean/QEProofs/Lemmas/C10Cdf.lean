/-
  Lemmas for C10, part 2: cumulative sums, the inverse-CDF step, NumPy's `searchsorted`
  (`DiscreteRV.draw`).  About the addition only `x + 0 = x` and `0 ≤ p → x ≤ x + p` are
  assumed (both hold for IEEE-754 round-to-nearest addition of finite doubles as well as for
  exact addition), never associativity or exactness.
-/
import Mathlib.Order.Defs.LinearOrder
import QEModel.C10
import QEProofs.Lemmas.C10Search
namespace QE.C10
variable {α : Type}

/-! ### cumsum -/

theorem cumsumFrom_length [Add α] (acc : α) (l : List α) : (cumsumFrom acc l).length = l.length := by
  induction l generalizing acc with
  | nil => rfl
  | cons x xs ih => simp [cumsumFrom, ih]

theorem cumsum_length [Add α] (l : List α) : (cumsum l).length = l.length := by
  cases l with
  | nil => rfl
  | cons x xs => simp [cumsum, cumsumFrom_length]

theorem cumsum_ne_nil [Add α] {l : List α} (h : l ≠ []) : cumsum l ≠ [] := by
  intro hc
  have := cumsum_length l
  rw [hc] at this
  exact h (List.eq_nil_of_length_eq_zero this.symm)

theorem cumsumFrom_zero [Add α] (acc : α) (l : List α) (h : 0 < (cumsumFrom acc l).length)
    (h' : 0 < l.length) : (cumsumFrom acc l)[0] = acc + l[0] := by
  cases l with
  | nil => simp at h'
  | cons x xs => simp [cumsumFrom]

theorem cumsumFrom_succ [Add α] (acc : α) (l : List α) (i : Nat)
    (h : i + 1 < (cumsumFrom acc l).length) (h' : i + 1 < l.length) :
    (cumsumFrom acc l)[i + 1] = (cumsumFrom acc l)[i] + l[i + 1] := by
  induction l generalizing acc i with
  | nil => simp at h'
  | cons x xs ih =>
    cases i with
    | zero =>
      simp only [cumsumFrom, List.getElem_cons_succ, List.getElem_cons_zero]
      exact cumsumFrom_zero _ _ _ _
    | succ i =>
      simp only [cumsumFrom, List.getElem_cons_succ]
      exact ih _ _ _ _

/-- `np.cumsum(p)[0] = p[0]` -/
theorem cumsum_zero [Add α] (l : List α) (h : 0 < (cumsum l).length) (h' : 0 < l.length) :
    (cumsum l)[0] = l[0] := by
  cases l with
  | nil => simp at h'
  | cons x xs => simp [cumsum]

/-- `np.cumsum(p)[i+1] = np.cumsum(p)[i] + p[i+1]` (one addition per entry, left to right) -/
theorem cumsum_succ [Add α] (l : List α) (i : Nat) (h : i + 1 < (cumsum l).length)
    (h' : i + 1 < l.length) : (cumsum l)[i + 1] = (cumsum l)[i] + l[i + 1] := by
  cases l with
  | nil => simp at h'
  | cons x xs =>
    cases i with
    | zero =>
      simp only [cumsum, List.getElem_cons_succ, List.getElem_cons_zero]
      exact cumsumFrom_zero _ _ _ _
    | succ i =>
      simp only [cumsum, List.getElem_cons_succ]
      exact cumsumFrom_succ _ _ _ _ _

/-- monotone accumulation: with nonnegative masses the cumulative sums are sorted -/
theorem cumsumFrom_sorted [LinearOrder α] [Add α] [Zero α]
    (hmono : ∀ x p : α, 0 ≤ p → x ≤ x + p) (acc : α) (l : List α) (hl : ∀ x ∈ l, (0 : α) ≤ x) :
    (cumsumFrom acc l).Pairwise (· ≤ ·) ∧ ∀ y ∈ cumsumFrom acc l, acc ≤ y := by
  induction l generalizing acc with
  | nil => simp [cumsumFrom]
  | cons x xs ih =>
    have hx : (0 : α) ≤ x := hl x (by simp)
    obtain ⟨h1, h2⟩ := ih (acc + x) (fun y hy => hl y (by simp [hy]))
    simp only [cumsumFrom, List.pairwise_cons, List.mem_cons]
    refine ⟨⟨h2, h1⟩, ?_⟩
    rintro y (rfl | hy)
    · exact hmono _ _ hx
    · exact le_trans (hmono _ _ hx) (h2 y hy)

theorem cumsum_sorted [LinearOrder α] [Add α] [Zero α]
    (hmono : ∀ x p : α, 0 ≤ p → x ≤ x + p) (l : List α) (hl : ∀ x ∈ l, (0 : α) ≤ x) :
    (cumsum l).Pairwise (· ≤ ·) := by
  cases l with
  | nil => simp [cumsum]
  | cons x xs =>
    obtain ⟨h1, h2⟩ := cumsumFrom_sorted hmono x xs (fun y hy => hl y (by simp [hy]))
    simp only [cumsum, List.pairwise_cons]
    exact ⟨h2, h1⟩

/-! ### the step has positive probability -/

/-- if two consecutive cumulative sums differ, the mass added between them is not zero -/
theorem mass_ne_zero_of_cdf_ne [Add α] [Zero α] (hadd0 : ∀ x : α, x + 0 = x) (p : List α) (i : Nat)
    (h' : i + 1 < p.length)
    (hne : (cumsum p)[i + 1]'(by rw [cumsum_length]; exact h') ≠
           (cumsum p)[i]'(by rw [cumsum_length]; omega)) :
    p[i + 1] ≠ 0 := by
  intro h0
  apply hne
  rw [cumsum_succ p i (by rw [cumsum_length]; exact h') h', h0, hadd0]

/-- **Positive probability.** For a row `p` of nonnegative masses whose last cumulative sum is
    positive and any `u ≥ 0`, the index returned by `searchsorted_cdf(cumsum p, u)` carries
    positive mass. Only `x + 0 = x` is used about the addition. -/
theorem searchsortedCdf_mass_pos [LinearOrder α] [Add α] [Zero α] (hadd0 : ∀ x : α, x + 0 = x)
    (p : List α) (u : α) (hp : ∀ x ∈ p, (0 : α) ≤ x) (hu : 0 ≤ u)
    (hlast : ∀ h : cumsum p ≠ [], 0 < (cumsum p).getLast h) (hne : p ≠ []) :
    ∃ h : searchsortedCdf (cumsum p) u < p.length, 0 < p[searchsortedCdf (cumsum p) u] := by
  have hcne : cumsum p ≠ [] := cumsum_ne_nil hne
  have hlen := cumsum_length p
  have hlt : searchsortedCdf (cumsum p) u < p.length := by
    have := searchsortedCdf_lt (cumsum p) u hcne; omega
  refine ⟨hlt, ?_⟩
  have hpos_of_ne : ∀ j (hj : j < p.length), p[j] ≠ 0 → 0 < p[j] := fun j hj h =>
    lt_of_le_of_ne (hp _ (List.getElem_mem hj)) (Ne.symm h)
  by_cases hcase : searchsorted (cumsum p) u = (cumsum p).length
  · -- u ≥ cdf[-1]: the back-off loop
    have hidx := searchsortedCdf_of_eq (cumsum p) u hcase
    have hb := backoff_stop (cumsum p) ((cumsum p).length - 1)
    have hbl := backoff_le (cumsum p) ((cumsum p).length - 1)
    have heq := backoff_eq (cumsum p) ((cumsum p).length - 1) (backoff (cumsum p) ((cumsum p).length - 1))
      (Nat.le_refl _) hbl
    generalize hbdef : backoff (cumsum p) ((cumsum p).length - 1) = b at *
    have hpl : 0 < p.length := List.length_pos_iff.mpr hne
    have hbl' : b < p.length := by omega
    simp only [hidx]
    rcases hb with hb0 | hbne
    · subst hb0
      have h0 : (cumsum p)[0]'(by omega) = (cumsum p).getLast hcne := by
        rw [List.getLast_eq_getElem]
        have := heq
        rw [List.getElem?_eq_getElem (by omega), List.getElem?_eq_getElem (by omega)] at this
        exact Option.some.inj this
      have := hlast hcne
      rw [← h0, cumsum_zero p (by omega) hpl] at this
      exact this
    · obtain ⟨c, rfl⟩ : ∃ c, b = c + 1 := by
        cases b with
        | zero =>
          simp at hbne
        | succ c => exact ⟨c, rfl⟩
      apply hpos_of_ne _ hbl'
      apply mass_ne_zero_of_cdf_ne hadd0 p c hbl'
      intro hcc
      have : ((cumsum p)[c + 1 - 1]? == (cumsum p)[c + 1]?) = true := by
        rw [Nat.add_sub_cancel, List.getElem?_eq_getElem (by omega), List.getElem?_eq_getElem (by omega), hcc]
        simp
      rw [this] at hbne
      exact Bool.noConfusion hbne
  · -- u < cdf[i], and i = 0 or cdf[i-1] ≤ u
    have hidx := searchsortedCdf_of_lt (cumsum p) u hcase
    obtain ⟨h1, h2⟩ := searchsorted_local (cumsum p) u
    simp only [hidx] at hlt ⊢
    generalize searchsorted (cumsum p) u = i at *
    rcases h2 with h2 | ⟨x, hx, hux⟩
    · exact absurd h2 hcase
    · obtain ⟨hb, rfl⟩ := List.getElem?_eq_some_iff.mp hx
      cases i with
      | zero =>
        rw [cumsum_zero p hb hlt] at hux
        exact lt_of_le_of_lt hu hux
      | succ c =>
        rcases h1 with h1 | ⟨y, hy, huy⟩
        · omega
        · obtain ⟨hb', rfl⟩ := List.getElem?_eq_some_iff.mp hy
          apply hpos_of_ne _ hlt
          apply mass_ne_zero_of_cdf_ne hadd0 p c hlt
          intro hcc
          apply huy
          simp only [Nat.add_sub_cancel]
          rw [← hcc]; exact hux

end QE.C10

namespace QE.C10
variable {α : Type}

/-! ### what the index is: inverse CDF, or the first index attaining the total mass -/

/-- `b` is the first index whose entry equals the last entry of `a` -/
def IsFirstMax [LT α] (a : List α) (b : Nat) : Prop :=
  ∃ (hne : a ≠ []) (hb : b < a.length), a[b] = a.getLast hne ∧ ∀ i (h : i < a.length), i < b → a[i] < a.getLast hne

theorem IsFirstMax.unique [LinearOrder α] {a : List α} {b c : Nat}
    (hb : IsFirstMax a b) (hc : IsFirstMax a c) : b = c := by
  obtain ⟨hne, hb1, hb2, hb3⟩ := hb
  obtain ⟨_, hc1, hc2, hc3⟩ := hc
  rcases Nat.lt_trichotomy b c with h | h | h
  · have := hc3 b hb1 h; rw [hb2] at this; exact absurd this (lt_irrefl _)
  · exact h
  · have := hb3 c hc1 h; rw [hc2] at this; exact absurd this (lt_irrefl _)

/-- on a sorted array the back-off loop started at the last index finds the first index
    attaining the last value -/
theorem backoff_isFirstMax [LinearOrder α] (a : List α) (hs : a.Pairwise (· ≤ ·)) (hne : a ≠ []) :
    IsFirstMax a (backoff a (a.length - 1)) := by
  have hp := List.pairwise_iff_getElem.mp hs
  have hpos : 0 < a.length := List.length_pos_iff.mpr hne
  have hbl := backoff_le a (a.length - 1)
  have hb := backoff_stop a (a.length - 1)
  have heq := backoff_eq a (a.length - 1) (backoff a (a.length - 1)) (Nat.le_refl _) hbl
  generalize backoff a (a.length - 1) = b at *
  have hblt : b < a.length := by omega
  have hval : a[b] = a.getLast hne := by
    rw [List.getLast_eq_getElem]
    rw [List.getElem?_eq_getElem hblt, List.getElem?_eq_getElem (by omega)] at heq
    exact Option.some.inj heq
  refine ⟨hne, hblt, hval, ?_⟩
  intro i hi hib
  rcases hb with hb0 | hbne
  · omega
  · obtain ⟨c, rfl⟩ : ∃ c, b = c + 1 := by
      cases b with
      | zero => omega
      | succ c => exact ⟨c, rfl⟩
    have hc : c < a.length := by omega
    have hne' : a[c] ≠ a[c + 1] := by
      intro hcc
      rw [Nat.add_sub_cancel, List.getElem?_eq_getElem hc, List.getElem?_eq_getElem hblt, hcc] at hbne
      simp at hbne
    have hle : a[c] ≤ a[c + 1] := hp c (c + 1) hc hblt (by omega)
    have hlt : a[c] < a[c + 1] := lt_of_le_of_ne hle hne'
    rw [← hval]
    by_cases hic : i = c
    · subst hic; exact hlt
    · exact lt_of_le_of_lt (hp i c hi hc (by omega)) hlt

/-- **Inverse CDF, exact statement** for a sorted nonempty `cdf`:
    * if `u < cdf[-1]`, the result `j` satisfies `cdf[i] ≤ u` for `i < j` and `u < cdf[i]` for `i ≥ j`
      (so `cdf[j-1] ≤ u < cdf[j]`);
    * otherwise it is the first index attaining `cdf[-1]` (the last state whose mass moved the
      cumulative sum). -/
theorem searchsortedCdf_spec [LinearOrder α] (cdf : List α) (u : α) (hs : cdf.Pairwise (· ≤ ·))
    (hne : cdf ≠ []) :
    (u < cdf.getLast hne → IsBisect cdf u (searchsortedCdf cdf u)) ∧
    (cdf.getLast hne ≤ u → IsFirstMax cdf (searchsortedCdf cdf u)) := by
  have hbis := searchsorted_isBisect cdf u hs
  have hpos : 0 < cdf.length := List.length_pos_iff.mpr hne
  constructor
  · intro hu
    have : searchsorted cdf u ≠ cdf.length := by
      intro h
      have := hbis.2.1 (cdf.length - 1) (by omega) (by omega)
      rw [List.getLast_eq_getElem] at hu
      exact absurd hu (not_lt.mpr this)
    rw [searchsortedCdf_of_lt cdf u this]; exact hbis
  · intro hu
    have : searchsorted cdf u = cdf.length := by
      by_contra h
      have hlt : searchsorted cdf u < cdf.length := by have := hbis.1; omega
      have h1 := hbis.2.2 (cdf.length - 1) (by omega) (by omega)
      rw [List.getLast_eq_getElem] at hu
      exact absurd h1 (not_lt.mpr hu)
    rw [searchsortedCdf_of_eq cdf u this]
    exact backoff_isFirstMax cdf hs hne

/-! ### NumPy's `ndarray.searchsorted` on sorted arrays (`DiscreteRV.draw`) -/

theorem takeWhile_length_spec (p : α → Bool) (l : List α) :
    (∀ i (h : i < l.length), i < (l.takeWhile p).length → p l[i] = true) ∧
    (∀ h : (l.takeWhile p).length < l.length, p l[(l.takeWhile p).length] = false) := by
  induction l with
  | nil => simp
  | cons x xs ih =>
    by_cases hx : p x = true
    · simp only [List.takeWhile_cons, hx, if_true, List.length_cons]
      constructor
      · intro i h hi
        cases i with
        | zero => simpa using hx
        | succ i => simpa using ih.1 i (by simpa using h) (by omega)
      · intro h
        simpa using ih.2 (by simpa using h)
    · simp only [List.takeWhile_cons, hx]
      simp only [Bool.false_eq_true, if_false, List.length_nil]
      constructor
      · intro i h hi; omega
      · intro h; simpa using hx

theorem npSearchRight_isBisect [LinearOrder α] (a : List α) (v : α) (hs : a.Pairwise (· ≤ ·)) :
    IsBisect a v (npSearchRight a v) := by
  have hp := List.pairwise_iff_getElem.mp hs
  obtain ⟨h1, h2⟩ := takeWhile_length_spec (fun y => !decide (v < y)) a
  have hle : npSearchRight a v ≤ a.length := (List.takeWhile_sublist _).length_le
  refine ⟨hle, ?_, ?_⟩
  · intro i hi hir
    have := h1 i hi hir
    simp at this
    exact this
  · intro i hi hri
    have hlt : npSearchRight a v < a.length := by omega
    have := h2 hlt
    simp at this
    by_cases hi' : i = npSearchRight a v
    · subst hi'; exact this
    · exact lt_of_lt_of_le this (hp _ i hlt hi (by unfold npSearchRight at *; omega))

/-- on sorted arrays NumPy's `searchsorted(side='right')` and the library's own binary search agree -/
theorem npSearchRight_eq_searchsorted [LinearOrder α] (a : List α) (v : α) (hs : a.Pairwise (· ≤ ·)) :
    npSearchRight a v = searchsorted a v :=
  (npSearchRight_isBisect a v hs).unique (searchsorted_isBisect a v hs)

theorem npSearchLeft_last_isFirstMax [LinearOrder α] (a : List α) (hs : a.Pairwise (· ≤ ·)) (hne : a ≠ []) :
    IsFirstMax a (npSearchLeft a (a.getLast hne)) := by
  have hp := List.pairwise_iff_getElem.mp hs
  have hpos : 0 < a.length := List.length_pos_iff.mpr hne
  have hLe : ∀ i (h : i < a.length), a[i] ≤ a.getLast hne := by
    intro i h
    rw [List.getLast_eq_getElem]
    by_cases hl : i = a.length - 1
    · subst hl; exact le_refl _
    · exact hp _ _ h (by omega) (by omega)
  obtain ⟨h1, h2⟩ := takeWhile_length_spec (fun y => decide (y < a.getLast hne)) a
  have hlt : npSearchLeft a (a.getLast hne) < a.length := by
    by_contra hcon
    have hle : npSearchLeft a (a.getLast hne) ≤ a.length := (List.takeWhile_sublist _).length_le
    have := h1 (a.length - 1) (by omega) (by unfold npSearchLeft at *; omega)
    simp only [decide_eq_true_eq] at this
    rw [List.getLast_eq_getElem] at this
    exact absurd this (lt_irrefl _)
  refine ⟨hne, hlt, ?_, ?_⟩
  · have h := h2 hlt
    simp only [decide_eq_false_iff_not, not_lt] at h
    exact le_antisymm (hLe _ _) h
  · intro i hi hib
    have := h1 i hi hib
    simpa using this

/-- **`DiscreteRV.draw` computes the same indices as `searchsorted_cdf`** whenever the cumulative
    sums are sorted: both repairs of F2 (NumPy side='left' look-up of `Q[-1]`, and the back-off
    loop) select the first index attaining the total mass. -/
theorem drvDraw_eq_map_searchsortedCdf [LinearOrder α] [Add α] (q us : List α)
    (hs : (cumsum q).Pairwise (· ≤ ·)) (hne : q ≠ []) :
    drvDraw q us = some (us.map (searchsortedCdf (cumsum q))) := by
  have hcne : cumsum q ≠ [] := cumsum_ne_nil hne
  unfold drvDraw
  simp only []
  have hlast : (cumsum q).getLast? = some ((cumsum q).getLast hcne) := List.getLast?_eq_some_getLast hcne
  rw [hlast]
  simp only [Option.some.injEq]
  apply List.map_congr_left
  intro u _
  rw [npSearchRight_eq_searchsorted _ _ hs]
  unfold searchsortedCdf
  simp only []
  split
  · exact (npSearchLeft_last_isFirstMax _ hs hcne).unique (backoff_isFirstMax _ hs hcne)
  · rfl

end QE.C10
