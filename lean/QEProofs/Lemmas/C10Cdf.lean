/-
  Lemmas for C10, part 2: cumulative sums, the inverse-CDF step, NumPy's `searchsorted`
  (`DiscreteRV.draw`).  About the addition only `x + 0 = x` and `0 ≤ p → x ≤ x + p` are
  assumed (both hold for IEEE-754 round-to-nearest addition of finite doubles as well as for
  exact addition), never associativity or exactness.
-/
import Mathlib.Order.Defs.LinearOrder
import QEModel.C10
import QEProofs.Lemmas.C10Search
namespace QE.C10
variable {α : Type}

/-! ### cumsum -/

theorem cumsumFrom_length [Add α] (acc : α) (l : List α) : (cumsumFrom acc l).length = l.length := by
  induction l generalizing acc with
  | nil => rfl
  | cons x xs ih => simp [cumsumFrom, ih]

theorem cumsum_length [Add α] (l : List α) : (cumsum l).length = l.length := by
  cases l with
  | nil => rfl
  | cons x xs => simp [cumsum, cumsumFrom_length]

theorem cumsum_ne_nil [Add α] {l : List α} (h : l ≠ []) : cumsum l ≠ [] := by
  intro hc
  have := cumsum_length l
  rw [hc] at this
  exact h (List.eq_nil_of_length_eq_zero this.symm)

theorem cumsumFrom_zero [Add α] (acc : α) (l : List α) (h : 0 < (cumsumFrom acc l).length)
    (h' : 0 < l.length) : (cumsumFrom acc l)[0] = acc + l[0] := by
  cases l with
  | nil => simp at h'
  | cons x xs => simp [cumsumFrom]

theorem cumsumFrom_succ [Add α] (acc : α) (l : List α) (i : Nat)
    (h : i + 1 < (cumsumFrom acc l).length) (h' : i + 1 < l.length) :
    (cumsumFrom acc l)[i + 1] = (cumsumFrom acc l)[i] + l[i + 1] := by
  induction l generalizing acc i with
  | nil => simp at h'
  | cons x xs ih =>
    cases i with
    | zero =>
      simp only [cumsumFrom, List.getElem_cons_succ, List.getElem_cons_zero]
      exact cumsumFrom_zero _ _ _ _
    | succ i =>
      simp only [cumsumFrom, List.getElem_cons_succ]
      exact ih _ _ _ _

/-- `np.cumsum(p)[0] = p[0]` -/
theorem cumsum_zero [Add α] (l : List α) (h : 0 < (cumsum l).length) (h' : 0 < l.length) :
    (cumsum l)[0] = l[0] := by
  cases l with
  | nil => simp at h'
  | cons x xs => simp [cumsum]

/-- `np.cumsum(p)[i+1] = np.cumsum(p)[i] + p[i+1]` (one addition per entry, left to right) -/
theorem cumsum_succ [Add α] (l : List α) (i : Nat) (h : i + 1 < (cumsum l).length)
    (h' : i + 1 < l.length) : (cumsum l)[i + 1] = (cumsum l)[i] + l[i + 1] := by
  cases l with
  | nil => simp at h'
  | cons x xs =>
    cases i with
    | zero =>
      simp only [cumsum, List.getElem_cons_succ, List.getElem_cons_zero]
      exact cumsumFrom_zero _ _ _ _
    | succ i =>
      simp only [cumsum, List.getElem_cons_succ]
      exact cumsumFrom_succ _ _ _ _ _

/-- monotone accumulation: with nonnegative masses the cumulative sums are sorted -/
theorem cumsumFrom_sorted [LinearOrder α] [Add α] [Zero α]
    (hmono : ∀ x p : α, 0 ≤ p → x ≤ x + p) (acc : α) (l : List α) (hl : ∀ x ∈ l, (0 : α) ≤ x) :
    (cumsumFrom acc l).Pairwise (· ≤ ·) ∧ ∀ y ∈ cumsumFrom acc l, acc ≤ y := by
  induction l generalizing acc with
  | nil => simp [cumsumFrom]
  | cons x xs ih =>
    have hx : (0 : α) ≤ x := hl x (by simp)
    obtain ⟨h1, h2⟩ := ih (acc + x) (fun y hy => hl y (by simp [hy]))
    simp only [cumsumFrom, List.pairwise_cons, List.mem_cons]
    refine ⟨⟨h2, h1⟩, ?_⟩
    rintro y (rfl | hy)
    · exact hmono _ _ hx
    · exact le_trans (hmono _ _ hx) (h2 y hy)

theorem cumsum_sorted [LinearOrder α] [Add α] [Zero α]
    (hmono : ∀ x p : α, 0 ≤ p → x ≤ x + p) (l : List α) (hl : ∀ x ∈ l, (0 : α) ≤ x) :
    (cumsum l).Pairwise (· ≤ ·) := by
  cases l with
  | nil => simp [cumsum]
  | cons x xs =>
    obtain ⟨h1, h2⟩ := cumsumFrom_sorted hmono x xs (fun y hy => hl y (by simp [hy]))
    simp only [cumsum, List.pairwise_cons]
    exact ⟨h2, h1⟩

/-! ### the step has positive probability -/

/-- if two consecutive cumulative sums differ, the mass added between them is not zero -/
theorem mass_ne_zero_of_cdf_ne [Add α] [Zero α] (hadd0 : ∀ x : α, x + 0 = x) (p : List α) (i : Nat)
    (h' : i + 1 < p.length)
    (hne : (cumsum p)[i + 1]'(by rw [cumsum_length]; exact h') ≠
           (cumsum p)[i]'(by rw [cumsum_length]; omega)) :
    p[i + 1] ≠ 0 := by
  intro h0
  apply hne
  rw [cumsum_succ p i (by rw [cumsum_length]; exact h') h', h0, hadd0]

/-- **Positive probability.** For a row `p` of nonnegative masses whose last cumulative sum is
    positive and any `u ≥ 0`, the index returned by `searchsorted_cdf(cumsum p, u)` carries
    positive mass. Only `x + 0 = x` is used about the addition. -/
theorem searchsortedCdf_mass_pos [LinearOrder α] [Add α] [Zero α] (hadd0 : ∀ x : α, x + 0 = x)
    (p : List α) (u : α) (hp : ∀ x ∈ p, (0 : α) ≤ x) (hu : 0 ≤ u)
    (hlast : ∀ h : cumsum p ≠ [], 0 < (cumsum p).getLast h) (hne : p ≠ []) :
    ∃ h : searchsortedCdf (cumsum p) u < p.length, 0 < p[searchsortedCdf (cumsum p) u] := by
  have hcne : cumsum p ≠ [] := cumsum_ne_nil hne
  have hlen := cumsum_length p
  have hlt : searchsortedCdf (cumsum p) u < p.length := by
    have := searchsortedCdf_lt (cumsum p) u hcne; omega
  refine ⟨hlt, ?_⟩
  have hpos_of_ne : ∀ j (hj : j < p.length), p[j] ≠ 0 → 0 < p[j] := fun j hj h =>
    lt_of_le_of_ne (hp _ (List.getElem_mem hj)) (Ne.symm h)
  by_cases hcase : searchsorted (cumsum p) u = (cumsum p).length
  · -- u ≥ cdf[-1]: the back-off loop
    have hidx := searchsortedCdf_of_eq (cumsum p) u hcase
    have hb := backoff_stop (cumsum p) ((cumsum p).length - 1)
    have hbl := backoff_le (cumsum p) ((cumsum p).length - 1)
    have heq := backoff_eq (cumsum p) ((cumsum p).length - 1) (backoff (cumsum p) ((cumsum p).length - 1))
      (Nat.le_refl _) hbl
    generalize hbdef : backoff (cumsum p) ((cumsum p).length - 1) = b at *
    have hpl : 0 < p.length := List.length_pos_iff.mpr hne
    have hbl' : b < p.length := by omega
    simp only [hidx]
    rcases hb with hb0 | hbne
    · subst hb0
      have h0 : (cumsum p)[0]'(by omega) = (cumsum p).getLast hcne := by
        rw [List.getLast_eq_getElem]
        have := heq
        rw [List.getElem?_eq_getElem (by omega), List.getElem?_eq_getElem (by omega)] at this
        exact Option.some.inj this
      have := hlast hcne
      rw [← h0, cumsum_zero p (by omega) hpl] at this
      exact this
    · obtain ⟨c, rfl⟩ : ∃ c, b = c + 1 := by
        cases b with
        | zero =>
          simp at hbne
        | succ c => exact ⟨c, rfl⟩
      apply hpos_of_ne _ hbl'
      apply mass_ne_zero_of_cdf_ne hadd0 p c hbl'
      intro hcc
      have : ((cumsum p)[c + 1 - 1]? == (cumsum p)[c + 1]?) = true := by
        rw [Nat.add_sub_cancel, List.getElem?_eq_getElem (by omega), List.getElem?_eq_getElem (by omega), hcc]
        simp
      rw [this] at hbne
      exact Bool.noConfusion hbne
  · -- u < cdf[i], and i = 0 or cdf[i-1] ≤ u
    have hidx := searchsortedCdf_of_lt (cumsum p) u hcase
    obtain ⟨h1, h2⟩ := searchsorted_local (cumsum p) u
    simp only [hidx] at hlt ⊢
    generalize searchsorted (cumsum p) u = i at *
    rcases h2 with h2 | ⟨x, hx, hux⟩
    · exact absurd h2 hcase
    · obtain ⟨hb, rfl⟩ := List.getElem?_eq_some_iff.mp hx
      cases i with
      | zero =>
        rw [cumsum_zero p hb hlt] at hux
        exact lt_of_le_of_lt hu hux
      | succ c =>
        rcases h1 with h1 | ⟨y, hy, huy⟩
        · omega
        · obtain ⟨hb', rfl⟩ := List.getElem?_eq_some_iff.mp hy
          apply hpos_of_ne _ hlt
          apply mass_ne_zero_of_cdf_ne hadd0 p c hlt
          intro hcc
          apply huy
          simp only [Nat.add_sub_cancel]
          rw [← hcc]; exact hux

end QE.C10
