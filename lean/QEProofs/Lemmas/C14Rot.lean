/-
  Lemmas for C14, part 3: rotation of profiles / axis permutations
  (`tuple(p[i:]) + tuple(p[:i])`, `transpose((*range(j, N), *range(j)))`).
-/
import QEProofs.Lemmas.C14Index
namespace QE.C14

theorem rotL_eq_rotate {β : Type} (i : Nat) (l : List β) (h : i ≤ l.length) :
    rotL i l = l.rotate i := by
  rw [List.rotate_eq_drop_append_take h]; rfl

theorem length_rotL {β : Type} (i : Nat) (l : List β) : (rotL i l).length = l.length := by
  simp only [rotL, List.length_append, List.length_drop, List.length_take]; omega

theorem rotL_zero {β : Type} (l : List β) : rotL 0 l = l := by simp [rotL]

theorem rotL_length {β : Type} (l : List β) : rotL l.length l = l := by simp [rotL]

/-- element `k` of the rotated list -/
theorem getD_rotL {β : Type} (i : Nat) (l : List β) (d : β) (k : Nat) (hi : i ≤ l.length)
    (hk : k < l.length) : (rotL i l).getD k d = l.getD ((i + k) % l.length) d := by
  rw [rotL_eq_rotate i l hi, List.getD_eq_getElem?_getD, List.getD_eq_getElem?_getD,
    List.getElem?_rotate hk, Nat.add_comm]

theorem rotL_rotL {β : Type} (i j : Nat) (l : List β) (hi : i ≤ l.length) (hj : j ≤ l.length)
    (h : i + j = l.length) : rotL j (rotL i l) = l := by
  rw [rotL_eq_rotate i l hi, rotL_eq_rotate j _ (by rw [List.length_rotate]; exact hj),
    List.rotate_rotate, h, List.rotate_length]

theorem rotPerm_eq (N j : Nat) (h : j ≤ N) : rotPerm N j = rotL j (List.range N) := by
  unfold rotPerm rotL
  congr 1
  · rw [List.range_eq_range', List.drop_range']
    simp
  · rw [List.take_range]; congr 1; omega

theorem length_rotPerm (N j : Nat) (h : j ≤ N) : (rotPerm N j).length = N := by
  rw [rotPerm_eq N j h, length_rotL, List.length_range]

theorem getD_rotPerm (N j k : Nat) (h : j ≤ N) (hk : k < N) :
    (rotPerm N j).getD k 0 = (j + k) % N := by
  rw [rotPerm_eq N j h, getD_rotL j _ 0 k (by simpa using h) (by simpa using hk)]
  simp only [List.length_range]
  rw [List.getD_eq_getElem?_getD, List.getElem?_range (Nat.mod_lt _ (by omega))]
  rfl

theorem nodup_rotPerm (N j : Nat) (h : j ≤ N) : (rotPerm N j).Nodup := by
  rw [rotPerm_eq N j h, rotL_eq_rotate _ _ (by simpa using h), List.nodup_rotate]
  exact List.nodup_range

theorem mod_inv (N j a : Nat) (hj : j ≤ N) (ha : a < N) : (j + (a + N - j) % N) % N = a := by
  by_cases h : j ≤ a
  · have e : a + N - j = (a - j) + N := by omega
    rw [e, Nat.add_mod_right, Nat.mod_eq_of_lt (show a - j < N by omega)]
    have : j + (a - j) = a := by omega
    rw [this, Nat.mod_eq_of_lt ha]
  · have e : (a + N - j) % N = a + N - j := Nat.mod_eq_of_lt (by omega)
    rw [e]
    have : j + (a + N - j) = a + N := by omega
    rw [this, Nat.add_mod_right, Nat.mod_eq_of_lt ha]

/-- position of axis `a` in the permutation `(*range(j, N), *range(j))` -/
theorem idxOf_rotPerm (N j a : Nat) (hj : j ≤ N) (ha : a < N) :
    (rotPerm N j).idxOf a = (a + N - j) % N := by
  have hk : (a + N - j) % N < (rotPerm N j).length := by
    rw [length_rotPerm N j hj]; exact Nat.mod_lt _ (by omega)
  have := (nodup_rotPerm N j hj).idxOf_getElem _ hk
  have e : (rotPerm N j)[(a + N - j) % N] = a := by
    have h1 := getD_rotPerm N j ((a + N - j) % N) hj (Nat.mod_lt _ (by omega))
    rw [List.getD_eq_getElem?_getD, List.getElem?_eq_getElem hk] at h1
    simp only [Option.getD_some] at h1
    rw [h1, mod_inv N j a hj ha]
  rw [e] at this
  exact this

/-- **transpose by a rotation reads at the rotated index**: the source index of result index
    `b` under `transpose((*range(j, N), *range(j)))` is `b[N-j:] + b[:N-j]`. -/
theorem srcIndex_rotPerm (N j : Nat) (b : List Nat) (hj : j ≤ N) (hb : b.length = N) :
    Arr.srcIndex (rotPerm N j) b = rotL (N - j) b := by
  apply List.ext_getElem
  · simp [Arr.srcIndex, length_rotPerm N j hj, length_rotL, hb]
  · intro a h1 h2
    have ha : a < N := by
      simpa [Arr.srcIndex, length_rotPerm N j hj] using h1
    have e1 : (Arr.srcIndex (rotPerm N j) b)[a] = b.getD ((a + N - j) % N) 0 := by
      simp [Arr.srcIndex, idxOf_rotPerm N j a hj ha]
    have e2 := getD_rotL (N - j) b 0 a (by omega) (by omega)
    rw [List.getD_eq_getElem?_getD, List.getElem?_eq_getElem h2] at e2
    simp only [Option.getD_some] at e2
    rw [e1, e2, hb]
    congr 2
    omega

/-- shape after `transpose((*range(j, N), *range(j)))` -/
theorem map_getD_rotPerm (N j : Nat) (l : List Nat) (hj : j ≤ N) (hl : l.length = N) :
    (rotPerm N j).map (fun k => l.getD k 0) = rotL j l := by
  apply List.ext_getElem
  · simp [length_rotPerm N j hj, length_rotL, hl]
  · intro k h1 h2
    have hk : k < N := by simpa [length_rotPerm N j hj] using h1
    have e1 := getD_rotPerm N j k hj hk
    rw [List.getD_eq_getElem?_getD, List.getElem?_eq_getElem (by rw [length_rotPerm N j hj]; exact hk)] at e1
    simp only [Option.getD_some] at e1
    have e2 := getD_rotL j l 0 k (by omega) (by omega)
    rw [List.getD_eq_getElem?_getD, List.getElem?_eq_getElem h2] at e2
    simp only [Option.getD_some] at e2
    rw [List.getElem_map, e1, e2, hl]

/-! ### bounds -/

theorem inBounds_length : ∀ (s idx : List Nat), inBounds s idx = true → idx.length = s.length
  | [], [], _ => rfl
  | [], _ :: _, h => by simp [inBounds] at h
  | _ :: _, [], h => by simp [inBounds] at h
  | _ :: s, _ :: r, h => by
    simp only [inBounds, Bool.and_eq_true] at h
    simp [inBounds_length s r h.2]

theorem inBounds_iff : ∀ (s idx : List Nat), inBounds s idx = true ↔
    idx.length = s.length ∧ ∀ k, k < s.length → idx.getD k 0 < s.getD k 0
  | [], [] => by simp [inBounds]
  | [], _ :: _ => by simp [inBounds]
  | _ :: _, [] => by simp [inBounds]
  | n :: s, a :: r => by
    simp only [inBounds, Bool.and_eq_true, decide_eq_true_eq, inBounds_iff s r, List.length_cons]
    constructor
    · rintro ⟨h1, h2, h3⟩
      refine ⟨by omega, ?_⟩
      intro k hk
      cases k with
      | zero => simpa using h1
      | succ k => simpa using h3 k (by omega)
    · rintro ⟨h1, h2⟩
      refine ⟨by simpa using h2 0 (by omega), by omega, ?_⟩
      intro k hk
      simpa using h2 (k + 1) (by omega)

/-- rotating shape and index together keeps the index in bounds -/
theorem inBounds_rotL (i : Nat) (s idx : List Nat) (hi : i ≤ s.length) (h : inBounds s idx = true) :
    inBounds (rotL i s) (rotL i idx) = true := by
  rw [inBounds_iff] at h ⊢
  obtain ⟨h1, h2⟩ := h
  refine ⟨by simp [length_rotL, h1], ?_⟩
  intro k hk
  rw [length_rotL] at hk
  rw [getD_rotL i idx 0 k (by omega) (by omega), getD_rotL i s 0 k hi hk, h1]
  exact h2 _ (Nat.mod_lt _ (by omega))

end QE.C14
