/-
  Lemmas for C08, part 1: lists as functions on `range n`, sums, linspace, the weight
  patterns of the trapezoid and Simpson rules.
-/
import Mathlib.Algebra.BigOperators.Group.Finset.Basic
import Mathlib.Algebra.BigOperators.Group.List.Basic
import Mathlib.Algebra.BigOperators.Ring.Finset
import Mathlib.Algebra.BigOperators.Intervals
import Mathlib.Algebra.Order.Field.Basic
import Mathlib.Data.List.Basic
import Mathlib.Data.List.Range
import Mathlib.Tactic.Ring
import Mathlib.Tactic.FieldSimp
import Mathlib.Tactic.Linarith
import QEModel.C08
namespace QE.C08
open Finset

set_option linter.unusedSectionVars false

variable {K : Type} [Field K] [LinearOrder K] [IsStrictOrderedRing K]

/-! ### sums -/

theorem foldl_add_eq_sum (l : List K) : l.foldl (fun s t => s + t) 0 = l.sum := by
  rw [List.sum_eq_foldl]

theorem sum_map_range (n : Nat) (h : Nat → K) :
    ((List.range n).map h).sum = ∑ i ∈ range n, h i := by
  induction n with
  | zero => simp
  | succ n ih =>
    rw [List.range_succ, List.map_append, List.sum_append, ih, Finset.sum_range_succ]
    simp

theorem zipWith_map_range {β γ δ : Type} (n : Nat) (f : Nat → β) (g : Nat → γ) (op : β → γ → δ) :
    List.zipWith op ((List.range n).map f) ((List.range n).map g)
      = (List.range n).map fun i => op (f i) (g i) := by
  rw [List.zipWith_map, List.zipWith_self]

theorem dot_map_range (n : Nat) (f g : Nat → K) :
    dot ((List.range n).map f) ((List.range n).map g) = ∑ i ∈ range n, f i * g i := by
  unfold dot
  rw [foldl_add_eq_sum, zipWith_map_range, sum_map_range]

theorem quadSum_map_range (n : Nat) (w x : Nat → K) (F : K → K) :
    quadSum ((List.range n).map w) ((List.range n).map x) F = ∑ i ∈ range n, w i * F (x i) := by
  unfold quadSum
  rw [List.map_map, dot_map_range]
  rfl

/-- a list is the tabulation of its `getD` -/
theorem eq_map_range_getD (l : List K) : l = (List.range l.length).map fun i => l.getD i 0 := by
  apply List.ext_getElem
  · simp
  · intro i h1 h2
    simp [List.getD_eq_getElem?_getD, h1]

theorem dot_eq_sum (a b : List K) (h : a.length = b.length) :
    dot a b = ∑ i ∈ range a.length, a.getD i 0 * b.getD i 0 := by
  conv_lhs => rw [eq_map_range_getD a, eq_map_range_getD b, ← h]
  exact dot_map_range _ _ _

/-! ### linspace -/

/-- the grid function `i ↦ a + i (b-a)/(n-1)` -/
def node (n : Nat) (a b : K) (i : Nat) : K := a + (i : K) * ((b - a) / ((n - 1 : Nat) : K))

theorem node_last (n : Nat) (a b : K) (hn : 2 ≤ n) : node n a b (n - 1) = b := by
  unfold node
  have h : ((n - 1 : Nat) : K) ≠ 0 := by
    have : (n - 1 : Nat) ≠ 0 := by omega
    exact_mod_cast this
  field_simp
  ring

theorem node_zero (n : Nat) (a b : K) : node n a b 0 = a := by simp [node]

/-- in exact arithmetic `np.linspace(a, b, n)` is the uniform grid, the forced last element
    included -/
theorem linspace_eq (n : Nat) (a b : K) (hn : 2 ≤ n) :
    linspace a b n = (List.range n).map (node n a b) := by
  unfold linspace
  apply List.map_congr_left
  intro i hi
  have h1 : 1 < n := by omega
  rw [if_pos h1]
  by_cases h : i + 1 = n
  · rw [if_pos h]
    have : i = n - 1 := by omega
    rw [this, node_last n a b hn]
  · rw [if_neg h]; rfl

theorem linspace_length {α : Type} [Zero α] [One α] [Add α] [Sub α] [Mul α] [Div α] [NatCast α]
    (n : Nat) (a b : α) : (linspace a b n).length = n := by
  simp [linspace]

theorem linspace_getD (n : Nat) (a b : K) (hn : 2 ≤ n) (i : Nat) (hi : i < n) :
    (linspace a b n).getD i 0 = node n a b i := by
  rw [linspace_eq n a b hn]
  simp [List.getD_eq_getElem?_getD, hi]

/-- the step `dx = nodes[1] - nodes[0]` -/
theorem linspace_dx (n : Nat) (a b : K) (hn : 2 ≤ n) :
    (linspace a b n).getD 1 0 - (linspace a b n).getD 0 0 = (b - a) / ((n - 1 : Nat) : K) := by
  rw [linspace_getD n a b hn 1 (by omega), linspace_getD n a b hn 0 (by omega)]
  simp [node]

/-! ### weight patterns -/

/-- trapezoid coefficients `1/2, 1, …, 1, 1/2` -/
def trapCoef (n i : Nat) : K := if i = 0 ∨ i + 1 = n then 1 / 2 else 1

theorem half_eq : (half : K) = 1 / 2 := by
  unfold half; norm_num

theorem trap_weights_eq (n : Nat) (c : K) (hn : 2 ≤ n) :
    (((List.replicate n (c * 1)).set 0 ((List.replicate n (c * 1)).getD 0 0 * half)).set (n - 1)
        ((((List.replicate n (c * 1)).set 0 ((List.replicate n (c * 1)).getD 0 0 * half)).getD (n - 1) 0) * half))
      = (List.range n).map fun i => c * trapCoef n i := by
  have e0 : (List.replicate n (c * 1)).getD 0 0 = c := by
    rw [List.getD_eq_getElem?_getD, List.getElem?_replicate, if_pos (by omega)]; simp
  have e1 : ((List.replicate n (c * 1)).set 0 (c * half)).getD (n - 1) 0 = c := by
    rw [List.getD_eq_getElem?_getD, List.getElem?_set_ne (by omega), List.getElem?_replicate,
      if_pos (by omega)]; simp
  rw [e0, e1]
  apply List.ext_getElem
  · simp
  · intro i h1 h2
    have hi : i < n := by simpa using h2
    rw [List.getElem_set, List.getElem_set, List.getElem_replicate, List.getElem_map,
      List.getElem_range, half_eq]
    unfold trapCoef
    by_cases hlast : n - 1 = i
    · have : i + 1 = n := by omega
      simp [hlast, this]
    · have hne : ¬ (i + 1 = n) := by omega
      by_cases h0 : 0 = i
      · subst h0; simp [hlast]
      · have : ¬ (i = 0) := by omega
        simp [hlast, h0, this, hne]

end QE.C08
