/-
  Lemmas for C15, part 7: the label bookkeeping of Howson's algorithm. A variable column
  `k < 2n` carries the label `k % n` (`w_k` and `z_k` share a label). Along the run the multiset
  of labels of the basis is determined by the level `p` alone: every label once, except that for
  every unfinished player `q ≥ p` the label of `x_{q,start_q}` occurs twice and that of `v_q` not
  at all; inside a level the entering column stands for the missing occurrence. The argument is
  purely combinatorial (it never looks at the numbers in the tableau).
-/
import Mathlib.Tactic.Linarith
import Mathlib.Algebra.Order.Field.Basic
import QEModel.C15
import QEProofs.Lemmas.C04Ratio
namespace QE.C15
open QE QE.Pivot

set_option linter.unusedSectionVars false
variable {K : Type} [Field K] [LinearOrder K] [IsStrictOrderedRing K]

def ind (P : Prop) [Decidable P] : Nat := if P then 1 else 0

/-- number of basis entries with label `L` -/
def cnt (n : Nat) (b : List Nat) (L : Nat) : Nat := b.countP (fun k => decide (k % n = L))

/-- label of `x_{p, start_p}` -/
def labX (nums start : List Nat) (p : Nat) : Nat := indptr nums p + start.getD p 0

/-- number of unfinished players `q ≥ p` whose `v_q` has label `L` -/
def Dn (ta N p L : Nat) : Nat := if ta + p ≤ L ∧ L < ta + N then 1 else 0

/-- number of unfinished players `q ≥ p` whose `x_{q,start_q}` has label `L` -/
def Un (nums start : List Nat) (p L : Nat) : Nat :=
  (List.range' p (nums.length - p)).countP (fun q => decide (labX nums start q = L))

theorem Dn_succ (ta N p L : Nat) (hp : p < N) : Dn ta N p L = ind (L = ta + p) + Dn ta N (p + 1) L := by
  unfold Dn ind
  split_ifs <;> omega

theorem Un_succ (nums start : List Nat) (p L : Nat) (hp : p < nums.length) :
    Un nums start p L = ind (L = labX nums start p) + Un nums start (p + 1) L := by
  unfold Un
  have : nums.length - p = (nums.length - (p + 1)) + 1 := by omega
  rw [this, List.range'_succ, List.countP_cons]
  unfold ind
  by_cases h : labX nums start p = L
  · simp [h]; omega
  · have h' : ¬ L = labX nums start p := fun e => h e.symm
    simp [h, h']

theorem countP_set (q : Nat → Bool) (b : List Nat) (r c : Nat) (hr : r < b.length) :
    (b.set r c).countP q + (if q (b.getD r 0) then 1 else 0) = b.countP q + (if q c then 1 else 0) := by
  induction b generalizing r with
  | nil => simp at hr
  | cons x xs ih =>
    cases r with
    | zero =>
      simp only [List.set_cons_zero, List.countP_cons, List.getD_cons_zero]
      omega
    | succ r =>
      simp only [List.set_cons_succ, List.countP_cons, List.getD_cons_succ]
      have := ih r (by simpa using hr)
      omega

theorem cnt_set (n : Nat) (b : List Nat) (r c L : Nat) (hr : r < b.length) :
    cnt n (b.set r c) L + ind (L = b.getD r 0 % n) = cnt n b L + ind (L = c % n) := by
  have := countP_set (fun k => decide (k % n = L)) b r c hr
  unfold cnt ind
  simp only [decide_eq_true_eq] at this
  have e1 : (L = b.getD r 0 % n) ↔ (b.getD r 0 % n = L) := eq_comm
  have e2 : (L = c % n) ↔ (c % n = L) := eq_comm
  simp only [e1, e2]
  exact this

/-- the combinatorial invariant; `pc = none` at the head of the outer loop, `some c` inside a level
    with `c` the entering column -/
def LInv (nums start : List Nat) (st : HState K) (pc : Option Nat) : Prop :=
  let ta := nums.foldl (· + ·) 0
  let N := nums.length
  let n := ta + N
  st.negP = true ∨ st.allFound = false ∨
  (st.T.nr = n ∧ 0 ≤ st.p ∧ st.p ≤ N ∧ st.basis.length = n ∧
    match pc with
    | none => st.converging = true →
        ((st.retro = false → ∀ L, L < n →
            cnt n st.basis L + Dn ta N st.p.toNat L = 1 + Un nums start st.p.toNat L) ∧
         (st.retro = true → st.p < N ∧ ∀ L, L < n →
            cnt n st.basis L + Dn ta N (st.p.toNat + 1) L = 1 + Un nums start (st.p.toNat + 1) L))
    | some c => st.p < N ∧ st.retro = false ∧ ∀ L, L < n →
        cnt n st.basis L + ind (L = c % n) + Dn ta N (st.p.toNat + 1) L
          = 1 + ind (L = labX nums start st.p.toNat) + Un nums start (st.p.toNat + 1) L)

theorem pyIdx_nonneg (N : Nat) (p : Int) (h : 0 ≤ p) : pyIdx N p = p.toNat := by
  unfold pyIdx; rw [if_neg (by omega)]

theorem hRun_linv (nums start : List Nat) (maxIter : Int) (tp td : K)
    (hstart : ∀ q, q < nums.length → labX nums start q < nums.foldl (· + ·) 0) :
    ∀ (fuel : Nat) (st : HState K) (pc : Option Nat), LInv nums start st pc →
      (hRun nums start maxIter tp td fuel st pc).outOfFuel = true ∨
      (hRun nums start maxIter tp td fuel st pc).err = true ∨
      (LInv nums start (hRun nums start maxIter tp td fuel st pc) none ∧
        ¬ ((hRun nums start maxIter tp td fuel st pc).p < nums.length ∧
           (hRun nums start maxIter tp td fuel st pc).converging = true)) := by
  intro fuel
  induction fuel with
  | zero => intro st pc _; left; rfl
  | succ f ih =>
    intro st pc h
    cases pc with
    | none =>
      unfold hRun
      simp only
      by_cases hcond : st.p < (nums.length : Int) ∧ st.converging = true
      · rw [if_pos hcond]
        by_cases herr : st.p < -(nums.length : Int)
        · rw [if_pos herr]; right; left; rfl
        · rw [if_neg herr]
          by_cases hneg : st.p < 0
          · rw [if_pos hneg]
            apply ih
            unfold LInv at h ⊢
            rcases h with h | h | h
            · left; exact h
            · right; left; exact h
            · exact absurd h.2.1 (by omega)
          · rw [if_neg hneg]
            apply ih
            unfold LInv at h ⊢
            rcases h with h | h | ⟨hnr, hp0, hpN, hbl, hm⟩
            · left; split_ifs <;> exact h
            · right; left; split_ifs <;> exact h
            · right; right
              have hpt : st.p.toNat < nums.length := by omega
              have hm' := hm hcond.2
              refine ⟨by split_ifs <;> exact hnr, by split_ifs <;> exact hp0, by split_ifs <;> exact hpN,
                by split_ifs <;> exact hbl, by split_ifs <;> exact hcond.1, by split_ifs <;> rfl, ?_⟩
              intro L hL
              rw [pyIdx_nonneg _ _ hp0]
              have hlx := hstart st.p.toNat hpt
              by_cases hr : st.retro = true
              · -- retro: the entering column is `finishing_x` or `finishing_y`, both labelled `labX p`
                have hq := (hm'.2 hr).2 L hL
                have hlab : (if ¬ st.retro = true then
                      nums.foldl (· + ·) 0 + (nums.foldl (· + ·) 0 + nums.length) + st.p.toNat
                    else if st.basis.contains (nums.foldl (· + ·) 0 + nums.length + indptr nums st.p.toNat
                        + start.getD st.p.toNat 0 - (nums.foldl (· + ·) 0 + nums.length)) = true
                      then nums.foldl (· + ·) 0 + nums.length + indptr nums st.p.toNat + start.getD st.p.toNat 0
                      else nums.foldl (· + ·) 0 + nums.length + indptr nums st.p.toNat + start.getD st.p.toNat 0
                        - (nums.foldl (· + ·) 0 + nums.length)) % (nums.foldl (· + ·) 0 + nums.length)
                    = labX nums start st.p.toNat := by
                  unfold labX at hlx ⊢
                  rw [if_neg (by simp [hr])]
                  split_ifs
                  · rw [Nat.add_assoc, Nat.add_mod_left]; exact Nat.mod_eq_of_lt (by omega)
                  · rw [Nat.add_assoc, Nat.add_sub_cancel_left]; exact Nat.mod_eq_of_lt (by omega)
                simp only [hr, if_true] at hlab ⊢
                rw [hlab]
                omega
              · have hr' : st.retro = false := by simpa using hr
                have hq := hm'.1 hr' L hL
                rw [Dn_succ _ _ _ _ hpt, Un_succ _ _ _ _ hpt] at hq
                have hlab : (nums.foldl (· + ·) 0 + (nums.foldl (· + ·) 0 + nums.length) + st.p.toNat)
                    % (nums.foldl (· + ·) 0 + nums.length) = nums.foldl (· + ·) 0 + st.p.toNat := by
                  have : nums.foldl (· + ·) 0 + (nums.foldl (· + ·) 0 + nums.length) + st.p.toNat
                      = (nums.foldl (· + ·) 0 + nums.length) + (nums.foldl (· + ·) 0 + st.p.toNat) := by omega
                  rw [this, Nat.add_mod_left]; exact Nat.mod_eq_of_lt (by omega)
                simp only [hr', Bool.false_eq_true, not_false_eq_true, if_true, if_false] at hlab ⊢
                rw [hlab]
                omega
      · rw [if_neg hcond]
        right; right; exact ⟨h, hcond⟩
    | some c =>
      unfold hRun
      simp only
      by_cases hmax : (st.numIter : Int) = maxIter
      · rw [if_pos hmax]
        apply ih
        unfold LInv at h ⊢
        rcases h with h | h | ⟨hnr, hp0, hpN, hbl, hm⟩
        · left; exact h
        · right; left; exact h
        · right; right
          exact ⟨hnr, hp0, hpN, hbl, fun hc => absurd hc (by simp)⟩
      · rw [if_neg hmax]
        unfold LInv at h
        rcases h with h | h | ⟨hnr, hp0, hpN, hbl, hpl, hretro, hq⟩
        · -- negP already set: it stays set
          split_ifs <;> (apply ih; unfold LInv; left; simp [h])
        · split_ifs <;> (apply ih; unfold LInv; right; left; simp [h])
        · by_cases hf : (lexMinRatio st.T c 0 tp td).1 = true
          · obtain ⟨hr, _⟩ := lexMinRatio_found_pos st.T c 0 tp td hf
            have hrb : (lexMinRatio st.T c 0 tp td).2 < st.basis.length := by rw [hbl, ← hnr]; exact hr
            have hpt : st.p.toNat < nums.length := by omega
            have hlx := hstart st.p.toNat hpt
            have hcs : ∀ L, cnt (nums.foldl (· + ·) 0 + nums.length)
                  (st.basis.set (lexMinRatio st.T c 0 tp td).2 c) L
                + ind (L = st.basis.getD (lexMinRatio st.T c 0 tp td).2 0 % (nums.foldl (· + ·) 0 + nums.length))
                = cnt (nums.foldl (· + ·) 0 + nums.length) st.basis L
                + ind (L = c % (nums.foldl (· + ·) 0 + nums.length)) :=
              fun L => cnt_set _ _ _ _ L hrb
            rw [pyIdx_nonneg _ _ hp0]
            by_cases hfin : st.basis.getD (lexMinRatio st.T c 0 tp td).2 0
                  = nums.foldl (· + ·) 0 + nums.length + indptr nums st.p.toNat + start.getD st.p.toNat 0 ∨
                st.basis.getD (lexMinRatio st.T c 0 tp td).2 0
                  = nums.foldl (· + ·) 0 + nums.length + indptr nums st.p.toNat + start.getD st.p.toNat 0
                    - (nums.foldl (· + ·) 0 + nums.length)
            · rw [if_pos hfin]
              apply ih
              unfold LInv
              right; right
              refine ⟨hnr, by simp; omega, by simp; omega, by simp [hbl], ?_⟩
              intro _
              refine ⟨fun _ => ?_, fun hc => absurd hc (by simp [hretro])⟩
              intro L hL
              have hlab : st.basis.getD (lexMinRatio st.T c 0 tp td).2 0 % (nums.foldl (· + ·) 0 + nums.length)
                  = labX nums start st.p.toNat := by
                unfold labX at hlx ⊢
                rcases hfin with e | e
                · rw [e, Nat.add_assoc, Nat.add_mod_left]; exact Nat.mod_eq_of_lt (by omega)
                · rw [e, Nat.add_assoc, Nat.add_sub_cancel_left]; exact Nat.mod_eq_of_lt (by omega)
              have h1 := hcs L
              rw [hlab] at h1
              have h2 := hq L hL
              have e : (st.p + 1).toNat = st.p.toNat + 1 := by omega
              simp only [e]
              omega
            · rw [if_neg hfin]
              by_cases hv : (st.basis.getD (lexMinRatio st.T c 0 tp td).2 0 : Int)
                  = (nums.foldl (· + ·) 0 : Nat) + ((nums.foldl (· + ·) 0 + nums.length : Nat) : Int) + st.p
              · rw [if_pos hv]
                apply ih
                unfold LInv
                by_cases hp1 : st.p ≤ 0
                · left; simp [hp1]
                · right; right
                  refine ⟨hnr, by simp; omega, by simp; omega, by simp [hbl], ?_⟩
                  intro _
                  refine ⟨fun hc => absurd hc (by simp), fun _ => ⟨by simp; omega, ?_⟩⟩
                  intro L hL
                  have hlab : st.basis.getD (lexMinRatio st.T c 0 tp td).2 0 % (nums.foldl (· + ·) 0 + nums.length)
                      = nums.foldl (· + ·) 0 + st.p.toNat := by
                    have e : st.basis.getD (lexMinRatio st.T c 0 tp td).2 0
                        = (nums.foldl (· + ·) 0 + nums.length) + (nums.foldl (· + ·) 0 + st.p.toNat) := by omega
                    rw [e, Nat.add_mod_left]; exact Nat.mod_eq_of_lt (by omega)
                  have h1 := hcs L
                  rw [hlab] at h1
                  have h2 := hq L hL
                  have e : (st.p - 1).toNat + 1 = st.p.toNat := by omega
                  simp only [e]
                  rw [Dn_succ _ _ _ _ hpt, Un_succ _ _ _ _ hpt]
                  omega
              · rw [if_neg hv]
                have hcont : ∀ c' : Nat,
                    c' % (nums.foldl (· + ·) 0 + nums.length)
                      = st.basis.getD (lexMinRatio st.T c 0 tp td).2 0 % (nums.foldl (· + ·) 0 + nums.length) →
                    LInv nums start
                      { st with T := pivot st.T c (lexMinRatio st.T c 0 tp td).2,
                                basis := st.basis.set (lexMinRatio st.T c 0 tp td).2 c,
                                numIter := st.numIter + 1,
                                trace := (c, (lexMinRatio st.T c 0 tp td).2) :: st.trace,
                                allFound := st.allFound && (lexMinRatio st.T c 0 tp td).1 &&
                                  decide (c < 2 * (nums.foldl (· + ·) 0 + nums.length)) } (some c') := by
                  intro c' hc'
                  unfold LInv
                  right; right
                  refine ⟨hnr, hp0, hpN, by simp [hbl], hpl, hretro, ?_⟩
                  intro L hL
                  have h1 := hcs L
                  have h2 := hq L hL
                  simp only [hc']
                  omega
                split_ifs with hlt
                · apply ih
                  apply hcont
                  rw [Nat.add_mod_right]
                · apply ih
                  apply hcont
                  have hge : nums.foldl (· + ·) 0 + nums.length
                      ≤ st.basis.getD (lexMinRatio st.T c 0 tp td).2 0 := by omega
                  conv_rhs => rw [← Nat.sub_add_cancel hge]
                  rw [Nat.add_mod_right]
          · -- ratio test failed: the ghost flag goes down
            have hf' : (lexMinRatio st.T c 0 tp td).1 = false := by simpa using hf
            split_ifs <;> (apply ih; unfold LInv; right; left; simp [hf'])

end QE.C15
