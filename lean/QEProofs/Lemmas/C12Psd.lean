/-
  C12 helper lemmas, part 2 (over ℝ): the joint covariance of `(x, y)` is positive
  semidefinite, and the measurement / time updates keep `Σ` positive semidefinite
  (Schur complement of a PSD block matrix, Mathlib `PosDef.fromBlocks₂₂`).
-/
import QEProofs.Lemmas.C12Kalman
import Mathlib.LinearAlgebra.Matrix.SchurComplement
import Mathlib.LinearAlgebra.Matrix.PosDef
import Mathlib.Analysis.Matrix.Order

set_option linter.unusedSectionVars false

namespace QE.C12
open QE Matrix

variable {n m k l : ℕ}

/-- the joint second-moment matrix of `(x, y)`, `y = G x + H v`, `x ∼ (·, Σ)`, `v ∼ (0, I)`,
    written as the push-forward `L diag(Σ, I) L'` of the independent primitives `(x, v)`
    through `L = [[I, 0], [G, H]]` -/
def jointCov {K : Type} [CommRing K] (S : Matrix (Fin n) (Fin n) K) (g : Matrix (Fin k) (Fin n) K)
    (h : Matrix (Fin k) (Fin l) K) : Matrix (Fin n ⊕ Fin k) (Fin n ⊕ Fin k) K :=
  fromBlocks 1 0 g h * fromBlocks S 0 0 1 * (fromBlocks 1 0 g h)ᵀ

/-- its blocks: `[[Σ, Σ G'], [G Σ, G Σ G' + H H']]` -/
theorem jointCov_blocks {K : Type} [CommRing K] (S : Matrix (Fin n) (Fin n) K)
    (g : Matrix (Fin k) (Fin n) K) (h : Matrix (Fin k) (Fin l) K) :
    jointCov S g h = fromBlocks S (S * gᵀ) (g * S) (innov S g h) := by
  unfold jointCov innov
  rw [fromBlocks_transpose, fromBlocks_multiply, fromBlocks_multiply]
  simp

theorem diag_psd (S : Matrix (Fin n) (Fin n) ℝ) (hS : S.PosSemidef) :
    (fromBlocks S (0 : Matrix (Fin n) (Fin l) ℝ) 0 1).PosSemidef := by
  have h1 : (1 : Matrix (Fin l) (Fin l) ℝ).PosDef := PosDef.one
  have _i : Invertible (1 : Matrix (Fin l) (Fin l) ℝ) := invertibleOne
  have := (PosDef.fromBlocks₂₂ S (0 : Matrix (Fin n) (Fin l) ℝ) h1).mpr (by simpa using hS)
  simpa using this

theorem jointCov_psd (S : Matrix (Fin n) (Fin n) ℝ) (g : Matrix (Fin k) (Fin n) ℝ)
    (h : Matrix (Fin k) (Fin l) ℝ) (hS : S.PosSemidef) : (jointCov S g h).PosSemidef := by
  unfold jointCov
  have := (diag_psd (l := l) S hS).mul_mul_conjTranspose_same
    (fromBlocks (1 : Matrix (Fin n) (Fin n) ℝ) (0 : Matrix (Fin n) (Fin l) ℝ) g h)
  rwa [conjTranspose_eq_transpose_of_trivial] at this

theorem innov_psd (S : Matrix (Fin n) (Fin n) ℝ) (g : Matrix (Fin k) (Fin n) ℝ)
    (h : Matrix (Fin k) (Fin l) ℝ) (hS : S.PosSemidef) : (innov S g h).PosSemidef := by
  unfold innov
  have h1 := hS.mul_mul_conjTranspose_same g
  have h2 := posSemidef_self_mul_conjTranspose h
  rw [conjTranspose_eq_transpose_of_trivial] at h1 h2
  exact h1.add h2

/-- an invertible innovation covariance is positive definite -/
theorem innov_posDef (S : Matrix (Fin n) (Fin n) ℝ) (g : Matrix (Fin k) (Fin n) ℝ)
    (h : Matrix (Fin k) (Fin l) ℝ) (hS : S.PosSemidef) (hu : IsUnit (innov S g h).det) :
    (innov S g h).PosDef :=
  (innov_psd S g h hS).posDef_iff_isUnit.mpr ((Matrix.isUnit_iff_isUnit_det _).mpr hu)

/-- the measurement update of a PSD `Σ` is PSD (Schur complement of the joint covariance) -/
theorem filtered_cov_psd (S : Matrix (Fin n) (Fin n) ℝ) (g : Matrix (Fin k) (Fin n) ℝ)
    (h : Matrix (Fin k) (Fin l) ℝ) (hS : S.PosSemidef) (hu : IsUnit (innov S g h).det) :
    (S - S * gᵀ * (innov S g h)⁻¹ * (g * S)).PosSemidef := by
  have hJ := jointCov_psd S g h hS
  rw [jointCov_blocks] at hJ
  have hSt : Sᵀ = S := by
    have := hS.isHermitian
    rwa [IsHermitian, conjTranspose_eq_transpose_of_trivial] at this
  have hB : (S * gᵀ)ᴴ = g * S := by
    rw [conjTranspose_eq_transpose_of_trivial, transpose_mul, transpose_transpose, hSt]
  let _i := Matrix.invertibleOfIsUnitDet _ hu
  have := (PosDef.fromBlocks₂₂ S (S * gᵀ) (innov_posDef S g h hS hu)).mp (by rw [hB]; exact hJ)
  rwa [hB] at this

/-- the time update of a PSD `Σ` is PSD -/
theorem forecast_cov_psd (S a : Matrix (Fin n) (Fin n) ℝ) (c : Matrix (Fin n) (Fin m) ℝ)
    (hS : S.PosSemidef) : (a * S * aᵀ + c * cᵀ).PosSemidef := by
  have h1 := hS.mul_mul_conjTranspose_same a
  have h2 := posSemidef_self_mul_conjTranspose c
  rw [conjTranspose_eq_transpose_of_trivial] at h1 h2
  exact h1.add h2

end QE.C12
