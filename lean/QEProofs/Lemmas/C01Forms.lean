/-
  Lemmas for C01, part 6: the formulations.
  (a) product form: the literal arg-max over all `m` columns with `-inf` entries
      (`scanMaxOpt`) selects the same pair as the scan over the feasible pairs only;
  (b) state-action pairs: `ofPairs` does not depend on the order in which the pairs are
      supplied (distinct `(s, a)`).
-/
import QEProofs.Lemmas.C01Basic
import Mathlib.Data.List.Sort
import Mathlib.Data.List.Perm.Basic
import Mathlib.Data.List.Nodup

set_option linter.unusedSectionVars false

namespace QE.C01
open List

variable {K : Type} [Field K] [LinearOrder K] [IsStrictOrderedRing K]

/-! ### (a) scanning a row that contains `-inf` -/

section opt
variable {τ γ : Type}

/-- Scan of a row whose entries `t` are either infeasible (`toA t = none`, key `-inf`) or
    feasible (`toA t = some x`, key `g x`): started at a feasible entry the result is the
    first maximum among the feasible entries; started at an infeasible one, it is the first
    maximum of the feasible entries that follow (or the start entry if there is none). -/
theorem scanMaxOpt_spec (toA : τ → Option γ) (g : γ → K) (f : τ → Option K)
    (hf : ∀ t, f t = (toA t).map g) :
    ∀ (ts : List τ) (m : τ),
      (∀ am, toA m = some am →
        toA (scanMaxOpt f m ts) = some (scanMax g am (ts.filterMap toA))) ∧
      (toA m = none →
        toA (scanMaxOpt f m ts) =
          match ts.filterMap toA with
          | [] => none
          | x :: xs => some (scanMax g x xs)) := by
  intro ts
  induction ts with
  | nil =>
    intro m
    exact ⟨fun am h => by simp [scanMaxOpt, scanMax, h], fun h => by simp [scanMaxOpt, h]⟩
  | cons t ts ih =>
    intro m
    constructor
    · intro am hm
      simp only [scanMaxOpt]
      cases ht : toA t with
      | none =>
        have : optLt (f m) (f t) = false := by rw [hf m, hf t, hm, ht]; rfl
        rw [this]
        simp only [Bool.false_eq_true, if_false, filterMap_cons, ht]
        exact (ih m).1 am hm
      | some at' =>
        simp only [filterMap_cons, ht, scanMax]
        have hlt : optLt (f m) (f t) = decide (g am < g at') := by rw [hf m, hf t, hm, ht]; rfl
        rw [hlt]
        by_cases hc : g am < g at'
        · simp only [hc, decide_true, if_true]
          exact (ih t).1 at' ht
        · simp only [hc, decide_false, Bool.false_eq_true, if_false]
          exact (ih m).1 am hm
    · intro hm
      simp only [scanMaxOpt]
      cases ht : toA t with
      | none =>
        have : optLt (f m) (f t) = false := by rw [hf m, hf t, hm, ht]; rfl
        rw [this]
        simp only [Bool.false_eq_true, if_false, filterMap_cons, ht]
        exact (ih m).2 hm
      | some at' =>
        have : optLt (f m) (f t) = true := by rw [hf m, hf t, hm, ht]; rfl
        rw [this]
        simp only [if_true, filterMap_cons, ht]
        exact (ih t).1 at' ht

end opt

/-- the feasible pair encoded by a column `(a, r?, q)` of a product-form row -/
def colAct (t : ℕ × Option K × List K) : Option (Act K) :=
  match t.2.1 with
  | none => none
  | some r => some ⟨t.1, r, t.2.2⟩

theorem colAct_a {t : ℕ × Option K × List K} {x : Act K} (h : colAct t = some x) : x.a = t.1 := by
  unfold colAct at h
  cases hr : t.2.1 with
  | none => rw [hr] at h; simp at h
  | some r =>
    rw [hr] at h
    simp only [Option.some.injEq] at h
    rw [← h]

theorem qvalOpt_eq (β : K) (v : List K) (t : ℕ × Option K × List K) :
    qvalOpt β v t = (colAct t).map (qval β v) := by
  unfold qvalOpt colAct qval
  cases t.2.1 <;> rfl

/-- one state of the product form: if the row has a feasible action, the literal arg-max over
    all columns returns the value and the label of the first maximum over the feasible ones -/
theorem rowProd_eq (β : K) (v : List K) (t : ℕ × Option K × List K)
    (ts : List (ℕ × Option K × List K)) (hne : (t :: ts).filterMap colAct ≠ []) :
    let b := scanMaxOpt (qvalOpt β v) t ts
    (qvalOpt β v b, b.1) =
      (some (qval β v (bestAct β v ((t :: ts).filterMap colAct))),
       (bestAct β v ((t :: ts).filterMap colAct)).a) := by
  intro b
  have hspec := scanMaxOpt_spec colAct (qval β v) (qvalOpt β v) (qvalOpt_eq β v) ts t
  have hb : colAct b = some (bestAct β v ((t :: ts).filterMap colAct)) := by
    cases ht : colAct t with
    | some at' =>
      have := hspec.1 at' ht
      simp only [filterMap_cons, ht, bestAct]
      exact this
    | none =>
      have := hspec.2 ht
      simp only [filterMap_cons, ht] at hne ⊢
      cases hfm : ts.filterMap colAct with
      | nil => exact absurd hfm hne
      | cons x xs =>
        rw [hfm] at this
        simpa [bestAct] using this
  have h1 : qvalOpt β v b = some (qval β v (bestAct β v ((t :: ts).filterMap colAct))) := by
    rw [qvalOpt_eq, hb]; rfl
  have h2 : b.1 = (bestAct β v ((t :: ts).filterMap colAct)).a := (colAct_a hb).symm
  rw [h1, h2]

/-- the columns `(a, R[s,a], Q[s,a])` of one product-form row -/
def rowCols (rs : List (Option K)) (qs : List (List K)) : List (ℕ × Option K × List K) :=
  zip (range rs.length) (zip rs qs)

theorem ofProduct_eq (R : List (List (Option K))) (Q : List (List (List K))) :
    ofProduct R Q = zipWith (fun rs qs => (rowCols rs qs).filterMap colAct) R Q := rfl

/-- the literal product-form Bellman step (arg-max over all columns, `-inf` included) equals the
    step over the feasible pairs, provided every row has a feasible action -/
theorem bellmanProd_eq_aux (β : K) (v : List K) : ∀ (R : List (List (Option K))) (Q : List (List (List K))),
    (∀ p ∈ zip R Q, (rowCols p.1 p.2).filterMap colAct ≠ []) →
    bellmanProd R Q β v =
      (ofProduct R Q).map fun acts => (some (qval β v (bestAct β v acts)), (bestAct β v acts).a) := by
  intro R
  induction R with
  | nil => intro Q _; simp [bellmanProd, ofProduct]
  | cons rs R ih =>
    intro Q h
    cases Q with
    | nil => simp [bellmanProd, ofProduct]
    | cons qs Q =>
      have hh := h (rs, qs) (by simp)
      have ih' := ih Q (fun p hp => h p (by simp only [zip_cons_cons, mem_cons]; exact Or.inr hp))
      rw [ofProduct_eq] at ih' ⊢
      simp only [bellmanProd, zipWith_cons_cons, map_cons, cons.injEq] at ih' ⊢
      refine ⟨?_, ih'⟩
      show (match rowCols rs qs with
        | [] => (none, 0)
        | t :: ts => (qvalOpt β v (scanMaxOpt (qvalOpt β v) t ts), (scanMaxOpt (qvalOpt β v) t ts).1)) = _
      cases hrc : rowCols rs qs with
      | nil => simp only [hrc, filterMap_nil, ne_eq, not_true_eq_false] at hh
      | cons t ts =>
        simp only [hrc] at hh ⊢
        exact rowProd_eq β v t ts hh

/-! ### (b) order of the pairs -/

theorem perm_insertAct (x : Act K) : ∀ l : List (Act K), insertAct x l ~ x :: l := by
  intro l
  induction l with
  | nil => exact Perm.refl _
  | cons y ys ih =>
    simp only [insertAct]
    split_ifs
    · exact Perm.refl _
    · exact ((ih.cons y).trans (Perm.swap x y ys))

theorem perm_sortActs : ∀ l : List (Act K), sortActs l ~ l := by
  intro l
  induction l with
  | nil => exact Perm.refl _
  | cons x xs ih =>
    show insertAct x (sortActs xs) ~ x :: xs
    exact (perm_insertAct x _).trans (ih.cons x)

theorem sorted_insertAct (x : Act K) : ∀ l : List (Act K),
    l.Pairwise (fun y z => y.a ≤ z.a) → (insertAct x l).Pairwise (fun y z => y.a ≤ z.a) := by
  intro l
  induction l with
  | nil => intro _; simp [insertAct]
  | cons y ys ih =>
    intro h
    simp only [insertAct]
    rw [pairwise_cons] at h
    split_ifs with hlt
    · refine pairwise_cons.mpr ⟨?_, pairwise_cons.mpr h⟩
      intro z hz
      rcases mem_cons.mp hz with rfl | hz
      · exact le_of_lt hlt
      · exact le_trans (le_of_lt hlt) (h.1 z hz)
    · refine pairwise_cons.mpr ⟨?_, ih h.2⟩
      intro z hz
      have := (perm_insertAct x ys).subset hz
      rcases mem_cons.mp this with rfl | hz'
      · exact not_lt.mp hlt
      · exact h.1 z hz'

theorem sorted_sortActs : ∀ l : List (Act K), (sortActs l).Pairwise (fun y z => y.a ≤ z.a) := by
  intro l
  induction l with
  | nil => simp [sortActs]
  | cons x xs ih => exact sorted_insertAct x _ ih

/-- two label-sorted lists with distinct labels that are permutations of each other are equal -/
theorem eq_of_perm_sorted_nodup : ∀ (l₁ l₂ : List (Act K)), l₁ ~ l₂ →
    l₁.Pairwise (fun y z => y.a ≤ z.a) → l₂.Pairwise (fun y z => y.a ≤ z.a) →
    (l₁.map fun y => y.a).Nodup → l₁ = l₂ := by
  intro l₁
  induction l₁ with
  | nil => intro l₂ hp _ _ _; exact (Perm.nil_eq hp)
  | cons x xs ih =>
    intro l₂ hp h1 h2 hnd
    cases l₂ with
    | nil => exact absurd hp.symm (by simp)
    | cons y ys =>
      rw [pairwise_cons] at h1 h2
      simp only [map_cons, nodup_cons, mem_map, not_exists, not_and] at hnd
      -- the heads have the minimal label on both sides, labels are distinct: x = y
      have hxy : x = y := by
        have hx : x ∈ y :: ys := hp.subset (by simp)
        have hy : y ∈ x :: xs := hp.symm.subset (by simp)
        rcases mem_cons.mp hx with h | hx'
        · exact h
        · rcases mem_cons.mp hy with h | hy'
          · exact h.symm
          · have e1 := h2.1 x hx'
            have e2 := h1.1 y hy'
            exact absurd (le_antisymm e2 e1).symm (hnd.1 y hy')
      subst hxy
      rw [ih ys (Perm.cons_inv hp) h1.2 h2.2 hnd.2]

/-- `sortActs` only depends on the multiset of pairs when their labels are distinct -/
theorem sortActs_perm {l₁ l₂ : List (Act K)} (hp : l₁ ~ l₂) (hnd : (l₁.map fun y => y.a).Nodup) :
    sortActs l₁ = sortActs l₂ := by
  apply eq_of_perm_sorted_nodup _ _ (((perm_sortActs l₁).trans hp).trans (perm_sortActs l₂).symm)
    (sorted_sortActs l₁) (sorted_sortActs l₂)
  exact ((perm_sortActs l₁).map _).nodup_iff.mpr hnd

/-- `ofPairs` on the zipped pair list -/
def ofPairsZ (n : ℕ) (pairs : List (ℕ × ℕ × K × List K)) : Prob K :=
  (List.range n).map fun s =>
    sortActs ((pairs.filter fun p => p.1 == s).map fun p => (⟨p.2.1, p.2.2.1, p.2.2.2⟩ : Act K))

theorem ofPairs_eq_ofPairsZ (n : ℕ) (sInd aInd : List ℕ) (R : List K) (Q : List (List K)) :
    ofPairs n sInd aInd R Q = ofPairsZ n (zip sInd (zip aInd (zip R Q))) := rfl

/-- **the order of the pairs is irrelevant**: two lists of pairs that are permutations of each
    other, with distinct `(s, a)`, give the same problem -/
theorem ofPairsZ_perm (n : ℕ) {p₁ p₂ : List (ℕ × ℕ × K × List K)} (hp : p₁ ~ p₂)
    (hnd : (p₁.map fun p => (p.1, p.2.1)).Nodup) : ofPairsZ n p₁ = ofPairsZ n p₂ := by
  unfold ofPairsZ
  apply map_congr_left
  intro s _
  apply sortActs_perm ((hp.filter _).map _)
  -- labels of the pairs of state s are distinct
  rw [map_map]
  have h1 : ((p₁.filter fun p => p.1 == s).map fun p => (p.1, p.2.1)).Nodup :=
    (hnd.sublist ((filter_sublist).map _))
  have h2 : ((p₁.filter fun p => p.1 == s).map fun p => (p.1, p.2.1))
      = ((p₁.filter fun p => p.1 == s).map fun p => p.2.1).map fun a => (s, a) := by
    rw [map_map]
    apply map_congr_left
    intro p hp'
    have := (mem_filter.mp hp').2
    simp only [beq_iff_eq] at this
    simp [Function.comp, this]
  rw [h2] at h1
  exact (Nodup.of_map _ h1)

/-! ### (c) listing the pairs of a problem and re-grouping them (`to_sa_pair_form`) -/

/-- the pairs of the states `a, a+1, …` in row-major order, tagged with their state -/
def blocks (a : ℕ) (L : List (List (Act K))) : List (ℕ × ℕ × K × List K) :=
  (zip (range' a L.length) L).flatMap fun t => t.2.map fun x => (t.1, x.a, x.r, x.q)

/-- `to_sa_pair_form`: `np.where(R > -inf)` lists the feasible pairs state by state, actions in
    increasing order -/
def toPairs (P : Prob K) : List (ℕ × ℕ × K × List K) := blocks 0 P

theorem blocks_cons (a : ℕ) (acts : List (Act K)) (L : List (List (Act K))) :
    blocks a (acts :: L) = (acts.map fun x => (a, x.a, x.r, x.q)) ++ blocks (a + 1) L := by
  simp [blocks, range'_succ]

theorem blocks_filter : ∀ (L : List (List (Act K))) (a s : ℕ),
    ((blocks a L).filter fun p => p.1 == s).map (fun p => (⟨p.2.1, p.2.2.1, p.2.2.2⟩ : Act K))
      = if a ≤ s then L.getD (s - a) [] else [] := by
  intro L
  induction L with
  | nil => intro a s; simp [blocks]
  | cons acts L ih =>
    intro a s
    rw [blocks_cons, filter_append, map_append, ih (a + 1) s]
    by_cases hs : s = a
    · subst hs
      have h1 : ((acts.map fun x => (s, x.a, x.r, x.q)).filter fun p => p.1 == s) =
          acts.map fun x => (s, x.a, x.r, x.q) := by
        apply filter_eq_self.mpr
        intro p hp
        obtain ⟨x, _, rfl⟩ := mem_map.mp hp
        simp
      rw [h1, map_map]
      have heta : ((fun p : ℕ × ℕ × K × List K => (⟨p.2.1, p.2.2.1, p.2.2.2⟩ : Act K)) ∘
          fun x : Act K => (s, x.a, x.r, x.q)) = id := by
        funext x; cases x; rfl
      rw [heta]
      simp
    · have h1 : ((acts.map fun x => (a, x.a, x.r, x.q)).filter fun p => p.1 == s) = [] := by
        apply filter_eq_nil_iff.mpr
        intro p hp
        obtain ⟨x, _, rfl⟩ := mem_map.mp hp
        simp only [beq_iff_eq]
        exact fun h => hs h.symm
      rw [h1]
      by_cases hle : a + 1 ≤ s
      · have : s - a = (s - (a + 1)) + 1 := by omega
        simp [hle, show a ≤ s by omega, this]
      · simp [hle, show ¬ a ≤ s by omega]

theorem sortActs_of_sorted : ∀ (l : List (Act K)), l.Pairwise (fun y z => y.a < z.a) → sortActs l = l := by
  intro l
  induction l with
  | nil => intro _; rfl
  | cons x xs ih =>
    intro h
    rw [pairwise_cons] at h
    show insertAct x (sortActs xs) = x :: xs
    rw [ih h.2]
    cases xs with
    | nil => rfl
    | cons y ys =>
      simp only [insertAct]
      rw [if_pos (h.1 y (by simp))]

/-- **round trip**: listing the pairs of a problem whose action labels are increasing in every
    state and re-grouping them gives the problem back -/
theorem ofPairsZ_toPairs (P : Prob K) (hs : ∀ acts ∈ P, acts.Pairwise (fun y z => y.a < z.a)) :
    ofPairsZ P.length (toPairs P) = P := by
  unfold ofPairsZ toPairs
  apply ext_getElem (by simp)
  intro s h1 h2
  simp only [getElem_map, getElem_range]
  rw [blocks_filter P 0 s]
  simp only [Nat.zero_le, if_true, Nat.sub_zero]
  rw [← getElem_eq_getD (h := h2) []]
  exact sortActs_of_sorted _ (hs _ (getElem_mem h2))

theorem zip_range'_pairwise {β : Type} : ∀ (n a : ℕ) (l : List β),
    (zip (range' a n) l).Pairwise (fun t u => t.1 < u.1) := by
  intro n
  induction n with
  | zero => intro a l; simp
  | succ n ih =>
    intro a l
    cases l with
    | nil => simp
    | cons y ys =>
      rw [range'_succ, zip_cons_cons, pairwise_cons]
      refine ⟨fun t ht => ?_, ih (a + 1) ys⟩
      have := (of_mem_zip ht).1
      have := (mem_range'_1.mp this).1
      simp only
      omega

/-- the feasible pairs of a product-form row come with increasing action labels -/
theorem ofProduct_sorted (R : List (List (Option K))) (Q : List (List (List K))) :
    ∀ acts ∈ ofProduct R Q, acts.Pairwise (fun y z => y.a < z.a) := by
  intro acts hacts
  rw [ofProduct_eq] at hacts
  obtain ⟨k, hk, rfl⟩ := mem_iff_getElem.mp hacts
  simp only [getElem_zipWith]
  generalize R[k]'(by simp at hk; omega) = rs
  generalize Q[k]'(by simp at hk; omega) = qs
  have hp : (rowCols rs qs).Pairwise (fun t u => t.1 < u.1) := by
    unfold rowCols
    rw [range_eq_range']
    exact zip_range'_pairwise _ _ _
  refine hp.filterMap _ ?_
  intro t u htu x hx y hy
  rw [colAct_a hx, colAct_a hy]
  exact htu

end QE.C01
