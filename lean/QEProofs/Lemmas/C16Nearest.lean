/-
  Lemmas for C16, part: `searchLeft` / `nearest1` (the per-dimension step of
  `_cartesian_nearest_indices`): on a sorted grid the chosen index minimises `|x − g[i]|`.
-/
import Mathlib.Algebra.Order.Group.Abs
import Mathlib.Algebra.Order.Ring.Abs
import Mathlib.Tactic.Linarith
import QEModel.C16
namespace QE.C16
set_option linter.unusedSectionVars false

section
variable {K : Type} [Field K] [LinearOrder K] [IsStrictOrderedRing K]

theorem getD_of_lt (g : List K) (i : Nat) (h : i < g.length) : g.getD i 0 = g[i] := by
  rw [List.getD_eq_getElem?_getD, List.getElem?_eq_getElem h]; rfl

/-- weakly sorted lists, read through the total `getD` -/
theorem sorted_getD {g : List K} (hs : g.Pairwise (· ≤ ·)) {i j : Nat} (hij : i ≤ j)
    (hj : j < g.length) : g.getD i 0 ≤ g.getD j 0 := by
  rw [getD_of_lt g i (by omega), getD_of_lt g j hj]
  rcases Nat.lt_or_ge i j with h | h
  · exact List.pairwise_iff_getElem.mp hs i j (by omega) hj h
  · have : i = j := by omega
    subst this; exact le_refl _

theorem ssorted_getD {g : List K} (hs : g.Pairwise (· < ·)) {i j : Nat} (hij : i < j)
    (hj : j < g.length) : g.getD i 0 < g.getD j 0 := by
  rw [getD_of_lt g i (by omega), getD_of_lt g j hj]
  exact List.pairwise_iff_getElem.mp hs i j (by omega) hj hij

/-- `np.searchsorted(g, x)` (side = left), for an arbitrary list: everything before the
    returned position is `< x`, and the element at the position (if any) is `≥ x`. -/
theorem searchLeft_spec (g : List K) (x : K) :
    searchLeft g x ≤ g.length ∧ (∀ i, i < searchLeft g x → g.getD i 0 < x) ∧
      (searchLeft g x < g.length → x ≤ g.getD (searchLeft g x) 0) := by
  induction g with
  | nil => simp [searchLeft]
  | cons y ys ih =>
    unfold searchLeft at ih ⊢
    by_cases hxy : x ≤ y
    · simp [hxy]
    · obtain ⟨h1, h2, h3⟩ := ih
      simp only [List.takeWhile_cons, hxy, not_false_eq_true, decide_true, if_true,
        List.length_cons]
      refine ⟨by omega, ?_, ?_⟩
      · intro i hi
        cases i with
        | zero => simpa using lt_of_not_ge hxy
        | succ i => simpa using h2 i (by omega)
      · intro hlt
        simpa using h3 (by omega)

/-- **`nearest1` is an argmin on a sorted grid.** For a non-empty weakly sorted grid `g`
    the index chosen by the per-dimension step of `cartesian_nearest_index` is a valid index
    and no grid point is closer to `x`. -/
theorem nearest1_argmin (g : List K) (x : K) (hne : g ≠ []) (hs : g.Pairwise (· ≤ ·)) :
    nearest1 g x < g.length ∧
      ∀ i, i < g.length → |x - g.getD (nearest1 g x) 0| ≤ |x - g.getD i 0| := by
  have hlen : 0 < g.length := List.length_pos_iff.mpr hne
  unfold nearest1
  by_cases h1 : x ≤ g.getD 0 0
  · rw [if_pos h1]
    refine ⟨hlen, fun i hi => ?_⟩
    have := sorted_getD hs (Nat.zero_le i) hi
    rw [abs_of_nonpos (by linarith), abs_of_nonpos (by linarith)]; linarith
  rw [if_neg h1]
  by_cases h2 : g.getD (g.length - 1) 0 ≤ x
  · rw [if_pos h2]
    refine ⟨by omega, fun i hi => ?_⟩
    have := sorted_getD hs (show i ≤ g.length - 1 by omega) (by omega)
    rw [abs_of_nonneg (by linarith), abs_of_nonneg (by linarith)]; linarith
  rw [if_neg h2]
  obtain ⟨hk1, hk2, hk3⟩ := searchLeft_spec g x
  generalize searchLeft g x = k at hk1 hk2 hk3 ⊢
  have hklt : k < g.length := by
    rcases Nat.lt_or_ge k g.length with h | h
    · exact h
    · exact absurd (le_of_lt (hk2 (g.length - 1) (by omega))) h2
  have hk0 : 0 < k := by
    rcases Nat.eq_zero_or_pos k with h | h
    · subst h; exact absurd (hk3 hklt) h1
    · exact h
  have hlo := hk2 (k - 1) (by omega)
  have hhi := hk3 hklt
  -- distance to any grid point is at least the distance to the nearer of the two neighbours
  have hfar : ∀ i, i < g.length →
      (i ≤ k - 1 → x - g.getD (k - 1) 0 ≤ |x - g.getD i 0|) ∧
      (k ≤ i → g.getD k 0 - x ≤ |x - g.getD i 0|) := by
    intro i hi
    constructor
    · intro hik
      have := sorted_getD hs hik (by omega)
      rw [abs_of_nonneg (by linarith)]; linarith
    · intro hik
      have := sorted_getD hs hik hi
      rw [abs_of_nonpos (by linarith)]; linarith
  show (if g.getD k 0 - x < x - g.getD (k - 1) 0 then k else k - 1) < g.length ∧ _
  by_cases h3 : g.getD k 0 - x < x - g.getD (k - 1) 0
  · simp only [if_pos h3]
    refine ⟨hklt, fun i hi => ?_⟩
    rw [abs_of_nonpos (by linarith)]
    rcases Nat.lt_or_ge i k with h | h
    · have := (hfar i hi).1 (by omega); linarith
    · have := (hfar i hi).2 h; linarith
  · simp only [if_neg h3]
    refine ⟨by omega, fun i hi => ?_⟩
    rw [abs_of_nonneg (by linarith)]
    rcases Nat.lt_or_ge i k with h | h
    · exact (hfar i hi).1 (by omega)
    · have := (hfar i hi).2 h; linarith

/-- **Ties go to the lower index.** On a strictly increasing grid every grid point with a
    smaller index than the chosen one is strictly farther from `x`; so `nearest1` is the
    *least* index at minimum distance (e.g. for `x` exactly on a mid-point). -/
theorem nearest1_lower_strict (g : List K) (x : K) (hs : g.Pairwise (· < ·)) :
    ∀ i, i < nearest1 g x → |x - g.getD (nearest1 g x) 0| < |x - g.getD i 0| := by
  unfold nearest1
  by_cases h1 : x ≤ g.getD 0 0
  · rw [if_pos h1]; intro i hi; omega
  rw [if_neg h1]
  by_cases h2 : g.getD (g.length - 1) 0 ≤ x
  · rw [if_pos h2]
    intro i hi
    have := ssorted_getD hs hi (by omega)
    rw [abs_of_nonneg (by linarith), abs_of_nonneg (by linarith)]; linarith
  rw [if_neg h2]
  obtain ⟨hk1, hk2, hk3⟩ := searchLeft_spec g x
  generalize searchLeft g x = k at hk1 hk2 hk3 ⊢
  have hklt : k < g.length := by
    rcases Nat.lt_or_ge k g.length with h | h
    · exact h
    · have hpos : 0 < g.length := by
        rcases Nat.eq_zero_or_pos g.length with h0 | h0
        · exfalso; apply h1
          have : g = [] := List.length_eq_zero_iff.mp h0
          subst this
          simp at h2 ⊢
          exact le_of_lt h2
        · exact h0
      exact absurd (le_of_lt (hk2 (g.length - 1) (by omega))) h2
  have hk0 : 0 < k := by
    rcases Nat.eq_zero_or_pos k with h | h
    · subst h; exact absurd (hk3 hklt) h1
    · exact h
  have hlo := hk2 (k - 1) (by omega)
  have hhi := hk3 hklt
  show ∀ i, i < (if g.getD k 0 - x < x - g.getD (k - 1) 0 then k else k - 1) → _
  by_cases h3 : g.getD k 0 - x < x - g.getD (k - 1) 0
  · simp only [if_pos h3]
    intro i hi
    have hws : g.Pairwise (· ≤ ·) := hs.imp le_of_lt
    have := sorted_getD hws (show i ≤ k - 1 by omega) (by omega)
    rw [abs_of_nonpos (by linarith), abs_of_nonneg (by linarith)]; linarith
  · simp only [if_neg h3]
    intro i hi
    have := ssorted_getD hs hi (by omega)
    rw [abs_of_nonneg (by linarith), abs_of_nonneg (by linarith)]; linarith

end

end QE.C16
