/-
  Lemmas for C02: the accuracy theorem at the level of `MarkovChain.stationary_distributions`.
  The rounded run of `stationaryDists` finds the same recurrent classes as the exact run (the class
  computation only tests entries against 0, and the input is read exactly), and every component of
  every row carries at most `E(|C|)` rounding factors.
-/
import QEModel.C02
import QEProofs.Lemmas.C02Gth
import QEProofs.Lemmas.C02Round
import QEProofs.Lemmas.C02Acc
import QEProofs.Lemmas.C02Scatter
import QEProofs.Lemmas.C02Class
import QEProofs.Lemmas.C02Unique
import Mathlib.Data.List.Perm.Subperm
import Mathlib.Tactic.IntervalCases
import Mathlib.Tactic.NormNum
namespace QE.C02
open Finset

set_option linter.unusedSectionVars false
set_option linter.unusedVariables false

theorem tab_congr {β : Type} (n m : ℕ) (f g : ℕ → ℕ → β)
    (h : ∀ i j, i < n → j < m → f i j = g i j) : M.tab n m f = M.tab n m g := by
  unfold M.tab
  congr 1
  apply congrArg
  funext i
  apply congrArg
  funext j
  exact h i.1 j.1 i.2 j.2

theorem reachStep_congr (n : ℕ) (adj1 adj2 : ℕ → ℕ → Bool)
    (h : ∀ i j, i < n → j < n → adj1 i j = adj2 i j) (Rm : M ℕ) :
    reachStep n adj1 Rm = reachStep n adj2 Rm := by
  unfold reachStep
  apply tab_congr
  intro i j hi hj
  have hany : (List.range n).any (fun k => decide (Rm.get i k = 1) && adj1 k j)
      = (List.range n).any (fun k => decide (Rm.get i k = 1) && adj2 k j) := by
    apply Bool.eq_iff_iff.2
    simp only [List.any_eq_true, List.mem_range, Bool.and_eq_true, decide_eq_true_eq]
    constructor
    · rintro ⟨k, hk, h1, h2⟩; exact ⟨k, hk, h1, by rw [← h k j hk hj]; exact h2⟩
    · rintro ⟨k, hk, h1, h2⟩; exact ⟨k, hk, h1, by rw [h k j hk hj]; exact h2⟩
  rw [hany]

theorem iter_congr {β : Type} (f g : β → β) (h : ∀ b, f b = g b) (t : ℕ) (b : β) :
    iter f t b = iter g t b := by
  induction t generalizing b with
  | zero => rfl
  | succ t ih => rw [iter, iter, h b, ih]

theorem reachMat_congr (n : ℕ) (adj1 adj2 : ℕ → ℕ → Bool)
    (h : ∀ i j, i < n → j < n → adj1 i j = adj2 i j) : reachMat n adj1 = reachMat n adj2 := by
  unfold reachMat
  exact iter_congr _ _ (reachStep_congr n adj1 adj2 h) n _

theorem scatter_getD' {β : Type} [Zero β] (n : ℕ) (C : List ℕ) (x : List β) (i : ℕ) :
    (scatter n C x).getD i 0 =
      if i < n then (match C.findIdx? (· == i) with | some a => x.getD a 0 | none => 0) else 0 := by
  unfold scatter
  by_cases h : i < n
  · rw [if_pos h, List.getD_eq_getElem?_getD, List.getElem?_map, List.getElem?_range h]
    rfl
  · rw [if_neg h, List.getD_eq_getElem?_getD, List.getElem?_eq_none (by simpa using h)]
    rfl

section
variable {K : Type} [Field K] [LinearOrder K] [IsStrictOrderedRing K]

theorem adjB_liftM (R : RoundedOps K) (n : ℕ) (P : M K) (i j : ℕ) (hi : i < n) (hj : j < n) :
    adjB (liftM R n P) i j = adjB P i j := by
  unfold adjB liftM
  rw [M.get_tab _ _ _ _ _ hi hj]
  rfl

/-- the rounded run finds the same recurrent classes -/
theorem recClasses_liftM (R : RoundedOps K) (n : ℕ) (P : M K) :
    recClasses n (reachMat n (adjB (liftM R n P))) = recClasses n (reachMat n (adjB P)) := by
  rw [reachMat_congr n _ _ (fun i j hi hj => adjB_liftM R n P i j hi hj)]

theorem restrict_liftM (R : RoundedOps K) (n : ℕ) (P : M K) (C : List ℕ) (hC : ∀ c ∈ C, c < n) :
    restrict (liftM R n P) C = liftM R C.length (restrict P C) := by
  unfold restrict
  unfold liftM
  apply tab_congr
  intro a b ha hb
  rw [M.get_tab _ _ _ _ _ (hC _ (getD_mem_of_lt C a ha)) (hC _ (getD_mem_of_lt C b hb)),
    M.get_tab _ _ _ _ _ ha hb]

/-- **Accuracy of one row of `stationary_distributions`.** For a non-empty class `C ⊆ [0,n)` and a
    matrix with non-negative entries, the row computed with rounded arithmetic carries at most
    `E(|C|)` factors in every component relative to the exact row. -/
theorem class_row_apx (R : RoundedOps K) (n : ℕ) (P : M K)
    (hnn : ∀ i j, i < n → j < n → 0 ≤ P.get i j)
    (C : List ℕ) (hC : ∀ c ∈ C, c < n) (hne : C ≠ []) :
    ∀ i, Apx R.u (errBound C.length)
      ((scatter n C (gthSolve C.length (restrict (liftM R n P) C))).getD i 0).val
      ((scatter n C (gthSolve C.length (restrict P C))).getD i 0) := by
  have hu := R.u_nonneg
  have hlen : 1 ≤ C.length := List.length_pos_iff.2 hne
  have hR : OffNonneg C.length (restrict P C) := by
    intro a b ha hb _
    rw [restrict_get P C a b ha hb]
    exact hnn _ _ (hC _ (getD_mem_of_lt C a ha)) (hC _ (getD_mem_of_lt C b hb))
  have hx := gthSolve_apx R C.length hlen (restrict P C) hR
  intro i
  rw [restrict_liftM R n P C hC, scatter_getD', scatter_getD']
  by_cases hi : i < n
  · rw [if_pos hi, if_pos hi]
    cases hfi : C.findIdx? (· == i) with
    | none => simp only [Fl.zero_val]; exact apx_refl hu _ (le_refl _)
    | some a => simp only; exact hx a
  · rw [if_neg hi, if_neg hi]
    simp only [Fl.zero_val]; exact apx_refl hu _ (le_refl _)

/-- entries of the exact row are non-negative (any non-negative matrix) -/
theorem class_row_nonneg (n : ℕ) (P : M K) (hnn : ∀ i j, i < n → j < n → 0 ≤ P.get i j)
    (C : List ℕ) (hnd : C.Nodup) (hC : ∀ c ∈ C, c < n) (hne : C ≠ []) :
    ∀ i, 0 ≤ (scatter n C (gthSolve C.length (restrict P C))).getD i 0 := by
  have hlen : 1 ≤ C.length := List.length_pos_iff.2 hne
  have hR : OffNonneg C.length (restrict P C) := by
    intro a b ha hb _
    rw [restrict_get P C a b ha hb]
    exact hnn _ _ (hC _ (getD_mem_of_lt C a ha)) (hC _ (getD_mem_of_lt C b hb))
  obtain ⟨_, hx0, _, _⟩ := gthSolve_stationary_aux C.length hlen (restrict P C) hR
  intro i
  rcases scatter_cases n C (gthSolve C.length (restrict P C)) hnd hC i with h | ⟨a, _, h⟩
  · rw [h]
  · rw [h]; exact hx0 a

/-- **`stationary_distributions` in rounded arithmetic.** Same classes, in the same order, and for
    every class `C` the rounded row is within `(1+u)^{E(|C|)} − 1` of the exact row, component-wise. -/
theorem stationaryDists_apx (R : RoundedOps K) (n : ℕ) (P : M K)
    (hnn : ∀ i j, i < n → j < n → 0 ≤ P.get i j) :
    (stationaryDists n (liftM R n P)).map (·.1) = (stationaryDists n P).map (·.1)
    ∧ ∀ C, C ∈ recClasses n (reachMat n (adjB P)) →
        (C, scatter n C (gthSolve C.length (restrict (liftM R n P) C))) ∈ stationaryDists n (liftM R n P)
        ∧ (C, scatter n C (gthSolve C.length (restrict P C))) ∈ stationaryDists n P
        ∧ ∀ i, |((scatter n C (gthSolve C.length (restrict (liftM R n P) C))).getD i 0).val
                - (scatter n C (gthSolve C.length (restrict P C))).getD i 0|
              ≤ ((1 + R.u) ^ errBound C.length - 1)
                * (scatter n C (gthSolve C.length (restrict P C))).getD i 0 := by
  have hcls := recClasses_liftM R n P
  refine ⟨?_, ?_⟩
  · unfold stationaryDists
    rw [List.map_map, List.map_map, hcls]
    rfl
  · intro C hCm
    obtain ⟨hnd, hC, hne⟩ := recClasses_mem n _ C hCm
    refine ⟨?_, ?_, ?_⟩
    · unfold stationaryDists
      rw [hcls]
      exact List.mem_map.2 ⟨C, hCm, rfl⟩
    · unfold stationaryDists
      exact List.mem_map.2 ⟨C, hCm, rfl⟩
    · intro i
      exact apx_rel_err R.u_nonneg (class_row_apx R n P hnn C hC hne i)
        (class_row_nonneg n P hnn C hnd hC hne i)

/-! ### `E(n)` is monotone: a uniform bound over all classes of an `n`-state chain -/

theorem xerr_mono_e (f : ℕ) : ∀ e e', e ≤ e' → xerr f e ≤ xerr f e' := by
  induction f with
  | zero => intro e e' _; simp [xerr]
  | succ f ih =>
    intro e e' h
    rw [xerr, xerr]
    have := ih (3 * e + (f + 1) + 3) (3 * e' + (f + 1) + 3) (by omega)
    omega

theorem xerr_mono_f (f e : ℕ) : xerr f e ≤ xerr (f + 1) e := by
  rw [xerr]
  have := xerr_mono_e f e (3 * e + (f + 1) + 3) (by omega)
  omega

theorem errBound_mono {m n : ℕ} (h : m ≤ n) : errBound m ≤ errBound n := by
  induction n with
  | zero => have : m = 0 := by omega
            subst this; exact le_refl _
  | succ n ih =>
    by_cases hm : m = n + 1
    · subst hm; exact le_refl _
    · have h1 := ih (by omega)
      refine le_trans h1 ?_
      unfold errBound
      by_cases hn0 : n = 0
      · subst hn0; simp [xerr]
      · have : n + 1 - 1 = (n - 1) + 1 := by omega
        rw [this]
        have := xerr_mono_f (n - 1) 0
        omega

theorem class_length_le (n : ℕ) (C : List ℕ) (hnd : C.Nodup) (hC : ∀ c ∈ C, c < n) : C.length ≤ n := by
  have hsub : C ⊆ List.range n := fun c hc => List.mem_range.2 (hC c hc)
  have := (List.subperm_of_subset hnd hsub).length_le
  simpa using this

/-- at `u ≤ 2⁻⁵³` and `1 ≤ n ≤ 8`: `(1+u)^{E(n)} − 1 ≤ n³/10¹²` -/
theorem double_bound (u : K) (hu : 0 ≤ u) (hu53 : u ≤ 1 / 2 ^ 53) (n : ℕ) (hn : 1 ≤ n) (hn8 : n ≤ 8) :
    (1 + u) ^ errBound n - 1 ≤ (n : K) ^ 3 / 10 ^ 12 := by
  have hmono : (1 + u) ^ errBound n ≤ (1 + (1 : K) / 2 ^ 53) ^ errBound n :=
    pow_le_pow_left₀ (by linarith) (by linarith) _
  have hu0 : (0 : K) ≤ 1 / 2 ^ 53 := by positivity
  have hnum : (errBound n : K) * (1 / 2 ^ 53) < 1 ∧
      1 / (1 - (errBound n : K) * (1 / 2 ^ 53)) - 1 ≤ (n : K) ^ 3 / 10 ^ 12 := by
    interval_cases n
    · have : errBound 1 = 2 := by decide
      rw [this]; norm_num
    · have : errBound 2 = 11 := by decide
      rw [this]; norm_num
    · have : errBound 3 = 44 := by decide
      rw [this]; norm_num
    · have : errBound 4 = 157 := by decide
      rw [this]; norm_num
    · have : errBound 5 = 542 := by decide
      rw [this]; norm_num
    · have : errBound 6 = 1847 := by decide
      rw [this]; norm_num
    · have : errBound 7 = 6232 := by decide
      rw [this]; norm_num
    · have : errBound 8 = 20825 := by decide
      rw [this]; norm_num
  have h2 := pow_le_inv_one_sub ((1 : K) / 2 ^ 53) hu0 (errBound n) hnum.1
  linarith [hnum.2]

/-- double precision, chains with at most 8 states: every component of every row of
    `stationary_distributions` within `1e-12·n³` (relative) of the exact row -/
theorem stationaryDists_apx_double (R : RoundedOps K) (hR : R.u ≤ 1 / 2 ^ 53) (n : ℕ) (hn8 : n ≤ 8) (P : M K)
    (hnn : ∀ i j, i < n → j < n → 0 ≤ P.get i j)
    (C : List ℕ) (hCm : C ∈ recClasses n (reachMat n (adjB P))) (i : ℕ) :
    |((scatter n C (gthSolve C.length (restrict (liftM R n P) C))).getD i 0).val
        - (scatter n C (gthSolve C.length (restrict P C))).getD i 0|
      ≤ ((n : K) ^ 3 / 10 ^ 12) * (scatter n C (gthSolve C.length (restrict P C))).getD i 0 := by
  obtain ⟨hnd, hC, hne⟩ := recClasses_mem n _ C hCm
  have hlen1 : 1 ≤ C.length := List.length_pos_iff.2 hne
  have hlen : C.length ≤ n := class_length_le n C hnd hC
  have h1 := ((stationaryDists_apx R n P hnn).2 C hCm).2.2 i
  have hr0 := class_row_nonneg n P hnn C hnd hC hne i
  have hu := R.u_nonneg
  have hpow : (1 + R.u) ^ errBound C.length ≤ (1 + R.u) ^ errBound n :=
    pow_le_pow_right₀ (by linarith) (errBound_mono hlen)
  have hdb := double_bound R.u hu hR n (by omega) hn8
  have : (1 + R.u) ^ errBound C.length - 1 ≤ (n : K) ^ 3 / 10 ^ 12 := by linarith
  exact le_trans h1 (mul_le_mul_of_nonneg_right this hr0)

/-- in rounded arithmetic too, the row of a class of a stochastic matrix is positive exactly on the class -/
theorem class_row_support_rounded (R : RoundedOps K) (n : ℕ) (P : M K)
    (hnn : ∀ i j, i < n → j < n → 0 ≤ P.get i j)
    (hrow : ∀ i, i < n → ∑ j ∈ range n, P.get i j = 1)
    (C : List ℕ) (hCm : C ∈ recClasses n (reachMat n (adjB P))) (i : ℕ) :
    (0 < ((scatter n C (gthSolve C.length (restrict (liftM R n P) C))).getD i 0).val ↔ i ∈ C)
    ∧ (i ∉ C → ((scatter n C (gthSolve C.length (restrict (liftM R n P) C))).getD i 0).val = 0) := by
  obtain ⟨hnd, hC, hne⟩ := recClasses_mem n _ C hCm
  have hu := R.u_nonneg
  have ha := class_row_apx R n P hnn C hC hne i
  have hsupp := class_row_support n P hnn hrow C hCm i
  have hr0 := class_row_nonneg n P hnn C hnd hC hne i
  have hzero : i ∉ C → ((scatter n C (gthSolve C.length (restrict (liftM R n P) C))).getD i 0).val = 0 := by
    intro hi
    have hx : (scatter n C (gthSolve C.length (restrict P C))).getD i 0 = 0 := scatter_notMem n C _ i hi
    rw [hx] at ha
    have h1 := ha.2
    rw [zero_mul] at h1
    have h2 := apx_nonneg hu ha (le_refl _)
    exact le_antisymm h1 h2
  refine ⟨⟨?_, ?_⟩, hzero⟩
  · intro hpos
    by_contra hi
    rw [hzero hi] at hpos
    exact lt_irrefl _ hpos
  · intro hi
    exact apx_pos hu ha (hsupp.2 hi)

/-- `MarkovChain.__init__`'s acceptance test as modelled (`validStochastic`, exact arithmetic) -/
theorem validStochastic_iff' (n : ℕ) (P : M ℚ) :
    validStochastic n P = true ↔
      ∀ i, i < n → (∀ j, j < n → 0 ≤ P.get i j)
        ∧ |sumUpTo (fun j => P.get i j) n - 1| ≤ 1 / 100000000 + 1 / 100000 := by
  unfold validStochastic
  simp only [List.all_eq_true, List.mem_range, Bool.and_eq_true, decide_eq_true_eq]
  constructor
  · intro h i hi
    obtain ⟨h1, h2⟩ := h i hi
    refine ⟨h1, ?_⟩
    by_cases hs : sumUpTo (fun j => P.get i j) n ≤ 1
    · rw [if_pos hs] at h2
      rw [abs_le]; constructor <;> linarith
    · rw [if_neg hs] at h2
      have := not_le.1 hs
      rw [abs_le]; constructor <;> linarith
  · intro h i hi
    obtain ⟨h1, h2⟩ := h i hi
    refine ⟨h1, ?_⟩
    rw [abs_le] at h2
    by_cases hs : sumUpTo (fun j => P.get i j) n ≤ 1
    · rw [if_pos hs]; linarith [h2.1]
    · rw [if_neg hs]; linarith [h2.2]

end
end QE.C02
