/-
  C06 helper lemmas, part 10: the bounds of `C06Norm` with a non-negative weight vector `w`
  (`‖D⁻¹ A D‖∞ ≤ a` for `D = diag w`): `RowBoundW w A a : Σ_c |A_pc| w_c ≤ a w_p`,
  `EntryBoundW w M g : |M_pq| ≤ g w_p w_q`. With `w = 1` these are `RowBound` / `EntryBound`.
  They enlarge the checkable termination domain to every `A` with `|A| w ≤ ρ w`, `ρ < 1`, `w > 0`.
-/
import QEProofs.Lemmas.C06Norm

set_option linter.unusedSectionVars false

namespace QE.C06
open Matrix Finset

variable {K : Type} [Field K] [LinearOrder K] [IsStrictOrderedRing K] {n : ℕ}

def RowBoundW (w : Fin n → K) (A : Matrix (Fin n) (Fin n) K) (a : K) : Prop :=
  ∀ p, ∑ c, |A p c| * w c ≤ a * w p

def EntryBoundW (w : Fin n → K) (M : Matrix (Fin n) (Fin n) K) (g : K) : Prop :=
  ∀ p q, |M p q| ≤ g * (w p * w q)

theorem rowBoundW_mul (w : Fin n → K) (hw : ∀ p, 0 ≤ w p) {A B : Matrix (Fin n) (Fin n) K} {a b : K}
    (hA : RowBoundW w A a) (hB : RowBoundW w B b) (hb : 0 ≤ b) : RowBoundW w (A * B) (a * b) := by
  intro p
  calc ∑ c, |(A * B) p c| * w c ≤ ∑ c, ∑ d, |A p d| * (|B d c| * w c) := by
        apply sum_le_sum; intro c _
        rw [Matrix.mul_apply]
        calc |∑ d, A p d * B d c| * w c ≤ (∑ d, |A p d| * |B d c|) * w c :=
              mul_le_mul_of_nonneg_right
                (le_trans (abs_sum_le_sum_abs _ _) (le_of_eq (sum_congr rfl fun d _ => abs_mul _ _))) (hw c)
          _ = ∑ d, |A p d| * (|B d c| * w c) := by
              rw [sum_mul]; exact sum_congr rfl fun d _ => mul_assoc _ _ _
    _ = ∑ d, |A p d| * ∑ c, |B d c| * w c := by
        rw [sum_comm]; exact sum_congr rfl fun d _ => (mul_sum _ _ _).symm
    _ ≤ ∑ d, |A p d| * (b * w d) := sum_le_sum fun d _ => mul_le_mul_of_nonneg_left (hB d) (abs_nonneg _)
    _ = b * ∑ d, |A p d| * w d := by
        rw [mul_sum]; exact sum_congr rfl fun d _ => by ring
    _ ≤ b * (a * w p) := mul_le_mul_of_nonneg_left (hA p) hb
    _ = a * b * w p := by ring

theorem rowBoundW_one (w : Fin n → K) : RowBoundW w (1 : Matrix (Fin n) (Fin n) K) 1 := by
  intro p
  have : ∀ c, |(1 : Matrix (Fin n) (Fin n) K) p c| * w c = if p = c then w c else 0 := by
    intro c; rw [Matrix.one_apply]; split <;> simp
  simp only [this, sum_ite_eq, mem_univ, if_true, one_mul, le_refl]

theorem rowBoundW_pow (w : Fin n → K) (hw : ∀ p, 0 ≤ w p) {A : Matrix (Fin n) (Fin n) K} {a : K}
    (hA : RowBoundW w A a) (ha : 0 ≤ a) (j : ℕ) : RowBoundW w (A ^ j) (a ^ j) := by
  induction j with
  | zero => simpa using rowBoundW_one w
  | succ j ih => rw [pow_succ, pow_succ]; exact rowBoundW_mul w hw ih hA ha

theorem entryBoundW_mul_left (w : Fin n → K) (hw : ∀ p, 0 ≤ w p) {A M : Matrix (Fin n) (Fin n) K} {a g : K}
    (hA : RowBoundW w A a) (hM : EntryBoundW w M g) (hg : 0 ≤ g) : EntryBoundW w (A * M) (a * g) := by
  intro p q
  rw [Matrix.mul_apply]
  calc |∑ c, A p c * M c q| ≤ ∑ c, |A p c| * |M c q| :=
        le_trans (abs_sum_le_sum_abs _ _) (le_of_eq (sum_congr rfl fun c _ => abs_mul _ _))
    _ ≤ ∑ c, |A p c| * (g * (w c * w q)) :=
        sum_le_sum fun c _ => mul_le_mul_of_nonneg_left (hM c q) (abs_nonneg _)
    _ = (g * w q) * ∑ c, |A p c| * w c := by
        rw [mul_sum]; exact sum_congr rfl fun c _ => by ring
    _ ≤ (g * w q) * (a * w p) := mul_le_mul_of_nonneg_left (hA p) (mul_nonneg hg (hw q))
    _ = a * g * (w p * w q) := by ring

theorem entryBoundW_mul_right_transpose (w : Fin n → K) (hw : ∀ p, 0 ≤ w p)
    {A M : Matrix (Fin n) (Fin n) K} {a g : K}
    (hM : EntryBoundW w M g) (hA : RowBoundW w A a) (hg : 0 ≤ g) : EntryBoundW w (M * Aᵀ) (g * a) := by
  intro p q
  rw [Matrix.mul_apply]
  calc |∑ d, M p d * Aᵀ d q| ≤ ∑ d, |M p d| * |A q d| :=
        le_trans (abs_sum_le_sum_abs _ _)
          (le_of_eq (sum_congr rfl fun d _ => by rw [abs_mul, transpose_apply]))
    _ ≤ ∑ d, (g * (w p * w d)) * |A q d| :=
        sum_le_sum fun d _ => mul_le_mul_of_nonneg_right (hM p d) (abs_nonneg _)
    _ = (g * w p) * ∑ d, |A q d| * w d := by
        rw [mul_sum]; exact sum_congr rfl fun d _ => by ring
    _ ≤ (g * w p) * (a * w q) := mul_le_mul_of_nonneg_left (hA q) (mul_nonneg hg (hw p))
    _ = g * a * (w p * w q) := by ring

theorem entryBoundW_conj (w : Fin n → K) (hw : ∀ p, 0 ≤ w p) {A M : Matrix (Fin n) (Fin n) K} {a g : K}
    (hA : RowBoundW w A a) (ha : 0 ≤ a) (hM : EntryBoundW w M g) (hg : 0 ≤ g) :
    EntryBoundW w (A * M * Aᵀ) (a * g * a) :=
  entryBoundW_mul_right_transpose w hw (entryBoundW_mul_left w hw hA hM hg) hA (mul_nonneg ha hg)

theorem entryBoundW_sum (w : Fin n → K) {ι : Type} (s : Finset ι) (f : ι → Matrix (Fin n) (Fin n) K)
    (β : ι → K) (h : ∀ i ∈ s, EntryBoundW w (f i) (β i)) : EntryBoundW w (∑ i ∈ s, f i) (∑ i ∈ s, β i) := by
  intro p q
  rw [Matrix.sum_apply, sum_mul]
  exact le_trans (abs_sum_le_sum_abs _ _) (sum_le_sum fun i hi => h i hi p q)

theorem entryBoundW_mono (w : Fin n → K) (hw : ∀ p, 0 ≤ w p) {M : Matrix (Fin n) (Fin n) K} {g g' : K}
    (h : EntryBoundW w M g) (hg : g ≤ g') : EntryBoundW w M g' := fun p q =>
  le_trans (h p q) (mul_le_mul_of_nonneg_right hg (mul_nonneg (hw p) (hw q)))

section doubling
variable (w : Fin n → K) (hw : ∀ p, 0 ≤ w p) (a b : Matrix (Fin n) (Fin n) K) (ρ β : K)
include hw

theorem tterm_entryBoundW (ha : RowBoundW w a ρ) (hρ : 0 ≤ ρ) (hb : EntryBoundW w b β) (hβ : 0 ≤ β) (j : ℕ) :
    EntryBoundW w (tterm a b j) (β * (ρ ^ 2) ^ j) := by
  unfold tterm
  rw [← transpose_pow]
  have := entryBoundW_conj w hw (rowBoundW_pow w hw ha hρ j) (pow_nonneg hρ j) hb hβ
  refine entryBoundW_mono w hw this (le_of_eq ?_)
  rw [← pow_mul, mul_comm 2 j, pow_mul]; ring

theorem dsum_entryBoundW (ha : RowBoundW w a ρ) (hρ : 0 ≤ ρ) (hρ1 : ρ < 1) (hb : EntryBoundW w b β)
    (hβ : 0 ≤ β) (m : ℕ) : EntryBoundW w (dsum a b aᵀ m) (β / (1 - ρ ^ 2)) := by
  rw [dsum_eq_sum_tterm]
  have h2 : ρ ^ 2 < 1 := by nlinarith
  have h := entryBoundW_sum w (range m) (tterm a b) (fun j => β * (ρ ^ 2) ^ j)
    (fun j _ => tterm_entryBoundW w hw a b ρ β ha hρ hb hβ j)
  refine entryBoundW_mono w hw h ?_
  rw [← mul_sum, div_eq_mul_one_div]
  exact mul_le_mul_of_nonneg_left (geom_sum_le _ (sq_nonneg ρ) h2 m) hβ

theorem increment_entryBoundW (ha : RowBoundW w a ρ) (hρ : 0 ≤ ρ) (hρ1 : ρ < 1) (hb : EntryBoundW w b β)
    (hβ : 0 ≤ β) (m p : ℕ) :
    EntryBoundW w (a ^ m * dsum a b aᵀ p * aᵀ ^ m) (β / (1 - ρ ^ 2) * (ρ ^ m) ^ 2) := by
  rw [← transpose_pow]
  have h2 : 0 < 1 - ρ ^ 2 := by nlinarith
  have hC : 0 ≤ β / (1 - ρ ^ 2) := div_nonneg hβ (le_of_lt h2)
  have := entryBoundW_conj w hw (rowBoundW_pow w hw ha hρ m) (pow_nonneg hρ m)
    (dsum_entryBoundW w hw a b ρ β ha hρ hρ1 hb hβ p) hC
  exact entryBoundW_mono w hw this (le_of_eq (by ring))

end doubling
end QE.C06
