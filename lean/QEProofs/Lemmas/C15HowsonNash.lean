/-
  Lemmas for C15, part 10: Howson (1972) — a solution of the LCP that `polym_lcp_solver` sets up
  (`w = M z + q`, `w, z ≥ 0`, `w_k z_k = 0`) with strictly positive costs between different players
  gives a profile of probability vectors that is a Nash equilibrium of the polymatrix game.
  Everything is stated on flat action indices `i < ta` (`P i` = the player owning `i`).
-/
import Mathlib.Algebra.BigOperators.Field
import Mathlib.Algebra.BigOperators.Ring.Finset
import Mathlib.Algebra.Order.BigOperators.Ring.Finset
import Mathlib.Algebra.Order.BigOperators.Group.Finset
import Mathlib.Tactic.Linarith
import QEModel.C15
import QEProofs.Lemmas.C15HowsonInit
namespace QE.C15
open QE Finset

set_option linter.unusedSectionVars false
variable {K : Type} [Field K] [LinearOrder K] [IsStrictOrderedRing K]

/-- the player owning the flat action index `i` -/
def plOf (nums : List Nat) (i : Nat) : Nat := (locate nums i 0).1
/-- the action of that player -/
def acOf (nums : List Nat) (i : Nat) : Nat := (locate nums i 0).2

theorem locate_lt (l : List Nat) : ∀ (i p0 : Nat), i < l.sum →
    (locate l i p0).1 < p0 + l.length ∧ p0 ≤ (locate l i p0).1 := by
  induction l with
  | nil => intro i p0 h; simp at h
  | cons k ks ih =>
    intro i p0 h
    unfold locate
    by_cases hk : i < k
    · rw [if_pos hk]; simp
    · rw [if_neg hk]
      have := ih (i - k) (p0 + 1) (by simp at h; omega)
      simp only [List.length_cons]
      omega

theorem plOf_lt (nums : List Nat) (i : Nat) (hi : i < nums.foldl (· + ·) 0) : plOf nums i < nums.length := by
  rw [foldl_add_eq_sum] at hi
  have := (locate_lt nums i 0 hi).1
  unfold plOf; omega

/-! ### the four blocks of `M` -/

theorem hM_aa (nums : List Nat) (A : Nat → Nat → Nat → Nat → K) (pcm : K) (i j : Nat)
    (hi : i < nums.foldl (· + ·) 0) (hj : j < nums.foldl (· + ·) 0) :
    hM nums A pcm (nums.foldl (· + ·) 0) i j =
      if plOf nums j = plOf nums i then 0
      else pcm - A (plOf nums i) (plOf nums j) (acOf nums i) (acOf nums j) := by
  unfold hM plOf acOf; simp only [hi, hj, if_true]

theorem hM_av (nums : List Nat) (A : Nat → Nat → Nat → Nat → K) (pcm : K) (i q : Nat)
    (hi : i < nums.foldl (· + ·) 0) :
    hM nums A pcm (nums.foldl (· + ·) 0) i (nums.foldl (· + ·) 0 + q) = -(if q = plOf nums i then 1 else 0) := by
  unfold hM plOf
  simp only [hi, if_true]
  rw [if_neg (by omega), Nat.add_sub_cancel_left]

theorem hM_sa (nums : List Nat) (A : Nat → Nat → Nat → Nat → K) (pcm : K) (q j : Nat)
    (hj : j < nums.foldl (· + ·) 0) :
    hM nums A pcm (nums.foldl (· + ·) 0) (nums.foldl (· + ·) 0 + q) j = if plOf nums j = q then 1 else 0 := by
  unfold hM plOf
  rw [if_neg (by omega), if_pos hj, Nat.add_sub_cancel_left]

theorem hM_sv (nums : List Nat) (A : Nat → Nat → Nat → Nat → K) (pcm : K) (q q' : Nat) :
    hM nums A pcm (nums.foldl (· + ·) 0) (nums.foldl (· + ·) 0 + q) (nums.foldl (· + ·) 0 + q') = 0 := by
  unfold hM
  rw [if_neg (by omega), if_neg (by omega)]

theorem exists_pos_of_sum_ge_one (t : Nat) (f : Nat → K) (hf : ∀ j, 0 ≤ f j)
    (h : 1 ≤ ∑ j ∈ range t, f j) : ∃ j, j < t ∧ 0 < f j := by
  by_contra hc
  simp only [not_exists, not_and, not_lt] at hc
  have : ∑ j ∈ range t, f j ≤ 0 := by
    apply Finset.sum_nonpos
    intro j hj
    exact le_antisymm (hc j (Finset.mem_range.mp hj)) (hf j) ▸ le_refl _
  linarith

/-- **Howson's step: an LCP solution is a Nash equilibrium.** `ta = Σ nums`, `n = ta + N`,
    `x_j = u (n + j)` for the flat action index `j < ta`. -/
theorem lcp_solution_nash (nums : List Nat) (A : Nat → Nat → Nat → Nat → K) (pcm : K) (u : Nat → K)
    (hN : 2 ≤ nums.length)
    (hcost : ∀ i j, i < nums.foldl (· + ·) 0 → j < nums.foldl (· + ·) 0 → plOf nums j ≠ plOf nums i →
      0 < pcm - A (plOf nums i) (plOf nums j) (acOf nums i) (acOf nums j))
    (hR : ∀ i, i < nums.foldl (· + ·) 0 + nums.length →
      u i = (∑ j ∈ range (nums.foldl (· + ·) 0 + nums.length),
              hM nums A pcm (nums.foldl (· + ·) 0) i j * u (nums.foldl (· + ·) 0 + nums.length + j))
            + (if i < nums.foldl (· + ·) 0 then 0 else -(1 : K)))
    (hP : ∀ j, 0 ≤ u j)
    (hC : ∀ k, k < nums.foldl (· + ·) 0 + nums.length → u k * u (k + (nums.foldl (· + ·) 0 + nums.length)) = 0) :
    (∀ q, q < nums.length →
      ∑ j ∈ range (nums.foldl (· + ·) 0),
        (if plOf nums j = q then u (nums.foldl (· + ·) 0 + nums.length + j) else 0) = 1) ∧
    (∀ i, i < nums.foldl (· + ·) 0 →
      (∑ j ∈ range (nums.foldl (· + ·) 0),
        (if plOf nums j = plOf nums i then 0
          else A (plOf nums i) (plOf nums j) (acOf nums i) (acOf nums j))
          * u (nums.foldl (· + ·) 0 + nums.length + j))
      ≤ ∑ i' ∈ range (nums.foldl (· + ·) 0),
          (if plOf nums i' = plOf nums i then
            u (nums.foldl (· + ·) 0 + nums.length + i') *
              ∑ j ∈ range (nums.foldl (· + ·) 0),
                (if plOf nums j = plOf nums i' then 0
                  else A (plOf nums i') (plOf nums j) (acOf nums i') (acOf nums j))
                  * u (nums.foldl (· + ·) 0 + nums.length + j)
           else 0)) := by
  set ta := nums.foldl (· + ·) 0 with hta
  set N := nums.length with hNdef
  set n := ta + N with hn
  -- abbreviations
  set x : Nat → K := fun j => u (n + j) with hx
  set v : Nat → K := fun q => u (n + (ta + q)) with hv
  set cost : Nat → K := fun i => ∑ j ∈ range ta, hM nums A pcm ta i j * x j with hcostdef
  set S : Nat → K := fun q => ∑ j ∈ range ta, (if plOf nums j = q then x j else 0) with hS
  have hxnn : ∀ j, 0 ≤ x j := fun j => hP _
  have hPlt : ∀ i, i < ta → plOf nums i < N := fun i hi => plOf_lt nums i hi
  -- action rows
  have row_a : ∀ i, i < ta → u i = cost i - v (plOf nums i) := by
    intro i hi
    rw [hR i (by omega), if_pos hi, add_zero, Finset.sum_range_add]
    have h2 : ∑ q ∈ range N, hM nums A pcm ta i (ta + q) * u (n + (ta + q)) = - v (plOf nums i) := by
      rw [Finset.sum_eq_single (plOf nums i)]
      · rw [hM_av nums A pcm i _ hi, if_pos rfl]; simp [hv]
      · intro q _ hne
        rw [hM_av nums A pcm i q hi, if_neg hne]; simp
      · intro hnot; exact absurd (Finset.mem_range.mpr (hPlt i hi)) hnot
    rw [h2]; ring
  -- sum rows
  have row_s : ∀ q, q < N → u (ta + q) = S q - 1 := by
    intro q hq
    rw [hR (ta + q) (by omega), if_neg (by omega), Finset.sum_range_add]
    have h1 : ∑ j ∈ range ta, hM nums A pcm ta (ta + q) j * u (n + j) = S q := by
      apply Finset.sum_congr rfl
      intro j hj
      rw [hM_sa nums A pcm q j (Finset.mem_range.mp hj)]
      split_ifs <;> simp [hx]
    have h2 : ∑ q' ∈ range N, hM nums A pcm ta (ta + q) (ta + q') * u (n + (ta + q')) = 0 := by
      apply Finset.sum_eq_zero
      intro q' _
      rw [hM_sv]; ring
    rw [h1, h2]; ring
  have hSge : ∀ q, q < N → 1 ≤ S q := by
    intro q hq
    have := hP (ta + q)
    rw [row_s q hq] at this; linarith
  -- every player plays some action with positive weight
  have hsupp : ∀ q, q < N → ∃ j, j < ta ∧ plOf nums j = q ∧ 0 < x j := by
    intro q hq
    obtain ⟨j, hj, hpos⟩ := exists_pos_of_sum_ge_one ta (fun j => if plOf nums j = q then x j else 0)
      (by intro j; split_ifs; exact hxnn j; exact le_refl _) (hSge q hq)
    by_cases hpj : plOf nums j = q
    · simp only [hpj, if_true] at hpos; exact ⟨j, hj, hpj, hpos⟩
    · simp only [hpj, if_false] at hpos; exact absurd hpos (lt_irrefl _)
  have hMnn : ∀ i j, i < ta → j < ta → 0 ≤ hM nums A pcm ta i j := by
    intro i j hi hj
    rw [hM_aa nums A pcm i j hi hj]
    split_ifs with h
    · exact le_refl _
    · exact le_of_lt (hcost i j hi hj h)
  -- complementarity in terms of x, w
  have hCx : ∀ i, i < ta → x i * (cost i - v (plOf nums i)) = 0 := by
    intro i hi
    have := hC i (by omega)
    rw [row_a i hi] at this
    have e : u (i + n) = x i := by simp [hx, Nat.add_comm]
    rw [e] at this; linarith [this, mul_comm (x i) (cost i - v (plOf nums i))]
  -- costs of actions of player q are positive
  have hcostpos : ∀ i, i < ta → 0 < cost i := by
    intro i hi
    have hq := hPlt i hi
    obtain ⟨q', hq', hne⟩ : ∃ q', q' < N ∧ q' ≠ plOf nums i := by
      by_cases h0 : plOf nums i = 0
      · exact ⟨1, by omega, by omega⟩
      · exact ⟨0, by omega, fun e => h0 e.symm⟩
    obtain ⟨j0, hj0, hp0, hx0⟩ := hsupp q' hq'
    have hterm : 0 < hM nums A pcm ta i j0 * x j0 := by
      rw [hM_aa nums A pcm i j0 hi hj0, if_neg (by rw [hp0]; exact hne)]
      exact mul_pos (hcost i j0 hi hj0 (by rw [hp0]; exact hne)) hx0
    have hle : hM nums A pcm ta i j0 * x j0 ≤ cost i :=
      Finset.single_le_sum (f := fun j => hM nums A pcm ta i j * x j)
        (fun j hj => mul_nonneg (hMnn i j hi (Finset.mem_range.mp hj)) (hxnn j)) (Finset.mem_range.mpr hj0)
    linarith
  -- the values v_q are positive, hence the sums are exactly one
  have hvpos : ∀ q, q < N → 0 < v q := by
    intro q hq
    obtain ⟨i, hi, hpi, hxi⟩ := hsupp q hq
    have := hCx i hi
    rcases mul_eq_zero.mp this with h | h
    · exact absurd h (ne_of_gt hxi)
    · rw [hpi] at h
      have := hcostpos i hi
      linarith
  have hS1 : ∀ q, q < N → S q = 1 := by
    intro q hq
    have := hC (ta + q) (by omega)
    have e : u (ta + q + n) = v q := by simp [hv, Nat.add_comm]
    rw [e, row_s q hq] at this
    rcases mul_eq_zero.mp this with h | h
    · linarith
    · exact absurd h (ne_of_gt (hvpos q hq))
  refine ⟨hS1, ?_⟩
  intro i hi
  set q := plOf nums i with hq
  have hqN := hPlt i hi
  -- R = total weight of the other players' actions
  set R : K := ∑ j ∈ range ta, (if plOf nums j = q then 0 else x j) with hRdef
  have hpay : ∀ i', i' < ta → plOf nums i' = q →
      (∑ j ∈ range ta, (if plOf nums j = plOf nums i' then 0
          else A (plOf nums i') (plOf nums j) (acOf nums i') (acOf nums j)) * u (n + j))
        = pcm * R - cost i' := by
    intro i' hi' hpi'
    rw [hRdef, hcostdef, Finset.mul_sum, ← Finset.sum_sub_distrib]
    apply Finset.sum_congr rfl
    intro j hj
    rw [hM_aa nums A pcm i' j hi' (Finset.mem_range.mp hj), hpi']
    split_ifs <;> simp [hx] <;> ring
  rw [hpay i hi rfl]
  have hcv : v q ≤ cost i := by
    have := hP i
    rw [row_a i hi] at this; linarith
  have hsum : ∑ i' ∈ range ta, (if plOf nums i' = q then
        u (n + i') * ∑ j ∈ range ta, (if plOf nums j = plOf nums i' then 0
          else A (plOf nums i') (plOf nums j) (acOf nums i') (acOf nums j)) * u (n + j) else 0)
      = pcm * R - v q := by
    have h1 : ∀ i', i' ∈ range ta → (if plOf nums i' = q then
        u (n + i') * ∑ j ∈ range ta, (if plOf nums j = plOf nums i' then 0
          else A (plOf nums i') (plOf nums j) (acOf nums i') (acOf nums j)) * u (n + j) else 0)
        = (pcm * R - v q) * (if plOf nums i' = q then x i' else 0) := by
      intro i' hi'
      have hi'' := Finset.mem_range.mp hi'
      by_cases hp : plOf nums i' = q
      · rw [if_pos hp, if_pos hp, hpay i' hi'' hp]
        have := hCx i' hi''
        rw [hp] at this
        have e : u (n + i') = x i' := rfl
        rw [e]; linarith [this]
      · rw [if_neg hp, if_neg hp]; ring
    rw [Finset.sum_congr rfl h1, ← Finset.mul_sum]
    have : ∑ i' ∈ range ta, (if plOf nums i' = q then x i' else 0) = S q := rfl
    rw [this, hS1 q hqN]; ring
  rw [hsum]; linarith

end QE.C15
