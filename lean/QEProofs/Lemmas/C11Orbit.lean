/-
  Lemke's path argument, concrete part (`QEModel.C11`, tolerances 0):
  * a basis SET determines the rows of the tableau (`rows_determined`);
  * states, the step map, its compatibility with "same basis set, same entering column";
  * the run never returns to a primary-ray tableau.
-/
import QEProofs.Lemmas.C11Path
import QEProofs.Lemmas.C11Rev
import QEProofs.Lemmas.C11Ray

namespace QE.C11
open QE QE.Pivot Finset
set_option linter.unusedVariables false
set_option linter.unusedSectionVars false

variable {K : Type} [Field K] [LinearOrder K] [IsStrictOrderedRing K]

/-! ### a basis set determines the rows -/

theorem sum_basic (n : ℕ) (basis : ℕ → ℕ) (hle : ∀ a, a < n → basis a ≤ 2 * n) (g y : ℕ → K) :
    ∑ j ∈ range (2 * n + 1), g j * ∑ a ∈ range n, (if basis a = j then y a else 0)
      = ∑ a ∈ range n, y a * g (basis a) := by
  simp only [Finset.mul_sum, mul_ite, mul_zero]
  rw [Finset.sum_comm]
  apply Finset.sum_congr rfl
  intro a ha
  rw [Finset.sum_ite_eq, if_pos (mem_range.mpr (by have := hle a (mem_range.mp ha); omega))]
  ring

theorem rows_determined {n : ℕ} {T0 T T' : M K} {basis basis' : ℕ → ℕ}
    (h : Inv1 n T0 T basis) (h' : Inv1 n T0 T' basis')
    (hset : ∀ a, a < n → ∃ a', a' < n ∧ basis' a' = basis a)
    (i i' : ℕ) (hi : i < n) (hi' : i' < n) (hb : basis' i' = basis i) :
    ∀ j, j < 2 * n + 2 → T'.get i' j = T.get i j := by
  have hnc1 : T.nc - 1 = 2 * n + 1 := by rw [h.nc]; rfl
  have hnc1' : T'.nc - 1 = 2 * n + 1 := by rw [h'.nc]; rfl
  -- basic columns of T seen from row i' of T'
  have hunit' : ∀ a, a < n → T'.get i' (basis a) = if a = i then 1 else 0 := by
    intro a ha
    obtain ⟨a', ha', e⟩ := hset a ha
    rw [← e, h'.unit a' i' ha' hi']
    by_cases hai : a = i
    · rw [if_pos hai]
      have : basis' a' = basis' i' := by rw [e, hb, hai]
      rw [if_pos (h'.inj a' i' ha' hi' this).symm]
    · rw [if_neg hai]
      rw [if_neg]
      intro e2
      apply hai
      apply h.inj a i ha hi
      rw [← e, ← e2, hb]
  have hsel : ∀ y : ℕ → K, ∑ a ∈ range n, y a * T'.get i' (basis a) = y i := by
    intro y
    have : ∀ a ∈ range n, y a * T'.get i' (basis a) = if i = a then y a else 0 := by
      intro a ha
      rw [hunit' a (mem_range.mp ha)]
      by_cases e : a = i
      · rw [if_pos e, if_pos e.symm, mul_one]
      · rw [if_neg e, if_neg (fun e' => e e'.symm), mul_zero]
    rw [Finset.sum_congr rfl this, Finset.sum_ite_eq, if_pos (mem_range.mpr hi)]
  -- the basic solution of T satisfies row i' of T'
  have hx : RowSat T' (basicSol n T basis) i' := by
    have hrows : RowsSat T (basicSol n T basis) n := fun k hk => basicSol_rowSat h k hk
    exact (h'.equiv _).mpr ((h.equiv _).mp hrows) i' hi'
  have hrhs : T'.get i' (2 * n + 1) = T.get i (2 * n + 1) := by
    unfold RowSat at hx
    rw [hnc1'] at hx
    rw [← hx]
    unfold basicSol
    rw [sum_basic n basis h.le (fun j => T'.get i' j) (fun a => T.get a (2 * n + 1))]
    exact hsel _
  intro j hj
  by_cases hjr : j = 2 * n + 1
  · rw [hjr]; exact hrhs
  · by_cases hbasic : ∃ a, a < n ∧ basis a = j
    · obtain ⟨a, ha, e⟩ := hbasic
      rw [← e, hunit' a ha, h.unit a i ha hi]
      by_cases hai : a = i
      · rw [if_pos hai, if_pos hai.symm]
      · rw [if_neg hai, if_neg (fun e' => hai e'.symm)]
    · -- non-basic column: move along the direction "increase variable j"
      have hjle : j ≤ 2 * n := by omega
      have hnb : ∀ a, a < n → basis a ≠ j := fun a ha e => hbasic ⟨a, ha, e⟩
      -- the point x* + rayDir satisfies all rows of T
      have hp : RowsSat T (fun v => basicSol n T basis v + rayDir n T basis j v) n := by
        intro k hk
        have hb0 := basicSol_rowSat h k hk
        unfold RowSat at hb0 ⊢
        rw [hnc1] at hb0 ⊢
        have hsplit : ∀ v ∈ range (2 * n + 1),
            T.get k v * (basicSol n T basis v + rayDir n T basis j v)
            = T.get k v * basicSol n T basis v + T.get k v * rayDir n T basis j v := by
          intro v _; ring
        rw [Finset.sum_congr rfl hsplit, Finset.sum_add_distrib, hb0]
        have hhom : ∑ v ∈ range (2 * n + 1), T.get k v * rayDir n T basis j v = 0 := by
          unfold rayDir
          simp only [mul_add, Finset.sum_add_distrib]
          have e1 : ∑ v ∈ range (2 * n + 1), T.get k v * (if v = j then (1 : K) else 0)
              = T.get k j := by
            simp only [mul_ite, mul_one, mul_zero]
            rw [Finset.sum_ite_eq', if_pos (mem_range.mpr (by omega))]
          have e2 : ∑ v ∈ range (2 * n + 1),
              T.get k v * ∑ a ∈ range n, (if basis a = v then - T.get a j else 0) = - T.get k j := by
            rw [sum_basic n basis h.le (fun v => T.get k v) (fun a => - T.get a j)]
            have : ∀ a ∈ range n, - T.get a j * T.get k (basis a)
                = if k = a then - T.get a j else 0 := by
              intro a ha
              rw [h.unit a k (mem_range.mp ha) hk]
              split <;> simp
            rw [Finset.sum_congr rfl this, Finset.sum_ite_eq, if_pos (mem_range.mpr hk)]
          rw [e1, e2]; ring
        rw [hhom, add_zero]
      have hp' := (h'.equiv _).mpr ((h.equiv _).mp hp) i' hi'
      unfold RowSat at hp' hx
      rw [hnc1'] at hp' hx
      have hsplit : ∀ v ∈ range (2 * n + 1),
          T'.get i' v * (basicSol n T basis v + rayDir n T basis j v)
          = T'.get i' v * basicSol n T basis v + T'.get i' v * rayDir n T basis j v := by
        intro v _; ring
      rw [Finset.sum_congr rfl hsplit, Finset.sum_add_distrib, hx] at hp'
      have hzero : ∑ v ∈ range (2 * n + 1), T'.get i' v * rayDir n T basis j v = 0 := by
        linarith
      unfold rayDir at hzero
      simp only [mul_add, Finset.sum_add_distrib] at hzero
      have e1 : ∑ v ∈ range (2 * n + 1), T'.get i' v * (if v = j then (1 : K) else 0)
          = T'.get i' j := by
        simp only [mul_ite, mul_one, mul_zero]
        rw [Finset.sum_ite_eq', if_pos (mem_range.mpr (by omega))]
      have e2 : ∑ v ∈ range (2 * n + 1),
          T'.get i' v * ∑ a ∈ range n, (if basis a = v then - T.get a j else 0) = - T.get i j := by
        rw [sum_basic n basis h.le (fun v => T'.get i' v) (fun a => - T.get a j)]
        exact hsel _
      rw [e1, e2] at hzero
      linarith

/-! ### states and the step map -/

/-- a state of the main loop: tableau, basis, entering column -/
structure St (K : Type) where
  T : M K
  basis : ℕ → ℕ
  c : ℕ

/-- one pass of the loop body that continues (a row is found and the leaving variable is not
    the artificial one); `none` on ray termination and on success -/
def stepF (n : ℕ) (s : St K) : Option (St K) :=
  if (lexMinRatio s.T s.c 0 (0 : K) 0).1 = true ∧
      s.basis (lexMinRatio s.T s.c 0 (0 : K) 0).2 ≠ 2 * n then
    some ⟨pivot s.T s.c (lexMinRatio s.T s.c 0 (0 : K) 0).2,
      setBasis s.basis (lexMinRatio s.T s.c 0 (0 : K) 0).2 s.c,
      complement n (s.basis (lexMinRatio s.T s.c 0 (0 : K) 0).2)⟩
  else none

theorem stepF_eq_some (n : ℕ) (s s' : St K) (h : stepF n s = some s') :
    (lexMinRatio s.T s.c 0 (0 : K) 0).1 = true ∧
    s.basis (lexMinRatio s.T s.c 0 (0 : K) 0).2 ≠ 2 * n ∧
    s' = ⟨pivot s.T s.c (lexMinRatio s.T s.c 0 (0 : K) 0).2,
      setBasis s.basis (lexMinRatio s.T s.c 0 (0 : K) 0).2 s.c,
      complement n (s.basis (lexMinRatio s.T s.c 0 (0 : K) 0).2)⟩ := by
  unfold stepF at h
  split at h
  · rename_i hc
    exact ⟨hc.1, hc.2, (Option.some.inj h).symm⟩
  · exact absurd h (by simp)

/-- enter the complementary variable instead -/
def flipSt (n : ℕ) (s : St K) : St K := ⟨s.T, s.basis, complement n s.c⟩

/-- invariants of a state of the run -/
def Good (n : ℕ) (Mm : ℕ → ℕ → K) (q d : ℕ → K) (s : St K) : Prop :=
  Inv1 n (initTableau n Mm q d) s.T s.basis ∧ Enter n s.basis s.c ∧ s.c < 2 * n ∧ LP n s.T

/-- same entering column and same SET of basic variables -/
def SameSet (n : ℕ) (s u : St K) : Prop :=
  s.c = u.c ∧ ∀ v, (∃ i, i < n ∧ s.basis i = v) ↔ (∃ i, i < n ∧ u.basis i = v)

theorem sameSet_symm (n : ℕ) (s u : St K) (h : SameSet n s u) : SameSet n u s :=
  ⟨h.1.symm, fun v => (h.2 v).symm⟩

theorem sameSet_trans (n : ℕ) (s u w : St K) (h1 : SameSet n s u) (h2 : SameSet n u w) :
    SameSet n s w :=
  ⟨h1.1.trans h2.1, fun v => (h1.2 v).trans (h2.2 v)⟩

variable (n : ℕ) (Mm : ℕ → ℕ → K) (q d : ℕ → K)

theorem good_step (hn : 0 < n) (s s' : St K) (hg : Good n Mm q d s) (h : stepF n s = some s') :
    Good n Mm q d s' := by
  obtain ⟨hf, hl, rfl⟩ := stepF_eq_some n s s' h
  obtain ⟨hI, he, hc, hlp⟩ := hg
  obtain ⟨hr, hpos⟩ := lexMinRatio_found_pos s.T s.c 0 (0 : K) 0 hf
  rw [hI.nr] at hr
  have hlt : s.basis (lexMinRatio s.T s.c 0 (0 : K) 0).2 < 2 * n := by
    have := hI.le _ hr; omega
  exact ⟨inv1_pivot hn hI he hr (ne_of_gt hpos), enter_next hI he hr hl, complement_lt n _ hlt,
    lp_pivot hI.nr hI.nc hlp hf⟩

theorem good_flip (s : St K) (hg : Good n Mm q d s) : Good n Mm q d (flipSt n s) := by
  obtain ⟨hI, he, hc, hlp⟩ := hg
  refine ⟨hI, ⟨?_, ?_, ?_⟩, complement_lt n _ hc, hlp⟩
  · have := complement_lt n _ hc
    show complement n s.c ≤ 2 * n
    omega
  · exact he.cnotin hc
  · intro _ i hi
    show s.basis i ≠ complement n (complement n s.c)
    rw [complement_invol n _ hc]
    exact he.notin i hi

/-- the set of basic variables after `setBasis` -/
theorem setBasis_set {basis : ℕ → ℕ} (hinj : ∀ i j, i < n → j < n → basis i = basis j → i = j)
    (r c : ℕ) (hr : r < n) (v : ℕ) :
    (∃ i, i < n ∧ setBasis basis r c i = v) ↔
      (v = c ∨ ((∃ i, i < n ∧ basis i = v) ∧ v ≠ basis r)) := by
  constructor
  · rintro ⟨i, hi, e⟩
    unfold setBasis at e
    by_cases hir : i = r
    · rw [if_pos hir] at e; exact Or.inl e.symm
    · rw [if_neg hir] at e
      right
      refine ⟨⟨i, hi, e⟩, ?_⟩
      intro e2
      exact hir (hinj i r hi hr (by rw [e, e2]))
  · rintro (e | ⟨⟨i, hi, e⟩, hne⟩)
    · exact ⟨r, hr, by unfold setBasis; rw [if_pos rfl, e]⟩
    · refine ⟨i, hi, ?_⟩
      unfold setBasis
      rw [if_neg]
      · exact e
      · intro hir; rw [hir] at e; exact hne e.symm

theorem not_sameSet_flip (hn : 0 < n) (s : St K) (hg : Good n Mm q d s) :
    ¬ SameSet n (flipSt n s) s := by
  intro h
  exact complement_ne n s.c hn hg.2.2.1 h.1

theorem not_sameSet_flip_step (hn : 0 < n) (s s' : St K) (hg : Good n Mm q d s)
    (h : stepF n s = some s') : ¬ SameSet n (flipSt n s') s := by
  obtain ⟨hf, hl, rfl⟩ := stepF_eq_some n s s' h
  obtain ⟨hI, he, hc, hlp⟩ := hg
  obtain ⟨hr, _⟩ := lexMinRatio_found_pos s.T s.c 0 (0 : K) 0 hf
  rw [hI.nr] at hr
  intro hS
  have := (hS.2 s.c).mp ⟨(lexMinRatio s.T s.c 0 (0 : K) 0).2, hr, by
    show setBasis s.basis _ s.c _ = s.c
    unfold setBasis; rw [if_pos rfl]⟩
  obtain ⟨i, hi, e⟩ := this
  exact he.notin i hi e

/-- **the step map respects "same basis set, same entering column"**: the leaving *variable*
    does not depend on the row order -/
theorem step_sameSet (hn : 0 < n) (s u s' : St K) (hgs : Good n Mm q d s) (hgu : Good n Mm q d u)
    (hR : SameSet n s u) (h : stepF n s = some s') :
    ∃ u', stepF n u = some u' ∧ SameSet n s' u' := by
  obtain ⟨hf, hl, rfl⟩ := stepF_eq_some n s s' h
  obtain ⟨hI, he, hc, hlp⟩ := hgs
  obtain ⟨hIu, heu, hcu, hlpu⟩ := hgu
  obtain ⟨hr0, hpos⟩ := lexMinRatio_found_pos s.T s.c 0 (0 : K) 0 hf
  have hstrict := lexMinRatio_strict s.T s.c 0 hf
  set r := (lexMinRatio s.T s.c 0 (0 : K) 0).2 with hrdef
  have hr : r < n := by rw [hI.nr] at hr0; exact hr0
  have hcc : u.c = s.c := hR.1.symm
  -- correspondence of rows
  have hset_su : ∀ a, a < n → ∃ a', a' < n ∧ u.basis a' = s.basis a :=
    fun a ha => (hR.2 _).mp ⟨a, ha, rfl⟩
  have hset_us : ∀ a, a < n → ∃ a', a' < n ∧ s.basis a' = u.basis a :=
    fun a ha => (hR.2 _).mpr ⟨a, ha, rfl⟩
  obtain ⟨rt, hrt, hbrt⟩ := hset_su r hr
  have hrow_rt := rows_determined hI hIu hset_su r rt hr hrt hbrt
  have hcv : s.c < 2 * n + 2 := by omega
  -- the ratio test in `u` finds a row
  have hposu : 0 < u.T.get rt u.c := by rw [hcc, hrow_rt _ hcv]; exact hpos
  have hfu : (lexMinRatio u.T u.c 0 (0 : K) 0).1 = true :=
    lexMinRatio_found_of_pos Mm q d hIu u.c ⟨rt, hrt, hposu⟩
  obtain ⟨hr20, hpos2⟩ := lexMinRatio_found_pos u.T u.c 0 (0 : K) 0 hfu
  have hstrictu := lexMinRatio_strict u.T u.c 0 hfu
  set r2 := (lexMinRatio u.T u.c 0 (0 : K) 0).2 with hr2def
  have hr2 : r2 < n := by rw [hIu.nr] at hr20; exact hr20
  -- and it is the row holding the same variable
  have hsame : r2 = rt := by
    by_contra hne
    obtain ⟨k, hk, hbk⟩ := hset_us r2 hr2
    have hrow_k := rows_determined hIu hI hset_us r2 k hr2 hk hbk
    have hkr : k ≠ r := by
      intro e
      apply hne
      apply hIu.inj r2 rt hr2 hrt
      rw [hbrt, ← e, hbk]
    have hposk : 0 < s.T.get k s.c := by rw [hrow_k _ hcv, ← hcc]; exact hpos2
    have h1 := hstrict k (by rw [hI.nr]; exact hk) hkr hposk
    have h2 := hstrictu rt (by rw [hIu.nr]; exact hrt) (fun e => hne e.symm) hposu
    have hL : (s.T.nc - 1) :: (List.range s.T.nr).map (· + 0) = (2 * n + 1) :: List.range n := by
      rw [hI.nc, hI.nr]; simp
    have hLu : (u.T.nc - 1) :: (List.range u.T.nr).map (· + 0) = (2 * n + 1) :: List.range n := by
      rw [hIu.nc, hIu.nr]; simp
    rw [hL] at h1
    rw [hLu] at h2
    apply lexPosOn_neg_false _ _ h1
    apply lexPosOn_congr _ _ _ _ h2
    intro j hj
    have hjv : j < 2 * n + 2 := by
      rcases List.mem_cons.mp hj with e | e
      · omega
      · have := List.mem_range.mp e; omega
    unfold ratioDiff
    rw [hcc, hrow_rt j hjv, hrow_rt _ hcv, ← hrow_k j hjv, ← hrow_k _ hcv]
    ring
  have hlu : u.basis r2 ≠ 2 * n := by rw [hsame, hbrt]; exact hl
  refine ⟨⟨pivot u.T u.c r2, setBasis u.basis r2 u.c, complement n (u.basis r2)⟩, ?_, ?_⟩
  · unfold stepF
    rw [if_pos ⟨hfu, hlu⟩]
  · refine ⟨by show complement n (s.basis r) = complement n (u.basis r2); rw [hsame, hbrt], ?_⟩
    intro v
    show (∃ i, i < n ∧ setBasis s.basis r s.c i = v) ↔ (∃ i, i < n ∧ setBasis u.basis r2 u.c i = v)
    rw [setBasis_set n hI.inj r s.c hr v, setBasis_set n hIu.inj r2 u.c hr2 v, hcc, hsame, hbrt, hR.2 v]

/-- **reversibility in step form** -/
theorem step_rev (hn : 0 < n) (s s' : St K) (hg : Good n Mm q d s) (h : stepF n s = some s') :
    ∃ w, stepF n (flipSt n s') = some w ∧ SameSet n w (flipSt n s) := by
  obtain ⟨hf, hl, rfl⟩ := stepF_eq_some n s s' h
  obtain ⟨hI, he, hc, hlp⟩ := hg
  obtain ⟨hr0, hpos⟩ := lexMinRatio_found_pos s.T s.c 0 (0 : K) 0 hf
  obtain ⟨h1, h2⟩ := step_reversible_row hn Mm q d hI he hlp hf
  set r := (lexMinRatio s.T s.c 0 (0 : K) 0).2 with hrdef
  have hr : r < n := by rw [hI.nr] at hr0; exact hr0
  have hlt : s.basis r < 2 * n := by have := hI.le r hr; omega
  have hinv : complement n (complement n (s.basis r)) = s.basis r := complement_invol n _ hlt
  -- the flipped state enters the variable that has just left
  have hfc : (flipSt n ⟨pivot s.T s.c r, setBasis s.basis r s.c, complement n (s.basis r)⟩ : St K).c
      = s.basis r := hinv
  unfold stepF
  simp only [flipSt, hinv]
  have hleave : setBasis s.basis r s.c (lexMinRatio (pivot s.T s.c r) (s.basis r) 0 (0 : K) 0).2
      ≠ 2 * n := by
    rw [h2]; unfold setBasis; rw [if_pos rfl]; omega
  rw [if_pos ⟨h1, hleave⟩]
  refine ⟨_, rfl, ?_, ?_⟩
  · show complement n (setBasis s.basis r s.c (lexMinRatio (pivot s.T s.c r) (s.basis r) 0 (0 : K) 0).2)
      = complement n s.c
    rw [h2]; unfold setBasis; rw [if_pos rfl]
  · intro v
    show (∃ i, i < n ∧ setBasis (setBasis s.basis r s.c)
        (lexMinRatio (pivot s.T s.c r) (s.basis r) 0 (0 : K) 0).2 (s.basis r) i = v)
      ↔ (∃ i, i < n ∧ s.basis i = v)
    rw [h2]
    have : setBasis (setBasis s.basis r s.c) r (s.basis r) = s.basis := by
      funext i
      unfold setBasis
      by_cases hir : i = r
      · rw [if_pos hir, hir]
      · rw [if_neg hir, if_neg hir]
    rw [this]

end QE.C11
