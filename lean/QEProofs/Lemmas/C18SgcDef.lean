/-
  Lemmas for C18, part 10: the complete closed form of the SGC arrays (k ≥ 2) and the absence of
  pure equilibria (proofs of `sgc_def` / `sgc_no_pure_nash`; kept here so that lake checks them in
  parallel with the other lemma files).
-/
import QEProofs.Lemmas.C18Sgc
namespace QE.C18
set_option linter.unusedSectionVars false
variable {K : Type} [Field K] [LinearOrder K] [IsStrictOrderedRing K]

/-- **SGC game = its definition** (`k ≥ 2`, `m = 2k-1`, `n = 4k-1`).  Every entry of both arrays:
    in the first `m` rows the `m × m` block is the cyclic pattern (1 on the cyclic sub-diagonal
    `j = i-1 mod m`, ½ on the cyclic super-diagonal `j = i+1 mod m`, ¾ elsewhere) followed by ½ in
    the columns `≥ m`; the last `2k` rows are 0 except ¾ on the diagonal (player 0), respectively ¾
    on the swapped pairs `(m+2h, m+2h+1)`, `(m+2h+1, m+2h)` (player 1). -/
theorem sgc_def' (k : Nat) (hk : 2 ≤ k) (i j : Nat) (hi : i < 4 * k - 1) (hj : j < 4 * k - 1) :
    (sgcEntry0 k i j : K) =
      (if i < 2 * k - 1 then
        (if j < 2 * k - 1 then
          (if j = (if i = 0 then 2 * k - 2 else i - 1) then 1
           else if j = (if i = 2 * k - 2 then 0 else i + 1) then 1 / 2 else 3 / 4)
         else 1 / 2)
       else (if i = j then 3 / 4 else 0)) ∧
    (sgcEntry1 k i j : K) =
      (if i < 2 * k - 1 then
        (if j < 2 * k - 1 then
          (if j = (if i = 0 then 2 * k - 2 else i - 1) then 1
           else if j = (if i = 2 * k - 2 then 0 else i + 1) then 1 / 2 else 3 / 4)
         else 1 / 2)
       else (if 2 * k - 1 ≤ j ∧ i ≠ j ∧ (i - (2 * k - 1)) / 2 = (j - (2 * k - 1)) / 2 then 3 / 4 else 0)) := by
  have hm : (4 * k - 1 + 1) / 2 - 1 = 2 * k - 1 := by omega
  have hkk : (2 * k - 1 + 1) / 2 = k := by omega
  unfold sgcEntry0 sgcEntry1
  simp only [hm, hkk]
  rw [sgcPairs0_closed, sgcPairs1_closed]
  by_cases hjm : j < 2 * k - 1
  · rw [sgcCommon_closed k hk i j hjm]
    simp only [c34_eq]
    constructor <;> split_ifs <;> first | rfl | (exfalso; omega)
  · rw [sgcCommon_right k hk i j (by omega)]
    simp only [c34_eq]
    constructor <;> split_ifs <;> first | rfl | (exfalso; omega)

/-- **`sgc_game(k)` has no pure Nash equilibrium for `k ≥ 2`** (so its equilibrium — the half-support
    profile of `sgc_half_support_nash` — is properly mixed).  `a` is player 0's action, `b` player 1's;
    each array is indexed by the own action first. -/
theorem sgc_no_pure_nash' (k : Nat) (hk : 2 ≤ k) (a b : Nat) (ha : a < 4 * k - 1) (hb : b < 4 * k - 1) :
    ¬ ((∀ a', a' < 4 * k - 1 → (sgcEntry0 k a' b : K) ≤ sgcEntry0 k a b) ∧
       (∀ b', b' < 4 * k - 1 → (sgcEntry1 k b' a : K) ≤ sgcEntry1 k b a)) := by
  rintro ⟨h0, h1⟩
  have e0 := fun i j hi hj => (sgc_def' (K := K) k hk i j hi hj).1
  have e1 := fun i j hi hj => (sgc_def' (K := K) k hk i j hi hj).2
  by_cases ham : a < 2 * k - 1
  · by_cases hbm : b < 2 * k - 1
    · -- both in the cyclic block
      by_cases hpred : b = (if a = 0 then 2 * k - 2 else a - 1)
      · -- player 0 gets 1; player 1 gets 1/2 and can get 1 at b' = succ a
        have hs : (if a = 2 * k - 2 then 0 else a + 1) < 4 * k - 1 := by split <;> omega
        have := h1 (if a = 2 * k - 2 then 0 else a + 1) hs
        rw [e1 _ a hs ha, e1 b a hb ha] at this
        clear hs h0 h1 e0 e1
        revert this hpred
        split_ifs <;> intro hq h <;> first | (exfalso; omega) | (exfalso; norm_num at h)
      · -- player 0 gets less than 1 and can get 1 at a' = succ b
        have hs : (if b = 2 * k - 2 then 0 else b + 1) < 4 * k - 1 := by split <;> omega
        have := h0 (if b = 2 * k - 2 then 0 else b + 1) hs
        rw [e0 _ b hs hb, e0 a b ha hb] at this
        clear hs h0 h1 e0 e1
        revert this hpred
        split_ifs <;> intro hq h <;> first | (exfalso; omega) | (exfalso; norm_num at h)
    · -- a in the block, b below: player 1 gets 0 but at least 1/2 with b' = 0
      have := h1 0 (by omega)
      rw [e1 0 a (by omega) ha, e1 b a hb ha] at this
      clear h0 h1 e0 e1
      revert this
      split_ifs <;> intro h <;> first | (exfalso; omega) | (exfalso; norm_num at h)
  · by_cases hab : a = b
    · -- on the diagonal of the lower block: player 1 gets 0, the partner row gives 3/4
      have hp : (if (a - (2 * k - 1)) % 2 = 0 then a + 1 else a - 1) < 4 * k - 1 := by split <;> omega
      have := h1 _ hp
      rw [e1 _ a hp ha, e1 b a hb ha] at this
      clear hp h0 h1 e0 e1
      revert this
      split_ifs <;> intro h <;> first | (exfalso; omega) | (exfalso; norm_num at h)
    · -- off the diagonal: player 0 gets 0
      by_cases hbm : b < 2 * k - 1
      · have := h0 0 (by omega)
        rw [e0 0 b (by omega) hb, e0 a b ha hb] at this
        clear h0 h1 e0 e1
        revert this
        split_ifs <;> intro h <;> first | (exfalso; omega) | (exfalso; norm_num at h)
      · have := h0 b hb
        rw [e0 b b hb hb, e0 a b ha hb] at this
        clear h0 h1 e0 e1
        revert this
        split_ifs <;> intro h <;> first | (exfalso; omega) | (exfalso; norm_num at h)


end QE.C18
