/-
  Lemmas for C16, part: `np.linspace` as modelled (`linspace`), the grid comprehension of
  `mlinspace` (`mlGrids`) and the error branches of `cartesian` as called (`cartesianApi`).
-/
import Mathlib.Algebra.Order.Field.Basic
import Mathlib.Tactic.FieldSimp
import Mathlib.Tactic.Ring
import Mathlib.Tactic.Linarith
import QEProofs.Lemmas.C16ProdSet
namespace QE.C16
set_option linter.unusedSectionVars false

section
variable {K : Type} [Field K] [LinearOrder K] [IsStrictOrderedRing K]

theorem linspace_length (start stop : K) (num : Nat) :
    (linspace (fun n : Nat => (n : K)) start stop num).length = num := by
  unfold linspace
  simp only
  split <;> split <;> (try split) <;> simp

/-- nodes of `np.linspace(start, stop, num)`, `num ≥ 2`, in exact arithmetic -/
theorem linspace_getD (start stop : K) (num i : Nat) (hn : 2 ≤ num) (hi : i < num) :
    (linspace (fun n : Nat => (n : K)) start stop num).getD i 0
      = start + (i : K) * (stop - start) / ((num : K) - 1) := by
  have hd : 0 < num - 1 := by omega
  have hdK : ((num - 1 : Nat) : K) = (num : K) - 1 := by
    rw [Nat.cast_sub (by omega)]; simp
  have hne : ((num : K) - 1) ≠ 0 := by
    rw [← hdK]; exact_mod_cast (by omega : num - 1 ≠ 0)
  unfold linspace
  simp only [if_pos hd, if_pos (show num > 1 by omega)]
  rw [List.getD_eq_getElem?_getD, List.getElem?_set]
  by_cases hlast : num - 1 = i
  · subst hlast
    rw [if_pos rfl]
    have hlen : num - 1 < (if ((stop - start) / ((num - 1 : Nat) : K) == 0) = true then
        List.map (fun i : Nat => (i : K) / ((num - 1 : Nat) : K) * (stop - start) + start) (List.range num)
        else List.map (fun i : Nat => (i : K) * ((stop - start) / ((num - 1 : Nat) : K)) + start)
          (List.range num)).length := by
      split <;> simp [hi]
    rw [if_pos hlen]
    simp only [Option.getD_some]
    rw [hdK]; field_simp; ring
  · rw [if_neg hlast]
    split
    · rw [List.getElem?_map, List.getElem?_range hi]
      simp only [Option.map_some, Option.getD_some, hdK]
      field_simp; ring
    · rw [List.getElem?_map, List.getElem?_range hi]
      simp only [Option.map_some, Option.getD_some, hdK]
      field_simp; ring

theorem linspace_one (start stop : K) :
    linspace (fun n : Nat => (n : K)) start stop 1 = [start] := by
  simp [linspace]

theorem linspace_zero (start stop : K) :
    linspace (fun n : Nat => (n : K)) start stop 0 = [] := by
  simp [linspace]

/-- an increasing interval gives a strictly increasing grid -/
theorem linspace_strictMono (start stop : K) (num : Nat) (h : start < stop) :
    (linspace (fun n : Nat => (n : K)) start stop num).Pairwise (· < ·) := by
  rcases Nat.lt_or_ge num 2 with hn | hn
  · have : num = 0 ∨ num = 1 := by omega
    rcases this with rfl | rfl
    · rw [linspace_zero]; exact List.Pairwise.nil
    · rw [linspace_one]; exact List.pairwise_singleton _ _
  · rw [List.pairwise_iff_getElem]
    intro i j hi hj hij
    rw [linspace_length] at hi hj
    have e1 := linspace_getD start stop num i hn hi
    have e2 := linspace_getD start stop num j hn hj
    rw [List.getD_eq_getElem?_getD, List.getElem?_eq_getElem (by rw [linspace_length]; exact hi)] at e1
    rw [List.getD_eq_getElem?_getD, List.getElem?_eq_getElem (by rw [linspace_length]; exact hj)] at e2
    simp only [Option.getD_some] at e1 e2
    rw [e1, e2]
    have hpos : (0 : K) < (num : K) - 1 := by
      have : (2 : K) ≤ (num : K) := by exact_mod_cast hn
      linarith
    have hij' : (i : K) < (j : K) := by exact_mod_cast hij
    have hd : 0 < stop - start := by linarith
    have : (i : K) * (stop - start) / ((num : K) - 1) < (j : K) * (stop - start) / ((num : K) - 1) :=
      div_lt_div_of_pos_right (mul_lt_mul_of_pos_right hij' hd) hpos
    linarith

/-- the grids `mlinspace` builds from index `i` on -/
def mlGridsOf (a b : List K) : List Int → Nat → List (List K)
  | [], _ => []
  | n :: rest, i =>
    linspace (fun n : Nat => (n : K)) (a.getD i 0) (b.getD i 0) n.toNat :: mlGridsOf a b rest (i + 1)

/-- the comprehension succeeds iff every index is inside `a` and `b` and no count is negative;
    it then returns the per-dimension `linspace` grids -/
theorem mlGrids_ok_iff (a b : List K) : ∀ (nums : List Int) (i0 : Nat) (gs : List (List K)),
    mlGrids (fun n : Nat => (n : K)) a b nums i0 = .ok gs ↔
      (nums = [] ∨ (i0 + nums.length ≤ a.length ∧ i0 + nums.length ≤ b.length)) ∧
      (∀ n ∈ nums, 0 ≤ n) ∧ gs = mlGridsOf a b nums i0
  | [], i0, gs => by
    simp only [mlGrids, mlGridsOf, true_or, List.not_mem_nil, false_imp_iff, implies_true, true_and]
    constructor
    · intro h; injection h with h; exact h.symm
    · intro h; rw [h]
  | n :: rest, i0, gs => by
    rw [mlGrids]
    by_cases h1 : a.length ≤ i0 ∨ b.length ≤ i0
    · rw [if_pos h1]
      constructor
      · intro h; cases h
      · rintro ⟨hl | ⟨hl1, hl2⟩, _, _⟩
        · cases hl
        · simp only [List.length_cons] at hl1 hl2; omega
    rw [if_neg h1]
    by_cases h2 : n < 0
    · rw [if_pos h2]
      constructor
      · intro h; cases h
      · rintro ⟨_, hn, _⟩
        have := hn n List.mem_cons_self; omega
    rw [if_neg h2]
    cases hrec : mlGrids (fun n : Nat => (n : K)) a b rest (i0 + 1) with
    | error e =>
      simp only
      constructor
      · intro h; cases h
      · rintro ⟨hl, hn, _⟩
        exfalso
        have := (mlGrids_ok_iff a b rest (i0 + 1) (mlGridsOf a b rest (i0 + 1))).mpr
          ⟨by
            rcases hl with hl | ⟨hl1, hl2⟩
            · cases hl
            · right; simp only [List.length_cons] at hl1 hl2; constructor <;> omega,
           fun m hm => hn m (List.mem_cons_of_mem _ hm), rfl⟩
        rw [hrec] at this; cases this
    | ok gs' =>
      simp only
      obtain ⟨hl', hn', hg'⟩ := (mlGrids_ok_iff a b rest (i0 + 1) gs').mp hrec
      constructor
      · intro h
        injection h with h
        refine ⟨Or.inr ?_, ?_, ?_⟩
        · simp only [List.length_cons]
          rcases hl' with hl' | ⟨hl1, hl2⟩
          · subst hl'; simp; omega
          · constructor <;> omega
        · intro m hm
          rcases List.mem_cons.mp hm with rfl | hm
          · omega
          · exact hn' m hm
        · rw [← h, hg']; rfl
      · rintro ⟨_, _, hg⟩
        rw [hg, hg']; rfl

end

/-! ### `cartesian` as called -/

section
variable {α : Type} [Zero α]

theorem cartesianApi_ok_iff (nodes : List (List α)) (order : String) (rows : List (List α)) :
    cartesianApi nodes order = .ok rows ↔
      nodes ≠ [] ∧ (∀ g ∈ nodes, g ≠ []) ∧ rows = cartesian nodes (decide (order ≠ "C")) := by
  unfold cartesianApi
  by_cases h1 : nodes.isEmpty = true
  · rw [if_pos h1]
    constructor
    · intro h; cases h
    · rintro ⟨h, _, _⟩; exact absurd (List.isEmpty_iff.mp h1) h
  rw [if_neg h1]
  have hne : nodes ≠ [] := fun h => h1 (List.isEmpty_iff.mpr h)
  by_cases h2 : nodes.any List.isEmpty = true
  · rw [if_pos h2]
    constructor
    · intro h; cases h
    · rintro ⟨_, h, _⟩
      obtain ⟨g, hg, he⟩ := List.any_eq_true.mp h2
      exact absurd (List.isEmpty_iff.mp he) (h g hg)
  rw [if_neg h2]
  have hall : ∀ g ∈ nodes, g ≠ [] := by
    intro g hg he
    exact h2 (List.any_eq_true.mpr ⟨g, hg, List.isEmpty_iff.mpr he⟩)
  have hb : (!(order == "C")) = decide (order ≠ "C") := by
    by_cases h : order = "C" <;> simp [h]
  rw [hb]
  constructor
  · intro h; injection h with h; exact ⟨hne, hall, h.symm⟩
  · rintro ⟨_, _, h⟩; rw [h]

theorem cartesianApi_error_iff (nodes : List (List α)) (order : String) :
    (cartesianApi nodes order = .error "ValueError" ↔ nodes = []) ∧
    (cartesianApi nodes order = .error "ZeroDivisionError" ↔ nodes ≠ [] ∧ ∃ g ∈ nodes, g = []) := by
  unfold cartesianApi
  by_cases h1 : nodes.isEmpty = true
  · have hn := List.isEmpty_iff.mp h1
    rw [if_pos h1]
    refine ⟨⟨fun _ => hn, fun _ => rfl⟩, ⟨fun h => ?_, fun h => absurd hn h.1⟩⟩
    injection h with h; exact absurd h (by decide)
  rw [if_neg h1]
  have hne : nodes ≠ [] := fun h => h1 (List.isEmpty_iff.mpr h)
  by_cases h2 : nodes.any List.isEmpty = true
  · rw [if_pos h2]
    obtain ⟨g, hg, he⟩ := List.any_eq_true.mp h2
    refine ⟨⟨fun h => ?_, fun h => absurd h hne⟩, ⟨fun _ => ⟨hne, g, hg, List.isEmpty_iff.mp he⟩, fun _ => rfl⟩⟩
    injection h with h; exact absurd h (by decide)
  · rw [if_neg h2]
    refine ⟨⟨fun h => (by cases h), fun h => absurd h hne⟩, ⟨fun h => (by cases h), ?_⟩⟩
    rintro ⟨_, g, hg, he⟩
    exact absurd (List.any_eq_true.mpr ⟨g, hg, List.isEmpty_iff.mpr he⟩) h2

end

section
variable {K : Type} [Field K] [LinearOrder K] [IsStrictOrderedRing K]

theorem mlGridsOf_eq_nil_iff (a b : List K) (nums : List Int) (i : Nat) :
    mlGridsOf a b nums i = [] ↔ nums = [] := by
  cases nums <;> simp [mlGridsOf]

theorem mlGridsOf_all_ne_nil_iff (a b : List K) : ∀ (nums : List Int) (i : Nat),
    (∀ g ∈ mlGridsOf a b nums i, g ≠ []) ↔ ∀ n ∈ nums, 1 ≤ n
  | [], _ => by simp [mlGridsOf]
  | n :: rest, i => by
    simp only [mlGridsOf, List.forall_mem_cons, mlGridsOf_all_ne_nil_iff a b rest (i + 1)]
    have : linspace (fun n : Nat => (n : K)) (a.getD i 0) (b.getD i 0) n.toNat ≠ [] ↔ 1 ≤ n := by
      rw [Ne, ← List.length_eq_zero_iff, linspace_length]; omega
    rw [this]

/-- `mlinspace(a, b, nums, order)` returns normally iff there is at least one dimension,
    `a` and `b` are long enough and every count is `≥ 1`; the result is then `cartesian` of the
    per-dimension `linspace` grids (F branch for every `order ≠ 'C'`) -/
theorem mlinspaceApi_ok_iff (a b : List K) (nums : List Int) (order : String)
    (rows : List (List K)) :
    mlinspaceApi (fun n : Nat => (n : K)) a b nums order = .ok rows ↔
      nums ≠ [] ∧ nums.length ≤ a.length ∧ nums.length ≤ b.length ∧ (∀ n ∈ nums, 1 ≤ n) ∧
      rows = cartesian (mlGridsOf a b nums 0) (decide (order ≠ "C")) := by
  unfold mlinspaceApi
  cases hrec : mlGrids (fun n : Nat => (n : K)) a b nums 0 with
  | error e =>
    simp only
    constructor
    · intro h; cases h
    · rintro ⟨_, h2, h3, h4, _⟩
      exfalso
      have := (mlGrids_ok_iff a b nums 0 (mlGridsOf a b nums 0)).mpr
        ⟨Or.inr ⟨by omega, by omega⟩, fun n hn => by have := h4 n hn; omega, rfl⟩
      rw [hrec] at this; cases this
  | ok gs =>
    simp only
    obtain ⟨hl, hn, hg⟩ := (mlGrids_ok_iff a b nums 0 gs).mp hrec
    subst hg
    rw [cartesianApi_ok_iff, Ne, mlGridsOf_eq_nil_iff, mlGridsOf_all_ne_nil_iff]
    constructor
    · rintro ⟨h1, h2, h3⟩
      rcases hl with hl | ⟨hl1, hl2⟩
      · exact absurd hl h1
      · exact ⟨h1, by omega, by omega, h2, h3⟩
    · rintro ⟨h1, _, _, h4, h5⟩
      exact ⟨h1, h4, h5⟩

end

end QE.C16
