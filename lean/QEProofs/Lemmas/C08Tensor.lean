/-
  Lemmas for C08, part 3: gridmake / ckron and the mixed-radix index.
-/
import QEProofs.Lemmas.C08Closed
import Mathlib.Data.List.Forall2
namespace QE.C08
open Finset

set_option linter.unusedSectionVars false

variable {K : Type} [Field K] [LinearOrder K] [IsStrictOrderedRing K]

/-- mixed-radix number of the multi-index `is` with radices `ns`, first index fastest:
    `i₀ + n₀ (i₁ + n₁ (i₂ + …))` -/
def mixedRadix : List Nat → List Nat → Nat
  | i :: is, n :: ns => i + n * mixedRadix is ns
  | _, _ => 0

/-- digits of `idx` in the mixed radix `ns` (inverse of `mixedRadix`) -/
def digits : Nat → List Nat → List Nat
  | _, [] => []
  | idx, n :: ns => idx % n :: digits (idx / n) ns

theorem mixedRadix_lt : ∀ (is ns : List Nat), List.Forall₂ (fun i n => i < n) is ns →
    mixedRadix is ns < ns.prod := by
  intro is ns h
  induction h with
  | nil => simp [mixedRadix]
  | @cons i n is ns hin _ ih =>
    simp only [mixedRadix, List.prod_cons]
    calc i + n * mixedRadix is ns < n + n * mixedRadix is ns := by omega
      _ = n * (mixedRadix is ns + 1) := by ring
      _ ≤ n * ns.prod := Nat.mul_le_mul_left n ih

theorem digits_spec : ∀ (ns : List Nat) (idx : Nat), idx < ns.prod →
    List.Forall₂ (fun i n => i < n) (digits idx ns) ns ∧ mixedRadix (digits idx ns) ns = idx := by
  intro ns
  induction ns with
  | nil => intro idx h; simp at h; subst h; simp [digits, mixedRadix]
  | cons n ns ih =>
    intro idx h
    rw [List.prod_cons] at h
    have hn : 0 < n := by
      rcases Nat.eq_zero_or_pos n with h0 | h0
      · subst h0; simp at h
      · exact h0
    have hq : idx / n < ns.prod := by
      rw [Nat.div_lt_iff_lt_mul hn]; rw [Nat.mul_comm]; exact h
    obtain ⟨h1, h2⟩ := ih (idx / n) hq
    refine ⟨List.Forall₂.cons (Nat.mod_lt _ hn) h1, ?_⟩
    simp only [digits, mixedRadix, h2]
    exact Nat.mod_add_div idx n

/-! ### gridmake -/

theorem tile_getElem? {β : Type} (X : List β) (k i j : Nat) (hj : j < k) (hi : i < X.length) :
    (tile X k)[j * X.length + i]? = X[i]? := by
  unfold tile
  rw [← List.flatMap_id, flatMap_block id X.length (List.replicate k X) (by
    intro x hx; rw [List.eq_of_mem_replicate hx]; rfl) j i hi]
  simp [hj]

theorem tile_length {β : Type} (X : List β) (k : Nat) : (tile X k).length = k * X.length := by
  unfold tile
  rw [← List.flatMap_id, flatMap_block_length id X.length (List.replicate k X) (by
    intro x hx; rw [List.eq_of_mem_replicate hx]; rfl)]
  simp

theorem repeatEach_getElem? {β : Type} (x : List β) (m i j : Nat) (hi : i < m) :
    (repeatEach x m)[j * m + i]? = x[j]? := by
  unfold repeatEach
  rw [flatMap_block _ m x (by intro v _; simp) j i hi]
  cases h : x[j]? with
  | none => simp
  | some v => simp [hi]

theorem repeatEach_length {β : Type} (x : List β) (m : Nat) : (repeatEach x m).length = x.length * m := by
  unfold repeatEach
  exact flatMap_block_length _ m x (by intro v _; simp)

theorem gridmake2_length {β : Type} (X : List (List β)) (x : List β) :
    (gridmake2 X x).length = X.length * x.length := by
  unfold gridmake2
  rw [List.length_zipWith, tile_length, repeatEach_length, Nat.mul_comm]
  simp

/-- row `j·|X| + i` of `_gridmake2(X, x)` is row `i` of `X` followed by `x[j]` -/
theorem gridmake2_getElem? {β : Type} (X : List (List β)) (x : List β) (i j : Nat)
    (hi : i < X.length) (hj : j < x.length) :
    (gridmake2 X x)[j * X.length + i]? = some (X[i] ++ [x[j]]) := by
  unfold gridmake2
  rw [List.getElem?_zipWith, tile_getElem? X x.length i j hj hi, repeatEach_getElem? x X.length i j hi]
  simp [hi, hj]

/-- generalised fold: starting from the accumulated grid `acc`, the row with index
    `I + |acc| · mixedRadix is ns` is row `I` of `acc` extended by the selected entries. -/
theorem foldl_gridmake2_getElem? (rest : List (List K)) (is : List Nat)
    (h : List.Forall₂ (fun i (x : List K) => i < x.length) is rest) :
    ∀ (acc : List (List K)) (I : Nat) (hI : I < acc.length),
      (rest.foldl gridmake2 acc)[I + acc.length * mixedRadix is (rest.map List.length)]?
        = some (acc[I] ++ List.zipWith (fun (x : List K) i => x.getD i 0) rest is) ∧
      (rest.foldl gridmake2 acc).length = acc.length * (rest.map List.length).prod := by
  induction h with
  | nil => intro acc I hI; simp [mixedRadix, hI]
  | @cons i x is rest hix _ ih =>
    intro acc I hI
    simp only [List.foldl_cons, List.map_cons, mixedRadix, List.prod_cons, List.zipWith_cons_cons]
    have hI' : i * acc.length + I < (gridmake2 acc x).length := by
      rw [gridmake2_length]
      calc i * acc.length + I < i * acc.length + acc.length := by omega
        _ = acc.length * (i + 1) := by ring
        _ ≤ acc.length * x.length := Nat.mul_le_mul_left _ hix
    obtain ⟨h1, h2⟩ := ih (gridmake2 acc x) (i * acc.length + I) hI'
    constructor
    · have e : I + acc.length * (i + x.length * mixedRadix is (rest.map List.length))
          = i * acc.length + I + (gridmake2 acc x).length * mixedRadix is (rest.map List.length) := by
        rw [gridmake2_length]; ring
      rw [e, h1]
      have hg := gridmake2_getElem? acc x I i hI hix
      have hg' : (gridmake2 acc x)[i * acc.length + I] = acc[I] ++ [x[i]] := by
        have := List.getElem?_eq_getElem hI'
        rw [hg] at this
        exact (Option.some.inj this).symm
      rw [hg']
      simp [List.getD_eq_getElem?_getD, hix]
    · rw [h2, gridmake2_length]; ring

theorem col_length {β : Type} (x : List β) : (col x).length = x.length := by simp [col]

/-- **gridmake, every multi-index.** For at least one array, row `mixedRadix is ns` of the grid
    holds `(x_k[i_k])_k`; the grid has `Π n_k` rows. -/
theorem gridRows_index (xs : List (List K)) (is : List Nat) (hne : xs ≠ [])
    (h : List.Forall₂ (fun i (x : List K) => i < x.length) is xs) :
    (gridRows xs)[mixedRadix is (xs.map List.length)]?
        = some (List.zipWith (fun (x : List K) i => x.getD i 0) xs is) ∧
    (gridRows xs).length = (xs.map List.length).prod := by
  cases h with
  | nil => exact absurd rfl hne
  | @cons i x is rest hix hrest =>
    obtain ⟨t1, t2⟩ := foldl_gridmake2_getElem? rest is hrest (col x) i (by rw [col_length]; exact hix)
    have hc : (col x)[i]'(by rw [col_length]; exact hix) = [x[i]] := by simp [col]
    rw [hc] at t1
    simp only [col_length] at t1 t2
    simp only [gridRows, List.map_cons, mixedRadix, List.prod_cons, List.zipWith_cons_cons]
    refine ⟨?_, t2⟩
    rw [t1]
    simp [List.getD_eq_getElem?_getD, hix]

/-! ### ckron of the reversed weights -/

theorem ckronRev_cons (w : List K) (ws : List (List K)) (hne : ws ≠ []) :
    ckronRev (w :: ws) = kron (ckronRev ws) w := by
  unfold ckronRev
  rw [List.reverse_cons]
  cases hr : ws.reverse with
  | nil => simp at hr; exact absurd hr hne
  | cons a r =>
    simp [ckron, List.foldl_append]

theorem ckronRev_single (w : List K) : ckronRev [w] = w := by
  simp [ckronRev, ckron]

/-- **ckron(*weights[::-1]), every multi-index.** Entry `mixedRadix is ns` of the reversed
    Kronecker product is `Π_k w_k[i_k]`; the vector has `Π n_k` entries. -/
theorem ckronRev_index (ws : List (List K)) (is : List Nat) (hne : ws ≠ [])
    (h : List.Forall₂ (fun i (w : List K) => i < w.length) is ws) :
    (ckronRev ws).getD (mixedRadix is (ws.map List.length)) 0
        = (List.zipWith (fun (w : List K) i => w.getD i 0) ws is).prod ∧
    (ckronRev ws).length = (ws.map List.length).prod := by
  induction h with
  | nil => exact absurd rfl hne
  | @cons i w is ws hiw hrest ih =>
    by_cases hws : ws = []
    · subst hws
      cases hrest
      simp [ckronRev_single, mixedRadix]
    · obtain ⟨h1, h2⟩ := ih hws
      have hlt := mixedRadix_lt is (ws.map List.length) (by
        clear ih h1 h2 hws hne hiw
        induction hrest with
        | nil => exact List.Forall₂.nil
        | cons hh _ ih' => exact List.Forall₂.cons hh ih')
      rw [ckronRev_cons w ws hws]
      simp only [List.map_cons, mixedRadix, List.prod_cons, List.zipWith_cons_cons]
      constructor
      · have e : i + w.length * mixedRadix is (ws.map List.length)
            = mixedRadix is (ws.map List.length) * w.length + i := by ring
        rw [e, kron_getD _ _ _ _ (by rw [h2]; exact hlt) hiw, h1]
        ring
      · rw [kron_length, h2]; ring

/-! ### lengths (no multi-index needed) -/

theorem foldl_gridmake2_length {β : Type} (rest : List (List β)) : ∀ (acc : List (List β)),
    (rest.foldl gridmake2 acc).length = acc.length * (rest.map List.length).prod := by
  induction rest with
  | nil => intro acc; simp
  | cons x rest ih =>
    intro acc
    simp only [List.foldl_cons, List.map_cons, List.prod_cons]
    rw [ih, gridmake2_length]; ring

theorem gridRows_length {β : Type} (xs : List (List β)) (hne : xs ≠ []) :
    (gridRows xs).length = (xs.map List.length).prod := by
  cases xs with
  | nil => exact absurd rfl hne
  | cons x rest =>
    simp only [gridRows, List.map_cons, List.prod_cons]
    rw [foldl_gridmake2_length, col_length]

theorem ckronRev_length (ws : List (List K)) (hne : ws ≠ []) :
    (ckronRev ws).length = (ws.map List.length).prod := by
  induction ws with
  | nil => exact absurd rfl hne
  | cons w ws ih =>
    by_cases hws : ws = []
    · subst hws; simp [ckronRev_single]
    · rw [ckronRev_cons w ws hws, kron_length, ih hws]
      simp only [List.map_cons, List.prod_cons]; ring

end QE.C08
