/-
  Lemmas for property C05 (Lemke-Howson): one tableau `T` with `L` rows, `N` variable
  columns and the right-hand side in column `N` (no criterion row), with a basis `b`:
  canonical form, feasibility and the solution set are preserved by a pivot chosen by the
  exact minimum-ratio test; the basic solution satisfies the rows.
-/
import QEModel.C05
import QEProofs.Lemmas.PivotLemmas
import QEProofs.Lemmas.C04Ratio
import QEProofs.Lemmas.C05KSub
import Mathlib.Algebra.Order.Field.Basic
import Mathlib.Algebra.Order.BigOperators.Ring.Finset
import Mathlib.Tactic.Ring
import Mathlib.Tactic.Linarith

namespace QE.C05
open QE QE.Pivot Finset

set_option linter.unusedSectionVars false
variable {K : Type} [Field K] [LinearOrder K] [IsStrictOrderedRing K]

def TShape (T : M K) (L N : ℕ) : Prop := T.nr = L ∧ T.nc = N + 1

/-- canonical form: `b[i]` is a variable column equal to the unit vector `e_i` -/
def TCanon (T : M K) (b : List ℕ) (L N : ℕ) : Prop :=
  b.length = L ∧ ∀ i, i < L →
    b.getD i 0 < N ∧ ∀ i', i' < L → T.get i' (b.getD i 0) = if i' = i then 1 else 0

def TRhs (T : M K) (L N : ℕ) : Prop := ∀ i, i < L → 0 ≤ T.get i N

/-- the basic solution: `z_{b[i]} = T[i,N]`, `0` on the non-basic columns -/
def tsol (T : M K) (b : List ℕ) (L N : ℕ) (j : ℕ) : K :=
  ∑ i ∈ range L, if b.getD i 0 = j then T.get i N else 0

/-- `k` is basic -/
def InB (b : List ℕ) (k : ℕ) : Prop := ∃ i, i < b.length ∧ b.getD i 0 = k

theorem tshape_pivot (T : M K) (L N c r : ℕ) (hs : TShape T L N) : TShape (pivot T c r) L N := by
  unfold TShape at *; simpa using hs

theorem tcanon_inj (T : M K) (b : List ℕ) (L N : ℕ) (hc : TCanon T b L N) (i i' : ℕ)
    (hi : i < L) (hi' : i' < L) (h : b.getD i 0 = b.getD i' 0) : i = i' := by
  by_contra hne
  have h1 := (hc.2 i hi).2 i hi
  have h2 := (hc.2 i' hi').2 i hi
  rw [← h, h1] at h2
  simp [hne] at h2

theorem tcanon_pivot (T : M K) (b : List ℕ) (L N c r : ℕ) (hs : TShape T L N) (hc : TCanon T b L N)
    (hcN : c < N) (hr : r < L) (hp : T.get r c ≠ 0) : TCanon (pivot T c r) (b.set r c) L N := by
  obtain ⟨hnr, hnc⟩ := hs
  obtain ⟨hbl, hcan⟩ := hc
  refine ⟨by simpa using hbl, ?_⟩
  intro i hi
  rw [getD_set']
  by_cases hir : r = i
  · subst hir
    rw [if_pos ⟨rfl, by omega⟩]
    refine ⟨hcN, ?_⟩
    intro i' hi'
    by_cases h : i' = r
    · subst h; rw [if_pos rfl]
      exact pivot_col_r T c i' (by omega) (by omega) hp
    · rw [if_neg h]
      exact pivot_col_i T c r i' (by omega) (by omega) h hp
  · rw [if_neg (by tauto)]
    obtain ⟨hbi, hcol⟩ := hcan i hi
    refine ⟨hbi, ?_⟩
    intro i' hi'
    have hz : T.get r (b.getD i 0) = 0 := by
      rw [hcol r hr, if_neg hir]
    rw [pivot_col_keep T c r i' (b.getD i 0) (by omega) (by omega) hz]
    exact hcol i' hi'

theorem trhs_pivot (T : M K) (L N c r : ℕ) (hs : TShape T L N) (hrhs : TRhs T L N) (hr : r < L)
    (hp : 0 < T.get r c)
    (hmin : ∀ k, k < L → 0 < T.get k c → T.get r N / T.get r c ≤ T.get k N / T.get k c) :
    TRhs (pivot T c r) L N := by
  obtain ⟨hnr, hnc⟩ := hs
  have hratio : 0 ≤ T.get r N / T.get r c := div_nonneg (hrhs r hr) (le_of_lt hp)
  intro i hi
  by_cases hir : i = r
  · subst hir
    rw [pivot_get_r T c i N (by omega) (by omega)]
    exact hratio
  · rw [pivot_get_i T c r i N (by omega) (by omega) hir]
    by_cases hpos : 0 < T.get i c
    · have h1 := hmin i hi hpos
      have h2 : T.get r N / T.get r c * T.get i c ≤ T.get i N := by
        have := mul_le_mul_of_nonneg_right h1 (le_of_lt hpos)
        rwa [div_mul_cancel₀ _ (ne_of_gt hpos)] at this
      linarith
    · have hle : T.get i c ≤ 0 := not_lt.mp hpos
      have : T.get r N / T.get r c * T.get i c ≤ 0 := mul_nonpos_of_nonneg_of_nonpos hratio hle
      have := hrhs i hi
      linarith

/-- the basic solution of a canonical tableau satisfies every row -/
theorem tsol_rowsSat (T : M K) (b : List ℕ) (L N : ℕ) (hs : TShape T L N) (hc : TCanon T b L N) :
    RowsSat T (tsol T b L N) L := by
  intro i hi
  unfold RowSat
  rw [hs.2, Nat.add_sub_cancel]
  unfold tsol
  simp only [mul_sum]
  rw [sum_comm]
  have : ∀ i' ∈ range L, ∑ j ∈ range N, T.get i j * (if b.getD i' 0 = j then T.get i' N else 0)
      = if i = i' then T.get i' N else 0 := by
    intro i' hi'
    have hi'' := mem_range.mp hi'
    obtain ⟨hb, hcol⟩ := hc.2 i' hi''
    simp only [mul_ite, mul_zero]
    rw [sum_ite_eq (range N) (b.getD i' 0) (fun j => T.get i j * T.get i' N),
      if_pos (mem_range.mpr hb), hcol i hi]
    by_cases h : i = i'
    · rw [if_pos h, if_pos h, one_mul]
    · rw [if_neg h, if_neg h, zero_mul]
  rw [sum_congr rfl this, sum_ite_eq (range L) i (fun i' => T.get i' N), if_pos (mem_range.mpr hi)]

theorem tsol_nonneg (T : M K) (b : List ℕ) (L N : ℕ) (hr : TRhs T L N) (j : ℕ) :
    0 ≤ tsol T b L N j := by
  unfold tsol
  apply sum_nonneg
  intro i hi
  split
  · exact hr i (mem_range.mp hi)
  · exact le_refl _

theorem tsol_nonbasic (T : M K) (b : List ℕ) (L N : ℕ) (hl : b.length = L) (j : ℕ)
    (h : ¬ InB b j) : tsol T b L N j = 0 := by
  unfold tsol
  apply sum_eq_zero
  intro i hi
  rw [if_neg]
  intro he
  exact h ⟨i, by rw [hl]; exact mem_range.mp hi, he⟩

/-- one pivoting step with the leaving row chosen by the exact lexico-minimum ratio test
    (`tol_piv = tol_ratio_diff = 0`) that reported `found`: everything is preserved -/
theorem tab_step (T T0 : M K) (b : List ℕ) (L N c ss : ℕ) (hs : TShape T L N)
    (hc : TCanon T b L N) (hr : TRhs T L N) (hsol : ∀ z, RowsSat T z L ↔ RowsSat T0 z L)
    (hcN : c < N) (hf : (lexMinRatio T c ss 0 0).1 = true) :
    (lexMinRatio T c ss 0 0).2 < L ∧
    TShape (pivot T c (lexMinRatio T c ss 0 0).2) L N ∧
    TCanon (pivot T c (lexMinRatio T c ss 0 0).2) (b.set (lexMinRatio T c ss 0 0).2 c) L N ∧
    TRhs (pivot T c (lexMinRatio T c ss 0 0).2) L N ∧
    (∀ z, RowsSat (pivot T c (lexMinRatio T c ss 0 0).2) z L ↔ RowsSat T0 z L) := by
  have hfound := lexMinRatio_found T c ss 0 (lexMinRatio T c ss 0 0).2
    (by rw [← hf])
  obtain ⟨hrL, hpos, hmin⟩ := hfound
  rw [hs.1] at hrL
  have hne : T.get (lexMinRatio T c ss 0 0).2 c ≠ 0 := ne_of_gt hpos
  refine ⟨hrL, tshape_pivot T L N c _ hs, tcanon_pivot T b L N c _ hs hc hcN hrL hne, ?_, ?_⟩
  · apply trhs_pivot T L N c _ hs hr hrL hpos
    intro k hk hkpos
    have := hmin k (by rw [hs.1]; exact hk) hkpos
    rwa [hs.2, Nat.add_sub_cancel] at this
  · intro z
    rw [← hsol z]
    exact pivot_rowsSat T z c _ L (by rw [hs.1]) hrL (by rw [hs.2]; omega) hne

end QE.C05
