/-
  C06 helper lemmas, part 5: the choice of gamma (lines 172-195) as a fold.
-/
import QEModel.C06
import Mathlib.Order.Defs.LinearOrder
import Mathlib.Order.Basic

namespace QE.C06
open QE

section
variable {K : Type} [LinearOrder K] [Mul K] [One K]

/-- the candidate passes the test `cn * EPS < 1` of line 179 -/
def admitted (eps : K) (c : K × K × K × K) : Prop := c.2.1 * eps < 1

/-- `f_gamma = max(f1, gamma * f1, f3)` of lines 184-187 -/
def fGamma (c : K × K × K × K) : K := pyMax (pyMax c.2.2.1 (c.1 * c.2.2.1)) c.2.2.2

theorem gammaSelStep_facts (eps : K) (st : Option K × K) (c : K × K × K × K) :
    (gammaSelStep eps st c).2 ≤ st.2 ∧
    (admitted eps c → (gammaSelStep eps st c).2 ≤ fGamma c) ∧
    (gammaSelStep eps st c = st ∨
      (admitted eps c ∧ (gammaSelStep eps st c).1 = some c.1 ∧ (gammaSelStep eps st c).2 = fGamma c ∧
        (gammaSelStep eps st c).2 < st.2)) := by
  obtain ⟨g, cn, f1, f3⟩ := c
  by_cases hadm : cn * eps < 1
  · by_cases hlt : pyMax (pyMax f1 (g * f1)) f3 < st.2
    · have e : gammaSelStep eps st (g, cn, f1, f3) = (some g, pyMax (pyMax f1 (g * f1)) f3) := by
        simp only [gammaSelStep, hadm, hlt, if_true]
      rw [e]
      exact ⟨le_of_lt hlt, fun _ => le_refl _, Or.inr ⟨hadm, rfl, rfl, hlt⟩⟩
    · have e : gammaSelStep eps st (g, cn, f1, f3) = st := by
        simp only [gammaSelStep, hadm, hlt, if_true, if_false]
      rw [e]
      exact ⟨le_refl _, fun _ => not_lt.mp hlt, Or.inl rfl⟩
  · have e : gammaSelStep eps st (g, cn, f1, f3) = st := by
      simp only [gammaSelStep, hadm, if_false]
    rw [e]
    exact ⟨le_refl _, fun h => absurd h hadm, Or.inl rfl⟩

theorem gammaSel_fold (eps : K) :
    ∀ (l : List (K × K × K × K)) (st : Option K × K),
      (l.foldl (gammaSelStep eps) st).2 ≤ st.2 ∧
      (∀ c ∈ l, admitted eps c → (l.foldl (gammaSelStep eps) st).2 ≤ fGamma c) ∧
      (l.foldl (gammaSelStep eps) st = st ∨
        ∃ c ∈ l, admitted eps c ∧ (l.foldl (gammaSelStep eps) st).1 = some c.1 ∧
          (l.foldl (gammaSelStep eps) st).2 = fGamma c ∧ (l.foldl (gammaSelStep eps) st).2 < st.2) := by
  intro l
  induction l with
  | nil =>
    intro st
    simp only [List.foldl_nil]
    exact ⟨le_refl _, fun c hc _ => absurd hc List.not_mem_nil, Or.inl trivial⟩
  | cons c l ih =>
    intro st
    simp only [List.foldl_cons]
    obtain ⟨s1, s2, s3⟩ := gammaSelStep_facts eps st c
    obtain ⟨i1, i2, i3⟩ := ih (gammaSelStep eps st c)
    refine ⟨le_trans i1 s1, ?_, ?_⟩
    · intro c' hc' hadm
      rcases List.mem_cons.mp hc' with rfl | hmem
      · exact le_trans i1 (s2 hadm)
      · exact i2 c' hmem hadm
    · rcases i3 with heq | ⟨c', hc', ha, h1, h2, h3⟩
      · rw [heq]
        rcases s3 with heq2 | ⟨ha, h1, h2, h3⟩
        · exact Or.inl heq2
        · exact Or.inr ⟨c, List.mem_cons_self, ha, h1, h2, h3⟩
      · exact Or.inr ⟨c', List.mem_cons_of_mem _ hc', ha, h1, h2, lt_of_lt_of_le h3 s1⟩

end
end QE.C06
