/-
  C04 — exact characterisation of when `minmax` hands `solve_tableau` lexicographically
  positive rows: iff column 0 of `A` attains its maximum in exactly one row.  With a tie, the
  later tied row has right-hand side 0 and first non-zero lexicographic entry `-1`.
-/
import QEProofs.Lemmas.C04MinmaxLex
namespace QE.C04
open QE QE.Pivot Finset

variable {K : Type} [Field K] [LinearOrder K] [IsStrictOrderedRing K]

omit [Field K] [IsStrictOrderedRing K] in
/-- `pivrow` is the *first* maximiser of column 0 -/
theorem mmPivRow_first [Zero K] (T : M K) (m : ℕ) :
    ∀ i, i < mmPivRow T m → T.get i 0 < T.get (mmPivRow T m) 0 := by
  unfold mmPivRow
  have key : ∀ k, let st := (List.range k).foldl (fun (st : ℕ × K) i =>
        if i = 0 then st else if st.2 < T.get i 0 then (i, T.get i 0) else st) (0, T.get 0 0)
      st.2 = T.get st.1 0 ∧ (∀ i, i < k → T.get i 0 ≤ st.2) ∧ T.get 0 0 ≤ st.2 ∧
        ∀ i, i < st.1 → T.get i 0 < st.2 := by
    intro k
    induction k with
    | zero => simp
    | succ k ih =>
      simp only at ih ⊢
      rw [List.range_succ, List.foldl_append]
      simp only [List.foldl_cons, List.foldl_nil]
      set st := (List.range k).foldl (fun (st : ℕ × K) i =>
        if i = 0 then st else if st.2 < T.get i 0 then (i, T.get i 0) else st) (0, T.get 0 0) with hst
      obtain ⟨h1, h2, h3, h4⟩ := ih
      by_cases hk : k = 0
      · rw [if_pos hk]
        refine ⟨h1, ?_, h3, h4⟩
        intro i hi
        have : i = 0 := by omega
        subst this; exact h3
      · rw [if_neg hk]
        by_cases hlt : st.2 < T.get k 0
        · rw [if_pos hlt]
          refine ⟨rfl, ?_, le_trans h3 (le_of_lt hlt), ?_⟩
          · intro i hi
            rcases Nat.lt_succ_iff_lt_or_eq.mp hi with h | h
            · exact le_trans (h2 i h) (le_of_lt hlt)
            · subst h; exact le_refl _
          · intro i hi
            exact lt_of_le_of_lt (h2 i hi) hlt
        · rw [if_neg hlt]
          refine ⟨h1, ?_, h3, h4⟩
          intro i hi
          rcases Nat.lt_succ_iff_lt_or_eq.mp hi with h | h
          · exact h2 i h
          · subst h; exact not_lt.mp hlt
  obtain ⟨h1, _, _, h4⟩ := key m
  intro i hi
  rw [← h1]; exact h4 i hi

omit [Field K] [IsStrictOrderedRing K] in
theorem not_lexPos_of_first_neg [Zero K] (pre post : List ℕ) (c : ℕ) (u : ℕ → K)
    (hz : ∀ x ∈ pre, u x = 0) (hneg : u c < 0) :
    ¬ LexLt (pre ++ c :: post) (fun _ => (0 : K)) u := by
  induction pre with
  | nil =>
    rintro (h | ⟨e, _⟩)
    · exact absurd h (not_lt.mpr (le_of_lt hneg))
    · dsimp only at e; rw [← e] at hneg; exact lt_irrefl _ hneg
  | cons a pre ih =>
    rintro (h | ⟨_, h⟩)
    · dsimp only at h; rw [hz a (by simp)] at h; exact lt_irrefl _ h
    · exact ih (fun x hx => hz x (List.mem_cons_of_mem _ hx)) h

/-- **iff**: lex-positive start rows exactly when column 0 has a unique maximiser -/
theorem minmaxLexOK_iff (A : ℕ → ℕ → K) (m n : ℕ) (hm : 1 ≤ m) (hn : 1 ≤ n) :
    minmaxLexOK A m n = minmaxUniqueMax A m n := by
  have hT : mmStartT A m n = mmStart A m n := rfl
  unfold minmaxLexOK
  rw [hT]
  by_cases hu : minmaxUniqueMax A m n = true
  · rw [hu]
    apply mmStart_lexRowsOK A m n hm hn
    refine ⟨mmPivRow (mmTableau A m n) m, (mmPivRow_spec _ m hm).1, ?_⟩
    intro i hi hne
    unfold minmaxUniqueMax at hu
    simp only [List.all_eq_true, List.mem_range, Bool.or_eq_true, decide_eq_true_eq] at hu
    rcases hu i hi with e | h
    · exact absurd e hne
    · exact h
  · have hu' : minmaxUniqueMax A m n = false := by simpa using hu
    rw [hu']
    -- a tied row
    unfold minmaxUniqueMax at hu
    simp only [List.all_eq_true, List.mem_range, Bool.or_eq_true, decide_eq_true_eq, not_forall] at hu
    obtain ⟨i, him, hnot⟩ := hu
    have hne : i ≠ mmPivRow (mmTableau A m n) m := fun e => hnot (Or.inl e)
    have hnlt : ¬ A i 0 < A (mmPivRow (mmTableau A m n) m) 0 := fun h => hnot (Or.inr h)
    obtain ⟨hs2, hc2, _, _, _, _, _⟩ := mmStart_facts A m n hm hn
    set T0 := mmTableau A m n with hT0
    obtain ⟨hprm, hmax⟩ := mmPivRow_spec T0 m hm
    have hfirst := mmPivRow_first T0 m
    set pr := mmPivRow T0 m with hpr
    set Ta := pivot T0 n pr with hTa
    have hT2 : mmStart A m n = pivot Ta 0 m := rfl
    have hs0 : Shape T0 (m + 1) (n + 1 + m) := mmTableau_shape A m n
    have hsa : Shape Ta (m + 1) (n + 1 + m) := shape_pivot T0 _ _ n pr hs0
    have e_struct : ∀ i, i < m → T0.get i 0 = A i 0 + mmConst A m n := by
      intro i hi
      rw [hT0, mmTableau_get A m n i 0 (by omega) (by omega), if_pos hi, if_pos (by omega)]
    have e_v : ∀ i, i < m → T0.get i n = -1 := by
      intro i hi
      rw [hT0, mmTableau_get A m n i n (by omega) (by omega), if_pos hi, if_neg (lt_irrefl _), if_pos rfl]
    -- the tie: equal entries, and the tied row comes after pivrow
    have htie : T0.get i 0 = T0.get pr 0 := by
      have h1 := hmax i him
      rw [e_struct i him, e_struct pr hprm] at h1 ⊢
      have : A pr 0 ≤ A i 0 := not_lt.mp hnlt
      linarith
    have hgt : pr < i := by
      rcases Nat.lt_or_ge i pr with h | h
      · have := hfirst i h; rw [htie] at this; exact absurd this (lt_irrefl _)
      · omega
    -- row i of the start tableau equals row i after the first pivot (its column-0 entry is 0)
    have a_i0 : Ta.get i 0 = 0 := by
      rw [pivot_get_i T0 n pr i 0 (by rw [hs0.1]; omega) (by rw [hs0.2]; omega) hne, e_v i him,
        e_v pr hprm, htie]; ring
    have hrow : ∀ j, j < n + 1 + m + 1 → (mmStart A m n).get i j = Ta.get i j := by
      intro j hj
      rw [hT2, pivot_get_i Ta 0 m i j (by rw [hsa.1]; omega) (by rw [hsa.2]; exact hj) (by omega), a_i0]
      ring
    -- entries of that row along the lexicographic columns
    have hrhs : (mmStart A m n).get i (n + 1 + m) = 0 := by
      rw [hrow _ (by omega), pivot_get_i T0 n pr i _ (by rw [hs0.1]; omega) (by rw [hs0.2]; omega) hne]
      have e1 : T0.get i (n + 1 + m) = 0 := by
        rw [hT0, mmTableau_get A m n i _ (by omega) (by omega), if_pos him, if_neg (by omega), if_neg (by omega),
          if_neg (by omega)]
      have e2 : T0.get pr (n + 1 + m) = 0 := by
        rw [hT0, mmTableau_get A m n pr _ (by omega) (by omega), if_pos hprm, if_neg (by omega), if_neg (by omega),
          if_neg (by omega)]
      rw [e1, e2]; simp
    have hneg : (mmStart A m n).get i (n + 1 + pr) = -1 := by
      rw [hrow _ (by omega), pivot_get_i T0 n pr i _ (by rw [hs0.1]; omega) (by rw [hs0.2]; omega) hne]
      have e1 : T0.get i (n + 1 + pr) = 0 := by
        rw [hT0, mmTableau_get A m n i _ (by omega) (by omega), if_pos him, if_neg (by omega), if_neg (by omega),
          if_neg (by omega)]
      have e2 : T0.get pr (n + 1 + pr) = 1 := by
        rw [hT0, mmTableau_get A m n pr _ (by omega) (by omega), if_pos hprm, if_neg (by omega), if_neg (by omega),
          if_pos rfl]
      rw [e1, e2, e_v i him, e_v pr hprm]; norm_num
    -- zeros before: column n (basic in row pr) and the slack columns of rows q < pr (basic in row q)
    have hzero : ∀ q, q < pr + 1 → (mmStart A m n).get i (q + n) = 0 := by
      intro q hq
      rcases Nat.eq_zero_or_pos q with h0 | hpos
      · -- column n is the basic column of row pr
        have := (hc2.2 pr (by omega)).2 i (by omega)
        rw [mmBasis_getD m n pr pr hprm (by omega), if_neg (by omega), if_pos rfl] at this
        rw [h0, Nat.zero_add, this, if_neg hne]
      · -- column n+1+(q-1) is the basic column of row q-1 < pr
        have hq1 : q - 1 < m := by omega
        have := (hc2.2 (q - 1) (by omega)).2 i (by omega)
        rw [mmBasis_getD m n pr (q - 1) hprm (by omega), if_neg (by omega), if_neg (by omega)] at this
        have e : q + n = n + 1 + (q - 1) := by omega
        rw [e, this, if_neg (by omega)]
    -- hence row i is not lexicographically positive
    by_contra hok
    have hok' : lexRowsOK (mmStart A m n) = true := by simpa using hok
    have hlex := (lexRowsOK_iff _ _ _ hs2).mp hok' i (by omega)
    have hN : n + 1 + m - (m + 1) = n := by omega
    rw [hN] at hlex
    unfold LexPos lexCols at hlex
    have hsplit : (List.range (m + 1)).map (· + n)
        = (List.range (pr + 1)).map (· + n) ++ (n + 1 + pr) :: (List.range (m - pr - 1)).map (fun x => pr + 1 + (1 + x) + n) := by
      have e1 : m + 1 = (pr + 1) + (1 + (m - pr - 1)) := by omega
      rw [e1, List.range_add, List.map_append, List.range_add, List.map_append, List.map_map, List.map_map]
      congr 1
      rw [List.range_add, List.map_append, List.map_map]
      simp only [List.range_one, List.map_cons, List.map_nil, List.singleton_append, Function.comp,
        List.cons.injEq]
      refine ⟨by omega, ?_⟩
      apply List.map_congr_left
      intro x _; simp only [Function.comp]
    rw [hsplit, ← List.cons_append] at hlex
    refine not_lexPos_of_first_neg _ _ _ _ ?_ ?_ hlex
    · intro x hx
      rcases List.mem_cons.mp hx with e | hx'
      · rw [e]; exact hrhs
      · obtain ⟨q, hq, e⟩ := List.mem_map.mp hx'
        rw [← e]; exact hzero q (List.mem_range.mp hq)
    · show (mmStart A m n).get i (n + 1 + pr) < 0
      rw [hneg]; norm_num

end QE.C04
