/-
  C04 — the basic solution of a canonical tableau: it satisfies the constraint
  rows, its objective is `-T[L,N]`, every non-negative point with non-positive
  reduced costs has objective `≤ -T[L,N]` (optimality), and a column without a
  positive entry gives a feasible ray along which the objective grows.
  Also: the model's `basicValue` / `getX` / `ray` read exactly these vectors.
-/
import QEProofs.Lemmas.C04Defs
import Mathlib.Tactic.LinearCombination
namespace QE.C04
open QE QE.Pivot Finset

variable {K : Type} [Field K] [LinearOrder K] [IsStrictOrderedRing K]

/-! ### vectors supported on the basic columns -/

omit [LinearOrder K] [IsStrictOrderedRing K] in
/-- `Σ_j f_j · (Σ_i [b_i = j] v_i) = Σ_i f_{b_i} v_i` -/
theorem sum_mul_basis (b : List ℕ) (L N : ℕ) (f v : ℕ → K) (hb : ∀ i, i < L → b.getD i 0 < N) :
    ∑ j ∈ range N, f j * (∑ i ∈ range L, if b.getD i 0 = j then v i else 0)
      = ∑ i ∈ range L, f (b.getD i 0) * v i := by
  simp_rw [Finset.mul_sum, mul_ite, mul_zero]
  rw [Finset.sum_comm]
  apply Finset.sum_congr rfl
  intro i hi
  rw [Finset.sum_ite_eq, if_pos (Finset.mem_range.mpr (hb i (Finset.mem_range.mp hi)))]

omit [LinearOrder K] [IsStrictOrderedRing K] in
/-- the basic columns are pairwise distinct -/
theorem canon_basis_inj (T : M K) (b : List ℕ) (L N i i' : ℕ) (hc : Canon T b L N) (hi : i < L)
    (hi' : i' < L) (h : b.getD i 0 = b.getD i' 0) : i = i' := by
  by_contra hne
  have h1 := (hc.2 i hi).2 i (by omega)
  have h2 := (hc.2 i' hi').2 i (by omega)
  rw [← h, h1] at h2
  simp [hne] at h2

omit [LinearOrder K] [IsStrictOrderedRing K] in
/-- the model's "last row `i` with `basis[i] = j`" look-up is the sum over the basic rows -/
theorem find_basis_sum (b : List ℕ) (L j : ℕ) (v : ℕ → K)
    (inj : ∀ i i', i < L → i' < L → b.getD i 0 = b.getD i' 0 → i = i') :
    (match (List.range L).reverse.find? (fun i => b.getD i 0 == j) with
      | some i => v i
      | none => 0) = ∑ i ∈ range L, if b.getD i 0 = j then v i else 0 := by
  cases hf : (List.range L).reverse.find? (fun i => b.getD i 0 == j) with
  | none =>
    simp only
    rw [List.find?_eq_none] at hf
    symm
    apply Finset.sum_eq_zero
    intro i hi
    have := hf i (by simpa using Finset.mem_range.mp hi)
    have hne : b.getD i 0 ≠ j := fun e => this (beq_iff_eq.mpr e)
    rw [if_neg hne]
  | some i =>
    simp only
    have hp0 : (b.getD i 0 == j) = true := List.find?_some (p := fun i => b.getD i 0 == j) hf
    have hp : b.getD i 0 = j := beq_iff_eq.mp hp0
    have hm : i < L := List.mem_range.mp (List.mem_reverse.mp (List.mem_of_find?_eq_some hf))
    symm
    rw [Finset.sum_eq_single i]
    · rw [if_pos hp]
    · intro i' hi' hne
      have : b.getD i' 0 ≠ j := by
        intro e
        exact hne (inj i' i (Finset.mem_range.mp hi') hm (by rw [e, hp]))
      rw [if_neg this]
    · intro hni; exact absurd (Finset.mem_range.mpr hm) hni

/-! ### the basic solution -/

omit [LinearOrder K] [IsStrictOrderedRing K] in
theorem bsol_basic (T : M K) (b : List ℕ) (L N i : ℕ) (hc : Canon T b L N) (hi : i < L) :
    bsol T b L N (b.getD i 0) = T.get i N := by
  unfold bsol
  rw [Finset.sum_eq_single i]
  · rw [if_pos rfl]
  · intro i' hi' hne
    have : b.getD i' 0 ≠ b.getD i 0 := fun e =>
      hne (canon_basis_inj T b L N i' i hc (Finset.mem_range.mp hi') hi e)
    rw [if_neg this]
  · intro hni; exact absurd (Finset.mem_range.mpr hi) hni

omit [LinearOrder K] [IsStrictOrderedRing K] in
theorem bsol_nonbasic (T : M K) (b : List ℕ) (L N j : ℕ) (h : ∀ i, i < L → b.getD i 0 ≠ j) :
    bsol T b L N j = 0 := by
  unfold bsol
  apply Finset.sum_eq_zero
  intro i hi
  rw [if_neg (h i (Finset.mem_range.mp hi))]

theorem bsol_nonneg (T : M K) (b : List ℕ) (L N j : ℕ) (h : RhsNonneg T L N) :
    0 ≤ bsol T b L N j := by
  unfold bsol
  apply Finset.sum_nonneg
  intro i hi
  split_ifs
  · exact h i (Finset.mem_range.mp hi)
  · exact le_refl _

omit [LinearOrder K] [IsStrictOrderedRing K] in
/-- row `i' ≤ L` of a canonical tableau applied to a basis-supported vector picks `v_{i'}` -/
theorem canon_row_basis (T : M K) (b : List ℕ) (L N i' : ℕ) (v : ℕ → K) (hc : Canon T b L N)
    (hi' : i' < L + 1) :
    ∑ i ∈ range L, T.get i' (b.getD i 0) * v i = if i' < L then v i' else 0 := by
  have h1 : ∀ i ∈ range L, T.get i' (b.getD i 0) * v i = if i' = i then v i else 0 := by
    intro i hi
    rw [(hc.2 i (Finset.mem_range.mp hi)).2 i' hi']
    split_ifs <;> simp
  rw [Finset.sum_congr rfl h1, Finset.sum_ite_eq]
  simp

omit [LinearOrder K] [IsStrictOrderedRing K] in
/-- the basic solution satisfies every constraint row -/
theorem bsol_rowsSat (T : M K) (b : List ℕ) (L N : ℕ) (hs : Shape T L N) (hc : Canon T b L N) :
    RowsSat T (bsol T b L N) L := by
  intro i hi
  unfold RowSat
  have hN : T.nc - 1 = N := by rw [hs.2]; rfl
  rw [hN]
  unfold bsol
  rw [sum_mul_basis b L N (fun j => T.get i j) (fun i => T.get i N) (fun i hi => (hc.2 i hi).1)]
  rw [canon_row_basis T b L N i (fun i => T.get i N) hc (by omega)]
  simp [hi]

omit [LinearOrder K] [IsStrictOrderedRing K] in
/-- the objective at the basic solution is `-T[L,N]` -/
theorem bsol_obj (T : M K) (b : List ℕ) (L N : ℕ) (hs : Shape T L N) (hc : Canon T b L N) :
    resid T (bsol T b L N) L = - T.get L N := by
  unfold resid
  have hN : T.nc - 1 = N := by rw [hs.2]; rfl
  rw [hN]
  unfold bsol
  rw [sum_mul_basis b L N (fun j => T.get L j) (fun i => T.get i N) (fun i hi => (hc.2 i hi).1)]
  rw [canon_row_basis T b L N L (fun i => T.get i N) hc (by omega)]
  simp

/-- **optimality test**: non-positive reduced costs (wherever `z` may be positive) bound the
    objective of every non-negative `z` by `-T[L,N]` -/
theorem obj_le_of_nonpos (T : M K) (L N : ℕ) (z : ℕ → K) (hs : Shape T L N)
    (hz : ∀ j, j < N → 0 ≤ z j) (hcoef : ∀ j, j < N → T.get L j ≤ 0 ∨ z j = 0) :
    resid T z L ≤ - T.get L N := by
  unfold resid
  have hN : T.nc - 1 = N := by rw [hs.2]; rfl
  rw [hN]
  have : ∑ j ∈ range N, T.get L j * z j ≤ 0 := by
    apply Finset.sum_nonpos
    intro j hj
    have hj' := Finset.mem_range.mp hj
    rcases hcoef j hj' with h | h
    · exact mul_nonpos_of_nonpos_of_nonneg h (hz j hj')
    · rw [h]; simp
  linarith

omit [LinearOrder K] [IsStrictOrderedRing K] in
/-- the model's `basicValue` is the basic solution -/
theorem basicValue_eq_bsol (T : M K) (b : List ℕ) (L N j : ℕ) (hs : Shape T L N)
    (hc : Canon T b L N) : basicValue T b L j = bsol T b L N j := by
  unfold basicValue bsol
  have hN : T.nc - 1 = N := by rw [hs.2]; rfl
  rw [hN]
  exact find_basis_sum b L j (fun i => T.get i N)
    (fun i i' hi hi' h => canon_basis_inj T b L N i i' hc hi hi' h)

omit [LinearOrder K] [IsStrictOrderedRing K] in
/-- `get_solution`'s `x` is the basic solution restricted to the structural columns -/
theorem getX_eq_bsol (T : M K) (b : List ℕ) (L N n j : ℕ) (hs : Shape T L N) (hc : Canon T b L N)
    (hj : j < n) : (getX T b n).getD j 0 = bsol T b L N j := by
  unfold getX
  have hL : T.nr - 1 = L := by rw [hs.1]; rfl
  rw [hL, List.getD_eq_getElem?_getD, List.getElem?_map, List.getElem?_range hj]
  simp only [Option.map_some, Option.getD_some]
  exact basicValue_eq_bsol T b L N j hs hc

/-! ### rays -/

omit [LinearOrder K] [IsStrictOrderedRing K] in
theorem rayDir_eq (T : M K) (b : List ℕ) (L c j : ℕ) (hnb : ∀ i, i < L → b.getD i 0 ≠ c) :
    rayDir T b L c j
      = (if j = c then 1 else 0) + ∑ i ∈ range L, if b.getD i 0 = j then - T.get i c else 0 := by
  unfold rayDir
  by_cases h : j = c
  · subst h
    have : ∑ i ∈ range L, (if b.getD i 0 = j then - T.get i j else 0) = 0 := by
      apply Finset.sum_eq_zero
      intro i hi
      rw [if_neg (hnb i (Finset.mem_range.mp hi))]
    rw [if_pos rfl, if_pos rfl, this, add_zero]
  · rw [if_neg h, if_neg h, zero_add]

omit [LinearOrder K] [IsStrictOrderedRing K] in
/-- row `i' ≤ L` applied to the direction of column `c`: `T[i',c] - [i' < L]·T[i',c]` -/
theorem row_rayDir (T : M K) (b : List ℕ) (L N c i' : ℕ) (hc : Canon T b L N) (hcN : c < N)
    (hnb : ∀ i, i < L → b.getD i 0 ≠ c) (hi' : i' < L + 1) :
    ∑ j ∈ range N, T.get i' j * rayDir T b L c j
      = T.get i' c + (if i' < L then - T.get i' c else 0) := by
  simp_rw [rayDir_eq T b L c _ hnb, mul_add, Finset.sum_add_distrib]
  rw [sum_mul_basis b L N (fun j => T.get i' j) (fun i => - T.get i c) (fun i hi => (hc.2 i hi).1)]
  rw [canon_row_basis T b L N i' (fun i => - T.get i c) hc hi']
  congr 1
  simp_rw [mul_ite, mul_one, mul_zero]
  rw [Finset.sum_ite_eq']
  simp [hcN]

omit [LinearOrder K] [IsStrictOrderedRing K] in
/-- every point of the ray satisfies the constraint rows -/
theorem ray_rowsSat (T : M K) (b : List ℕ) (L N c : ℕ) (t : K) (hs : Shape T L N)
    (hc : Canon T b L N) (hcN : c < N) (hnb : ∀ i, i < L → b.getD i 0 ≠ c) :
    RowsSat T (fun j => bsol T b L N j + t * rayDir T b L c j) L := by
  intro i hi
  have hb := bsol_rowsSat T b L N hs hc i hi
  have hN : T.nc - 1 = N := by rw [hs.2]; rfl
  unfold RowSat at hb ⊢
  rw [hN] at hb ⊢
  have hr := row_rayDir T b L N c i hc hcN hnb (by omega)
  simp only [if_pos hi] at hr
  calc ∑ j ∈ range N, T.get i j * (bsol T b L N j + t * rayDir T b L c j)
      = ∑ j ∈ range N, T.get i j * bsol T b L N j
          + t * ∑ j ∈ range N, T.get i j * rayDir T b L c j := by
        rw [Finset.mul_sum, ← Finset.sum_add_distrib]
        apply Finset.sum_congr rfl; intro j _; ring
    _ = T.get i N := by rw [hb, hr]; ring

omit [LinearOrder K] [IsStrictOrderedRing K] in
/-- along the ray the objective is `-T[L,N] + t·T[L,c]` -/
theorem ray_obj (T : M K) (b : List ℕ) (L N c : ℕ) (t : K) (hs : Shape T L N)
    (hc : Canon T b L N) (hcN : c < N) (hnb : ∀ i, i < L → b.getD i 0 ≠ c) :
    resid T (fun j => bsol T b L N j + t * rayDir T b L c j) L = - T.get L N + t * T.get L c := by
  have hb := bsol_obj T b L N hs hc
  have hN : T.nc - 1 = N := by rw [hs.2]; rfl
  unfold resid at hb ⊢
  rw [hN] at hb ⊢
  have hr := row_rayDir T b L N c L hc hcN hnb (by omega)
  simp only [lt_irrefl, if_false, add_zero] at hr
  have : ∑ j ∈ range N, T.get L j * (bsol T b L N j + t * rayDir T b L c j)
      = ∑ j ∈ range N, T.get L j * bsol T b L N j
          + t * ∑ j ∈ range N, T.get L j * rayDir T b L c j := by
    rw [Finset.mul_sum, ← Finset.sum_add_distrib]
    apply Finset.sum_congr rfl; intro j _; ring
  rw [this, hr]
  linear_combination hb

/-- the ray stays non-negative when column `c` has no positive entry -/
theorem ray_nonneg (T : M K) (b : List ℕ) (L N c : ℕ) (t : K) (j : ℕ)
    (hrhs : RhsNonneg T L N) (ht : 0 ≤ t) (hcol : ∀ i, i < L → T.get i c ≤ 0) :
    0 ≤ bsol T b L N j + t * rayDir T b L c j := by
  have h1 := bsol_nonneg T b L N j hrhs
  have h2 : 0 ≤ rayDir T b L c j := by
    unfold rayDir
    split_ifs
    · exact zero_le_one
    · apply Finset.sum_nonneg
      intro i hi
      split_ifs
      · have := hcol i (Finset.mem_range.mp hi); linarith
      · exact le_refl _
  have := mul_nonneg ht h2
  linarith

omit [LinearOrder K] [IsStrictOrderedRing K] in
/-- the model's `ray` is `rayDir` on the structural columns -/
theorem ray_eq_rayDir (T : M K) (b : List ℕ) (L N n c j : ℕ) (hs : Shape T L N)
    (hc : Canon T b L N) (hj : j < n) : (ray T b n c).getD j 0 = rayDir T b L c j := by
  unfold ray rayDir
  have hL : T.nr - 1 = L := by rw [hs.1]; rfl
  rw [hL, List.getD_eq_getElem?_getD, List.getElem?_map, List.getElem?_range hj]
  simp only [Option.map_some, Option.getD_some]
  by_cases h : j = c
  · simp [h]
  · simp only [if_neg h]
    exact find_basis_sum b L j (fun i => - T.get i c)
      (fun i i' hi hi' h => canon_basis_inj T b L N i i' hc hi hi' h)

end QE.C04
