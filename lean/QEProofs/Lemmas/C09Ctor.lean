/-
  Lemmas for C09, part 6: `_check_action_feasibility` and the constructor.
-/
import QEProofs.Lemmas.C09Bellman
import QEProofs.Lemmas.C09Indptr
namespace QE.C09
set_option linter.unusedSectionVars false

theorem firstIdx_none_iff (n : Nat) (p : Nat → Bool) :
    firstIdx n p = none ↔ ∀ i, i < n → p i = false := by
  simp [firstIdx, List.find?_eq_none]

theorem firstIdx_some (n : Nat) (p : Nat → Bool) (s : Nat) (h : firstIdx n p = some s) :
    s < n ∧ p s = true ∧ ∀ i, i < s → p i = false := by
  unfold firstIdx at h
  have h1 := List.find?_some h
  have h2 := List.mem_of_find?_eq_some h
  rw [List.mem_range] at h2
  refine ⟨h2, h1, ?_⟩
  intro i hi
  rw [List.find?_eq_some_iff_append] at h
  obtain ⟨_, as, bs, hab, hall⟩ := h
  have hlen : as.length = s := by
    have := congrArg (fun l => l[as.length]?) hab
    simp only [List.getElem?_append_right (Nat.le_refl _), Nat.sub_self, List.getElem?_cons_zero] at this
    by_cases hl : as.length < n
    · rw [List.getElem?_range hl] at this; simpa using this
    · rw [List.getElem?_eq_none (by simp; omega)] at this; simp at this
  have hi' : i < as.length := by omega
  have hmem : as[i] ∈ as := List.getElem_mem hi'
  have hval : as[i] = i := by
    have := congrArg (fun l => l[i]?) hab
    simp only [List.getElem?_append_left hi'] at this
    rw [List.getElem?_range (by omega), List.getElem?_eq_getElem hi'] at this
    simpa using this.symm
  have := hall _ hmem
  rw [hval] at this
  simpa using this

section
variable {K : Type} [LinearOrder K]

/-- the state-wise maximum of the rewards of state `i` is `-inf` iff the state has a pair and
    all its rewards are `-inf` -/
theorem rmax_ninf_iff (n : Nat) (R : List (Ext K)) (aInd aIndptr : List Nat) (i : Nat) (hi : i < n)
    (hmono : aIndptr.getD i 0 ≤ aIndptr.getD (i + 1) 0) :
    (match (sWiseMaxArgmax aInd aIndptr R n).getD i none with
      | some (x, _) => x.isNinf
      | none => false) = true ↔
    (aIndptr.getD i 0 < aIndptr.getD (i + 1) 0 ∧
      ∀ j, aIndptr.getD i 0 ≤ j → j < aIndptr.getD (i + 1) 0 → R.getD j .ninf = .ninf) := by
  have hget : (sWiseMaxArgmax aInd aIndptr R n).getD i none
      = (sWiseIdx aIndptr R i).map fun m => (R.getD m default, aInd.getD m 0) := by
    simp [sWiseMaxArgmax, List.getD_eq_getElem?_getD, List.getElem?_map, List.getElem?_range hi]
  rw [hget]
  by_cases heq : aIndptr.getD i 0 = aIndptr.getD (i + 1) 0
  · have : sWiseIdx aIndptr R i = none := by
      simp only [sWiseIdx]; rw [if_neg (not_not.mpr heq)]
    rw [this]
    constructor
    · intro h; simp at h
    · rintro ⟨h, _⟩; omega
  · have hlt : aIndptr.getD i 0 < aIndptr.getD (i + 1) 0 := by omega
    have hs := maxIdxLoop_spec R _ _ hlt
    simp only at hs
    obtain ⟨h1, h2, h3, _⟩ := hs
    have : sWiseIdx aIndptr R i = some (maxIdxLoop R (aIndptr.getD i 0)
        (List.range' (aIndptr.getD i 0 + 1) (aIndptr.getD (i + 1) 0 - (aIndptr.getD i 0 + 1)))) := by
      simp only [sWiseIdx]; rw [if_pos heq]
    rw [this]
    simp only [Option.map_some]
    constructor
    · intro hm
      refine ⟨hlt, ?_⟩
      intro j hj1 hj2
      have hmn : R.getD (maxIdxLoop R (aIndptr.getD i 0)
        (List.range' (aIndptr.getD i 0 + 1) (aIndptr.getD (i + 1) 0 - (aIndptr.getD i 0 + 1)))) default
          = Ext.ninf := by
        revert hm
        cases R.getD _ default <;> simp [Ext.isNinf]
      have := h3 j hj1 hj2
      rw [hmn] at this
      show R.getD j default = Ext.ninf
      cases hr : R.getD j default with
      | ninf => rfl
      | fin r => rw [hr] at this; exact absurd trivial this
    · rintro ⟨_, hall⟩
      have := hall _ h1 h2
      change R.getD _ default = Ext.ninf at this
      rw [this]; rfl

/-- **`_check_action_feasibility` (SA-pair form)** on any pointer array that is non-decreasing
    on `0..n`: it accepts iff every state owns a non-empty block containing a finite reward;
    otherwise it reports the first state whose rewards are all `-inf`, or else the first
    state with an empty block. -/
theorem checkFeasibleSa_spec (n : Nat) (R : List (Ext K)) (aInd aIndptr : List Nat)
    (hmono : ∀ i, i < n → aIndptr.getD i 0 ≤ aIndptr.getD (i + 1) 0) :
    (checkFeasibleSa n R aInd aIndptr = .ok () ↔
      ∀ i, i < n → aIndptr.getD i 0 < aIndptr.getD (i + 1) 0 ∧
        ∃ j, aIndptr.getD i 0 ≤ j ∧ j < aIndptr.getD (i + 1) 0 ∧ R.getD j .ninf ≠ .ninf) ∧
    (∀ e, checkFeasibleSa n R aInd aIndptr = .error e →
      (∃ s, s < n ∧ e = .reward s ∧ aIndptr.getD s 0 < aIndptr.getD (s + 1) 0 ∧
        ∀ j, aIndptr.getD s 0 ≤ j → j < aIndptr.getD (s + 1) 0 → R.getD j .ninf = .ninf) ∨
      (∃ s, s < n ∧ e = .action s ∧ aIndptr.getD s 0 = aIndptr.getD (s + 1) 0)) := by
  unfold checkFeasibleSa
  simp only
  cases h1 : firstIdx n (fun i => match (sWiseMaxArgmax aInd aIndptr R n).getD i none with
                             | some (x, _) => x.isNinf
                             | none => false) with
  | some s =>
    obtain ⟨hs, hp, _⟩ := firstIdx_some _ _ _ h1
    have hp' := (rmax_ninf_iff n R aInd aIndptr s hs (hmono s hs)).mp hp
    simp only
    constructor
    · constructor
      · intro h; cases h
      · intro hall
        obtain ⟨_, j, hj1, hj2, hj3⟩ := hall s hs
        exact absurd (hp'.2 j hj1 hj2) hj3
    · intro e he
      cases he
      exact Or.inl ⟨s, hs, rfl, hp'.1, hp'.2⟩
  | none =>
    rw [firstIdx_none_iff] at h1
    simp only
    cases h2 : firstIdx n (fun i => aIndptr.getD (i + 1) 0 - aIndptr.getD i 0 == 0) with
    | some s =>
      obtain ⟨hs, hp, _⟩ := firstIdx_some _ _ _ h2
      have hz : aIndptr.getD s 0 = aIndptr.getD (s + 1) 0 := by
        have := hmono s hs
        simp only [beq_iff_eq] at hp
        omega
      simp only
      constructor
      · constructor
        · intro h; cases h
        · intro hall
          have := (hall s hs).1
          omega
      · intro e he
        cases he
        exact Or.inr ⟨s, hs, rfl, hz⟩
    | none =>
      rw [firstIdx_none_iff] at h2
      simp only
      constructor
      · constructor
        · intro _ i hi
          have hlt : aIndptr.getD i 0 < aIndptr.getD (i + 1) 0 := by
            have h2i := h2 i hi
            have := hmono i hi
            simp only [beq_eq_false_iff_ne, ne_eq] at h2i
            omega
          refine ⟨hlt, ?_⟩
          by_contra hno
          have hall : ∀ j, aIndptr.getD i 0 ≤ j → j < aIndptr.getD (i + 1) 0 → R.getD j .ninf = .ninf := by
            intro j hj1 hj2
            by_contra hne
            exact hno ⟨j, hj1, hj2, hne⟩
          have := (rmax_ninf_iff n R aInd aIndptr i hi (hmono i hi)).mpr ⟨hlt, hall⟩
          rw [h1 i hi] at this
          cases this
        · intro _; trivial
      · intro e he; cases he

end


/-- `_has_sorted_sa_indices` true on arrays of equal length ⇒ the states are non-decreasing -/
theorem hasSortedSa_pairwise : ∀ (S A : List Nat), S.length = A.length → hasSortedSa S A = true →
    List.Pairwise (· ≤ ·) S := by
  intro S
  induction S with
  | nil => intro A _ _; exact List.Pairwise.nil
  | cons s0 S ih =>
    intro A hl h
    cases S with
    | nil => simp
    | cons s1 ss =>
      cases A with
      | nil => simp at hl
      | cons a0 A =>
        cases A with
        | nil => simp at hl
        | cons a1 as =>
          simp only [hasSortedSa] at h
          by_cases h1 : s0 > s1
          · simp [h1] at h
          · rw [if_neg h1] at h
            by_cases h2 : s0 = s1 ∧ a0 ≥ a1
            · simp [h2] at h
            · rw [if_neg h2] at h
              have hp := ih (a1 :: as) (by simpa using hl) h
              rw [List.pairwise_cons]
              refine ⟨?_, hp⟩
              intro y hy
              rcases List.mem_cons.mp hy with rfl | hy
              · omega
              · have := (List.pairwise_cons.mp hp).1 y hy; omega

theorem countsIndptr_getD (n : Nat) (S : List Nat) (k : Nat) (hk : k ≤ n) :
    (countsIndptr n S).getD k 0 = S.countP (· < k) := by
  simp [countsIndptr, List.getD_eq_getElem?_getD, List.getElem?_map,
    List.getElem?_range (by omega : k < n + 1)]

theorem countP_lt_all (S : List Nat) (n : Nat) (h : ∀ s ∈ S, s < n) : S.countP (· < n) = S.length := by
  rw [List.countP_eq_length]
  intro s hs; simpa using h s hs

section
variable {K : Type} [LinearOrder K]

/-- in both branches of the constructor the stored pointer array counts, for every `k ≤ n`,
    the pairs whose state is `< k` -/
theorem arrangeSa_indptr (n : Nat) (beta : K) (R : List (Ext K)) (Q : List (List K)) (S A : List Nat)
    (hl : S.length = A.length) (hS : ∀ s ∈ S, s < n) (k : Nat) (hk : k ≤ n) :
    (arrangeSa n beta R Q S A).aIndptr.getD k 0 = S.countP (· < k) := by
  unfold arrangeSa
  by_cases hs : hasSortedSa S A = true
  · rw [if_pos hs]
    simp only
    have hp := hasSortedSa_pairwise S A hl hs
    obtain ⟨h1, h2⟩ := generateAIndptr_sorted n S hp k
    by_cases hkn : k < n
    · rw [List.getD_eq_getElem?_getD, h1 hkn]; rfl
    · have : k = n := by omega
      rw [List.getD_eq_getElem?_getD, h2 this, this, countP_lt_all S n hS]; rfl
  · rw [if_neg hs]
    exact countsIndptr_getD n S k hk

theorem countP_lt_mono (S : List Nat) (k : Nat) : S.countP (· < k) ≤ S.countP (· < k + 1) := by
  apply List.countP_mono_left
  intro x _ hx
  simp at *; omega

theorem countP_lt_succ_of_not_mem (S : List Nat) (i : Nat) (hi : i ∉ S) :
    S.countP (· < i + 1) = S.countP (· < i) := by
  apply List.countP_congr
  intro x hx
  have : x ≠ i := fun e => hi (e ▸ hx)
  simp; omega

/-- **The constructor rejects every problem in which some state has no state-action pair**
    (first, middle or last; pairs sorted or in any order): the result is the `ValueError`
    `reward s` or `action s` for some state `s`. -/
theorem mkSa_rejects_missing_state (n : Nat) (beta : K) [Zero K] [One K]
    (R : List (Ext K)) (Q : List (List K)) (S A : List Nat)
    (hR : R.length = Q.length) (hSl : S.length = Q.length) (hAl : A.length = Q.length)
    (hS : ∀ s ∈ S, s < n) (i : Nat) (hi : i < n) (hmiss : i ∉ S) :
    ∃ s, s < n ∧ (mkSa n beta R Q S A = .error (.reward s) ∨ mkSa n beta R Q S A = .error (.action s)) := by
  unfold mkSa
  simp only
  rw [if_neg (by simpa using hR), if_neg (by simp [hSl, hAl])]
  have hcoo : ¬ (¬ hasSortedSa S A = true ∧ (S.any fun s => decide (n ≤ s)) = true) := by
    rintro ⟨_, h⟩
    rw [List.any_eq_true] at h
    obtain ⟨s, hs, hd⟩ := h
    have := hS s hs
    simp at hd; omega
  rw [if_neg hcoo]
  have hptr := arrangeSa_indptr n beta R Q S A (by omega) hS
  have hmono : ∀ k, k < n → (arrangeSa n beta R Q S A).aIndptr.getD k 0
      ≤ (arrangeSa n beta R Q S A).aIndptr.getD (k + 1) 0 := by
    intro k hk
    rw [hptr k (by omega), hptr (k + 1) (by omega)]
    exact countP_lt_mono S k
  obtain ⟨hok, herr⟩ := checkFeasibleSa_spec n (arrangeSa n beta R Q S A).R
    (arrangeSa n beta R Q S A).aInd (arrangeSa n beta R Q S A).aIndptr hmono
  cases hc : checkFeasibleSa n (arrangeSa n beta R Q S A).R (arrangeSa n beta R Q S A).aInd
      (arrangeSa n beta R Q S A).aIndptr with
  | ok u =>
    exfalso
    have := (hok.mp (by rw [hc])) i hi
    rw [hptr i (by omega), hptr (i + 1) (by omega), countP_lt_succ_of_not_mem S i hmiss] at this
    exact absurd this.1 (Nat.lt_irrefl _)
  | error e =>
    simp only
    rcases herr e hc with ⟨s, hs, rfl, _⟩ | ⟨s, hs, rfl, _⟩
    · exact ⟨s, hs, Or.inl rfl⟩
    · exact ⟨s, hs, Or.inr rfl⟩

end

section
variable {K : Type}

theorem isNinf_iff (r : Ext K) : r.isNinf = true ↔ r = .ninf := by
  cases r <;> simp [Ext.isNinf]

/-- **`_check_action_feasibility`, product form**: accepts iff every row of `R` has an entry
    `> -inf`; otherwise reports the first row that is entirely `-inf`. -/
theorem checkFeasibleProd_spec (R : List (List (Ext K))) :
    (checkFeasibleProd R = .ok () ↔ ∀ i, i < R.length → ∃ r ∈ R.getD i [], r ≠ .ninf) ∧
    (∀ e, checkFeasibleProd R = .error e →
      ∃ s, s < R.length ∧ e = .reward s ∧ (∀ r ∈ R.getD s [], r = .ninf) ∧
        ∀ i, i < s → ∃ r ∈ R.getD i [], r ≠ .ninf) := by
  unfold checkFeasibleProd
  have hall : ∀ i, ((R.getD i []).all Ext.isNinf = true) ↔ ∀ r ∈ R.getD i [], r = .ninf := by
    intro i
    rw [List.all_eq_true]
    exact forall₂_congr fun r _ => isNinf_iff r
  have hnall : ∀ i, ((R.getD i []).all Ext.isNinf = false) ↔ ∃ r ∈ R.getD i [], r ≠ .ninf := by
    intro i
    rw [← Bool.not_eq_true, hall]
    push Not
    rfl
  cases h : firstIdx R.length (fun i => (R.getD i []).all Ext.isNinf) with
  | some s =>
    obtain ⟨hs, hp, hbefore⟩ := firstIdx_some _ _ _ h
    simp only
    constructor
    · constructor
      · intro h'; cases h'
      · intro h'
        obtain ⟨r, hr, hne⟩ := h' s hs
        exact absurd ((hall s).mp hp r hr) hne
    · intro e he
      cases he
      exact ⟨s, hs, rfl, (hall s).mp hp, fun i hi => (hnall i).mp (hbefore i hi)⟩
  | none =>
    rw [firstIdx_none_iff] at h
    simp only
    constructor
    · constructor
      · intro _ i hi; exact (hnall i).mp (h i hi)
      · intro _; trivial
    · intro e he; cases he

end
end QE.C09
