/-
  C07 helper lemmas, part 15: the update in closed-loop ("policy evaluation") form, and the
  elimination of the cross term `N` by the change of control `v = u + Q⁻¹N x`.
-/
import QEProofs.Lemmas.C07Alg

namespace QE.C07
open Matrix

variable {K : Type} [CommRing K] {n k : ℕ}

/-- `R − S2'F + βA'PA = R − F'N − N'F + F'QF + β(A−BF)'P(A−BF)` when `S1 F = S2` -/
theorem closed_loop_form (A P R : Matrix (Fin n) (Fin n) K) (B : Matrix (Fin n) (Fin k) K)
    (Q S1 : Matrix (Fin k) (Fin k) K) (N S2 F : Matrix (Fin k) (Fin n) K) (β : K)
    (hP : Pᵀ = P) (hQ : Qᵀ = Q)
    (hS1 : S1 = Q + β • (Bᵀ * (P * B))) (hS2 : S2 = β • (Bᵀ * (P * A)) + N) (hF : S1 * F = S2) :
    R - S2ᵀ * F + β • (Aᵀ * (P * A))
      = R - Fᵀ * N - Nᵀ * F + Fᵀ * Q * F + β • ((A - B * F)ᵀ * P * (A - B * F)) := by
  have h := complete_square A P R B Q S1 N S2 F β (1 : Matrix (Fin n) (Fin n) K) (-F) hP hQ hS1 hS2 hF
  simp only [transpose_one, Matrix.one_mul, Matrix.mul_one, neg_add_cancel, transpose_zero, Matrix.zero_mul,
    add_zero, transpose_neg, Matrix.neg_mul, Matrix.mul_neg, neg_neg] at h
  rw [← h]
  have e : A + -(B * F) = A - B * F := by abel
  rw [e]
  abel

/-- the quadratic terms of the problem with cross term, in the shifted control `F0 = F − Qi N` -/
theorem cross_term_shift (R : Matrix (Fin n) (Fin n) K) (Q Qi : Matrix (Fin k) (Fin k) K)
    (N F : Matrix (Fin k) (Fin n) K) (hQ : Qᵀ = Q) (hQi1 : Q * Qi = 1) (hQi2 : Qi * Q = 1) :
    (R - Nᵀ * Qi * N) + (F - Qi * N)ᵀ * Q * (F - Qi * N) = R - Fᵀ * N - Nᵀ * F + Fᵀ * Q * F := by
  have hQit : Qiᵀ = Qi := by
    have h1 : Qiᵀ * Q = 1 := by
      have := congrArg transpose hQi1
      rw [transpose_mul, hQ, transpose_one] at this
      exact this
    calc Qiᵀ = Qiᵀ * (Q * Qi) := by rw [hQi1, Matrix.mul_one]
      _ = (Qiᵀ * Q) * Qi := by rw [Matrix.mul_assoc]
      _ = Qi := by rw [h1, Matrix.one_mul]
  have c1 : ∀ X : Matrix (Fin k) (Fin n) K, Q * (Qi * X) = X := fun X => by
    rw [← Matrix.mul_assoc, hQi1, Matrix.one_mul]
  have c2 : ∀ X : Matrix (Fin k) (Fin n) K, Qi * (Q * X) = X := fun X => by
    rw [← Matrix.mul_assoc, hQi2, Matrix.one_mul]
  simp only [transpose_sub, transpose_mul, hQit, Matrix.sub_mul, Matrix.mul_sub, Matrix.mul_assoc, c1, c2]
  abel

end QE.C07
