/-
  Lemmas for C20, part 5: `searchsorted(side='right')` as used by the logit choice.
-/
import Mathlib.Algebra.Order.Ring.Defs
import Mathlib.Tactic.Linarith
import QEModel.C20
namespace QE.C20

section order
variable {K : Type} [LinearOrder K]

theorem searchRightK_cons (x : K) (xs : List K) (v : K) :
    searchRight (x :: xs) v = if x ≤ v then searchRight xs v + 1 else 0 := by
  unfold searchRight
  by_cases h : x ≤ v <;> simp [h]

theorem searchRight_le_length (a : List K) (v : K) : searchRight a v ≤ a.length := by
  induction a with
  | nil => simp [searchRight]
  | cons x xs ih => rw [searchRightK_cons]; split <;> simp; omega

/-- the search stops inside the array as soon as the last entry exceeds `v` -/
theorem searchRight_lt_of_lt_last (a : List K) (v : K) (h : a ≠ []) (hv : v < a.getLast h) :
    searchRight a v < a.length := by
  induction a with
  | nil => exact absurd rfl h
  | cons x xs ih =>
    rw [searchRightK_cons]
    split
    · rename_i hx
      cases xs with
      | nil => simp at hv; exact absurd hx (not_le.2 hv)
      | cons y ys =>
        have := ih (by simp) (by simpa using hv)
        simp at this ⊢; omega
    · simp

variable [Zero K]

/-- what the returned index means: everything before it is `≤ v`, the entry at it (if any) is `> v`.
    On a non-decreasing array this is exactly the `side='right'` insertion point. -/
theorem searchRight_spec (a : List K) (v : K) :
    (∀ j, j < searchRight a v → a.getD j 0 ≤ v) ∧
    (searchRight a v < a.length → v < a.getD (searchRight a v) 0) := by
  induction a with
  | nil => simp [searchRight]
  | cons x xs ih =>
    rw [searchRightK_cons]
    split
    · rename_i hx
      refine ⟨?_, ?_⟩
      · intro j hj
        cases j with
        | zero => simpa using hx
        | succ j => simpa using ih.1 j (by omega)
      · intro hl
        simpa using ih.2 (by simpa using hl)
    · rename_i hx
      exact ⟨by intro j hj; omega, by intro _; simpa using not_le.1 hx⟩

end order

section ring
variable {K : Type} [CommRing K] [LinearOrder K] [IsStrictOrderedRing K]

/-- **inverse-CDF choice is in range**: for a non-empty cdf with positive last entry and a uniform
    `0 ≤ u < 1`, `searchsorted(cdf, u·cdf[-1], 'right') < len(cdf)`.  (Real arithmetic; for doubles
    the inequality `fl(u·c) < c` for `u ≤ 1−2⁻⁵³` is the IEEE fact exercised by the harness.) -/
theorem logitChoice_lt (cdf : List K) (u : K) (h : cdf ≠ []) (hpos : 0 < cdf.getLast h) (hu : u < 1) :
    logitChoice cdf u < cdf.length := by
  unfold logitChoice
  apply searchRight_lt_of_lt_last cdf _ h
  rw [List.getLastD_eq_getLast?, List.getLast?_eq_some_getLast h, Option.getD_some]
  exact mul_lt_of_lt_one_left hpos hu

end ring
end QE.C20
