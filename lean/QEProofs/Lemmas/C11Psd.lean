/-
  Positive semidefinite `M`: a secondary ray with `z`-component and positive artificial
  level certifies infeasibility (Farkas-type argument of Lemke / Cottle–Dantzig).
-/
import QEProofs.Lemmas.C11Ray
import Mathlib.Tactic.FieldSimp

namespace QE.C11
open QE QE.Pivot Finset
set_option linter.unusedVariables false
set_option linter.unusedSectionVars false

variable {K : Type} [Field K] [LinearOrder K] [IsStrictOrderedRing K]

/-- the bilinear form `uᵀ M y` on the first `n` coordinates -/
def bil (n : ℕ) (Mm : ℕ → ℕ → K) (u y : ℕ → K) : K :=
  ∑ i ∈ range n, u i * ∑ j ∈ range n, Mm i j * y j

/-- `M` is positive semidefinite (not necessarily symmetric): `yᵀ M y ≥ 0` -/
def PSD (n : ℕ) (Mm : ℕ → ℕ → K) : Prop := ∀ y : ℕ → K, 0 ≤ bil n Mm y y

omit [LinearOrder K] [IsStrictOrderedRing K] in
theorem bil_aux (n : ℕ) (y u A B : ℕ → K) (t : K) :
    ∑ i ∈ range n, (y i + t * u i) * (A i + t * B i)
      = ∑ i ∈ range n, y i * A i + t * (∑ i ∈ range n, u i * A i + ∑ i ∈ range n, y i * B i)
        + t * t * ∑ i ∈ range n, u i * B i := by
  simp only [Finset.mul_sum, ← Finset.sum_add_distrib]
  apply Finset.sum_congr rfl
  intro i _; ring

omit [LinearOrder K] [IsStrictOrderedRing K] in
theorem bil_add_smul (n : ℕ) (Mm : ℕ → ℕ → K) (y u : ℕ → K) (t : K) :
    bil n Mm (fun i => y i + t * u i) (fun i => y i + t * u i)
      = bil n Mm y y + t * (bil n Mm u y + bil n Mm y u) + t * t * bil n Mm u u := by
  unfold bil
  have inner : ∀ i, ∑ j ∈ range n, Mm i j * (y j + t * u j)
      = ∑ j ∈ range n, Mm i j * y j + t * ∑ j ∈ range n, Mm i j * u j := by
    intro i
    rw [Finset.mul_sum, ← Finset.sum_add_distrib]
    apply Finset.sum_congr rfl
    intro j _; ring
  simp only [inner]
  exact bil_aux n y u (fun i => ∑ j ∈ range n, Mm i j * y j) (fun i => ∑ j ∈ range n, Mm i j * u j) t

/-- for a PSD form, `yᵀMy = 0` forces `uᵀMy + yᵀMu = 0` for every `u` -/
theorem psd_cross_zero (n : ℕ) (Mm : ℕ → ℕ → K) (hpsd : PSD n Mm) (y : ℕ → K)
    (hy : bil n Mm y y = 0) (u : ℕ → K) : bil n Mm u y + bil n Mm y u = 0 := by
  set b := bil n Mm u y + bil n Mm y u with hb
  set a := bil n Mm u u with ha
  have ha0 : 0 ≤ a := hpsd u
  have hs : 0 < 1 + a := by linarith
  have h := hpsd (fun i => y i + (-b / (1 + a)) * u i)
  rw [bil_add_smul, hy, ← hb, ← ha] at h
  have e : 0 + -b / (1 + a) * b + -b / (1 + a) * (-b / (1 + a)) * a
      = - (b * b) / ((1 + a) * (1 + a)) := by
    field_simp
    ring
  rw [e] at h
  have h2 : 0 ≤ -(b * b) := by
    have hpos : 0 < (1 + a) * (1 + a) := mul_pos hs hs
    have := mul_nonneg h (le_of_lt hpos)
    rwa [div_mul_cancel₀ _ (ne_of_gt hpos)] at this
  have h3 : b * b = 0 := le_antisymm (by linarith) (mul_self_nonneg b)
  exact mul_self_eq_zero.mp h3

/-- the basic solution satisfies `w = Mz + q + d z₀` -/
theorem basicSol_init {n : ℕ} {T : M K} {basis : ℕ → ℕ} (Mm : ℕ → ℕ → K) (q d : ℕ → K)
    (h : Inv1 n (initTableau n Mm q d) T basis) (i : ℕ) (hi : i < n) :
    basicSol n T basis i = ∑ j ∈ range n, Mm i j * basicSol n T basis (n + j) + q i
      + d i * basicSol n T basis (2 * n) := by
  have hrows : RowsSat T (basicSol n T basis) n := fun k hk => basicSol_rowSat h k hk
  have h0 := (h.equiv _).mp hrows i hi
  rw [init_rowSat n Mm q d _ i hi] at h0
  linarith

/-- **PSD, Farkas-type certificate.** At a tableau whose non-basic column `c` has no positive
    entry, if the direction has a non-zero `z` part and the artificial variable is at a positive
    level, then `{z ≥ 0, Mz + q ≥ 0}` is empty. -/
theorem ray_psd_infeasible {n : ℕ} {T : M K} {basis : ℕ → ℕ} {c : ℕ} (hn : 0 < n)
    (Mm : ℕ → ℕ → K) (q d : ℕ → K) (hd : ∀ i, i < n → 0 < d i) (hpsd : PSD n Mm)
    (h : Inv1 n (initTableau n Mm q d) T basis) (hf : Feas n T) (he : Enter n basis c)
    (hc : c < 2 * n) (hcol : ∀ k, k < n → T.get k c ≤ 0)
    (hA : ∃ j, j < n ∧ rayDir n T basis c (n + j) ≠ 0) (hB : 0 < basicSol n T basis (2 * n)) :
    ¬ ∃ z : ℕ → K, (∀ j, j < n → 0 ≤ z j) ∧
      (∀ i, i < n → 0 ≤ ∑ j ∈ range n, Mm i j * z j + q i) := by
  rintro ⟨z, hz0, hzw⟩
  have hnn := rayDir_nonneg (basis := basis) hcol
  have hxnn := basicSol_nonneg (basis := basis) hf
  set zh : ℕ → K := fun j => rayDir n T basis c (n + j) with hzh
  set zs : ℕ → K := fun j => basicSol n T basis (n + j) with hzs
  -- zhᵀ d > 0
  have hzd : 0 < ∑ i ∈ range n, zh i * d i := by
    obtain ⟨j0, hj0, hne⟩ := hA
    apply Finset.sum_pos'
    · intro i hi; exact mul_nonneg (hnn _) (le_of_lt (hd i (mem_range.mp hi)))
    · exact ⟨j0, mem_range.mpr hj0,
        mul_pos (lt_of_le_of_ne (hnn _) (Ne.symm hne)) (hd j0 hj0)⟩
  -- quadratic form of the direction
  have equad : bil n Mm zh zh = - (∑ i ∈ range n, zh i * d i) * rayDir n T basis c (2 * n) := by
    unfold bil
    have : ∀ i ∈ range n, zh i * ∑ j ∈ range n, Mm i j * zh j
        = - (zh i * d i * rayDir n T basis c (2 * n)) := by
      intro i hi
      have hi' := mem_range.mp hi
      have e1 := rayDir_initHom Mm q d h he i hi'
      have e2 := rayDir_compl hn h he hc i hi'
      have e3 : ∑ j ∈ range n, Mm i j * zh j
          = rayDir n T basis c i - d i * rayDir n T basis c (2 * n) := by
        simp only [hzh]; linarith
      rw [e3, mul_sub]
      simp only [hzh]
      rw [e2]; ring
    rw [Finset.sum_congr rfl this, Finset.sum_neg_distrib, neg_mul, Finset.sum_mul]
  have hq0 : 0 ≤ bil n Mm zh zh := hpsd zh
  have hr0 : rayDir n T basis c (2 * n) = 0 := by
    have h1 : 0 ≤ (∑ i ∈ range n, zh i * d i) * rayDir n T basis c (2 * n) :=
      mul_nonneg (le_of_lt hzd) (hnn _)
    have h2 : (∑ i ∈ range n, zh i * d i) * rayDir n T basis c (2 * n) = 0 := by
      rw [equad] at hq0; linarith
    rcases mul_eq_zero.mp h2 with e | e
    · exact absurd e (ne_of_gt hzd)
    · exact e
  have hqq : bil n Mm zh zh = 0 := by rw [equad, hr0, mul_zero]
  -- wh = M zh
  have hwh : ∀ i, i < n → ∑ j ∈ range n, Mm i j * zh j = rayDir n T basis c i := by
    intro i hi
    have e1 := rayDir_initHom Mm q d h he i hi
    rw [hr0, mul_zero, add_zero] at e1
    exact e1.symm
  have hbil_u : ∀ u : ℕ → K, bil n Mm u zh = ∑ i ∈ range n, u i * rayDir n T basis c i := by
    intro u
    unfold bil
    apply Finset.sum_congr rfl
    intro i hi
    rw [hwh i (mem_range.mp hi)]
  have hcross := psd_cross_zero n Mm hpsd zh hqq
  -- splitting `zhᵀ(M u + q + d·s)`
  have split : ∀ (u : ℕ → K) (s : K),
      ∑ i ∈ range n, zh i * (∑ j ∈ range n, Mm i j * u j + q i + d i * s)
        = bil n Mm zh u + ∑ i ∈ range n, zh i * q i + (∑ i ∈ range n, zh i * d i) * s := by
    intro u s
    unfold bil
    rw [Finset.sum_mul, ← Finset.sum_add_distrib, ← Finset.sum_add_distrib]
    apply Finset.sum_congr rfl
    intro i _; ring
  -- zhᵀ q < 0 from the basic solution
  have hneg : ∑ i ∈ range n, zh i * q i < 0 := by
    have e0 : ∑ i ∈ range n, zh i * basicSol n T basis i = 0 := by
      apply Finset.sum_eq_zero
      intro i hi
      have hi' := mem_range.mp hi
      rcases ray_support hn h he hc i hi' with h1 | h1
      · rw [basicSol_eq_zero i h1.2, mul_zero]
      · simp only [hzh]; rw [rayDir_eq_zero (n + i) h1.1 h1.2, zero_mul]
    have e1 : ∑ i ∈ range n, zh i * basicSol n T basis i
        = ∑ i ∈ range n, zh i * (∑ j ∈ range n, Mm i j * zs j + q i
            + d i * basicSol n T basis (2 * n)) := by
      apply Finset.sum_congr rfl
      intro i hi
      rw [basicSol_init Mm q d h i (mem_range.mp hi)]
    rw [e1, split zs] at e0
    have e2 : bil n Mm zs zh = 0 := by
      rw [hbil_u zs]
      apply Finset.sum_eq_zero
      intro i hi
      have hi' := mem_range.mp hi
      rcases ray_support hn h he hc i hi' with h1 | h1
      · rw [rayDir_eq_zero i h1.1 h1.2, mul_zero]
      · simp only [hzs]; rw [basicSol_eq_zero (n + i) h1.2, zero_mul]
    have e3 := hcross zs
    rw [e2, zero_add] at e3
    rw [e3, zero_add] at e0
    have : 0 < (∑ i ∈ range n, zh i * d i) * basicSol n T basis (2 * n) := mul_pos hzd hB
    linarith
  -- zhᵀ q ≥ 0 from the feasible point
  have hpos : 0 ≤ ∑ i ∈ range n, zh i * q i := by
    have e0 : 0 ≤ ∑ i ∈ range n, zh i * (∑ j ∈ range n, Mm i j * z j + q i + d i * 0) := by
      apply Finset.sum_nonneg
      intro i hi
      rw [mul_zero, add_zero]
      exact mul_nonneg (hnn _) (hzw i (mem_range.mp hi))
    rw [split z 0, mul_zero, add_zero] at e0
    have e2 : 0 ≤ bil n Mm z zh := by
      rw [hbil_u z]
      apply Finset.sum_nonneg
      intro i hi
      exact mul_nonneg (hz0 i (mem_range.mp hi)) (hnn _)
    have e3 := hcross z
    linarith
  linarith

end QE.C11
