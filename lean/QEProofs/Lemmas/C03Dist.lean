/-
  Lemmas for C03, part 8: the queue BFS assigns shortest-path distances (levels never decrease along
  the queue, every edge out of a processed node ends at most one level deeper).
-/
import QEProofs.Lemmas.C03Bfs
namespace QE.C03

/-- levels never decrease along the queue -/
def Mono (vis : Vis) : Prop :=
  ∀ (a b : Nat) (ea eb : Nat × Option Nat × Nat), a ≤ b → vis[a]? = some ea → vis[b]? = some eb → ea.2.2 ≤ eb.2.2

def Bound (vis : Vis) (m : Nat) : Prop := ∀ e, e ∈ vis → e.2.2 ≤ m

/-- the first `i` queue entries are processed: each successor has an entry at most one level deeper -/
def EdgeOK (g : G) (i : Nat) (vis : Vis) : Prop :=
  ∀ j, j < i → ∀ e, vis[j]? = some e → ∀ v, v ∈ g.out e.1 →
    ∃ e', e' ∈ vis ∧ e'.1 = v ∧ e'.2.2 ≤ e.2.2 + 1

theorem mono_append (vis : Vis) (x : Nat × Option Nat × Nat) (hm : Mono vis) (hb : Bound vis x.2.2) :
    Mono (vis ++ [x]) := by
  intro a b ea eb hab ha hbb
  by_cases hbl : b < vis.length
  · rw [List.getElem?_append_left hbl] at hbb
    rw [List.getElem?_append_left (by omega)] at ha
    exact hm a b ea eb hab ha hbb
  · have hbe : b = vis.length := by
      by_contra hc
      rw [List.getElem?_eq_none (by simp; omega)] at hbb
      cases hbb
    subst hbe
    rw [List.getElem?_append_right (le_refl _)] at hbb
    simp only [Nat.sub_self, List.getElem?_cons_zero, Option.some.injEq] at hbb
    subst hbb
    by_cases hal : a < vis.length
    · rw [List.getElem?_append_left hal] at ha
      exact hb ea (List.mem_of_getElem? ha)
    · have hae : a = vis.length := by omega
      subst hae
      rw [List.getElem?_append_right (le_refl _)] at ha
      simp only [Nat.sub_self, List.getElem?_cons_zero, Option.some.injEq] at ha
      subst ha
      exact le_refl _

theorem bfsVisit_mono (u lu : Nat) (vs : List Nat) (vis : Vis) (hm : Mono vis) (hb : Bound vis (lu + 1)) :
    Mono (bfsVisit vis u lu vs) ∧ Bound (bfsVisit vis u lu vs) (lu + 1) := by
  induction vs generalizing vis with
  | nil => simpa [bfsVisit] using ⟨hm, hb⟩
  | cons v vs ih =>
    unfold bfsVisit
    split
    · exact ih vis hm hb
    · apply ih
      · exact mono_append vis _ hm hb
      · intro e he
        rcases List.mem_append.1 he with h | h
        · exact hb e h
        · simp only [List.mem_singleton] at h
          subst h
          exact le_refl _

theorem bfsLoop_edgeOK (g : G) (hwf : g.wf = true) (fuel i : Nat) (vis : Vis)
    (hinv : VisInv g vis) (hil : i ≤ vis.length) (hm : Mono vis)
    (hb : ∀ e, vis[i]? = some e → Bound vis (e.2.2 + 1)) (hok : EdgeOK g i vis)
    (hfuel : i + fuel = g.n) :
    EdgeOK g (bfsLoop g fuel i vis).length (bfsLoop g fuel i vis) := by
  induction fuel generalizing i vis with
  | zero =>
    unfold bfsLoop
    have hle := vis_length_le g vis hinv
    have : i = vis.length := by omega
    rw [← this]; exact hok
  | succ fuel ih =>
    unfold bfsLoop
    split
    · rename_i hnone
      have : vis.length ≤ i := List.getElem?_eq_none_iff.1 hnone
      have : i = vis.length := by omega
      rw [← this]; exact hok
    · rename_i e he
      have hmem : e ∈ vis := List.mem_of_getElem? he
      have hinv' : VisInv g (bfsVisit vis e.1 e.2.2 (g.out e.1)) :=
        bfsVisit_inv g e.1 e.2.2 (g.out e.1) vis hinv ⟨e.2.1, hmem⟩
          (fun v hv => ⟨hv, (E_lt g hwf hv).2⟩)
      obtain ⟨t, ht⟩ := bfsVisit_prefix e.1 e.2.2 (g.out e.1) vis
      have hilt : i < vis.length := (List.getElem?_eq_some_iff.1 he).1
      obtain ⟨hm', hb'⟩ := bfsVisit_mono e.1 e.2.2 (g.out e.1) vis hm (hb e he)
      have hri : (bfsVisit vis e.1 e.2.2 (g.out e.1))[i]? = some e := by
        rw [ht, List.getElem?_append_left hilt]; exact he
      apply ih (i + 1) _ hinv' (by rw [ht, List.length_append]; omega) hm'
      · intro e2 he2 x hx
        have h1 := hb' x hx
        have h2 := hm' i (i + 1) e e2 (by omega) hri he2
        omega
      · intro j hj e' he' v hv
        have hjlt : j < vis.length := by omega
        have he'' : vis[j]? = some e' := by
          rw [ht, List.getElem?_append_left hjlt] at he'; exact he'
        by_cases hji : j < i
        · obtain ⟨x, hx, hxv, hxl⟩ := hok j hji e' he'' v hv
          exact ⟨x, by rw [ht]; exact List.mem_append_left _ hx, hxv, hxl⟩
        · have : j = i := by omega
          subst this
          rw [he] at he''
          cases he''
          have hvis := bfsVisit_visits e.1 e.2.2 (g.out e.1) vis v hv
          unfold visited at hvis
          cases hl : visLookup (bfsVisit vis e.1 e.2.2 (g.out e.1)) v with
          | none => rw [hl] at hvis; simp at hvis
          | some x =>
            obtain ⟨hxm, hxv⟩ := mem_of_visLookup _ v x hl
            exact ⟨x, hxm, hxv, hb' x hxm⟩
      · omega

/-- every stored edge out of a visited node leads to a node at most one level deeper -/
theorem bfs_edge_level (g : G) (hwf : g.wf = true) (hn : 0 < g.n)
    (e : Nat × Option Nat × Nat) (he : e ∈ bfs g) (v : Nat) (hv : v ∈ g.out e.1) :
    ∃ e', e' ∈ bfs g ∧ e'.1 = v ∧ e'.2.2 ≤ e.2.2 + 1 := by
  have h0 : Mono [((0 : Nat), (none : Option Nat), (0 : Nat))] := by
    intro a b ea eb _ ha hb
    have ha' : a = 0 := by
      by_contra hc
      rw [List.getElem?_eq_none (by simp; omega)] at ha; cases ha
    have hb' : b = 0 := by
      by_contra hc
      rw [List.getElem?_eq_none (by simp; omega)] at hb; cases hb
    subst ha' hb'
    simp at ha hb
    subst ha hb
    exact le_refl _
  have hfin := bfsLoop_edgeOK g hwf g.n 0 [(0, none, 0)] (visInv_init g hn) (by simp) h0
    (by
      intro e he x hx
      simp only [List.mem_singleton] at hx
      subst hx
      exact Nat.zero_le _)
    (fun j hj => absurd hj (Nat.not_lt_zero j)) (by omega)
  obtain ⟨j, hj⟩ := List.mem_iff_getElem?.1 he
  have hjl : j < (bfs g).length := (List.getElem?_eq_some_iff.1 hj).1
  exact hfin j hjl e hj v hv

/-- the level of the end point of a walk from a visited node grows by at most the walk's length -/
theorem bfs_level_le_walk (g : G) (hwf : g.wf = true) (hn : 0 < g.n) {u w L : Nat} (hw : Walk g u w L)
    (e : Nat × Option Nat × Nat) (he : e ∈ bfs g) (heu : e.1 = u) :
    ∃ e', e' ∈ bfs g ∧ e'.1 = w ∧ e'.2.2 ≤ e.2.2 + L := by
  induction hw generalizing e with
  | nil u => exact ⟨e, he, heu, by omega⟩
  | @cons u v w L huv _ ih =>
    obtain ⟨e1, he1, h1v, h1l⟩ := bfs_edge_level g hwf hn e he v (by rw [heu]; exact huv)
    obtain ⟨e', he', hw', hl'⟩ := ih e1 he1 h1v
    exact ⟨e', he', hw', by omega⟩

end QE.C03
