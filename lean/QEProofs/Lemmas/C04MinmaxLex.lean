/-
  C04 — a readable sufficient condition for `minmax`'s start tableau to have lex-positive rows:
  the first column of the payoff matrix has a unique largest entry (then every right-hand side
  after the two hand pivots is strictly positive).
-/
import QEProofs.Lemmas.C04TermSet2
namespace QE.C04
open QE QE.Pivot Finset

variable {K : Type} [Field K] [LinearOrder K] [IsStrictOrderedRing K]

theorem mmStart_lexRowsOK (A : ℕ → ℕ → K) (m n : ℕ) (hm : 1 ≤ m) (hn : 1 ≤ n)
    (huniq : ∃ p, p < m ∧ ∀ i, i < m → i ≠ p → A i 0 < A p 0) :
    lexRowsOK (mmStart A m n) = true := by
  obtain ⟨hs2, _, _, _, _, _, _⟩ := mmStart_facts A m n hm hn
  rw [lexRowsOK_iff _ _ _ hs2]
  set T0 := mmTableau A m n with hT0
  obtain ⟨hprm, hmax⟩ := mmPivRow_spec T0 m hm
  set pr := mmPivRow T0 m with hpr
  set Ta := pivot T0 n pr with hTa
  have hT2 : mmStart A m n = pivot Ta 0 m := rfl
  have hs0 : Shape T0 (m + 1) (n + 1 + m) := mmTableau_shape A m n
  have hsa : Shape Ta (m + 1) (n + 1 + m) := shape_pivot T0 _ _ n pr hs0
  have e_struct : ∀ i, i < m → T0.get i 0 = A i 0 + mmConst A m n := by
    intro i hi
    rw [hT0, mmTableau_get A m n i 0 (by omega) (by omega), if_pos hi, if_pos (by omega)]
  have e_v : ∀ i, i < m → T0.get i n = -1 := by
    intro i hi
    rw [hT0, mmTableau_get A m n i n (by omega) (by omega), if_pos hi, if_neg (lt_irrefl _), if_pos rfl]
  have e_rhs : ∀ i, i < m → T0.get i (n + 1 + m) = 0 := by
    intro i hi
    rw [hT0, mmTableau_get A m n i _ (by omega) (by omega), if_pos hi, if_neg (by omega), if_neg (by omega),
      if_neg (by omega)]
  have e_m0 : T0.get m 0 = 1 := by
    rw [hT0, mmTableau_get A m n m 0 (by omega) (by omega), if_neg (lt_irrefl _), if_pos rfl,
      if_pos (Or.inl (by omega))]
  have e_mv : T0.get m n = 0 := by
    rw [hT0, mmTableau_get A m n m n (by omega) (by omega), if_neg (lt_irrefl _), if_pos rfl,
      if_neg (by omega)]
  have e_mrhs : T0.get m (n + 1 + m) = 1 := by
    rw [hT0, mmTableau_get A m n m _ (by omega) (by omega), if_neg (lt_irrefl _), if_pos rfl,
      if_pos (Or.inr rfl)]
  have a_m : ∀ j, j < n + 1 + m + 1 → Ta.get m j = T0.get m j := by
    intro j hj
    rw [pivot_get_i T0 n pr m j (by rw [hs0.1]; omega) (by rw [hs0.2]; exact hj) (by omega), e_mv]; ring
  have a_i0 : ∀ i, i < m → Ta.get i 0 = if i = pr then - T0.get pr 0 else T0.get i 0 - T0.get pr 0 := by
    intro i hi
    by_cases e : i = pr
    · rw [if_pos e, e, pivot_get_r T0 n pr 0 (by rw [hs0.1]; omega) (by rw [hs0.2]; omega), e_v pr hprm]; ring
    · rw [if_neg e, pivot_get_i T0 n pr i 0 (by rw [hs0.1]; omega) (by rw [hs0.2]; omega) e, e_v i hi,
        e_v pr hprm]; ring
  have a_irhs : ∀ i, i < m → Ta.get i (n + 1 + m) = 0 := by
    intro i hi
    by_cases e : i = pr
    · rw [e, pivot_get_r T0 n pr _ (by rw [hs0.1]; omega) (by rw [hs0.2]; omega), e_rhs pr hprm]; simp
    · rw [pivot_get_i T0 n pr i _ (by rw [hs0.1]; omega) (by rw [hs0.2]; omega) e, e_rhs i hi,
        e_rhs pr hprm]; simp
  -- the unique maximiser is the pivot row
  obtain ⟨p, hp, hstrict⟩ := huniq
  have hpp : pr = p := by
    by_contra hne
    have h1 := hstrict pr hprm hne
    have h2 := hmax p hp
    rw [e_struct p hp, e_struct pr hprm] at h2
    linarith
  -- every right-hand side is positive
  intro i hi
  unfold LexPos lexCols
  left
  show (0 : K) < (mmStart A m n).get i (n + 1 + m)
  by_cases h1 : i = m
  · rw [h1, hT2, pivot_get_r Ta 0 m _ (by rw [hsa.1]; omega) (by rw [hsa.2]; omega), a_m _ (by omega),
      a_m 0 (by omega), e_mrhs, e_m0]
    norm_num
  · have him : i < m := by omega
    rw [hT2, pivot_get_i Ta 0 m i _ (by rw [hsa.1]; omega) (by rw [hsa.2]; omega) h1, a_irhs i him,
      a_m _ (by omega), a_m 0 (by omega), e_mrhs, e_m0, a_i0 i him]
    have hpos := mm_pos A m n pr 0 hprm (by omega)
    rw [← e_struct pr hprm] at hpos
    by_cases e : i = pr
    · rw [if_pos e]; linarith
    · rw [if_neg e, e_struct i him, e_struct pr hprm]
      have := hstrict i him (by rw [← hpp]; exact e)
      rw [← hpp] at this
      linarith

end QE.C04
