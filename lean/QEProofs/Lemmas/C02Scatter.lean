/-
  Lemmas for C02: restriction of a stochastic matrix to a closed class and scatter of the
  class's invariant vector into a zero row (core.py:398-408) keep invariance.
-/
import QEModel.C02
import Mathlib.Algebra.BigOperators.Group.Finset.Basic
import Mathlib.Algebra.BigOperators.Ring.Finset
import Mathlib.Algebra.Field.Basic
import Mathlib.Tactic.Ring
import Mathlib.Data.List.Nodup
import Mathlib.Data.List.Range
namespace QE.C02
open Finset

set_option linter.unusedSectionVars false

section
variable {K : Type} [Field K]

theorem scatter_getD (n : ℕ) (C : List ℕ) (x : List K) (i : ℕ) :
    (scatter n C x).getD i 0 =
      if i < n then (match C.findIdx? (· == i) with | some a => x.getD a 0 | none => 0) else 0 := by
  unfold scatter
  by_cases h : i < n
  · rw [if_pos h, List.getD_eq_getElem?_getD, List.getElem?_map, List.getElem?_range h]
    rfl
  · rw [if_neg h, List.getD_eq_getElem?_getD, List.getElem?_eq_none (by simpa using h)]
    rfl

theorem scatter_notMem (n : ℕ) (C : List ℕ) (x : List K) (i : ℕ) (hi : i ∉ C) :
    (scatter n C x).getD i 0 = 0 := by
  rw [scatter_getD]
  have : C.findIdx? (· == i) = none := by
    rw [List.findIdx?_eq_none_iff]
    intro c hc
    simp only [beq_eq_false_iff_ne, ne_eq]
    intro h; exact hi (h ▸ hc)
  rw [this]; simp

theorem findIdx_nodup (C : List ℕ) (hnd : C.Nodup) (a : ℕ) (ha : a < C.length) :
    C.findIdx? (· == C[a]) = some a := by
  rw [List.findIdx?_eq_some_iff_getElem]
  refine ⟨ha, by simp, ?_⟩
  intro j hja
  simp only [beq_iff_eq]
  intro h
  have := (List.Nodup.getElem_inj_iff hnd (hi := by omega) (hj := ha)).1 h
  omega

theorem scatter_mem (n : ℕ) (C : List ℕ) (x : List K) (hnd : C.Nodup) (hC : ∀ c ∈ C, c < n)
    (a : ℕ) (ha : a < C.length) : (scatter n C x).getD (C.getD a 0) 0 = x.getD a 0 := by
  have hget : C.getD a 0 = C[a] := by simp [List.getD_eq_getElem?_getD, ha]
  rw [scatter_getD, hget, if_pos (hC _ (List.getElem_mem ha)), findIdx_nodup C hnd a ha]

theorem scatter_sum (n : ℕ) (C : List ℕ) (x : List K) (hnd : C.Nodup) (hC : ∀ c ∈ C, c < n)
    (g : ℕ → K) :
    ∑ i ∈ range n, (scatter n C x).getD i 0 * g i
      = ∑ a ∈ range C.length, x.getD a 0 * g (C.getD a 0) := by
  have hgetD : ∀ a (ha : a < C.length), C.getD a 0 = C[a] := by
    intro a ha; simp [List.getD_eq_getElem?_getD, ha]
  have hinj : ∀ a ∈ range C.length, ∀ b ∈ range C.length, C.getD a 0 = C.getD b 0 → a = b := by
    intro a ha b hb h
    have ha' := mem_range.1 ha
    have hb' := mem_range.1 hb
    rw [hgetD a ha', hgetD b hb'] at h
    exact (List.Nodup.getElem_inj_iff hnd).1 h
  have hsub : (range C.length).image (fun a => C.getD a 0) ⊆ range n := by
    intro i hi
    obtain ⟨a, ha, rfl⟩ := mem_image.1 hi
    have ha' := mem_range.1 ha
    rw [hgetD a ha']
    exact mem_range.2 (hC _ (List.getElem_mem ha'))
  rw [← sum_subset hsub]
  · rw [sum_image hinj]
    apply sum_congr rfl
    intro a ha
    rw [scatter_mem n C x hnd hC a (mem_range.1 ha)]
  · intro i _ hni
    have : i ∉ C := by
      intro hmem
      obtain ⟨a, ha, hai⟩ := List.getElem_of_mem hmem
      apply hni
      refine mem_image.2 ⟨a, mem_range.2 ha, ?_⟩
      rw [hgetD a ha, hai]
    rw [scatter_notMem n C x i this, zero_mul]

theorem scatter_invariant_aux (n : ℕ) (P : M K) (C : List ℕ) (x : List K)
    (hnd : C.Nodup) (hC : ∀ c ∈ C, c < n)
    (hclosed : ∀ c ∈ C, ∀ j, j < n → j ∉ C → P.get c j = 0)
    (hx : ∀ b, b < C.length →
      ∑ a ∈ range C.length, x.getD a 0 * (restrict P C).get a b = x.getD b 0) :
    (∀ j, j < n → ∑ i ∈ range n, (scatter n C x).getD i 0 * P.get i j = (scatter n C x).getD j 0)
    ∧ (∀ i, i ∉ C → (scatter n C x).getD i 0 = 0)
    ∧ (∀ a, a < C.length → (scatter n C x).getD (C.getD a 0) 0 = x.getD a 0) := by
  refine ⟨?_, fun i hi => scatter_notMem n C x i hi, fun a ha => scatter_mem n C x hnd hC a ha⟩
  intro j hj
  rw [scatter_sum n C x hnd hC (fun i => P.get i j)]
  have hgetD : ∀ a (ha : a < C.length), C.getD a 0 = C[a] := by
    intro a ha; simp [List.getD_eq_getElem?_getD, ha]
  by_cases hjC : j ∈ C
  · obtain ⟨b, hb, hbj⟩ := List.getElem_of_mem hjC
    have hjb : j = C.getD b 0 := by rw [hgetD b hb, hbj]
    rw [hjb, scatter_mem n C x hnd hC b hb, ← hx b hb]
    apply sum_congr rfl
    intro a ha
    unfold restrict
    rw [M.get_tab _ _ _ _ _ (mem_range.1 ha) hb]
  · rw [scatter_notMem n C x j hjC]
    apply sum_eq_zero
    intro a ha
    have ha' := mem_range.1 ha
    rw [hclosed (C.getD a 0) (by rw [hgetD a ha']; exact List.getElem_mem ha') j hj hjC, mul_zero]


/-- a sum over all states of a function vanishing outside `C` is the sum over the positions of `C` -/
theorem sum_over_class (n : ℕ) (C : List ℕ) (hnd : C.Nodup) (hC : ∀ c ∈ C, c < n) (g : ℕ → K)
    (hzero : ∀ j, j < n → j ∉ C → g j = 0) :
    ∑ j ∈ range n, g j = ∑ a ∈ range C.length, g (C.getD a 0) := by
  have hgetD : ∀ a (ha : a < C.length), C.getD a 0 = C[a] := by
    intro a ha; simp [List.getD_eq_getElem?_getD, ha]
  have hinj : ∀ a ∈ range C.length, ∀ b ∈ range C.length, C.getD a 0 = C.getD b 0 → a = b := by
    intro a ha b hb h
    have ha' := mem_range.1 ha
    have hb' := mem_range.1 hb
    rw [hgetD a ha', hgetD b hb'] at h
    exact (List.Nodup.getElem_inj_iff hnd).1 h
  have hsub : (range C.length).image (fun a => C.getD a 0) ⊆ range n := by
    intro i hi
    obtain ⟨a, ha, rfl⟩ := mem_image.1 hi
    have ha' := mem_range.1 ha
    rw [hgetD a ha']
    exact mem_range.2 (hC _ (List.getElem_mem ha'))
  rw [← sum_subset hsub]
  · rw [sum_image hinj]
  · intro i hin hni
    apply hzero i (mem_range.1 hin)
    intro hmem
    obtain ⟨a, ha, hai⟩ := List.getElem_of_mem hmem
    apply hni
    refine mem_image.2 ⟨a, mem_range.2 ha, ?_⟩
    rw [hgetD a ha, hai]

/-- row sums of `P[C,C]` equal the row sums of `P` on a closed class -/
theorem restrict_rowsum (n : ℕ) (P : M K) (C : List ℕ) (hnd : C.Nodup) (hC : ∀ c ∈ C, c < n)
    (hclosed : ∀ c ∈ C, ∀ j, j < n → j ∉ C → P.get c j = 0) (a : ℕ) (ha : a < C.length) :
    ∑ b ∈ range C.length, (restrict P C).get a b = ∑ j ∈ range n, P.get (C.getD a 0) j := by
  have hmem : C.getD a 0 ∈ C := by
    have : C.getD a 0 = C[a] := by simp [List.getD_eq_getElem?_getD, ha]
    rw [this]; exact List.getElem_mem ha
  rw [sum_over_class n C hnd hC (fun j => P.get (C.getD a 0) j) (hclosed _ hmem)]
  apply sum_congr rfl
  intro b hb
  unfold restrict
  rw [M.get_tab _ _ _ _ _ ha (mem_range.1 hb)]

theorem restrict_get (P : M K) (C : List ℕ) (a b : ℕ) (ha : a < C.length) (hb : b < C.length) :
    (restrict P C).get a b = P.get (C.getD a 0) (C.getD b 0) := by
  unfold restrict
  rw [M.get_tab _ _ _ _ _ ha hb]

/-- entries of a scattered row: a value of `x`, or 0 -/
theorem scatter_cases (n : ℕ) (C : List ℕ) (x : List K) (hnd : C.Nodup) (hC : ∀ c ∈ C, c < n) (i : ℕ) :
    (scatter n C x).getD i 0 = 0 ∨ ∃ a, a < C.length ∧ (scatter n C x).getD i 0 = x.getD a 0 := by
  by_cases hi : i ∈ C
  · obtain ⟨a, ha, hai⟩ := List.getElem_of_mem hi
    right
    refine ⟨a, ha, ?_⟩
    have : C.getD a 0 = i := by simp [List.getD_eq_getElem?_getD, ha, hai]
    rw [← this, scatter_mem n C x hnd hC a ha]
  · left; exact scatter_notMem n C x i hi

/-! ### the model's classes are duplicate-free lists of states -/

theorem classOf_nodup (n : ℕ) (R : M ℕ) (i : ℕ) : (classOf n R i).Nodup := by
  unfold classOf
  exact List.Nodup.filter _ List.nodup_range

theorem classOf_lt (n : ℕ) (R : M ℕ) (i : ℕ) : ∀ c ∈ classOf n R i, c < n := by
  intro c hc
  unfold classOf at hc
  exact List.mem_range.1 (List.mem_filter.1 hc).1

theorem recClasses_mem (n : ℕ) (R : M ℕ) (C : List ℕ) (h : C ∈ recClasses n R) :
    C.Nodup ∧ (∀ c ∈ C, c < n) ∧ C ≠ [] := by
  unfold recClasses at h
  obtain ⟨i, hi, rfl⟩ := List.mem_map.1 h
  refine ⟨classOf_nodup n R i, classOf_lt n R i, ?_⟩
  have := (List.mem_filter.1 hi).2
  intro hnil
  rw [hnil] at this
  simp at this

end
end QE.C02
