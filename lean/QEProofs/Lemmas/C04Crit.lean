/-
  C04 — `_set_criterion_row`: the Phase-2 criterion row.  On a canonical tableau
  the sequential elimination leaves the constraint rows untouched, makes the
  criterion row vanish on the basic columns (canonical form again) and makes it
  represent `c·x` on the solutions of the constraint rows.
-/
import QEProofs.Lemmas.C04Defs
import Mathlib.Algebra.BigOperators.Intervals
import Mathlib.Tactic.LinearCombination
namespace QE.C04
open QE QE.Pivot Finset

variable {K : Type} [Field K] [LinearOrder K] [IsStrictOrderedRing K]

omit [LinearOrder K] [IsStrictOrderedRing K] in
theorem getD_map_range (n : ℕ) (f : ℕ → K) (j : ℕ) (hj : j < n) :
    ((List.range n).map f).getD j 0 = f j := by
  rw [List.getD_eq_getElem?_getD, List.getElem?_map, List.getElem?_range hj]; rfl

omit [LinearOrder K] [IsStrictOrderedRing K] in
theorem critStep_getD (T : M K) (b : List ℕ) (row : List K) (i j : ℕ) (hj : j < T.nc) :
    (critStep T b row i).getD j 0 = row.getD j 0 - T.get i j * row.getD (b.getD i 0) 0 := by
  unfold critStep
  exact getD_map_range T.nc _ j hj

/-- invariant of the elimination after the rows `< q` -/
structure CritInv (T : M K) (b : List ℕ) (L N : ℕ) (obj : (ℕ → K) → K) (q : ℕ) (row : List K) : Prop where
  repr : ∀ z, RowsSat T z L → ∑ j ∈ range N, row.getD j 0 * z j - row.getD N 0 = obj z
  zero : ∀ i, i < q → row.getD (b.getD i 0) 0 = 0

omit [LinearOrder K] [IsStrictOrderedRing K] in
theorem critInv_step (T : M K) (b : List ℕ) (L N : ℕ) (obj : (ℕ → K) → K) (q : ℕ) (row : List K)
    (hs : Shape T L N) (hc : Canon T b L N) (hq : q < L) (h : CritInv T b L N obj q row) :
    CritInv T b L N obj (q + 1) (critStep T b row q) := by
  have hnc : T.nc = N + 1 := hs.2
  constructor
  · intro z hz
    have hrow := hz q hq
    unfold RowSat at hrow
    have hN : T.nc - 1 = N := by rw [hnc]; rfl
    rw [hN] at hrow
    rw [critStep_getD T b row q N (by omega)]
    have : ∀ j ∈ range N, (critStep T b row q).getD j 0 * z j
        = row.getD j 0 * z j - row.getD (b.getD q 0) 0 * (T.get q j * z j) := by
      intro j hj
      rw [critStep_getD T b row q j (by have := Finset.mem_range.mp hj; omega)]; ring
    rw [Finset.sum_congr rfl this, Finset.sum_sub_distrib, ← Finset.mul_sum, hrow]
    have := h.repr z hz
    linear_combination this
  · intro i hi
    have hbi := (hc.2 i (by omega)).1
    rw [critStep_getD T b row q _ (by omega)]
    by_cases hiq : i = q
    · subst hiq
      rw [(hc.2 i hq).2 i (by omega)]; simp
    · rw [(hc.2 i (by omega)).2 q (by omega), if_neg (fun e => hiq e.symm), h.zero i (by omega)]
      simp

omit [LinearOrder K] [IsStrictOrderedRing K] in
theorem critInv_foldl (T : M K) (b : List ℕ) (L N : ℕ) (obj : (ℕ → K) → K) (row0 : List K)
    (hs : Shape T L N) (hc : Canon T b L N) (h0 : CritInv T b L N obj 0 row0) :
    ∀ q, q ≤ L → CritInv T b L N obj q ((List.range q).foldl (critStep T b) row0) := by
  intro q
  induction q with
  | zero => intro _; simpa using h0
  | succ q ih =>
    intro hq
    rw [List.range_succ, List.foldl_append]
    exact critInv_step T b L N obj q _ hs hc (by omega) (ih (by omega))

omit [LinearOrder K] [IsStrictOrderedRing K] in
/-- the starting row `(c, 0, …, 0 | 0)` represents `c·x` -/
theorem critInv_init (T : M K) (b : List ℕ) (L N n : ℕ) (c : ℕ → K) (hs : Shape T L N) (hn : n ≤ N) :
    CritInv T b L N (fun z => ∑ j ∈ range n, c j * z j) 0
      ((List.range T.nc).map fun j => if j < n then c j else 0) := by
  have hnc : T.nc = N + 1 := hs.2
  constructor
  · intro z _
    rw [getD_map_range T.nc _ N (by omega)]
    have hN : ¬ N < n := by omega
    rw [if_neg hN, sub_zero]
    have : ∀ j ∈ range N, ((List.range T.nc).map fun j => if j < n then c j else 0).getD j 0 * z j
        = if j < n then c j * z j else 0 := by
      intro j hj
      rw [getD_map_range T.nc _ j (by have := Finset.mem_range.mp hj; omega)]
      split_ifs <;> simp
    rw [Finset.sum_congr rfl this]
    obtain ⟨d, rfl⟩ := Nat.exists_eq_add_of_le hn
    rw [Finset.sum_range_add]
    have h1 : ∀ j ∈ range n, (if j < n then c j * z j else 0) = c j * z j := by
      intro j hj; rw [if_pos (Finset.mem_range.mp hj)]
    have h2 : ∀ j ∈ range d, (if n + j < n then c (n + j) * z (n + j) else 0) = 0 := by
      intro j _; rw [if_neg (by omega)]
    rw [Finset.sum_congr rfl h1, Finset.sum_congr rfl h2]
    simp
  · intro i hi; omega

omit [LinearOrder K] [IsStrictOrderedRing K] in
theorem setCriterionRow_get_row (c : ℕ → K) (n : ℕ) (b : List ℕ) (T : M K) (L N i j : ℕ)
    (hs : Shape T L N) (hi : i < L) (hj : j < N + 1) :
    (setCriterionRow c n b T).get i j = T.get i j := by
  unfold setCriterionRow
  simp only
  rw [M.get_tab _ _ _ _ _ (by rw [hs.1]; omega) (by rw [hs.2]; exact hj)]
  have : ¬ i = T.nr - 1 := by rw [hs.1]; simp; omega
  rw [if_neg this]

omit [LinearOrder K] [IsStrictOrderedRing K] in
theorem setCriterionRow_get_crit (c : ℕ → K) (n : ℕ) (b : List ℕ) (T : M K) (L N j : ℕ)
    (hs : Shape T L N) (hj : j < N + 1) :
    (setCriterionRow c n b T).get L j = (critRow c n b T).getD j 0 := by
  unfold setCriterionRow
  simp only
  rw [M.get_tab _ _ _ _ _ (by rw [hs.1]; omega) (by rw [hs.2]; exact hj)]
  have : L = T.nr - 1 := by rw [hs.1]; rfl
  rw [if_pos this]

omit [LinearOrder K] [IsStrictOrderedRing K] in
theorem setCriterionRow_shape (c : ℕ → K) (n : ℕ) (b : List ℕ) (T : M K) (L N : ℕ)
    (hs : Shape T L N) : Shape (setCriterionRow c n b T) L N := hs

omit [LinearOrder K] [IsStrictOrderedRing K] in
/-- the constraint rows — hence their solution set — are untouched -/
theorem setCriterionRow_rowsSat (c : ℕ → K) (n : ℕ) (b : List ℕ) (T : M K) (L N : ℕ)
    (hs : Shape T L N) (z : ℕ → K) :
    RowsSat (setCriterionRow c n b T) z L ↔ RowsSat T z L := by
  have hN : T.nc - 1 = N := by rw [hs.2]; rfl
  have hN' : (setCriterionRow c n b T).nc - 1 = N := hN
  have key : ∀ i, i < L → (RowSat (setCriterionRow c n b T) z i ↔ RowSat T z i) := by
    intro i hi
    unfold RowSat
    rw [hN, hN', setCriterionRow_get_row c n b T L N i N hs hi (by omega)]
    have : ∀ j ∈ range N, (setCriterionRow c n b T).get i j * z j = T.get i j * z j := by
      intro j hj
      rw [setCriterionRow_get_row c n b T L N i j hs hi (by have := Finset.mem_range.mp hj; omega)]
    rw [Finset.sum_congr rfl this]
  constructor
  · intro h i hi; exact (key i hi).mp (h i hi)
  · intro h i hi; exact (key i hi).mpr (h i hi)

omit [LinearOrder K] [IsStrictOrderedRing K] in
/-- **`_set_criterion_row` is sound**: canonical form is restored and the new criterion row
    represents `c·x` on the solutions of the constraint rows -/
theorem setCriterionRow_spec (c : ℕ → K) (n : ℕ) (b : List ℕ) (T : M K) (L N : ℕ)
    (hs : Shape T L N) (hc : Canon T b L N) (hn : n ≤ N) :
    Canon (setCriterionRow c n b T) b L N ∧
    ∀ z, RowsSat (setCriterionRow c n b T) z L →
      resid (setCriterionRow c n b T) z L = ∑ j ∈ range n, c j * z j := by
  have hL : T.nr - 1 = L := by rw [hs.1]; rfl
  have hN : T.nc - 1 = N := by rw [hs.2]; rfl
  have hinv : CritInv T b L N (fun z => ∑ j ∈ range n, c j * z j) L (critRow c n b T) := by
    unfold critRow
    rw [hL]
    exact critInv_foldl T b L N _ _ hs hc (critInv_init T b L N n c hs hn) L (le_refl _)
  constructor
  · refine ⟨hc.1, ?_⟩
    intro i hi
    refine ⟨(hc.2 i hi).1, ?_⟩
    intro i' hi'
    by_cases h : i' < L
    · rw [setCriterionRow_get_row c n b T L N i' _ hs h (by have := (hc.2 i hi).1; omega)]
      exact (hc.2 i hi).2 i' hi'
    · have : i' = L := by omega
      subst this
      rw [setCriterionRow_get_crit c n b T i' N _ hs (by have := (hc.2 i hi).1; omega),
        hinv.zero i hi, if_neg (by omega)]
  · intro z hz
    have hzT := (setCriterionRow_rowsSat c n b T L N hs z).mp hz
    unfold resid
    have hN' : (setCriterionRow c n b T).nc - 1 = N := hN
    rw [hN', setCriterionRow_get_crit c n b T L N N hs (by omega)]
    have : ∀ j ∈ range N, (setCriterionRow c n b T).get L j * z j = (critRow c n b T).getD j 0 * z j := by
      intro j hj
      rw [setCriterionRow_get_crit c n b T L N j hs (by have := Finset.mem_range.mp hj; omega)]
    rw [Finset.sum_congr rfl this]
    exact hinv.repr z hzT

end QE.C04
