/-
  Lemmas for C08, part 6: the Legendre three-term recurrence of `_qnwlege1` as a function of `n`;
  weights of qnwunif / qnwequi.
-/
import QEProofs.Lemmas.C08Basic
namespace QE.C08
open Finset

set_option linter.unusedSectionVars false

variable {K : Type} [Field K] [LinearOrder K] [IsStrictOrderedRing K]

/-- Legendre polynomials by Bonnet's recurrence
    `(n+2) P_{n+2}(z) = (2n+3) z P_{n+1}(z) − (n+1) P_n(z)`, `P_0 = 1`, `P_1 = z`. -/
def legendreP (z : K) : Nat → K
  | 0 => 1
  | 1 => z
  | n + 2 => (((2 * n + 3 : Nat) : K) * z * legendreP z (n + 1) - ((n + 1 : Nat) : K) * legendreP z n)
      / ((n + 2 : Nat) : K)

/-- loop invariant of `for j in range(1, n+1)`: entering iteration `j = k+1` with
    `(p1, p2) = (P_k, P_{k-1})` and `rem` iterations to go, the loop ends with
    `(P_{k+rem}, P_{k+rem-1})`. -/
theorem legeLoop_spec (z : K) : ∀ (rem k : Nat),
    legeLoop z rem (k + 1 + 1) (legendreP z (k + 1)) (legendreP z k)
      = (legendreP z (k + 1 + rem), legendreP z (k + rem)) := by
  intro rem
  induction rem with
  | zero => intro k; simp [legeLoop]
  | succ rem ih =>
    intro k
    rw [legeLoop]
    have e : (((2 * (k + 1 + 1) - 1 : Nat) : K) * z * legendreP z (k + 1)
        - ((k + 1 + 1 - 1 : Nat) : K) * legendreP z k) / ((k + 1 + 1 : Nat) : K) = legendreP z (k + 2) := by
      rw [legendreP]
      have h1 : 2 * (k + 1 + 1) - 1 = 2 * k + 3 := by omega
      have h2 : k + 1 + 1 - 1 = k + 1 := by omega
      rw [h1, h2]
    rw [e, ih (k + 1)]
    congr 2 <;> omega

theorem legeP_zero (z : K) : legeP 0 z = (1, 0) := by simp [legeP, legeLoop]

/-- `legeP (n+1) z = (P_{n+1}(z), P_n(z))`: the pair the Newton step of `_qnwlege1` uses -/
theorem legeP_succ (z : K) (n : Nat) : legeP (n + 1) z = (legendreP z (n + 1), legendreP z n) := by
  unfold legeP
  rw [legeLoop]
  have e : (((2 * 1 - 1 : Nat) : K) * z * 1 - ((1 - 1 : Nat) : K) * 0) / ((1 : Nat) : K) = legendreP z 1 := by
    simp [legendreP]
  rw [e]
  have := legeLoop_spec z n 0
  simp only [Nat.zero_add] at this
  rw [show (1 : K) = legendreP z 0 from rfl, this]
  congr 2; omega

/-- `P_n(1) = 1` for every `n` -/
theorem legendreP_one : ∀ n : Nat, legendreP (1 : K) n = 1 := by
  intro n
  induction n using Nat.strongRecOn with
  | _ n ih =>
    match n with
    | 0 => rfl
    | 1 => rfl
    | n + 2 =>
      rw [legendreP, ih (n + 1) (by omega), ih n (by omega)]
      have h : ((n + 2 : Nat) : K) ≠ 0 := by
        have : (n + 2 : Nat) ≠ 0 := by omega
        exact_mod_cast this
      field_simp
      push_cast; ring

/-- parity: `P_n(−z) = (−1)ⁿ P_n(z)` for every `n` — the roots are symmetric about 0, which is
    why `_qnwlege1` iterates on `m = ⌊(n+1)/2⌋` of them only and mirrors the rest. -/
theorem legendreP_neg (z : K) : ∀ n : Nat, legendreP (-z) n = (-1) ^ n * legendreP z n := by
  intro n
  induction n using Nat.strongRecOn with
  | _ n ih =>
    match n with
    | 0 => simp [legendreP]
    | 1 => simp [legendreP]
    | n + 2 =>
      rw [legendreP, legendreP, ih (n + 1) (by omega), ih n (by omega)]
      have h : ((n + 2 : Nat) : K) ≠ 0 := by
        have : (n + 2 : Nat) ≠ 0 := by omega
        exact_mod_cast this
      field_simp
      ring

/-! ### qnwunif / qnwequi weights -/

theorem dot_map_div (w y : List K) (v : K) :
    dot (w.map fun t => t / v) y = dot w y / v := by
  unfold dot
  rw [foldl_add_eq_sum, foldl_add_eq_sum]
  induction w generalizing y with
  | nil => simp
  | cons a w ih =>
    cases y with
    | nil => simp
    | cons b y =>
      simp only [List.map_cons, List.zipWith_cons_cons, List.sum_cons]
      rw [ih y]; ring

end QE.C08
