/-
  Lemmas for C10, part 9: an abstract model of rounded addition.  `Rounding` is any monotone,
  idempotent map of the rationals onto a set of representable numbers containing 0 (IEEE-754
  round-to-nearest on the finite range is one; so is the identity = exact arithmetic).  On the
  representable numbers `Fl R` with the rounded addition `x ⊕ y = rnd (x + y)` the three facts the
  C10 theorems assume about `+` are *theorems*: `x ⊕ 0 = x`, `0 ≤ p → x ≤ x ⊕ p`, `0 ≤ x → p ≤ x ⊕ p`.
  (Associativity fails in general — it is never used.)
-/
import Mathlib.Order.Defs.LinearOrder
import Mathlib.Order.Basic
import Mathlib.Algebra.Order.Ring.Rat
import Mathlib.Algebra.Order.Field.Basic
import Mathlib.Algebra.Order.Floor.Ring
import Mathlib.Data.Rat.Floor
import Mathlib.Tactic.NormNum
import QEModel.C10
namespace QE.C10

/-- an abstract rounding to a set of representable rationals: monotone and idempotent -/
structure Rounding where
  rnd : Rat → Rat
  mono : ∀ x y, x ≤ y → rnd x ≤ rnd y
  idem : ∀ x, rnd (rnd x) = rnd x
  zero : rnd 0 = 0

/-- the representable numbers -/
def Fl (R : Rounding) : Type := {x : Rat // R.rnd x = x}

namespace Fl
variable {R : Rounding}
instance : LinearOrder (Fl R) := inferInstanceAs (LinearOrder {x : Rat // R.rnd x = x})
instance : Zero (Fl R) := ⟨⟨0, R.zero⟩⟩
/-- rounded addition -/
instance : Add (Fl R) := ⟨fun a b => ⟨R.rnd (a.1 + b.1), R.idem _⟩⟩

theorem add_zero' (x : Fl R) : x + 0 = x := by
  apply Subtype.ext
  show R.rnd (x.1 + 0) = x.1
  rw [add_zero]; exact x.2

theorem le_add_right' (x p : Fl R) (hp : 0 ≤ p) : x ≤ x + p := by
  show x.1 ≤ R.rnd (x.1 + p.1)
  have h0 : (0 : Rat) ≤ p.1 := hp
  have := R.mono x.1 (x.1 + p.1) (le_add_of_nonneg_right h0)
  rwa [x.2] at this

theorem le_add_left' (x p : Fl R) (hx : 0 ≤ x) : p ≤ x + p := by
  show p.1 ≤ R.rnd (x.1 + p.1)
  have h0 : (0 : Rat) ≤ x.1 := hx
  have := R.mono p.1 (x.1 + p.1) (le_add_of_nonneg_left h0)
  rwa [p.2] at this
end Fl

/-- exact arithmetic is a rounding -/
def Rounding.exact : Rounding := ⟨id, fun _ _ h => h, fun _ => rfl, rfl⟩

/-- rounding down to multiples of `1/8`: a genuinely lossy rounding (`3/16 ↦ 1/8`), for which the
    rounded addition is not associative -/
def Rounding.floor8 : Rounding where
  rnd x := (⌊x * 8⌋ : Int) / 8
  mono x y h := by
    have h8 : (0 : Rat) < 8 := by norm_num
    have : ⌊x * 8⌋ ≤ ⌊y * 8⌋ := Int.floor_le_floor (mul_le_mul_of_nonneg_right h h8.le)
    have hc : ((⌊x * 8⌋ : Int) : Rat) ≤ ((⌊y * 8⌋ : Int) : Rat) := by exact_mod_cast this
    exact div_le_div_of_nonneg_right hc h8.le
  idem x := by
    have : ((⌊x * 8⌋ : Int) : Rat) / 8 * 8 = (⌊x * 8⌋ : Int) := by
      rw [div_mul_cancel₀]; norm_num
    rw [this, Int.floor_intCast]
  zero := by simp

theorem floor8_lossy : Rounding.floor8.rnd (3 / 16) = 1 / 8 := by
  show ((⌊(3 / 16 : Rat) * 8⌋ : Int) : Rat) / 8 = 1 / 8
  have : ⌊(3 / 16 : Rat) * 8⌋ = 1 := by
    rw [Int.floor_eq_iff]; constructor <;> norm_num
  rw [this]; norm_num

end QE.C10
