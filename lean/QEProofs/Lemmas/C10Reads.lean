/-
  Lemmas for C10, part 6: no read outside the arrays.  The model's search functions read with
  `a[m]?` and continue with a default when the read fails; here the same programs are written so
  that a failed read *aborts* (`none`), and shown to return `some` of the model's value — i.e. the
  default branches are dead code and are not what makes the other theorems true.
  Also: a row with a positive entry has a positive last cumulative sum.
-/
import Mathlib.Order.Defs.LinearOrder
import QEModel.C10
import QEProofs.Lemmas.C10Search
import QEProofs.Lemmas.C10Cdf
namespace QE.C10
variable {α : Type}

/-- `ssLoop` with aborting reads -/
def ssLoopC [LT α] [DecidableLT α] (a : List α) (v : α) (lo1 hi : Nat) : Option Nat :=
  if _h : lo1 < hi then
    let m := (lo1 + hi - 1) / 2
    match a[m]? with
    | some x => if v < x then ssLoopC a v lo1 m else ssLoopC a v (m + 1) hi
    | none => none
  else some hi
termination_by hi - lo1
decreasing_by all_goals omega

theorem ssLoopC_eq [LT α] [DecidableLT α] (a : List α) (v : α) :
    ∀ (d lo1 hi : Nat), hi - lo1 = d → hi ≤ a.length → ssLoopC a v lo1 hi = some (ssLoop a v lo1 hi) := by
  intro d
  induction d using Nat.strongRecOn with
  | _ d ih =>
    intro lo1 hi hd hlen
    rw [ssLoopC, ssLoop]
    split
    · rename_i h
      simp only []
      have hm : (lo1 + hi - 1) / 2 < a.length := by omega
      rw [List.getElem?_eq_getElem hm]
      simp only []
      split
      · exact ih _ (by omega) lo1 _ rfl (by omega)
      · exact ih _ (by omega) _ hi rfl hlen
    · rfl

/-- the back-off loop with aborting reads (`cdf[i-1]`, `cdf[i]`) -/
def backoffC [BEq α] (cdf : List α) : Nat → Option Nat
  | 0 => some 0
  | i + 1 =>
    match cdf[i]?, cdf[i + 1]? with
    | some x, some y => if x == y then backoffC cdf i else some (i + 1)
    | _, _ => none

theorem backoffC_eq [BEq α] (cdf : List α) :
    ∀ i, i < cdf.length → backoffC cdf i = some (backoff cdf i)
  | 0, _ => rfl
  | i + 1, h => by
    rw [backoffC, backoff, List.getElem?_eq_getElem (by omega : i < cdf.length), List.getElem?_eq_getElem h]
    simp only [Option.some_beq_some]
    by_cases hc : (cdf[i] == cdf[i + 1]) = true
    · simp only [hc, if_true]; exact backoffC_eq cdf i (by omega)
    · simp only [hc]; rfl

/-- `searchsorted_cdf` with aborting reads -/
def searchsortedCdfC [LT α] [DecidableLT α] [BEq α] (cdf : List α) (v : α) : Option Nat :=
  match ssLoopC cdf v 0 cdf.length with
  | none => none
  | some i => if i = cdf.length then (if cdf.length = 0 then none else backoffC cdf (cdf.length - 1)) else some i

/-- **No read outside the array in `searchsorted` / `searchsorted_cdf`**, for every array and value:
    the aborting-read programs terminate normally with the model's results. -/
theorem searchsorted_reads_in_range [LT α] [DecidableLT α] [BEq α] (cdf : List α) (v : α) :
    ssLoopC cdf v 0 cdf.length = some (searchsorted cdf v) ∧
    (cdf ≠ [] → searchsortedCdfC cdf v = some (searchsortedCdf cdf v)) := by
  have h1 := ssLoopC_eq cdf v _ 0 cdf.length rfl (Nat.le_refl _)
  refine ⟨h1, ?_⟩
  intro hne
  have hpos : 0 < cdf.length := List.length_pos_iff.mpr hne
  unfold searchsortedCdfC searchsortedCdf
  rw [h1]
  simp only [searchsorted]
  by_cases hc : ssLoop cdf v 0 cdf.length = cdf.length
  · have : ¬ cdf.length = 0 := by omega
    simp only [hc, this, if_true, if_false]
    exact backoffC_eq cdf _ (by omega)
  · simp only [hc, if_false]

/-! ### positive total from a positive entry -/

theorem cumsumFrom_getLast_pos [LinearOrder α] [Add α] [Zero α]
    (hmono : ∀ x p : α, 0 ≤ p → x ≤ x + p) (hmono' : ∀ x p : α, 0 ≤ x → p ≤ x + p)
    (acc : α) (l : List α) (hl : ∀ x ∈ l, (0 : α) ≤ x) (hacc : 0 ≤ acc) (hex : ∃ x ∈ l, (0 : α) < x)
    (hne : cumsumFrom acc l ≠ []) : 0 < (cumsumFrom acc l).getLast hne := by
  induction l generalizing acc with
  | nil => obtain ⟨x, hx, _⟩ := hex; simp at hx
  | cons y ys ih =>
    have hy : (0 : α) ≤ y := hl y (by simp)
    have hacc' : 0 ≤ acc + y := le_trans hacc (hmono _ _ hy)
    by_cases hpos : 0 < y
    · have hge := (cumsumFrom_sorted hmono (acc + y) ys (fun x hx => hl x (by simp [hx]))).2
      have hlast : acc + y ≤ (cumsumFrom acc (y :: ys)).getLast hne := by
        have hmem := List.getLast_mem hne
        simp only [cumsumFrom, List.mem_cons] at hmem
        rcases hmem with h | h
        · exact le_of_eq h.symm
        · exact hge _ h
      exact lt_of_lt_of_le (lt_of_lt_of_le hpos (hmono' _ _ hacc)) hlast
    · obtain ⟨x, hx, hxpos⟩ := hex
      have hx' : x ∈ ys := by
        rcases List.mem_cons.mp hx with rfl | h
        · exact absurd hxpos hpos
        · exact h
      have hne' : cumsumFrom (acc + y) ys ≠ [] := by
        intro h0
        have := cumsumFrom_length (acc + y) ys
        rw [h0] at this
        cases ys with
        | nil => simp at hx'
        | cons _ _ => simp at this
      have := ih (acc + y) (fun x hx => hl x (by simp [hx])) hacc' ⟨x, hx', hxpos⟩ hne'
      simp only [cumsumFrom]
      rw [List.getLast_cons hne']
      exact this

/-- a row of nonnegative masses with at least one positive entry (what the constructor's row-sum
    test guarantees) has a positive last cumulative sum — under monotone accumulation only -/
theorem cumsum_getLast_pos [LinearOrder α] [Add α] [Zero α]
    (hmono : ∀ x p : α, 0 ≤ p → x ≤ x + p) (hmono' : ∀ x p : α, 0 ≤ x → p ≤ x + p)
    (l : List α) (hl : ∀ x ∈ l, (0 : α) ≤ x) (hex : ∃ x ∈ l, (0 : α) < x)
    (hne : cumsum l ≠ []) : 0 < (cumsum l).getLast hne := by
  cases l with
  | nil => obtain ⟨x, hx, _⟩ := hex; simp at hx
  | cons y ys =>
    have hy : (0 : α) ≤ y := hl y (by simp)
    by_cases hpos : 0 < y
    · have hge := (cumsumFrom_sorted hmono y ys (fun x hx => hl x (by simp [hx]))).2
      have hmem := List.getLast_mem hne
      simp only [cumsum, List.mem_cons] at hmem
      rcases hmem with h | h
      · exact lt_of_lt_of_le hpos (le_of_eq h.symm)
      · exact lt_of_lt_of_le hpos (hge _ h)
    · obtain ⟨x, hx, hxpos⟩ := hex
      have hx' : x ∈ ys := by
        rcases List.mem_cons.mp hx with rfl | h
        · exact absurd hxpos hpos
        · exact h
      have hne' : cumsumFrom y ys ≠ [] := by
        intro h0
        have := cumsumFrom_length y ys
        rw [h0] at this
        cases ys with
        | nil => simp at hx'
        | cons _ _ => simp at this
      have := cumsumFrom_getLast_pos hmono hmono' y ys (fun x hx => hl x (by simp [hx])) hy
        ⟨x, hx', hxpos⟩ hne'
      simp only [cumsum]
      rw [List.getLast_cons hne']
      exact this

end QE.C10
