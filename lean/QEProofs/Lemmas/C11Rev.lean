/-
  Reversibility of the complementary pivot step (`QEModel.C11`, tolerances 0): on a
  lexicographically feasible Lemke tableau, after pivoting on (row r, column c) the variable
  that has just left, if re-entered, selects the same row r, and that pivot restores the
  tableau.  (Key lemma of Lemke's finiteness / completeness argument.)
-/
import QEProofs.Lemmas.C11LexPos
import QEProofs.Lemmas.C11Lex
import Mathlib.Tactic.FieldSimp

namespace QE.C11
open QE QE.Pivot
set_option linter.unusedVariables false
set_option linter.unusedSectionVars false

variable {K : Type} [Field K] [LinearOrder K] [IsStrictOrderedRing K]

theorem lexPosOn_neg_false (f : ℕ → K) : ∀ (L : List ℕ), LexPosOn f L →
    LexPosOn (fun j => - f j) L → False := by
  intro L
  induction L with
  | nil => intro h _; exact h
  | cons j js ih =>
    intro h1 h2
    rcases h1 with h1 | ⟨h10, h1⟩ <;> rcases h2 with h2 | ⟨h20, h2⟩
    · simp only at h2; linarith
    · simp only at h20; linarith
    · simp only at h2; linarith
    · exact ih h1 h2

/-- entries of the column of the variable that left, after the pivot -/
theorem pivot_left_col {n : ℕ} {T0 T : M K} {basis : ℕ → ℕ} {c r : ℕ}
    (h : Inv1 n T0 T basis) (hr : r < n) (hp : T.get r c ≠ 0) (k : ℕ) (hk : k < n) :
    (pivot T c r).get k (basis r)
      = if k = r then 1 / T.get r c else - T.get k c / T.get r c := by
  have hb : basis r < T.nc := by have := h.le r hr; rw [h.nc]; omega
  by_cases hkr : k = r
  · rw [if_pos hkr, hkr, pivot_get_r T c r _ (by rw [h.nr]; exact hr) hb, h.unit r r hr hr, if_pos rfl]
  · rw [if_neg hkr, pivot_get_i T c r k _ (by rw [h.nr]; exact hk) hb hkr, h.unit r r hr hr,
      h.unit r k hr hk, if_pos rfl, if_neg hkr]
    ring

/-- **reversibility**: re-entering the variable that just left selects the same row -/
theorem step_reversible_row {n : ℕ} {T : M K} {basis : ℕ → ℕ} {c : ℕ} (hn : 0 < n)
    (Mm : ℕ → ℕ → K) (q d : ℕ → K) (h : Inv1 n (initTableau n Mm q d) T basis)
    (he : Enter n basis c) (hlp : LP n T) (hf : (lexMinRatio T c 0 (0 : K) 0).1 = true) :
    (lexMinRatio (pivot T c (lexMinRatio T c 0 (0 : K) 0).2)
        (basis (lexMinRatio T c 0 (0 : K) 0).2) 0 (0 : K) 0).1 = true ∧
    (lexMinRatio (pivot T c (lexMinRatio T c 0 (0 : K) 0).2)
        (basis (lexMinRatio T c 0 (0 : K) 0).2) 0 (0 : K) 0).2 = (lexMinRatio T c 0 (0 : K) 0).2 := by
  obtain ⟨hr0, hpos⟩ := lexMinRatio_found_pos T c 0 (0 : K) 0 hf
  set r := (lexMinRatio T c 0 (0 : K) 0).2 with hrdef
  have hr : r < n := by rw [h.nr] at hr0; exact hr0
  have hp : T.get r c ≠ 0 := ne_of_gt hpos
  have h' := inv1_pivot hn h he hr hp
  set T' := pivot T c r with hT'
  set l := basis r with hl
  have hcol := pivot_left_col h hr hp
  have hposr : 0 < T'.get r l := by
    rw [hcol r hr, if_pos rfl]; exact one_div_pos.mpr hpos
  have hf' : (lexMinRatio T' l 0 (0 : K) 0).1 = true :=
    lexMinRatio_found_of_pos Mm q d h' l ⟨r, hr, hposr⟩
  refine ⟨hf', ?_⟩
  by_contra hne
  obtain ⟨hr'', hpos''⟩ := lexMinRatio_found_pos T' l 0 (0 : K) 0 hf'
  set r'' := (lexMinRatio T' l 0 (0 : K) 0).2 with hr''def
  have hr''n : r'' < n := by
    have : T'.nr = n := h'.nr
    rw [this] at hr''; exact hr''
  have hstrict := lexMinRatio_strict T' l 0 hf' r (by rw [h'.nr]; exact hr) (fun e => hne e.symm) hposr
  have hL : (T'.nc - 1) :: (List.range T'.nr).map (· + 0) = (2 * n + 1) :: List.range n := by
    rw [h'.nc, h'.nr]; simp
  rw [hL] at hstrict
  -- the entry of row r'' in column c of T is negative
  have hm : T.get r'' c < 0 := by
    have e := hcol r'' hr''n
    rw [if_neg hne] at e
    rw [e] at hpos''
    have : 0 < - T.get r'' c := by
      have := mul_pos hpos'' hpos
      rwa [div_mul_cancel₀ _ hp] at this
    linarith
  -- the ratio vector of r'' exceeds that of r by a positive multiple of row r'' of T
  have hdiff : LexPosOn (ratioDiff T' l r r'') ((2 * n + 1) :: List.range n) := by
    apply lexPosOn_congr (fun j => (T.get r c / (- T.get r'' c)) * T.get r'' j)
    · intro j hj
      have hjnc : j < T.nc := by
        rw [h.nc]
        rcases List.mem_cons.mp hj with e | e
        · omega
        · have := List.mem_range.mp e; omega
      unfold ratioDiff
      rw [hcol r hr, hcol r'' hr''n, if_pos rfl, if_neg hne,
        pivot_get_r T c r j (by rw [h.nr]; exact hr) hjnc,
        pivot_get_i T c r r'' j (by rw [h.nr]; exact hr''n) hjnc hne]
      have hm' : T.get r'' c ≠ 0 := ne_of_lt hm
      field_simp
      ring
    · exact lexPosOn_smul _ _ (div_pos hpos (by linarith)) _ (hlp r'' hr''n)
  -- contradiction: both differences cannot be lexicographically positive
  apply lexPosOn_neg_false _ _ hdiff
  apply lexPosOn_congr _ _ _ _ hstrict
  intro j _
  unfold ratioDiff; ring

/-- **reversibility**: pivoting back on the same row restores every entry -/
theorem step_reversible_tableau {n : ℕ} {T0 T : M K} {basis : ℕ → ℕ} {c r : ℕ}
    (h : Inv1 n T0 T basis) (hr : r < n) (hp : T.get r c ≠ 0) (i j : ℕ) (hi : i < n)
    (hj : j < 2 * n + 2) :
    (pivot (pivot T c r) (basis r) r).get i j = T.get i j := by
  have hcol := pivot_left_col h hr hp
  have hnr : (pivot T c r).nr = n := by simpa using h.nr
  have hnc : (pivot T c r).nc = 2 * n + 2 := by simpa using h.nc
  by_cases hir : i = r
  · rw [hir, pivot_get_r _ _ _ _ (by rw [hnr]; exact hr) (by rw [hnc]; exact hj), hcol r hr, if_pos rfl,
      pivot_get_r T c r j (by rw [h.nr]; exact hr) (by rw [h.nc]; exact hj)]
    field_simp
  · rw [pivot_get_i _ _ _ _ _ (by rw [hnr]; exact hi) (by rw [hnc]; exact hj) hir, hcol r hr, hcol i hi,
      if_pos rfl, if_neg hir,
      pivot_get_r T c r j (by rw [h.nr]; exact hr) (by rw [h.nc]; exact hj),
      pivot_get_i T c r i j (by rw [h.nr]; exact hi) (by rw [h.nc]; exact hj) hir]
    field_simp
    ring

end QE.C11
