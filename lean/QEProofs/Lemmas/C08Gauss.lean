/-
  Lemmas for C08, part 13: the classical reduction behind "degree 2n − 1" — a rule whose nodes
  are roots of a degree-n polynomial orthogonal to all lower degrees, and which is exact up to
  degree n − 1, is exact up to degree 2n − 1.
-/
import QEProofs.Lemmas.C08Basic
import Mathlib.Algebra.Polynomial.FieldDivision
namespace QE.C08
open Polynomial

set_option linter.unusedSectionVars false

variable {K : Type} [Field K] [LinearOrder K] [IsStrictOrderedRing K]

theorem quadSum_congr (w x : List K) (f g : K → K) (h : ∀ t ∈ x, f t = g t) :
    quadSum w x f = quadSum w x g := by
  unfold quadSum
  rw [List.map_congr_left h]

theorem gauss_reduction (nodes weights : List K) (n : Nat) (P : K[X]) (hPdeg : P.degree = (n : WithBot Nat))
    (Λ : K[X] →ₗ[K] K)
    (hroot : ∀ x ∈ nodes, P.eval x = 0)
    (horth : ∀ q : K[X], q.degree < (n : WithBot Nat) → Λ (P * q) = 0)
    (hint : ∀ r : K[X], r.degree < (n : WithBot Nat) → quadSum weights nodes (fun t => r.eval t) = Λ r)
    (p : K[X]) (hp : p.degree < ((n + n : Nat) : WithBot Nat)) :
    quadSum weights nodes (fun t => p.eval t) = Λ p := by
  have hP0 : P ≠ 0 := by
    intro h0
    rw [h0, degree_zero] at hPdeg
    exact absurd hPdeg (by simp)
  have hdiv : P * (p / P) + p % P = p := EuclideanDomain.div_add_mod p P
  have hr : (p % P).degree < (n : WithBot Nat) := by
    rw [← hPdeg]; exact degree_mod_lt p hP0
  have hq : (p / P).degree < (n : WithBot Nat) := by
    by_cases hpq : P.degree ≤ p.degree
    · have h1 := degree_add_div hP0 hpq
      by_contra hcon
      have h2 : (n : WithBot Nat) ≤ (p / P).degree := not_lt.mp hcon
      have h3 : (n : WithBot Nat) + (n : WithBot Nat) ≤ P.degree + (p / P).degree := by
        rw [hPdeg]; exact add_le_add_right h2 _
      rw [h1] at h3
      have h4 : ((n + n : Nat) : WithBot Nat) ≤ p.degree := by
        rw [Nat.cast_add]; exact h3
      exact absurd (lt_of_le_of_lt h4 hp) (lt_irrefl _)
    · have : p / P = 0 := (Polynomial.div_eq_zero_iff hP0).mpr (not_le.mp hpq)
      rw [this, degree_zero]
      exact WithBot.bot_lt_coe n
  have hnodes : quadSum weights nodes (fun t => p.eval t) = quadSum weights nodes (fun t => (p % P).eval t) := by
    apply quadSum_congr
    intro t ht
    conv_lhs => rw [← hdiv]
    rw [eval_add, eval_mul, hroot t ht, zero_mul, zero_add]
  rw [hnodes, hint _ hr]
  conv_rhs => rw [← hdiv]
  rw [map_add, horth _ hq, zero_add]

end QE.C08
