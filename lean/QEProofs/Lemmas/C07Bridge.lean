/-
  C07 helper lemmas, part 2: the model's `lqUpdate` read as Mathlib matrices
  (`toMat` of C06Mat), the assumed behaviour of `solve` (`SolSpec`), quadratic
  forms of vectors, and the completion of the square in scalar form.
-/
import QEModel.C07
import QEProofs.Lemmas.C06Mat
import QEProofs.Lemmas.C07Alg
import Mathlib.LinearAlgebra.Matrix.Trace
import Mathlib.Tactic.FieldSimp
import Mathlib.Tactic.Ring
import Mathlib.Tactic.Linarith
import Mathlib.Algebra.Field.Basic

set_option linter.unusedSectionVars false

namespace QE.C07
open QE QE.MatAlg QE.C06 Finset Matrix

section
variable {K : Type} [CommRing K]

/-- assumed behaviour of `scipy.linalg.solve` on `k × k` systems (LAPACK is not modelled):
    a returned `X` has the right shape, satisfies `W X = B`, and `W` is invertible -/
def SolSpec (sol : M K → M K → Option (M K)) (k : ℕ) : Prop :=
  ∀ (p : ℕ) (W Bm X : M K), Dim W k k → Dim Bm k p → sol W Bm = some X →
    Dim X k p ∧ toMat k k W * toMat k p X = toMat k p Bm ∧
    ∃ V : Matrix (Fin k) (Fin k) K, V * toMat k k W = 1 ∧ toMat k k W * V = 1

/-- the shapes of an LQ instance: `n` states, `k` controls, `j` shocks -/
structure LQDim (lq : LQ K) (n k j : ℕ) : Prop where
  Q : Dim lq.Q k k
  R : Dim lq.R n n
  A : Dim lq.A n n
  B : Dim lq.B n k
  C : Dim lq.C n j
  N : Dim lq.N k n

theorem trace_toMat {A : M K} {n : ℕ} (hA : A.nr = n) : MatAlg.trace A = Matrix.trace (toMat n n A) := by
  unfold MatAlg.trace
  rw [sumRange_eq_sum, hA, Matrix.trace]
  simp only [Matrix.diag, toMat]
  rw [Fin.sum_univ_eq_sum_range (fun i => A.get i i) n]

variable {n k j : ℕ} {lq : LQ K}

theorem lqS1_dim (h : LQDim lq n k j) (P : M K) : Dim (lqS1 lq P) k k := dim_madd h.Q
theorem lqS2_dim (h : LQDim lq n k j) {P : M K} (hP : Dim P n n) : Dim (lqS2 lq P) k n :=
  dim_madd (dim_smul _ (dim_mmul (dim_mT h.B) (dim_mmul hP h.A)))
theorem lqS3_dim (h : LQDim lq n k j) {P : M K} (hP : Dim P n n) : Dim (lqS3 lq P) n n :=
  dim_smul _ (dim_mmul (dim_mT h.A) (dim_mmul hP h.A))

theorem lqS1_toMat (h : LQDim lq n k j) {P : M K} (hP : Dim P n n) :
    toMat k k (lqS1 lq P)
      = toMat k k lq.Q + lq.beta • ((toMat n k lq.B)ᵀ * (toMat n n P * toMat n k lq.B)) := by
  unfold lqS1
  rw [toMat_madd h.Q, toMat_smul _ (dim_mmul (dim_mT h.B) (dim_mmul hP h.B)),
    toMat_mmul (dim_mT h.B) (dim_mmul hP h.B), toMat_mmul hP h.B, toMat_mT h.B]

theorem lqS2_toMat (h : LQDim lq n k j) {P : M K} (hP : Dim P n n) :
    toMat k n (lqS2 lq P)
      = lq.beta • ((toMat n k lq.B)ᵀ * (toMat n n P * toMat n n lq.A)) + toMat k n lq.N := by
  unfold lqS2
  rw [toMat_madd (dim_smul _ (dim_mmul (dim_mT h.B) (dim_mmul hP h.A))),
    toMat_smul _ (dim_mmul (dim_mT h.B) (dim_mmul hP h.A)),
    toMat_mmul (dim_mT h.B) (dim_mmul hP h.A), toMat_mmul hP h.A, toMat_mT h.B]

theorem lqS3_toMat (h : LQDim lq n k j) {P : M K} (hP : Dim P n n) :
    toMat n n (lqS3 lq P)
      = lq.beta • ((toMat n n lq.A)ᵀ * (toMat n n P * toMat n n lq.A)) := by
  unfold lqS3
  rw [toMat_smul _ (dim_mmul (dim_mT h.A) (dim_mmul hP h.A)),
    toMat_mmul (dim_mT h.A) (dim_mmul hP h.A), toMat_mmul hP h.A, toMat_mT h.A]

theorem lqNewP_dim (h : LQDim lq n k j) (P F : M K) : Dim (lqNewP lq P F) n n :=
  dim_madd (dim_msub h.R)

theorem lqNewP_toMat (h : LQDim lq n k j) {P F : M K} (hP : Dim P n n) (hF : Dim F k n) :
    toMat n n (lqNewP lq P F)
      = toMat n n lq.R - (toMat k n (lqS2 lq P))ᵀ * toMat k n F + toMat n n (lqS3 lq P) := by
  unfold lqNewP
  rw [toMat_madd (dim_msub h.R), toMat_msub h.R, toMat_mmul (dim_mT (lqS2_dim h hP)) hF,
    toMat_mT (lqS2_dim h hP)]

theorem lqNewD_eq (h : LQDim lq n k j) {v : Val K} (hP : Dim v.P n n) :
    lqNewD lq v = lq.beta * (v.d + Matrix.trace (toMat n n v.P * (toMat n j lq.C * (toMat n j lq.C)ᵀ))) := by
  unfold lqNewD
  have hd : Dim (mmul v.P (mmul lq.C (mT lq.C))) n n := dim_mmul hP (dim_mmul h.C (dim_mT h.C))
  rw [trace_toMat hd.nr, toMat_mmul hP (dim_mmul h.C (dim_mT h.C)), toMat_mmul h.C (dim_mT h.C), toMat_mT h.C]

/-- what a successful `update_values` returns, as matrices -/
theorem lqUpdate_toMat (sol : M K → M K → Option (M K)) (hsol : SolSpec sol k) (h : LQDim lq n k j)
    {v v' : Val K} {F : M K} (hP : Dim v.P n n) (hu : lqUpdate sol lq v = some (F, v')) :
    Dim F k n ∧ Dim v'.P n n ∧
    toMat k k (lqS1 lq v.P) * toMat k n F = toMat k n (lqS2 lq v.P) ∧
    toMat n n v'.P = toMat n n lq.R - (toMat k n (lqS2 lq v.P))ᵀ * toMat k n F + toMat n n (lqS3 lq v.P) ∧
    v'.d = lq.beta * (v.d + Matrix.trace (toMat n n v.P * (toMat n j lq.C * (toMat n j lq.C)ᵀ))) ∧
    ∃ V : Matrix (Fin k) (Fin k) K, V * toMat k k (lqS1 lq v.P) = 1 ∧ toMat k k (lqS1 lq v.P) * V = 1 := by
  unfold lqUpdate at hu
  split at hu
  · cases hu
  · rename_i F0 hs
    simp only [Option.some.injEq, Prod.mk.injEq] at hu
    obtain ⟨hF0, hv⟩ := hu
    subst hF0
    subst hv
    obtain ⟨dF, mF, V, hV⟩ := hsol n _ _ _ (lqS1_dim h v.P) (lqS2_dim h hP) hs
    exact ⟨dF, lqNewP_dim h _ _, mF, lqNewP_toMat h hP dF, lqNewD_eq h hP, V, hV⟩

end

/-! ### vectors as one-column matrices; quadratic forms -/

section forms
variable {K : Type} [CommRing K] {n k : ℕ}

/-- a vector as an `n × 1` matrix -/
def colM (x : Fin n → K) : Matrix (Fin n) (Fin 1) K := fun i _ => x i

/-- `x' M x` -/
def qf (Mx : Matrix (Fin n) (Fin n) K) (x : Fin n → K) : K := ((colM x)ᵀ * Mx * colM x) 0 0

/-- `u' N x` -/
def bf (u : Fin k → K) (N : Matrix (Fin k) (Fin n) K) (x : Fin n → K) : K := ((colM u)ᵀ * N * colM x) 0 0

theorem colM_add (x y : Fin n → K) : colM (x + y) = colM x + colM y := by
  ext i a; simp [colM]

theorem colM_neg (x : Fin n → K) : colM (-x) = - colM x := by
  ext i a; simp [colM]

theorem colM_mulVec (A : Matrix (Fin k) (Fin n) K) (x : Fin n → K) : colM (A *ᵥ x) = A * colM x := by
  ext i a; simp [colM, Matrix.mulVec, Matrix.mul_apply, dotProduct]

theorem colM_zero : colM (0 : Fin n → K) = 0 := by
  ext i a; simp [colM]

theorem qf_zero (Mx : Matrix (Fin n) (Fin n) K) : qf Mx 0 = 0 := by
  simp [qf, colM_zero]

theorem qf_eq_sum (Mx : Matrix (Fin n) (Fin n) K) (x : Fin n → K) :
    qf Mx x = ∑ i, ∑ l, x i * Mx i l * x l := by
  simp only [qf, Matrix.mul_apply, colM, Matrix.transpose_apply, Finset.sum_mul]
  rw [Finset.sum_comm]

theorem bf_transpose (u : Fin k → K) (N : Matrix (Fin k) (Fin n) K) (x : Fin n → K) :
    ((colM x)ᵀ * Nᵀ * colM u) 0 0 = bf u N x := by
  have : (colM x)ᵀ * Nᵀ * colM u = ((colM u)ᵀ * N * colM x)ᵀ := by
    rw [transpose_mul, transpose_mul, transpose_transpose, Matrix.mul_assoc]
  rw [this]; rfl

/-- the one-period loss `x'Rx + u'Qu + 2u'Nx` -/
def stage (R : Matrix (Fin n) (Fin n) K) (Q : Matrix (Fin k) (Fin k) K) (N : Matrix (Fin k) (Fin n) K)
    (x : Fin n → K) (u : Fin k → K) : K := qf R x + qf Q u + 2 * bf u N x

/-- **Completion of the square, scalar form.** -/
theorem complete_square_qf (A P R : Matrix (Fin n) (Fin n) K) (B : Matrix (Fin n) (Fin k) K)
    (Q S1 : Matrix (Fin k) (Fin k) K) (N S2 F : Matrix (Fin k) (Fin n) K) (β : K)
    (x : Fin n → K) (u : Fin k → K)
    (hP : Pᵀ = P) (hQ : Qᵀ = Q)
    (hS1 : S1 = Q + β • (Bᵀ * (P * B))) (hS2 : S2 = β • (Bᵀ * (P * A)) + N) (hF : S1 * F = S2) :
    stage R Q N x u + β * qf P (A *ᵥ x + B *ᵥ u)
      = qf (R - S2ᵀ * F + β • (Aᵀ * (P * A))) x + qf S1 (u + F *ᵥ x) := by
  have key := complete_square A P R B Q S1 N S2 F β (colM x) (colM u) hP hQ hS1 hS2 hF
  have key00 := congrFun (congrFun key 0) 0
  simp only [Matrix.add_apply, Matrix.smul_apply, smul_eq_mul] at key00
  unfold stage qf
  rw [colM_add, colM_add, colM_mulVec, colM_mulVec, colM_mulVec, ← key00]
  rw [bf_transpose u N x]
  unfold bf
  ring

end forms

/-! ### a concrete `solve` on 1 × 1 systems satisfying `SolSpec` (non-vacuity) -/

section scalar
variable {K : Type} [Field K] [DecidableEq K]

/-- exact solver for `1 × 1` systems -/
def sol1 (W Bm : M K) : Option (M K) :=
  if W.get 0 0 = 0 then none else some (M.tab 1 Bm.nc fun _ j => Bm.get 0 j / W.get 0 0)

theorem sol1_spec : SolSpec (sol1 : M K → M K → Option (M K)) 1 := by
  intro p W Bm X hW hB h
  unfold sol1 at h
  split at h
  · cases h
  · rename_i hne
    cases h
    refine ⟨⟨rfl, hB.nc⟩, ?_, ?_⟩
    · ext i j
      have hi : i = 0 := Subsingleton.elim _ _
      subst hi
      have hj : (j : ℕ) < Bm.nc := by rw [hB.nc]; exact j.2
      simp only [Matrix.mul_apply, Fin.sum_univ_one, toMat, Fin.val_zero]
      rw [M.get_tab _ _ _ _ _ (by omega) hj]
      field_simp
    · refine ⟨(1 / W.get 0 0) • (1 : Matrix (Fin 1) (Fin 1) K), ?_, ?_⟩
      · ext i j
        have hi : i = 0 := Subsingleton.elim _ _
        have hj : j = 0 := Subsingleton.elim _ _
        subst hi; subst hj
        simp only [Matrix.smul_mul, Matrix.one_mul, Matrix.smul_apply, toMat, smul_eq_mul,
          Matrix.one_apply_eq, Fin.val_zero]
        field_simp
      · ext i j
        have hi : i = 0 := Subsingleton.elim _ _
        have hj : j = 0 := Subsingleton.elim _ _
        subst hi; subst hj
        simp only [Matrix.mul_smul, Matrix.mul_one, Matrix.smul_apply, toMat, smul_eq_mul,
          Matrix.one_apply_eq, Fin.val_zero]
        field_simp

end scalar
end QE.C07
