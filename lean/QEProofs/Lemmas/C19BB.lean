/-
  Lemmas for C19, part 3: rising factorials, Chu–Vandermonde, moments of the Beta-binomial pdf.
-/
import Mathlib.Algebra.BigOperators.NatAntidiagonal
import Mathlib.Data.Nat.Choose.Sum
import Mathlib.Algebra.BigOperators.Field
import Mathlib.Algebra.Order.Field.Basic
import Mathlib.Tactic.Ring
import Mathlib.Tactic.FieldSimp
import Mathlib.Tactic.Linarith
import Mathlib.Tactic.Positivity
import Mathlib.Tactic.LinearCombination
import Mathlib.Tactic.IntervalCases
import Mathlib.Tactic.NormNum
import QEModel.C19
import QEProofs.Lemmas.C16Comb
set_option linter.unusedSectionVars false
namespace QE.C19
open Finset

section
variable {K : Type} [Field K]

theorem list_sum_range_map (n : ℕ) (f : ℕ → K) : ((List.range n).map f).sum = ∑ k ∈ range n, f k := by
  induction n with
  | zero => simp
  | succ n ih => rw [List.range_succ, List.map_append, List.sum_append, ih, sum_range_succ]; simp

theorem rising_succ (a : K) (k : ℕ) : rising a (k + 1) = rising a k * (a + (k : K)) := rfl

/-- `a^(k+1) = a · (a+1)^(k)` -/
theorem rising_shift (a : K) (k : ℕ) : rising a (k + 1) = a * rising (a + 1) k := by
  induction k with
  | zero => simp [rising]
  | succ k ih =>
    rw [rising_succ a (k + 1), ih, rising_succ (a + 1) k]
    push_cast
    ring

/-- **Chu–Vandermonde for rising factorials**:
    `(a+b)^(n) = Σ_{i+j=n} C(n,i) a^(i) b^(j)` -/
theorem rising_add (a b : K) (n : ℕ) :
    rising (a + b) n = ∑ ij ∈ antidiagonal n, (n.choose ij.1 : K) * (rising a ij.1 * rising b ij.2) := by
  induction n with
  | zero => simp [rising]
  | succ n ih =>
    rw [sum_antidiagonal_choose_succ_mul (fun i j => rising a i * rising b j), ← sum_add_distrib,
      rising_succ, ih, sum_mul]
    apply sum_congr rfl
    intro ij hij
    have hn : ij.1 + ij.2 = n := mem_antidiagonal.mp hij
    have hc : n.choose ij.2 = n.choose ij.1 := Nat.choose_symm_of_eq_add hn.symm |>.symm
    rw [hc, rising_succ, rising_succ]
    have : (n : K) = (ij.1 : K) + (ij.2 : K) := by rw [← hn]; push_cast; ring
    rw [this]
    ring

theorem bbPdf_eq (n : ℕ) (a b : K) (k : ℕ) :
    bbPdf n a b k = (n.choose k : K) * (rising a k * rising b (n - k)) / rising (a + b) n := by
  unfold bbPdf
  rw [QE.C16.chooseFast_eq_choose]
  ring

/-- numerators of the pdf summed over `k = 0..n`, as an antidiagonal sum -/
theorem sum_range_eq_antidiagonal (n : ℕ) (f : ℕ → ℕ → K) :
    ∑ k ∈ range (n + 1), f k (n - k) = ∑ ij ∈ antidiagonal n, f ij.1 ij.2 :=
  (Finset.Nat.sum_antidiagonal_eq_sum_range_succ f n).symm

/-- the absorption step `i·C(n+1,i)·a^(i) = (n+1)·a·C(n,i−1)·(a+1)^(i−1)` under the sum -/
theorem bb_shift_sum (a b : K) (n : ℕ) (g : ℕ → K) :
    ∑ ij ∈ antidiagonal (n + 1),
        (ij.1 : K) * g ij.1 * (((n + 1).choose ij.1 : K) * (rising a ij.1 * rising b ij.2))
      = ((n : K) + 1) * a * ∑ ij ∈ antidiagonal n,
        g (ij.1 + 1) * ((n.choose ij.1 : K) * (rising (a + 1) ij.1 * rising b ij.2)) := by
  rw [Finset.Nat.sum_antidiagonal_succ]
  simp only [Nat.cast_zero, zero_mul, zero_add]
  rw [mul_sum]
  apply sum_congr rfl
  intro ij _
  have h := congrArg (Nat.cast : ℕ → K) (Nat.add_one_mul_choose_eq n ij.1)
  push_cast at h
  rw [rising_shift]
  push_cast
  linear_combination (-(g (ij.1 + 1) * a * rising (a + 1) ij.1 * rising b ij.2)) * h

/-- `Σ_k k·C(n,k) a^(k) b^(n−k) = n·a·(a+b+1)^(n−1)` -/
theorem bb_first_sum (a b : K) (n : ℕ) :
    ∑ ij ∈ antidiagonal (n + 1),
        (ij.1 : K) * (((n + 1).choose ij.1 : K) * (rising a ij.1 * rising b ij.2))
      = ((n : K) + 1) * a * rising (a + b + 1) n := by
  have h := bb_shift_sum a b n (fun _ => 1)
  simp only [mul_one, one_mul] at h
  rw [h, ← rising_add]
  congr 2; ring

/-- `Σ_k k(k−1)·C(n,k) a^(k) b^(n−k) = n(n−1)·a(a+1)·(a+b+2)^(n−2)` -/
theorem bb_second_sum (a b : K) (n : ℕ) :
    ∑ ij ∈ antidiagonal (n + 2),
        (ij.1 : K) * ((ij.1 : K) - 1) * (((n + 2).choose ij.1 : K) * (rising a ij.1 * rising b ij.2))
      = ((n : K) + 2) * ((n : K) + 1) * a * (a + 1) * rising (a + b + 2) n := by
  have h := bb_shift_sum a b (n + 1) (fun i => (i : K) - 1)
  rw [h]
  have h2 : ∀ ij : ℕ × ℕ, (((ij.1 + 1 : ℕ) : K) - 1) * (((n + 1).choose ij.1 : K) * (rising (a + 1) ij.1 * rising b ij.2))
      = (ij.1 : K) * (((n + 1).choose ij.1 : K) * (rising (a + 1) ij.1 * rising b ij.2)) := by
    intro ij; push_cast; ring
  simp only [h2]
  rw [bb_first_sum (a + 1) b n]
  push_cast
  have : a + 1 + b + 1 = a + b + 2 := by ring
  rw [this]; ring

/-- `Σ_k k(k−1)(k−2)·C(n,k) a^(k) b^(n−k) = n(n−1)(n−2)·a(a+1)(a+2)·(a+b+3)^(n−3)` -/
theorem bb_third_sum (a b : K) (n : ℕ) :
    ∑ ij ∈ antidiagonal (n + 3),
        (ij.1 : K) * (((ij.1 : K) - 1) * ((ij.1 : K) - 2)) * (((n + 3).choose ij.1 : K) * (rising a ij.1 * rising b ij.2))
      = ((n : K) + 3) * ((n : K) + 2) * ((n : K) + 1) * a * (a + 1) * (a + 2) * rising (a + b + 3) n := by
  have h := bb_shift_sum a b (n + 2) (fun i => ((i : K) - 1) * ((i : K) - 2))
  rw [h]
  have h2 : ∀ ij : ℕ × ℕ, (((ij.1 + 1 : ℕ) : K) - 1) * (((ij.1 + 1 : ℕ) : K) - 2)
        * (((n + 2).choose ij.1 : K) * (rising (a + 1) ij.1 * rising b ij.2))
      = (ij.1 : K) * ((ij.1 : K) - 1) * (((n + 2).choose ij.1 : K) * (rising (a + 1) ij.1 * rising b ij.2)) := by
    intro ij; push_cast; ring
  simp only [h2]
  rw [bb_second_sum (a + 1) b n]
  push_cast
  have : a + 1 + b + 2 = a + b + 3 := by ring
  rw [this]; ring

end

section ordered
variable {K : Type} [Field K] [LinearOrder K] [IsStrictOrderedRing K]

theorem rising_pos (a : K) (ha : 0 < a) (k : ℕ) : 0 < rising a k := by
  induction k with
  | zero => simp [rising]
  | succ k ih =>
    rw [rising_succ]
    have : (0 : K) ≤ (k : K) := Nat.cast_nonneg k
    exact mul_pos ih (by linarith)

theorem rising_ne_zero (a : K) (ha : 0 < a) (k : ℕ) : rising a k ≠ 0 := ne_of_gt (rising_pos a ha k)

/-- `Σ_k pdf(k) = 1` in `Finset` form -/
theorem bb_sum_pdf (n : ℕ) (a b : K) (ha : 0 < a) (hb : 0 < b) :
    ∑ k ∈ range (n + 1), bbPdf n a b k = 1 := by
  simp only [bbPdf_eq]
  rw [← Finset.sum_div, sum_range_eq_antidiagonal n (fun i j => (n.choose i : K) * (rising a i * rising b j)),
    ← rising_add]
  exact div_self (rising_ne_zero _ (add_pos ha hb) n)

/-- `Σ_k k·pdf(k) = n a/(a+b)` -/
theorem bb_sum_k_pdf (n : ℕ) (a b : K) (ha : 0 < a) (hb : 0 < b) :
    ∑ k ∈ range (n + 1), (k : K) * bbPdf n a b k = (n : K) * a / (a + b) := by
  simp only [bbPdf_eq]
  have h1 : ∀ k : ℕ, (k : K) * ((n.choose k : K) * (rising a k * rising b (n - k)) / rising (a + b) n)
      = ((k : K) * ((n.choose k : K) * (rising a k * rising b (n - k)))) / rising (a + b) n := by
    intro k; ring
  simp only [h1]
  rw [← Finset.sum_div,
    sum_range_eq_antidiagonal n (fun i j => (i : K) * ((n.choose i : K) * (rising a i * rising b j)))]
  have hab : a + b ≠ 0 := ne_of_gt (add_pos ha hb)
  cases n with
  | zero => simp
  | succ m =>
    rw [bb_first_sum, rising_shift (a + b) m]
    have hr : rising (a + b + 1) m ≠ 0 := rising_ne_zero _ (by linarith) m
    push_cast
    field_simp

/-- `Σ_k k(k−1)·pdf(k) = n(n−1) a(a+1)/((a+b)(a+b+1))` -/
theorem bb_sum_kk1_pdf (n : ℕ) (a b : K) (ha : 0 < a) (hb : 0 < b) :
    ∑ k ∈ range (n + 1), (k : K) * ((k : K) - 1) * bbPdf n a b k
      = (n : K) * ((n : K) - 1) * a * (a + 1) / ((a + b) * (a + b + 1)) := by
  simp only [bbPdf_eq]
  have h1 : ∀ k : ℕ, (k : K) * ((k : K) - 1) * ((n.choose k : K) * (rising a k * rising b (n - k)) / rising (a + b) n)
      = ((k : K) * ((k : K) - 1) * ((n.choose k : K) * (rising a k * rising b (n - k)))) / rising (a + b) n := by
    intro k; ring
  simp only [h1]
  rw [← Finset.sum_div,
    sum_range_eq_antidiagonal n (fun i j => (i : K) * ((i : K) - 1) * ((n.choose i : K) * (rising a i * rising b j)))]
  have hab : a + b ≠ 0 := ne_of_gt (add_pos ha hb)
  have hab1 : a + b + 1 ≠ 0 := ne_of_gt (by linarith)
  match n with
  | 0 => simp
  | 1 =>
    rw [Finset.Nat.sum_antidiagonal_succ]
    simp
  | m + 2 =>
    rw [bb_second_sum, rising_shift (a + b) (m + 1), rising_shift (a + b + 1) m]
    have hr : rising (a + b + 1 + 1) m ≠ 0 := rising_ne_zero _ (by linarith) m
    have : a + b + 2 = a + b + 1 + 1 := by ring
    rw [this]
    push_cast
    field_simp
    ring

/-- `Σ_k k(k−1)(k−2)·pdf(k) = n(n−1)(n−2) a(a+1)(a+2)/((a+b)(a+b+1)(a+b+2))` -/
theorem bb_sum_kk1k2_pdf (n : ℕ) (a b : K) (ha : 0 < a) (hb : 0 < b) :
    ∑ k ∈ range (n + 1), (k : K) * (((k : K) - 1) * ((k : K) - 2)) * bbPdf n a b k
      = (n : K) * ((n : K) - 1) * ((n : K) - 2) * a * (a + 1) * (a + 2) / ((a + b) * (a + b + 1) * (a + b + 2)) := by
  simp only [bbPdf_eq]
  have h1 : ∀ k : ℕ, (k : K) * (((k : K) - 1) * ((k : K) - 2)) * ((n.choose k : K) * (rising a k * rising b (n - k)) / rising (a + b) n)
      = ((k : K) * (((k : K) - 1) * ((k : K) - 2)) * ((n.choose k : K) * (rising a k * rising b (n - k)))) / rising (a + b) n := by
    intro k; ring
  simp only [h1]
  rw [← Finset.sum_div,
    sum_range_eq_antidiagonal n (fun i j => (i : K) * (((i : K) - 1) * ((i : K) - 2)) * ((n.choose i : K) * (rising a i * rising b j)))]
  have hab : a + b ≠ 0 := ne_of_gt (add_pos ha hb)
  have hab1 : a + b + 1 ≠ 0 := ne_of_gt (by linarith)
  have hab2 : a + b + 2 ≠ 0 := ne_of_gt (by linarith)
  by_cases hn : n < 3
  · have hz : ∑ ij ∈ antidiagonal n, (ij.1 : K) * (((ij.1 : K) - 1) * ((ij.1 : K) - 2)) * ((n.choose ij.1 : K) * (rising a ij.1 * rising b ij.2)) = 0 := by
      apply Finset.sum_eq_zero
      intro ij hij
      have h12 : ij.1 + ij.2 = n := mem_antidiagonal.mp hij
      have h3 : ij.1 < 3 := by omega
      have : (ij.1 : K) * (((ij.1 : K) - 1) * ((ij.1 : K) - 2)) = 0 := by
        interval_cases ij.1 <;> norm_num
      rw [this, zero_mul]
    rw [hz, zero_div]
    have : (n : K) * ((n : K) - 1) * ((n : K) - 2) = 0 := by
      interval_cases n <;> norm_num
    rw [this]; simp
  · obtain ⟨m, rfl⟩ : ∃ m, n = m + 3 := ⟨n - 3, by omega⟩
    rw [bb_third_sum, rising_shift (a + b) (m + 2), rising_shift (a + b + 1) (m + 1), rising_shift (a + b + 1 + 1) m]
    have hr : rising (a + b + 1 + 1 + 1) m ≠ 0 := rising_ne_zero _ (by linarith) m
    have e3 : a + b + 3 = a + b + 1 + 1 + 1 := by ring
    have e2 : a + b + 2 = a + b + 1 + 1 := by ring
    rw [e3, e2]
    push_cast
    field_simp
    ring

end ordered
end QE.C19
