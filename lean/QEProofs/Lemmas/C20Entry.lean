/-
  Lemmas for C20, part 9: the entry points of LocalInteraction (`playSchedule`, `tsSchedule`,
  `liRun`, `liRows`).
-/
import QEProofs.Lemmas.C20Li
namespace QE.C20

/-- `mapM` in `Except`: a successful result has one entry per input, each the successful image -/
theorem mapM_except_ok {β γ ε : Type} (f : β → Except ε γ) :
    ∀ (l : List β) (r : List γ), l.mapM f = .ok r →
      r.length = l.length ∧ ∀ t (h : t < l.length) (h' : t < r.length), f l[t] = .ok r[t] := by
  intro l
  induction l with
  | nil => intro r h; simp [List.mapM_nil, pure, Except.pure] at h; subst h; simp
  | cons a rest ih =>
    intro r h
    rw [List.mapM_cons] at h
    cases hfa : f a with
    | error e => rw [hfa] at h; simp [bind, Except.bind] at h
    | ok b =>
      rw [hfa] at h
      cases hrest : rest.mapM f with
      | error e => rw [hrest] at h; simp [bind, Except.bind] at h
      | ok bs =>
        rw [hrest] at h
        simp [bind, Except.bind, pure, Except.pure] at h
        subst h
        obtain ⟨h1, h2⟩ := ih bs hrest
        refine ⟨by simp [h1], ?_⟩
        intro t ht ht'
        cases t with
        | zero => simpa using hfa
        | succ t => simpa using h2 t (by simpa using ht) (by simpa using ht')

/-- … and `mapM` fails as soon as one image fails -/
theorem mapM_except_error {β γ ε : Type} (f : β → Except ε γ) :
    ∀ (l : List β), (∃ t, t ∈ l ∧ ∃ e, f t = .error e) → ∃ e, l.mapM f = .error e := by
  intro l
  induction l with
  | nil => rintro ⟨t, ht, _⟩; simp at ht
  | cons a rest ih =>
    rintro ⟨t, ht, e, he⟩
    rw [List.mapM_cons]
    cases hfa : f a with
    | error e' => exact ⟨e', by simp [bind, Except.bind]⟩
    | ok b =>
      have hin : t ∈ rest := by
        rcases List.mem_cons.1 ht with h | h
        · subst h; rw [hfa] at he; cases he
        · exact h
      obtain ⟨e'', he''⟩ := ih ⟨t, hin, e, he⟩
      exact ⟨e'', by simp [bind, Except.bind, he'']⟩

/-- `mapM` succeeds when every image succeeds -/
theorem mapM_except_ok_of_all {β γ ε : Type} (f : β → Except ε γ) :
    ∀ (l : List β), (∀ t ∈ l, ∃ b, f t = .ok b) → ∃ r, l.mapM f = .ok r := by
  intro l
  induction l with
  | nil => intro _; exact ⟨[], rfl⟩
  | cons a rest ih =>
    intro h
    obtain ⟨b, hb⟩ := h a (by simp)
    obtain ⟨bs, hbs⟩ := ih (fun t ht => h t (List.mem_cons_of_mem _ ht))
    exact ⟨b :: bs, by rw [List.mapM_cons, hb, hbs]; rfl⟩

section li
variable {K : Type} [CommRing K] [LinearOrder K] [IsStrictOrderedRing K]

/-- running any list of revising sets keeps the profile's length and keeps every action in range -/
theorem liRun_range (G : Game K) (adj : List (List K)) (hn : 0 < G.A.length) :
    ∀ (sch : List (List Nat)) (s : List Nat × List Nat), (∀ v ∈ s.1, v < G.A.length) →
      (liRun G adj sch s).1.length = s.1.length ∧ ∀ v ∈ (liRun G adj sch s).1, v < G.A.length := by
  intro sch
  induction sch with
  | nil => intro s h; exact ⟨rfl, h⟩
  | cons revs rest ih =>
    intro s h
    have hstep : liRun G adj (revs :: rest) s = liRun G adj rest (liPlay G adj revs s.1 s.2) := rfl
    have hp : (liPlay G adj revs s.1 s.2).1.length = s.1.length ∧
        ∀ v ∈ (liPlay G adj revs s.1 s.2).1, v < G.A.length := by
      rw [liPlay_eq_foldl]
      exact ⟨liFold_length G adj s.1 revs (s.1, s.2), liFold_range G adj s.1 hn revs (s.1, s.2) h⟩
    obtain ⟨h1, h2⟩ := ih _ hp.2
    rw [hstep]
    exact ⟨by rw [h1, hp.1], h2⟩

theorem liRows_spec (G : Game K) (adj : List (List K)) (hn : 0 < G.A.length) :
    ∀ (periods : List (List (List Nat))) (s : List Nat × List Nat), (∀ v ∈ s.1, v < G.A.length) →
      (liRows G adj periods s).length = periods.length + 1 ∧ (liRows G adj periods s).head? = some s ∧
      ∀ t ∈ liRows G adj periods s, t.1.length = s.1.length ∧ ∀ v ∈ t.1, v < G.A.length := by
  intro periods
  induction periods with
  | nil => intro s h; simp [liRows]; exact h
  | cons per rest ih =>
    intro s h
    obtain ⟨hl, hr⟩ := liRun_range G adj hn per s h
    obtain ⟨i1, _, i3⟩ := ih (liRun G adj per s) hr
    refine ⟨by simp [liRows, i1], by simp [liRows], ?_⟩
    intro t ht
    simp only [liRows, List.mem_cons] at ht
    rcases ht with rfl | ht
    · exact ⟨rfl, h⟩
    · obtain ⟨j1, j2⟩ := i3 t ht
      exact ⟨by rw [j1, hl], j2⟩

end li
end QE.C20
