/-
  Lemmas for property C05 (Lemke-Howson), lexicographic machinery for one tableau with `L`
  rows, `N` variable columns, right-hand side in column `N`, slack block `ss .. ss+L-1`
  (identity in the initial tableau `T0`): every tableau met by the exact iteration
  * has its rows in the span of the rows of `T0`   (`C04.RowsSpan`),
  * has lexicographically positive rows along `rhs, ss, ss+1, …` (`TLex`),
  so the lexicographic ratio test always reports `found` and returns the unique strict
  lexicographic minimiser (`C11.lexMinRatio_strict`).
  Reuses: C04Dual/C04Tie (`InSpan`, `span_coeff`, `lexLoop_false`), C11LexMin/C11LexPos/C11Rev
  (`LexPosOn` algebra, `lexMinRatio_strict`).
-/
import QEProofs.Lemmas.C05Bound
import QEProofs.Lemmas.C04Tie
import QEProofs.Lemmas.C11LexPos
import QEProofs.Lemmas.C11Rev
import Mathlib.Tactic.FieldSimp

namespace QE.C05
open QE QE.Pivot Finset

set_option linter.unusedSectionVars false
set_option linter.unusedVariables false
variable {K : Type} [Field K] [LinearOrder K] [IsStrictOrderedRing K]

/-- rows lexicographically positive along `rhs, ss, ss+1, …, ss+L-1` -/
def TLex (T : M K) (L N ss : ℕ) : Prop :=
  ∀ i, i < L → C11.LexPosOn (fun j => T.get i j) (N :: (List.range L).map (· + ss))

/-- what is used of an initial tableau -/
structure TInit (T0 : M K) (L N ss : ℕ) : Prop where
  sh : TShape T0 L N
  hss : ss + L ≤ N
  hid : ∀ q q', q < L → q' < L → T0.get q (ss + q') = if q = q' then 1 else 0
  nonneg : ∀ i j, i < L → j < N → 0 ≤ T0.get i j
  colpos : ∀ c, c < N → ∃ i0, i0 < L ∧ 0 < T0.get i0 c

/-- the invariant of one tableau -/
structure TInv (T0 T : M K) (b : List ℕ) (L N ss : ℕ) : Prop where
  sh : TShape T L N
  can : TCanon T b L N
  rhs : TRhs T L N
  sol : ∀ z, RowsSat T z L ↔ RowsSat T0 z L
  span : C04.RowsSpan T0 T L N
  lex : TLex T L N ss

theorem tspan_pivot (T0 T : M K) (L N c r : ℕ) (hs : TShape T L N) (hr : r < L)
    (h : C04.RowsSpan T0 T L N) : C04.RowsSpan T0 (pivot T c r) L N := by
  intro i hi
  by_cases hir : i = r
  · subst hir
    apply C04.inSpan_congr T0 L N (fun j => (1 / T.get i c) * T.get i j) _ _
      (C04.inSpan_smul T0 L N _ _ (h i hi))
    intro j hj
    rw [pivot_get_r T c i j (by rw [hs.1]; omega) (by rw [hs.2]; exact hj)]; ring
  · apply C04.inSpan_congr T0 L N (fun j => T.get i j + (-(T.get i c / T.get r c)) * T.get r j) _ _
      (C04.inSpan_add T0 L N _ _ (h i hi) (C04.inSpan_smul T0 L N _ _ (h r hr)))
    intro j hj
    rw [pivot_get_i T c r i j (by rw [hs.1]; omega) (by rw [hs.2]; exact hj) hir]; ring

/-- **no unresolved tie**: if the entering column has a positive entry, the lexicographic ratio
    test (tolerances 0) reports `found` -/
theorem found_of_pos (T0 T : M K) (b : List ℕ) (L N ss c : ℕ) (hs : TShape T L N)
    (hc : TCanon T b L N) (hss : ss + L ≤ N)
    (hid : ∀ q q', q < L → q' < L → T0.get q (ss + q') = if q = q' then 1 else 0)
    (hspan : C04.RowsSpan T0 T L N) (hex : ∃ k, k < L ∧ 0 < T.get k c) :
    (lexMinRatio T c ss (0 : K) 0).1 = true := by
  by_contra hf
  have hnf : (lexMinRatio T c ss (0 : K) 0).1 = false := by simpa using hf
  rcases lexMinRatio_not_found T c ss 0 0 hnf with hall | htie
  · obtain ⟨k, hk, hpos⟩ := hex
    exact absurd (hall k (by rw [hs.1]; exact hk)) (not_le.mpr hpos)
  · rw [hs.1, hs.2, Nat.add_sub_cancel] at htie
    set a0 := minRatioNoTie T c N (List.range L) (0 : K) 0 with ha0
    have hloop : (lexLoop T c (0 : K) 0 ((List.range L).map (· + ss)) a0).1 = false := by
      unfold lexMinRatio at hnf
      rw [hs.1, hs.2, Nat.add_sub_cancel] at hnf
      rw [← ha0] at hnf
      have h1 : ¬ a0.length = 1 := by omega
      rw [if_neg h1, if_pos htie] at hnf
      exact hnf
    have hpos0 : ∀ i ∈ a0, i ∈ List.range L ∧ (0 : K) < T.get i c :=
      fun i hi => minRatioNoTie_mem T c N (List.range L) 0 0 i hi
    obtain ⟨gnd, glen, gmem, gtie⟩ := lexLoop_false T c 0 ((List.range L).map (· + ss)) a0
      (minRatioNoTie_nodup _ _ _ _ _ _ List.nodup_range) htie (fun i hi => (hpos0 i hi).2) hloop
    set af := (lexLoop T c (0 : K) 0 ((List.range L).map (· + ss)) a0).2 with haf
    obtain ⟨i, i', hi, hi', hne⟩ : ∃ i i', i ∈ af ∧ i' ∈ af ∧ i ≠ i' := by
      match hm : af, gnd, glen with
      | x :: y :: rest, hnd, _ =>
        refine ⟨x, y, by simp, by simp, ?_⟩
        intro e; subst e; simp at hnd
      | [], _, hl => simp at hl
      | [x], _, hl => simp at hl
    have hiL : i < L := List.mem_range.mp (hpos0 i (gmem i hi)).1
    have hi'L : i' < L := List.mem_range.mp (hpos0 i' (gmem i' hi')).1
    have hpi : (0 : K) < T.get i c := (hpos0 i (gmem i hi)).2
    have hpi' : (0 : K) < T.get i' c := (hpos0 i' (gmem i' hi')).2
    have hblock : ∀ q, q < L → T.get i (ss + q) / T.get i c = T.get i' (ss + q) / T.get i' c := by
      intro q hq
      by_cases hqc : ss + q = c
      · rw [hqc, div_self (ne_of_gt hpi), div_self (ne_of_gt hpi')]
      · have hmemj : q + ss ∈ (List.range L).map (· + ss) :=
          List.mem_map.mpr ⟨q, List.mem_range.mpr hq, rfl⟩
        have := gtie (q + ss) hmemj (by omega) i hi i' hi'
        rw [Nat.add_comm ss q]; exact this
    have hci := C04.span_coeff T0 L N ss (fun j => T.get i j) hss hid (hspan i hiL)
    have hci' := C04.span_coeff T0 L N ss (fun j => T.get i' j) hss hid (hspan i' hi'L)
    have hall : ∀ j, j < N + 1 → T.get i j / T.get i c = T.get i' j / T.get i' c := by
      intro j hj
      rw [hci j hj, hci' j hj, Finset.sum_div, Finset.sum_div]
      apply Finset.sum_congr rfl
      intro q hq
      have := hblock q (Finset.mem_range.mp hq)
      rw [mul_div_right_comm, mul_div_right_comm, this]
    have hb := (hc.2 i hiL)
    have h1 := hb.2 i hiL
    have h2 := hb.2 i' hi'L
    rw [if_pos rfl] at h1
    rw [if_neg (fun e => hne e.symm)] at h2
    have := hall (b.getD i 0) (by omega)
    rw [h1, h2, zero_div] at this
    exact (ne_of_gt (div_pos one_pos hpi)) this

theorem lexList_eq (T : M K) (L N ss : ℕ) (hs : TShape T L N) :
    (T.nc - 1) :: (List.range T.nr).map (· + ss) = N :: (List.range L).map (· + ss) := by
  rw [hs.1, hs.2, Nat.add_sub_cancel]

theorem lexList_lt (L N ss : ℕ) (hss : ss + L ≤ N) (j : ℕ)
    (hj : j ∈ N :: (List.range L).map (· + ss)) : j < N + 1 := by
  rcases List.mem_cons.mp hj with e | e
  · omega
  · obtain ⟨q, hq, rfl⟩ := List.mem_map.mp e
    have := List.mem_range.mp hq; omega

/-- the pivot chosen by the lexicographic ratio test keeps the rows lexicographically positive -/
theorem tlex_pivot (T : M K) (L N ss c : ℕ) (hs : TShape T L N) (hss : ss + L ≤ N)
    (hlp : TLex T L N ss) (hf : (lexMinRatio T c ss (0 : K) 0).1 = true) :
    TLex (pivot T c (lexMinRatio T c ss (0 : K) 0).2) L N ss := by
  obtain ⟨hr, hpos⟩ := lexMinRatio_found_pos T c ss (0 : K) 0 hf
  have hstrict := C11.lexMinRatio_strict T c ss hf
  set r := (lexMinRatio T c ss (0 : K) 0).2 with hrdef
  have hL := lexList_eq T L N ss hs
  have hmemL : ∀ j ∈ N :: (List.range L).map (· + ss), j < T.nc := by
    intro j hj; rw [hs.2]; exact lexList_lt L N ss hss j hj
  have hrL : r < L := by rw [hs.1] at hr; exact hr
  intro i hi
  by_cases hir : i = r
  · rw [hir]
    apply C11.lexPosOn_congr (fun j => (T.get r c)⁻¹ * T.get r j)
    · intro j hj
      show _ = (pivot T c r).get r j
      rw [pivot_get_r T c r j hr (hmemL j hj), div_eq_inv_mul]
    · exact C11.lexPosOn_smul _ _ (inv_pos.mpr hpos) _ (hlp r hrL)
  · rcases le_or_gt (T.get i c) 0 with hm | hm
    · apply C11.lexPosOn_congr (fun j => T.get i j + (- T.get i c / T.get r c) * T.get r j)
      · intro j hj
        show _ = (pivot T c r).get i j
        rw [pivot_get_i T c r i j (by rw [hs.1]; exact hi) (hmemL j hj) hir]; ring
      · exact C11.lexPosOn_add_nonneg_smul _ _ _
          (div_nonneg (by linarith) (le_of_lt hpos)) _ (hlp i hi) (hlp r hrL)
    · apply C11.lexPosOn_congr (fun j => T.get i c * C11.ratioDiff T c r i j)
      · intro j hj
        show _ = (pivot T c r).get i j
        rw [pivot_get_i T c r i j (by rw [hs.1]; exact hi) (hmemL j hj) hir]
        unfold C11.ratioDiff
        field_simp
      · apply C11.lexPosOn_smul _ _ hm
        have := hstrict i (by rw [hs.1]; exact hi) hir hm
        rwa [hL] at this

/-- **one exact pivoting step keeps the whole invariant**; the ratio test reports `found`, the
    pivot element is positive, and the row is the strict lexicographic minimiser -/
theorem tinv_step (T0 T : M K) (b : List ℕ) (L N ss c : ℕ) (h0 : TInit T0 L N ss)
    (h : TInv T0 T b L N ss) (hcN : c < N) :
    (lexMinRatio T c ss (0 : K) 0).1 = true ∧
    (lexMinRatio T c ss (0 : K) 0).2 < L ∧
    0 < T.get (lexMinRatio T c ss (0 : K) 0).2 c ∧
    TInv T0 (pivot T c (lexMinRatio T c ss (0 : K) 0).2)
      (b.set (lexMinRatio T c ss (0 : K) 0).2 c) L N ss := by
  have hpos := col_has_pos T T0 b L N c h.sh h0.sh h.can h.sol h0.nonneg hcN (h0.colpos c hcN)
  have hf := found_of_pos T0 T b L N ss c h.sh h.can h0.hss h0.hid h.span hpos
  obtain ⟨hr, hsh, hcan, hrhs, hsol⟩ :=
    tab_step' T T0 b L N c ss h.sh h0.sh h.can h.rhs h.sol h0.nonneg hcN (h0.colpos c hcN)
  have hp := (lexMinRatio_found_pos T c ss (0 : K) 0 hf).2
  exact ⟨hf, hr, hp, ⟨hsh, hcan, hrhs, hsol, tspan_pivot T0 T L N c _ h.sh hr h.span,
    tlex_pivot T L N ss c h.sh h0.hss h.lex hf⟩⟩

end QE.C05
