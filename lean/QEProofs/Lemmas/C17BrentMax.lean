/-
  Lemmas for C17: brent_max — the bracket keeps the mode of a strictly unimodal function,
  `fx = -f xf`, call counting and the meaning of the normal exit.
-/
import QEProofs.Lemmas.C17Basic
namespace QE.C17
set_option linter.unusedSectionVars false

section
variable {K : Type} [Field K] [LinearOrder K] [IsStrictOrderedRing K]

/-- strictly unimodal with mode `m`: increasing up to `m`, decreasing after it -/
def Unimodal (f : K → K) (m : K) : Prop :=
  (∀ u v, u < v → v ≤ m → f u < f v) ∧ (∀ u v, m ≤ u → u < v → f v < f u)

/-- what the loop maintains (for a unimodal objective with mode `m`) -/
structure BMInv (f : K → K) (sqrtEps xtol m : K) (s : BM K) : Prop where
  hfx : s.fx = -f s.xf
  ham : s.a ≤ m
  hmb : m ≤ s.b
  htol1 : s.tol1 = sqrtEps * |s.xf| + xtol / 3
  htol2 : s.tol2 = 2 * s.tol1
  hxm : s.xm = 1 / 2 * (s.a + s.b)

theorem bmUpdate_a (sqrtEps xtol : K) (s : BM K) (rat e x fu : K) :
    (bmUpdate sqrtEps xtol s rat e x fu).a =
      if fu ≤ s.fx then (if s.xf ≤ x then s.xf else s.a) else (if x < s.xf then x else s.a) := by
  unfold bmUpdate
  by_cases h1 : fu ≤ s.fx
  · by_cases h2 : s.xf ≤ x <;> simp [h1, h2]
  · by_cases h2 : x < s.xf <;> simp only [h1, h2, if_true, if_false] <;> (split <;> [rfl; (split <;> rfl)])

theorem bmUpdate_b (sqrtEps xtol : K) (s : BM K) (rat e x fu : K) :
    (bmUpdate sqrtEps xtol s rat e x fu).b =
      if fu ≤ s.fx then (if s.xf ≤ x then s.b else s.xf) else (if x < s.xf then s.b else x) := by
  unfold bmUpdate
  by_cases h1 : fu ≤ s.fx
  · by_cases h2 : s.xf ≤ x <;> simp [h1, h2]
  · by_cases h2 : x < s.xf <;> simp only [h1, h2, if_true, if_false] <;> (split <;> [rfl; (split <;> rfl)])

theorem bmUpdate_xf (sqrtEps xtol : K) (s : BM K) (rat e x fu : K) :
    (bmUpdate sqrtEps xtol s rat e x fu).xf = if fu ≤ s.fx then x else s.xf := by
  unfold bmUpdate
  by_cases h1 : fu ≤ s.fx
  · by_cases h2 : s.xf ≤ x <;> simp [h1, h2]
  · by_cases h2 : x < s.xf <;> simp only [h1, h2, if_true, if_false] <;> (split <;> [rfl; (split <;> rfl)])

theorem bmUpdate_fx (sqrtEps xtol : K) (s : BM K) (rat e x fu : K) :
    (bmUpdate sqrtEps xtol s rat e x fu).fx = if fu ≤ s.fx then fu else s.fx := by
  unfold bmUpdate
  by_cases h1 : fu ≤ s.fx
  · by_cases h2 : s.xf ≤ x <;> simp [h1, h2]
  · by_cases h2 : x < s.xf <;> simp only [h1, h2, if_true, if_false] <;> (split <;> [rfl; (split <;> rfl)])

theorem bmUpdate_num (sqrtEps xtol : K) (s : BM K) (rat e x fu : K) :
    (bmUpdate sqrtEps xtol s rat e x fu).num = s.num + 1 := rfl

theorem bmUpdate_tol1 (sqrtEps xtol : K) (s : BM K) (rat e x fu : K) :
    (bmUpdate sqrtEps xtol s rat e x fu).tol1
      = sqrtEps * absv (bmUpdate sqrtEps xtol s rat e x fu).xf + xtol / three := rfl

theorem bmUpdate_tol2 (sqrtEps xtol : K) (s : BM K) (rat e x fu : K) :
    (bmUpdate sqrtEps xtol s rat e x fu).tol2 = two * (bmUpdate sqrtEps xtol s rat e x fu).tol1 := rfl

theorem bmUpdate_xm (sqrtEps xtol : K) (s : BM K) (rat e x fu : K) :
    (bmUpdate sqrtEps xtol s rat e x fu).xm
      = half * ((bmUpdate sqrtEps xtol s rat e x fu).a + (bmUpdate sqrtEps xtol s rat e x fu).b) := rfl

/-- the new evaluation point is never the current best point (steps are at least `tol1 > 0`) -/
theorem bmPoint_ne (s : BM K) (rat : K) (h : 0 < s.tol1) : bmPoint s rat ≠ s.xf := by
  unfold bmPoint
  have hm : 0 < npmax (absv rat) s.tol1 := by
    unfold npmax; split
    · exact h
    · next hc => exact lt_of_lt_of_le h (not_lt.mp hc)
  have hsi : (if (rat == 0) = true then sgn rat + 1 else sgn rat) = (1 : K) ∨
      (if (rat == 0) = true then sgn rat + 1 else sgn rat) = (-1 : K) := by
    by_cases h0 : rat = 0
    · left; simp [h0, sgn]
    · rw [if_neg (by simpa using h0)]
      unfold sgn
      rcases lt_or_gt_of_ne h0 with h1 | h1
      · right; simp [h1]
      · left; simp [h1, not_lt.mpr h1.le]
  intro heq
  have : (if (rat == 0) = true then sgn rat + 1 else sgn rat) * npmax (absv rat) s.tol1 = 0 := by
    linarith
  rcases hsi with h1 | h1 <;> rw [h1] at this <;> linarith

theorem BMInv.tol1_pos {f : K → K} {sqrtEps xtol m : K} {s : BM K} (h : BMInv f sqrtEps xtol m s)
    (hse : 0 ≤ sqrtEps) (hx : 0 < xtol) : 0 < s.tol1 := by
  rw [h.htol1]
  have := mul_nonneg hse (abs_nonneg s.xf)
  have : 0 < xtol / 3 := by positivity
  linarith

/-- **one pass keeps the mode bracketed.** For a strictly unimodal `f` with mode `m ∈ [a, b]`, after
    evaluating any point `x ≠ xf` the updated bracket still contains `m`, and `fx = −f xf`. -/
theorem bmUpdate_inv (f : K → K) (sqrtEps xtol m : K) (s : BM K) (rat e x : K)
    (hu : Unimodal f m) (h : BMInv f sqrtEps xtol m s) (hne : x ≠ s.xf) :
    BMInv f sqrtEps xtol m (bmUpdate sqrtEps xtol s rat e x (-f x)) := by
  obtain ⟨hinc, hdec⟩ := hu
  have hfx := h.hfx
  refine ⟨?_, ?_, ?_, ?_, ?_, ?_⟩
  · rw [bmUpdate_fx, bmUpdate_xf]; split <;> simp [hfx]
  · rw [bmUpdate_a]
    by_cases h1 : -f x ≤ s.fx
    · rw [if_pos h1]
      by_cases h2 : s.xf ≤ x
      · rw [if_pos h2]
        have hlt : s.xf < x := lt_of_le_of_ne h2 (Ne.symm hne)
        by_contra hc
        have := hdec s.xf x (not_le.mp hc).le hlt
        rw [hfx] at h1; linarith
      · rw [if_neg h2]; exact h.ham
    · rw [if_neg h1]
      by_cases h2 : x < s.xf
      · rw [if_pos h2]
        by_contra hc
        have := hdec x s.xf (not_le.mp hc).le h2
        rw [hfx] at h1; linarith
      · rw [if_neg h2]; exact h.ham
  · rw [bmUpdate_b]
    by_cases h1 : -f x ≤ s.fx
    · rw [if_pos h1]
      by_cases h2 : s.xf ≤ x
      · rw [if_pos h2]; exact h.hmb
      · rw [if_neg h2]
        by_contra hc
        have := hinc x s.xf (not_le.mp h2) (not_le.mp hc).le
        rw [hfx] at h1; linarith
    · rw [if_neg h1]
      by_cases h2 : x < s.xf
      · rw [if_pos h2]; exact h.hmb
      · rw [if_neg h2]
        have hlt : s.xf < x := lt_of_le_of_ne (not_lt.mp h2) (Ne.symm hne)
        by_contra hc
        have := hinc s.xf x hlt (not_le.mp hc).le
        rw [hfx] at h1; linarith
  · rw [bmUpdate_tol1, absv_eq_abs, three_eq]
  · rw [bmUpdate_tol2, two_eq]
  · rw [bmUpdate_xm, half_eq]

/-- **the loop.** Invariant at exit; the normal exit (`status_flag = 0`) means the `while` test
    failed; `status_flag = 1` means `num ≥ maxfun`; `num` grows by one per pass. -/
theorem bmLoop_spec (f : K → K) (sqrtEps gm xtol m : K) (maxfun : Int)
    (hu : Unimodal f m) (hse : 0 ≤ sqrtEps) (hx : 0 < xtol) :
    ∀ (fuel : Nat) (s : BM K), BMInv f sqrtEps xtol m s →
    (let r := bmLoop f sqrtEps gm xtol maxfun fuel s
     BMInv f sqrtEps xtol m r.1 ∧
     (r.2 = 0 → |r.1.xf - r.1.xm| ≤ r.1.tol2 - 1 / 2 * (r.1.b - r.1.a)) ∧
     (r.2 = 0 ∨ r.2 = 1) ∧
     (r.2 = 1 → maxfun ≤ (r.1.num : Int) ∨ r.1.num = s.num + fuel) ∧
     s.num ≤ r.1.num ∧ r.1.num ≤ s.num + fuel ∧
     (r.1.num ≠ s.num → (r.1.num : Int) ≤ max maxfun (s.num + 1))) := by
  intro fuel
  induction fuel with
  | zero => intro s h; simp [bmLoop, h]
  | succ fuel ih =>
    intro s h
    unfold bmLoop
    by_cases hw : s.tol2 - half * (s.b - s.a) < absv (s.xf - s.xm)
    · rw [if_pos hw]
      have hpos := h.tol1_pos hse hx
      have hne := bmPoint_ne s (bmChoose gm s).1 hpos
      have hinv := bmUpdate_inv f sqrtEps xtol m s (bmChoose gm s).1 (bmChoose gm s).2 _ hu h hne
      simp only
      generalize hs' : bmUpdate sqrtEps xtol s (bmChoose gm s).1 (bmChoose gm s).2
        (bmPoint s (bmChoose gm s).1) (-f (bmPoint s (bmChoose gm s).1)) = s' at hinv
      have hnum : s'.num = s.num + 1 := by rw [← hs']; rfl
      by_cases hm : maxfun ≤ (s'.num : Int)
      · rw [if_pos hm]
        refine ⟨hinv, by simp, by simp, fun _ => Or.inl hm, by simp; omega, by simp; omega, ?_⟩
        intro _; simp only; rw [hnum]; push_cast; exact le_max_right _ _
      · rw [if_neg hm]
        have := ih s' hinv
        simp only at this
        obtain ⟨a1, a2, a3, a4, a5, a6, a7⟩ := this
        refine ⟨a1, a2, a3, ?_, by omega, by omega, ?_⟩
        · intro h1; rcases a4 h1 with h2 | h2
          · exact Or.inl h2
          · right; omega
        · intro _
          by_cases he : (bmLoop f sqrtEps gm xtol maxfun fuel s').1.num = s'.num
          · rw [he, hnum]; push_cast; exact le_max_right _ _
          · have := a7 he
            have hm' : (s'.num : Int) + 1 ≤ maxfun := by omega
            rw [hnum] at hm'
            push_cast at hm'
            rw [hnum] at this; push_cast at this
            have : max maxfun ((s.num : Int) + 1 + 1) = maxfun := max_eq_left (by omega)
            omega
    · rw [if_neg hw]
      refine ⟨h, ?_, by simp, by simp, by simp, by simp, by simp⟩
      intro _
      simp only
      rw [absv_eq_abs, half_eq] at hw
      exact not_lt.mp hw

end
end QE.C17
