/-
  Lemmas for C02: the support of the GTH solution is exactly the communication class of the break
  index `c = m-1`, and that class is recurrent (closed).
-/
import QEModel.C02
import QEProofs.Lemmas.C02Gth
import QEProofs.Lemmas.C02Reach
import Mathlib.Data.Finset.Max
namespace QE.C02
open Finset

set_option linter.unusedSectionVars false
set_option linter.unusedVariables false

section
variable {K : Type} [Field K] [LinearOrder K] [IsStrictOrderedRing K]

theorem exists_pos_of_sumUpTo_pos (f : ℕ → K) (m : ℕ) (hnn : ∀ t, t < m → 0 ≤ f t)
    (h : 0 < sumUpTo f m) : ∃ t, t < m ∧ 0 < f t := by
  by_contra hc
  have hz : ∀ t ∈ range m, f t = 0 := by
    intro t ht
    have ht := mem_range.1 ht
    have : ¬ 0 < f t := fun hp => hc ⟨t, ht, hp⟩
    exact le_antisymm (not_lt.1 this) (hnn t ht)
  rw [sumUpTo_eq, sum_eq_zero hz] at h
  exact lt_irrefl _ h

/-- Along the recursion: positive entries of the result are reachable from the break index, and
    every pivot before the break has an edge-path to a larger index. `R` is any reflexive
    transitive relation containing the positive off-diagonal entries of the active block. -/
theorem gthRec_reach (n : ℕ) (R : ℕ → ℕ → Prop) (hrefl : ∀ a, R a a)
    (htrans : ∀ a b c, R a b → R b c → R a c) :
    ∀ (fuel k : ℕ) (A : M K), k + fuel + 1 = n → OffNonneg n A →
    (∀ i j, k ≤ i → k ≤ j → i < n → j < n → i ≠ j → 0 < A.get i j → R i j) →
    1 ≤ (gthRec n fuel k A).length
    ∧ (∀ t, t < (gthRec n fuel k A).length → 0 < (gthRec n fuel k A).getD t 0 →
          R (k + (gthRec n fuel k A).length - 1) (k + t))
    ∧ (∀ p, k ≤ p → p < k + (gthRec n fuel k A).length - 1 → ∃ l, p < l ∧ l < n ∧ R p l) := by
  intro fuel
  induction fuel with
  | zero =>
    intro k A hk hA hR
    simp only [gthRec, List.length_cons, List.length_nil]
    refine ⟨by omega, ?_, ?_⟩
    · intro t ht _
      have : t = 0 := by omega
      subst this
      have : k + (0 + 1) - 1 = k + 0 := by omega
      rw [this]; exact hrefl _
    · intro p hp1 hp2; omega
  | succ fuel ih =>
    intro k A hk hA hR
    have hkn : k < n := by omega
    rw [gthRec]
    try simp only
    by_cases hs : rowScale n A k ≤ 0
    · rw [if_pos hs]
      simp only [List.length_cons, List.length_nil]
      refine ⟨by omega, ?_, ?_⟩
      · intro t ht _
        have : t = 0 := by omega
        subst this
        have : k + (0 + 1) - 1 = k + 0 := by omega
        rw [this]; exact hrefl _
      · intro p hp1 hp2; omega
    · rw [if_neg hs]
      have hspos : 0 < rowScale n A k := not_le.1 hs
      set s := rowScale n A k with hsdef
      set A' := redStep n A k s with hA'
      have hA'nn : OffNonneg n A' := redStep_offNonneg n A k s hspos hA
      -- the reduced block's positive entries are still inside R
      have hR' : ∀ i j, k + 1 ≤ i → k + 1 ≤ j → i < n → j < n → i ≠ j → 0 < A'.get i j → R i j := by
        intro i j hi hj hin hjn hij hpos
        rw [hA', redStep_get n A k s i j hin hjn, if_pos (by omega), if_neg (by omega),
          if_pos (by omega)] at hpos
        by_cases h1 : 0 < A.get i j
        · exact hR i j (by omega) (by omega) hin hjn hij h1
        · have h0 : A.get i j = 0 :=
            le_antisymm (not_lt.1 h1) (hA i j hin hjn hij)
          rw [h0, zero_add] at hpos
          have hik : 0 ≤ A.get i k / s := div_nonneg (hA i k hin hkn (by omega)) hspos.le
          have hkj : 0 ≤ A.get k j := hA k j hkn hjn (by omega)
          have hik' : 0 < A.get i k / s := by
            rcases hik.lt_or_eq with h | h
            · exact h
            · rw [← h, zero_mul] at hpos; exact absurd hpos (lt_irrefl _)
          have hkj' : 0 < A.get k j := by
            rcases hkj.lt_or_eq with h | h
            · exact h
            · rw [← h, mul_zero] at hpos; exact absurd hpos (lt_irrefl _)
          have hik'' : 0 < A.get i k := by
            have := mul_pos hik' hspos
            rwa [div_mul_cancel₀ _ (ne_of_gt hspos)] at this
          exact htrans i k j (hR i k (by omega) (le_refl k) hin hkn (by omega) hik'')
            (hR k j (le_refl k) (by omega) hkn hjn (by omega) hkj')
      obtain ⟨hl1, hp1, hp2⟩ := ih (k+1) A' (by omega) hA'nn hR'
      obtain ⟨_, hnn', _, _⟩ := gthRec_null n fuel (k+1) A' (by omega) hA'nn
      have hlen' := gthRec_length n fuel (k+1) A'
      set xs := gthRec n fuel (k+1) A' with hxs
      have hc : k + (xs.length + 1) - 1 = k + 1 + xs.length - 1 := by omega
      simp only [List.length_cons]
      refine ⟨by omega, ?_, ?_⟩
      · intro t ht hpos
        rw [hc]
        cases t with
        | zero =>
          simp only [List.getD_cons_zero] at hpos
          unfold dotCol at hpos
          obtain ⟨t', ht', hterm⟩ := exists_pos_of_sumUpTo_pos _ _ (by
            intro t ht
            exact mul_nonneg (hnn' t) (hA'nn (k+1+t) k (by omega) hkn (by omega))) hpos
          have hx : 0 ≤ xs.getD t' 0 := hnn' t'
          have ha : 0 ≤ A'.get (k+1+t') k := hA'nn (k+1+t') k (by omega) hkn (by omega)
          have hx' : 0 < xs.getD t' 0 := by
            rcases hx.lt_or_eq with h | h
            · exact h
            · rw [← h, zero_mul] at hterm; exact absurd hterm (lt_irrefl _)
          have ha' : 0 < A'.get (k+1+t') k := by
            rcases ha.lt_or_eq with h | h
            · exact h
            · rw [← h, mul_zero] at hterm; exact absurd hterm (lt_irrefl _)
          rw [hA', redStep_get n A k s (k+1+t') k (by omega) hkn, if_pos (by omega), if_pos rfl] at ha'
          have ha'' : 0 < A.get (k+1+t') k := by
            have := mul_pos ha' hspos
            rwa [div_mul_cancel₀ _ (ne_of_gt hspos)] at this
          have r1 := hp1 t' ht' hx'
          have r2 := hR (k+1+t') k (by omega) (le_refl k) (by omega) hkn (by omega) ha''
          simpa using htrans _ _ _ r1 r2
        | succ t1 =>
          simp only [List.getD_cons_succ] at hpos
          have := hp1 t1 (by omega) hpos
          have e : k + (t1 + 1) = k + 1 + t1 := by omega
          rw [e]; exact this
      · intro p hpk hpc
        by_cases hpk' : p = k
        · subst hpk'
          rw [hsdef] at hspos
          unfold rowScale at hspos
          obtain ⟨t, ht, hpos⟩ := exists_pos_of_sumUpTo_pos _ _ (by
            intro t ht; exact hA p (p+1+t) hkn (by omega) (by omega)) hspos
          exact ⟨p+1+t, by omega, by omega, hR p (p+1+t) (le_refl p) (by omega) hkn (by omega) (by omega) hpos⟩
        · exact hp2 p (by omega) (by omega)

/-- **flow lemma**: a non-negative left null vector of the generator charges every state that a
    charged state has an edge to. -/
theorem null_closed (n : ℕ) (A : M K) (hA : OffNonneg n A) (z : ℕ → K)
    (hz : ∀ i, i < n → 0 ≤ z i) (b : ℕ) (hb : b < n)
    (hnull : ∑ i ∈ range n, z i * Qm (fun a b => A.get a b) 0 n i b = 0)
    (a : ℕ) (ha : a < n) (hab : a ≠ b) (hza : 0 < z a) (hedge : 0 < A.get a b) : 0 < z b := by
  have hbm : b ∈ range n := mem_range.2 hb
  rw [← Finset.add_sum_erase (range n) _ hbm] at hnull
  have hrest : ∑ i ∈ (range n).erase b, z i * Qm (fun a b => A.get a b) 0 n i b
      = ∑ i ∈ (range n).erase b, z i * A.get i b := by
    apply sum_congr rfl
    intro i hi
    have : i ≠ b := (mem_erase.1 hi).1
    simp [Qm, this]
  rw [hrest] at hnull
  have hpos : 0 < ∑ i ∈ (range n).erase b, z i * A.get i b := by
    have ham : a ∈ (range n).erase b := mem_erase.2 ⟨hab, mem_range.2 ha⟩
    have hle := single_le_sum (f := fun i => z i * A.get i b) (s := (range n).erase b) (by
      intro i hi
      have hi' := mem_erase.1 hi
      exact mul_nonneg (hz i (mem_range.1 hi'.2)) (hA i b (mem_range.1 hi'.2) hb hi'.1)) ham
    have : 0 < z a * A.get a b := mul_pos hza hedge
    linarith
  have hzb : 0 ≤ z b := hz b hb
  rcases hzb.lt_or_eq with h | h
  · exact h
  · rw [← h, zero_mul, zero_add] at hnull
    rw [hnull] at hpos
    exact absurd hpos (lt_irrefl _)

theorem Rch_edge (n : ℕ) (A : M K) (i j : ℕ) (hi : i < n) (hj : j < n) (h : 0 < A.get i j) :
    Rch n (adjB A) i j := by
  apply Relation.ReflTransGen.single
  refine ⟨hi, hj, ?_⟩
  unfold adjB
  simp only [Bool.not_eq_true', decide_eq_false_iff_not, not_le]
  exact h

theorem adjB_pos (A : M K) (a b : ℕ) (h : adjB A a b = true) : 0 < A.get a b := by
  unfold adjB at h
  simpa only [Bool.not_eq_true', decide_eq_false_iff_not, not_le] using h

/-- **Support of the GTH solution.** With `c = m - 1` the break index: `c` is a recurrent state of
    the digraph of positive entries, and the solution is positive exactly on the states reachable
    from `c` — the communication class of `c`, a recurrent class. -/
theorem gth_support_full (n : ℕ) (hn : 1 ≤ n) (A : M K) (hA : OffNonneg n A) :
    (reduce n (n - 1) 0 A).2 - 1 < n
    ∧ Recurrent n (adjB A) ((reduce n (n - 1) 0 A).2 - 1)
    ∧ ∀ j, j < n → (0 < (gthSolve n A).getD j 0 ↔ Rch n (adjB A) ((reduce n (n - 1) 0 A).2 - 1) j) := by
  classical
  obtain ⟨hm1, hmn, hcpos, hzero⟩ := gth_support_aux n hn A hA
  obtain ⟨_, hx0, _, hnull⟩ := gthSolve_stationary_aux n hn A hA
  set m := (reduce n (n - 1) 0 A).2 with hm
  have hnormpos := gthRaw_norm_pos n hn A hA
  have hlen : (gthRec n (n-1) 0 A).length = m := by
    rw [← gthRaw_eq_rec n hn A, gthRaw_length n hn A]
  obtain ⟨_, hp1, hp2⟩ := gthRec_reach n (Rch n (adjB A)) (fun a => Relation.ReflTransGen.refl)
    (fun a b c h1 h2 => h1.trans h2) (n-1) 0 A (by omega) hA
    (fun i j _ _ hi hj _ hpos => Rch_edge n A i j hi hj hpos)
  rw [hlen] at hp1 hp2
  simp only [Nat.zero_add] at hp1 hp2
  -- (a) positive ⇒ reachable from c
  have hfwd : ∀ j, j < n → 0 < (gthSolve n A).getD j 0 → Rch n (adjB A) (m - 1) j := by
    intro j hj hpos
    have hjm : j < m := by
      by_contra hc
      rw [hzero j (by omega)] at hpos
      exact lt_irrefl _ hpos
    rw [gthSolve_getD, gthRaw_eq_rec n hn A] at hpos
    have hxs : 0 < (gthRec n (n-1) 0 A).getD j 0 := by
      have := mul_pos hpos hnormpos
      rw [gthRaw_eq_rec n hn A] at this
      rwa [div_mul_cancel₀] at this
      rw [← gthRaw_eq_rec n hn A]; exact ne_of_gt hnormpos
    exact hp1 j hjm hxs
  -- (b) reachable from c ⇒ positive
  have hbwd : ∀ j, Rch n (adjB A) (m - 1) j → 0 < (gthSolve n A).getD j 0 := by
    intro j hr
    induction hr with
    | refl => exact hcpos
    | @tail a b _ hab ih =>
      by_cases heq : a = b
      · subst heq; exact ih
      · exact null_closed n A hA (fun i => (gthSolve n A).getD i 0) (fun i _ => hx0 i) b hab.2.1
          (hnull b hab.2.1) a hab.1 heq ih (adjB_pos A a b hab.2.2)
  refine ⟨by omega, ?_, fun j hj => ⟨hfwd j hj, hbwd j⟩⟩
  -- (c) c is recurrent
  intro j hcj
  by_contra hnot
  have hcn : m - 1 < n := by omega
  -- everything reachable from j is reachable from c, hence charged, hence < m, and is not c
  have hD : ∀ l, Rch n (adjB A) j l → l < m - 1 := by
    intro l hjl
    have hcl := hcj.trans hjl
    have hln : l < n := Rch_lt n (adjB A) hcl hcn
    have hpos := hbwd l hcl
    have hlm : l < m := by
      by_contra hc
      rw [hzero l (by omega)] at hpos
      exact lt_irrefl _ hpos
    have : l ≠ m - 1 := by
      intro h; subst h; exact hnot hjl
    omega
  let S : Finset ℕ := (range (m - 1)).filter (fun l => Rch n (adjB A) j l)
  have hSne : S.Nonempty :=
    ⟨j, mem_filter.2 ⟨mem_range.2 (hD j Relation.ReflTransGen.refl), Relation.ReflTransGen.refl⟩⟩
  have ht := Finset.max'_mem S hSne
  set t := S.max' hSne with htdef
  obtain ⟨htr, hjt⟩ := mem_filter.1 ht
  have htc := mem_range.1 htr
  obtain ⟨l, hl1, hl2, hl3⟩ := hp2 t (Nat.zero_le _) htc
  have hjl := hjt.trans hl3
  have hlS : l ∈ S := mem_filter.2 ⟨mem_range.2 (hD l hjl), hjl⟩
  have := Finset.le_max' S l hlS
  omega

/-- the support is one of the lists the model's `recClasses` returns -/
theorem gth_support_recClass (n : ℕ) (hn : 1 ≤ n) (A : M K) (hA : OffNonneg n A) :
    ∃ C, C ∈ recClasses n (reachMat n (adjB A)) ∧
      ∀ j, j < n → (0 < (gthSolve n A).getD j 0 ↔ j ∈ C) := by
  obtain ⟨hcn, hrec, hsupp⟩ := gth_support_full n hn A hA
  set c := (reduce n (n - 1) 0 A).2 - 1 with hc
  obtain ⟨C, hC, hcC⟩ := recClasses_complete n (adjB A) c hcn hrec
  obtain ⟨i, hi, _, _, _, hm⟩ := recClasses_sound n (adjB A) C hC
  have hic := (hm c).1 hcC
  refine ⟨C, hC, fun j hj => ?_⟩
  rw [hsupp j hj, hm j]
  constructor
  · intro hcj
    exact ⟨hic.1.trans hcj, (hrec j hcj).trans hic.2⟩
  · intro hij
    exact hic.2.trans hij.1

/-- a non-negative left null vector that charges `a` charges everything reachable from `a` -/
theorem null_reach_pos (n : ℕ) (A : M K) (hA : OffNonneg n A) (z : ℕ → K)
    (hz : ∀ i, i < n → 0 ≤ z i)
    (hnull : ∀ b, b < n → ∑ i ∈ range n, z i * Qm (fun a b => A.get a b) 0 n i b = 0)
    (a b : ℕ) (hza : 0 < z a) (hr : Rch n (adjB A) a b) : 0 < z b := by
  induction hr with
  | refl => exact hza
  | @tail u v _ huv ih =>
    by_cases heq : u = v
    · subst heq; exact ih
    · exact null_closed n A hA z hz v huv.2.1 (hnull v huv.2.1) u huv.1 heq ih (adjB_pos A u v huv.2.2)

/-- **Uniqueness.** For an irreducible Metzler matrix the left null space of the generator is
    one-dimensional: any `y` with `y Q = 0` and `Σ y = 1` (no sign assumption) is the GTH solution. -/
theorem null_unique (n : ℕ) (hn : 1 ≤ n) (A : M K) (hA : OffNonneg n A)
    (hirr : ∀ i j, i < n → j < n → Rch n (adjB A) i j)
    (y : ℕ → K)
    (hy : ∀ b, b < n → ∑ i ∈ range n, y i * Qm (fun a b => A.get a b) 0 n i b = 0)
    (hsum : ∑ i ∈ range n, y i = 1) :
    ∀ i, i < n → y i = (gthSolve n A).getD i 0 := by
  obtain ⟨hcn, _, hsupp⟩ := gth_support_full n hn A hA
  obtain ⟨_, hx0, hx1, hxnull⟩ := gthSolve_stationary_aux n hn A hA
  set x : ℕ → K := fun i => (gthSolve n A).getD i 0 with hxdef
  have hxpos : ∀ i, i < n → 0 < x i := fun i hi => (hsupp i hi).2 (hirr _ i hcn hi)
  have hne : (range n).Nonempty := ⟨0, mem_range.2 (by omega)⟩
  obtain ⟨i0, hi0, hmin⟩ := Finset.exists_min_image (range n) (fun i => y i / x i) hne
  have hi0 := mem_range.1 hi0
  set r := y i0 / x i0 with hr
  set z : ℕ → K := fun i => y i - r * x i with hzdef
  have hz : ∀ i, i < n → 0 ≤ z i := by
    intro i hi
    have h1 := hmin i (mem_range.2 hi)
    have h2 : r * x i ≤ y i := (le_div_iff₀ (hxpos i hi)).1 h1
    simp only [hzdef]; linarith
  have hz0 : z i0 = 0 := by
    simp only [hzdef, hr]
    rw [div_mul_cancel₀ _ (ne_of_gt (hxpos i0 hi0))]; ring
  have hznull : ∀ b, b < n → ∑ i ∈ range n, z i * Qm (fun a b => A.get a b) 0 n i b = 0 := by
    intro b hb
    have : ∀ i ∈ range n, z i * Qm (fun a b => A.get a b) 0 n i b
        = y i * Qm (fun a b => A.get a b) 0 n i b - r * (x i * Qm (fun a b => A.get a b) 0 n i b) := by
      intro i _; simp only [hzdef]; ring
    rw [sum_congr rfl this, sum_sub_distrib, ← mul_sum, hy b hb, hxnull b hb]; ring
  have hzall : ∀ i, i < n → z i = 0 := by
    intro i hi
    by_contra hne0
    have hpos : 0 < z i := lt_of_le_of_ne (hz i hi) (Ne.symm hne0)
    have := null_reach_pos n A hA z hz hznull i i0 hpos (hirr i i0 hi hi0)
    rw [hz0] at this
    exact lt_irrefl _ this
  have hyx : ∀ i, i < n → y i = r * x i := by
    intro i hi
    have := hzall i hi
    simp only [hzdef] at this
    linarith
  have hr1 : r = 1 := by
    have : ∑ i ∈ range n, y i = r * ∑ i ∈ range n, x i := by
      rw [mul_sum]; exact sum_congr rfl (fun i hi => hyx i (mem_range.1 hi))
    rw [hsum, hx1] at this
    linarith
  intro i hi
  rw [hyx i hi, hr1, one_mul]

end
end QE.C02
