/-
  Lexicographic feasibility of every Lemke tableau (`QEModel.C11`, tolerances 0): each row,
  read along (right-hand side, w-columns 0..n-1), has a positive first non-zero entry.
-/
import QEProofs.Lemmas.C11LexMin
import QEProofs.Lemmas.C11Run

namespace QE.C11
open QE QE.Pivot
set_option linter.unusedVariables false
set_option linter.unusedSectionVars false

variable {K : Type} [Field K] [LinearOrder K] [IsStrictOrderedRing K]

/-! ### algebra of `LexPosOn` -/

theorem lexPosOn_congr (f g : ℕ → K) : ∀ (L : List ℕ), (∀ j ∈ L, f j = g j) →
    LexPosOn f L → LexPosOn g L := by
  intro L
  induction L with
  | nil => intro _ h; exact h
  | cons j js ih =>
    intro he h
    have hj := he j (by simp)
    rcases h with h | ⟨h0, h⟩
    · left; rw [← hj]; exact h
    · right; exact ⟨by rw [← hj]; exact h0, ih (fun x hx => he x (List.mem_cons_of_mem _ hx)) h⟩

theorem lexPosOn_smul (f : ℕ → K) (a : K) (ha : 0 < a) : ∀ (L : List ℕ),
    LexPosOn f L → LexPosOn (fun j => a * f j) L := by
  intro L
  induction L with
  | nil => intro h; exact h
  | cons j js ih =>
    intro h
    rcases h with h | ⟨h0, h⟩
    · left; exact mul_pos ha h
    · right; exact ⟨by simp [h0], ih h⟩

theorem lexPosOn_add_smul (f g : ℕ → K) (a : K) (ha : 0 < a) : ∀ (L : List ℕ),
    LexPosOn f L → LexPosOn g L → LexPosOn (fun j => f j + a * g j) L := by
  intro L
  induction L with
  | nil => intro h _; exact h
  | cons j js ih =>
    intro hf hg
    rcases hf with hf | ⟨hf0, hf⟩
    · left
      rcases hg with hg | ⟨hg0, _⟩
      · have := mul_pos ha hg; show 0 < f j + a * g j; linarith
      · show 0 < f j + a * g j; rw [hg0, mul_zero, add_zero]; exact hf
    · rcases hg with hg | ⟨hg0, hg⟩
      · left; show 0 < f j + a * g j; rw [hf0, zero_add]; exact mul_pos ha hg
      · right; exact ⟨by show f j + a * g j = 0; rw [hf0, hg0]; ring, ih hf hg⟩

theorem lexPosOn_add_nonneg_smul (f g : ℕ → K) (a : K) (ha : 0 ≤ a) (L : List ℕ)
    (hf : LexPosOn f L) (hg : LexPosOn g L) : LexPosOn (fun j => f j + a * g j) L := by
  rcases lt_or_eq_of_le ha with h | h
  · exact lexPosOn_add_smul f g a h L hf hg
  · exact lexPosOn_congr f _ L (fun j _ => by rw [← h]; ring) hf

theorem lexPosOn_range' (f : ℕ → K) (i : ℕ) (hp : 0 < f i) : ∀ (m s : ℕ), s ≤ i → i < s + m →
    (∀ j, s ≤ j → j < i → f j = 0) → LexPosOn f (List.range' s m) := by
  intro m
  induction m with
  | zero => intro s h1 h2 _; omega
  | succ m ih =>
    intro s h1 h2 hz
    rw [List.range'_succ]
    by_cases hs : s = i
    · left; rw [hs]; exact hp
    · right
      exact ⟨hz s (le_refl _) (by omega), ih (s + 1) (by omega) (by omega)
        (fun j hj1 hj2 => hz j (by omega) hj2)⟩

/-! ### the invariant -/

/-- every row is lexicographically positive along `rhs, 0, 1, …, n-1` -/
def LP (n : ℕ) (T : M K) : Prop :=
  ∀ i, i < n → LexPosOn (fun j => T.get i j) ((2 * n + 1) :: List.range n)

theorem lp_pivot {n : ℕ} {T : M K} {c : ℕ} (hnr : T.nr = n) (hnc : T.nc = 2 * n + 2)
    (hlp : LP n T) (hf : (lexMinRatio T c 0 (0 : K) 0).1 = true) :
    LP n (pivot T c (lexMinRatio T c 0 (0 : K) 0).2) := by
  obtain ⟨hr, hpos⟩ := lexMinRatio_found_pos T c 0 (0 : K) 0 hf
  have hstrict := lexMinRatio_strict T c 0 hf
  set r := (lexMinRatio T c 0 (0 : K) 0).2 with hrdef
  have hL : (T.nc - 1) :: (List.range T.nr).map (· + 0) = (2 * n + 1) :: List.range n := by
    rw [hnc, hnr]; simp
  have hmemL : ∀ j ∈ (2 * n + 1) :: List.range n, j < T.nc := by
    intro j hj
    rcases List.mem_cons.mp hj with e | e
    · omega
    · have := List.mem_range.mp e; omega
  intro i hi
  by_cases hir : i = r
  · rw [hir]
    apply lexPosOn_congr (fun j => (T.get r c)⁻¹ * T.get r j)
    · intro j hj
      show _ = (pivot T c r).get r j
      rw [pivot_get_r T c r j hr (hmemL j hj), div_eq_inv_mul]
    · exact lexPosOn_smul _ _ (inv_pos.mpr hpos) _ (hlp r (by omega))
  · rcases le_or_gt (T.get i c) 0 with hm | hm
    · apply lexPosOn_congr (fun j => T.get i j + (- T.get i c / T.get r c) * T.get r j)
      · intro j hj
        show _ = (pivot T c r).get i j
        rw [pivot_get_i T c r i j (by omega) (hmemL j hj) hir]; ring
      · exact lexPosOn_add_nonneg_smul _ _ _
          (div_nonneg (by linarith) (le_of_lt hpos)) _ (hlp i hi) (hlp r (by omega))
    · apply lexPosOn_congr (fun j => T.get i c * ratioDiff T c r i j)
      · intro j hj
        show _ = (pivot T c r).get i j
        rw [pivot_get_i T c r i j (by omega) (hmemL j hj) hir]
        unfold ratioDiff
        field_simp
      · apply lexPosOn_smul _ _ hm
        have := hstrict i (by omega) hir hm
        rwa [hL] at this

/-! ### the first pivot -/

theorem firstPivotRow_last (n : ℕ) (q d : ℕ → K) :
    ∀ k, firstPivotRow n q d 0 < k → k < n →
      q (firstPivotRow n q d 0) / d (firstPivotRow n q d 0) < q k / d k := by
  intro k hlt hk
  have h1 := (firstFold q d (List.range' 1 (n - 1)) (0, q 0 / d 0) (fun k => k = 0) rfl rfl
    (by intro k hk; rw [hk])).1
  have h := firstFoldLast q d (List.range' 1 (n - 1)) (0, q 0 / d 0) (fun k => k = 0)
    (List.pairwise_lt_range') (by intro x hx; have := List.mem_range'_1.mp hx; simp only; omega)
    (by intro k hk x hx; have := List.mem_range'_1.mp hx; omega)
    (by intro k hk hlt; simp only at hlt; omega) k
    (by
      by_cases hk0 : k = 0
      · exact Or.inl hk0
      · exact Or.inr (List.mem_range'_1.mpr (by omega)))
  unfold firstPivotRow at hlt ⊢
  rw [← h1]
  exact h hlt

theorem firstPivot_lp (n : ℕ) (Mm : ℕ → ℕ → K) (q d : ℕ → K) (hn : 0 < n)
    (hd : ∀ i, i < n → 0 < d i) (hq : ∃ i, i < n ∧ q i < 0) :
    LP n (firstPivot n Mm q d 0).1 := by
  obtain ⟨hr, hmin⟩ := firstPivotRow_argmin n hn q d
  have hlast := firstPivotRow_last n q d
  rw [firstPivot_fst]
  set r := firstPivotRow n q d 0 with hrdef
  have hnr : (initTableau n Mm q d).nr = n := rfl
  have hnc : (initTableau n Mm q d).nc = 2 * n + 2 := rfl
  have hdr := hd r hr
  have hqr : q r / d r < 0 := by
    obtain ⟨i, hi, hqi⟩ := hq
    exact lt_of_le_of_lt (hmin i hi) (div_neg_of_neg_of_pos hqi (hd i hi))
  intro i hi
  by_cases hir : i = r
  · left
    show 0 < (pivot (initTableau n Mm q d) (2 * n) r).get i (2 * n + 1)
    rw [hir, pivot_get_r _ _ _ _ (by omega) (by omega), init_get_art n Mm q d hn r hr,
      init_get_rhs n Mm q d r hr, div_neg]
    linarith
  · have hval : (pivot (initTableau n Mm q d) (2 * n) r).get i (2 * n + 1)
        = q i - q r / d r * d i := by
      rw [pivot_get_i _ _ _ _ _ (by omega) (by omega) hir, init_get_art n Mm q d hn r hr,
        init_get_art n Mm q d hn i hi, init_get_rhs n Mm q d r hr, init_get_rhs n Mm q d i hi,
        div_neg]
      ring
    have hge : 0 ≤ q i - q r / d r * d i := by
      have h1 := hmin i hi
      rw [le_div_iff₀ (hd i hi)] at h1
      linarith
    rcases lt_or_eq_of_le hge with hgt | heq
    · left
      show 0 < (pivot (initTableau n Mm q d) (2 * n) r).get i (2 * n + 1)
      rw [hval]; exact hgt
    · right
      refine ⟨by show (pivot (initTableau n Mm q d) (2 * n) r).get i (2 * n + 1) = 0
                 rw [hval]; exact heq.symm, ?_⟩
      -- a tie in the first ratio test: then `i < r`, and the `w`-block row is `e_i - (d_i/d_r) e_r`
      have hilt : i < r := by
        by_contra hnot
        have hri : r < i := by omega
        have := hlast i hri hi
        rw [lt_div_iff₀ (hd i hi)] at this
        linarith
      rw [List.range_eq_range']
      apply lexPosOn_range' _ i _ n 0 (Nat.zero_le _) (by omega)
      · intro j _ hj
        show (pivot (initTableau n Mm q d) (2 * n) r).get i j = 0
        have e1 : (initTableau n Mm q d).get i j = 0 := by
          rw [init_get n Mm q d i j hi (by omega), if_pos (show j < n by omega),
            if_neg (show ¬ j = i by omega)]
        have e2 : (initTableau n Mm q d).get r j = 0 := by
          rw [init_get n Mm q d r j hr (by omega), if_pos (show j < n by omega),
            if_neg (show ¬ j = r by omega)]
        rw [pivot_get_i _ _ _ _ _ (by omega) (by omega) hir, e1, e2]
        ring
      · show 0 < (pivot (initTableau n Mm q d) (2 * n) r).get i i
        have e1 : (initTableau n Mm q d).get i i = 1 := by
          rw [init_get n Mm q d i i hi (by omega), if_pos hi, if_pos rfl]
        have e2 : (initTableau n Mm q d).get r i = 0 := by
          rw [init_get n Mm q d r i hr (by omega), if_pos hi, if_neg (show ¬ i = r by omega)]
        rw [pivot_get_i _ _ _ _ _ (by omega) (by omega) hir, e1, e2]
        norm_num

/-! ### the loop -/

theorem lemkeLoop_lp {n : ℕ} (hn : 0 < n) (T0 : M K) :
    ∀ (fuel : ℕ) (T : M K) (basis : ℕ → ℕ) (c it : ℕ),
      Inv1 n T0 T basis → Enter n basis c → c < 2 * n → LP n T →
      LP n (lemkeLoop n (0 : K) 0 fuel T basis c it).T := by
  intro fuel
  induction fuel with
  | zero =>
    intro T basis c it h he hc hlp
    rw [lemkeLoop_zero]; exact hlp
  | succ fuel ih =>
    intro T basis c it h he hc hlp
    rw [lemkeLoop_succ]
    by_cases hf : (lexMinRatio T c 0 (0 : K) 0).1 = false
    · rw [if_pos hf]; exact hlp
    · rw [if_neg hf]
      have hf' : (lexMinRatio T c 0 (0 : K) 0).1 = true := by simpa using hf
      obtain ⟨hr, hpos⟩ := lexMinRatio_found_pos T c 0 (0 : K) 0 hf'
      rw [h.nr] at hr
      have hp : T.get (lexMinRatio T c 0 (0 : K) 0).2 c ≠ 0 := ne_of_gt hpos
      have h' := inv1_pivot hn h he hr hp
      have hlp' := lp_pivot h.nr h.nc hlp hf'
      by_cases hl : basis (lexMinRatio T c 0 (0 : K) 0).2 = 2 * n
      · rw [if_pos hl]; exact hlp'
      · rw [if_neg hl]
        have hlt : basis (lexMinRatio T c 0 (0 : K) 0).2 < 2 * n := by
          have := h.le _ hr; omega
        exact ih _ _ _ _ h' (enter_next h he hr hl) (complement_lt n _ hlt) hlp'

end QE.C11
