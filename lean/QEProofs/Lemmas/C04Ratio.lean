/-
  Specification lemmas for the minimum-ratio test of
  `quantecon/optimize/pivoting.py` (`_min_ratio_test_no_tie_breaking`,
  `_lex_min_ratio_test`) as modelled in `QEModel.Pivot`, over a linearly
  ordered field.  Used by C04 (simplex), C05 and C11.
-/
import QEModel.Pivot
import Mathlib.Algebra.Order.Field.Basic

namespace QE.Pivot
open QE

/- No compatibility between the order and the field operations is needed: with tie
   tolerance `0` the only arithmetic is `x + 0`, `x - 0`.  The lemmas therefore apply in
   particular under `[IsStrictOrderedRing K]`. -/
variable {K : Type} [Field K] [LinearOrder K]

/-- invariant of the no-tie-breaking scan after the prefix `P` of the candidates -/
def RInv (T : M K) (pc tc : ℕ) (tp td : K) (P : List ℕ) : MRState K → Prop
  | (none, l) => l = [] ∧ ∀ k ∈ P, T.get k pc ≤ tp
  | (some rmin, l) =>
      l ≠ [] ∧ (∀ i ∈ l, i ∈ P ∧ tp < T.get i pc) ∧
      (td = 0 → (∀ i ∈ l, T.get i tc / T.get i pc = rmin) ∧
        ∀ k ∈ P, tp < T.get k pc → rmin ≤ T.get k tc / T.get k pc)

theorem rinv_none (T : M K) (pc tc : ℕ) (tp td : K) (P l : List ℕ) :
    RInv T pc tc tp td P (none, l) ↔ (l = [] ∧ ∀ k ∈ P, T.get k pc ≤ tp) := Iff.rfl

theorem rinv_some (T : M K) (pc tc : ℕ) (tp td : K) (P l : List ℕ) (rmin : K) :
    RInv T pc tc tp td P (some rmin, l) ↔
      (l ≠ [] ∧ (∀ i ∈ l, i ∈ P ∧ tp < T.get i pc) ∧
      (td = 0 → (∀ i ∈ l, T.get i tc / T.get i pc = rmin) ∧
        ∀ k ∈ P, tp < T.get k pc → rmin ≤ T.get k tc / T.get k pc)) := Iff.rfl

theorem rinv_step (T : M K) (pc tc : ℕ) (tp td : K) (P : List ℕ) (st : MRState K) (i : ℕ)
    (h : RInv T pc tc tp td P st) :
    RInv T pc tc tp td (P ++ [i]) (minRatioStep T pc tc tp td st i) := by
  obtain ⟨o, l⟩ := st
  unfold minRatioStep
  by_cases hle : T.get i pc ≤ tp
  · rw [if_pos hle]
    cases o with
    | none =>
      rw [rinv_none] at h ⊢
      obtain ⟨h1, h2⟩ := h
      refine ⟨h1, ?_⟩
      intro k hk
      rcases List.mem_append.mp hk with hk | hk
      · exact h2 k hk
      · rw [List.mem_singleton] at hk; subst hk; exact hle
    | some rmin =>
      rw [rinv_some] at h ⊢
      obtain ⟨h1, h2, h3⟩ := h
      refine ⟨h1, fun j hj => ⟨List.mem_append_left _ (h2 j hj).1, (h2 j hj).2⟩,
        fun h0 => ⟨(h3 h0).1, ?_⟩⟩
      intro k hk hpos
      rcases List.mem_append.mp hk with hk | hk
      · exact (h3 h0).2 k hk hpos
      · rw [List.mem_singleton] at hk; subst hk; exact absurd hle (not_le.mpr hpos)
  · rw [if_neg hle]
    have hpos : tp < T.get i pc := not_le.mp hle
    cases o with
    | none =>
      rw [rinv_none] at h
      obtain ⟨_, h2⟩ := h
      show RInv T pc tc tp td (P ++ [i]) (some (T.get i tc / T.get i pc), [i])
      rw [rinv_some]
      refine ⟨by simp, ?_, fun _ => ⟨?_, ?_⟩⟩
      · intro j hj; rw [List.mem_singleton] at hj; subst hj
        exact ⟨by simp, hpos⟩
      · intro j hj; rw [List.mem_singleton] at hj; subst hj; rfl
      · intro k hk hkpos
        rcases List.mem_append.mp hk with hk | hk
        · exact absurd (h2 k hk) (not_le.mpr hkpos)
        · rw [List.mem_singleton] at hk; subst hk; exact le_refl _
    | some rmin =>
      rw [rinv_some] at h
      obtain ⟨h1, h2, h3⟩ := h
      show RInv T pc tc tp td (P ++ [i])
        (if rmin + td < T.get i tc / T.get i pc then (some rmin, l)
         else if T.get i tc / T.get i pc < rmin - td then (some (T.get i tc / T.get i pc), [i])
         else (some rmin, l ++ [i]))
      split_ifs with c1 c2
      · rw [rinv_some]
        refine ⟨h1, fun j hj => ⟨List.mem_append_left _ (h2 j hj).1, (h2 j hj).2⟩,
          fun h0 => ⟨(h3 h0).1, ?_⟩⟩
        intro k hk hkpos
        rcases List.mem_append.mp hk with hk | hk
        · exact (h3 h0).2 k hk hkpos
        · rw [List.mem_singleton] at hk; subst hk
          rw [h0, add_zero] at c1; exact le_of_lt c1
      · rw [rinv_some]
        refine ⟨by simp, ?_, fun h0 => ⟨?_, ?_⟩⟩
        · intro j hj; rw [List.mem_singleton] at hj; subst hj
          exact ⟨by simp, hpos⟩
        · intro j hj; rw [List.mem_singleton] at hj; subst hj; rfl
        · intro k hk hkpos
          rw [h0, sub_zero] at c2
          rcases List.mem_append.mp hk with hk | hk
          · exact le_trans (le_of_lt c2) ((h3 h0).2 k hk hkpos)
          · rw [List.mem_singleton] at hk; subst hk; exact le_refl _
      · rw [rinv_some]
        refine ⟨by simp, ?_, fun h0 => ⟨?_, ?_⟩⟩
        · intro j hj
          rcases List.mem_append.mp hj with hj | hj
          · exact ⟨List.mem_append_left _ (h2 j hj).1, (h2 j hj).2⟩
          · rw [List.mem_singleton] at hj; subst hj; exact ⟨by simp, hpos⟩
        · rw [h0, add_zero] at c1; rw [h0, sub_zero] at c2
          have he : T.get i tc / T.get i pc = rmin :=
            le_antisymm (not_lt.mp c1) (not_lt.mp c2)
          intro j hj
          rcases List.mem_append.mp hj with hj | hj
          · exact (h3 h0).1 j hj
          · rw [List.mem_singleton] at hj; subst hj; exact he
        · rw [h0, sub_zero] at c2
          intro k hk hkpos
          rcases List.mem_append.mp hk with hk | hk
          · exact (h3 h0).2 k hk hkpos
          · rw [List.mem_singleton] at hk; subst hk; exact not_lt.mp c2

theorem rinv_foldl (T : M K) (pc tc : ℕ) (tp td : K) (cands : List ℕ) :
    ∀ (P : List ℕ) (st : MRState K), RInv T pc tc tp td P st →
      RInv T pc tc tp td (P ++ cands) (cands.foldl (minRatioStep T pc tc tp td) st) := by
  induction cands with
  | nil => intro P st h; simpa using h
  | cons i cs ih =>
    intro P st h
    have := ih (P ++ [i]) _ (rinv_step T pc tc tp td P st i h)
    simpa [List.append_assoc] using this

/-- the invariant holds for the final state of the whole scan -/
theorem rinv_final (T : M K) (pc tc : ℕ) (cands : List ℕ) (tp td : K) :
    RInv T pc tc tp td cands (cands.foldl (minRatioStep T pc tc tp td) (none, [])) := by
  have h0 : RInv T pc tc tp td [] (none, []) := by
    rw [rinv_none]; exact ⟨rfl, by simp⟩
  simpa using rinv_foldl T pc tc tp td cands [] (none, []) h0

/-! ### `minRatioNoTie` -/

theorem minRatioNoTie_mem (T : M K) (pc tc : ℕ) (cands : List ℕ) (tp td : K) (i : ℕ)
    (hi : i ∈ minRatioNoTie T pc tc cands tp td) : i ∈ cands ∧ tp < T.get i pc := by
  have h := rinv_final T pc tc cands tp td
  unfold minRatioNoTie at hi
  generalize cands.foldl (minRatioStep T pc tc tp td) (none, []) = st at h hi
  obtain ⟨o, l⟩ := st
  cases o with
  | none => rw [rinv_none] at h; rw [h.1] at hi; simp at hi
  | some rmin => rw [rinv_some] at h; exact h.2.1 i hi

theorem minRatioNoTie_min (T : M K) (pc tc : ℕ) (cands : List ℕ) (tp : K) (i k : ℕ)
    (hi : i ∈ minRatioNoTie T pc tc cands tp 0) (hk : k ∈ cands) (hkpos : tp < T.get k pc) :
    T.get i tc / T.get i pc ≤ T.get k tc / T.get k pc := by
  have h := rinv_final T pc tc cands tp 0
  unfold minRatioNoTie at hi
  generalize cands.foldl (minRatioStep T pc tc tp 0) (none, []) = st at h hi
  obtain ⟨o, l⟩ := st
  cases o with
  | none => rw [rinv_none] at h; rw [h.1] at hi; simp at hi
  | some rmin =>
    rw [rinv_some] at h
    obtain ⟨_, _, h3⟩ := h
    rw [(h3 rfl).1 i hi]
    exact (h3 rfl).2 k hk hkpos

/-- all members of the result have the same ratio (tie tolerance 0) -/
theorem minRatioNoTie_ratio_eq (T : M K) (pc tc : ℕ) (cands : List ℕ) (tp : K) (i j : ℕ)
    (hi : i ∈ minRatioNoTie T pc tc cands tp 0) (hj : j ∈ minRatioNoTie T pc tc cands tp 0) :
    T.get i tc / T.get i pc = T.get j tc / T.get j pc := by
  have hi' := minRatioNoTie_mem T pc tc cands tp 0 i hi
  have hj' := minRatioNoTie_mem T pc tc cands tp 0 j hj
  exact le_antisymm (minRatioNoTie_min T pc tc cands tp i j hi hj'.1 hj'.2)
    (minRatioNoTie_min T pc tc cands tp j i hj hi'.1 hi'.2)

theorem minRatioNoTie_eq_nil (T : M K) (pc tc : ℕ) (cands : List ℕ) (tp td : K)
    (hnil : minRatioNoTie T pc tc cands tp td = []) : ∀ k ∈ cands, T.get k pc ≤ tp := by
  have h := rinv_final T pc tc cands tp td
  unfold minRatioNoTie at hnil
  generalize cands.foldl (minRatioStep T pc tc tp td) (none, []) = st at h hnil
  obtain ⟨o, l⟩ := st
  cases o with
  | none => rw [rinv_none] at h; exact h.2
  | some rmin => rw [rinv_some] at h; exact absurd hnil h.1

theorem minRatioNoTie_nil_of_nonpos (T : M K) (pc tc : ℕ) (cands : List ℕ) (tp td : K)
    (hall : ∀ k ∈ cands, T.get k pc ≤ tp) : minRatioNoTie T pc tc cands tp td = [] := by
  rcases List.eq_nil_or_concat (minRatioNoTie T pc tc cands tp td) with h | ⟨l, i, h⟩
  · exact h
  · have hi : i ∈ minRatioNoTie T pc tc cands tp td := by rw [h]; simp
    have := minRatioNoTie_mem T pc tc cands tp td i hi
    exact absurd (hall i this.1) (not_le.mpr this.2)

theorem minRatioNoTie_eq_nil_iff (T : M K) (pc tc : ℕ) (cands : List ℕ) (tp td : K) :
    minRatioNoTie T pc tc cands tp td = [] ↔ ∀ k ∈ cands, T.get k pc ≤ tp :=
  ⟨minRatioNoTie_eq_nil T pc tc cands tp td, minRatioNoTie_nil_of_nonpos T pc tc cands tp td⟩

/-! ### `lexLoop` -/

theorem lexLoop_mem (T : M K) (pc : ℕ) (tp td : K) (js : List ℕ) :
    ∀ (a : List ℕ) (i : ℕ), i ∈ (lexLoop T pc tp td js a).2 → i ∈ a := by
  induction js with
  | nil => intro a i hi; simpa [lexLoop] using hi
  | cons j js ih =>
    intro a i hi
    unfold lexLoop at hi
    by_cases hj : j = pc
    · rw [if_pos hj] at hi; exact ih a i hi
    · rw [if_neg hj] at hi
      by_cases hl : (minRatioNoTie T pc j a tp td).length = 1
      · simp only [hl, if_true] at hi
        exact (minRatioNoTie_mem T pc j a tp td i hi).1
      · simp only [hl, if_false] at hi
        exact (minRatioNoTie_mem T pc j a tp td i (ih _ i hi)).1

theorem lexLoop_true_length (T : M K) (pc : ℕ) (tp td : K) (js : List ℕ) :
    ∀ (a : List ℕ), (lexLoop T pc tp td js a).1 = true →
      (lexLoop T pc tp td js a).2.length = 1 := by
  induction js with
  | nil => intro a h; simp [lexLoop] at h
  | cons j js ih =>
    intro a h
    unfold lexLoop at h ⊢
    by_cases hj : j = pc
    · rw [if_pos hj] at h ⊢; exact ih a h
    · rw [if_neg hj] at h ⊢
      by_cases hl : (minRatioNoTie T pc j a tp td).length = 1
      · simp only [hl, if_true]
      · simp only [hl, if_false] at h ⊢
        exact ih _ h

/-! ### `lexMinRatio` -/

theorem headD_mem_of_length_one (l : List ℕ) (h : l.length = 1) : l.headD 0 ∈ l := by
  match l, h with
  | [x], _ => simp

/-- the returned row is one of the minimisers of the first (last-column) pass -/
theorem lexMinRatio_mem (T : M K) (pc ss : ℕ) (tp td : K)
    (h : (lexMinRatio T pc ss tp td).1 = true) :
    (lexMinRatio T pc ss tp td).2 ∈
      minRatioNoTie T pc (T.nc - 1) (List.range T.nr) tp td := by
  unfold lexMinRatio at h ⊢
  by_cases h1 : (minRatioNoTie T pc (T.nc - 1) (List.range T.nr) tp td).length = 1
  · simp only [h1, if_true]
    exact headD_mem_of_length_one _ h1
  · simp only [h1, if_false] at h ⊢
    by_cases h2 : (minRatioNoTie T pc (T.nc - 1) (List.range T.nr) tp td).length ≥ 2
    · simp only [h2, if_true] at h ⊢
      have hlen := lexLoop_true_length T pc tp td _ _ h
      exact lexLoop_mem T pc tp td _ _ _ (headD_mem_of_length_one _ hlen)
    · simp only [h2, if_false] at h
      exact absurd h (by simp)

theorem lexMinRatio_found_pos (T : M K) (pc ss : ℕ) (tp td : K)
    (h : (lexMinRatio T pc ss tp td).1 = true) :
    (lexMinRatio T pc ss tp td).2 < T.nr ∧ tp < T.get (lexMinRatio T pc ss tp td).2 pc := by
  have hm := minRatioNoTie_mem T pc (T.nc - 1) (List.range T.nr) tp td _
    (lexMinRatio_mem T pc ss tp td h)
  exact ⟨List.mem_range.mp hm.1, hm.2⟩

theorem lexMinRatio_found (T : M K) (pc ss : ℕ) (tp : K) (r : ℕ)
    (h : lexMinRatio T pc ss tp 0 = (true, r)) :
    r < T.nr ∧ tp < T.get r pc ∧
      ∀ k, k < T.nr → tp < T.get k pc →
        T.get r (T.nc - 1) / T.get r pc ≤ T.get k (T.nc - 1) / T.get k pc := by
  have h1 : (lexMinRatio T pc ss tp 0).1 = true := by rw [h]
  have h2 : (lexMinRatio T pc ss tp 0).2 = r := by rw [h]
  have hm := lexMinRatio_mem T pc ss tp 0 h1
  rw [h2] at hm
  have hp := minRatioNoTie_mem T pc (T.nc - 1) (List.range T.nr) tp 0 r hm
  refine ⟨List.mem_range.mp hp.1, hp.2, ?_⟩
  intro k hk hkpos
  exact minRatioNoTie_min T pc (T.nc - 1) (List.range T.nr) tp r k hm
    (List.mem_range.mpr hk) hkpos

theorem lexMinRatio_not_found (T : M K) (pc ss : ℕ) (tp td : K)
    (h : (lexMinRatio T pc ss tp td).1 = false) :
    (∀ k, k < T.nr → T.get k pc ≤ tp) ∨
      2 ≤ (minRatioNoTie T pc (T.nc - 1) (List.range T.nr) tp td).length := by
  by_cases h2 : 2 ≤ (minRatioNoTie T pc (T.nc - 1) (List.range T.nr) tp td).length
  · exact Or.inr h2
  · left
    have h1 : (minRatioNoTie T pc (T.nc - 1) (List.range T.nr) tp td).length ≠ 1 := by
      intro h1
      unfold lexMinRatio at h
      simp only [h1, if_true] at h
      exact absurd h (by simp)
    have h0 : minRatioNoTie T pc (T.nc - 1) (List.range T.nr) tp td = [] :=
      List.length_eq_zero_iff.mp (by omega)
    intro k hk
    exact minRatioNoTie_eq_nil T pc (T.nc - 1) (List.range T.nr) tp td h0 k
      (List.mem_range.mpr hk)

theorem lexMinRatio_of_nonpos (T : M K) (pc ss : ℕ) (tp td : K)
    (hall : ∀ k, k < T.nr → T.get k pc ≤ tp) : lexMinRatio T pc ss tp td = (false, 0) := by
  have h0 : minRatioNoTie T pc (T.nc - 1) (List.range T.nr) tp td = [] :=
    minRatioNoTie_nil_of_nonpos T pc (T.nc - 1) (List.range T.nr) tp td
      (fun k hk => hall k (List.mem_range.mp hk))
  unfold lexMinRatio
  simp [h0]

end QE.Pivot
