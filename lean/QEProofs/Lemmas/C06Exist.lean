/-
  C06 helper lemmas, part 11: existence, uniqueness and a-priori bound of the solution of the
  discrete Lyapunov (Stein) equation `a Y aᵀ − Y + b = 0` when `‖a‖∞ ≤ ρ < 1`, over any Archimedean
  ordered field (ℚ, ℝ) — by linear algebra (an injective endomorphism of a finite-dimensional space
  is surjective), no limits.
-/
import QEProofs.Lemmas.C06Norm
import Mathlib.LinearAlgebra.Matrix.FiniteDimensional
import Mathlib.LinearAlgebra.FiniteDimensional.Basic
import Mathlib.Algebra.Order.Archimedean.Basic
import Mathlib.Tactic.Abel

set_option linter.unusedSectionVars false

namespace QE.C06
open Matrix Finset

variable {K : Type} [Field K] [LinearOrder K] [IsStrictOrderedRing K] {n : ℕ}

/-- the Stein operator `X ↦ X − a X aᵀ` as a linear map -/
def steinMap (a : Matrix (Fin n) (Fin n) K) : Matrix (Fin n) (Fin n) K →ₗ[K] Matrix (Fin n) (Fin n) K where
  toFun X := X - a * X * aᵀ
  map_add' X Y := by rw [Matrix.mul_add, Matrix.add_mul]; abel
  map_smul' c X := by
    simp only [RingHom.id_apply, Matrix.mul_smul, Matrix.smul_mul, smul_sub]

/-- a crude entry bound of any matrix -/
theorem exists_entryBound (Y : Matrix (Fin n) (Fin n) K) : ∃ g : K, 0 ≤ g ∧ EntryBound Y g :=
  ⟨∑ p, ∑ q, |Y p q|, sum_nonneg fun _ _ => sum_nonneg fun _ _ => abs_nonneg _,
   fun p q => le_trans (single_le_sum (f := fun q => |Y p q|) (fun _ _ => abs_nonneg _) (mem_univ q))
     (single_le_sum (f := fun p => ∑ q, |Y p q|) (fun _ _ => sum_nonneg fun _ _ => abs_nonneg _) (mem_univ p))⟩

/-- Archimedean squeeze: `x ≤ c + g y^m` for all `m`, `0 ≤ y < 1` ⇒ `x ≤ c` -/
theorem le_of_forall_le_add_geom [Archimedean K] (x c g y : K) (hg : 0 ≤ g) (hy0 : 0 ≤ y) (hy1 : y < 1)
    (h : ∀ m : ℕ, x ≤ c + g * y ^ m) : x ≤ c := by
  by_contra hlt
  have hpos : 0 < x - c := sub_pos.mpr (not_le.mp hlt)
  obtain ⟨m, hm⟩ := exists_pow_lt_of_lt_one (div_pos hpos (by linarith : 0 < g + 1)) hy1
  rw [lt_div_iff₀ (by linarith : 0 < g + 1)] at hm
  have := h m
  nlinarith [pow_nonneg hy0 m]

variable (a b : Matrix (Fin n) (Fin n) K) (ρ β : K)

/-- every solution is bounded entrywise by `β/(1−ρ²)` -/
theorem solution_entryBound [Archimedean K] (ha : RowBound a ρ) (hρ : 0 ≤ ρ) (hρ1 : ρ < 1)
    (hb : EntryBound b β) (hβ : 0 ≤ β) (Y : Matrix (Fin n) (Fin n) K) (hY : a * Y * aᵀ - Y + b = 0) :
    EntryBound Y (β / (1 - ρ ^ 2)) := by
  obtain ⟨g, hg0, hg⟩ := exists_entryBound Y
  have h2 : ρ ^ 2 < 1 := by nlinarith
  intro p q
  apply le_of_forall_le_add_geom _ _ g (ρ ^ 2) hg0 (sq_nonneg ρ) h2
  intro m
  have e := solution_eq_dsum_add_tail a b aᵀ Y hY m
  have h1 := dsum_entryBound a b ρ β ha hρ hρ1 hb hβ m p q
  have h3 := entryBound_conj (rowBound_pow ha hρ m) (pow_nonneg hρ m) hg hg0 p q
  rw [transpose_pow] at h3
  have h4 : |Y p q| ≤ |dsum a b aᵀ m p q| + |(a ^ m * Y * aᵀ ^ m) p q| := by
    conv_lhs => rw [e]
    rw [Matrix.add_apply]; exact abs_add_le _ _
  have h5 : ρ ^ m * g * ρ ^ m = g * (ρ ^ 2) ^ m := by rw [← pow_mul, mul_comm 2 m, pow_mul]; ring
  linarith

/-- the homogeneous equation has only the zero solution -/
theorem stein_kernel_trivial [Archimedean K] (ha : RowBound a ρ) (hρ : 0 ≤ ρ) (hρ1 : ρ < 1)
    (D : Matrix (Fin n) (Fin n) K) (hD : a * D * aᵀ - D + 0 = 0) : D = 0 := by
  have h := solution_entryBound a 0 ρ 0 ha hρ hρ1 (fun p q => by simp) (le_refl _) D hD
  ext p q
  have := h p q
  rw [zero_div] at this
  exact abs_eq_zero.mp (le_antisymm this (abs_nonneg _))

/-- existence and uniqueness of the solution of `a Y aᵀ − Y + b = 0` for `‖a‖∞ ≤ ρ < 1` -/
theorem stein_exists_unique [Archimedean K] (ha : RowBound a ρ) (hρ : 0 ≤ ρ) (hρ1 : ρ < 1) :
    ∃ Y, a * Y * aᵀ - Y + b = 0 ∧ ∀ Z, a * Z * aᵀ - Z + b = 0 → Z = Y := by
  have hinj : Function.Injective (steinMap a) := by
    rw [← LinearMap.ker_eq_bot, LinearMap.ker_eq_bot']
    intro D hD
    apply stein_kernel_trivial a ρ ha hρ hρ1 D
    have : D - a * D * aᵀ = 0 := hD
    rw [add_zero, ← neg_sub, this, neg_zero]
  obtain ⟨Y, hY⟩ := (LinearMap.injective_iff_surjective.mp hinj) b
  have hY' : Y - a * Y * aᵀ = b := hY
  refine ⟨Y, by rw [← hY']; abel, fun Z hZ => ?_⟩
  apply hinj
  show Z - a * Z * aᵀ = Y - a * Y * aᵀ
  rw [hY']
  have : Z - a * Z * aᵀ = b - (a * Z * aᵀ - Z + b) := by abel
  rw [this, hZ, sub_zero]

end QE.C06
