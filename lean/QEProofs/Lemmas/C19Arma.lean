/-
  Lemmas for C19, part 1: history recursions (`unfoldHist`), the ARMA polynomials and the
  equality of SciPy's transfer-function impulse response with the ARMA recursion.
-/
import Mathlib.Algebra.BigOperators.Group.List.Basic
import Mathlib.Algebra.BigOperators.Group.Finset.Basic
import Mathlib.Algebra.Field.Basic
import Mathlib.Data.List.GetD
import Mathlib.Tactic.Ring
import Mathlib.Tactic.FieldSimp
import Mathlib.Tactic.Linarith
import Mathlib.Tactic.LinearCombination
import QEModel.C19
namespace QE.C19

section hist
variable {α : Type}

theorem length_unfoldHist (step : List α → Nat → α) (n : Nat) : (unfoldHist step n).length = n := by
  induction n with
  | zero => rfl
  | succ n ih => simp [unfoldHist, ih]

theorem take_unfoldHist (step : List α → Nat → α) (n k : Nat) (h : k ≤ n) :
    (unfoldHist step n).take k = unfoldHist step k := by
  induction n with
  | zero =>
    have : k = 0 := by omega
    subst this; simp [unfoldHist]
  | succ n ih =>
    by_cases hk : k = n + 1
    · subst hk
      rw [List.take_of_length_le]
      rw [length_unfoldHist]
    · have hk' : k ≤ n := by omega
      show (unfoldHist step n ++ [step (unfoldHist step n) n]).take k = _
      rw [List.take_append_of_le_length (by rw [length_unfoldHist]; exact hk')]
      exact ih hk'

theorem getD_unfoldHist (step : List α → Nat → α) (n k : Nat) (d : α) (h : k < n) :
    (unfoldHist step n).getD k d = step (unfoldHist step k) k := by
  induction n with
  | zero => omega
  | succ n ih =>
    show (unfoldHist step n ++ [step (unfoldHist step n) n]).getD k d = _
    by_cases hk : k = n
    · subst hk
      rw [List.getD_append_right _ _ _ _ (by rw [length_unfoldHist])]
      simp [length_unfoldHist]
    · have hk' : k < n := by omega
      rw [List.getD_append _ _ _ _ (by rw [length_unfoldHist]; exact hk')]
      exact ih hk'

/-- a step function that only looks at the history through `getD i` for `i < k` gives the same value on the
    full list and on the prefix -/
theorem getD_unfoldHist_of_lt (step : List α → Nat → α) (n k i : Nat) (d : α) (hk : k ≤ n) (hi : i < k) :
    (unfoldHist step n).getD i d = (unfoldHist step k).getD i d := by
  rw [getD_unfoldHist step n i d (by omega), getD_unfoldHist step k i d hi]

end hist

section field
variable {K : Type} [Field K]

theorem getD_append_replicate_zero (l : List K) (m i : Nat) :
    (l ++ List.replicate m 0).getD i 0 = l.getD i 0 := by
  by_cases h : i < l.length
  · rw [List.getD_append _ _ _ _ h]
  · have h' : l.length ≤ i := by omega
    rw [List.getD_append_right _ _ _ _ h']
    rw [List.getD_eq_default _ _ h']
    simp

theorem sum_map_neg_mul (l : List Nat) (f g : Nat → K) :
    (l.map fun i => (- f i) * g i).sum = - (l.map fun i => f i * g i).sum := by
  induction l with
  | nil => simp
  | cons x xs ih => simp only [List.map_cons, List.sum_cons, ih]; ring

theorem getD_map_neg (l : List K) (i : Nat) : (l.map fun x => -x).getD i 0 = - l.getD i 0 := by
  have h := List.getD_map (l := l) (d := (0 : K)) (n := i) (fun x : K => -x)
  simpa using h

/-- the padded AR polynomial has the coefficients of `(1, −φ)` -/
theorem armaPolys_ar_getD (φ θ : List K) (i : Nat) :
    (armaPolys φ θ).2.getD i 0 = (1 :: φ.map fun x => -x).getD i 0 := by
  unfold armaPolys
  simp only
  split
  · exact getD_append_replicate_zero _ _ _
  · rfl

theorem armaPolys_ma (φ θ : List K) : (armaPolys φ θ).1 = 1 :: θ := rfl

theorem armaPolys_len_le (φ θ : List K) : (armaPolys φ θ).1.length ≤ (armaPolys φ θ).2.length := by
  unfold armaPolys
  simp only
  split
  · simp only [List.length_append, List.length_replicate]; omega
  · omega

theorem impulsePolys_len (φ θ : List K) : (impulsePolys φ θ).1.length = (impulsePolys φ θ).2.length := by
  have h := armaPolys_len_le φ θ
  unfold impulsePolys
  simp only [List.length_append, List.length_replicate]
  omega

theorem impulsePolys_ma_getD (φ θ : List K) (i : Nat) :
    (impulsePolys φ θ).1.getD i 0 = (1 :: θ).getD i 0 := by
  unfold impulsePolys
  simp only
  rw [getD_append_replicate_zero, armaPolys_ma]

/-- one step of the power-series division `(1,θ,0…)/(1,−φ,0…)` is one step of the ARMA recursion -/
theorem divStep_eq_psiStep (φ θ b a : List K)
    (hb : ∀ i, b.getD i 0 = (1 :: θ).getD i 0)
    (ha : ∀ i, a.getD i 0 = (1 :: φ.map fun x => -x).getD i 0) (hs : List K) (k : Nat) :
    divStep b a hs k = psiStep φ θ hs k := by
  unfold divStep psiStep
  simp only [ha, hb, List.getD_cons_zero, List.getD_cons_succ, getD_map_neg, div_one]
  cases k with
  | zero => simp
  | succ k =>
    rw [sum_map_neg_mul (List.range (k + 1)) (fun i => φ.getD i 0) (fun i => hs.getD (k + 1 - 1 - i) 0)]
    simp

theorem unfoldHist_congr {α : Type} (s1 s2 : List α → Nat → α) (h : ∀ hs k, s1 hs k = s2 hs k) (n : Nat) :
    unfoldHist s1 n = unfoldHist s2 n := by
  have : s1 = s2 := by funext hs k; exact h hs k
  rw [this]

theorem polyEvalC_zeros (m : Nat) (z : K × K) : polyEvalC (List.replicate m (0 : K)) z = (0, 0) := by
  induction m with
  | zero => rfl
  | succ m ih =>
    rw [List.replicate_succ]
    show cadd (0, 0) (cmul z (polyEvalC (List.replicate m 0) z)) = (0, 0)
    rw [ih]
    simp [cadd, cmul]

/-- trailing zero coefficients do not change the value of a polynomial -/
theorem polyEvalC_append_zeros (l : List K) (m : Nat) (z : K × K) :
    polyEvalC (l ++ List.replicate m 0) z = polyEvalC l z := by
  induction l with
  | nil =>
    rw [List.nil_append, polyEvalC_zeros]
    rfl
  | cons c cs ih =>
    show cadd (c, 0) (cmul z (polyEvalC (cs ++ List.replicate m 0) z)) = cadd (c, 0) (cmul z (polyEvalC cs z))
    rw [ih]

theorem armaPolys_ar_eval (φ θ : List K) (z : K × K) :
    polyEvalC (armaPolys φ θ).2 z = polyEvalC (1 :: φ.map fun x => -x) z := by
  unfold armaPolys
  simp only
  split
  · exact polyEvalC_append_zeros _ _ _
  · rfl

theorem list_sum_range_map' (n : ℕ) (f : ℕ → K) :
    ((List.range n).map f).sum = ∑ k ∈ Finset.range n, f k := by
  induction n with
  | zero => simp
  | succ n ih => rw [List.range_succ, List.map_append, List.sum_append, ih, Finset.sum_range_succ]; simp

/-- the defining recursion of the series division, read on the finished list -/
theorem serDiv_getD (b a : List K) (N k : Nat) (hk : k < N) :
    (serDiv b a N).getD k 0
      = (b.getD k 0 - ∑ i ∈ Finset.range k, a.getD (i + 1) 0 * (serDiv b a N).getD (k - 1 - i) 0) / a.getD 0 0 := by
  unfold serDiv
  rw [getD_unfoldHist _ _ _ _ hk]
  show divStep b a _ k = _
  unfold divStep
  rw [list_sum_range_map']
  congr 2
  apply Finset.sum_congr rfl
  intro i hi
  have hi' : i < k := Finset.mem_range.mp hi
  rw [getD_unfoldHist_of_lt _ N k (k - 1 - i) 0 (by omega) (by omega)]

theorem serDiv_length (b a : List K) (N : Nat) : (serDiv b a N).length = N := length_unfoldHist _ _

/-- **a shorter numerator is a delay**: prefixing the numerator with `d` zeros delays the series by `d` -/
theorem serDiv_delay (b a : List K) (d N : Nat) :
    serDiv (List.replicate d 0 ++ b) a (d + N) = List.replicate d 0 ++ serDiv b a N := by
  have hmain : ∀ k, k < d + N →
      (serDiv (List.replicate d 0 ++ b) a (d + N)).getD k 0 = (List.replicate d 0 ++ serDiv b a N).getD k 0 := by
    intro k
    induction k using Nat.strong_induction_on with
    | _ k ih =>
      intro hk
      rw [serDiv_getD _ _ _ _ hk]
      have hsum : ∑ i ∈ Finset.range k, a.getD (i + 1) 0 * (serDiv (List.replicate d 0 ++ b) a (d + N)).getD (k - 1 - i) 0
          = ∑ i ∈ Finset.range k, a.getD (i + 1) 0 * (List.replicate d 0 ++ serDiv b a N).getD (k - 1 - i) 0 := by
        apply Finset.sum_congr rfl
        intro i hi
        have hi' : i < k := Finset.mem_range.mp hi
        rw [ih (k - 1 - i) (by omega) (by omega)]
      rw [hsum]
      by_cases hkd : k < d
      · -- inside the delay: everything read so far is zero
        have hz : ∑ i ∈ Finset.range k, a.getD (i + 1) 0 * (List.replicate d 0 ++ serDiv b a N).getD (k - 1 - i) 0 = 0 := by
          apply Finset.sum_eq_zero
          intro i hi
          have hi' : i < k := Finset.mem_range.mp hi
          rw [List.getD_append _ _ _ _ (by simp; omega)]
          simp [List.getD_eq_getElem?_getD, show k - 1 - i < d by omega]
        rw [hz, List.getD_append _ _ _ _ (by simp; omega), List.getD_append _ _ _ _ (by simp; omega)]
        simp [List.getD_eq_getElem?_getD, hkd]
      · have hkd' : d ≤ k := by omega
        have hm : k - d < N := by omega
        rw [List.getD_append_right _ _ _ _ (by simp; omega), List.getD_append_right _ _ _ _ (by simp; omega)]
        simp only [List.length_replicate]
        rw [serDiv_getD b a N (k - d) hm]
        congr 2
        symm
        have hsub : Finset.range (k - d) ⊆ Finset.range k := Finset.range_subset_range.mpr (by omega)
        rw [← Finset.sum_subset hsub]
        · apply Finset.sum_congr rfl
          intro i hi
          have hi' : i < k - d := Finset.mem_range.mp hi
          rw [List.getD_append_right _ _ _ _ (by simp; omega)]
          simp only [List.length_replicate]
          rw [show k - 1 - i - d = k - d - 1 - i by omega]
        · intro i hi hni
          have hi' : i < k := Finset.mem_range.mp hi
          have hge : k - d ≤ i := by
            by_contra hc
            exact hni (Finset.mem_range.mpr (by omega))
          rw [List.getD_append _ _ _ _ (by simp; omega)]
          simp [List.getD_eq_getElem?_getD, show k - 1 - i < d by omega]
  apply List.ext_getElem
  · simp [serDiv_length]
  · intro i h1 h2
    have := hmain i (by rw [serDiv_length] at h1; exact h1)
    rw [List.getD_eq_getElem _ _ h1, List.getD_eq_getElem _ _ h2] at this
    exact this

/-- **the series division is a division**: `a(x) · (b/a)(x) = b(x)` coefficient by coefficient (Cauchy product),
    for every length and every `k` below it, whenever the leading coefficient `a₀` is non-zero -/
theorem serDiv_spec (b a : List K) (N k : Nat) (hk : k < N) (ha : a.getD 0 0 ≠ 0) :
    ∑ i ∈ Finset.range (k + 1), a.getD i 0 * (serDiv b a N).getD (k - i) 0 = b.getD k 0 := by
  rw [Finset.sum_range_succ']
  have hshift : ∀ i ∈ Finset.range k, a.getD (i + 1) 0 * (serDiv b a N).getD (k - (i + 1)) 0
      = a.getD (i + 1) 0 * (serDiv b a N).getD (k - 1 - i) 0 := by
    intro i _
    rw [show k - (i + 1) = k - 1 - i by omega]
  rw [Finset.sum_congr rfl hshift, Nat.sub_zero, serDiv_getD b a N k hk]
  field_simp
  ring

/-- … and it is the **only** one: a sequence of length `N` whose Cauchy product with `a` reproduces `b` below `N`
    is `serDiv b a N` -/
theorem serDiv_unique (b a h : List K) (N : Nat) (hlen : h.length = N) (ha : a.getD 0 0 ≠ 0)
    (hspec : ∀ k, k < N → ∑ i ∈ Finset.range (k + 1), a.getD i 0 * h.getD (k - i) 0 = b.getD k 0) :
    h = serDiv b a N := by
  have hmain : ∀ k, k < N → h.getD k 0 = (serDiv b a N).getD k 0 := by
    intro k
    induction k using Nat.strong_induction_on with
    | _ k ih =>
      intro hk
      have e1 := hspec k hk
      have e2 := serDiv_spec b a N k hk ha
      rw [Finset.sum_range_succ'] at e1 e2
      have hsum : ∑ i ∈ Finset.range k, a.getD (i + 1) 0 * h.getD (k - (i + 1)) 0
          = ∑ i ∈ Finset.range k, a.getD (i + 1) 0 * (serDiv b a N).getD (k - (i + 1)) 0 := by
        apply Finset.sum_congr rfl
        intro i hi
        have hi' : i < k := Finset.mem_range.mp hi
        rw [ih (k - (i + 1)) (by omega) (by omega)]
      rw [hsum, Nat.sub_zero] at e1
      rw [Nat.sub_zero] at e2
      have : a.getD 0 0 * h.getD k 0 = a.getD 0 0 * (serDiv b a N).getD k 0 := by
        linear_combination e1 - e2
      exact mul_left_cancel₀ ha this
  apply List.ext_getElem
  · rw [hlen, serDiv_length]
  · intro i h1 h2
    have := hmain i (by omega)
    rw [List.getD_eq_getElem _ _ h1, List.getD_eq_getElem _ _ h2] at this
    exact this

theorem psi_eq_serDiv (φ θ : List K) (N : Nat) :
    psi φ θ N = serDiv (1 :: θ) (1 :: φ.map fun x => -x) N := by
  unfold psi serDiv
  symm
  apply unfoldHist_congr
  intro hs k
  exact divStep_eq_psiStep φ θ _ _ (fun _ => rfl) (fun _ => rfl) hs k

/-- real coefficients: the value at the conjugate point is the conjugate value -/
theorem polyEvalC_conj (coef : List K) (c s : K) :
    (polyEvalC coef (c, -s)).1 = (polyEvalC coef (c, s)).1 ∧ (polyEvalC coef (c, -s)).2 = -(polyEvalC coef (c, s)).2 := by
  induction coef with
  | nil => simp [polyEvalC]
  | cons x xs ih =>
    have e1 : polyEvalC (x :: xs) (c, -s) = cadd (x, 0) (cmul (c, -s) (polyEvalC xs (c, -s))) := rfl
    have e2 : polyEvalC (x :: xs) (c, s) = cadd (x, 0) (cmul (c, s) (polyEvalC xs (c, s))) := rfl
    rw [e1, e2]
    simp only [cadd, cmul, ih.1, ih.2]
    constructor <;> ring

theorem normSq_polyEvalC_conj (coef : List K) (c s : K) :
    normSq (polyEvalC coef (c, -s)) = normSq (polyEvalC coef (c, s)) := by
  unfold normSq
  rw [(polyEvalC_conj coef c s).1, (polyEvalC_conj coef c s).2]
  ring

end field
end QE.C19
