/-
  Completeness of `lcpLemke` (tolerances 0) on the classical matrix classes, from the path
  argument (`ray_zh_ne_zero`): no ray for strictly copositive / sign-reversal-free `M`; for
  PSD `M` a ray certifies infeasibility, including the degenerate exit with the artificial
  variable basic at level 0 (lexicographic Farkas argument).
-/
import QEProofs.Lemmas.C11NoReturn
import QEProofs.Lemmas.C11Psd

namespace QE.C11
open QE QE.Pivot Finset
set_option linter.unusedVariables false
set_option linter.unusedSectionVars false

variable {K : Type} [Field K] [LinearOrder K] [IsStrictOrderedRing K]

/-- the three facts of the PSD/Farkas argument at a tableau with a non-positive non-basic
    column `c` whose direction has a `z` part (`zh ≠ 0`) -/
theorem psd_ray_facts {n : ℕ} {T : M K} {basis : ℕ → ℕ} {c : ℕ} (hn : 0 < n)
    (Mm : ℕ → ℕ → K) (q d : ℕ → K) (hd : ∀ i, i < n → 0 < d i) (hpsd : PSD n Mm)
    (h : Inv1 n (initTableau n Mm q d) T basis) (he : Enter n basis c)
    (hc : c < 2 * n) (hcol : ∀ k, k < n → T.get k c ≤ 0)
    (hA : ∃ j, j < n ∧ rayDir n T basis c (n + j) ≠ 0) :
    0 < ∑ i ∈ range n, rayDir n T basis c (n + i) * d i ∧
    (∀ (X b : ℕ → K), (∀ v, (∀ a, a < n → basis a ≠ v) → X v = 0) →
      (∀ i, i < n → X i = ∑ j ∈ range n, Mm i j * X (n + j) + b i + d i * X (2 * n)) →
      ∑ i ∈ range n, rayDir n T basis c (n + i) * b i
        = - (∑ i ∈ range n, rayDir n T basis c (n + i) * d i) * X (2 * n)) ∧
    (∀ (z b : ℕ → K), (∀ j, j < n → 0 ≤ z j) →
      (∀ i, i < n → 0 ≤ ∑ j ∈ range n, Mm i j * z j + b i) →
      0 ≤ ∑ i ∈ range n, rayDir n T basis c (n + i) * b i) := by
  have hnn := rayDir_nonneg (basis := basis) hcol
  set zh : ℕ → K := fun j => rayDir n T basis c (n + j) with hzh
  have hzd : 0 < ∑ i ∈ range n, zh i * d i := by
    obtain ⟨j0, hj0, hne⟩ := hA
    apply Finset.sum_pos'
    · intro i hi; exact mul_nonneg (hnn _) (le_of_lt (hd i (mem_range.mp hi)))
    · exact ⟨j0, mem_range.mpr hj0,
        mul_pos (lt_of_le_of_ne (hnn _) (Ne.symm hne)) (hd j0 hj0)⟩
  have equad : bil n Mm zh zh = - (∑ i ∈ range n, zh i * d i) * rayDir n T basis c (2 * n) := by
    unfold bil
    have : ∀ i ∈ range n, zh i * ∑ j ∈ range n, Mm i j * zh j
        = - (zh i * d i * rayDir n T basis c (2 * n)) := by
      intro i hi
      have hi' := mem_range.mp hi
      have e1 := rayDir_initHom Mm q d h he i hi'
      have e2 := rayDir_compl hn h he hc i hi'
      have e3 : ∑ j ∈ range n, Mm i j * zh j
          = rayDir n T basis c i - d i * rayDir n T basis c (2 * n) := by
        simp only [hzh]; linarith
      rw [e3, mul_sub]
      simp only [hzh]
      rw [e2]; ring
    rw [Finset.sum_congr rfl this, Finset.sum_neg_distrib, neg_mul, Finset.sum_mul]
  have hq0 : 0 ≤ bil n Mm zh zh := hpsd zh
  have hr0 : rayDir n T basis c (2 * n) = 0 := by
    have h1 : 0 ≤ (∑ i ∈ range n, zh i * d i) * rayDir n T basis c (2 * n) :=
      mul_nonneg (le_of_lt hzd) (hnn _)
    have h2 : (∑ i ∈ range n, zh i * d i) * rayDir n T basis c (2 * n) = 0 := by
      rw [equad] at hq0; linarith
    rcases mul_eq_zero.mp h2 with e | e
    · exact absurd e (ne_of_gt hzd)
    · exact e
  have hqq : bil n Mm zh zh = 0 := by rw [equad, hr0, mul_zero]
  have hwh : ∀ i, i < n → ∑ j ∈ range n, Mm i j * zh j = rayDir n T basis c i := by
    intro i hi
    have e1 := rayDir_initHom Mm q d h he i hi
    rw [hr0, mul_zero, add_zero] at e1
    exact e1.symm
  have hbil_u : ∀ u : ℕ → K, bil n Mm u zh = ∑ i ∈ range n, u i * rayDir n T basis c i := by
    intro u
    unfold bil
    apply Finset.sum_congr rfl
    intro i hi
    rw [hwh i (mem_range.mp hi)]
  have hcross := psd_cross_zero n Mm hpsd zh hqq
  have split : ∀ (u b : ℕ → K) (s : K),
      ∑ i ∈ range n, zh i * (∑ j ∈ range n, Mm i j * u j + b i + d i * s)
        = bil n Mm zh u + ∑ i ∈ range n, zh i * b i + (∑ i ∈ range n, zh i * d i) * s := by
    intro u b s
    unfold bil
    rw [Finset.sum_mul, ← Finset.sum_add_distrib, ← Finset.sum_add_distrib]
    apply Finset.sum_congr rfl
    intro i _; ring
  refine ⟨hzd, ?_, ?_⟩
  · intro X b hsupp heqn
    have e0 : ∑ i ∈ range n, zh i * X i = 0 := by
      apply Finset.sum_eq_zero
      intro i hi
      have hi' := mem_range.mp hi
      rcases ray_support hn h he hc i hi' with h1 | h1
      · rw [hsupp i h1.2, mul_zero]
      · simp only [hzh]; rw [rayDir_eq_zero (n + i) h1.1 h1.2, zero_mul]
    have e1 : ∑ i ∈ range n, zh i * X i
        = ∑ i ∈ range n, zh i * (∑ j ∈ range n, Mm i j * (fun j => X (n + j)) j + b i
            + d i * X (2 * n)) := by
      apply Finset.sum_congr rfl
      intro i hi
      rw [heqn i (mem_range.mp hi)]
    rw [e1, split (fun j => X (n + j)) b] at e0
    have e2 : bil n Mm (fun j => X (n + j)) zh = 0 := by
      rw [hbil_u]
      apply Finset.sum_eq_zero
      intro i hi
      have hi' := mem_range.mp hi
      rcases ray_support hn h he hc i hi' with h1 | h1
      · rw [rayDir_eq_zero i h1.1 h1.2, mul_zero]
      · rw [hsupp (n + i) h1.2, zero_mul]
    have e3 := hcross (fun j => X (n + j))
    rw [e2, zero_add] at e3
    rw [e3, zero_add] at e0
    linarith
  · intro z b hz0 hzw
    have e0 : 0 ≤ ∑ i ∈ range n, zh i * (∑ j ∈ range n, Mm i j * z j + b i + d i * 0) := by
      apply Finset.sum_nonneg
      intro i hi
      rw [mul_zero, add_zero]
      exact mul_nonneg (hnn _) (hzw i (mem_range.mp hi))
    rw [split z b 0, mul_zero, add_zero] at e0
    have e2 : 0 ≤ bil n Mm z zh := by
      rw [hbil_u z]
      apply Finset.sum_nonneg
      intro i hi
      exact mul_nonneg (hz0 i (mem_range.mp hi)) (hnn _)
    have e3 := hcross z
    linarith

/-! ### the basic solution for the right-hand side `e_j` (column `j` of the `w`-block) -/

/-- `colSol j`: variable `v` takes the entry of column `j` in the row where it is basic -/
def colSol (n : ℕ) (T : M K) (basis : ℕ → ℕ) (j v : ℕ) : K :=
  ∑ a ∈ range n, if basis a = v then T.get a j else 0

theorem colSol_eq_zero {n : ℕ} {T : M K} {basis : ℕ → ℕ} (j v : ℕ)
    (hv : ∀ i, i < n → basis i ≠ v) : colSol n T basis j v = 0 := by
  unfold colSol
  apply Finset.sum_eq_zero
  intro i hi
  rw [if_neg (hv i (mem_range.mp hi))]

theorem sum_at_basic {n : ℕ} {basis : ℕ → ℕ}
    (hinj : ∀ i j, i < n → j < n → basis i = basis j → i = j) (y : ℕ → K) (a : ℕ) (ha : a < n) :
    ∑ a' ∈ range n, (if basis a' = basis a then y a' else 0) = y a := by
  rw [Finset.sum_eq_single a]
  · rw [if_pos rfl]
  · intro b hb hne
    rw [if_neg]
    intro e
    exact hne (hinj b a (mem_range.mp hb) ha e)
  · intro hna; exact absurd (mem_range.mpr ha) hna

theorem colSol_init {n : ℕ} {T : M K} {basis : ℕ → ℕ} (Mm : ℕ → ℕ → K) (q d : ℕ → K)
    (h : Inv1 n (initTableau n Mm q d) T basis) (j : ℕ) (hj : j < n) (i : ℕ) (hi : i < n) :
    colSol n T basis j i = ∑ k ∈ range n, Mm i k * colSol n T basis j (n + k)
      + (if i = j then 1 else 0) + d i * colSol n T basis j (2 * n) := by
  have hnc1 : T.nc - 1 = 2 * n + 1 := by rw [h.nc]; rfl
  -- x* + (colSol − u_j) satisfies the tableau
  have hy : RowsSat T (fun v => basicSol n T basis v
      + (colSol n T basis j v - (if v = j then 1 else 0))) n := by
    intro k hk
    have hb0 := basicSol_rowSat h k hk
    unfold RowSat at hb0 ⊢
    rw [hnc1] at hb0 ⊢
    have hsplit : ∀ v ∈ range (2 * n + 1),
        T.get k v * (basicSol n T basis v + (colSol n T basis j v - (if v = j then 1 else 0)))
        = T.get k v * basicSol n T basis v + (T.get k v * colSol n T basis j v
          - T.get k v * (if v = j then (1 : K) else 0)) := by
      intro v _; ring
    rw [Finset.sum_congr rfl hsplit, Finset.sum_add_distrib, Finset.sum_sub_distrib, hb0]
    have e1 : ∑ v ∈ range (2 * n + 1), T.get k v * (if v = j then (1 : K) else 0) = T.get k j := by
      simp only [mul_ite, mul_one, mul_zero]
      rw [Finset.sum_ite_eq', if_pos (mem_range.mpr (by omega))]
    have e2 : ∑ v ∈ range (2 * n + 1), T.get k v * colSol n T basis j v = T.get k j := by
      unfold colSol
      rw [sum_basic n basis h.le (fun v => T.get k v) (fun a => T.get a j)]
      have : ∀ a ∈ range n, T.get a j * T.get k (basis a) = if k = a then T.get a j else 0 := by
        intro a ha
        rw [h.unit a k (mem_range.mp ha) hk]
        split <;> simp
      rw [Finset.sum_congr rfl this, Finset.sum_ite_eq, if_pos (mem_range.mpr hk)]
    rw [e1, e2]; ring
  have e0 := (init_rowSat n Mm q d _ i hi).mp ((h.equiv _).mp hy i hi)
  have ex := basicSol_init Mm q d h i hi
  beta_reduce at e0
  have s1 : ∑ k ∈ range n, Mm i k * (basicSol n T basis (n + k)
        + (colSol n T basis j (n + k) - (if n + k = j then 1 else 0)))
      = ∑ k ∈ range n, Mm i k * basicSol n T basis (n + k)
        + ∑ k ∈ range n, Mm i k * colSol n T basis j (n + k) := by
    rw [← Finset.sum_add_distrib]
    apply Finset.sum_congr rfl
    intro k _
    rw [if_neg (by omega)]; ring
  rw [s1, if_neg (show ¬ 2 * n = j by omega)] at e0
  linarith

theorem lexPosOn_nonpos_false (f : ℕ → K) : ∀ (L : List ℕ), (∀ j ∈ L, f j ≤ 0) → ¬ LexPosOn f L := by
  intro L
  induction L with
  | nil => intro _ h; exact h
  | cons j js ih =>
    intro hle hL
    rcases hL with hL | ⟨_, hL⟩
    · have := hle j (by simp); linarith
    · exact ih (fun x hx => hle x (List.mem_cons_of_mem _ hx)) hL

/-- **PSD, full certificate** (lexicographic Farkas argument): at a lexicographically feasible
    tableau with the artificial variable basic, a non-positive non-basic column whose direction
    has a `z` part certifies that `{z ≥ 0, Mz + q ≥ 0}` is empty — whatever the level of the
    artificial variable. -/
theorem psd_ray_infeasible_full {n : ℕ} {T : M K} {basis : ℕ → ℕ} {c : ℕ} (hn : 0 < n)
    (Mm : ℕ → ℕ → K) (q d : ℕ → K) (hd : ∀ i, i < n → 0 < d i) (hpsd : PSD n Mm)
    (h : Inv1 n (initTableau n Mm q d) T basis) (hf : Feas n T) (hlp : LP n T)
    (he : Enter n basis c) (hc : c < 2 * n) (hcol : ∀ k, k < n → T.get k c ≤ 0)
    (hA : ∃ j, j < n ∧ rayDir n T basis c (n + j) ≠ 0)
    (hart : ∃ r, r < n ∧ basis r = 2 * n) :
    ¬ ∃ z : ℕ → K, (∀ j, j < n → 0 ≤ z j) ∧
      (∀ i, i < n → 0 ≤ ∑ j ∈ range n, Mm i j * z j + q i) := by
  rintro ⟨z, hz0, hzw⟩
  obtain ⟨hzd, hF1, hF2⟩ := psd_ray_facts hn Mm q d hd hpsd h he hc hcol hA
  obtain ⟨r, hr, hbr⟩ := hart
  have hnn := rayDir_nonneg (basis := basis) hcol
  -- level of the artificial variable
  have hx0 : basicSol n T basis (2 * n) = T.get r (2 * n + 1) := by
    unfold basicSol
    have := sum_at_basic h.inj (fun a => T.get a (2 * n + 1)) r hr
    rw [hbr] at this
    exact this
  have hid := hF1 (basicSol n T basis) q (fun v hv => basicSol_eq_zero v hv)
    (fun i hi => basicSol_init Mm q d h i hi)
  have hge := hF2 z q hz0 hzw
  have hrhs0 : T.get r (2 * n + 1) = 0 := by
    have h1 : 0 ≤ T.get r (2 * n + 1) := hf r hr
    rw [hx0] at hid
    by_contra hne
    have hpos : 0 < T.get r (2 * n + 1) := lt_of_le_of_ne h1 (Ne.symm hne)
    have := mul_pos hzd hpos
    linarith
  -- the `w`-block of that row is non-positive
  have hrow : ∀ j, j < n → T.get r j ≤ 0 := by
    intro j hj
    have hcs : colSol n T basis j (2 * n) = T.get r j := by
      unfold colSol
      have := sum_at_basic h.inj (fun a => T.get a j) r hr
      rw [hbr] at this
      exact this
    have hidj := hF1 (colSol n T basis j) (fun i => if i = j then 1 else 0)
      (fun v hv => colSol_eq_zero j v hv) (fun i hi => colSol_init Mm q d h j hj i hi)
    have hsum : ∑ i ∈ range n, rayDir n T basis c (n + i) * (if i = j then (1 : K) else 0)
        = rayDir n T basis c (n + j) := by
      simp only [mul_ite, mul_one, mul_zero]
      rw [Finset.sum_ite_eq', if_pos (mem_range.mpr hj)]
    rw [hsum, hcs] at hidj
    by_contra hpos
    have hpos' : 0 < T.get r j := not_le.mp hpos
    have := mul_pos hzd hpos'
    have := hnn (n + j)
    linarith
  -- contradiction with lexicographic positivity of that row
  have hL := hlp r hr
  rcases hL with hL | ⟨_, hL⟩
  · have : (0 : K) < T.get r (2 * n + 1) := hL
    rw [hrhs0] at this; exact lt_irrefl _ this
  · exact lexPosOn_nonpos_false _ _ (fun j hj => hrow j (List.mem_range.mp hj)) hL

/-! ### run level -/

section run
variable (n : ℕ) (Mm : ℕ → ℕ → K) (q d : ℕ → K)

theorem run_final_inv (hn : 0 < n) (hd : ∀ i, i < n → 0 < d i) (hq : ∃ i, i < n ∧ q i < 0)
    (maxIter : ℕ) :
    Inv1 n (initTableau n Mm q d) (lemkeRun n Mm q d maxIter (0 : K) 0).T
      (lemkeRun n Mm q d maxIter (0 : K) 0).basis ∧
    Feas n (lemkeRun n Mm q d maxIter (0 : K) 0).T ∧ LP n (lemkeRun n Mm q d maxIter (0 : K) 0).T := by
  obtain ⟨h1, he, hc⟩ := firstPivot_inv1 n Mm q d hn (fun i hi => ne_of_gt (hd i hi)) (0 : K)
  exact ⟨(lemkeLoop_inv1 hn (initTableau n Mm q d) (0 : K) 0 (le_refl _) (maxIter - 1) _ _ _ 1 h1 he hc).1,
    lemkeLoop_feas hn (initTableau n Mm q d) (maxIter - 1) _ _ _ 1 h1 he hc
      (firstPivot_feas n Mm q d hn hd hq),
    lemkeLoop_lp hn (initTableau n Mm q d) (maxIter - 1) _ _ _ 1 h1 he hc
      (firstPivot_lp n Mm q d hn hd hq)⟩

/-- strictly copositive `M`: the run cannot end on a ray -/
theorem run_no_ray_cop (hn : 0 < n) (hd : ∀ i, i < n → 0 < d i) (hq : ∃ i, i < n ∧ q i < 0)
    (hcop : StrictCop n Mm) (maxIter : ℕ) :
    (lemkeRun n Mm q d maxIter (0 : K) 0).status ≠ 2 := by
  intro hs
  obtain ⟨c, hc, he, hcol, j, hj, hne⟩ := ray_zh_ne_zero n Mm q d hn hd hq maxIter hs
  obtain ⟨hI, _, _⟩ := run_final_inv n Mm q d hn hd hq maxIter
  exact hne (ray_cop_zh_zero hn Mm q d hd hcop hI he hc hcol j hj)

/-- `M` without sign reversal (P-matrix property): the run cannot end on a ray -/
theorem run_no_ray_P (hn : 0 < n) (hd : ∀ i, i < n → 0 < d i) (hq : ∃ i, i < n ∧ q i < 0)
    (hP : NoSignReversal n Mm) (maxIter : ℕ) :
    (lemkeRun n Mm q d maxIter (0 : K) 0).status ≠ 2 := by
  intro hs
  obtain ⟨c, hc, he, hcol, j, hj, hne⟩ := ray_zh_ne_zero n Mm q d hn hd hq maxIter hs
  obtain ⟨hI, _, _⟩ := run_final_inv n Mm q d hn hd hq maxIter
  apply hne
  have hnn := rayDir_nonneg (basis := (lemkeRun n Mm q d maxIter (0 : K) 0).basis) hcol
  apply hP (fun j => rayDir n (lemkeRun n Mm q d maxIter (0 : K) 0).T
    (lemkeRun n Mm q d maxIter (0 : K) 0).basis c (n + j)) _ j hj
  intro i hi
  have e1 := rayDir_initHom Mm q d hI he i hi
  have e2 := rayDir_compl hn hI he hc i hi
  have e3 : ∑ j ∈ range n, Mm i j * rayDir n (lemkeRun n Mm q d maxIter (0 : K) 0).T
        (lemkeRun n Mm q d maxIter (0 : K) 0).basis c (n + j)
      = rayDir n (lemkeRun n Mm q d maxIter (0 : K) 0).T
          (lemkeRun n Mm q d maxIter (0 : K) 0).basis c i
        - d i * rayDir n (lemkeRun n Mm q d maxIter (0 : K) 0).T
          (lemkeRun n Mm q d maxIter (0 : K) 0).basis c (2 * n) := by linarith
  show rayDir n _ _ c (n + i) * ∑ j ∈ range n, Mm i j * rayDir n _ _ c (n + j) ≤ 0
  rw [e3, mul_sub, e2, zero_sub, neg_nonpos]
  exact mul_nonneg (hnn _) (mul_nonneg (le_of_lt (hd i hi)) (hnn _))

/-- PSD `M`: a ray exit certifies that `{z ≥ 0, Mz + q ≥ 0}` is empty -/
theorem run_ray_psd (hn : 0 < n) (hd : ∀ i, i < n → 0 < d i) (hq : ∃ i, i < n ∧ q i < 0)
    (hpsd : PSD n Mm) (maxIter : ℕ)
    (hs : (lemkeRun n Mm q d maxIter (0 : K) 0).status = 2) :
    ¬ ∃ z : ℕ → K, (∀ j, j < n → 0 ≤ z j) ∧
      (∀ i, i < n → 0 ≤ ∑ j ∈ range n, Mm i j * z j + q i) := by
  obtain ⟨c, hc, he, hcol, hA⟩ := ray_zh_ne_zero n Mm q d hn hd hq maxIter hs
  obtain ⟨hI, hF, hLP⟩ := run_final_inv n Mm q d hn hd hq maxIter
  have hart : ∃ r, r < n ∧ (lemkeRun n Mm q d maxIter (0 : K) 0).basis r = 2 * n := by
    have hr0 := firstPivotRow_lt n hn q d (0 : K)
    apply lemkeLoop_art n (0 : K) 0 (maxIter - 1) _ _ _ 1 _ (by
      show (lemkeRun n Mm q d maxIter (0 : K) 0).status ≠ 0
      rw [hs]; decide)
    exact ⟨firstPivotRow n q d 0, hr0, by
      rw [firstPivot_snd]; unfold setBasis; rw [if_pos rfl]⟩
  exact psd_ray_infeasible_full hn Mm q d hd hpsd hI hF hLP he hc hcol hA hart

end run

end QE.C11
