/-
  Lemmas for C08, part 4: the affine map of qnwnorm (mean and covariance of the image rule).
-/
import QEProofs.Lemmas.C08Basic
namespace QE.C08
open Finset

set_option linter.unusedSectionVars false

variable {K : Type} [Field K] [LinearOrder K] [IsStrictOrderedRing K]

/-- mean of the affine image, as finite sums -/
theorem affine_mean_fin (N d : Nat) (w : Nat → K) (z ℓ : Nat → Nat → K) (m : K) (j : Nat)
    (h0 : ∑ r ∈ range N, w r = 1)
    (h1 : ∀ k ∈ range d, ∑ r ∈ range N, w r * z r k = 0) :
    ∑ r ∈ range N, w r * ((∑ k ∈ range d, z r k * ℓ k j) + m) = m := by
  have e : ∀ r ∈ range N, w r * ((∑ k ∈ range d, z r k * ℓ k j) + m)
      = (∑ k ∈ range d, ℓ k j * (w r * z r k)) + m * w r := by
    intro r _
    rw [mul_add, Finset.mul_sum]
    congr 1
    · apply Finset.sum_congr rfl; intro k _; ring
    · ring
  rw [Finset.sum_congr rfl e, Finset.sum_add_distrib, Finset.sum_comm, ← Finset.mul_sum, h0, mul_one]
  have : ∑ k ∈ range d, ∑ r ∈ range N, ℓ k j * (w r * z r k) = 0 := by
    apply Finset.sum_eq_zero
    intro k hk
    rw [← Finset.mul_sum, h1 k hk, mul_zero]
  rw [this, zero_add]

/-- covariance of the affine image, as finite sums -/
theorem affine_cov_fin (N d : Nat) (w : Nat → K) (z ℓ : Nat → Nat → K) (j l : Nat)
    (h2 : ∀ k ∈ range d, ∀ k' ∈ range d,
      ∑ r ∈ range N, w r * (z r k * z r k') = if k = k' then 1 else 0) :
    ∑ r ∈ range N, w r * ((∑ k ∈ range d, z r k * ℓ k j) * (∑ k ∈ range d, z r k * ℓ k l))
      = ∑ k ∈ range d, ℓ k j * ℓ k l := by
  have e : ∀ r ∈ range N, w r * ((∑ k ∈ range d, z r k * ℓ k j) * (∑ k ∈ range d, z r k * ℓ k l))
      = ∑ k ∈ range d, ∑ k' ∈ range d, (ℓ k j * ℓ k' l) * (w r * (z r k * z r k')) := by
    intro r _
    rw [Finset.sum_mul_sum, Finset.mul_sum]
    apply Finset.sum_congr rfl; intro k _
    rw [Finset.mul_sum]
    apply Finset.sum_congr rfl; intro k' _
    ring
  rw [Finset.sum_congr rfl e, Finset.sum_comm]
  apply Finset.sum_congr rfl
  intro k hk
  rw [Finset.sum_comm]
  have e2 : ∀ k' ∈ range d, ∑ r ∈ range N, (ℓ k j * ℓ k' l) * (w r * (z r k * z r k'))
      = if k = k' then ℓ k j * ℓ k' l else 0 := by
    intro k' hk'
    rw [← Finset.mul_sum, h2 k hk k' hk']
    split <;> simp
  rw [Finset.sum_congr rfl e2, Finset.sum_ite_eq]
  simp [hk]

/-! ### from lists to finite sums -/

theorem quadSumRows_eq_sum (W : List K) (Z : List (List K)) (hlen : W.length = Z.length)
    (F : List K → K) :
    quadSumRows W Z F = ∑ r ∈ range W.length, W.getD r 0 * F (Z.getD r []) := by
  unfold quadSumRows
  rw [dot_eq_sum _ _ (by simp [hlen])]
  apply Finset.sum_congr rfl
  intro r hr
  have : r < Z.length := by rw [← hlen]; simpa using hr
  simp [List.getD_eq_getElem?_getD, this]

theorem affineMap_getD (L : List (List K)) (mu : List K) (Z : List (List K)) (r : Nat)
    (hr : r < Z.length) : (affineMap L mu Z).getD r [] = affineRow L mu (Z.getD r []) := by
  simp [affineMap, List.getD_eq_getElem?_getD, hr]

theorem colOf_getD (L : List (List K)) (j k : Nat) :
    (colOf L j).getD k 0 = (L.getD k []).getD j 0 := by
  unfold colOf
  by_cases hk : k < L.length
  · simp [List.getD_eq_getElem?_getD, hk]
  · simp [List.getD_eq_getElem?_getD, hk]

theorem affineRow_getD (L : List (List K)) (mu : List K) (z : List K) (j : Nat)
    (hj : j < mu.length) (hz : z.length = L.length) :
    (affineRow L mu z).getD j 0
      = (∑ k ∈ range L.length, z.getD k 0 * (L.getD k []).getD j 0) + mu.getD j 0 := by
  unfold affineRow
  rw [List.getD_eq_getElem?_getD, List.getElem?_map, List.getElem?_range hj]
  simp only [Option.map_some, Option.getD_some]
  rw [dot_eq_sum _ _ (by simp [colOf, hz]), hz]
  congr 1
  apply Finset.sum_congr rfl
  intro k _
  rw [colOf_getD]

end QE.C08
