/-
  Lemmas for C14, part 4: splitting a payoff function into the players' rotated arrays and
  rebuilding it (the two `transpose` calls of `__init__` / `payoff_profile_array` / GAM).
-/
import QEProofs.Lemmas.C14Rot
namespace QE.C14

variable {α : Type} [Zero α]

theorem tab_congr (s : List Nat) (f f' : List Nat → α)
    (h : ∀ idx, inBounds s idx = true → f idx = f' idx) : Arr.tab s f = Arr.tab s f' := by
  unfold Arr.tab
  congr 1
  apply List.map_congr_left
  intro idx hm
  exact h idx (mem_allIdx_inBounds s idx hm)

/-- player `i`'s array seen in the players' common axis order:
    `payoff_array.transpose((*range(N-i, N), *range(N-i)))` has shape `nums` and reads the
    player's array at the profile rotated by `i`. -/
theorem transpose_back (A : Arr α) (nums : List Nat) (i : Nat) (hi : i ≤ nums.length)
    (hs : A.shape = rotL i nums) :
    (A.transpose (rotPerm nums.length (nums.length - i))).shape = nums ∧
    ∀ idx, inBounds nums idx = true →
      (A.transpose (rotPerm nums.length (nums.length - i))).get idx = A.get (rotL i idx) := by
  have hsh : (rotPerm nums.length (nums.length - i)).map (fun k => A.shape.getD k 0) = nums := by
    rw [map_getD_rotPerm _ _ _ (by omega) (by rw [hs, length_rotL]), hs]
    exact rotL_rotL i _ nums hi (by omega) (by omega)
  refine ⟨hsh, ?_⟩
  intro idx hp
  unfold Arr.transpose
  rw [hsh, get_tab _ _ _ hp, srcIndex_rotPerm _ _ _ (by omega) (inBounds_length _ _ hp)]
  congr 2
  omega

/-- the other direction: an array `X` over the common axis order that holds player `i`'s
    payoffs, transposed by `(*range(i, N), *range(i))`, is exactly player `i`'s array. -/
theorem transpose_fwd (A X : Arr α) (nums : List Nat) (i : Nat) (hi : i ≤ nums.length)
    (hs : A.shape = rotL i nums) (hsz : A.data.length = prod A.shape) (hX : X.shape = nums)
    (hget : ∀ idx, inBounds nums idx = true → X.get idx = A.get (rotL i idx)) :
    X.transpose (rotPerm nums.length i) = A := by
  have hsh : (rotPerm nums.length i).map (fun k => X.shape.getD k 0) = rotL i nums := by
    rw [map_getD_rotPerm _ _ _ hi (by rw [hX]), hX]
  unfold Arr.transpose
  rw [hsh]
  have : Arr.tab (rotL i nums) (fun b => X.get (Arr.srcIndex (rotPerm nums.length i) b))
      = Arr.tab (rotL i nums) A.get := by
    apply tab_congr
    intro b hb
    have hbl : b.length = nums.length := by rw [inBounds_length _ _ hb, length_rotL]
    rw [srcIndex_rotPerm _ _ _ hi hbl]
    have hb2 : inBounds nums (rotL (nums.length - i) b) = true := by
      have := inBounds_rotL (nums.length - i) (rotL i nums) b (by rw [length_rotL]; omega) hb
      rwa [rotL_rotL i _ nums hi (by omega) (by omega)] at this
    rw [hget _ hb2]
    congr 1
    exact rotL_rotL (nums.length - i) i b (by omega) (by omega) (by omega)
  rw [this, ← hs]
  exact tab_get_self A hsz

end QE.C14
