/-
  C12 helper lemmas, part 1: the Kalman half steps of `QEModel/C12.lean` read as
  Mathlib matrices (`toMat` of `C06Mat`), the assumed behaviour of
  `scipy.linalg.inv` (`InvSpec`), and the induction principle over observation
  records.
-/
import QEModel.C12
import QEProofs.Lemmas.C06Mat
import Mathlib.LinearAlgebra.Matrix.NonsingularInverse
import Mathlib.Tactic.NoncommRing

set_option linter.unusedSectionVars false
set_option linter.unusedVariables false

namespace QE.C12
open QE QE.MatAlg Matrix
open QE.C06 (toMat Dim dim_mmul dim_madd dim_msub dim_mT dim_smul dim_ident toMat_mmul toMat_madd
  toMat_msub toMat_mT toMat_smul toMat_ident)

section
variable {K : Type} [CommRing K]

/-- assumed behaviour of `inv` on `k × k` matrices (LAPACK is not modelled): a returned
    matrix has the right shape and is a two-sided inverse -/
def InvSpec (inv : M K → Option (M K)) (k : ℕ) : Prop :=
  ∀ F Fi : M K, Dim F k k → inv F = some Fi →
    Dim Fi k k ∧ toMat k k Fi * toMat k k F = 1 ∧ toMat k k F * toMat k k Fi = 1

/-- the innovation covariance `G Σ G' + H H'` -/
def innov {n k l : ℕ} (S : Matrix (Fin n) (Fin n) K) (g : Matrix (Fin k) (Fin n) K)
    (h : Matrix (Fin k) (Fin l) K) : Matrix (Fin k) (Fin k) K := g * S * gᵀ + h * hᵀ

variable {n m k l : ℕ}

/-- `prior_to_filtered` as matrices: if it returns, the innovation covariance is invertible and
    `x̂ᶠ = x̂ + Σ G' F⁻¹ (y − G x̂)`, `Σᶠ = Σ − Σ G' F⁻¹ (G Σ)`. -/
theorem priorToFiltered_toMat (inv : M K → Option (M K)) (hinv : InvSpec inv k) (G H : M K)
    (s s1 : KState K) (y : M K) (hG : Dim G k n) (hH : Dim H k l) (hx : Dim s.xhat n 1)
    (hS : Dim s.sigma n n) (hy : Dim y k 1) (h : priorToFiltered inv G H s y = some s1) :
    Dim s1.xhat n 1 ∧ Dim s1.sigma n n ∧
    IsUnit (innov (toMat n n s.sigma) (toMat k n G) (toMat k l H)).det ∧
    toMat n 1 s1.xhat = toMat n 1 s.xhat + toMat n n s.sigma * (toMat k n G)ᵀ *
        (innov (toMat n n s.sigma) (toMat k n G) (toMat k l H))⁻¹ *
        (toMat k 1 y - toMat k n G * toMat n 1 s.xhat) ∧
    toMat n n s1.sigma = toMat n n s.sigma - toMat n n s.sigma * (toMat k n G)ᵀ *
        (innov (toMat n n s.sigma) (toMat k n G) (toMat k l H))⁻¹ *
        (toMat k n G * toMat n n s.sigma) := by
  have hGt : Dim (mT G) n k := dim_mT hG
  have hGS : Dim (mmul G s.sigma) k n := dim_mmul hG hS
  have hF : Dim (madd (mmul (mmul G s.sigma) (mT G)) (mmul H (mT H))) k k :=
    dim_madd (dim_mmul hGS hGt)
  have hE : Dim (mmul s.sigma (mT G)) n k := dim_mmul hS hGt
  have hFm : toMat k k (madd (mmul (mmul G s.sigma) (mT G)) (mmul H (mT H)))
      = innov (toMat n n s.sigma) (toMat k n G) (toMat k l H) := by
    unfold innov
    rw [toMat_madd (dim_mmul hGS hGt), toMat_mmul hGS hGt, toMat_mmul hG hS, toMat_mT hG,
      toMat_mmul hH (dim_mT hH), toMat_mT hH]
  unfold priorToFiltered at h
  dsimp only at h
  split at h
  · cases h
  · rename_i Fi hFi
    obtain ⟨hFid, hl, hr⟩ := hinv _ Fi hF hFi
    rw [hFm] at hl hr
    have hinvF : (innov (toMat n n s.sigma) (toMat k n G) (toMat k l H))⁻¹ = toMat k k Fi :=
      Matrix.inv_eq_left_inv hl
    have hunit : IsUnit (innov (toMat n n s.sigma) (toMat k n G) (toMat k l H)).det := by
      have : IsUnit (innov (toMat n n s.sigma) (toMat k n G) (toMat k l H)) :=
        IsUnit.of_mul_eq_one _ hr
      exact (Matrix.isUnit_iff_isUnit_det _).mp this
    have hMg : Dim (mmul (mmul s.sigma (mT G)) Fi) n k := dim_mmul hE hFid
    have hinn : Dim (msub y (mmul G s.xhat)) k 1 := dim_msub hy
    injection h with h
    subst h
    refine ⟨dim_madd hx, dim_msub hS, hunit, ?_, ?_⟩
    · dsimp only
      rw [toMat_madd hx, toMat_mmul hMg hinn, toMat_mmul hE hFid, toMat_mmul hS hGt, toMat_mT hG,
        toMat_msub hy, toMat_mmul hG hx, hinvF]
    · dsimp only
      rw [toMat_msub hS, toMat_mmul hMg hGS, toMat_mmul hE hFid, toMat_mmul hS hGt, toMat_mT hG,
        toMat_mmul hG hS, hinvF]

/-- `filtered_to_forecast` as matrices: `A x̂`, `A (Σ A') + C C'` -/
theorem filteredToForecast_toMat (A C : M K) (s : KState K) (hA : Dim A n n) (hC : Dim C n m)
    (hx : Dim s.xhat n 1) (hS : Dim s.sigma n n) :
    Dim (filteredToForecast A C s).xhat n 1 ∧ Dim (filteredToForecast A C s).sigma n n ∧
    toMat n 1 (filteredToForecast A C s).xhat = toMat n n A * toMat n 1 s.xhat ∧
    toMat n n (filteredToForecast A C s).sigma =
      toMat n n A * toMat n n s.sigma * (toMat n n A)ᵀ + toMat n m C * (toMat n m C)ᵀ := by
  have hAt : Dim (mT A) n n := dim_mT hA
  have hSA : Dim (mmul s.sigma (mT A)) n n := dim_mmul hS hAt
  refine ⟨dim_mmul hA hx, dim_madd (dim_mmul hA hSA), ?_, ?_⟩
  · unfold filteredToForecast; dsimp only; rw [toMat_mmul hA hx]
  · unfold filteredToForecast; dsimp only
    rw [toMat_madd (dim_mmul hA hSA), toMat_mmul hA hSA, toMat_mmul hS hAt, toMat_mT hA,
      toMat_mmul hC (dim_mT hC), toMat_mT hC, Matrix.mul_assoc]

/-- the shapes of a state space model -/
structure SSDim (A C G H : M K) (n m k l : ℕ) : Prop where
  A : Dim A n n
  C : Dim C n m
  G : Dim G k n
  H : Dim H k l

/-- shape of a filter state -/
structure KDim (s : KState K) (n : ℕ) : Prop where
  x : Dim s.xhat n 1
  S : Dim s.sigma n n

/-- one full `update` as matrices -/
theorem update_toMat (inv : M K → Option (M K)) (hinv : InvSpec inv k) (A C G H : M K)
    (hss : SSDim A C G H n m k l) (s s1 : KState K) (y : M K) (hs : KDim s n) (hy : Dim y k 1)
    (h : update inv A C G H s y = some s1) :
    KDim s1 n ∧
    IsUnit (innov (toMat n n s.sigma) (toMat k n G) (toMat k l H)).det ∧
    toMat n 1 s1.xhat = toMat n n A * (toMat n 1 s.xhat + toMat n n s.sigma * (toMat k n G)ᵀ *
        (innov (toMat n n s.sigma) (toMat k n G) (toMat k l H))⁻¹ *
        (toMat k 1 y - toMat k n G * toMat n 1 s.xhat)) ∧
    toMat n n s1.sigma = toMat n n A * (toMat n n s.sigma - toMat n n s.sigma * (toMat k n G)ᵀ *
        (innov (toMat n n s.sigma) (toMat k n G) (toMat k l H))⁻¹ *
        (toMat k n G * toMat n n s.sigma)) * (toMat n n A)ᵀ + toMat n m C * (toMat n m C)ᵀ := by
  unfold update at h
  cases hp : priorToFiltered inv G H s y with
  | none => rw [hp] at h; cases h
  | some sf =>
    rw [hp] at h
    simp only [Option.map_some, Option.some.injEq] at h
    subst h
    obtain ⟨hxd, hSd, hu, hxm, hSm⟩ := priorToFiltered_toMat inv hinv G H s sf y hss.G hss.H hs.x hs.S hy hp
    obtain ⟨hxd', hSd', hxm', hSm'⟩ := filteredToForecast_toMat A C sf hss.A hss.C hxd hSd
    exact ⟨⟨hxd', hSd'⟩, hu, by rw [hxm', hxm], by rw [hSm', hSm]⟩

/-- **induction over observation records**: a property of the filter state that every
    successful `update` preserves holds after every record the filter gets through -/
theorem kalmanRun_induct (inv : M K → Option (M K)) (A C G H : M K) (P : KState K → Prop)
    (hstep : ∀ s y s1, P s → Dim y k 1 → update inv A C G H s y = some s1 → P s1) :
    ∀ (ys : List (M K)) (s sT : KState K), (∀ y ∈ ys, Dim y k 1) → P s →
      kalmanRun inv A C G H s ys = some sT → P sT := by
  intro ys
  induction ys with
  | nil =>
    intro s sT _ hP h
    simp only [kalmanRun, Option.some.injEq] at h
    exact h ▸ hP
  | cons y ys ih =>
    intro s sT hys hP h
    unfold kalmanRun at h
    cases hu : update inv A C G H s y with
    | none => rw [hu] at h; cases h
    | some s1 =>
      rw [hu] at h
      exact ih s1 sT (fun y' hy' => hys y' (List.mem_cons_of_mem _ hy'))
        (hstep s y s1 hP (hys y List.mem_cons_self) hu) h

/-- a run over `ys ++ [y]` is a run over `ys` followed by one `update` -/
theorem kalmanRun_append (inv : M K → Option (M K)) (A C G H : M K) (ys : List (M K)) (y : M K)
    (s : KState K) :
    kalmanRun inv A C G H s (ys ++ [y]) =
      (kalmanRun inv A C G H s ys).bind fun sT => update inv A C G H sT y := by
  induction ys generalizing s with
  | nil =>
    simp only [List.nil_append, kalmanRun, Option.bind_some]
    cases update inv A C G H s y <;> rfl
  | cons y' ys ih =>
    simp only [List.cons_append, kalmanRun]
    cases update inv A C G H s y' with
    | none => rfl
    | some s1 => exact ih s1

/-! ### pure matrix facts -/

/-- a two-sided inverse of a symmetric matrix is symmetric -/
theorem inv_symm_of_symm (F : Matrix (Fin k) (Fin k) K) (hF : Fᵀ = F) : (F⁻¹)ᵀ = F⁻¹ := by
  rw [Matrix.transpose_nonsing_inv, hF]

/-- the measurement update keeps `Σ` symmetric -/
theorem filtered_cov_symm (S : Matrix (Fin n) (Fin n) K) (g : Matrix (Fin k) (Fin n) K)
    (Fi : Matrix (Fin k) (Fin k) K) (hS : Sᵀ = S) (hFi : Fiᵀ = Fi) :
    (S - S * gᵀ * Fi * (g * S))ᵀ = S - S * gᵀ * Fi * (g * S) := by
  rw [transpose_sub, transpose_mul, transpose_mul, transpose_mul, transpose_mul, transpose_transpose,
    hS, hFi]
  simp only [Matrix.mul_assoc]

theorem innov_symm (S : Matrix (Fin n) (Fin n) K) (g : Matrix (Fin k) (Fin n) K)
    (h : Matrix (Fin k) (Fin l) K) (hS : Sᵀ = S) : (innov S g h)ᵀ = innov S g h := by
  unfold innov
  rw [transpose_add, transpose_mul, transpose_mul, transpose_transpose, hS, transpose_mul,
    transpose_transpose, Matrix.mul_assoc]

theorem forecast_cov_symm (S a : Matrix (Fin n) (Fin n) K) (c : Matrix (Fin n) (Fin m) K)
    (hS : Sᵀ = S) : (a * S * aᵀ + c * cᵀ)ᵀ = a * S * aᵀ + c * cᵀ := by
  rw [transpose_add, transpose_mul, transpose_mul, transpose_transpose, hS, transpose_mul,
    transpose_transpose, Matrix.mul_assoc]

/-- `stationary_values` after the Riccati solve: `K∞ = A Σ G' (G Σ G' + H H')⁻¹` -/
theorem stationaryGain_toMat (inv : M K → Option (M K)) (hinv : InvSpec inv k) (A G H Sig Kinf : M K)
    (hA : Dim A n n) (hG : Dim G k n) (hH : Dim H k l) (hS : Dim Sig n n)
    (h : stationaryGain inv A G H Sig = some Kinf) :
    Dim Kinf n k ∧ IsUnit (innov (toMat n n Sig) (toMat k n G) (toMat k l H)).det ∧
    toMat n k Kinf = toMat n n A * toMat n n Sig * (toMat k n G)ᵀ *
      (innov (toMat n n Sig) (toMat k n G) (toMat k l H))⁻¹ := by
  have hGt : Dim (mT G) n k := dim_mT hG
  have hSG : Dim (mmul Sig (mT G)) n k := dim_mmul hS hGt
  have hF : Dim (madd (mmul G (mmul Sig (mT G))) (mmul H (mT H))) k k := dim_madd (dim_mmul hG hSG)
  have hFm : toMat k k (madd (mmul G (mmul Sig (mT G))) (mmul H (mT H)))
      = innov (toMat n n Sig) (toMat k n G) (toMat k l H) := by
    unfold innov
    rw [toMat_madd (dim_mmul hG hSG), toMat_mmul hG hSG, toMat_mmul hS hGt, toMat_mT hG,
      toMat_mmul hH (dim_mT hH), toMat_mT hH, Matrix.mul_assoc]
  have hAS : Dim (mmul A Sig) n n := dim_mmul hA hS
  unfold stationaryGain at h
  dsimp only at h
  split at h
  · cases h
  · rename_i Fi hFi
    obtain ⟨hFid, hl, hr⟩ := hinv _ Fi hF hFi
    rw [hFm] at hl hr
    have hinvF := Matrix.inv_eq_left_inv hl
    have hunit : IsUnit (innov (toMat n n Sig) (toMat k n G) (toMat k l H)).det :=
      (Matrix.isUnit_iff_isUnit_det _).mp (IsUnit.of_mul_eq_one _ hr)
    injection h with h
    subst h
    refine ⟨dim_mmul (dim_mmul hAS hGt) hFid, hunit, ?_⟩
    rw [toMat_mmul (dim_mmul hAS hGt) hFid, toMat_mmul hAS hGt, toMat_mmul hA hS, toMat_mT hG, hinvF]

/-- what the driver prints (`kalmanTrace`) is the run of `kalmanRun`: it succeeds exactly when
    the run does, and then lists one state per observation, the last one being the run's result -/
theorem kalmanTrace_spec (inv : M K → Option (M K)) (A C G H : M K) (ys : List (M K)) (s : KState K) :
    ((kalmanTrace inv A C G H s ys).2 = true ↔ (kalmanRun inv A C G H s ys).isSome = true) ∧
    ∀ sT, kalmanRun inv A C G H s ys = some sT →
      (kalmanTrace inv A C G H s ys).1.length = ys.length ∧
      (s :: (kalmanTrace inv A C G H s ys).1).getLast? = some sT := by
  induction ys generalizing s with
  | nil => simp [kalmanTrace, kalmanRun]
  | cons y ys ih =>
    unfold kalmanTrace kalmanRun
    cases hu : update inv A C G H s y with
    | none => simp
    | some s1 =>
      obtain ⟨h1, h2⟩ := ih s1
      refine ⟨by simpa using h1, ?_⟩
      intro sT hT
      obtain ⟨l1, l2⟩ := h2 sT hT
      refine ⟨by simp [l1], ?_⟩
      simpa [List.getLast?_cons_cons] using l2

/-- the covariance produced by `update` does not depend on the observation or on `x̂` -/
theorem update_sigma_indep {α : Type} [Zero α] [Add α] [Sub α] [Mul α]
    (inv : M α → Option (M α)) (A C G H : M α) (s s' : KState α) (y y' : M α)
    (h : s.sigma = s'.sigma) :
    (update inv A C G H s y).map (·.sigma) = (update inv A C G H s' y').map (·.sigma) := by
  unfold update priorToFiltered
  rw [h]
  dsimp only
  cases hi : inv (madd (mmul (mmul G s'.sigma) (mT G)) (mmul H (mT H))) <;> simp [filteredToForecast]

/-- along two records of the same length the covariances coincide (and the runs fail together) -/
theorem kalmanRun_sigma_indep {α : Type} [Zero α] [Add α] [Sub α] [Mul α]
    (inv : M α → Option (M α)) (A C G H : M α) :
    ∀ (ys ys' : List (M α)) (s s' : KState α), ys.length = ys'.length → s.sigma = s'.sigma →
      (kalmanRun inv A C G H s ys).map (·.sigma) = (kalmanRun inv A C G H s' ys').map (·.sigma) := by
  intro ys
  induction ys with
  | nil =>
    intro ys' s s' hl h
    cases ys' with
    | nil => simp [kalmanRun, h]
    | cons _ _ => simp at hl
  | cons y ys ih =>
    intro ys' s s' hl h
    cases ys' with
    | nil => simp at hl
    | cons y' ys' =>
      have hu := update_sigma_indep inv A C G H s s' y y' h
      unfold kalmanRun
      cases h1 : update inv A C G H s y with
      | none =>
        rw [h1] at hu
        cases h2 : update inv A C G H s' y' with
        | none => rfl
        | some s2 => rw [h2] at hu; simp at hu
      | some s1 =>
        rw [h1] at hu
        cases h2 : update inv A C G H s' y' with
        | none => rw [h2] at hu; simp at hu
        | some s2 =>
          rw [h2] at hu
          simp only [Option.map_some, Option.some.injEq] at hu
          exact ih ys' s1 s2 (by simpa using hl) hu

end
/-! ### histories on one instance -/

section history
variable {α : Type} [Zero α] [Add α] [Sub α] [Mul α]

/-- `stationary_values` is not one of the state-changing calls -/
def KOp.isStat : KOp α → Bool
  | .stat _ => true
  | _ => false

/-- a `stat` call leaves `(x_hat, Sigma)` untouched -/
theorem objStep_stat_state (inv : M α → Option (M α)) (A C G H : M α) (o o1 : KObj α) (Sig : M α)
    (h : objStep inv A C G H o (.stat Sig) = some o1) : o1.st = o.st := by
  simp only [objStep] at h
  cases hK : stationaryGain inv A G H Sig with
  | none => rw [hK] at h; cases h
  | some K => rw [hK] at h; simp only [Option.map_some, Option.some.injEq] at h; rw [← h]

/-- every other call computes the new `(x_hat, Sigma)` from `(model, x_hat, Sigma, argument)` only:
    two instances with the same state and ANY cache contents move to the same state, and keep
    their caches -/
theorem objStep_state_indep (inv : M α → Option (M α)) (A C G H : M α) (o o' : KObj α) (op : KOp α)
    (hop : op.isStat = false) (h : o.st = o'.st) :
    (objStep inv A C G H o op).map (·.st) = (objStep inv A C G H o' op).map (·.st) ∧
    (∀ o1, objStep inv A C G H o op = some o1 → o1.sigInf = o.sigInf ∧ o1.kInf = o.kInf) := by
  cases op with
  | stat Sig => simp [KOp.isStat] at hop
  | setState x S => exact ⟨rfl, fun o1 h1 => by simp only [objStep, Option.some.injEq] at h1; rw [← h1]; exact ⟨rfl, rfl⟩⟩
  | f2f => exact ⟨by simp [objStep, h], fun o1 h1 => by simp only [objStep, Option.some.injEq] at h1; rw [← h1]; exact ⟨rfl, rfl⟩⟩
  | p2f y =>
    refine ⟨by simp only [objStep, h]; cases priorToFiltered inv G H o'.st y <;> rfl, fun o1 h1 => ?_⟩
    simp only [objStep] at h1
    cases hp : priorToFiltered inv G H o.st y with
    | none => rw [hp] at h1; cases h1
    | some s => rw [hp] at h1; simp only [Option.map_some, Option.some.injEq] at h1; rw [← h1]; exact ⟨rfl, rfl⟩
  | update y =>
    refine ⟨by simp only [objStep, h]; cases update inv A C G H o'.st y <;> rfl, fun o1 h1 => ?_⟩
    simp only [objStep] at h1
    cases hp : update inv A C G H o.st y with
    | none => rw [hp] at h1; cases h1
    | some s => rw [hp] at h1; simp only [Option.map_some, Option.some.injEq] at h1; rw [← h1]; exact ⟨rfl, rfl⟩

/-- a history without `stat` calls: the resulting state does not depend on the cache -/
theorem objRun_state_indep (inv : M α → Option (M α)) (A C G H : M α) :
    ∀ (ops : List (KOp α)) (o o' : KObj α), (∀ op ∈ ops, op.isStat = false) → o.st = o'.st →
      (objRun inv A C G H o ops).map (·.st) = (objRun inv A C G H o' ops).map (·.st) := by
  intro ops
  induction ops with
  | nil => intro o o' _ h; simp [objRun, h]
  | cons op ops ih =>
    intro o o' hops h
    have hst := (objStep_state_indep inv A C G H o o' op (hops op List.mem_cons_self) h).1
    unfold objRun
    cases h1 : objStep inv A C G H o op with
    | none =>
      rw [h1] at hst
      cases h2 : objStep inv A C G H o' op with
      | none => rfl
      | some _ => rw [h2] at hst; simp at hst
    | some o1 =>
      rw [h1] at hst
      cases h2 : objStep inv A C G H o' op with
      | none => rw [h2] at hst; simp at hst
      | some o2 =>
        rw [h2] at hst
        simp only [Option.map_some, Option.some.injEq] at hst
        exact ih o1 o2 (fun op' h' => hops op' (List.mem_cons_of_mem _ h')) hst

/-- successful `stat` calls can be deleted from a history without changing the final state -/
theorem objRun_drop_stat (inv : M α → Option (M α)) (A C G H : M α) :
    ∀ (ops : List (KOp α)) (o oT : KObj α), objRun inv A C G H o ops = some oT →
      (objRun inv A C G H o (ops.filter fun op => !op.isStat)).map (·.st) = some oT.st := by
  intro ops
  induction ops with
  | nil => intro o oT h; simp only [objRun, Option.some.injEq] at h; simp [objRun, h]
  | cons op ops ih =>
    intro o oT h
    unfold objRun at h
    cases h1 : objStep inv A C G H o op with
    | none => rw [h1] at h; cases h
    | some o1 =>
      rw [h1] at h
      have hrec := ih o1 oT h
      cases hs : op.isStat with
      | true =>
        have hop : ∃ Sig, op = .stat Sig := by
          cases op with
          | stat Sig => exact ⟨Sig, rfl⟩
          | _ => simp [KOp.isStat] at hs
        obtain ⟨Sig, rfl⟩ := hop
        have hst := objStep_stat_state inv A C G H o o1 Sig h1
        rw [List.filter_cons_of_neg (by simp [hs])]
        rw [← hrec]
        exact objRun_state_indep inv A C G H _ o o1
          (fun op' h' => by have := (List.mem_filter.mp h').2; simpa using this) hst.symm
      | false =>
        rw [List.filter_cons_of_pos (by simp [hs])]
        unfold objRun
        rw [h1]
        exact hrec

/-- a history of `update` calls is `kalmanRun` on the record -/
theorem objRun_updates (inv : M α → Option (M α)) (A C G H : M α) (ys : List (M α)) (o : KObj α) :
    (objRun inv A C G H o (ys.map KOp.update)).map (·.st) = kalmanRun inv A C G H o.st ys := by
  induction ys generalizing o with
  | nil => simp [objRun, kalmanRun]
  | cons y ys ih =>
    simp only [List.map_cons, objRun, kalmanRun, objStep]
    cases update inv A C G H o.st y with
    | none => rfl
    | some s => exact ih _

end history

end QE.C12
