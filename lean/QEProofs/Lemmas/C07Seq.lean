/-
  C07 helper lemmas, part 3: list bookkeeping of `compute_sequence` — the policies are
  appended in backward order (`lqBackward`) and popped from the end (`simLoop`), so the
  policy used at time `t` is the one produced by backward step `T - t`.
  No matrix algebra here: every statement is an equality of the model's own values.
-/
import QEModel.C07

set_option linter.unusedSectionVars false

namespace QE.C07
open QE QE.MatAlg

section
variable {α : Type} [Zero α] [One α] [Add α] [Sub α] [Mul α] [Div α] [Neg α] [BEq α]

/-! ### the backward recursion as a sequence -/

/-- value after one `update_values` -/
def stepV (sol : M α → M α → Option (M α)) (lq : LQ α) (v : Val α) : Option (Val α) :=
  (lqUpdate sol lq v).map (·.2)

/-- policy produced by one `update_values` -/
def stepF (sol : M α → M α → Option (M α)) (lq : LQ α) (v : Val α) : Option (M α) :=
  (lqUpdate sol lq v).map (·.1)

/-- the value `(P, d)` after `t` calls of `update_values` starting from `v` -/
def valAt (sol : M α → M α → Option (M α)) (lq : LQ α) (v : Val α) : Nat → Option (Val α)
  | 0 => some v
  | t + 1 => (valAt sol lq v t).bind (stepV sol lq)

/-- the policy `F` produced by call number `t + 1` of `update_values` (backward step `t + 1`) -/
def polAt (sol : M α → M α → Option (M α)) (lq : LQ α) (v : Val α) (t : Nat) : Option (M α) :=
  (valAt sol lq v t).bind (stepF sol lq)

theorem valAt_succ_front (sol : M α → M α → Option (M α)) (lq : LQ α) (v : Val α) (t : Nat) :
    valAt sol lq v (t + 1) = (stepV sol lq v).bind (fun v' => valAt sol lq v' t) := by
  induction t with
  | zero => simp [valAt]
  | succ t ih =>
    show (valAt sol lq v (t + 1)).bind (stepV sol lq) = _
    rw [ih, Option.bind_assoc]
    rfl

theorem lqBackward_spec (sol : M α → M α → Option (M α)) (lq : LQ α) :
    ∀ (T : Nat) (v : Val α) (pol pol' : List (M α)) (vT : Val α),
      lqBackward sol lq T v pol = some (pol', vT) →
      valAt sol lq v T = some vT ∧
      ∃ L : List (M α), pol' = pol ++ L ∧ L.length = T ∧ ∀ t, t < T → polAt sol lq v t = L[t]? := by
  intro T
  induction T with
  | zero =>
    intro v pol pol' vT h
    simp only [lqBackward, Option.some.injEq, Prod.mk.injEq] at h
    obtain ⟨h1, h2⟩ := h
    subst h1; subst h2
    exact ⟨rfl, [], by simp, rfl, fun t ht => absurd ht (Nat.not_lt_zero t)⟩
  | succ T ih =>
    intro v pol pol' vT h
    unfold lqBackward at h
    cases hu : lqUpdate sol lq v with
    | none => rw [hu] at h; cases h
    | some r =>
      obtain ⟨F, v1⟩ := r
      rw [hu] at h
      simp only at h
      obtain ⟨hv, L, hL, hlen, hpol⟩ := ih v1 (pol ++ [F]) pol' vT h
      have hsV : stepV sol lq v = some v1 := by simp [stepV, hu]
      have hsF : stepF sol lq v = some F := by simp [stepF, hu]
      refine ⟨by rw [valAt_succ_front, hsV]; exact hv, F :: L, by rw [hL]; simp, by simp [hlen], ?_⟩
      intro t ht
      cases t with
      | zero => simp [polAt, valAt, hsF]
      | succ t =>
        have := hpol t (by omega)
        simp only [List.getElem?_cons_succ]
        rw [← this]
        unfold polAt
        rw [valAt_succ_front, hsV]
        rfl

/-! ### pop and the simulation loop -/

theorem pop?_of_reverse {β : Type} (l : List β) (a : β) (r : List β) (h : l.reverse = a :: r) :
    pop? l = some (a, r.reverse) := by
  unfold pop?; rw [h]

/-- the closed-loop path with the policies consumed front to back, entered like `simLoop`:
    `x = x_{t-1}`, `u = u_{t-1}`; returns `(x_{t-1} … x_T, u_{t-1} … u_{T-1})` -/
def pathList (A B : M α) (cw : Nat → M α) : Nat → List (M α) → M α → M α → List (M α) × List (M α)
  | t, [], x, u => ([x, nextX A B x u (cw t)], [u])
  | t, F :: r, x, u =>
    let x' := nextX A B x u (cw t)
    let p := pathList A B cw (t + 1) r x' (ctrl F x')
    (x :: p.1, u :: p.2)

theorem simLoop_eq (A B : M α) (cw : Nat → M α) :
    ∀ (rem t : Nat) (pol : List (M α)) (x u : M α), pol.length = rem →
      simLoop A B cw rem t pol x u = some (pathList A B cw t pol.reverse x u) := by
  intro rem
  induction rem with
  | zero =>
    intro t pol x u h
    have : pol = [] := List.eq_nil_of_length_eq_zero h
    subst this
    simp [simLoop, pathList]
  | succ rem ih =>
    intro t pol x u h
    cases hr : pol.reverse with
    | nil =>
      have : pol = [] := by simpa using hr
      subst this; simp at h
    | cons a r =>
      have hp := pop?_of_reverse pol a r hr
      have hlen : r.reverse.length = rem := by
        have : pol.reverse.length = rem + 1 := by simp [h]
        rw [hr] at this
        simp at this ⊢
        exact this
      unfold simLoop
      rw [hp]
      simp only
      rw [ih (t + 1) r.reverse _ _ hlen, List.reverse_reverse]
      simp [pathList]

/-- the closed-loop system run with the policies `pol` in *time order* (`pol[t]` is applied at
    time `t`): `x_0 = x0`, `u_t = -F_t x_t`, `x_{t+1} = A x_t + B u_t + cw (t+1)` -/
def closedLoop (A B : M α) (cw : Nat → M α) (pol : List (M α)) (x0 : M α) : List (M α) × List (M α) :=
  match pol with
  | [] => ([x0], [])
  | F :: r => pathList A B cw 1 r x0 (ctrl F x0)

theorem simulate_eq (lq : LQ α) (pol : List (M α)) (T : Nat) (x0 W : M α)
    (hlen : pol.length = T) (hT : T ≠ 0) :
    simulate lq pol T x0 W = some (closedLoop lq.A lq.B (col (mmul lq.C W)) pol.reverse x0) := by
  unfold simulate
  cases hr : pol.reverse with
  | nil =>
    have : pol = [] := by simpa using hr
    subst this; simp at hlen; exact absurd hlen.symm hT
  | cons a r =>
    have hp := pop?_of_reverse pol a r hr
    have hl : r.reverse.length = T - 1 := by
      have : pol.reverse.length = T := by simp [hlen]
      rw [hr] at this
      simp at this ⊢
      omega
    simp only [hp]
    rw [simLoop_eq _ _ _ (T - 1) 1 r.reverse _ _ hl, List.reverse_reverse]
    rfl

/-! ### the path law, pointwise -/

theorem pathList_spec (A B : M α) (cw : Nat → M α) :
    ∀ (r : List (M α)) (t0 : Nat) (x u : M α),
      (pathList A B cw t0 r x u).1.length = r.length + 2 ∧
      (pathList A B cw t0 r x u).2.length = r.length + 1 ∧
      (pathList A B cw t0 r x u).1[0]? = some x ∧
      (pathList A B cw t0 r x u).2[0]? = some u ∧
      ∀ i, i ≤ r.length → ∃ xi ui,
        (pathList A B cw t0 r x u).1[i]? = some xi ∧
        (pathList A B cw t0 r x u).2[i]? = some ui ∧
        (pathList A B cw t0 r x u).1[i + 1]? = some (nextX A B xi ui (cw (t0 + i))) ∧
        ∀ Fi, r[i]? = some Fi →
          (pathList A B cw t0 r x u).2[i + 1]? = some (ctrl Fi (nextX A B xi ui (cw (t0 + i)))) := by
  intro r
  induction r with
  | nil =>
    intro t0 x u
    refine ⟨rfl, rfl, rfl, rfl, ?_⟩
    intro i hi
    have : i = 0 := by simpa using hi
    subst this
    exact ⟨x, u, rfl, rfl, rfl, fun Fi h => by simp at h⟩
  | cons F r ih =>
    intro t0 x u
    obtain ⟨l1, l2, h0x, h0u, hstep⟩ := ih (t0 + 1) (nextX A B x u (cw t0)) (ctrl F (nextX A B x u (cw t0)))
    refine ⟨by simp [pathList, l1], by simp [pathList, l2], by simp [pathList], by simp [pathList], ?_⟩
    intro i hi
    cases i with
    | zero =>
      refine ⟨x, u, by simp [pathList], by simp [pathList], ?_, ?_⟩
      · simp only [pathList, List.getElem?_cons_succ]
        exact h0x
      · intro Fi hFi
        simp only [List.getElem?_cons_zero, Option.some.injEq] at hFi
        subst hFi
        simp only [pathList, List.getElem?_cons_succ]
        exact h0u
    | succ i =>
      obtain ⟨xi, ui, e1, e2, e3, e4⟩ := hstep i (by simp at hi; omega)
      have ht : t0 + 1 + i = t0 + (i + 1) := by omega
      rw [ht] at e3 e4
      refine ⟨xi, ui, by simp only [pathList, List.getElem?_cons_succ]; exact e1,
        by simp only [pathList, List.getElem?_cons_succ]; exact e2,
        by simp only [pathList, List.getElem?_cons_succ]; exact e3, ?_⟩
      intro Fi hFi
      simp only [List.getElem?_cons_succ] at hFi
      simp only [pathList, List.getElem?_cons_succ]
      exact e4 Fi hFi

/-- the closed-loop path obeys the law of motion with `pol[t]` applied at time `t` -/
theorem closedLoop_spec (A B : M α) (cw : Nat → M α) (pol : List (M α)) (x0 : M α) (hT : pol ≠ []) :
    (closedLoop A B cw pol x0).1.length = pol.length + 1 ∧
    (closedLoop A B cw pol x0).2.length = pol.length ∧
    (closedLoop A B cw pol x0).1[0]? = some x0 ∧
    ∀ t, t < pol.length → ∃ xt ut Ft,
      (closedLoop A B cw pol x0).1[t]? = some xt ∧
      (closedLoop A B cw pol x0).2[t]? = some ut ∧
      pol[t]? = some Ft ∧ ut = ctrl Ft xt ∧
      (closedLoop A B cw pol x0).1[t + 1]? = some (nextX A B xt ut (cw (t + 1))) := by
  cases pol with
  | nil => exact absurd rfl hT
  | cons F r =>
    obtain ⟨l1, l2, h0x, h0u, hstep⟩ := pathList_spec A B cw r 1 x0 (ctrl F x0)
    refine ⟨by simp [closedLoop, l1], by simp [closedLoop, l2], by simpa [closedLoop] using h0x, ?_⟩
    intro t ht
    simp only [List.length_cons] at ht
    obtain ⟨xi, ui, e1, e2, e3, e4⟩ := hstep t (by omega)
    have hc : 1 + t = t + 1 := by omega
    rw [hc] at e3
    cases t with
    | zero =>
      refine ⟨xi, ui, F, e1, e2, by simp, ?_, e3⟩
      have hx : xi = x0 := by
        have := e1; rw [h0x] at this; exact (Option.some.inj this).symm
      have hu' : ui = ctrl F x0 := by
        have := e2; rw [h0u] at this; exact (Option.some.inj this).symm
      rw [hu', hx]
    | succ t =>
      obtain ⟨xp, up, p1, p2, p3, p4⟩ := hstep t (by omega)
      have hFt : ∃ Ft, r[t]? = some Ft := by
        have : t < r.length := by omega
        exact ⟨r[t], by simp [this]⟩
      obtain ⟨Ft, hFt⟩ := hFt
      have q3 := p3
      have q4 := p4 Ft hFt
      rw [e1] at q3
      rw [e2] at q4
      have hxi := Option.some.inj q3
      have hui := Option.some.inj q4
      refine ⟨xi, ui, Ft, e1, e2, by simpa using hFt, ?_, e3⟩
      rw [hui, hxi]

end
end QE.C07
