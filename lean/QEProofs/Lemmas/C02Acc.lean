/-
  Lemmas for C02: running-error analysis of the GTH algorithm in the standard model.
  The model `QEModel.C02` is instantiated at the wrapper type `Fl R` whose `+ * /` are the rounded
  operations of `R : RoundedOps K`; every component of its output approximates the exact output
  (the same definitions at `K`) with an explicit number of rounding factors.
-/
import QEModel.C02
import QEProofs.Lemmas.C02Gth
import QEProofs.Lemmas.C02Round
import Mathlib.Tactic.IntervalCases
import Mathlib.Tactic.NormNum
namespace QE.C02
open Finset

set_option linter.unusedSectionVars false
set_option linter.unusedVariables false

section
variable {K : Type} [Field K] [LinearOrder K] [IsStrictOrderedRing K]

/-- numbers computed with the rounded operations of `R` -/
structure Fl (R : RoundedOps K) where
  val : K

variable {R : RoundedOps K}

instance : Zero (Fl R) := ⟨⟨0⟩⟩
instance : One (Fl R) := ⟨⟨1⟩⟩
instance : Add (Fl R) := ⟨fun a b => ⟨R.fadd a.val b.val⟩⟩
instance : Mul (Fl R) := ⟨fun a b => ⟨R.fmul a.val b.val⟩⟩
instance : Div (Fl R) := ⟨fun a b => ⟨R.fdiv a.val b.val⟩⟩
instance : LE (Fl R) := ⟨fun a b => a.val ≤ b.val⟩
instance : DecidableLE (Fl R) := fun a b => inferInstanceAs (Decidable (a.val ≤ b.val))

@[simp] theorem Fl.zero_val : (0 : Fl R).val = 0 := rfl
@[simp] theorem Fl.one_val : (1 : Fl R).val = 1 := rfl
theorem Fl.add_val (a b : Fl R) : (a + b).val = R.fadd a.val b.val := rfl
theorem Fl.mul_val (a b : Fl R) : (a * b).val = R.fmul a.val b.val := rfl
theorem Fl.div_val (a b : Fl R) : (a / b).val = R.fdiv a.val b.val := rfl
theorem Fl.le_iff (a b : Fl R) : a ≤ b ↔ a.val ≤ b.val := Iff.rfl

/-- a sequential sum of `m` non-negative terms, each with `e` factors, has `e + m` factors -/
theorem sum_apx (R : RoundedOps K) (e : ℕ) (ft : ℕ → Fl R) (f : ℕ → K) (m : ℕ)
    (h : ∀ t, t < m → 0 ≤ f t ∧ Apx R.u e (ft t).val (f t)) :
    0 ≤ sumUpTo f m ∧ Apx R.u (e + m) (sumUpTo ft m).val (sumUpTo f m) := by
  induction m with
  | zero =>
    simp only [sumUpTo, Fl.zero_val]
    exact ⟨le_refl _, apx_refl R.u_nonneg _ (le_refl _)⟩
  | succ m ih =>
    obtain ⟨h0, ha⟩ := ih (fun t ht => h t (by omega))
    obtain ⟨hf0, hfa⟩ := h m (by omega)
    rw [sumUpTo, sumUpTo, Fl.add_val]
    have hacc0 := apx_nonneg R.u_nonneg ha h0
    have hterm0 := apx_nonneg R.u_nonneg hfa hf0
    have hsum : Apx R.u (e + m) ((sumUpTo ft m).val + (ft m).val) (sumUpTo f m + f m) :=
      apx_add ha (apx_mono R.u_nonneg (by omega) hf0 hfa)
    have hr := R.fadd_spec _ _ hacc0 hterm0
    refine ⟨add_nonneg h0 hf0, ?_⟩
    have := apx_trans R.u_nonneg hr hsum
    have e1 : e + m + 1 = e + (m + 1) := by omega
    rw [e1] at this; exact this

/-- off-diagonal entries approximate with `e` factors -/
def ApxOff (R : RoundedOps K) (n e : ℕ) (At : M (Fl R)) (A : M K) : Prop :=
  ∀ i j, i < n → j < n → i ≠ j → Apx R.u e (At.get i j).val (A.get i j)

theorem rowScale_apx (R : RoundedOps K) (n e : ℕ) (At : M (Fl R)) (A : M K) (k : ℕ) (hk : k < n)
    (hA : OffNonneg n A) (h : ApxOff R n e At A) :
    0 ≤ rowScale n A k ∧ Apx R.u (e + (n - (k+1))) (rowScale n At k).val (rowScale n A k) := by
  unfold rowScale
  apply sum_apx
  intro t ht
  exact ⟨hA k (k+1+t) hk (by omega) (by omega), h k (k+1+t) hk (by omega) (by omega)⟩

/-- one elimination step, for ANY rounded pivot-row sum `st` carrying `e+m` factors: the column below the pivot gets `2e+m+1` factors, everything
    `3e+m+3`, with `m = n-(k+1)` the length of the pivot row's active part -/
theorem redStep_apx_gen (R : RoundedOps K) (n e : ℕ) (At : M (Fl R)) (A : M K) (k : ℕ) (hk : k < n)
    (hA : OffNonneg n A) (h : ApxOff R n e At A) (hs : 0 < rowScale n A k) (st : Fl R)
    (hsa : Apx R.u (e + (n - (k+1))) st.val (rowScale n A k)) :
    (∀ i, k < i → i < n →
        Apx R.u (2 * e + (n - (k+1)) + 1)
          ((redStep n At k (st)).get i k).val ((redStep n A k (rowScale n A k)).get i k))
    ∧ ApxOff R n (3 * e + (n - (k+1)) + 3)
        (redStep n At k (st)) (redStep n A k (rowScale n A k)) := by
  set m := n - (k+1) with hm
  have hu := R.u_nonneg
  have hst : 0 < (st).val := apx_pos hu hsa hs
  have hcol : ∀ i, k < i → i < n →
      0 ≤ A.get i k / rowScale n A k ∧
      Apx R.u (2 * e + m + 1) (At.get i k / st).val (A.get i k / rowScale n A k) := by
    intro i hki hin
    have ha0 := hA i k hin hk (by omega)
    have haa := h i k hin hk (by omega)
    have hat0 := apx_nonneg hu haa ha0
    have hd := apx_div hu ha0 hs haa hsa
    have hr := R.fdiv_spec _ _ hat0 hst
    rw [Fl.div_val]
    refine ⟨div_nonneg ha0 hs.le, ?_⟩
    have := apx_trans hu hr hd
    have e1 : e + (e + m) + 1 = 2 * e + m + 1 := by omega
    rw [e1] at this; exact this
  constructor
  · intro i hki hin
    rw [redStep_get' n At k _ i k hin hk, redStep_get' n A k _ i k hin hk, if_pos hki, if_pos hki,
      if_pos rfl, if_pos rfl]
    exact (hcol i hki hin).2
  · intro i j hin hjn hij
    rw [redStep_get' n At k _ i j hin hjn, redStep_get' n A k _ i j hin hjn]
    by_cases hki : k < i
    · rw [if_pos hki, if_pos hki]
      by_cases hjk : j = k
      · rw [if_pos hjk, if_pos hjk]
        exact apx_mono hu (by omega) (hcol i hki hin).1 (hcol i hki hin).2
      · rw [if_neg hjk, if_neg hjk]
        by_cases hkj : k < j
        · rw [if_pos hkj, if_pos hkj]
          obtain ⟨hc0, hca⟩ := hcol i hki hin
          have hkj0 := hA k j hk hjn (by omega)
          have hkja := h k j hk hjn (by omega)
          have hij0 := hA i j hin hjn hij
          have hija := h i j hin hjn hij
          have hct0 := apx_nonneg hu hca hc0
          have hkjt0 := apx_nonneg hu hkja hkj0
          have hijt0 := apx_nonneg hu hija hij0
          -- product
          have hp := apx_mul hu hc0 hkj0 hca hkja
          have hpr := R.fmul_spec _ _ hct0 hkjt0
          have hprod := apx_trans hu hpr hp
          have hprod0 : 0 ≤ A.get i k / rowScale n A k * A.get k j := mul_nonneg hc0 hkj0
          have hprodt0 := apx_nonneg hu hprod hprod0
          -- sum
          have hsum := apx_add (apx_mono hu (show e ≤ 2 * e + m + 1 + e + 1 by omega) hij0 hija) hprod
          have hsr := R.fadd_spec _ _ hijt0 hprodt0
          have := apx_trans hu hsr hsum
          rw [Fl.add_val, Fl.mul_val]
          have e1 : 2 * e + m + 1 + e + 1 + 1 = 3 * e + m + 3 := by omega
          rw [e1] at this; exact this
        · rw [if_neg hkj, if_neg hkj]
          exact apx_mono hu (by omega) (hA i j hin hjn hij) (h i j hin hjn hij)
    · rw [if_neg hki, if_neg hki]
      exact apx_mono hu (by omega) (hA i j hin hjn hij) (h i j hin hjn hij)

/-- one elimination step: the column below the pivot gets `2e+m+1` factors, everything
    `3e+m+3`, with `m = n-(k+1)` the length of the pivot row's active part -/
theorem redStep_apx (R : RoundedOps K) (n e : ℕ) (At : M (Fl R)) (A : M K) (k : ℕ) (hk : k < n)
    (hA : OffNonneg n A) (h : ApxOff R n e At A) (hs : 0 < rowScale n A k) :
    (∀ i, k < i → i < n →
        Apx R.u (2 * e + (n - (k+1)) + 1)
          ((redStep n At k (rowScale n At k)).get i k).val ((redStep n A k (rowScale n A k)).get i k))
    ∧ ApxOff R n (3 * e + (n - (k+1)) + 3)
        (redStep n At k (rowScale n At k)) (redStep n A k (rowScale n A k)) := by
  set m := n - (k+1) with hm
  obtain ⟨hs0, hsa⟩ := rowScale_apx R n e At A k hk hA h
  have hu := R.u_nonneg
  have hst : 0 < (rowScale n At k).val := apx_pos hu hsa hs
  have hcol : ∀ i, k < i → i < n →
      0 ≤ A.get i k / rowScale n A k ∧
      Apx R.u (2 * e + m + 1) (At.get i k / rowScale n At k).val (A.get i k / rowScale n A k) := by
    intro i hki hin
    have ha0 := hA i k hin hk (by omega)
    have haa := h i k hin hk (by omega)
    have hat0 := apx_nonneg hu haa ha0
    have hd := apx_div hu ha0 hs haa hsa
    have hr := R.fdiv_spec _ _ hat0 hst
    rw [Fl.div_val]
    refine ⟨div_nonneg ha0 hs.le, ?_⟩
    have := apx_trans hu hr hd
    have e1 : e + (e + m) + 1 = 2 * e + m + 1 := by omega
    rw [e1] at this; exact this
  constructor
  · intro i hki hin
    rw [redStep_get' n At k _ i k hin hk, redStep_get' n A k _ i k hin hk, if_pos hki, if_pos hki,
      if_pos rfl, if_pos rfl]
    exact (hcol i hki hin).2
  · intro i j hin hjn hij
    rw [redStep_get' n At k _ i j hin hjn, redStep_get' n A k _ i j hin hjn]
    by_cases hki : k < i
    · rw [if_pos hki, if_pos hki]
      by_cases hjk : j = k
      · rw [if_pos hjk, if_pos hjk]
        exact apx_mono hu (by omega) (hcol i hki hin).1 (hcol i hki hin).2
      · rw [if_neg hjk, if_neg hjk]
        by_cases hkj : k < j
        · rw [if_pos hkj, if_pos hkj]
          obtain ⟨hc0, hca⟩ := hcol i hki hin
          have hkj0 := hA k j hk hjn (by omega)
          have hkja := h k j hk hjn (by omega)
          have hij0 := hA i j hin hjn hij
          have hija := h i j hin hjn hij
          have hct0 := apx_nonneg hu hca hc0
          have hkjt0 := apx_nonneg hu hkja hkj0
          have hijt0 := apx_nonneg hu hija hij0
          -- product
          have hp := apx_mul hu hc0 hkj0 hca hkja
          have hpr := R.fmul_spec _ _ hct0 hkjt0
          have hprod := apx_trans hu hpr hp
          have hprod0 : 0 ≤ A.get i k / rowScale n A k * A.get k j := mul_nonneg hc0 hkj0
          have hprodt0 := apx_nonneg hu hprod hprod0
          -- sum
          have hsum := apx_add (apx_mono hu (show e ≤ 2 * e + m + 1 + e + 1 by omega) hij0 hija) hprod
          have hsr := R.fadd_spec _ _ hijt0 hprodt0
          have := apx_trans hu hsr hsum
          rw [Fl.add_val, Fl.mul_val]
          have e1 : 2 * e + m + 1 + e + 1 + 1 = 3 * e + m + 3 := by omega
          rw [e1] at this; exact this
        · rw [if_neg hkj, if_neg hkj]
          exact apx_mono hu (by omega) (hA i j hin hjn hij) (h i j hin hjn hij)
    · rw [if_neg hki, if_neg hki]
      exact apx_mono hu (by omega) (hA i j hin hjn hij) (h i j hin hjn hij)

theorem xerr_step_le (f e : ℕ) : xerr f (3 * e + (f + 1) + 3) ≤ xerr (f + 1) e := by
  rw [xerr]; omega

/-- **Main induction of the error analysis.** If the off-diagonal entries of the rounded matrix
    carry `e` factors, the rounded and the exact recursion take the same branches (same length) and
    every entry of the rounded list carries at most `xerr fuel e` factors. -/
theorem gthRec_apx (R : RoundedOps K) (n : ℕ) : ∀ (fuel k : ℕ) (At : M (Fl R)) (A : M K) (e : ℕ),
    k + fuel + 1 = n → OffNonneg n A → ApxOff R n e At A →
    (gthRec n fuel k At).length = (gthRec n fuel k A).length
    ∧ ∀ t, Apx R.u (xerr fuel e) ((gthRec n fuel k At).getD t 0).val ((gthRec n fuel k A).getD t 0) := by
  have hu := R.u_nonneg
  have hone : ∀ (X : ℕ) (t : ℕ), Apx R.u X (([1] : List (Fl R)).getD t 0).val (([1] : List K).getD t 0) := by
    intro X t
    cases t with
    | zero => simpa using apx_refl hu X (zero_le_one (α := K))
    | succ t => simpa using apx_refl hu X (le_refl (0 : K))
  intro fuel
  induction fuel with
  | zero =>
    intro k At A e hk hA h
    simp only [gthRec]
    exact ⟨rfl, hone _⟩
  | succ fuel ih =>
    intro k At A e hk hA h
    have hkn : k < n := by omega
    have hm : n - (k+1) = fuel + 1 := by omega
    obtain ⟨hs0, hsa⟩ := rowScale_apx R n e At A k hkn hA h
    have hbranch : rowScale n At k ≤ 0 ↔ rowScale n A k ≤ 0 := by
      rw [Fl.le_iff, Fl.zero_val]
      exact apx_le_zero_iff hu hsa hs0
    rw [gthRec, gthRec]
    try simp only
    by_cases hs : rowScale n A k ≤ 0
    · rw [if_pos hs, if_pos (hbranch.2 hs)]
      exact ⟨rfl, hone _⟩
    · rw [if_neg hs, if_neg (fun hc => hs (hbranch.1 hc))]
      have hspos : 0 < rowScale n A k := not_le.1 hs
      obtain ⟨hcol, hoff⟩ := redStep_apx R n e At A k hkn hA h hspos
      rw [hm] at hcol hoff
      have hA'nn := redStep_offNonneg n A k _ hspos hA
      obtain ⟨hlen, hxs⟩ := ih (k+1) _ _ _ (by omega) hA'nn hoff
      obtain ⟨_, hxnn, _, _⟩ := gthRec_null n fuel (k+1) (redStep n A k (rowScale n A k)) (by omega) hA'nn
      have hlenle := gthRec_length n fuel (k+1) (redStep n A k (rowScale n A k))
      set At' := redStep n At k (rowScale n At k) with hAt'
      set A' := redStep n A k (rowScale n A k) with hA'
      set xst := gthRec n fuel (k+1) At' with hxst
      set xs := gthRec n fuel (k+1) A' with hxsdef
      set X' := xerr fuel (3 * e + (fuel + 1) + 3) with hX'
      have hXle : X' ≤ xerr (fuel + 1) e := xerr_step_le fuel e
      -- the new head entry
      have hhead : Apx R.u (xerr (fuel + 1) e) (dotCol At' k xst).val (dotCol A' k xs) := by
        unfold dotCol
        rw [hlen]
        have hterms : ∀ t, t < xs.length →
            0 ≤ xs.getD t 0 * A'.get (k+1+t) k ∧
            Apx R.u (X' + (2 * e + (fuel + 1) + 1) + 1)
              (xst.getD t 0 * At'.get (k+1+t) k).val (xs.getD t 0 * A'.get (k+1+t) k) := by
          intro t ht
          have hx0 := hxnn t
          have ha0 := hA'nn (k+1+t) k (by omega) hkn (by omega)
          have hxa := hxs t
          have haa := hcol (k+1+t) (by omega) (by omega)
          have hp := apx_mul hu hx0 ha0 hxa haa
          have hr := R.fmul_spec _ _ (apx_nonneg hu hxa hx0) (apx_nonneg hu haa ha0)
          rw [Fl.mul_val]
          exact ⟨mul_nonneg hx0 ha0, apx_trans hu hr hp⟩
        obtain ⟨hd0, hda⟩ := sum_apx R _ _ _ xs.length hterms
        refine apx_mono hu ?_ hd0 hda
        rw [xerr]; omega
      refine ⟨by simp only [List.length_cons, hlen], ?_⟩
      intro t
      cases t with
      | zero => simpa using hhead
      | succ t =>
        simp only [List.getD_cons_succ]
        exact apx_mono hu hXle (hxnn t) (hxs t)

/-- lift an exact matrix to the rounded type (the input is read exactly) -/
def liftM (R : RoundedOps K) (n : ℕ) (A : M K) : M (Fl R) := M.tab n n fun i j => ⟨A.get i j⟩

theorem liftM_apx (R : RoundedOps K) (n : ℕ) (A : M K) (hA : OffNonneg n A) :
    ApxOff R n 0 (liftM R n A) A := by
  intro i j hi hj hij
  unfold liftM
  rw [M.get_tab _ _ _ _ _ hi hj]
  exact apx_refl R.u_nonneg 0 (hA i j hi hj hij)

theorem getD_map_append_zero {β : Type} [Zero β] (l : List β) (f : β → β) (m i : ℕ) :
    (l.map f ++ List.replicate m 0).getD i 0 = if i < l.length then f (l.getD i 0) else 0 := by
  induction l generalizing i with
  | nil =>
    simp only [List.map_nil, List.nil_append, List.length_nil, Nat.not_lt_zero, if_false]
    rw [List.getD_eq_getElem?_getD, List.getElem?_replicate]
    split <;> simp
  | cons a l ih =>
    cases i with
    | zero => simp
    | succ i =>
      simp only [List.map_cons, List.cons_append, List.getD_cons_succ, List.length_cons,
        Nat.add_lt_add_iff_right]
      exact ih i

/-- **Accuracy of `gthSolve` in the standard model** (factor form). -/
theorem gthSolve_apx (R : RoundedOps K) (n : ℕ) (hn : 1 ≤ n) (A : M K) (hA : OffNonneg n A) :
    ∀ i, Apx R.u (errBound n) ((gthSolve n (liftM R n A)).getD i 0).val ((gthSolve n A).getD i 0) := by
  have hu := R.u_nonneg
  obtain ⟨hlen, hxs⟩ := gthRec_apx R n (n-1) 0 (liftM R n A) A 0 (by omega) hA (liftM_apx R n A hA)
  obtain ⟨_, hxnn, hlenle, _⟩ := gthRec_null n (n-1) 0 A (by omega) hA
  have hnormpos := gthRaw_norm_pos n hn A hA
  rw [gthRaw_eq_rec n hn A] at hnormpos
  intro i
  rw [gthSolve_getD, gthRaw_eq_rec n hn A]
  unfold gthSolve
  simp only
  rw [gthRaw_eq_rec n hn (liftM R n A), getD_map_append_zero]
  set yt := gthRec n (n-1) 0 (liftM R n A) with hyt
  set y := gthRec n (n-1) 0 A with hy
  set X := xerr (n-1) 0 with hX
  -- the normalising sum
  have hnorm : Apx R.u (X + n) (sumList yt).val (sumList y) := by
    unfold sumList
    rw [hlen]
    obtain ⟨h0, ha⟩ := sum_apx R X (fun t => yt.getD t 0) (fun t => y.getD t 0) y.length
      (fun t _ => ⟨hxnn t, hxs t⟩)
    exact apx_mono hu (by omega) h0 ha
  by_cases hi : i < yt.length
  · rw [if_pos hi, Fl.div_val]
    have hd := apx_div hu (hxnn i) hnormpos (hxs i) hnorm
    have hr := R.fdiv_spec _ _ (apx_nonneg hu (hxs i) (hxnn i)) (apx_pos hu hnorm hnormpos)
    have := apx_trans hu hr hd
    have e1 : X + (X + n) + 1 = errBound n := by unfold errBound; omega
    rw [e1] at this; exact this
  · rw [if_neg hi]
    have hl : y.length ≤ i := by omega
    have hnone : y[i]? = none := List.getElem?_eq_none hl
    have : y.getD i 0 = 0 := by simp [List.getD_eq_getElem?_getD, hnone]
    rw [this, zero_div, Fl.zero_val]
    exact apx_refl hu _ (le_refl _)

/-- `(1+u)^E ≤ 1/(1 − E u)` when `E u < 1` -/
theorem pow_le_inv_one_sub (u : K) (hu : 0 ≤ u) (E : ℕ) (h : (E : K) * u < 1) :
    (1 + u) ^ E ≤ 1 / (1 - (E : K) * u) := by
  induction E with
  | zero => simp
  | succ E ih =>
    have hE : (E : K) * u < 1 := by
      have : (E : K) * u ≤ ((E + 1 : ℕ) : K) * u := by
        apply mul_le_mul_of_nonneg_right _ hu
        exact_mod_cast Nat.le_succ E
      linarith
    have ih' := ih hE
    have hpos1 : 0 < 1 - (E : K) * u := by linarith
    have hpos2 : 0 < 1 - ((E + 1 : ℕ) : K) * u := by linarith
    rw [pow_succ, le_div_iff₀ hpos2]
    have h1 : (1 + u) ^ E * (1 - (E : K) * u) ≤ 1 := by
      rw [le_div_iff₀ hpos1] at ih'; exact ih'
    have hW : 0 ≤ (1 + u) ^ E := (W_pos hu E).le
    have hcast : ((E + 1 : ℕ) : K) = (E : K) + 1 := by push_cast; ring
    rw [hcast]
    have hkey : (1 + u) * (1 - ((E : K) + 1) * u) ≤ 1 - (E : K) * u := by
      have : 0 ≤ ((E : K) + 1) * u ^ 2 := by positivity
      nlinarith
    calc (1 + u) ^ E * (1 + u) * (1 - ((E : K) + 1) * u)
        = (1 + u) ^ E * ((1 + u) * (1 - ((E : K) + 1) * u)) := by ring
      _ ≤ (1 + u) ^ E * (1 - (E : K) * u) := mul_le_mul_of_nonneg_left hkey hW
      _ ≤ 1 := h1

/-- exact arithmetic is the instance `u = 0` -/
def RoundedOps.exact (K : Type) [Field K] [LinearOrder K] [IsStrictOrderedRing K] : RoundedOps K where
  u := 0
  u_nonneg := le_refl _
  fadd := fun a b => a + b
  fmul := fun a b => a * b
  fdiv := fun a b => a / b
  fadd_spec := fun a b ha hb => apx_refl (le_refl _) 1 (add_nonneg ha hb)
  fmul_spec := fun a b ha hb => apx_refl (le_refl _) 1 (mul_nonneg ha hb)
  fdiv_spec := fun a b ha hb => apx_refl (le_refl _) 1 (div_nonneg ha hb.le)

theorem le_mul_w_w {u x : K} (hu : 0 ≤ u) (hx : 0 ≤ x) : x ≤ x * (1 + u) * (1 + u) := by
  nlinarith [mul_nonneg hx hu, mul_nonneg (mul_nonneg hx hu) hu]

/-- a genuinely lossy instance: sums are inflated by `1+u`, products deflated by `1+u` -/
def RoundedOps.biased (u : K) (hu : 0 ≤ u) : RoundedOps K where
  u := u
  u_nonneg := hu
  fadd := fun a b => (a + b) * (1 + u)
  fmul := fun a b => a * b / (1 + u)
  fdiv := fun a b => a / b
  fadd_spec := by
    intro a b ha hb
    have hs : 0 ≤ a + b := add_nonneg ha hb
    constructor
    · rw [pow_one]; exact le_mul_w_w hu hs
    · rw [pow_one]
  fmul_spec := by
    intro a b ha hb
    have hs : 0 ≤ a * b := mul_nonneg ha hb
    have hw : (0 : K) < 1 + u := by linarith
    constructor
    · rw [pow_one, div_mul_cancel₀ _ (ne_of_gt hw)]
    · rw [pow_one, div_le_iff₀ hw]; exact le_mul_w_w hu hs
  fdiv_spec := fun a b ha hb => apx_refl hu 1 (div_nonneg ha hb.le)

/-- the rounded run breaks exactly where the exact run breaks -/
theorem rounded_same_size (R : RoundedOps K) (n : ℕ) (hn : 1 ≤ n) (A : M K) (hA : OffNonneg n A) :
    (reduce n (n - 1) 0 (liftM R n A)).2 = (reduce n (n - 1) 0 A).2 := by
  obtain ⟨hlen, _⟩ := gthRec_apx R n (n-1) 0 (liftM R n A) A 0 (by omega) hA (liftM_apx R n A hA)
  rw [← gthRaw_length n hn (liftM R n A), ← gthRaw_length n hn A,
    gthRaw_eq_rec n hn (liftM R n A), gthRaw_eq_rec n hn A, hlen]

theorem gthSolve_rel_err (R : RoundedOps K) (n : ℕ) (hn : 1 ≤ n) (A : M K) (hA : OffNonneg n A) (i : ℕ) :
    |((gthSolve n (liftM R n A)).getD i 0).val - (gthSolve n A).getD i 0|
      ≤ ((1 + R.u) ^ errBound n - 1) * (gthSolve n A).getD i 0 := by
  obtain ⟨_, hx0, _, _⟩ := gthSolve_stationary_aux n hn A hA
  exact apx_rel_err R.u_nonneg (gthSolve_apx R n hn A hA i) (hx0 i)

theorem gthSolve_rel_err_linear (R : RoundedOps K) (n : ℕ) (hn : 1 ≤ n) (A : M K) (hA : OffNonneg n A)
    (hEu : (errBound n : K) * R.u < 1) (i : ℕ) :
    |((gthSolve n (liftM R n A)).getD i 0).val - (gthSolve n A).getD i 0|
      ≤ ((errBound n : K) * R.u / (1 - (errBound n : K) * R.u)) * (gthSolve n A).getD i 0 := by
  obtain ⟨_, hx0, _, _⟩ := gthSolve_stationary_aux n hn A hA
  have h1 := gthSolve_rel_err R n hn A hA i
  have h2 := pow_le_inv_one_sub R.u R.u_nonneg (errBound n) hEu
  have hpos : 0 < 1 - (errBound n : K) * R.u := by linarith
  have h3 : (1 + R.u) ^ errBound n - 1 ≤ (errBound n : K) * R.u / (1 - (errBound n : K) * R.u) := by
    have : (1 : K) / (1 - (errBound n : K) * R.u) - 1
        = (errBound n : K) * R.u / (1 - (errBound n : K) * R.u) := by
      field_simp; ring
    linarith
  exact le_trans h1 (mul_le_mul_of_nonneg_right h3 (hx0 i))

theorem errBound_table : (List.range 9).map errBound = [1, 2, 11, 44, 157, 542, 1847, 6232, 20825] := by
  decide

/-- **double precision, n ≤ 8: inside the harness's envelope `1e-12·n³`.** -/
theorem gthSolve_rel_err_double (R : RoundedOps K) (hR : R.u ≤ 1 / 2 ^ 53) (n : ℕ) (hn : 1 ≤ n)
    (hn8 : n ≤ 8) (A : M K) (hA : OffNonneg n A) (i : ℕ) :
    |((gthSolve n (liftM R n A)).getD i 0).val - (gthSolve n A).getD i 0|
      ≤ ((n : K) ^ 3 / 10 ^ 12) * (gthSolve n A).getD i 0 := by
  obtain ⟨_, hx0, _, _⟩ := gthSolve_stationary_aux n hn A hA
  have h1 := gthSolve_rel_err R n hn A hA i
  have hu := R.u_nonneg
  have hmono : (1 + R.u) ^ errBound n ≤ (1 + (1 : K) / 2 ^ 53) ^ errBound n :=
    pow_le_pow_left₀ (by linarith) (by linarith) _
  have hu0 : (0 : K) ≤ 1 / 2 ^ 53 := by positivity
  have hnum : (errBound n : K) * (1 / 2 ^ 53) < 1 ∧
      1 / (1 - (errBound n : K) * (1 / 2 ^ 53)) - 1 ≤ (n : K) ^ 3 / 10 ^ 12 := by
    have htab := errBound_table
    interval_cases n
    · have : errBound 1 = 2 := by decide
      rw [this]; norm_num
    · have : errBound 2 = 11 := by decide
      rw [this]; norm_num
    · have : errBound 3 = 44 := by decide
      rw [this]; norm_num
    · have : errBound 4 = 157 := by decide
      rw [this]; norm_num
    · have : errBound 5 = 542 := by decide
      rw [this]; norm_num
    · have : errBound 6 = 1847 := by decide
      rw [this]; norm_num
    · have : errBound 7 = 6232 := by decide
      rw [this]; norm_num
    · have : errBound 8 = 20825 := by decide
      rw [this]; norm_num
  have h2 := pow_le_inv_one_sub ((1 : K) / 2 ^ 53) hu0 (errBound n) hnum.1
  have h3 : (1 + R.u) ^ errBound n - 1 ≤ (n : K) ^ 3 / 10 ^ 12 := by linarith [hnum.2]
  exact le_trans h1 (mul_le_mul_of_nonneg_right h3 (hx0 i))

end
end QE.C02
