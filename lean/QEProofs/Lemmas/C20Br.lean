/-
  Lemmas for C20, part 2 (any linearly ordered ring): `maxL`, the best-response set `brSet`,
  tie-breaking `pick`, and `brPick`.
-/
import Mathlib.Algebra.Order.Ring.Defs
import Mathlib.Tactic.Linarith
import QEModel.C20
namespace QE.C20

section order
variable {K : Type} [LinearOrder K]

theorem foldl_max_spec (l : List K) : ∀ a : K,
    let m := l.foldl (fun m x => if m < x then x else m) a
    a ≤ m ∧ (∀ x ∈ l, x ≤ m) ∧ (m = a ∨ m ∈ l) := by
  induction l with
  | nil => intro a; simp
  | cons y ys ih =>
    intro a
    simp only [List.foldl_cons]
    obtain ⟨h1, h2, h3⟩ := ih (if a < y then y else a)
    by_cases hc : a < y
    · simp only [if_pos hc] at h1 h2 h3 ⊢
      refine ⟨le_trans (le_of_lt hc) h1, ?_, ?_⟩
      · intro x hx
        rcases List.mem_cons.1 hx with rfl | hx
        · exact h1
        · exact h2 x hx
      · rcases h3 with h | h
        · right; rw [h]; simp
        · right; exact List.mem_cons_of_mem _ h
    · simp only [if_neg hc] at h1 h2 h3 ⊢
      refine ⟨h1, ?_, ?_⟩
      · intro x hx
        rcases List.mem_cons.1 hx with rfl | hx
        · exact le_trans (not_lt.1 hc) h1
        · exact h2 x hx
      · rcases h3 with h | h
        · left; exact h
        · right; exact List.mem_cons_of_mem _ h

variable [Zero K]

/-- `maxL` is an upper bound … -/
theorem le_maxL (pv : List K) (x : K) (hx : x ∈ pv) : x ≤ maxL pv := by
  cases pv with
  | nil => simp at hx
  | cons a l =>
    obtain ⟨h1, h2, _⟩ := foldl_max_spec l a
    rcases List.mem_cons.1 hx with rfl | hx
    · exact h1
    · exact h2 x hx

/-- … that is attained -/
theorem maxL_mem (pv : List K) (h : pv ≠ []) : maxL pv ∈ pv := by
  cases pv with
  | nil => exact absurd rfl h
  | cons a l =>
    obtain ⟨_, _, h3⟩ := foldl_max_spec l a
    rcases h3 with h | h
    · show l.foldl _ a ∈ a :: l
      rw [h]; simp
    · exact List.mem_cons_of_mem _ h

end order

section ring
variable {K : Type} [CommRing K] [LinearOrder K] [IsStrictOrderedRing K]

theorem mem_brSet (pv : List K) (tol : K) (i : Nat) :
    i ∈ brSet pv tol ↔ i < pv.length ∧ maxL pv - tol ≤ pv.getD i 0 := by
  simp [brSet]

theorem brSet_lt (pv : List K) (tol : K) (i : Nat) (h : i ∈ brSet pv tol) : i < pv.length :=
  ((mem_brSet pv tol i).1 h).1

/-- the best-response set of a non-empty payoff vector is non-empty when `tol ≥ 0` -/
theorem brSet_ne_nil (pv : List K) (tol : K) (h : pv ≠ []) (ht : 0 ≤ tol) : brSet pv tol ≠ [] := by
  obtain ⟨i, hi, he⟩ := List.mem_iff_getElem.1 (maxL_mem pv h)
  have : i ∈ brSet pv tol := by
    rw [mem_brSet]
    refine ⟨hi, ?_⟩
    rw [List.getD_eq_getElem?_getD, List.getElem?_eq_getElem hi, Option.getD_some, he]
    exact sub_le_self _ ht
  intro hn; rw [hn] at this; simp at this

/-- `brSet` is increasing, so its head is the *smallest* best response -/
theorem brSet_head_min (pv : List K) (tol : K) (b : Nat) (rest : List Nat) (h : brSet pv tol = b :: rest) :
    (b < pv.length ∧ maxL pv - tol ≤ pv.getD b 0) ∧
    ∀ j, j < b → ¬ (maxL pv - tol ≤ pv.getD j 0) := by
  have hb : b ∈ brSet pv tol := by rw [h]; simp
  refine ⟨(mem_brSet pv tol b).1 hb, ?_⟩
  intro j hj hle
  have hjm : j ∈ brSet pv tol := (mem_brSet pv tol j).2 ⟨lt_trans hj ((mem_brSet pv tol b).1 hb).1, hle⟩
  have hs : (brSet pv tol).Pairwise (· < ·) := by
    unfold brSet
    exact List.Pairwise.filter _ (List.pairwise_lt_range)
  rw [h] at hs hjm
  rcases List.mem_cons.1 hjm with rfl | hjr
  · exact lt_irrefl _ hj
  · have := (List.pairwise_cons.1 hs).1 j hjr
    omega

omit [LinearOrder K] [IsStrictOrderedRing K] in
theorem payoffVec_length (A : List (List K)) (x : List K) : (payoffVec A x).length = A.length := by
  simp [payoffVec]

omit [LinearOrder K] [IsStrictOrderedRing K] in
theorem addPert_length_le (pv : List K) (pert : Option (List K)) : (addPert pv pert).length ≤ pv.length := by
  cases pert with
  | none => simp [addPert]
  | some e => simp [addPert]

end ring

/-! ### tie-breaking -/

theorem pick_fst_lt (rnd : Bool) (s ri : List Nat) (n : Nat) (hn : 0 < n) (hs : ∀ i ∈ s, i < n) :
    (pick rnd s ri).1 < n := by
  unfold pick
  split
  · simp only [List.getD_eq_getElem?_getD]
    cases h : s[ri.headD 0]? with
    | none => simpa using hn
    | some v => simpa using hs v (List.mem_of_getElem? h)
  · cases s with
    | nil => simpa using hn
    | cons a l => simpa using hs a (by simp)

/-- with a guard: the chosen action is an element of the candidate set -/
theorem pick_fst_mem (rnd : Bool) (s ri : List Nat) (hs : s ≠ [])
    (hr : rnd = true → s.length ≠ 1 → ri.headD 0 < s.length) : (pick rnd s ri).1 ∈ s := by
  unfold pick
  split
  · rename_i h
    have := hr h.1 h.2
    rw [List.getD_eq_getElem?_getD, List.getElem?_eq_getElem this]
    simp
  · cases s with
    | nil => exact absurd rfl hs
    | cons a l => simp

theorem pick_smallest (s ri : List Nat) : pick false s ri = (s.headD 0, ri) := by
  simp [pick]

theorem pick_snd_sub (rnd : Bool) (s ri : List Nat) : ∀ r ∈ (pick rnd s ri).2, r ∈ ri := by
  unfold pick
  split
  · intro r hr; exact List.mem_of_mem_tail hr
  · intro r hr; exact hr

theorem randomAction_fst_lt (n : Nat) (ri : List Nat) (hn : 0 < n) (hri : ∀ r ∈ ri, r < n) :
    (randomAction n ri).1 < n := by
  unfold randomAction
  split
  · simpa using hn
  · cases ri with
    | nil => simpa using hn
    | cons a l => simpa using hri a (by simp)

theorem randomAction_snd_sub (n : Nat) (ri : List Nat) : ∀ r ∈ (randomAction n ri).2, r ∈ ri := by
  unfold randomAction
  split
  · intro r hr; exact hr
  · intro r hr; exact List.mem_of_mem_tail hr

section ring2
variable {K : Type} [CommRing K] [LinearOrder K] [IsStrictOrderedRing K]

theorem brPick_fst_lt (G : Game K) (opp : List K) (pert : Option (List K)) (ri : List Nat)
    (hn : 0 < G.A.length) : (brPick G opp pert ri).1 < G.A.length := by
  unfold brPick
  apply pick_fst_lt _ _ _ _ hn
  intro i hi
  have := brSet_lt _ _ _ hi
  have h2 := addPert_length_le (payoffVec G.A opp) pert
  rw [payoffVec_length] at h2
  omega

omit [IsStrictOrderedRing K] in
theorem brPick_snd_sub (G : Game K) (opp : List K) (pert : Option (List K)) (ri : List Nat) :
    ∀ r ∈ (brPick G opp pert ri).2, r ∈ ri := pick_snd_sub _ _ _

/-- `tie_breaking='smallest'`: the chosen action is the smallest index whose payoff is within `tol`
    of the maximum; the `randint` stream is untouched. -/
theorem brPick_smallest (G : Game K) (opp : List K) (pert : Option (List K)) (ri : List Nat)
    (hrnd : G.rnd = false) (hpv : addPert (payoffVec G.A opp) pert ≠ []) (htol : 0 ≤ G.tol) :
    ∃ b, brPick G opp pert ri = (b, ri) ∧
      (b < (addPert (payoffVec G.A opp) pert).length ∧
        maxL (addPert (payoffVec G.A opp) pert) - G.tol ≤ (addPert (payoffVec G.A opp) pert).getD b 0) ∧
      ∀ j, j < b → ¬ (maxL (addPert (payoffVec G.A opp) pert) - G.tol
                        ≤ (addPert (payoffVec G.A opp) pert).getD j 0) := by
  cases hs : brSet (addPert (payoffVec G.A opp) pert) G.tol with
  | nil => exact absurd hs (brSet_ne_nil _ G.tol hpv htol)
  | cons b rest =>
    obtain ⟨hb12, hb3⟩ := brSet_head_min _ G.tol b rest hs
    refine ⟨b, ?_, hb12, hb3⟩
    unfold brPick
    rw [hrnd, pick_smallest, hs]; rfl

/-- any tie-breaking mode, with the guard that a drawn index is a valid index into the set of best
    responses (what `randint(len)` returns): the chosen action **is a best response**. -/
theorem brPick_mem_brSet (G : Game K) (opp : List K) (pert : Option (List K)) (ri : List Nat)
    (hpv : addPert (payoffVec G.A opp) pert ≠ []) (htol : 0 ≤ G.tol)
    (hr : G.rnd = true → (brSet (addPert (payoffVec G.A opp) pert) G.tol).length ≠ 1 →
      ri.headD 0 < (brSet (addPert (payoffVec G.A opp) pert) G.tol).length) :
    (brPick G opp pert ri).1 ∈ brSet (addPert (payoffVec G.A opp) pert) G.tol :=
  pick_fst_mem _ _ _ (brSet_ne_nil _ G.tol hpv htol) hr

end ring2

end QE.C20
