/-
  C04 — the Farkas vector the model reads off the optimal Phase-1 tableau (`farkas`, printed
  as `cert=` for status 2 and verified exactly by the harness) is always a valid
  certificate of infeasibility.  It is the dual certificate of the program with `c = 0`.
-/
import QEProofs.Lemmas.C04DualCert
namespace QE.C04
open QE QE.Pivot Finset

variable {K : Type} [Field K] [LinearOrder K] [IsStrictOrderedRing K]

/-- `y` certifies infeasibility: `y_ub ≥ 0`, `A_ubᵀy_ub + A_eqᵀy_eq ≥ 0`, `b·y < 0` -/
def FarkasCert (P : LP K) (y : ℕ → K) : Prop :=
  (∀ i, i < P.m → 0 ≤ y i) ∧
  (∀ j, j < P.n → 0 ≤ ∑ i ∈ range P.m, P.Aub i j * y i + ∑ i ∈ range P.k, P.Aeq i j * y (P.m + i)) ∧
  ∑ i ∈ range P.m, P.bub i * y i + ∑ i ∈ range P.k, P.beq i * y (P.m + i) < 0

/-- the same program with objective `0` -/
def zeroObj (P : LP K) : LP K := { P with c := fun _ => 0 }

/-- **Farkas lemma, easy direction** -/
theorem farkas_infeasible (P : LP K) (y : ℕ → K) (h : FarkasCert P y) : ¬ ∃ x, Feasible P x := by
  rintro ⟨x, hx⟩
  have hd : DualFeasible (zeroObj P) y := ⟨h.1, h.2.1⟩
  have hx' : Feasible (zeroObj P) x := hx
  have := weak_duality (zeroObj P) x y hx' hd
  have h0 : objective (zeroObj P) x = 0 := by
    unfold objective zeroObj; simp
  have h1 : dualObjective (zeroObj P) y
      = ∑ i ∈ range P.m, P.bub i * y i + ∑ i ∈ range P.k, P.beq i * y (P.m + i) := rfl
  rw [h0, h1] at this
  exact absurd h.2.2 (not_lt.mpr this)

omit [IsStrictOrderedRing K] in
theorem initTableau_zeroObj (P : LP K) : initTableau (zeroObj P) = initTableau P := rfl

/-- the Phase-1 criterion row with `1` added on the artificial columns -/
def shiftArt (P : LP K) (T : M K) : M K :=
  M.tab T.nr T.nc fun i j =>
    if i = P.m + P.k ∧ P.n + P.m ≤ j ∧ j < P.n + P.m + (P.m + P.k) then T.get i j + 1 else T.get i j

/-- at an optimal Phase-1 tableau with positive criterion value, `farkas` is a Farkas certificate -/
theorem farkas_of_critSpan (P : LP K) (T : M K)
    (hs : Shape T (P.m + P.k) (P.n + P.m + (P.m + P.k)))
    (hspan : CritSpan (initTableau P) T (P.m + P.k) (P.n + P.m + (P.m + P.k))
      (fun j => (initTableau P).get (P.m + P.k) j))
    (hopt : ∀ j, j < P.n + P.m → T.get (P.m + P.k) j ≤ 0)
    (hpos : 0 < T.get (P.m + P.k) (P.n + P.m + (P.m + P.k))) :
    FarkasCert P (fun i => (farkas P T).getD i 0) := by
  set L := P.m + P.k with hL
  set N := P.n + P.m + (P.m + P.k) with hN
  set T' := shiftArt P T with hT'
  have hget : ∀ i j, i < L + 1 → j < N + 1 → T'.get i j
      = if i = L ∧ P.n + P.m ≤ j ∧ j < N then T.get i j + 1 else T.get i j := by
    intro i j hi hj
    rw [hT']; unfold shiftArt
    rw [M.get_tab _ _ _ _ _ (by rw [hs.1]; exact hi) (by rw [hs.2]; exact hj)]
  -- T' has `0 −` criterion row in the span
  have hspan' : CritSpan (initTableau (zeroObj P)) T' L N (fun j => if j < (zeroObj P).n then (zeroObj P).c j else 0) := by
    obtain ⟨w, hw⟩ := hspan
    refine ⟨fun i => w i - 1, fun j hj => ?_⟩
    rw [initTableau_zeroObj]
    have hw' := hw j hj
    simp only at hw'
    have hsplit : ∑ i ∈ range L, (w i - 1) * (initTableau P).get i j
        = ∑ i ∈ range L, w i * (initTableau P).get i j - ∑ i ∈ range L, (initTableau P).get i j := by
      rw [← Finset.sum_sub_distrib]; apply Finset.sum_congr rfl; intro i _; ring
    have hrows : ∑ i ∈ range L, (initTableau P).get i j = ∑ i ∈ range L, initEntry P i j :=
      Finset.sum_congr rfl (fun i hi => initTableau_get_row P i j (Finset.mem_range.mp hi) hj)
    have hbase : (if j < (zeroObj P).n then (zeroObj P).c j else 0) = (0 : K) := by
      split_ifs <;> rfl
    show (if j < (zeroObj P).n then (zeroObj P).c j else 0) - T'.get L j
      = ∑ i ∈ range L, (w i - 1) * (initTableau P).get i j
    rw [hbase, hsplit, ← hw', hrows, hget L j (by omega) hj, initTableau_get_crit P j hj]
    by_cases hart : P.n + P.m ≤ j ∧ j < N
    · rw [if_pos ⟨rfl, hart⟩, if_neg (by omega)]
      have : ∑ i ∈ range L, initEntry P i j = 1 := by
        obtain ⟨q, rfl⟩ : ∃ q, j = P.n + P.m + q := ⟨j - (P.n + P.m), by omega⟩
        have : ∀ i ∈ range L, initEntry P i (P.n + P.m + q) = if i = q then 1 else 0 := by
          intro i _
          rw [initEntry_art P i q (by omega)]
          by_cases e : q = i
          · subst e; simp
          · have : ¬ i = q := fun e' => e e'.symm
            simp [e, this]
        rw [Finset.sum_congr rfl this, Finset.sum_ite_eq']
        simp; omega
      rw [this]; ring
    · have hcond : ¬ (L = L ∧ P.n + P.m ≤ j ∧ j < N) := fun h => hart h.2
      rw [if_neg hcond, if_pos (by omega)]; ring
  have hopt' : ∀ j, j < (zeroObj P).n + (zeroObj P).m → T'.get ((zeroObj P).m + (zeroObj P).k) j ≤ 0 := by
    intro j hj
    have hj' : j < P.n + P.m := hj
    show T'.get L j ≤ 0
    rw [hget L j (by omega) (by omega), if_neg (by omega)]
    exact hopt j hj'
  obtain ⟨hd, hv⟩ := dual_of_critSpan (zeroObj P) T' hspan' hopt'
  -- `farkas` is `lamFn` of the shifted tableau
  have hf : ∀ i, i < L → (farkas P T).getD i 0 = lamFn (zeroObj P) T' i := by
    intro i hi
    unfold farkas lamFn
    rw [List.getD_eq_getElem?_getD, List.getElem?_map, List.getElem?_range hi]
    simp only [Option.map_some, Option.getD_some]
    have hL' : T.nr - 1 = L := by rw [hs.1]; rfl
    rw [hL']
    show _ = if (if i < P.m then 0 ≤ P.bub i else 0 ≤ P.beq (i - P.m)) then - T'.get L (P.n + P.m + i)
      else T'.get L (P.n + P.m + i)
    have hTi : T'.get L (P.n + P.m + i) = T.get L (P.n + P.m + i) + 1 := by
      rw [hget L _ (by omega) (by omega)]
      exact if_pos (show L = L ∧ P.n + P.m ≤ P.n + P.m + i ∧ P.n + P.m + i < N from ⟨rfl, by omega, by omega⟩)
    rw [hTi]
    by_cases him : i < P.m
    · simp only [if_pos him]
      by_cases hb : P.bub i < 0
      · simp [hb, not_le.mpr hb]; ring
      · simp [hb, not_lt.mp hb]; ring
    · simp only [if_neg him]
      by_cases hb : P.beq (i - P.m) < 0
      · simp [hb, not_le.mpr hb]; ring
      · simp [hb, not_lt.mp hb]; ring
  have hTN : T'.get L N = T.get L N := by
    rw [hget L N (by omega) (by omega), if_neg (by omega)]
  refine ⟨?_, ?_, ?_⟩
  · intro i hi
    show 0 ≤ (farkas P T).getD i 0
    rw [hf i (by omega)]; exact hd.1 i hi
  · intro j hj
    have := hd.2 j hj
    have e1 : ∑ i ∈ range P.m, P.Aub i j * (farkas P T).getD i 0
        = ∑ i ∈ range P.m, P.Aub i j * lamFn (zeroObj P) T' i :=
      Finset.sum_congr rfl (fun i hi => by rw [hf i (by have := Finset.mem_range.mp hi; omega)])
    have e2 : ∑ i ∈ range P.k, P.Aeq i j * (farkas P T).getD (P.m + i) 0
        = ∑ i ∈ range P.k, P.Aeq i j * lamFn (zeroObj P) T' (P.m + i) :=
      Finset.sum_congr rfl (fun i hi => by rw [hf (P.m + i) (by have := Finset.mem_range.mp hi; omega)])
    show 0 ≤ _
    rw [e1, e2]
    exact this
  · have e : ∑ i ∈ range P.m, P.bub i * (farkas P T).getD i 0
        + ∑ i ∈ range P.k, P.beq i * (farkas P T).getD (P.m + i) 0
        = ∑ i ∈ range P.m, P.bub i * lamFn (zeroObj P) T' i
          + ∑ i ∈ range P.k, P.beq i * lamFn (zeroObj P) T' (P.m + i) := by
      congr 1
      · exact Finset.sum_congr rfl (fun i hi => by rw [hf i (by have := Finset.mem_range.mp hi; omega)])
      · exact Finset.sum_congr rfl (fun i hi => by rw [hf (P.m + i) (by have := Finset.mem_range.mp hi; omega)])
    have e2 : ∑ i ∈ range P.m, P.bub i * lamFn (zeroObj P) T' i
          + ∑ i ∈ range P.k, P.beq i * lamFn (zeroObj P) T' (P.m + i)
        = dualObjective (zeroObj P) (lamFn (zeroObj P) T') := rfl
    show _ < 0
    rw [e, e2, hv]
    show - T'.get L N < 0
    rw [hTN]; linarith

/-- **status 2 ⇒ the model's `cert` is a Farkas certificate** -/
theorem linprog_farkas_core (P : LP K) (fuel : ℕ) (h : (linprogSimplex P fuel tol0).status = 2) :
    FarkasCert P (fun i => (linprogSimplex P fuel (tol0 : Tol K)).cert.getD i 0) := by
  have h2 : (solvePhase1 (tol0 : Tol K) fuel (initTableau P) (initBasis P)).status = 2 := by
    rw [linprogSimplex_status] at h
    by_cases h1 : (solvePhase1 (tol0 : Tol K) fuel (initTableau P) (initBasis P)).status ≠ 0
    · rw [if_pos h1] at h; exact h
    · rw [if_neg h1] at h
      rcases solveTableau_status (tol0 : Tol K) true _ _ _ with s | s | s <;> rw [s] at h <;> simp at h
  obtain ⟨h0, hpos⟩ := solvePhase1_status2 tol0 fuel (initTableau P) (initBasis P) h2
  have hcert : (linprogSimplex P fuel (tol0 : Tol K)).cert
      = farkas P (solveTableau (tol0 : Tol K) false fuel (initTableau P) (initBasis P)).T := by
    have hne : (solvePhase1 (tol0 : Tol K) fuel (initTableau P) (initBasis P)).status ≠ 0 := by
      rw [h2]; decide
    have hT : (solvePhase1 (tol0 : Tol K) fuel (initTableau P) (initBasis P)).T
        = (solveTableau (tol0 : Tol K) false fuel (initTableau P) (initBasis P)).T := by
      rcases solvePhase1_cases (tol0 : Tol K) fuel (initTableau P) (initBasis P) with
        ⟨_, e⟩ | ⟨_, _, e⟩ | ⟨h1, _, e⟩
      · rw [e]
      · rw [e]
      · exfalso; rw [e, cleanup_status, h1] at h2; simp at h2
    unfold linprogSimplex
    simp only
    rw [if_pos hne, if_pos h2, hT]
  rw [hcert]
  have hinv := solveTableau_inv0 false fuel (initTableau P) (initBasis P) _ _
    (initTableau_shape P) (initTableau_canon P) (initTableau_rhs_nonneg P)
  have hsp := solveTableau_span false fuel (initTableau P) (initTableau P) (initBasis P)
    (P.m + P.k) (P.n + P.m + (P.m + P.k)) (fun j => (initTableau P).get (P.m + P.k) j)
    (initTableau_shape P) (rowsSpan_refl _ _ _)
    (by unfold CritSpan; simp only [sub_self]; exact inSpan_zero _ _ _)
  have hpc := solveTableau_status0 (tol0 : Tol K) false fuel (initTableau P) (initBasis P) h0
  set r := solveTableau (tol0 : Tol K) false fuel (initTableau P) (initBasis P) with hr
  have hL : r.T.nr - 1 = P.m + P.k := by rw [hinv.shape.1]; rfl
  have hN : r.T.nc - 1 = P.n + P.m + (P.m + P.k) := by rw [hinv.shape.2]; rfl
  rw [hL, hN] at hpos
  apply farkas_of_critSpan P r.T hinv.shape hsp.2
  · intro j hj
    have := pivotCol_none r.T false 0 hpc j
    rw [hL, hN] at this
    exact this (by simp only [Bool.false_eq_true, if_false]; omega)
  · exact hpos

end QE.C04
