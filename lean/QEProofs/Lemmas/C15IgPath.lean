/-
  Lemmas for C15, part 12: the path argument of Lemke–Howson for an arbitrary pair of initial
  tableaux. QE.C05 proves `lh_never_artificial` for the tableaux `initT0 m n B`, `initT1 m n A` of a
  bimatrix game; its single-tableau layer (C05Lex, C05Rev, C05Sim, `tinvol`, `tsim_init`) is already
  stated for any reference tableau satisfying `TInit` (identity slack block, non-negative entries, a
  positive entry in every column), and `lhIter` / `lhLoop_iter` do not mention the game at all. What
  is tied to the game is the two-tableau layer (C05Path `LHFull …`, C05Mirror, C05Art, C05Final).
  This file is that layer again, with the game replaced by a pair of reference tableaux `R0`, `R1`
  (`TInit R0 n (m+n) m`, `TInit R1 m (m+n) 0`); the proofs are C05's, with `init0_tinit`/`init1_tinit`
  replaced by the hypotheses. C15IgArt instantiates it with the imitation game's `[I | I | 1]`,
  `[I | P | 1]`.
-/
import QEProofs.Lemmas.C05Final
namespace QE.C15
open QE QE.Pivot QE.C05 Finset

set_option linter.unusedSectionVars false
set_option linter.unusedVariables false
variable {K : Type} [Field K] [LinearOrder K] [IsStrictOrderedRing K]

/-- the full invariant of a state relative to the reference tableaux -/
structure GFull (m n : ℕ) (R0 R1 : M K) (s : LHState K) : Prop where
  i0 : TInv R0 s.T0 s.b0 n (m + n) m
  i1 : TInv R1 s.T1 s.b1 m (m + n) 0

section two
variable (m n : ℕ) (R0 R1 : M K) (h0 : TInit R0 n (m + n) m) (h1 : TInit R1 m (m + n) 0)
include h0 h1

theorem gStep_full (s : LHState K) (pl : ℕ) (hpl : pl = 0 ∨ pl = 1) (h : GFull m n R0 R1 s)
    (hpN : s.pivot < m + n) :
    GFull m n R0 R1 (lhStep m 0 0 s pl) ∧ (lhStep m 0 0 s pl).pivot < m + n := by
  rcases hpl with rfl | rfl
  · obtain ⟨_, hr, _, hinv⟩ := tinv_step _ s.T0 s.b0 n (m + n) m s.pivot h0 h.i0 hpN
    rw [lhStep_zero]
    exact ⟨⟨hinv, h.i1⟩, (h.i0.can.2 _ hr).1⟩
  · obtain ⟨_, hr, _, hinv⟩ := tinv_step _ s.T1 s.b1 m (m + n) 0 s.pivot h1 h.i1 hpN
    rw [lhStep_one]
    exact ⟨⟨h.i0, hinv⟩, (h.i1.can.2 _ hr).1⟩

theorem gStep_sim (s s' : LHState K) (pl : ℕ) (hpl : pl = 0 ∨ pl = 1) (h : GFull m n R0 R1 s)
    (h' : GFull m n R0 R1 s') (hs : SSim m n s s') (hpN : s.pivot < m + n) :
    SSim m n (lhStep m 0 0 s pl) (lhStep m 0 0 s' pl) := by
  obtain ⟨hs0, hs1, hp⟩ := hs
  rcases hpl with rfl | rfl
  · obtain ⟨e, g⟩ := tsim_step _ s.T0 s'.T0 s.b0 s'.b0 n (m + n) m s.pivot h0 h.i0 h'.i0 hs0 hpN
    rw [lhStep_zero, lhStep_zero, ← hp]
    exact ⟨g, hs1, e⟩
  · obtain ⟨e, g⟩ := tsim_step _ s.T1 s'.T1 s.b1 s'.b1 m (m + n) 0 s.pivot h1 h.i1 h'.i1 hs1 hpN
    rw [lhStep_one, lhStep_one, ← hp]
    exact ⟨hs0, g, e⟩

theorem gStep_invol (s : LHState K) (pl : ℕ) (hpl : pl = 0 ∨ pl = 1) (h : GFull m n R0 R1 s)
    (hpN : s.pivot < m + n) : SSim m n (lhStep m 0 0 (lhStep m 0 0 s pl) pl) s := by
  rcases hpl with rfl | rfl
  · obtain ⟨g, e⟩ := tinvol _ s.T0 s.b0 n (m + n) m s.pivot h0 h.i0 hpN
    rw [lhStep_zero, lhStep_zero]
    exact ⟨g, tsim_refl _ _ _ _, e⟩
  · obtain ⟨g, e⟩ := tinvol _ s.T1 s.b1 m (m + n) 0 s.pivot h1 h.i1 hpN
    rw [lhStep_one, lhStep_one]
    exact ⟨tsim_refl _ _ _ _, g, e⟩

theorem gStep_exchange (s : LHState K) (pl : ℕ) (hpl : pl = 0 ∨ pl = 1) (h : GFull m n R0 R1 s)
    (hpN : s.pivot < m + n)
    (hent : if pl = 0 then ¬ InB s.b0 s.pivot else ¬ InB s.b1 s.pivot) :
    (if pl = 0 then InB (lhStep m 0 0 s pl).b0 s.pivot ∧
        ¬ InB (lhStep m 0 0 s pl).b0 (lhStep m 0 0 s pl).pivot
      else InB (lhStep m 0 0 s pl).b1 s.pivot ∧
        ¬ InB (lhStep m 0 0 s pl).b1 (lhStep m 0 0 s pl).pivot) := by
  rcases hpl with rfl | rfl
  · rw [if_pos rfl] at hent ⊢
    obtain ⟨_, hr, _, _⟩ := tinv_step _ s.T0 s.b0 n (m + n) m s.pivot h0 h.i0 hpN
    have hrl : (lexMinRatio s.T0 s.pivot m (0 : K) 0).2 < s.b0.length := by rw [h.i0.can.1]; exact hr
    rw [lhStep_zero]
    constructor
    · exact ⟨_, by simpa using hrl, by rw [getD_set', if_pos ⟨rfl, hrl⟩]⟩
    · exact (lab_step s.b0 [] 0 s.pivot _ hrl
        (fun i i' hi hi' e => tcanon_inj s.T0 s.b0 n (m + n) h.i0.can i i'
          (by rw [← h.i0.can.1]; exact hi) (by rw [← h.i0.can.1]; exact hi') e)
        (fun k _ => Or.inr (by rintro ⟨i, hi, _⟩; simp at hi)) hent
        (Or.inr (by rintro ⟨i, hi, _⟩; simp at hi))).2.1
  · rw [if_neg (by omega)] at hent ⊢
    obtain ⟨_, hr, _, _⟩ := tinv_step _ s.T1 s.b1 m (m + n) 0 s.pivot h1 h.i1 hpN
    have hrl : (lexMinRatio s.T1 s.pivot 0 (0 : K) 0).2 < s.b1.length := by rw [h.i1.can.1]; exact hr
    rw [lhStep_one]
    constructor
    · exact ⟨_, by simpa using hrl, by rw [getD_set', if_pos ⟨rfl, hrl⟩]⟩
    · exact (lab_step s.b1 [] 0 s.pivot _ hrl
        (fun i i' hi hi' e => tcanon_inj s.T1 s.b1 m (m + n) h.i1.can i i'
          (by rw [← h.i1.can.1]; exact hi) (by rw [← h.i1.can.1]; exact hi') e)
        (fun k _ => Or.inr (by rintro ⟨i, hi, _⟩; simp at hi)) hent
        (Or.inr (by rintro ⟨i, hi, _⟩; simp at hi))).2.1

/-- the label part of one step (C05's `lhStep_inv`, label clauses) -/
theorem gStep_lab (ip : ℕ) (s : LHState K) (pl : ℕ) (hpl : pl = 0 ∨ pl = 1) (h : GFull m n R0 R1 s)
    (hl : LHLab ip s pl) (hpN : s.pivot < m + n) :
    ((lhStep m 0 0 s pl).pivot ≠ ip → LHLab ip (lhStep m 0 0 s pl) (1 - pl)) ∧
    ((lhStep m 0 0 s pl).pivot = ip →
      ∀ k, ¬ InB (lhStep m 0 0 s pl).b0 k ∨ ¬ InB (lhStep m 0 0 s pl).b1 k) := by
  rcases hpl with rfl | rfl
  · obtain ⟨_, hr, _, _⟩ := tinv_step _ s.T0 s.b0 n (m + n) m s.pivot h0 h.i0 hpN
    have hent := hl.ent; rw [if_pos rfl] at hent
    have hoth := hl.oth; rw [if_pos rfl] at hoth
    have hrl : (lexMinRatio s.T0 s.pivot m 0 0).2 < s.b0.length := by rw [h.i0.can.1]; exact hr
    obtain ⟨l1, l2, l3⟩ := lab_step s.b0 s.b1 ip s.pivot _ hrl
      (fun i i' hi hi' e => tcanon_inj s.T0 s.b0 n (m + n) h.i0.can i i'
        (by rw [← h.i0.can.1]; exact hi) (by rw [← h.i0.can.1]; exact hi') e)
      hl.lab hent hoth
    rw [lhStep_zero]
    refine ⟨?_, ?_⟩
    · intro hne
      exact ⟨l1, by simpa using l3 hne, Or.inr (by simpa using l2)⟩
    · intro he k
      dsimp only at he ⊢
      by_cases hk : k = ip
      · left; rw [hk, ← he]; exact l2
      · exact l1 k hk
  · obtain ⟨_, hr, _, _⟩ := tinv_step _ s.T1 s.b1 m (m + n) 0 s.pivot h1 h.i1 hpN
    have hent := hl.ent; rw [if_neg (by omega)] at hent
    have hoth := hl.oth; rw [if_neg (by omega)] at hoth
    have hrl : (lexMinRatio s.T1 s.pivot 0 0 0).2 < s.b1.length := by rw [h.i1.can.1]; exact hr
    obtain ⟨l1, l2, l3⟩ := lab_step s.b1 s.b0 ip s.pivot _ hrl
      (fun i i' hi hi' e => tcanon_inj s.T1 s.b1 m (m + n) h.i1.can i i'
        (by rw [← h.i1.can.1]; exact hi) (by rw [← h.i1.can.1]; exact hi') e)
      (fun k hk => (hl.lab k hk).symm) hent hoth
    rw [lhStep_one]
    refine ⟨?_, ?_⟩
    · intro hne
      exact ⟨fun k hk => (l1 k hk).symm, by simpa using l3 hne, Or.inr (by simpa using l2)⟩
    · intro he k
      dsimp only at he ⊢
      by_cases hk : k = ip
      · right; rw [hk, ← he]; exact l2
      · exact (l1 k hk).symm

variable (ip : ℕ) (s0 : LHState K) (pl0 : ℕ)

theorem gIter_full (hpl0 : pl0 = 0 ∨ pl0 = 1) (hf0 : GFull m n R0 R1 s0) (hp0 : s0.pivot < m + n) :
    ∀ k, GFull m n R0 R1 (lhIter m k s0 pl0).1 ∧ (lhIter m k s0 pl0).1.pivot < m + n ∧
      (lhIter m k s0 pl0).2 = (if k % 2 = 0 then pl0 else 1 - pl0) := by
  intro k
  induction k with
  | zero => exact ⟨hf0, hp0, rfl⟩
  | succ k ih =>
    obtain ⟨g1', h2, h3⟩ := ih
    have hpl : (lhIter m k s0 pl0).2 = 0 ∨ (lhIter m k s0 pl0).2 = 1 := by
      rw [h3]; split <;> omega
    rw [lhIter_succ]
    obtain ⟨g1, g2⟩ := gStep_full m n R0 R1 h0 h1 _ _ hpl g1' h2
    refine ⟨g1, g2, ?_⟩
    show 1 - (lhIter m k s0 pl0).2 = _
    rw [h3]
    by_cases hk : k % 2 = 0
    · rw [if_pos hk, if_neg (by omega)]
    · rw [if_neg hk, if_pos (by omega)]; omega

theorem gIter_lab (hpl0 : pl0 = 0 ∨ pl0 = 1) (hf0 : GFull m n R0 R1 s0) (hp0 : s0.pivot < m + n)
    (hl0 : LHLab ip s0 pl0) :
    ∀ k, (∀ j, 1 ≤ j → j ≤ k → (lhIter m j s0 pl0).1.pivot ≠ ip) →
      LHLab ip (lhIter m k s0 pl0).1 (lhIter m k s0 pl0).2 := by
  intro k
  induction k with
  | zero => intro _; exact hl0
  | succ k ih =>
    intro hnc
    have hl := ih (fun j hj1 hj2 => hnc j hj1 (by omega))
    obtain ⟨g1, g2, g3⟩ := gIter_full m n R0 R1 h0 h1 s0 pl0 hpl0 hf0 hp0 k
    have hpl : (lhIter m k s0 pl0).2 = 0 ∨ (lhIter m k s0 pl0).2 = 1 := by
      rw [g3]; split <;> omega
    have hstep := gStep_lab m n R0 R1 h0 h1 ip _ _ hpl g1 hl g2
    have hne := hnc (k + 1) (by omega) (le_refl _)
    rw [lhIter_succ] at hne ⊢
    exact hstep.1 hne

theorem gMirror (hpl0 : pl0 = 0 ∨ pl0 = 1) (hf0 : GFull m n R0 R1 s0) (hp0 : s0.pivot < m + n)
    (T : ℕ) (hsim : SSim m n (lhIter m T s0 pl0).1 s0) (hplT : (lhIter m T s0 pl0).2 = 1 - pl0) :
    ∀ k, k ≤ T → SSim m n (lhIter m (T - k) s0 pl0).1 (lhIter m k s0 pl0).1 ∧
      (lhIter m (T - k) s0 pl0).2 = 1 - (lhIter m k s0 pl0).2 := by
  intro k
  induction k with
  | zero => intro _; exact ⟨hsim, hplT⟩
  | succ k ih =>
    intro hk
    obtain ⟨hs, hp⟩ := ih (by omega)
    obtain ⟨a, ha⟩ : ∃ a, T - k = a + 1 := ⟨T - k - 1, by omega⟩
    have ha' : T - (k + 1) = a := by omega
    rw [ha] at hs hp
    rw [ha']
    obtain ⟨fa, pa, qa⟩ := gIter_full m n R0 R1 h0 h1 s0 pl0 hpl0 hf0 hp0 a
    obtain ⟨fk, pk, qk⟩ := gIter_full m n R0 R1 h0 h1 s0 pl0 hpl0 hf0 hp0 k
    obtain ⟨fa1, pa1, _⟩ := gIter_full m n R0 R1 h0 h1 s0 pl0 hpl0 hf0 hp0 (a + 1)
    have hpla : (lhIter m a s0 pl0).2 = 0 ∨ (lhIter m a s0 pl0).2 = 1 := by
      rw [qa]; split <;> omega
    have hplk : (lhIter m k s0 pl0).2 = 0 ∨ (lhIter m k s0 pl0).2 = 1 := by
      rw [qk]; split <;> omega
    rw [lhIter_succ] at hs hp fa1 pa1
    have hpe : (lhIter m a s0 pl0).2 = (lhIter m k s0 pl0).2 := by
      have : 1 - (lhIter m a s0 pl0).2 = 1 - (lhIter m k s0 pl0).2 := hp
      omega
    rw [lhIter_succ]
    constructor
    · have e1 := gStep_sim m n R0 R1 h0 h1 _ _ (lhIter m k s0 pl0).2 hplk fa1 fk hs pa1
      have e2 := gStep_invol m n R0 R1 h0 h1 (lhIter m a s0 pl0).1 (lhIter m a s0 pl0).2 hpla fa pa
      rw [hpe] at e2
      dsimp only at e1
      rw [hpe] at e1
      exact ssim_trans (ssim_symm e2) e1
    · show (lhIter m a s0 pl0).2 = 1 - (1 - (lhIter m k s0 pl0).2)
      rw [hpe]; omega

/-- **no return**, for any pair of reference tableaux -/
theorem gNoReturn (hpl0 : pl0 = 0 ∨ pl0 = 1) (hf0 : GFull m n R0 R1 s0) (hp0 : s0.pivot < m + n)
    (hl0 : LHLab ip s0 pl0)
    (hoth0 : if pl0 = 0 then InB s0.b1 s0.pivot else InB s0.b0 s0.pivot)
    (T : ℕ) (hT : 1 ≤ T) (hnc : ∀ j, 1 ≤ j → j < T → (lhIter m j s0 pl0).1.pivot ≠ ip)
    (hsim : SSim m n (lhIter m T s0 pl0).1 s0) : False := by
  obtain ⟨fT, pT, qT⟩ := gIter_full m n R0 R1 h0 h1 s0 pl0 hpl0 hf0 hp0 T
  by_cases hpar : T % 2 = 0
  · obtain ⟨a, ha⟩ : ∃ a, T = a + 1 := ⟨T - 1, by omega⟩
    obtain ⟨fa, pa, qa⟩ := gIter_full m n R0 R1 h0 h1 s0 pl0 hpl0 hf0 hp0 a
    have hla := gIter_lab m n R0 R1 h0 h1 ip s0 pl0 hpl0 hf0 hp0 hl0 a (fun j hj1 hj2 => hnc j hj1 (by omega))
    have hpla : (lhIter m a s0 pl0).2 = 1 - pl0 := by rw [qa, if_neg (by omega)]
    have hpl : (lhIter m a s0 pl0).2 = 0 ∨ (lhIter m a s0 pl0).2 = 1 := by omega
    have hex := gStep_exchange m n R0 R1 h0 h1 _ _ hpl fa pa hla.ent
    rw [ha, lhIter_succ] at hsim fT
    obtain ⟨hs0, hs1, hpv⟩ := hsim
    rcases hpl0 with rfl | rfl
    · rw [if_pos rfl] at hoth0
      rw [hpla, if_neg (by omega)] at hex
      apply hex.2
      rw [hpla] at hs1 hpv fT
      rw [hpv]
      exact (tsim_inB fT.i1.can.1 hf0.i1.can.1 hs1 _).mpr hoth0
    · rw [if_neg (by omega)] at hoth0
      rw [hpla, if_pos (by omega)] at hex
      apply hex.2
      rw [hpla] at hs0 hpv fT
      rw [hpv]
      exact (tsim_inB fT.i0.can.1 hf0.i0.can.1 hs0 _).mpr hoth0
  · obtain ⟨h, hh⟩ : ∃ h, T = 2 * h + 1 := ⟨T / 2, by omega⟩
    have hplT : (lhIter m T s0 pl0).2 = 1 - pl0 := by rw [qT, if_neg hpar]
    obtain ⟨hs, _⟩ := gMirror m n R0 R1 h0 h1 s0 pl0 hpl0 hf0 hp0 T hsim hplT h (by omega)
    have hTh : T - h = h + 1 := by omega
    rw [hTh, lhIter_succ] at hs
    obtain ⟨fh, ph, qh⟩ := gIter_full m n R0 R1 h0 h1 s0 pl0 hpl0 hf0 hp0 h
    have hlh := gIter_lab m n R0 R1 h0 h1 ip s0 pl0 hpl0 hf0 hp0 hl0 h (fun j hj1 hj2 => hnc j hj1 (by omega))
    have hpl : (lhIter m h s0 pl0).2 = 0 ∨ (lhIter m h s0 pl0).2 = 1 := by
      rw [qh]; split <;> omega
    have hex := gStep_exchange m n R0 R1 h0 h1 _ _ hpl fh ph hlh.ent
    obtain ⟨fs, _⟩ := gStep_full m n R0 R1 h0 h1 _ _ hpl fh ph
    have hent := hlh.ent
    obtain ⟨hs0, hs1, _⟩ := hs
    rcases hpl with e | e
    · rw [e] at hex hent hs0 fs
      rw [if_pos rfl] at hex hent
      exact hent ((tsim_inB fs.i0.can.1 fh.i0.can.1 hs0 _).mp hex.1)
    · rw [e] at hex hent hs1 fs
      rw [if_neg (by omega)] at hex hent
      exact hent ((tsim_inB fs.i1.can.1 fh.i1.can.1 hs1 _).mp hex.1)

end two

end QE.C15
