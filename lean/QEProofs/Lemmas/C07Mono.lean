/-
  C07 helper lemmas, part 14: the Riccati operator of `update_values` preserves the order of
  quadratic forms, so the finite-horizon value matrices are monotone in the horizon; closed form
  of the constant `d` after `T` updates.
-/
import QEProofs.Lemmas.C07Horizon

set_option linter.unusedSectionVars false

namespace QE.C07
open QE QE.MatAlg QE.C06 Finset Matrix

section order
variable {K : Type} [Field K] [LinearOrder K] [IsStrictOrderedRing K] {n k j : ℕ} {lq : LQ K}

/-- order preservation: `P ⪯ P'` (as quadratic forms) implies `update(P) ⪯ update(P')` -/
theorem update_monotone (sol : M K → M K → Option (M K)) (hsol : SolSpec sol k) (h : LQDim lq n k j)
    (hQs : (toMat k k lq.Q)ᵀ = toMat k k lq.Q) (hβ : 0 ≤ lq.beta)
    (hstage : ∀ x u, 0 ≤ stage (toMat n n lq.R) (toMat k k lq.Q) (toMat k n lq.N) x u)
    {v w v' w' : Val K} {F G : M K} (gv : GoodVal v n) (gw : GoodVal w n)
    (hle : ∀ x, qf (toMat n n v.P) x ≤ qf (toMat n n w.P) x)
    (hv : lqUpdate sol lq v = some (F, v')) (hw : lqUpdate sol lq w = some (G, w')) (x : Fin n → K) :
    qf (toMat n n v'.P) x ≤ qf (toMat n n w'.P) x := by
  have h1 := step_bound sol hsol h hQs hβ hstage gv hv x (-(toMat k n G *ᵥ x))
  have h2 := goodVal_step.lq_update_min_aux sol hsol h gw hQs hw x
  have h3 := mul_le_mul_of_nonneg_left
    (hle (toMat n n lq.A *ᵥ x + toMat n k lq.B *ᵥ (-(toMat k n G *ᵥ x)))) hβ
  rw [h2]
  linarith

/-- the values `valAt t` of the backward recursion are all good, and consecutive ones are ordered the way the
    first two are (`dir = true`: increasing, `false`: decreasing) -/
theorem valAt_monotone (sol : M K → M K → Option (M K)) (hsol : SolSpec sol k) (h : LQDim lq n k j)
    (hQs : (toMat k k lq.Q)ᵀ = toMat k k lq.Q) (hRs : (toMat n n lq.R)ᵀ = toMat n n lq.R)
    (hβ : 0 ≤ lq.beta)
    (hstage : ∀ x u, 0 ≤ stage (toMat n n lq.R) (toMat k k lq.Q) (toMat k n lq.N) x u)
    (v0 : Val K) (g0 : GoodVal v0 n) :
    (∀ t vt, valAt sol lq v0 t = some vt → GoodVal vt n) ∧
    (∀ v1, valAt sol lq v0 1 = some v1 → (∀ x, qf (toMat n n v0.P) x ≤ qf (toMat n n v1.P) x) →
      ∀ t vt vt1, valAt sol lq v0 t = some vt → valAt sol lq v0 (t + 1) = some vt1 →
        ∀ x, qf (toMat n n vt.P) x ≤ qf (toMat n n vt1.P) x) ∧
    (∀ v1, valAt sol lq v0 1 = some v1 → (∀ x, qf (toMat n n v1.P) x ≤ qf (toMat n n v0.P) x) →
      ∀ t vt vt1, valAt sol lq v0 t = some vt → valAt sol lq v0 (t + 1) = some vt1 →
        ∀ x, qf (toMat n n vt1.P) x ≤ qf (toMat n n vt.P) x) := by
  have good : ∀ t vt, valAt sol lq v0 t = some vt → GoodVal vt n := fun t vt ht =>
    (horizon_induction sol hsol h hQs hRs hβ hstage v0 g0 t vt ht).1
  -- one step of valAt as an update
  have stepof : ∀ t vt vt1, valAt sol lq v0 t = some vt → valAt sol lq v0 (t + 1) = some vt1 →
      ∃ F, lqUpdate sol lq vt = some (F, vt1) := by
    intro t vt vt1 ht ht1
    simp only [valAt] at ht1
    rw [ht] at ht1
    simp only [Option.bind_some, stepV] at ht1
    cases hu : lqUpdate sol lq vt with
    | none => rw [hu] at ht1; cases ht1
    | some r =>
      obtain ⟨F, v1⟩ := r
      rw [hu] at ht1
      simp only [Option.map_some, Option.some.injEq] at ht1
      subst ht1
      exact ⟨F, rfl⟩
  have prev : ∀ t vt1, valAt sol lq v0 (t + 1) = some vt1 → ∃ vt, valAt sol lq v0 t = some vt := by
    intro t vt1 ht1
    simp only [valAt] at ht1
    cases hT : valAt sol lq v0 t with
    | none => rw [hT] at ht1; cases ht1
    | some vt => exact ⟨vt, rfl⟩
  refine ⟨good, ?_, ?_⟩
  · intro v1 h1 h01 t
    induction t with
    | zero =>
      intro vt vt1 ht ht1 x
      simp only [valAt, Option.some.injEq] at ht
      subst ht
      rw [h1] at ht1
      simp only [Option.some.injEq] at ht1
      subst ht1
      exact h01 x
    | succ t ih =>
      intro vt1 vt2 ht1 ht2 x
      obtain ⟨vt, ht⟩ := prev t vt1 ht1
      obtain ⟨F, hu⟩ := stepof t vt vt1 ht ht1
      obtain ⟨G, hw⟩ := stepof (t + 1) vt1 vt2 ht1 ht2
      exact update_monotone sol hsol h hQs hβ hstage (good t vt ht) (good (t + 1) vt1 ht1)
        (ih vt vt1 ht ht1) hu hw x
  · intro v1 h1 h01 t
    induction t with
    | zero =>
      intro vt vt1 ht ht1 x
      simp only [valAt, Option.some.injEq] at ht
      subst ht
      rw [h1] at ht1
      simp only [Option.some.injEq] at ht1
      subst ht1
      exact h01 x
    | succ t ih =>
      intro vt1 vt2 ht1 ht2 x
      obtain ⟨vt, ht⟩ := prev t vt1 ht1
      obtain ⟨F, hu⟩ := stepof t vt vt1 ht ht1
      obtain ⟨G, hw⟩ := stepof (t + 1) vt1 vt2 ht1 ht2
      exact update_monotone sol hsol h hQs hβ hstage (good (t + 1) vt1 ht1) (good t vt ht)
        (ih vt vt1 ht ht1) hw hu x

end order

section dclosed
variable {K : Type} [CommRing K]

/-- closed form of the constant after `T` updates:
    `d_T = β^T d_0 + Σ_{s<T} β^(T-s) trace(P_s C C')`, `P_s` the value matrix after `s` updates -/
theorem valAt_d_closed_form (sol : M K → M K → Option (M K)) (lq : LQ K) (v0 : Val K) :
    ∀ (T : ℕ) (vT : Val K), valAt sol lq v0 T = some vT →
      ∃ f : ℕ → Val K, (∀ s, s ≤ T → valAt sol lq v0 s = some (f s)) ∧
        vT.d = lq.beta ^ T * v0.d
          + ∑ s ∈ range T, lq.beta ^ (T - s) * MatAlg.trace (mmul (f s).P (mmul lq.C (mT lq.C))) := by
  intro T
  induction T with
  | zero =>
    intro vT h
    simp only [valAt, Option.some.injEq] at h
    subst h
    refine ⟨fun _ => v0, ?_, by simp⟩
    intro s hs
    have : s = 0 := by omega
    subst this
    rfl
  | succ T ih =>
    intro v' h
    simp only [valAt] at h
    cases hT : valAt sol lq v0 T with
    | none => rw [hT] at h; cases h
    | some vT =>
      rw [hT] at h
      simp only [Option.bind_some, stepV] at h
      cases hu : lqUpdate sol lq vT with
      | none => rw [hu] at h; cases h
      | some r =>
        obtain ⟨F, v1⟩ := r
        rw [hu] at h
        simp only [Option.map_some, Option.some.injEq] at h
        subst h
        obtain ⟨f, hf, hd⟩ := ih vT hT
        have hd1 : v1.d = lq.beta * (vT.d + MatAlg.trace (mmul vT.P (mmul lq.C (mT lq.C)))) := by
          unfold lqUpdate at hu
          split at hu
          · cases hu
          · simp only [Option.some.injEq, Prod.mk.injEq] at hu
            rw [← hu.2]; rfl
        refine ⟨fun s => if s ≤ T then f s else v1, ?_, ?_⟩
        · intro s hs
          by_cases hsT : s ≤ T
          · simp only [hsT, if_true]; exact hf s hsT
          · have : s = T + 1 := by omega
            subst this
            simp only [hsT, if_false]
            simp only [valAt, hT, Option.bind_some, stepV, hu, Option.map_some]
        · have hfT : f T = vT := by
            have := hf T (le_refl T); rw [hT] at this; exact (Option.some.inj this).symm
          rw [hd1, hd, Finset.sum_range_succ]
          have hsum : ∑ s ∈ range T, lq.beta ^ (T + 1 - s)
                * MatAlg.trace (mmul (if s ≤ T then f s else v1).P (mmul lq.C (mT lq.C)))
              = lq.beta * ∑ s ∈ range T, lq.beta ^ (T - s) * MatAlg.trace (mmul (f s).P (mmul lq.C (mT lq.C))) := by
            rw [Finset.mul_sum]
            apply Finset.sum_congr rfl
            intro s hs
            have hsT : s < T := Finset.mem_range.mp hs
            have e : T + 1 - s = (T - s) + 1 := by omega
            rw [e, pow_succ, if_pos (le_of_lt hsT)]
            ring
          rw [hsum]
          simp only [le_refl, if_true, hfT]
          have e2 : T + 1 - T = 1 := by omega
          rw [e2, pow_one, pow_succ]
          ring

end dclosed
end QE.C07
