/-
  Lemmas for C13, part 2: `linspace` read entry-wise.
-/
import Mathlib.Algebra.Order.Field.Basic
import Mathlib.Tactic.Ring
import Mathlib.Tactic.FieldSimp
import Mathlib.Tactic.Linarith
import QEModel.C13
namespace QE.C13
open QE

section
variable {K : Type} [Field K] [LinearOrder K] [IsStrictOrderedRing K]

theorem linspace_length (a b : K) (n : ℕ) : (linspace a b n).length = n := by
  unfold linspace; split <;> simp

/-- `np.linspace(a, b, n)[j] = a + j (b-a)/(n-1)` in exact arithmetic, for `n ≥ 2`, `j < n`
    (whichever of the three assignments of the code produced the entry). -/
theorem linspace_getD (a b : K) (n : ℕ) (hn : 2 ≤ n) (j : ℕ) (hj : j < n) :
    (linspace a b n).getD j 0 = a + (j : K) * ((b - a) / ((n : K) - 1)) := by
  have h1 : 1 < n := by omega
  have hc : (((n - 1 : ℕ)) : K) = (n : K) - 1 := by
    rw [Nat.cast_sub (by omega)]; simp
  have hne : (n : K) - 1 ≠ 0 := by
    have h1' : (1 : K) < (n : K) := by exact_mod_cast h1
    intro h0; linarith
  unfold linspace
  simp only [h1, if_true]
  rw [List.getD_eq_getElem?_getD, List.getElem?_map, List.getElem?_range hj]
  simp only [Option.map_some, Option.getD_some, hc]
  split_ifs with h2 h3
  · have : (j : K) = (n : K) - 1 := by
      have : ((j + 1 : ℕ) : K) = (n : K) := by exact_mod_cast congrArg (Nat.cast (R := K)) h2
      push_cast at this; linarith
    rw [this]; field_simp; ring
  · field_simp; ring
  · field_simp; ring

/-- the grid of `rouwenhorst`, entry-wise (`ψ = y_sd·sqrt(n-1)`, whatever `sqrt` returns) -/
theorem rouwGrid_getD (sqrt : K → K) (n : ℕ) (hn : 2 ≤ n) (rho sigma mu : K) (j : ℕ) (hj : j < n) :
    (rouwGrid sqrt n rho sigma mu).getD j 0 =
      -(ySd sqrt rho sigma * sqrt (((n - 1 : ℕ)) : K))
        + (j : K) * ((ySd sqrt rho sigma * sqrt (((n - 1 : ℕ)) : K)
            - -(ySd sqrt rho sigma * sqrt (((n - 1 : ℕ)) : K))) / ((n : K) - 1))
        + mu / (1 - rho) := by
  unfold rouwGrid
  simp only []
  rw [List.getD_eq_getElem?_getD, List.getElem?_map]
  have hl : j < (linspace (-(ySd sqrt rho sigma * sqrt (((n - 1 : ℕ)) : K)))
      (ySd sqrt rho sigma * sqrt (((n - 1 : ℕ)) : K)) n).length := by rw [linspace_length]; exact hj
  rw [List.getElem?_eq_getElem hl]
  simp only [Option.map_some, Option.getD_some]
  have h := linspace_getD (-(ySd sqrt rho sigma * sqrt (((n - 1 : ℕ)) : K)))
      (ySd sqrt rho sigma * sqrt (((n - 1 : ℕ)) : K)) n hn j hj
  rw [List.getD_eq_getElem?_getD, List.getElem?_eq_getElem hl] at h
  simp only [Option.getD_some] at h
  rw [h]

end
end QE.C13
