/-
  Lemmas for C09, part 10: values of Markov policy sequences are bounded by the
  backward-induction values.
-/
import Mathlib.Algebra.Order.Ring.Defs
import Mathlib.Data.List.Forall2
import Mathlib.Data.List.Nodup
import QEProofs.Lemmas.C09Feasible
namespace QE.C09
set_option linter.unusedSectionVars false

theorem forall₂_of_getElem? {α β : Type} (R : α → β → Prop) : ∀ (u : List α) (v : List β),
    u.length = v.length → (∀ (i : Nat) x y, u[i]? = some x → v[i]? = some y → R x y) → List.Forall₂ R u v := by
  intro u
  induction u with
  | nil => intro v hl _; cases v with
    | nil => exact List.Forall₂.nil
    | cons _ _ => simp at hl
  | cons a as ih =>
    intro v hl h
    cases v with
    | nil => simp at hl
    | cons b bs =>
      refine List.Forall₂.cons (h 0 a b (by simp) (by simp)) (ih bs (by simpa using hl) ?_)
      intro i x y hx hy
      exact h (i + 1) x y (by simpa using hx) (by simpa using hy)

theorem forall₂_getElem? {α β : Type} (R : α → β → Prop) : ∀ (u : List α) (v : List β),
    List.Forall₂ R u v → ∀ (i : Nat) x y, u[i]? = some x → v[i]? = some y → R x y := by
  intro u v h
  induction h with
  | nil => intro i x y hx; simp at hx
  | cons hab _ ih =>
    intro i x y hx hy
    cases i with
    | zero => simp at hx hy; subst hx; subst hy; exact hab
    | succ i => exact ih i x y (by simpa using hx) (by simpa using hy)

section
variable {K : Type} [CommRing K] [LinearOrder K] [IsOrderedRing K]

/-- `q · v ≤ q · w` for `q ≥ 0` and `v ≤ w` pointwise -/
theorem dot_mono : ∀ (q v w : List K), (∀ x ∈ q, 0 ≤ x) → List.Forall₂ (· ≤ ·) v w → dot q v ≤ dot q w := by
  intro q
  induction q with
  | nil => intro v w _ _; simp
  | cons a as ih =>
    intro v w hq h
    cases h with
    | nil => simp
    | cons hab hrest =>
      simp only [dot_cons]
      exact add_le_add (mul_le_mul_of_nonneg_left hab (hq a List.mem_cons_self))
        (ih _ _ (fun x hx => hq x (List.mem_cons_of_mem _ hx)) hrest)

/-- one period under policy `σ`, finite values only -/
def stepPolicy (d : SaDDP K) (sigma : List Nat) (u : List K) : Option (List K) :=
  (d.tSigma sigma u).bind fun x => x.mapM Ext.toOption

/-- value of the policy sequence `σs` listed **from the last period backwards**
    (`σs = [σ_{T-1}, …, σ_0]`) with terminal value `u`: `T_{σ_0}(… T_{σ_{T-1}} u)` -/
def seqValue (d : SaDDP K) : List (List Nat) → List K → Option (List K)
  | [], u => some u
  | sigma :: rest, u => (stepPolicy d sigma u).bind fun u' => seqValue d rest u'

theorem mapM_toOption_map_fin (tv : List K) : (tv.map Ext.fin).mapM Ext.toOption = some tv := by
  induction tv with
  | nil => simp
  | cons x xs ihx => simp [List.mapM_cons, Ext.toOption, ihx]

/-- explicit form of one policy step -/
theorem stepPolicy_some (d : SaDDP K) (sigma : List Nat) (hs : sigma.length = d.n) (u u' : List K)
    (h : stepPolicy d sigma u = some u') :
    ∃ (b : List K) (Q' : List (List K)), d.rqSigma sigma = some (b.map Ext.fin, Q') ∧
      b.length = d.n ∧ Q'.length = d.n ∧
      ∀ w, stepPolicy d sigma w = some (List.zipWith (fun r q => r + d.beta * dot q w) b Q') := by
  unfold stepPolicy SaDDP.tSigma at h
  cases hrq : d.rqSigma sigma with
  | none => simp [hrq] at h
  | some rq =>
    obtain ⟨R', Q'⟩ := rq
    simp only [hrq, Option.map_some, Option.bind_some] at h
    obtain ⟨hl1, hl2, _⟩ := sa_rqSigma_rows d sigma hs R' Q' hrq
    have hR := mapM_toOption_eq_some _ _ h
    -- every reward of the policy is finite
    have hfin : ∃ b : List K, R' = b.map Ext.fin := by
      apply all_fin_eq_map
      intro i hi
      have hi2 : i < Q'.length := by omega
      have hx := tSigmaOf_getElem? d.beta R' Q' u i hi hi2
      rw [hR, List.getElem?_map] at hx
      cases hu : u'[i]? with
      | none => rw [hu] at hx; cases hx
      | some y =>
        rw [hu] at hx
        simp only [Option.map_some, Option.some.injEq] at hx
        rw [List.getElem?_eq_getElem hi]
        cases hr : R'[i] with
        | fin r => exact ⟨r, rfl⟩
        | ninf =>
          exfalso
          have : R'.getD i Ext.ninf = Ext.ninf := by
            rw [List.getD_eq_getElem?_getD, List.getElem?_eq_getElem hi, hr]; rfl
          rw [this] at hx
          cases hx
    obtain ⟨b, hb⟩ := hfin
    subst hb
    refine ⟨b, Q', rfl, by simpa using hl1, hl2, ?_⟩
    intro w
    unfold stepPolicy SaDDP.tSigma
    rw [hrq]
    simp only [Option.map_some, Option.bind_some]
    rw [tSigmaOf_fin, mapM_toOption_map_fin]


theorem getD_nonneg (Q : List (List K)) (hQ : ∀ row ∈ Q, ∀ x ∈ row, 0 ≤ x) (j : Nat) :
    ∀ x ∈ Q.getD j [], 0 ≤ x := by
  intro x hx
  by_cases hj : j < Q.length
  · have : Q.getD j [] = Q[j] := by simp [List.getD_eq_getElem?_getD, List.getElem?_eq_getElem hj]
    rw [this] at hx
    exact hQ _ (List.getElem_mem hj) x hx
  · have : Q.getD j [] = [] := by
      simp [List.getD_eq_getElem?_getD, List.getElem?_eq_none (by omega : Q.length ≤ j)]
    rw [this] at hx; simp at hx

/-- one period: a policy step from `u` is dominated by the Bellman step from `v ≥ u` -/
theorem step_le_bellman (d : SaDDP K) (hf : d.Feasible) (hβ : 0 ≤ d.beta)
    (hQ : ∀ row ∈ d.Q, ∀ x ∈ row, 0 ≤ x) (sigma : List Nat) (hs : sigma.length = d.n)
    (u v u' tv : List K) (huv : List.Forall₂ (· ≤ ·) u v)
    (hstep : stepPolicy d sigma u = some u') (hT : (d.bellman v).1 = tv.map Ext.fin) :
    List.Forall₂ (· ≤ ·) u' tv := by
  obtain ⟨b, Q', hrq, hbl, hQl, hform⟩ := stepPolicy_some d sigma hs u u' hstep
  have hu' : u' = List.zipWith (fun r q => r + d.beta * dot q u) b Q' := by
    have := hform u; rw [hstep] at this; exact Option.some.inj this
  obtain ⟨_, _, hrows⟩ := sa_rqSigma_rows d sigma hs _ _ hrq
  have htvl : tv.length = d.n := by
    have := congrArg List.length hT
    rw [SaDDP.bellman_length, List.length_map] at this; exact this.symm
  apply forall₂_of_getElem?
  · rw [hu', List.length_zipWith, hbl, hQl, htvl]; simp
  · intro i a c ha hc
    have hi : i < d.n := by
      have := (List.getElem?_eq_some_iff.mp hc).1; omega
    obtain ⟨j, _, _, _, _, hQj⟩ := hrows i hi
    -- the policy step at `v`
    obtain ⟨x, y, hx, hy, hxy⟩ := sa_bellman_dominates d hf v sigma hs _ _ hrq i hi
    rw [hT, List.getElem?_map, hc] at hx
    simp only [Option.map_some, Option.some.injEq] at hx
    rw [tSigmaOf_fin, List.getElem?_map, List.getElem?_zipWith,
      List.getElem?_eq_getElem (by omega : i < b.length), hQj] at hy
    simp only [Option.map_some, Option.some.injEq] at hy
    subst hx; subst hy
    have hle : b[i] + d.beta * dot (d.Q.getD j []) v ≤ c := not_lt.mp hxy
    rw [hu', List.getElem?_zipWith, List.getElem?_eq_getElem (by omega : i < b.length), hQj] at ha
    simp only [Option.some.injEq] at ha
    subst ha
    have hd := dot_mono (d.Q.getD j []) u v (getD_nonneg d.Q hQ j) huv
    calc b[i] + d.beta * dot (d.Q.getD j []) u
        ≤ b[i] + d.beta * dot (d.Q.getD j []) v :=
          add_le_add (le_refl _) (mul_le_mul_of_nonneg_left hd hβ)
      _ ≤ c := hle

/-- **Upper bound by induction on the horizon**: the value of any sequence of policies
    (finite rewards, available actions) started from `u ≤ v` is `≤` the first row computed by
    the backward loop started from `v`. -/
theorem seqValue_le_backward (d : SaDDP K) (hf : d.Feasible) (hβ : 0 ≤ d.beta)
    (hQ : ∀ row ∈ d.Q, ∀ x ∈ row, 0 ≤ x) :
    ∀ (σs : List (List Nat)), (∀ σ ∈ σs, σ.length = d.n) →
    ∀ (u v x : List K) (vs : List (List K)) (ss : List (List Nat)), List.Forall₂ (· ≤ ·) u v →
      seqValue d σs u = some x → backwardLoop (DDP.sa d) σs.length v = some (vs, ss) →
      ∃ w, (vs ++ [v])[0]? = some w ∧ List.Forall₂ (· ≤ ·) x w := by
  intro σs
  induction σs with
  | nil =>
    intro _ u v x vs ss huv hx hb
    simp only [seqValue, Option.some.injEq] at hx
    simp only [List.length_nil, backwardLoop, Option.some.injEq, Prod.mk.injEq] at hb
    obtain ⟨rfl, rfl⟩ := hb
    subst hx
    exact ⟨v, by simp, huv⟩
  | cons σ rest ih =>
    intro hlen u v x vs ss huv hx hb
    simp only [seqValue] at hx
    cases hstep : stepPolicy d σ u with
    | none => simp [hstep] at hx
    | some u' =>
      simp only [hstep, Option.bind_some] at hx
      simp only [List.length_cons, backwardLoop] at hb
      cases hm : ((DDP.sa d).bellman v).1.mapM Ext.toOption with
      | none => simp [hm] at hb
      | some tv =>
        simp only [hm] at hb
        cases hbl : backwardLoop (DDP.sa d) rest.length tv with
        | none => simp [hbl] at hb
        | some p =>
          obtain ⟨vs', ss'⟩ := p
          simp only [hbl, Option.some.injEq, Prod.mk.injEq] at hb
          obtain ⟨rfl, rfl⟩ := hb
          have hT : (d.bellman v).1 = tv.map Ext.fin := mapM_toOption_eq_some _ _ hm
          have hu'tv := step_le_bellman d hf hβ hQ σ (hlen σ List.mem_cons_self) u v u' tv huv hstep hT
          obtain ⟨w, hw, hxw⟩ := ih (fun s hs => hlen s (List.mem_cons_of_mem _ hs)) u' tv x vs' ss' hu'tv hx hbl
          refine ⟨w, ?_, hxw⟩
          rw [List.getElem?_append_left (by simp)]
          exact hw


theorem SaDDP.bellman_snd_length (d : SaDDP K) (v : List K) : (d.bellman v).2.length = d.n := by
  simp [SaDDP.bellman, sWiseMaxArgmax, List.unzip_eq_map]

/-- the pairs of every state carry pairwise distinct actions -/
def SaDDP.DistinctActions (d : SaDDP K) : Prop :=
  ∀ i, i < d.n → ∀ j j', d.aIndptr.getD i 0 ≤ j → j < d.aIndptr.getD (i + 1) 0 →
    d.aIndptr.getD i 0 ≤ j' → j' < d.aIndptr.getD (i + 1) 0 →
    d.aInd[j]? = d.aInd[j']? → j = j'

/-- one period under the greedy policy reproduces the Bellman operator's values -/
theorem greedy_step (d : SaDDP K) (hf : d.Feasible) (hdist : d.DistinctActions) (v tv : List K)
    (hT : (d.bellman v).1 = tv.map Ext.fin) : stepPolicy d (d.bellman v).2 v = some tv := by
  set sg := (d.bellman v).2 with hsg
  have hsl : sg.length = d.n := SaDDP.bellman_snd_length d v
  -- per state: the argmax pair
  have hspec : ∀ i, i < d.n → ∃ m act, d.aIndptr.getD i 0 ≤ m ∧ m < d.aIndptr.getD (i + 1) 0 ∧
      d.aInd[m]? = some act ∧ (d.bellman v).1[i]? = some (d.pairVal v m) ∧ sg.getD i 0 = act := by
    intro i hi
    obtain ⟨hne, hhi, _⟩ := hf.block i hi
    obtain ⟨m, act, h1, h2, h3, h4, h5, _, _⟩ := sa_bellman_spec d v i hi hne hhi hf.lenQ hf.lenA
    refine ⟨m, act, h1, h2, h3, h4, ?_⟩
    rw [List.getD_eq_getElem?_getD, hsg, h5]; rfl
  have hsome := sa_rqSigma_isSome d sg hsl (fun i hi => by
    obtain ⟨m, act, h1, h2, h3, _, h5⟩ := hspec i hi
    exact ⟨m, h1, h2, by rw [h5]; exact h3⟩)
  cases hrq : d.rqSigma sg with
  | none => rw [hrq] at hsome; cases hsome
  | some rq =>
    obtain ⟨R', Q'⟩ := rq
    obtain ⟨hl1, hl2, hrows⟩ := sa_rqSigma_rows d sg hsl R' Q' hrq
    have heq : tSigmaOf d.beta (R', Q') v = (d.bellman v).1 := by
      apply List.ext_getElem?
      intro i
      by_cases hi : i < d.n
      · obtain ⟨m, act, h1, h2, h3, h4, h5⟩ := hspec i hi
        obtain ⟨j, hj1, hj2, hj3, hRj, hQj⟩ := hrows i hi
        have hjm : j = m := hdist i hi j m hj1 hj2 h1 h2 (by rw [hj3, h5, h3])
        subst hjm
        rw [tSigmaOf_getElem? d.beta R' Q' v i (by omega) (by omega), h4]
        have e1 : R'.getD i .ninf = d.R.getD j .ninf := by
          rw [List.getD_eq_getElem?_getD, hRj]; rfl
        have e2 : Q'.getD i [] = d.Q.getD j [] := by
          rw [List.getD_eq_getElem?_getD, hQj]; rfl
        rw [e1, e2]; rfl
      · rw [List.getElem?_eq_none (by simp [tSigmaOf, hl1, hl2]; omega),
          List.getElem?_eq_none (by rw [SaDDP.bellman_length]; omega)]
    unfold stepPolicy SaDDP.tSigma
    rw [hrq]
    simp only [Option.map_some, Option.bind_some]
    rw [heq, hT, mapM_toOption_map_fin]

/-- **the reported policies attain the reported values, every horizon**: evaluating the
    sequence `σs` returned by the backward loop (read from the last period backwards) from the
    terminal value gives exactly the first row of values -/
theorem backward_attained (d : SaDDP K) (hf : d.Feasible) (hdist : d.DistinctActions) :
    ∀ (k : Nat) (v : List K) (vs : List (List K)) (ss : List (List Nat)),
      backwardLoop (DDP.sa d) k v = some (vs, ss) →
      ∃ w, (vs ++ [v])[0]? = some w ∧ seqValue d ss.reverse v = some w := by
  intro k
  induction k with
  | zero =>
    intro v vs ss h
    simp only [backwardLoop, Option.some.injEq, Prod.mk.injEq] at h
    obtain ⟨rfl, rfl⟩ := h
    exact ⟨v, by simp, by simp [seqValue]⟩
  | succ k ih =>
    intro v vs ss h
    simp only [backwardLoop] at h
    cases hm : ((DDP.sa d).bellman v).1.mapM Ext.toOption with
    | none => simp [hm] at h
    | some tv =>
      simp only [hm] at h
      cases hbl : backwardLoop (DDP.sa d) k tv with
      | none => simp [hbl] at h
      | some p =>
        obtain ⟨vs', ss'⟩ := p
        simp only [hbl, Option.some.injEq, Prod.mk.injEq] at h
        obtain ⟨rfl, rfl⟩ := h
        have hT : (d.bellman v).1 = tv.map Ext.fin := mapM_toOption_eq_some _ _ hm
        obtain ⟨w, hw, hseq⟩ := ih tv vs' ss' hbl
        refine ⟨w, ?_, ?_⟩
        · rw [List.getElem?_append_left (by simp)]; exact hw
        · rw [List.reverse_append, List.reverse_singleton, List.singleton_append]
          simp only [seqValue]
          have : stepPolicy d ((DDP.sa d).bellman v).2 v = some tv := greedy_step d hf hdist v tv hT
          rw [this]
          exact hseq


/-- **instances built from pairwise distinct pairs have distinct actions in every state**
    (both branches of the constructor) -/
theorem arrangeSa_distinct (n : Nat) (beta : K) (R : List (Ext K)) (Q : List (List K)) (S A : List Nat)
    (hR : R.length = S.length) (hQ : Q.length = S.length) (hA : A.length = S.length)
    (hS : ∀ s ∈ S, s < n)
    (hnodup : ∀ k k', k < S.length → k' < S.length → S[k]? = S[k']? → A[k]? = A[k']? → k = k') :
    (arrangeSa n beta R Q S A).DistinctActions := by
  have hptr := arrangeSa_indptr n beta R Q S A hA.symm hS
  have hn : (arrangeSa n beta R Q S A).n = n := (arrangeSa_lengths n beta R Q S A hR hQ hA).2.2.2
  intro i hi j j' h1 h2 h3 h4 hact
  rw [hn] at hi
  rw [hptr i (by omega)] at h1 h3
  rw [hptr (i + 1) (by omega)] at h2 h4
  have hjL : j < S.length := lt_of_lt_of_le h2 (countP_le_length' S _)
  have hj'L : j' < S.length := lt_of_lt_of_le h4 (countP_le_length' S _)
  by_cases hs : hasSortedSa S A = true
  · obtain ⟨e1, e2, _, _, _⟩ := (show (arrangeSa n beta R Q S A).sInd = S ∧ (arrangeSa n beta R Q S A).aInd = A ∧
        (arrangeSa n beta R Q S A).R = R ∧ (arrangeSa n beta R Q S A).Q = Q ∧
        (arrangeSa n beta R Q S A).aIndptr = generateAIndptr n S by
      unfold arrangeSa; rw [if_pos hs]; exact ⟨rfl, rfl, rfl, rfl, rfl⟩)
    rw [e2] at hact
    have hp := hasSortedSa_pairwise S A hA.symm hs
    have s1 := (sorted_block S hp j hjL i).mp ⟨h1, h2⟩
    have s2 := (sorted_block S hp j' hj'L i).mp ⟨h3, h4⟩
    exact hnodup j j' hjL hj'L (by rw [List.getElem?_eq_getElem hjL, List.getElem?_eq_getElem hj'L, s1, s2]) hact
  · obtain ⟨k, hk, hkL, _, _, hka⟩ := arrangeSa_unsorted n beta R Q S A hR hQ hA hs j hjL
    obtain ⟨k', hk', hk'L, _, _, hk'a⟩ := arrangeSa_unsorted n beta R Q S A hR hQ hA hs j' hj'L
    obtain ⟨k2, hk2, _, hks⟩ := arrangeSa_unsorted_sInd n beta R Q S A hA hS hs j hjL
    obtain ⟨k2', hk2', _, hk's⟩ := arrangeSa_unsorted_sInd n beta R Q S A hA hS hs j' hj'L
    rw [hk] at hk2; cases hk2
    rw [hk'] at hk2'; cases hk2'
    -- both positions lie in block `i`, so the rebuilt state there is `i`
    have hsi : ∀ jj, S.countP (· < i) ≤ jj → jj < S.countP (· < i + 1) →
        (arrangeSa n beta R Q S A).sInd[jj]? = some i := by
      intro jj hj1 hj2
      unfold arrangeSa
      rw [if_neg hs]
      simp only
      have h0 : (countsIndptr n S).getD 0 0 = 0 := by
        rw [countsIndptr_getD n S 0 (Nat.zero_le _)]; simp
      have hmono : ∀ i, i < n → (countsIndptr n S).getD i 0 ≤ (countsIndptr n S).getD (i + 1) 0 := by
        intro i hi
        rw [countsIndptr_getD n S i (by omega), countsIndptr_getD n S (i + 1) (by omega)]
        exact countP_lt_mono S i
      apply (rebuildS_spec (countsIndptr n S) h0 n hmono).2 jj i hi
      · rw [countsIndptr_getD n S _ (by omega)]; exact hj1
      · rw [countsIndptr_getD n S _ (by omega)]; exact hj2
    have hkk : k = k' := hnodup k k' hkL hk'L
      (by rw [← hks, ← hk's, hsi j h1 h2, hsi j' h3 h4]) (by rw [← hka, ← hk'a]; exact hact)
    subst hkk
    -- the index array has no repetition
    have hnd : (resortPairs S A).Nodup := (resortPairs_perm S A hA).nodup_iff.mpr List.nodup_range
    have hlen : (resortPairs S A).length = S.length := by
      rw [(resortPairs_perm S A hA).length_eq, List.length_range]
    have e1 : (resortPairs S A)[j]'(by omega) = k := by
      rw [List.getElem?_eq_getElem (by omega)] at hk; exact Option.some.inj hk
    have e2 : (resortPairs S A)[j']'(by omega) = k := by
      rw [List.getElem?_eq_getElem (by omega)] at hk'; exact Option.some.inj hk'
    exact (List.Nodup.getElem_inj_iff hnd).mp (e1.trans e2.symm)


/-- the stored transition rows are rows of the given `Q` (or empty), hence non-negative -/
theorem arrangeSa_Q_nonneg (n : Nat) (beta : K) (R : List (Ext K)) (Q : List (List K)) (S A : List Nat)
    (hQ : ∀ row ∈ Q, ∀ x ∈ row, 0 ≤ x) :
    ∀ row ∈ (arrangeSa n beta R Q S A).Q, ∀ x ∈ row, 0 ≤ x := by
  unfold arrangeSa
  by_cases hs : hasSortedSa S A = true
  · rw [if_pos hs]; exact hQ
  · rw [if_neg hs]
    intro row hrow
    simp only [gather, List.mem_map] at hrow
    obtain ⟨k, _, rfl⟩ := hrow
    exact getD_nonneg Q hQ k

end
end QE.C09
