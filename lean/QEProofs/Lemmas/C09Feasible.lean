/-
  Lemmas for C09, part 9: accepted instances are feasible; the Bellman operator is finite on them.
-/
import QEProofs.Lemmas.C09Forms
import QEProofs.Lemmas.C09Backward
namespace QE.C09
set_option linter.unusedSectionVars false

theorem all_fin_eq_map {K : Type} : ∀ (l : List (Ext K)),
    (∀ i, i < l.length → ∃ x, l[i]? = some (Ext.fin x)) → ∃ tv : List K, l = tv.map Ext.fin := by
  intro l
  induction l with
  | nil => intro _; exact ⟨[], rfl⟩
  | cons y ys ih =>
    intro h
    obtain ⟨x, hx⟩ := h 0 (by simp)
    simp only [List.getElem?_cons_zero, Option.some.injEq] at hx
    obtain ⟨tv, htv⟩ := ih (fun i hi => by
      obtain ⟨x, hx⟩ := h (i + 1) (by simpa using hi)
      exact ⟨x, by simpa using hx⟩)
    exact ⟨x :: tv, by rw [hx, htv]; rfl⟩

section
variable {K : Type} [Zero K] [Add K] [Mul K] [LinearOrder K]

theorem SaDDP.bellman_length (d : SaDDP K) (v : List K) : (d.bellman v).1.length = d.n := by
  simp [SaDDP.bellman, sWiseMaxArgmax, List.unzip_eq_map]

/-- a well-formed SA instance: every state owns a non-empty block inside the arrays that
    contains a finite reward -/
structure SaDDP.Feasible (d : SaDDP K) : Prop where
  lenQ : d.Q.length = d.R.length
  lenA : d.aInd.length = d.R.length
  block : ∀ i, i < d.n → d.aIndptr.getD i 0 < d.aIndptr.getD (i + 1) 0 ∧
    d.aIndptr.getD (i + 1) 0 ≤ d.R.length ∧
    ∃ j, d.aIndptr.getD i 0 ≤ j ∧ j < d.aIndptr.getD (i + 1) 0 ∧ d.R.getD j .ninf ≠ .ninf

/-- on a feasible SA instance the Bellman operator returns finite values only -/
theorem sa_bellman_finite (d : SaDDP K) (hf : d.Feasible) (v : List K) :
    ∃ tv : List K, (d.bellman v).1 = tv.map Ext.fin := by
  apply all_fin_eq_map
  intro i hi
  rw [SaDDP.bellman_length] at hi
  obtain ⟨hne, hhi, j, hj1, hj2, hj3⟩ := hf.block i hi
  obtain ⟨m, act, _, _, _, hTv, _, hmax, _⟩ := sa_bellman_spec d v i hi hne hhi hf.lenQ hf.lenA
  rw [hTv]
  have hj := hmax j hj1 hj2
  cases hm : d.pairVal v m with
  | fin x => exact ⟨x, rfl⟩
  | ninf =>
    exfalso
    apply hj
    rw [hm]
    unfold SaDDP.pairVal qval
    cases hr : d.R.getD j Ext.ninf with
    | ninf => exact absurd hr hj3
    | fin r => exact trivial

end

section
variable {K : Type} [LinearOrder K] [Zero K] [One K] [Add K] [Mul K]

theorem arrangeSa_lengths (n : Nat) (beta : K) (R : List (Ext K)) (Q : List (List K)) (S A : List Nat)
    (hR : R.length = S.length) (hQ : Q.length = S.length) (hA : A.length = S.length) :
    (arrangeSa n beta R Q S A).R.length = S.length ∧ (arrangeSa n beta R Q S A).Q.length = S.length ∧
    (arrangeSa n beta R Q S A).aInd.length = S.length ∧ (arrangeSa n beta R Q S A).n = n := by
  unfold arrangeSa
  by_cases hs : hasSortedSa S A = true
  · rw [if_pos hs]; exact ⟨hR, hQ, hA, rfl⟩
  · rw [if_neg hs]
    have hlen : (resortPairs S A).length = S.length := by
      rw [resortPairs_eq, List.length_map, (List.mergeSort_perm _ _).length_eq, triples_length S A hA]
    simp only [gather, List.length_map, hlen]
    exact ⟨trivial, trivial, trivial, trivial⟩

/-- **every SA instance the constructor accepts is feasible** in the sense above … -/
theorem accepted_sa_feasible (n : Nat) (beta : K) (R : List (Ext K)) (Q : List (List K)) (S A : List Nat)
    (hR : R.length = Q.length) (hSl : S.length = Q.length) (hAl : A.length = Q.length)
    (hS : ∀ s ∈ S, s < n) (d : SaDDP K) (h : mkSa n beta R Q S A = .ok d) :
    d.Feasible ∧ d.n = n := by
  have hd := mkSa_ok_eq n beta R Q S A d h
  subst hd
  obtain ⟨l1, l2, l3, l4⟩ := arrangeSa_lengths n beta R Q S A (by omega) (by omega) (by omega)
  have hok := (mkSa_ok_iff n beta R Q S A hR hSl hAl hS).mp h
  have hptr := arrangeSa_indptr n beta R Q S A (by omega) hS
  refine ⟨⟨by omega, by omega, ?_⟩, l4⟩
  intro i hi
  rw [l4] at hi
  obtain ⟨j, h1, h2, h3⟩ := (arrangeSa_block n beta R Q S A (by omega) i).mpr (hok.1 i hi)
  rw [hptr i (by omega), hptr (i + 1) (by omega), l1]
  exact ⟨by omega, countP_le_length' S _, j, h1, h2, h3⟩

/-- … hence backward induction on it never fails, for every horizon and terminal value -/
theorem accepted_sa_backward_total (n : Nat) (beta : K) (R : List (Ext K)) (Q : List (List K)) (S A : List Nat)
    (hR : R.length = Q.length) (hSl : S.length = Q.length) (hAl : A.length = Q.length)
    (hS : ∀ s ∈ S, s < n) (d : SaDDP K) (h : mkSa n beta R Q S A = .ok d)
    (T : Nat) (vTerm : Option (List K)) :
    (backwardInduction (DDP.sa d) T vTerm).isSome = true := by
  have hf := (accepted_sa_feasible n beta R Q S A hR hSl hAl hS d h).1
  exact backwardInduction_isSome (DDP.sa d) (fun v => sa_bellman_finite d hf v) T vTerm

end
section
variable {K : Type} [Zero K] [Add K] [Mul K] [LinearOrder K]

/-- **one-step optimality in policy terms**: on a feasible SA instance, for every policy `σ`
    for which rows exist, `T_σ v ≤ T v` in every state (`¬ Tv[i] < (T_σ v)[i]`) -/
theorem sa_bellman_dominates (d : SaDDP K) (hf : d.Feasible) (v : List K) (sigma : List Nat)
    (hs : sigma.length = d.n) (R' : List (Ext K)) (Q' : List (List K))
    (h : d.rqSigma sigma = some (R', Q')) (i : Nat) (hi : i < d.n) :
    ∃ x y, (d.bellman v).1[i]? = some x ∧ (tSigmaOf d.beta (R', Q') v)[i]? = some y ∧ ¬ x < y := by
  obtain ⟨hl1, hl2, hrows⟩ := sa_rqSigma_rows d sigma hs R' Q' h
  obtain ⟨j, hj1, hj2, _, hRj, hQj⟩ := hrows i hi
  obtain ⟨hne, hhi, _⟩ := hf.block i hi
  obtain ⟨m, act, _, _, _, hTv, _, hmax, _⟩ := sa_bellman_spec d v i hi hne hhi hf.lenQ hf.lenA
  refine ⟨_, _, hTv, tSigmaOf_getElem? d.beta R' Q' v i (by omega) (by omega), ?_⟩
  have e1 : R'.getD i .ninf = d.R.getD j .ninf := by
    rw [List.getD_eq_getElem?_getD, hRj]; rfl
  have e2 : Q'.getD i [] = d.Q.getD j [] := by
    rw [List.getD_eq_getElem?_getD, hQj]; rfl
  rw [e1, e2]
  exact hmax j hj1 hj2

end
section
variable {K : Type} [Zero K] [Add K] [Mul K] [LinearOrder K]

/-- a well-formed product-form instance: `n` rows of `m ≥ 1` actions in `R` and `Q`, every row
    of `R` has an entry `> -inf` -/
structure ProdDDP.Feasible (d : ProdDDP K) : Prop where
  lenQ : d.Q.length = d.R.length
  rowR : ∀ i, i < d.R.length → (d.R.getD i []).length = d.m
  rowQ : ∀ i, i < d.R.length → (d.Q.getD i []).length = d.m
  feas : ∀ i, i < d.R.length → ∃ b, b < d.m ∧ (d.R.getD i []).getD b .ninf ≠ .ninf

theorem ProdDDP.bellman_length (d : ProdDDP K) (v : List K) (h : d.Q.length = d.R.length) :
    (d.bellman v).1.length = d.R.length := by
  simp [ProdDDP.bellman, ProdDDP.vals, List.unzip_eq_map, h]

/-- on a feasible product-form instance the Bellman operator returns finite values only -/
theorem prod_bellman_finite (d : ProdDDP K) (hf : d.Feasible) (v : List K) :
    ∃ tv : List K, (d.bellman v).1 = tv.map Ext.fin := by
  apply all_fin_eq_map
  intro i hi
  rw [ProdDDP.bellman_length d v hf.lenQ] at hi
  obtain ⟨b, hb, hfb⟩ := hf.feas i hi
  obtain ⟨a, _, hTv, _, hmax, _⟩ := prod_bellman_spec d v i hi hf.lenQ d.m (by omega) (hf.rowR i hi) (hf.rowQ i hi)
  rw [hTv]
  have hj := hmax b hb
  cases hm : d.actVal v i a with
  | fin x => exact ⟨x, rfl⟩
  | ninf =>
    exfalso
    apply hj
    rw [hm]
    unfold ProdDDP.actVal qval
    cases hr : (d.R.getD i []).getD b Ext.ninf with
    | ninf => exact absurd hr hfb
    | fin r => exact trivial

theorem prod_backward_total (d : ProdDDP K) (hf : d.Feasible) (T : Nat) (vTerm : Option (List K)) :
    (backwardInduction (DDP.prod d) T vTerm).isSome = true :=
  backwardInduction_isSome (DDP.prod d) (fun v => prod_bellman_finite d hf v) T vTerm

end

section
variable {K : Type} [LinearOrder K] [Zero K] [One K]

/-- **product-form constructor**: on arrays of consistent shape it accepts iff every row of
    `R` has an entry `> -inf` and `0 ≤ β ≤ 1`; it answers `reward s` (`ValueError`) iff some
    row is entirely `-inf`. -/
theorem mkProd_spec (beta : K) (R : List (List (Ext K))) (Q : List (List (List K)))
    (hshape : (R.all (·.length == (R.headD []).length) ∧ Q.length = R.length ∧
      Q.all (fun qs => qs.length == (R.headD []).length && qs.all (·.length == R.length))) ) :
    (mkProd beta R Q = .ok { n := R.length, m := (R.headD []).length, beta := beta, R := R, Q := Q } ↔
      (∀ i, i < R.length → ∃ r ∈ R.getD i [], r ≠ .ninf) ∧ 0 ≤ beta ∧ beta ≤ 1) ∧
    ((∃ s, mkProd beta R Q = .error (.reward s)) ↔
      ∃ i, i < R.length ∧ ∀ r ∈ R.getD i [], r = .ninf) := by
  obtain ⟨hok, herr⟩ := checkFeasibleProd_spec R
  unfold mkProd
  simp only
  rw [if_neg (by simpa using hshape)]
  cases hc : checkFeasibleProd R with
  | error e =>
    simp only
    obtain ⟨s, hs, rfl, hall, _⟩ := herr e hc
    constructor
    · constructor
      · intro h; cases h
      · rintro ⟨h, _⟩
        obtain ⟨r, hr, hne⟩ := h s hs
        exact absurd (hall r hr) hne
    · exact ⟨fun _ => ⟨s, hs, hall⟩, fun _ => ⟨s, rfl⟩⟩
  | ok u =>
    simp only
    have hfe := hok.mp (by rw [hc])
    constructor
    · unfold checkBeta
      by_cases hb : 0 ≤ beta ∧ beta ≤ 1
      · rw [if_pos hb]; exact ⟨fun _ => ⟨hfe, hb⟩, fun _ => rfl⟩
      · rw [if_neg hb]
        constructor
        · intro h; cases h
        · rintro ⟨_, h⟩; exact absurd h hb
    · constructor
      · rintro ⟨s, h⟩
        unfold checkBeta at h
        by_cases hb : 0 ≤ beta ∧ beta ≤ 1
        · rw [if_pos hb] at h; cases h
        · rw [if_neg hb] at h; cases h
      · rintro ⟨i, hi, hall⟩
        obtain ⟨r, hr, hne⟩ := hfe i hi
        exact absurd (hall r hr) hne

/-- **every product-form instance the constructor accepts is feasible** -/
theorem accepted_prod_feasible (beta : K) (R : List (List (Ext K))) (Q : List (List (List K)))
    (d : ProdDDP K) (h : mkProd beta R Q = .ok d) : d.Feasible := by
  have hd := mkProd_ok_eq beta R Q d h
  unfold mkProd at h
  simp only at h
  split at h
  · cases h
  · rename_i hshape
    simp only [not_not] at hshape
    obtain ⟨h1, h2, h3⟩ := hshape
    cases hc : checkFeasibleProd R with
    | error e => rw [hc] at h; cases h
    | ok u =>
      have hfe := (checkFeasibleProd_spec R).1.mp (by rw [hc])
      subst hd
      have hrow : ∀ i, i < R.length → (R.getD i []).length = (R.headD []).length := by
        intro i hi
        rw [List.all_eq_true] at h1
        have := h1 R[i] (List.getElem_mem hi)
        simp only [beq_iff_eq] at this
        rw [List.getD_eq_getElem?_getD, List.getElem?_eq_getElem hi]; exact this
      refine ⟨h2, hrow, ?_, ?_⟩
      · intro i hi
        have hi : i < R.length := hi
        rw [List.all_eq_true] at h3
        have hiQ : i < Q.length := by omega
        have := h3 Q[i] (List.getElem_mem hiQ)
        simp only [Bool.and_eq_true, beq_iff_eq] at this
        show (Q.getD i []).length = _
        rw [List.getD_eq_getElem?_getD, List.getElem?_eq_getElem hiQ]; exact this.1
      · intro i hi
        have hi : i < R.length := hi
        obtain ⟨r, hr, hne⟩ := hfe i hi
        rw [List.mem_iff_getElem] at hr
        obtain ⟨b, hb, hrb⟩ := hr
        refine ⟨b, by rw [← hrow i hi]; exact hb, ?_⟩
        show (R.getD i []).getD b Ext.ninf ≠ Ext.ninf
        rw [List.getD_eq_getElem?_getD, List.getElem?_eq_getElem hb, hrb]; exact hne

end
end QE.C09
