/-
  Invariants of Lemke's complementary pivoting as modelled in `QEModel.C11`
  (quantecon/optimize/lcp_lemke.py), over a linearly ordered field.

  * `Inv1`  : shape, row-equivalence with the initial system, basis bookkeeping
              (injective, unit columns, no complementary pair basic) — preserved by
              every pivot on a non-zero element whose column satisfies `Enter`.
  * `Feas`  : right-hand side ≥ 0 — preserved by pivots chosen by the minimum
              ratio test with tolerances 0.
-/
import QEModel.C11
import QEProofs.Lemmas.PivotLemmas
import QEProofs.Lemmas.C04Ratio
import Mathlib.Algebra.Order.Field.Basic
import Mathlib.Tactic.Ring
import Mathlib.Tactic.Linarith

namespace QE.C11
open QE QE.Pivot
set_option linter.unusedVariables false
set_option linter.unusedSectionVars false

/-! ### `complement` -/

theorem complement_lt (n v : ℕ) (hv : v < 2 * n) : complement n v < 2 * n := by
  unfold complement; split <;> omega

theorem complement_invol (n v : ℕ) (_hv : v < 2 * n) : complement n (complement n v) = v := by
  unfold complement; split <;> split <;> omega

theorem complement_ne (n v : ℕ) (hn : 0 < n) (hv : v < 2 * n) : complement n v ≠ v := by
  unfold complement; split <;> omega

variable {K : Type} [Field K] [LinearOrder K] [IsStrictOrderedRing K]

/-- bookkeeping invariant of the tableau/basis pair (no feasibility) -/
structure Inv1 (n : ℕ) (T0 T : M K) (basis : ℕ → ℕ) : Prop where
  nr : T.nr = n
  nc : T.nc = 2 * n + 2
  equiv : ∀ x : ℕ → K, RowsSat T x n ↔ RowsSat T0 x n
  le : ∀ i, i < n → basis i ≤ 2 * n
  inj : ∀ i j, i < n → j < n → basis i = basis j → i = j
  unit : ∀ i k, i < n → k < n → T.get k (basis i) = if k = i then 1 else 0
  nopair : ∀ i j, i < n → j < n → basis j < 2 * n → basis i ≠ complement n (basis j)

/-- admissible entering column: not basic, and (unless it is the artificial one) its
    complement is not basic either -/
structure Enter (n : ℕ) (basis : ℕ → ℕ) (c : ℕ) : Prop where
  le : c ≤ 2 * n
  notin : ∀ i, i < n → basis i ≠ c
  cnotin : c < 2 * n → ∀ i, i < n → basis i ≠ complement n c

omit [IsStrictOrderedRing K] in
theorem inv1_pivot {n : ℕ} {T0 T : M K} {basis : ℕ → ℕ} {c r : ℕ} (hn : 0 < n)
    (h : Inv1 n T0 T basis) (he : Enter n basis c) (hr : r < n) (hp : T.get r c ≠ 0) :
    Inv1 n T0 (pivot T c r) (setBasis basis r c) := by
  have hnr := h.nr
  have hnc := h.nc
  refine ⟨by simpa using hnr, by simpa using hnc, ?_, ?_, ?_, ?_, ?_⟩
  · intro x
    rw [pivot_rowsSat T x c r n (by omega) hr (by omega) hp]
    exact h.equiv x
  · intro i hi
    unfold setBasis
    split
    · exact he.le
    · exact h.le i hi
  · intro i j hi hj hij
    unfold setBasis at hij
    by_cases hir : i = r <;> by_cases hjr : j = r
    · omega
    · rw [if_pos hir, if_neg hjr] at hij
      exact absurd hij.symm (he.notin j hj)
    · rw [if_neg hir, if_pos hjr] at hij
      exact absurd hij (he.notin i hi)
    · rw [if_neg hir, if_neg hjr] at hij
      exact h.inj i j hi hj hij
  · intro i k hi hk
    unfold setBasis
    by_cases hir : i = r
    · rw [if_pos hir]
      subst hir
      by_cases hki : k = i
      · subst hki
        rw [if_pos rfl]
        exact pivot_col_r T c k (by omega) (by have := he.le; omega) hp
      · rw [if_neg hki]
        exact pivot_col_i T c i k (by omega) (by have := he.le; omega) hki hp
    · rw [if_neg hir]
      have hz : T.get r (basis i) = 0 := by
        rw [h.unit i r hi hr, if_neg (fun e => hir e.symm)]
      rw [pivot_col_keep T c r k (basis i) (by omega) (by have := h.le i hi; omega) hz]
      exact h.unit i k hi hk
  · intro i j hi hj hlt
    unfold setBasis at hlt ⊢
    by_cases hir : i = r <;> by_cases hjr : j = r
    · rw [if_pos hir, if_pos hjr]
      rw [if_pos hjr] at hlt
      exact (complement_ne n c hn hlt).symm
    · rw [if_pos hir, if_neg hjr]
      rw [if_neg hjr] at hlt
      intro e
      by_cases hc : c < 2 * n
      · have := he.cnotin hc j hj
        rw [e, complement_invol n _ hlt] at this
        exact this rfl
      · have := complement_lt n _ hlt
        omega
    · rw [if_neg hir, if_pos hjr]
      rw [if_pos hjr] at hlt
      exact he.cnotin hlt i hi
    · rw [if_neg hir, if_neg hjr]
      rw [if_neg hjr] at hlt
      exact h.nopair i j hi hj hlt

omit [IsStrictOrderedRing K] in
/-- after a pivot in which a non-artificial variable left, its complement is an
    admissible entering column -/
theorem enter_next {n : ℕ} {T0 T : M K} {basis : ℕ → ℕ} {c r : ℕ}
    (h : Inv1 n T0 T basis) (he : Enter n basis c) (hr : r < n) (hl : basis r ≠ 2 * n) :
    Enter n (setBasis basis r c) (complement n (basis r)) := by
  have hlt : basis r < 2 * n := by have := h.le r hr; omega
  have hcl := complement_lt n _ hlt
  refine ⟨by omega, ?_, ?_⟩
  · intro i hi
    unfold setBasis
    by_cases hir : i = r
    · rw [if_pos hir]
      intro e
      by_cases hc : c < 2 * n
      · have := he.cnotin hc r hr
        rw [e, complement_invol n _ hlt] at this
        exact this rfl
      · have := he.le; omega
    · rw [if_neg hir]
      exact h.nopair i r hi hr hlt
  · intro _ i hi
    rw [complement_invol n _ hlt]
    unfold setBasis
    by_cases hir : i = r
    · rw [if_pos hir]; exact (he.notin r hr).symm
    · rw [if_neg hir]
      intro e
      exact hir (h.inj i r hi hr e)

omit [IsStrictOrderedRing K] in
/-- when the artificial variable leaves it is no longer basic -/
theorem art_left {n : ℕ} {T0 T : M K} {basis : ℕ → ℕ} {c r : ℕ}
    (h : Inv1 n T0 T basis) (hr : r < n) (hl : basis r = 2 * n) (hc : c < 2 * n) :
    ∀ i, i < n → setBasis basis r c i ≠ 2 * n := by
  intro i hi
  unfold setBasis
  by_cases hir : i = r
  · rw [if_pos hir]; omega
  · rw [if_neg hir]
    intro e
    exact hir (h.inj i r hi hr (by rw [e, hl]))

/-! ### feasibility -/

/-- right-hand side (last column, index `2n+1`) non-negative -/
def Feas (n : ℕ) (T : M K) : Prop := ∀ i, i < n → 0 ≤ T.get i (2 * n + 1)

/-- a pivot on a positive element of a row that minimises the ratio `rhs/entry` among
    the rows with positive entry keeps the right-hand side non-negative -/
theorem feas_pivot {n : ℕ} {T : M K} {c r : ℕ} (hnr : T.nr = n) (hnc : T.nc = 2 * n + 2)
    (hf : Feas n T) (hr : r < n) (hpos : 0 < T.get r c)
    (hmin : ∀ k, k < n → 0 < T.get k c →
      T.get r (2 * n + 1) / T.get r c ≤ T.get k (2 * n + 1) / T.get k c) :
    Feas n (pivot T c r) := by
  intro i hi
  by_cases hir : i = r
  · subst hir
    rw [pivot_get_r T c i _ (by omega) (by omega)]
    exact div_nonneg (hf i hi) (le_of_lt hpos)
  · rw [pivot_get_i T c r i _ (by omega) (by omega) hir]
    have h0 : 0 ≤ T.get r (2 * n + 1) / T.get r c := div_nonneg (hf r hr) (le_of_lt hpos)
    rcases le_or_gt (T.get i c) 0 with hm | hm
    · have : T.get r (2 * n + 1) / T.get r c * T.get i c ≤ 0 :=
        mul_nonpos_of_nonneg_of_nonpos h0 hm
      have := hf i hi
      linarith
    · have h1 := hmin i hi hm
      have h2 : T.get r (2 * n + 1) / T.get r c * T.get i c ≤ T.get i (2 * n + 1) := by
        rw [le_div_iff₀ hm] at h1; exact h1
      linarith

/-! ### the main loop -/

theorem lemkeLoop_zero (n : ℕ) (tp td : K) (T : M K) (basis : ℕ → ℕ) (c it : ℕ) :
    lemkeLoop n tp td 0 T basis c it = ⟨T, basis, 1, it⟩ := rfl

theorem lemkeLoop_succ (n : ℕ) (tp td : K) (fuel : ℕ) (T : M K) (basis : ℕ → ℕ) (c it : ℕ) :
    lemkeLoop n tp td (fuel + 1) T basis c it =
      if (lexMinRatio T c 0 tp td).1 = false then ⟨T, basis, 2, it⟩
      else if basis (lexMinRatio T c 0 tp td).2 = 2 * n then
        ⟨pivot T c (lexMinRatio T c 0 tp td).2, setBasis basis (lexMinRatio T c 0 tp td).2 c, 0, it + 1⟩
      else lemkeLoop n tp td fuel (pivot T c (lexMinRatio T c 0 tp td).2)
        (setBasis basis (lexMinRatio T c 0 tp td).2 c)
        (complement n (basis (lexMinRatio T c 0 tp td).2)) (it + 1) := rfl

/-- **bookkeeping invariant along the whole loop**, for any pivot tolerance `≥ 0` and any
    tie tolerance; on status 0 the artificial variable `2n` is not basic any more -/
theorem lemkeLoop_inv1 {n : ℕ} (hn : 0 < n) (T0 : M K) (tp td : K) (htp : 0 ≤ tp) :
    ∀ (fuel : ℕ) (T : M K) (basis : ℕ → ℕ) (c it : ℕ),
      Inv1 n T0 T basis → Enter n basis c → c < 2 * n →
      Inv1 n T0 (lemkeLoop n tp td fuel T basis c it).T (lemkeLoop n tp td fuel T basis c it).basis ∧
      ((lemkeLoop n tp td fuel T basis c it).status = 0 →
        ∀ i, i < n → (lemkeLoop n tp td fuel T basis c it).basis i ≠ 2 * n) := by
  intro fuel
  induction fuel with
  | zero =>
    intro T basis c it h he hc
    rw [lemkeLoop_zero]
    exact ⟨h, fun h1 => by simp at h1⟩
  | succ fuel ih =>
    intro T basis c it h he hc
    rw [lemkeLoop_succ]
    by_cases hf : (lexMinRatio T c 0 tp td).1 = false
    · rw [if_pos hf]
      exact ⟨h, fun h1 => by simp at h1⟩
    · rw [if_neg hf]
      have hf' : (lexMinRatio T c 0 tp td).1 = true := by simpa using hf
      obtain ⟨hr, hpos⟩ := lexMinRatio_found_pos T c 0 tp td hf'
      rw [h.nr] at hr
      have hp : T.get (lexMinRatio T c 0 tp td).2 c ≠ 0 := ne_of_gt (lt_of_le_of_lt htp hpos)
      have h' := inv1_pivot hn h he hr hp
      by_cases hl : basis (lexMinRatio T c 0 tp td).2 = 2 * n
      · rw [if_pos hl]
        exact ⟨h', fun _ => art_left h hr hl hc⟩
      · rw [if_neg hl]
        have hlt : basis (lexMinRatio T c 0 tp td).2 < 2 * n := by
          have := h.le _ hr; omega
        exact ih _ _ _ _ h' (enter_next h he hr hl) (complement_lt n _ hlt)

/-- **feasibility along the whole loop** (tolerances 0): the right-hand side stays `≥ 0` -/
theorem lemkeLoop_feas {n : ℕ} (hn : 0 < n) (T0 : M K) :
    ∀ (fuel : ℕ) (T : M K) (basis : ℕ → ℕ) (c it : ℕ),
      Inv1 n T0 T basis → Enter n basis c → c < 2 * n → Feas n T →
      Feas n (lemkeLoop n (0 : K) 0 fuel T basis c it).T := by
  intro fuel
  induction fuel with
  | zero =>
    intro T basis c it h he hc hfe
    rw [lemkeLoop_zero]; exact hfe
  | succ fuel ih =>
    intro T basis c it h he hc hfe
    rw [lemkeLoop_succ]
    by_cases hf : (lexMinRatio T c 0 (0 : K) 0).1 = false
    · rw [if_pos hf]; exact hfe
    · rw [if_neg hf]
      have hf' : (lexMinRatio T c 0 (0 : K) 0).1 = true := by simpa using hf
      obtain ⟨hr, hpos, hmin⟩ := lexMinRatio_found T c 0 (0 : K) (lexMinRatio T c 0 (0 : K) 0).2
        (by rw [← hf'])
      rw [h.nr] at hr
      have hp : T.get (lexMinRatio T c 0 (0 : K) 0).2 c ≠ 0 := ne_of_gt hpos
      have h' := inv1_pivot hn h he hr hp
      have hnc1 : T.nc - 1 = 2 * n + 1 := by rw [h.nc]; rfl
      have hfe' : Feas n (pivot T c (lexMinRatio T c 0 (0 : K) 0).2) := by
        apply feas_pivot h.nr h.nc hfe hr hpos
        intro k hk hkpos
        have := hmin k (by rw [h.nr]; exact hk) hkpos
        rwa [hnc1] at this
      by_cases hl : basis (lexMinRatio T c 0 (0 : K) 0).2 = 2 * n
      · rw [if_pos hl]; exact hfe'
      · rw [if_neg hl]
        have hlt : basis (lexMinRatio T c 0 (0 : K) 0).2 < 2 * n := by
          have := h.le _ hr; omega
        exact ih _ _ _ _ h' (enter_next h he hr hl) (complement_lt n _ hlt) hfe'

/-! ### the hand-written first ratio test -/

theorem firstStep_eq (q d : ℕ → K) (t : K) (st : ℕ × K) (i : ℕ) :
    firstStep q d t st i = if q i / d i ≤ st.2 + t then (i, q i / d i) else st := rfl

theorem firstFold (q d : ℕ → K) : ∀ (l : List ℕ) (st : ℕ × K) (S : ℕ → Prop),
    st.2 = q st.1 / d st.1 → S st.1 → (∀ k, S k → st.2 ≤ q k / d k) →
    (l.foldl (firstStep q d 0) st).2 = q (l.foldl (firstStep q d 0) st).1 / d (l.foldl (firstStep q d 0) st).1 ∧
    (S (l.foldl (firstStep q d 0) st).1 ∨ (l.foldl (firstStep q d 0) st).1 ∈ l) ∧
    ∀ k, (S k ∨ k ∈ l) → (l.foldl (firstStep q d 0) st).2 ≤ q k / d k := by
  intro l
  induction l with
  | nil =>
    intro st S h1 h2 h3
    refine ⟨h1, Or.inl h2, ?_⟩
    intro k hk
    rcases hk with hk | hk
    · exact h3 k hk
    · simp at hk
  | cons i l ih =>
    intro st S h1 h2 h3
    rw [List.foldl_cons]
    have key : (firstStep q d 0 st i).2 = q (firstStep q d 0 st i).1 / d (firstStep q d 0 st i).1 ∧
        (S (firstStep q d 0 st i).1 ∨ (firstStep q d 0 st i).1 = i) ∧
        ∀ k, (S k ∨ k = i) → (firstStep q d 0 st i).2 ≤ q k / d k := by
      rw [firstStep_eq]
      by_cases hc : q i / d i ≤ st.2 + 0
      · rw [if_pos hc]
        refine ⟨rfl, Or.inr rfl, ?_⟩
        intro k hk
        rw [add_zero] at hc
        rcases hk with hk | hk
        · exact le_trans hc (h3 k hk)
        · rw [hk]
      · rw [if_neg hc]
        refine ⟨h1, Or.inl h2, ?_⟩
        intro k hk
        rw [add_zero] at hc
        rcases hk with hk | hk
        · exact h3 k hk
        · rw [hk]; exact le_of_lt (not_le.mp hc)
    obtain ⟨k1, k2, k3⟩ := key
    obtain ⟨r1, r2, r3⟩ := ih (firstStep q d 0 st i) (fun k => S k ∨ k = i) k1 k2 k3
    refine ⟨r1, ?_, ?_⟩
    · rcases r2 with (r2 | r2) | r2
      · exact Or.inl r2
      · exact Or.inr (by rw [r2]; simp)
      · exact Or.inr (List.mem_cons_of_mem _ r2)
    · intro k hk
      apply r3
      rcases hk with hk | hk
      · exact Or.inl (Or.inl hk)
      · rcases List.mem_cons.mp hk with hk | hk
        · exact Or.inl (Or.inr hk)
        · exact Or.inr hk

/-- **the repaired first ratio test returns an arg-min** of `q_i/d_i` over `i < n`
    (tolerance 0) -/
theorem firstPivotRow_argmin (n : ℕ) (hn : 0 < n) (q d : ℕ → K) :
    firstPivotRow n q d 0 < n ∧
    ∀ k, k < n → q (firstPivotRow n q d 0) / d (firstPivotRow n q d 0) ≤ q k / d k := by
  have h := firstFold q d (List.range' 1 (n - 1)) (0, q 0 / d 0) (fun k => k = 0) rfl rfl
    (by intro k hk; rw [hk])
  obtain ⟨h1, h2, h3⟩ := h
  unfold firstPivotRow
  constructor
  · rcases h2 with h2 | h2
    · rw [h2]; exact hn
    · have := List.mem_range'_1.mp h2; omega
  · intro k hk
    rw [← h1]
    apply h3
    by_cases hk0 : k = 0
    · exact Or.inl hk0
    · exact Or.inr (List.mem_range'_1.mpr (by omega))

/-! ### the initial tableau and the first pivot -/

section init
variable (n : ℕ) (Mm : ℕ → ℕ → K) (q d : ℕ → K)

theorem init_get (i j : ℕ) (hi : i < n) (hj : j < 2 * n + 2) :
    (initTableau n Mm q d).get i j =
      if j < n then (if j = i then 1 else 0)
      else if j < 2 * n then 0 - Mm i (j - n)
      else if j = 2 * n then - d i
      else q i := by
  unfold initTableau
  rw [M.get_tab _ _ _ _ _ hi hj]

theorem init_inv1 (hn : 0 < n) :
    Inv1 n (initTableau n Mm q d) (initTableau n Mm q d) initBasis := by
  refine ⟨rfl, rfl, fun x => Iff.rfl, ?_, ?_, ?_, ?_⟩
  · intro i hi; unfold initBasis; omega
  · intro i j _ _ h; exact h
  · intro i k hi hk
    unfold initBasis
    rw [init_get n Mm q d k i hk (by omega), if_pos hi]
    by_cases hik : i = k
    · rw [if_pos hik, if_pos hik.symm]
    · rw [if_neg hik, if_neg (fun e => hik e.symm)]
  · intro i j hi hj _
    unfold initBasis complement
    rw [if_pos hj]; omega

theorem init_enter : Enter n initBasis (2 * n) := by
  refine ⟨le_refl _, ?_, ?_⟩
  · intro i hi; unfold initBasis; omega
  · intro h; omega

end init

end QE.C11
