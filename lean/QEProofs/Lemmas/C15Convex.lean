/-
  Lemmas for C15, part 3: `rho.dot(Y[:m])` is a convex combination — linear functionals and
  signs of the coordinates pass from the rows of `Y` to the result.
-/
import Mathlib.Algebra.Order.Field.Basic
import Mathlib.Tactic.Linarith
import Mathlib.Tactic.Ring
import QEModel.C15
namespace QE.C15

set_option linter.unusedSectionVars false
variable {K : Type} [Field K] [LinearOrder K] [IsStrictOrderedRing K]

/-- the left-to-right sum the code's accumulations compute -/
def fsum (l : List K) : K := l.foldl (fun acc t => acc + t) 0

theorem foldl_add_init (l : List K) (a : K) : l.foldl (fun acc t => acc + t) a = a + fsum l := by
  unfold fsum
  induction l generalizing a with
  | nil => simp
  | cons x l ih => rw [List.foldl_cons, List.foldl_cons, ih, ih (0 + x)]; ring

theorem fsum_nil : fsum ([] : List K) = 0 := rfl

theorem fsum_cons (x : K) (l : List K) : fsum (x :: l) = x + fsum l := by
  unfold fsum
  rw [List.foldl_cons, foldl_add_init]; unfold fsum; ring

theorem fsum_map_zero {β : Type} (ks : List β) : fsum (ks.map fun _ => (0 : K)) = 0 := by
  induction ks with
  | nil => rfl
  | cons k ks ih => rw [List.map_cons, fsum_cons, ih]; ring

theorem fsum_map_add_mul {β : Type} (ks : List β) (r : K) (f g : β → K) :
    fsum (ks.map fun k => r * f k + g k) = r * fsum (ks.map f) + fsum (ks.map g) := by
  induction ks with
  | nil => simp [fsum_nil]
  | cons k ks ih => simp only [List.map_cons, fsum_cons, ih]; ring

/-- exchange of the two summations in `Σ_k Σ_j rho_j * Y_j[k]` -/
theorem fsum_zipWith_swap (ks : List Nat) :
    ∀ (rho : List K) (Y : List (List K)),
      fsum (ks.map fun k => fsum (List.zipWith (fun r y => r * y.getD k 0) rho Y))
        = fsum (List.zipWith (fun r y => r * fsum (ks.map fun k => y.getD k 0)) rho Y) := by
  intro rho
  induction rho with
  | nil => intro Y; simp [fsum_nil, fsum_map_zero]
  | cons r rs ih =>
    intro Y
    cases Y with
    | nil => simp [fsum_nil, fsum_map_zero]
    | cons y ys =>
      simp only [List.zipWith_cons_cons, fsum_cons]
      rw [fsum_map_add_mul ks r (fun k => y.getD k 0)
        (fun k => fsum (List.zipWith (fun r y => r * y.getD k 0) rs ys)), ih ys]

theorem fsum_zipWith_const (g : List K → K) :
    ∀ (rho : List K) (Y : List (List K)), rho.length ≤ Y.length → (∀ y ∈ Y, g y = 1) →
      fsum (List.zipWith (fun r y => r * g y) rho Y) = fsum rho := by
  intro rho
  induction rho with
  | nil => intro Y _ _; simp [fsum_nil]
  | cons r rs ih =>
    intro Y hl hY
    cases Y with
    | nil => simp at hl
    | cons y ys =>
      simp only [List.zipWith_cons_cons, fsum_cons]
      rw [hY y (by simp), ih ys (by simpa using hl) (fun z hz => hY z (List.mem_cons_of_mem _ hz))]
      ring

theorem fsum_zipWith_nonneg (g : List K → K) :
    ∀ (rho : List K) (Y : List (List K)), (∀ r ∈ rho, 0 ≤ r) → (∀ y ∈ Y, 0 ≤ g y) →
      0 ≤ fsum (List.zipWith (fun r y => r * g y) rho Y) := by
  intro rho
  induction rho with
  | nil => intro Y _ _; simp [fsum_nil]
  | cons r rs ih =>
    intro Y hr hY
    cases Y with
    | nil => simp [fsum_nil]
    | cons y ys =>
      simp only [List.zipWith_cons_cons, fsum_cons]
      have h1 : 0 ≤ r * g y := mul_nonneg (hr r (by simp)) (hY y (by simp))
      have h2 := ih ys (fun z hz => hr z (List.mem_cons_of_mem _ hz))
        (fun z hz => hY z (List.mem_cons_of_mem _ hz))
      linarith

theorem fsum_zipWith_affine (g : List K → K) (a c : K) :
    ∀ (rho : List K) (Y : List (List K)), rho.length ≤ Y.length →
      fsum (List.zipWith (fun r y => r * (a * g y + c)) rho Y)
        = a * fsum (List.zipWith (fun r y => r * g y) rho Y) + c * fsum rho := by
  intro rho
  induction rho with
  | nil => intro Y _; simp [fsum_nil]
  | cons r rs ih =>
    intro Y hl
    cases Y with
    | nil => simp at hl
    | cons y ys =>
      simp only [List.zipWith_cons_cons, fsum_cons]
      rw [ih ys (by simpa using hl)]
      ring

/-- coordinate `k` of `rho.dot(Y)` -/
theorem dotRows_getD (rho : List K) (Y : List (List K)) (k : Nat) :
    (dotRows rho Y).getD k 0 =
      if k < (Y.headD []).length then fsum (List.zipWith (fun r y => r * y.getD k 0) rho Y) else 0 := by
  unfold dotRows
  by_cases h : k < (Y.headD []).length
  · rw [if_pos h, List.getD_eq_getElem?_getD, List.getElem?_map,
      List.getElem?_eq_getElem (by simpa using h)]
    simp [fsum]
  · rw [if_neg h, List.getD_eq_getElem?_getD, List.getElem?_map,
      List.getElem?_eq_none (by simpa using h)]
    simp

end QE.C15
