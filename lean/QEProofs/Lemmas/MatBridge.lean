/-
  Bridge lemmas: the executable matrix algebra of QEModel.MatAlg, read entry-wise,
  is ordinary matrix algebra with `Finset` sums. Used by C06 / C07 / C12.
-/
import QEModel.MatAlg
import Mathlib.Algebra.BigOperators.Group.Finset.Basic
import Mathlib.Algebra.Ring.Defs
import Mathlib.Algebra.BigOperators.Ring.Finset

namespace QE.MatAlg
open QE Finset

section
variable {K : Type} [AddCommMonoid K]

theorem foldl_add_eq_sum (l : List ℕ) (f : ℕ → K) (a : K) :
    l.foldl (fun acc k => acc + f k) a = a + (l.map f).sum := by
  induction l generalizing a with
  | nil => simp
  | cons x xs ih => simp [ih, add_assoc]

theorem sumRange_eq_sum (n : ℕ) (f : ℕ → K) : sumRange n f = ∑ k ∈ range n, f k := by
  unfold sumRange
  rw [foldl_add_eq_sum, zero_add]
  induction n with
  | zero => simp
  | succ n ih => rw [List.range_succ, List.map_append, List.sum_append, ih, sum_range_succ]; simp
end

section
variable {K : Type} [Ring K]

@[simp] theorem mmul_nr (A B : M K) : (mmul A B).nr = A.nr := rfl
@[simp] theorem mmul_nc (A B : M K) : (mmul A B).nc = B.nc := rfl
@[simp] theorem madd_nr (A B : M K) : (madd A B).nr = A.nr := rfl
@[simp] theorem madd_nc (A B : M K) : (madd A B).nc = A.nc := rfl
@[simp] theorem msub_nr (A B : M K) : (msub A B).nr = A.nr := rfl
@[simp] theorem msub_nc (A B : M K) : (msub A B).nc = A.nc := rfl
@[simp] theorem mT_nr (A : M K) : (mT A).nr = A.nc := rfl
@[simp] theorem mT_nc (A : M K) : (mT A).nc = A.nr := rfl
@[simp] theorem smul_nr (c : K) (A : M K) : (smul c A).nr = A.nr := rfl
@[simp] theorem smul_nc (c : K) (A : M K) : (smul c A).nc = A.nc := rfl
@[simp] theorem ident_nr (n : ℕ) : (ident n : M K).nr = n := rfl
@[simp] theorem ident_nc (n : ℕ) : (ident n : M K).nc = n := rfl

theorem mmul_get (A B : M K) (i j : ℕ) (hi : i < A.nr) (hj : j < B.nc) :
    (mmul A B).get i j = ∑ k ∈ range A.nc, A.get i k * B.get k j := by
  unfold mmul; rw [M.get_tab _ _ _ _ _ hi hj, sumRange_eq_sum]

theorem madd_get (A B : M K) (i j : ℕ) (hi : i < A.nr) (hj : j < A.nc) :
    (madd A B).get i j = A.get i j + B.get i j := by
  unfold madd; rw [M.get_tab _ _ _ _ _ hi hj]

theorem msub_get (A B : M K) (i j : ℕ) (hi : i < A.nr) (hj : j < A.nc) :
    (msub A B).get i j = A.get i j - B.get i j := by
  unfold msub; rw [M.get_tab _ _ _ _ _ hi hj]

theorem smul_get (c : K) (A : M K) (i j : ℕ) (hi : i < A.nr) (hj : j < A.nc) :
    (smul c A).get i j = c * A.get i j := by
  unfold smul; rw [M.get_tab _ _ _ _ _ hi hj]

theorem mT_get (A : M K) (i j : ℕ) (hi : i < A.nc) (hj : j < A.nr) :
    (mT A).get i j = A.get j i := by
  unfold mT; rw [M.get_tab _ _ _ _ _ hi hj]

theorem ident_get (n i j : ℕ) (hi : i < n) (hj : j < n) :
    (ident n : M K).get i j = if i = j then 1 else 0 := by
  unfold ident; rw [M.get_tab _ _ _ _ _ hi hj]

end
end QE.MatAlg
