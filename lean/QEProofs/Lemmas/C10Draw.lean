/-
  Lemmas for C10, part 4: `simulate` (value look-up before `simulate_indices`),
  `mc_sample_path`, `DiscreteRV.draw`, `random.draw`.
-/
import Mathlib.Order.Defs.LinearOrder
import QEModel.C10
import QEProofs.Lemmas.C10Search
import QEProofs.Lemmas.C10Cdf
import QEProofs.Lemmas.C10Path
namespace QE.C10
variable {α : Type}

/-! ### `simulate`: `get_index` with `state_values=None` -/

/-- every requested state is an existing state value `0 ≤ i < n` -/
def InitNonneg (n : Nat) : Init → Prop
  | .none => True
  | .scalar i => 0 ≤ i ∧ i < (n : Int)
  | .arr l => ∀ i ∈ l, 0 ≤ i ∧ i < (n : Int)

theorem getIndex_ok (n : Nat) (init : Init) (h : InitNonneg n init) : getIndex n init = .ok init := by
  cases init with
  | none => rfl
  | scalar i =>
    simp only [InitNonneg] at h
    simp [getIndex, h.1, h.2]
  | arr l =>
    simp only [InitNonneg] at h
    have : (l.all fun i => decide (0 ≤ i) && decide (i < (n : Int))) = true := by
      rw [List.all_eq_true]; intro i hi; simp [(h i hi).1, (h i hi).2]
    simp [getIndex, this]

theorem getIndex_error (n : Nat) (init : Init) (h : ¬ InitNonneg n init) :
    getIndex n init = .error .valueError := by
  cases init with
  | none => exact absurd trivial h
  | scalar i =>
    simp only [InitNonneg] at h
    have : (decide (0 ≤ i) && decide (i < (n : Int))) = false := by
      rw [Bool.and_eq_false_iff]
      by_cases h0 : 0 ≤ i
      · right; simp; by_contra hc; exact h ⟨h0, by omega⟩
      · left; simp; omega
    simp [getIndex, this]
  | arr l =>
    simp only [InitNonneg] at h
    have : (l.all fun i => decide (0 ≤ i) && decide (i < (n : Int))) = false := by
      rw [Bool.eq_false_iff]
      intro hall
      rw [List.all_eq_true] at hall
      apply h
      intro i hi
      have := hall i hi
      simpa using this
    simp [getIndex, this]

/-- `simulate` is `simulate_indices` on existing state values and a `ValueError` otherwise
    (in particular negative indices are *not* accepted through `simulate`) -/
theorem simulate_eq (n : Nat) (f : Nat → List α → Option (List Nat)) (init : Init)
    (reps : Option Nat) (drawn : List Nat) (ts : Nat) (us : List (List α)) :
    (InitNonneg n init → simulate n f init reps drawn ts us = simulateIndices n f init reps drawn ts us) ∧
    (¬ InitNonneg n init → simulate n f init reps drawn ts us = .error .valueError) := by
  constructor
  · intro h; unfold simulate; rw [getIndex_ok n init h]
  · intro h; unfold simulate; rw [getIndex_error n init h]

theorem InitNonneg.initOK {n : Nat} {init : Init} {reps : Option Nat} (h : InitNonneg n init)
    (hn : init = .none → ¬ (n = 0 ∧ docK .none reps ≠ 0)) : InitOK n init reps := by
  cases init with
  | none => exact hn rfl
  | scalar i =>
    simp only [InitNonneg] at h
    simp only [InitOK, inRange, Bool.and_eq_true, decide_eq_true_eq]; omega
  | arr l =>
    simp only [InitNonneg] at h
    intro i hi
    have := h i hi
    simp only [inRange, Bool.and_eq_true, decide_eq_true_eq]; omega

/-! ### `random.draw` -/

theorem draw_length [LT α] [DecidableLT α] [BEq α] (cdf us : List α) :
    (draw cdf us).length = us.length := by simp [draw]

/-- every index returned by `random.draw` lies in `range(len cdf)` -/
theorem draw_in_range [LT α] [DecidableLT α] [BEq α] (cdf us : List α) (hne : cdf ≠ []) :
    ∀ x ∈ draw cdf us, 0 ≤ x ∧ x < (cdf.length : Int) := by
  intro x hx
  simp only [draw, List.mem_map] at hx
  obtain ⟨u, _, rfl⟩ := hx
  have hemp : cdf.isEmpty = false := by
    cases cdf with
    | nil => exact absurd rfl hne
    | cons _ _ => rfl
  simp only [searchsortedCdfPy, hemp]
  have := searchsortedCdf_lt cdf u hne
  simp only [Bool.false_eq_true, if_false]
  omega

theorem searchsortedCdfPy_of_ne [LT α] [DecidableLT α] [BEq α] (cdf : List α) (u : α) (hne : cdf ≠ []) :
    searchsortedCdfPy cdf u = (searchsortedCdf cdf u : Nat) := by
  have hemp : cdf.isEmpty = false := by
    cases cdf with
    | nil => exact absurd rfl hne
    | cons _ _ => rfl
  simp [searchsortedCdfPy, hemp]

/-! ### `DiscreteRV.draw` -/

theorem takeWhile_length_le_of_false (p : α → Bool) (l : List α) (k : Nat) (hk : k < l.length)
    (hp : p l[k] = false) : (l.takeWhile p).length ≤ k := by
  by_contra h
  have := (takeWhile_length_spec p l).1 k hk (by omega)
  rw [hp] at this
  exact Bool.noConfusion this

/-- **Range of `DiscreteRV.draw`, every stream**: needs only irreflexivity of `<`. -/
theorem drvDraw_in_range [Add α] [LT α] [DecidableLT α] (hirr : ∀ x : α, ¬ x < x) (q us : List α)
    (hne : q ≠ []) :
    ∃ idx, drvDraw q us = some idx ∧ idx.length = us.length ∧ ∀ j ∈ idx, j < q.length := by
  have hcne : cumsum q ≠ [] := cumsum_ne_nil hne
  have hlen := cumsum_length q
  have hpos : 0 < (cumsum q).length := List.length_pos_iff.mpr hcne
  unfold drvDraw
  simp only []
  rw [List.getLast?_eq_some_getLast hcne]
  refine ⟨_, rfl, by simp, ?_⟩
  intro j hj
  simp only [List.mem_map] at hj
  obtain ⟨u, _, rfl⟩ := hj
  split
  · -- fallback: first index with Q[i] ≥ Q[-1]
    have := takeWhile_length_le_of_false (fun y => decide (y < (cumsum q).getLast hcne)) (cumsum q)
      ((cumsum q).length - 1) (by omega) (by
        rw [← List.getLast_eq_getElem hcne]
        simp [hirr])
    unfold npSearchLeft
    omega
  · rename_i hneq
    have : npSearchRight (cumsum q) u ≤ (cumsum q).length := (List.takeWhile_sublist _).length_le
    omega

/-- **`DiscreteRV.draw`: inverse CDF with positive mass.** -/
theorem drvDraw_valid [LinearOrder α] [Add α] [Zero α] (hadd0 : ∀ x : α, x + 0 = x)
    (hmono : ∀ x p : α, 0 ≤ p → x ≤ x + p) (q us : List α) (hq : ∀ x ∈ q, (0 : α) ≤ x)
    (hne : q ≠ []) (hlast : 0 < (cumsum q).getLast (cumsum_ne_nil hne)) (hus : ∀ u ∈ us, (0 : α) ≤ u) :
    drvDraw q us = some (us.map (searchsortedCdf (cumsum q))) ∧
    ∀ u ∈ us, ∃ h : searchsortedCdf (cumsum q) u < q.length, 0 < q[searchsortedCdf (cumsum q) u] := by
  refine ⟨drvDraw_eq_map_searchsortedCdf q us (cumsum_sorted hmono q hq) hne, ?_⟩
  intro u hu
  exact searchsortedCdf_mass_pos hadd0 q u hq (hus u hu) (fun _ => hlast) hne

/-! ### `mc_sample_path` -/

/-- the initial state of `mc_sample_path` -/
def mcX0 [Add α] [LT α] [DecidableLT α] [BEq α] : McInit α → Int
  | .state i => i
  | .dist d u0 => searchsortedCdfPy (cumsum d) u0

theorem mcSamplePath_eq [Add α] [LT α] [DecidableLT α] [BEq α] (P : List (List α)) (init : McInit α)
    (ts : Nat) (us : List (List α)) :
    mcSamplePath P init ts us =
      simulate P.length (pathDense (cdfsDense P)) (.scalar (mcX0 init)) Option.none [] ts us := by
  cases init <;> rfl

/-- an initial distribution over the `n` states always yields a state — for every `u_0` -/
theorem mcX0_dist_in_range [Add α] [LT α] [DecidableLT α] [BEq α] (d : List α) (u0 : α) (hne : d ≠ []) :
    0 ≤ mcX0 (.dist d u0) ∧ mcX0 (.dist d u0) < (d.length : Int) := by
  have hcne := cumsum_ne_nil hne
  simp only [mcX0, searchsortedCdfPy_of_ne _ _ hcne]
  have := searchsortedCdf_lt (cumsum d) u0 hcne
  rw [cumsum_length] at this
  omega

/-- **`mc_sample_path`, every stream.** `P` square with `n ≥ 1` states, `init` a state in
    `[0, n)` or a distribution of length `n`, `sample_size = ts ≥ 1`, one row of `ts−1` arbitrary
    values: the result is one path of length `ts` that starts at `X_0`, stays in the state space and
    follows the dense kernel step. -/
theorem mcSamplePath_valid [Add α] [LT α] [DecidableLT α] [BEq α] (P : List (List α))
    (hsq : ∀ row ∈ P, row.length = P.length) (init : McInit α)
    (hinit : match init with
      | .state i => 0 ≤ i ∧ i < (P.length : Int)
      | .dist d _ => d.length = P.length ∧ d ≠ [])
    (ts : Nat) (hts : 0 < ts) (u : List α) (hu : u.length + 1 = ts) :
    ∃ p, mcSamplePath P init ts [u] = .ok (some ⟨1, [p]⟩) ∧ p.length = ts ∧
      p[0]? = some (mcX0 init).toNat ∧ (∀ x ∈ p, x < P.length) ∧
      IsPathOf (denseStep (cdfsDense P)) (mcX0 init).toNat u p := by
  have hx0 : 0 ≤ mcX0 init ∧ mcX0 init < (P.length : Int) := by
    cases init with
    | state i => exact hinit
    | dist d u0 =>
      have := mcX0_dist_in_range d u0 hinit.2
      rw [hinit.1] at this; exact this
  have hlenc : (cdfsDense P).length = P.length := by simp [cdfsDense]
  have hnn : InitNonneg P.length (.scalar (mcX0 init)) := hx0
  have hok : InitOK (cdfsDense P).length (.scalar (mcX0 init)) Option.none := by
    rw [hlenc]; exact hnn.initOK (fun h => by cases h)
  rw [mcSamplePath_eq, (simulate_eq _ _ _ _ _ _ _).1 hnn]
  obtain ⟨ps, hps, hk, hall⟩ := simulateIndices_valid (cdfsDense P).length (denseStep (cdfsDense P))
    (fun s u hs => denseStep_lt (cdfsDense P) (cdfsDense_square P hsq) s u hs)
    (.scalar (mcX0 init)) Option.none [] ts [u] hok (fun h => by cases h) hts rfl
    (fun r hr => by simp at hr; rw [hr]; exact hu)
  simp only [docK] at hk hall
  obtain ⟨p, s0, u', hp, hu', hreq, hpath, hplen, hpall⟩ := hall 0 (by omega)
  have hps1 : ps = [p] := by
    cases ps with
    | nil => simp at hk
    | cons a rest =>
      cases rest with
      | nil => simp at hp; rw [hp]
      | cons _ _ => simp at hk
  simp at hu'
  subst hu'
  simp only [requested, Option.some.injEq] at hreq
  have hs0 : s0 = (mcX0 init).toNat := by
    rw [← hreq]; exact norm_of_nonneg _ _ hx0.1 (by rw [hlenc]; exact hx0.2)
  subst hs0
  refine ⟨p, ?_, hplen, hpath.2.1, fun x hx => by have := hpall x hx; omega, hpath⟩
  rw [← hlenc]
  show simulateIndices _ (pathFrom (denseStep (cdfsDense P))) _ _ _ _ _ = _
  rw [hps, hps1]
  rfl

end QE.C10
