/-
  Lemmas for C20, part 6: the linear-scan model `searchRight` *is* `searchsorted(side='right')`
  on sorted input (uniqueness of the insertion point), running sums of non-negative counts are
  sorted, and the C-order flat index stays inside the table.
-/
import Mathlib.Tactic.Ring
import QEProofs.Lemmas.C20Logit
import QEProofs.Lemmas.C20Brd
namespace QE.C20

section order
variable {K : Type} [LinearOrder K] [Zero K]

/-- on a non-decreasing array every entry from the returned index on exceeds `v` -/
theorem searchRight_sorted (a : List K) (v : K) (hs : a.Pairwise (· ≤ ·)) :
    ∀ j, searchRight a v ≤ j → j < a.length → v < a.getD j 0 := by
  induction a with
  | nil => intro j _ hj; simp at hj
  | cons x xs ih =>
    intro j hj hl
    rw [searchRightK_cons] at hj
    obtain ⟨hx, hxs⟩ := List.pairwise_cons.1 hs
    split at hj
    · cases j with
      | zero => omega
      | succ j => simpa using ih hxs j (by omega) (by simpa using hl)
    · rename_i hc
      cases j with
      | zero => simpa using not_le.1 hc
      | succ j =>
        have hj' : j < xs.length := by simpa using hl
        have : xs.getD j 0 ∈ xs := by
          rw [List.getD_eq_getElem?_getD, List.getElem?_eq_getElem hj', Option.getD_some]
          exact List.getElem_mem hj'
        simpa using lt_of_lt_of_le (not_le.1 hc) (hx _ this)

/-- **`searchRight` is NumPy's `searchsorted(a, v, side='right')` on sorted input**: the documented
    post-condition of the insertion point `r` (`a[j] ≤ v` for `j < r`, `v < a[j]` for `j ≥ r`)
    has at most one solution, namely `searchRight a v` (which is a solution when `a` is sorted:
    `searchRight_spec` and `searchRight_sorted`). -/
theorem searchRight_unique (a : List K) (v : K) (r : Nat) (hr : r ≤ a.length)
    (h1 : ∀ j, j < r → a.getD j 0 ≤ v) (h2 : ∀ j, r ≤ j → j < a.length → v < a.getD j 0) :
    r = searchRight a v := by
  have hsp := searchRight_spec a v
  have hle := searchRight_le_length a v
  rcases Nat.lt_trichotomy r (searchRight a v) with h | h | h
  · exact absurd (hsp.1 r h) (not_le.2 (h2 r (le_refl _) (by omega)))
  · exact h
  · exact absurd (h1 _ h) (not_le.2 (hsp.2 (by omega)))

end order

/-- running sums of non-negative counts are non-decreasing (so `searchsorted` is applicable) -/
theorem cumsumFrom_sorted (d : List Int) :
    ∀ acc : Int, (∀ j, j < d.length → 0 ≤ d.getD j 0) →
      (cumsumFrom acc d).Pairwise (· ≤ ·) ∧ ∀ x ∈ cumsumFrom acc d, acc ≤ x := by
  induction d with
  | nil => intro acc _; simp [cumsumFrom]
  | cons x xs ih =>
    intro acc hnn
    have hx := hnn 0 (by simp)
    simp only [List.getD_cons_zero] at hx
    obtain ⟨h1, h2⟩ := ih (acc + x) (fun j hj => by simpa using hnn (j + 1) (by simpa using hj))
    simp only [cumsumFrom]
    refine ⟨List.pairwise_cons.2 ⟨h2, h1⟩, ?_⟩
    intro y hy
    rcases List.mem_cons.1 hy with rfl | hy
    · omega
    · have := h2 y hy; omega

theorem cumsumFrom_length (d : List Int) : ∀ acc, (cumsumFrom acc d).length = d.length := by
  induction d with
  | nil => intro acc; rfl
  | cons x xs ih => intro acc; simp [cumsumFrom, ih]

/-! ### flat index -/

theorem flatIdx_foldl_lt : ∀ (l : List (Nat × Nat)) (acc : Nat), (∀ p ∈ l, p.2 < p.1) →
    l.foldl (fun acc mo => acc * mo.1 + mo.2) acc < (acc + 1) * (l.map Prod.fst).prod := by
  intro l
  induction l with
  | nil => intro acc _; simp
  | cons p rest ih =>
    intro acc h
    have hp := h p (by simp)
    have := ih (acc * p.1 + p.2) (fun q hq => h q (List.mem_cons_of_mem _ hq))
    simp only [List.foldl_cons, List.map_cons, List.prod_cons]
    calc _ < (acc * p.1 + p.2 + 1) * (rest.map Prod.fst).prod := this
      _ ≤ ((acc + 1) * p.1) * (rest.map Prod.fst).prod := by
          apply Nat.mul_le_mul_right
          have : (acc + 1) * p.1 = acc * p.1 + p.1 := by ring
          omega
      _ = (acc + 1) * (p.1 * (rest.map Prod.fst).prod) := by ring

/-- every multi-index inside the shape has its C-order flat index inside the table -/
theorem flatIdx_lt (dims os : List Nat) (hlen : dims.length = os.length)
    (h : ∀ p ∈ List.zip dims os, p.2 < p.1) : flatIdx dims os < dims.prod := by
  have := flatIdx_foldl_lt (List.zip dims os) 0 h
  rw [List.map_fst_zip (by omega)] at this
  simpa [flatIdx] using this

end QE.C20
