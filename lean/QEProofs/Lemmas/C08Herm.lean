/-
  Lemmas for C08, part 10: the orthonormal Hermite recurrence of `_qnwnorm1` as a function of `n`,
  and the derivative formula `hₙ' = √(2n) hₙ₋₁` behind `pp = sqrt(2n)·p2`.
  The square roots are the parameter `sq j = (√(2/j), √((j−1)/j))`, constrained by their squares.
-/
import QEProofs.Lemmas.C08Deriv
import Mathlib.Algebra.Order.Ring.Abs
namespace QE.C08
open Polynomial

set_option linter.unusedSectionVars false

variable {K : Type} [Field K] [LinearOrder K] [IsStrictOrderedRing K]

/-- orthonormal Hermite values by the recurrence of the code:
    `h_{j} = z·√(2/j)·h_{j−1} − √((j−1)/j)·h_{j−2}`, `h_0 = c` (`c = π^{-1/4}`) -/
def hermP (sq : Nat → K × K) (c z : K) : Nat → K
  | 0 => c
  | 1 => z * (sq 1).1 * c
  | n + 2 => z * (sq (n + 2)).1 * hermP sq c z (n + 1) - (sq (n + 2)).2 * hermP sq c z n

theorem hermLoop_spec (sq : Nat → K × K) (c z : K) : ∀ (rem k : Nat),
    hermLoop sq z rem (k + 1 + 1) (hermP sq c z (k + 1)) (hermP sq c z k)
      = (hermP sq c z (k + 1 + rem), hermP sq c z (k + rem)) := by
  intro rem
  induction rem with
  | zero => intro k; simp [hermLoop]
  | succ rem ih =>
    intro k
    rw [hermLoop]
    have e : z * (sq (k + 1 + 1)).1 * hermP sq c z (k + 1) - (sq (k + 1 + 1)).2 * hermP sq c z k
        = hermP sq c z (k + 2) := by
      rw [hermP]
    rw [e, ih (k + 1)]
    congr 2 <;> omega

/-- after the `for j in range(1, n+1)` loop of `_qnwnorm1`: `(p1, p2) = (h_n, h_{n−1})` -/
theorem hermLoop_succ (sq : Nat → K × K) (c z : K) (n : Nat) :
    hermLoop sq z (n + 1) 1 c 0 = (hermP sq c z (n + 1), hermP sq c z n) := by
  rw [hermLoop]
  have e : z * (sq 1).1 * c - (sq 1).2 * 0 = hermP sq c z 1 := by simp [hermP]
  rw [e]
  have := hermLoop_spec sq c z n 0
  simp only [Nat.zero_add] at this
  have h0 : hermP sq c z 0 = c := rfl
  rw [h0] at this
  rw [this]
  congr 2; omega

/-- the same functions as polynomials -/
noncomputable def hermPoly (sq : Nat → K × K) (c : K) : Nat → K[X]
  | 0 => C c
  | 1 => X * C (sq 1).1 * C c
  | n + 2 => X * C (sq (n + 2)).1 * hermPoly sq c (n + 1) - C (sq (n + 2)).2 * hermPoly sq c n

theorem hermPoly_eval (sq : Nat → K × K) (c z : K) : ∀ n, (hermPoly sq c n).eval z = hermP sq c z n := by
  intro n
  induction n using Nat.strongRecOn with
  | _ n ih =>
    match n with
    | 0 => simp [hermPoly, hermP]
    | 1 => simp [hermPoly, hermP]; left; ring
    | n + 2 =>
      rw [hermPoly, hermP]
      simp only [eval_mul, eval_C, eval_sub, eval_X, ih (n + 1) (by omega), ih n (by omega)]

/-- what the parameter `sq` has to satisfy to be the square roots the code takes -/
structure IsSqrtTable (sq : Nat → K × K) : Prop where
  pos1 : ∀ j, 1 ≤ j → 0 < (sq j).1
  sq1 : ∀ j, 1 ≤ j → (sq j).1 * (sq j).1 = 2 / (j : K)
  nonneg2 : ∀ j, 1 ≤ j → 0 ≤ (sq j).2
  sq2 : ∀ j, 1 ≤ j → (sq j).2 * (sq j).2 = ((j : K) - 1) / (j : K)

/-- `√((j−1)/j) · √(2/(j−1)) = √(2/j)` for `j ≥ 2` -/
theorem sqrtTable_rel (sq : Nat → K × K) (h : IsSqrtTable sq) (j : Nat) (hj : 2 ≤ j) :
    (sq j).2 * (sq (j - 1)).1 = (sq j).1 := by
  have hj0 : (j : K) ≠ 0 := by
    have : j ≠ 0 := by omega
    exact_mod_cast this
  have hj1 : ((j - 1 : Nat) : K) ≠ 0 := by
    have : j - 1 ≠ 0 := by omega
    exact_mod_cast this
  have hc : ((j - 1 : Nat) : K) = (j : K) - 1 := by
    rw [Nat.cast_sub (by omega)]; simp
  have h1 := h.sq1 (j - 1) (by omega)
  have h2 := h.sq2 j (by omega)
  have h3 := h.sq1 j (by omega)
  have hp1 := (h.pos1 (j - 1) (by omega)).le
  have hp2 := h.nonneg2 j (by omega)
  have hp3 := (h.pos1 j (by omega)).le
  have hsq : ((sq j).2 * (sq (j - 1)).1) ^ 2 = ((sq j).1) ^ 2 := by
    have : ((sq j).2 * (sq (j - 1)).1) ^ 2 = ((sq j).2 * (sq j).2) * ((sq (j - 1)).1 * (sq (j - 1)).1) := by ring
    rw [this, h2, h1, pow_two, h3, hc]
    rw [← hc]
    field_simp
  exact (sq_eq_sq₀ (mul_nonneg hp2 hp1) hp3).mp hsq

/-- scalar identity behind the induction step: `(n+2)·c₃·t₂ = t₃·(n+1)·c₁` -/
theorem sqrtTable_step (sq : Nat → K × K) (h : IsSqrtTable sq) (n : Nat) :
    ((n + 2 : Nat) : K) * (sq (n + 3)).1 * (sq (n + 2)).2
      = (sq (n + 3)).2 * ((n + 1 : Nat) : K) * (sq (n + 1)).1 := by
  have r3 := sqrtTable_rel sq h (n + 3) (by omega)
  have r2 := sqrtTable_rel sq h (n + 2) (by omega)
  simp only [show n + 3 - 1 = n + 2 by omega, show n + 2 - 1 = n + 1 by omega] at r3 r2
  have q1 := h.sq1 (n + 1) (by omega)
  have q2 := h.sq1 (n + 2) (by omega)
  have hn1 : ((n + 1 : Nat) : K) ≠ 0 := by
    have : n + 1 ≠ 0 := by omega
    exact_mod_cast this
  have hn2 : ((n + 2 : Nat) : K) ≠ 0 := by
    have : n + 2 ≠ 0 := by omega
    exact_mod_cast this
  have q1' : ((n + 1 : Nat) : K) * ((sq (n + 1)).1 * (sq (n + 1)).1) = 2 := by
    rw [q1]; field_simp
  have q2' : ((n + 2 : Nat) : K) * ((sq (n + 2)).1 * (sq (n + 2)).1) = 2 := by
    rw [q2]; field_simp
  have hc : (sq (n + 1)).1 * (sq (n + 2)).1 ≠ 0 :=
    mul_ne_zero (h.pos1 (n + 1) (by omega)).ne' (h.pos1 (n + 2) (by omega)).ne'
  apply mul_right_cancel₀ hc
  linear_combination (((n + 2 : Nat) : K) * (sq (n + 3)).1 * (sq (n + 2)).1) * r2 + (sq (n + 3)).1 * q2'
    - (((n + 1 : Nat) : K) * (sq (n + 1)).1 * (sq (n + 1)).1) * r3 - (sq (n + 3)).1 * q1'

/-- **`hₙ' = √(2n)·hₙ₋₁`** in the form `h_{n+1}' = (n+1)·√(2/(n+1))·h_n` (note
    `((n+1)·√(2/(n+1)))² = 2(n+1)`), for every `n`. -/
theorem hermPoly_derivative (sq : Nat → K × K) (h : IsSqrtTable sq) (c : K) : ∀ n : Nat,
    derivative (hermPoly sq c (n + 1))
      = ((n + 1 : Nat) : K[X]) * C (sq (n + 1)).1 * hermPoly sq c n := by
  intro n
  induction n using Nat.strongRecOn with
  | _ n ih =>
    match n with
    | 0 =>
      simp [hermPoly, derivative_mul]
    | 1 =>
      have i0 := ih 0 (by omega)
      have hP2 : hermPoly sq c 2 = X * C (sq 2).1 * hermPoly sq c 1 - C (sq 2).2 * hermPoly sq c 0 := by
        rfl
      have hP1 : hermPoly sq c 1 = X * C (sq 1).1 * hermPoly sq c 0 := by
        simp [hermPoly]
      have hd0 : derivative (hermPoly sq c 0) = 0 := by simp [hermPoly]
      rw [hP2]
      simp only [derivative_sub, derivative_mul, derivative_X, derivative_C, zero_mul, mul_zero, add_zero,
        one_mul, hd0, sub_zero]
      rw [i0]
      push_cast
      linear_combination (-(C (sq 2).1)) * hP1
    | n + 2 =>
      have i2 := ih (n + 1) (by omega)
      have i1 := ih n (by omega)
      have hP3 : hermPoly sq c (n + 3)
          = X * C (sq (n + 3)).1 * hermPoly sq c (n + 2) - C (sq (n + 3)).2 * hermPoly sq c (n + 1) := by
        rw [hermPoly]
      have hP2 : hermPoly sq c (n + 2)
          = X * C (sq (n + 2)).1 * hermPoly sq c (n + 1) - C (sq (n + 2)).2 * hermPoly sq c n := by
        rw [hermPoly]
      have S := congrArg C (sqrtTable_step sq h n)
      simp only [C_mul, C_eq_natCast] at S
      have e3 : n + 2 + 1 = n + 3 := by omega
      rw [e3] at *
      rw [hP3]
      simp only [derivative_sub, derivative_mul, derivative_X, derivative_C, zero_mul, mul_zero, add_zero,
        one_mul, zero_add]
      have e2 : n + 1 + 1 = n + 2 := by omega
      rw [e2] at i2
      rw [i2, i1]
      push_cast at S ⊢
      linear_combination (C (sq (n + 3)).1 - ((n : K[X]) + 3) * C (sq (n + 3)).1) * hP2
        + hermPoly sq c n * S

end QE.C08
