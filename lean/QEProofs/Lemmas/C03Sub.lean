/-
  Lemmas for C03, part 6: `DiGraph.subgraph(nodes)` — walks of the sub-graph are the
  walks of the graph that stay inside `nodes`.
-/
import Mathlib.Data.List.Basic
import Mathlib.Data.List.Nodup
import QEProofs.Lemmas.C03Period
namespace QE.C03

/-- a walk all of whose nodes lie in `C` -/
inductive WalkIn (g : G) (C : List Nat) : Nat → Nat → Nat → Prop
  | nil (u : Nat) : u ∈ C → WalkIn g C u u 0
  | cons {u v w len : Nat} : u ∈ C → g.E u v → WalkIn g C v w len → WalkIn g C u w (len + 1)

theorem WalkIn.end_mem {g : G} {C : List Nat} {u w L : Nat} (h : WalkIn g C u w L) : w ∈ C := by
  induction h with
  | nil u hu => exact hu
  | cons _ _ _ ih => exact ih

theorem WalkIn.start_mem {g : G} {C : List Nat} {u w L : Nat} (h : WalkIn g C u w L) : u ∈ C := by
  cases h with
  | nil _ hu => exact hu
  | cons hu _ _ => exact hu

theorem WalkIn.toWalk {g : G} {C : List Nat} {u w L : Nat} (h : WalkIn g C u w L) : Walk g u w L := by
  induction h with
  | nil u _ => exact Walk.nil u
  | cons _ e _ ih => exact Walk.cons e ih

/-- in a class that no edge leaves, every walk starting inside stays inside -/
theorem Walk.toWalkIn {g : G} {C : List Nat} (hcl : ∀ u, u ∈ C → ∀ v, g.E u v → v ∈ C)
    {u w L : Nat} (h : Walk g u w L) (hu : u ∈ C) : WalkIn g C u w L := by
  induction h with
  | nil u => exact WalkIn.nil u hu
  | cons e _ ih => exact WalkIn.cons hu e (ih (hcl _ hu _ e))

theorem subgraph_out (g : G) (C : List Nat) (i : Nat) (hi : i < C.length) :
    (subgraph g C).out i = (g.out C[i]).filterMap fun v =>
      if C.contains v then some (C.idxOf v) else none := by
  unfold subgraph G.out
  simp only
  rw [List.getD_eq_getElem?_getD, List.getElem?_map, List.getElem?_eq_getElem hi]
  rfl

theorem subgraph_out_ge (g : G) (C : List Nat) (i : Nat) (hi : C.length ≤ i) :
    (subgraph g C).out i = [] := by
  unfold subgraph G.out
  simp only
  rw [List.getD_eq_getElem?_getD, List.getElem?_eq_none (by simpa using hi)]
  rfl

theorem subgraph_E (g : G) (C : List Nat) (i j : Nat) :
    (subgraph g C).E i j ↔ ∃ hi : i < C.length, ∃ v, g.E C[i] v ∧ v ∈ C ∧ C.idxOf v = j := by
  unfold G.E
  constructor
  · intro h
    by_cases hi : i < C.length
    · rw [subgraph_out g C i hi, List.mem_filterMap] at h
      obtain ⟨v, hv, hif⟩ := h
      split at hif
      · rename_i hc
        refine ⟨hi, v, hv, by simpa using hc, by simpa using hif⟩
      · cases hif
    · rw [subgraph_out_ge g C i (by omega)] at h; simp at h
  · rintro ⟨hi, v, hv, hvC, hidx⟩
    rw [subgraph_out g C i hi, List.mem_filterMap]
    refine ⟨v, hv, ?_⟩
    simp [hvC, hidx]

theorem subgraph_wf (g : G) (C : List Nat) : (subgraph g C).wf = true := by
  unfold G.wf
  simp only [Bool.and_eq_true, beq_iff_eq, List.all_eq_true, decide_eq_true_eq]
  refine ⟨by simp [subgraph], ?_⟩
  intro r hr v hv
  simp only [subgraph, List.mem_map] at hr
  obtain ⟨u, _, rfl⟩ := hr
  rw [List.mem_filterMap] at hv
  obtain ⟨w, _, hif⟩ := hv
  split at hif
  · rename_i hc
    have hw : w ∈ C := by simpa using hc
    have : C.idxOf w = v := by simpa using hif
    rw [← this]
    simpa [subgraph] using List.idxOf_lt_length_of_mem hw
  · cases hif

/-- walks of the sub-graph are walks of the graph inside `C` (positions ↦ nodes) -/
theorem sub_walk_to (g : G) (C : List Nat) {i j L : Nat} (h : Walk (subgraph g C) i j L)
    (hi : i < C.length) : j < C.length ∧ WalkIn g C (C.getD i 0) (C.getD j 0) L := by
  induction h with
  | nil i =>
    refine ⟨hi, WalkIn.nil _ ?_⟩
    rw [List.getD_eq_getElem?_getD, List.getElem?_eq_getElem hi]
    exact List.getElem_mem hi
  | @cons i k j L e _ ih =>
    obtain ⟨hi', v, hv, hvC, hidx⟩ := (subgraph_E g C i k).1 e
    have hk : k < C.length := by rw [← hidx]; exact List.idxOf_lt_length_of_mem hvC
    obtain ⟨hj, hw⟩ := ih hk
    refine ⟨hj, ?_⟩
    have hgi : C.getD i 0 = C[i] := by
      rw [List.getD_eq_getElem?_getD, List.getElem?_eq_getElem hi]; rfl
    have hgk : C.getD k 0 = v := by
      rw [List.getD_eq_getElem?_getD, List.getElem?_eq_getElem hk]
      simp only [Option.getD_some]
      subst hidx
      exact List.getElem_idxOf hk
    rw [hgi]
    refine WalkIn.cons (List.getElem_mem hi) (v := v) hv ?_
    rw [← hgk]; exact hw

/-- walks of the graph inside `C` are walks of the sub-graph (nodes ↦ positions) -/
theorem sub_walk_from (g : G) (C : List Nat) {u w L : Nat} (h : WalkIn g C u w L) :
    Walk (subgraph g C) (C.idxOf u) (C.idxOf w) L := by
  induction h with
  | nil u _ => exact Walk.nil _
  | @cons u v w L hu e hrest ih =>
    refine Walk.cons ?_ ih
    rw [subgraph_E]
    have hi : C.idxOf u < C.length := List.idxOf_lt_length_of_mem hu
    refine ⟨hi, v, ?_, hrest.start_mem, rfl⟩
    rw [List.getElem_idxOf hi]; exact e

end QE.C03
