/-
  Lemmas for C09, part 7: the re-sorting permutation and the blocks of the arranged arrays;
  the constructor accepts iff every state has a pair with a finite reward.
-/
import Mathlib.Data.List.Perm.Basic
import QEProofs.Lemmas.C09Ctor
namespace QE.C09
set_option linter.unusedSectionVars false

/-- in a sorted list the elements `< t` are exactly the first `countP (· < t)` positions -/
theorem sorted_lt_iff : ∀ (S : List Nat), List.Pairwise (· ≤ ·) S → ∀ (j : Nat) (hj : j < S.length) (t : Nat),
    (S[j] < t ↔ j < S.countP (· < t)) := by
  intro S
  induction S with
  | nil => intro _ j hj; simp at hj
  | cons x xs ih =>
    intro hp j hj t
    rw [List.pairwise_cons] at hp
    rw [List.countP_cons]
    by_cases hx : x < t
    · simp only [hx, decide_true, if_true]
      cases j with
      | zero => simp [hx]
      | succ j =>
        simp only [List.getElem_cons_succ]
        rw [ih hp.2 j (by simpa using hj) t]
        omega
    · have hz : xs.countP (· < t) = 0 := by
        rw [List.countP_eq_zero]
        intro y hy
        have := hp.1 y hy
        simp; omega
      simp only [hx, decide_false, hz]
      cases j with
      | zero => simp [hx]
      | succ j =>
        simp only [List.getElem_cons_succ]
        have hj' : j < xs.length := by simpa using hj
        have : x ≤ xs[j] := hp.1 _ (List.getElem_mem hj')
        simp
        omega

/-- … hence state `i` owns exactly the positions `[countP (<i), countP (<i+1))` -/
theorem sorted_block (S : List Nat) (hp : List.Pairwise (· ≤ ·) S) (j : Nat) (hj : j < S.length) (i : Nat) :
    (S.countP (· < i) ≤ j ∧ j < S.countP (· < i + 1)) ↔ S[j] = i := by
  have h1 := sorted_lt_iff S hp j hj i
  have h2 := sorted_lt_iff S hp j hj (i + 1)
  omega

theorem countP_le_length' (S : List Nat) (t : Nat) : S.countP (· < t) ≤ S.length :=
  List.countP_le_length

/-! ### the re-sorting permutation -/

theorem saLe_trans (a b c : Nat × Nat × Nat) : saLe a b = true → saLe b c = true → saLe a c = true := by
  unfold saLe
  simp only [Bool.or_eq_true, decide_eq_true_eq, Bool.and_eq_true, beq_iff_eq]
  omega

theorem saLe_total (a b : Nat × Nat × Nat) : (saLe a b || saLe b a) = true := by
  unfold saLe
  simp only [Bool.or_eq_true, decide_eq_true_eq, Bool.and_eq_true, beq_iff_eq]
  omega

/-- the triples `(s, a, original index)` -/
def triples (S A : List Nat) : List (Nat × Nat × Nat) := List.zip S (List.zip A (List.range S.length))

theorem triples_length (S A : List Nat) (h : A.length = S.length) : (triples S A).length = S.length := by
  simp [triples, h]

theorem triples_getElem (S A : List Nat) (h : A.length = S.length) (k : Nat) (hk : k < S.length) :
    (triples S A)[k]'(by rw [triples_length S A h]; exact hk) = (S[k], A[k]'(by omega), k) := by
  simp [triples, List.getElem_zip]

theorem mem_triples (S A : List Nat) (h : A.length = S.length) (t : Nat × Nat × Nat)
    (ht : t ∈ triples S A) : t.2.2 < S.length ∧ S[t.2.2]? = some t.1 := by
  rw [List.mem_iff_getElem] at ht
  obtain ⟨k, hk, rfl⟩ := ht
  rw [triples_length S A h] at hk
  rw [triples_getElem S A h k hk]
  simp [hk]

theorem resortPairs_eq (S A : List Nat) :
    resortPairs S A = ((triples S A).mergeSort saLe).map fun t => t.2.2 := rfl

theorem sorted_triples_fst (S A : List Nat) :
    List.Pairwise (· ≤ ·) (((triples S A).mergeSort saLe).map fun t => t.1) := by
  apply List.Pairwise.map _ _ (List.pairwise_mergeSort saLe_trans saLe_total _)
  intro a b hab
  unfold saLe at hab
  simp only [Bool.or_eq_true, decide_eq_true_eq, Bool.and_eq_true, beq_iff_eq] at hab
  omega

theorem perm_triples_fst (S A : List Nat) (h : A.length = S.length) :
    (((triples S A).mergeSort saLe).map fun t => t.1).Perm S := by
  have h1 : (((triples S A).mergeSort saLe).map fun t => t.1).Perm ((triples S A).map fun t => t.1) :=
    (List.mergeSort_perm _ _).map _
  have h2 : (triples S A).map (fun t => t.1) = S := by
    unfold triples
    rw [List.map_fst_zip]
    simp [h]
  rw [h2] at h1
  exact h1

section
variable {K : Type} [LinearOrder K]

/-- **Both branches of the constructor put the pairs of state `i` into the block
    `[#{s < i}, #{s < i+1})`**: the block of `i` contains a finite reward iff some given pair
    `(s_k = i)` has a finite reward. -/
theorem arrangeSa_block (n : Nat) (beta : K) (R : List (Ext K)) (Q : List (List K)) (S A : List Nat)
    (hA : A.length = S.length) (i : Nat) :
    (∃ j, S.countP (· < i) ≤ j ∧ j < S.countP (· < i + 1) ∧
        (arrangeSa n beta R Q S A).R.getD j .ninf ≠ .ninf) ↔
    (∃ k, k < S.length ∧ S[k]? = some i ∧ R.getD k .ninf ≠ .ninf) := by
  unfold arrangeSa
  by_cases hs : hasSortedSa S A = true
  · rw [if_pos hs]
    simp only
    have hp := hasSortedSa_pairwise S A hA.symm hs
    constructor
    · rintro ⟨j, h1, h2, h3⟩
      have hj : j < S.length := lt_of_lt_of_le h2 (countP_le_length' S _)
      refine ⟨j, hj, ?_, h3⟩
      rw [List.getElem?_eq_getElem hj, (sorted_block S hp j hj i).mp ⟨h1, h2⟩]
    · rintro ⟨k, hk, h2, h3⟩
      rw [List.getElem?_eq_getElem hk] at h2
      have := (sorted_block S hp k hk i).mpr (by simpa using h2)
      exact ⟨k, this.1, this.2, h3⟩
  · rw [if_neg hs]
    simp only
    set T' := (triples S A).mergeSort saLe with hT'
    have hperm : T'.Perm (triples S A) := List.mergeSort_perm _ _
    have hlen : T'.length = S.length := by rw [hperm.length_eq, triples_length S A hA]
    set S' := T'.map (fun t => t.1) with hS'
    have hS'len : S'.length = S.length := by simp [hS', hlen]
    have hp : List.Pairwise (· ≤ ·) S' := sorted_triples_fst S A
    have hcount : ∀ t, S'.countP (· < t) = S.countP (· < t) :=
      fun t => (perm_triples_fst S A hA).countP_eq _
    have hRget : ∀ j (hj : j < T'.length),
        (gather R (resortPairs S A) Ext.ninf).getD j .ninf = R.getD (T'[j].2.2) .ninf := by
      intro j hj
      simp [gather, resortPairs_eq, ← hT', List.getD_eq_getElem?_getD, List.getElem?_map,
        List.getElem?_eq_getElem hj]
    constructor
    · rintro ⟨j, h1, h2, h3⟩
      have hj : j < S.length := lt_of_lt_of_le h2 (countP_le_length' S _)
      have hjT : j < T'.length := by omega
      have hmem : T'[j] ∈ triples S A := hperm.mem_iff.mp (List.getElem_mem _)
      obtain ⟨hk, hSk⟩ := mem_triples S A hA _ hmem
      refine ⟨T'[j].2.2, hk, ?_, ?_⟩
      · rw [hSk]
        have := (sorted_block S' hp j (by omega) i).mp (by rw [hcount, hcount]; exact ⟨h1, h2⟩)
        simp only [hS', List.getElem_map] at this
        rw [this]
      · rw [← hRget j hjT]; exact h3
    · rintro ⟨k, hk, h2, h3⟩
      have hkT : k < (triples S A).length := by rw [triples_length S A hA]; exact hk
      have hmem : (triples S A)[k] ∈ T' := hperm.mem_iff.mpr (List.getElem_mem _)
      rw [List.mem_iff_getElem] at hmem
      obtain ⟨j, hj, hjk⟩ := hmem
      rw [triples_getElem S A hA k hk] at hjk
      have hS'j : S'[j]'(by omega) = i := by
        simp only [hS', List.getElem_map, hjk]
        rw [List.getElem?_eq_getElem hk] at h2
        simpa using h2
      have := (sorted_block S' hp j (by omega) i).mpr hS'j
      rw [hcount, hcount] at this
      refine ⟨j, this.1, this.2, ?_⟩
      rw [hRget j hj, hjk]
      exact h3

end

section
variable {K : Type} [LinearOrder K] [Zero K] [One K]

/-- the constructor in terms of the feasibility check on the arranged arrays -/
theorem mkSa_unfold (n : Nat) (beta : K) (R : List (Ext K)) (Q : List (List K)) (S A : List Nat)
    (hR : R.length = Q.length) (hSl : S.length = Q.length) (hAl : A.length = Q.length)
    (hS : ∀ s ∈ S, s < n) :
    mkSa n beta R Q S A =
      match checkFeasibleSa n (arrangeSa n beta R Q S A).R (arrangeSa n beta R Q S A).aInd
          (arrangeSa n beta R Q S A).aIndptr with
      | .error e => .error e
      | .ok _ => if 0 ≤ beta ∧ beta ≤ 1 then .ok (arrangeSa n beta R Q S A) else .error .beta := by
  unfold mkSa
  simp only
  rw [if_neg (by simpa using hR), if_neg (by simp [hSl, hAl])]
  have hcoo : ¬ (¬ hasSortedSa S A = true ∧ (S.any fun s => decide (n ≤ s)) = true) := by
    rintro ⟨_, h⟩
    rw [List.any_eq_true] at h
    obtain ⟨s, hs, hd⟩ := h
    have := hS s hs
    simp at hd; omega
  rw [if_neg hcoo]
  cases checkFeasibleSa n (arrangeSa n beta R Q S A).R (arrangeSa n beta R Q S A).aInd
      (arrangeSa n beta R Q S A).aIndptr with
  | error e => rfl
  | ok u =>
    simp only [checkBeta]
    by_cases hb : 0 ≤ beta ∧ beta ≤ 1
    · rw [if_pos hb, if_pos hb]
    · rw [if_neg hb, if_neg hb]

/-- feasibility check on the arranged arrays, in terms of the arrays as given -/
theorem arranged_check (n : Nat) (beta : K) (R : List (Ext K)) (Q : List (List K)) (S A : List Nat)
    (hSl : S.length = Q.length) (hAl : A.length = Q.length) (hS : ∀ s ∈ S, s < n) :
    (checkFeasibleSa n (arrangeSa n beta R Q S A).R (arrangeSa n beta R Q S A).aInd
        (arrangeSa n beta R Q S A).aIndptr = .ok () ↔
      ∀ i, i < n → ∃ k, k < S.length ∧ S[k]? = some i ∧ R.getD k .ninf ≠ .ninf) ∧
    (∀ e, checkFeasibleSa n (arrangeSa n beta R Q S A).R (arrangeSa n beta R Q S A).aInd
        (arrangeSa n beta R Q S A).aIndptr = .error e →
      ∃ s, s < n ∧ (e = .reward s ∨ e = .action s)) := by
  have hptr := arrangeSa_indptr n beta R Q S A (by omega) hS
  have hmono : ∀ k, k < n → (arrangeSa n beta R Q S A).aIndptr.getD k 0
      ≤ (arrangeSa n beta R Q S A).aIndptr.getD (k + 1) 0 := by
    intro k hk
    rw [hptr k (by omega), hptr (k + 1) (by omega)]
    exact countP_lt_mono S k
  obtain ⟨hok, herr⟩ := checkFeasibleSa_spec n (arrangeSa n beta R Q S A).R
    (arrangeSa n beta R Q S A).aInd (arrangeSa n beta R Q S A).aIndptr hmono
  constructor
  · rw [hok]
    constructor
    · intro h i hi
      obtain ⟨_, j, h1, h2, h3⟩ := h i hi
      rw [hptr i (by omega)] at h1
      rw [hptr (i + 1) (by omega)] at h2
      exact (arrangeSa_block n beta R Q S A (by omega) i).mp ⟨j, h1, h2, h3⟩
    · intro h i hi
      obtain ⟨j, h1, h2, h3⟩ := (arrangeSa_block n beta R Q S A (by omega) i).mpr (h i hi)
      rw [hptr i (by omega), hptr (i + 1) (by omega)]
      exact ⟨by omega, j, h1, h2, h3⟩
  · intro e he
    rcases herr e he with ⟨s, hs, rfl, _⟩ | ⟨s, hs, rfl, _⟩
    · exact ⟨s, hs, Or.inl rfl⟩
    · exact ⟨s, hs, Or.inr rfl⟩

theorem mkSa_ok_iff (n : Nat) (beta : K) (R : List (Ext K)) (Q : List (List K)) (S A : List Nat)
    (hR : R.length = Q.length) (hSl : S.length = Q.length) (hAl : A.length = Q.length)
    (hS : ∀ s ∈ S, s < n) :
    mkSa n beta R Q S A = .ok (arrangeSa n beta R Q S A) ↔
      ((∀ i, i < n → ∃ k, k < S.length ∧ S[k]? = some i ∧ R.getD k .ninf ≠ .ninf) ∧
        0 ≤ beta ∧ beta ≤ 1) := by
  rw [mkSa_unfold n beta R Q S A hR hSl hAl hS]
  obtain ⟨hok, herr⟩ := arranged_check n beta R Q S A hSl hAl hS
  cases hc : checkFeasibleSa n (arrangeSa n beta R Q S A).R (arrangeSa n beta R Q S A).aInd
      (arrangeSa n beta R Q S A).aIndptr with
  | error e =>
    simp only
    constructor
    · intro h; cases h
    · rintro ⟨h, _⟩
      rw [← hok, hc] at h; cases h
  | ok u =>
    simp only
    have hfe := hok.mp (by rw [hc])
    by_cases hb : 0 ≤ beta ∧ beta ≤ 1
    · rw [if_pos hb]; exact ⟨fun _ => ⟨hfe, hb⟩, fun _ => rfl⟩
    · rw [if_neg hb]
      constructor
      · intro h; cases h
      · rintro ⟨_, h⟩; exact absurd h hb

theorem mkSa_rejects_iff (n : Nat) (beta : K) (R : List (Ext K)) (Q : List (List K)) (S A : List Nat)
    (hR : R.length = Q.length) (hSl : S.length = Q.length) (hAl : A.length = Q.length)
    (hS : ∀ s ∈ S, s < n) :
    (∃ s, s < n ∧ (mkSa n beta R Q S A = .error (.reward s) ∨ mkSa n beta R Q S A = .error (.action s))) ↔
      ∃ i, i < n ∧ ∀ k, k < S.length → S[k]? = some i → R.getD k .ninf = .ninf := by
  rw [mkSa_unfold n beta R Q S A hR hSl hAl hS]
  obtain ⟨hok, herr⟩ := arranged_check n beta R Q S A hSl hAl hS
  cases hc : checkFeasibleSa n (arrangeSa n beta R Q S A).R (arrangeSa n beta R Q S A).aInd
      (arrangeSa n beta R Q S A).aIndptr with
  | error e =>
    simp only
    obtain ⟨s, hs, he⟩ := herr e hc
    constructor
    · intro _
      by_contra hno
      have : ∀ i, i < n → ∃ k, k < S.length ∧ S[k]? = some i ∧ R.getD k .ninf ≠ .ninf := by
        intro i hi
        by_contra hne
        apply hno
        refine ⟨i, hi, ?_⟩
        intro k hk hki
        by_contra hr
        exact hne ⟨k, hk, hki, hr⟩
      have := hok.mpr this
      rw [hc] at this; cases this
    · intro _
      rcases he with rfl | rfl
      · exact ⟨s, hs, Or.inl rfl⟩
      · exact ⟨s, hs, Or.inr rfl⟩
  | ok u =>
    simp only
    have hfe := hok.mp (by rw [hc])
    constructor
    · rintro ⟨s, _, h | h⟩
      · split at h <;> cases h
      · split at h <;> cases h
    · rintro ⟨i, hi, hall⟩
      obtain ⟨k, hk, h1, h2⟩ := hfe i hi
      exact absurd (hall k hk h1) h2

end

theorem triples_map_idx (S A : List Nat) (h : A.length = S.length) :
    (triples S A).map (fun t => t.2.2) = List.range S.length := by
  unfold triples
  have h1 : (List.zip S (List.zip A (List.range S.length))).map (fun t => t.2.2)
      = ((List.zip S (List.zip A (List.range S.length))).map Prod.snd).map Prod.snd := by
    rw [List.map_map]; rfl
  rw [h1, List.map_snd_zip (by simp [h]), List.map_snd_zip (by simp [h])]

/-- the re-sorting index array is a permutation of `0..L-1` -/
theorem resortPairs_perm (S A : List Nat) (h : A.length = S.length) :
    (resortPairs S A).Perm (List.range S.length) := by
  rw [resortPairs_eq, ← triples_map_idx S A h]
  exact (List.mergeSort_perm _ _).map _

/-- … that lists the pairs in lexicographic `(s, a)` order -/
theorem resortPairs_sorted (S A : List Nat) (h : A.length = S.length) :
    List.Pairwise (fun k k' => S.getD k 0 < S.getD k' 0 ∨ (S.getD k 0 = S.getD k' 0 ∧ A.getD k 0 ≤ A.getD k' 0))
      (resortPairs S A) := by
  rw [resortPairs_eq]
  have hp : List.Pairwise (fun a b => saLe a b = true) ((triples S A).mergeSort saLe) :=
    List.pairwise_mergeSort saLe_trans saLe_total _
  have hmem : ∀ t ∈ (triples S A).mergeSort saLe, S.getD t.2.2 0 = t.1 ∧ A.getD t.2.2 0 = t.2.1 := by
    intro t ht
    have ht' : t ∈ triples S A := (List.mergeSort_perm _ _).mem_iff.mp ht
    rw [List.mem_iff_getElem] at ht'
    obtain ⟨k, hk, rfl⟩ := ht'
    rw [triples_length S A h] at hk
    rw [triples_getElem S A h k hk]
    simp [List.getD_eq_getElem?_getD, hk, h]
  apply List.Pairwise.map _ _ (List.Pairwise.imp_of_mem _ hp)
  · exact fun t t' => S.getD t.2.2 0 < S.getD t'.2.2 0 ∨
      (S.getD t.2.2 0 = S.getD t'.2.2 0 ∧ A.getD t.2.2 0 ≤ A.getD t'.2.2 0)
  · intro a b hab; exact hab
  · intro a b ha hb hab
    obtain ⟨h1, h2⟩ := hmem a ha
    obtain ⟨h3, h4⟩ := hmem b hb
    rw [h1, h2, h3, h4]
    unfold saLe at hab
    simp only [Bool.or_eq_true, decide_eq_true_eq, Bool.and_eq_true, beq_iff_eq] at hab
    omega

section
variable {K : Type}

/-- **The re-sort moves every pair together with its own reward, transition row and action**:
    in the unsorted branch, position `j` of the stored arrays holds the data of the given pair
    `k = perm[j]`. -/
theorem arrangeSa_unsorted (n : Nat) (beta : K) (R : List (Ext K)) (Q : List (List K)) (S A : List Nat)
    (hR : R.length = S.length) (hQ : Q.length = S.length) (hA : A.length = S.length)
    (hs : ¬ hasSortedSa S A = true) (j : Nat) (hj : j < S.length) :
    ∃ k, (resortPairs S A)[j]? = some k ∧ k < S.length ∧
      (arrangeSa n beta R Q S A).R[j]? = R[k]? ∧ (arrangeSa n beta R Q S A).Q[j]? = Q[k]? ∧
      (arrangeSa n beta R Q S A).aInd[j]? = A[k]? := by
  have hperm := resortPairs_perm S A hA
  have hlen : (resortPairs S A).length = S.length := by rw [hperm.length_eq, List.length_range]
  have hj' : j < (resortPairs S A).length := by omega
  have hk : (resortPairs S A)[j] < S.length := by
    have : (resortPairs S A)[j] ∈ List.range S.length := hperm.mem_iff.mp (List.getElem_mem hj')
    exact List.mem_range.mp this
  refine ⟨(resortPairs S A)[j], List.getElem?_eq_getElem hj', hk, ?_, ?_, ?_⟩
  all_goals
    unfold arrangeSa
    rw [if_neg hs]
    simp only [gather, List.getElem?_map, List.getElem?_eq_getElem hj', Option.map_some,
      List.getD_eq_getElem?_getD]
  · rw [List.getElem?_eq_getElem (by omega : (resortPairs S A)[j] < R.length)]; rfl
  · rw [List.getElem?_eq_getElem (by omega : (resortPairs S A)[j] < Q.length)]; rfl
  · rw [List.getElem?_eq_getElem (by omega : (resortPairs S A)[j] < A.length)]; rfl

end

/-- the rebuild loop `for i in range(n): for j in range(indptr[i], indptr[i+1]): _s[j] = i`
    writes `i` at every position of block `i` (pointer array starting at 0, non-decreasing) -/
theorem rebuildS_spec (indptr : List Nat) (h0 : indptr.getD 0 0 = 0) :
    ∀ n, (∀ i, i < n → indptr.getD i 0 ≤ indptr.getD (i + 1) 0) →
      (rebuildS n indptr).length = indptr.getD n 0 ∧
      ∀ j i, i < n → indptr.getD i 0 ≤ j → j < indptr.getD (i + 1) 0 →
        (rebuildS n indptr)[j]? = some i := by
  intro n
  induction n with
  | zero =>
    intro _
    refine ⟨by rw [h0]; simp [rebuildS], fun j i hi => absurd hi (Nat.not_lt_zero _)⟩
  | succ n ih =>
    intro hmono
    obtain ⟨hl, hget⟩ := ih (fun i hi => hmono i (by omega))
    have hstep : rebuildS (n + 1) indptr
        = rebuildS n indptr ++ List.replicate (indptr.getD (n + 1) 0 - indptr.getD n 0) n := by
      simp [rebuildS, List.range_succ, List.flatMap_append]
    have hm := hmono n (by omega)
    rw [hstep]
    refine ⟨by rw [List.length_append, hl, List.length_replicate]; omega, ?_⟩
    intro j i hi h1 h2
    by_cases hin : i < n
    · have hjl : j < (rebuildS n indptr).length := by
        rw [hl]
        have : ∀ m, i + 1 ≤ m → m ≤ n → indptr.getD (i + 1) 0 ≤ indptr.getD m 0 := by
          intro m hm1 hm2
          induction m with
          | zero => omega
          | succ m ihm =>
            by_cases hmi : i + 1 = m + 1
            · rw [hmi]
            · exact le_trans (ihm (by omega) (by omega)) (hmono m (by omega))
        have := this n (by omega) (Nat.le_refl _)
        omega
      rw [List.getElem?_append_left hjl]
      exact hget j i hin h1 h2
    · have : i = n := by omega
      subst this
      rw [List.getElem?_append_right (by omega), hl]
      rw [List.getElem?_replicate]
      rw [if_pos (by omega)]

section
variable {K : Type}

/-- the rebuilt `s_indices` are the states of the re-sorted pairs -/
theorem arrangeSa_unsorted_sInd (n : Nat) (beta : K) (R : List (Ext K)) (Q : List (List K)) (S A : List Nat)
    (hA : A.length = S.length) (hS : ∀ s ∈ S, s < n)
    (hs : ¬ hasSortedSa S A = true) (j : Nat) (hj : j < S.length) :
    ∃ k, (resortPairs S A)[j]? = some k ∧ k < S.length ∧
      (arrangeSa n beta R Q S A).sInd[j]? = S[k]? := by
  set T' := (triples S A).mergeSort saLe with hT'
  have hperm : T'.Perm (triples S A) := List.mergeSort_perm _ _
  have hlen : T'.length = S.length := by rw [hperm.length_eq, triples_length S A hA]
  have hjT : j < T'.length := by omega
  have hmem : T'[j] ∈ triples S A := hperm.mem_iff.mp (List.getElem_mem _)
  obtain ⟨hk, hSk⟩ := mem_triples S A hA _ hmem
  set S' := T'.map (fun t => t.1) with hS'
  have hp : List.Pairwise (· ≤ ·) S' := sorted_triples_fst S A
  have hcount : ∀ t, S'.countP (· < t) = S.countP (· < t) :=
    fun t => (perm_triples_fst S A hA).countP_eq _
  have hS'len : S'.length = S.length := by simp [hS', hlen]
  have hS'j : S'[j]'(by omega) = T'[j].1 := by simp [hS']
  have hin : T'[j].1 < n := by
    have : T'[j].1 ∈ S := by
      rw [List.mem_iff_getElem]
      exact ⟨T'[j].2.2, hk, by
        have := hSk; rw [List.getElem?_eq_getElem hk] at this; exact Option.some.inj this⟩
    exact hS _ this
  have hblock := (sorted_block S' hp j (by omega) T'[j].1).mpr hS'j
  rw [hcount, hcount] at hblock
  refine ⟨T'[j].2.2, ?_, hk, ?_⟩
  · rw [resortPairs_eq, List.getElem?_map, List.getElem?_eq_getElem hjT]; rfl
  · rw [hSk]
    unfold arrangeSa
    rw [if_neg hs]
    simp only
    have h0 : (countsIndptr n S).getD 0 0 = 0 := by
      rw [countsIndptr_getD n S 0 (Nat.zero_le _)]; simp
    have hmono : ∀ i, i < n → (countsIndptr n S).getD i 0 ≤ (countsIndptr n S).getD (i + 1) 0 := by
      intro i hi
      rw [countsIndptr_getD n S i (by omega), countsIndptr_getD n S (i + 1) (by omega)]
      exact countP_lt_mono S i
    apply (rebuildS_spec (countsIndptr n S) h0 n hmono).2 j T'[j].1 hin
    · rw [countsIndptr_getD n S _ (by omega)]; exact hblock.1
    · rw [countsIndptr_getD n S _ (by omega)]; exact hblock.2

end
end QE.C09
