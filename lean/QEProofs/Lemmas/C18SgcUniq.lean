/-
  Lemmas for C18, part 13: uniqueness of the equilibrium of the SGC game (k ≥ 2).
  After `sgc_nash_support'` both mixed actions live on the cyclic m × m block (m = 2k-1, odd);
  there the payoff of action i is 3/4 + (z(pred i) - z(succ i))/4, and the only equilibrium is uniform.
-/
import QEProofs.Lemmas.C18SgcSupp
import Mathlib.Tactic.FieldSimp
import Mathlib.Tactic.Push
namespace QE.C18
set_option linter.unusedSectionVars false
open Finset

variable {K : Type} [Field K] [LinearOrder K] [IsStrictOrderedRing K]

/-- cyclic predecessor / successor on `{0,…,m-1}`, `m = 2k-1` (the index expressions of `sgc_def`) -/
def sgcPred (k i : Nat) : Nat := if i = 0 then 2 * k - 2 else i - 1
def sgcSucc (k i : Nat) : Nat := if i = 2 * k - 2 then 0 else i + 1

/-- `z(pred i) - z(succ i)` -/
def sgcGap (k : Nat) (z : Nat → K) (i : Nat) : K := z (sgcPred k i) - z (sgcSucc k i)

theorem sgcPred_lt (k i : Nat) (hk : 2 ≤ k) (hi : i < 2 * k - 1) : sgcPred k i < 2 * k - 1 := by
  unfold sgcPred; split <;> omega
theorem sgcSucc_lt (k i : Nat) (hk : 2 ≤ k) (hi : i < 2 * k - 1) : sgcSucc k i < 2 * k - 1 := by
  unfold sgcSucc; split <;> omega
theorem sgcSucc_pred (k i : Nat) (hk : 2 ≤ k) (hi : i < 2 * k - 1) : sgcSucc k (sgcPred k i) = i := by
  unfold sgcPred
  by_cases h : i = 0
  · rw [if_pos h]; unfold sgcSucc; rw [if_pos rfl]; omega
  · rw [if_neg h]; unfold sgcSucc; rw [if_neg (by omega)]; omega
theorem sgcPred_succ (k i : Nat) (hk : 2 ≤ k) (hi : i < 2 * k - 1) : sgcPred k (sgcSucc k i) = i := by
  unfold sgcSucc
  by_cases h : i = 2 * k - 2
  · rw [if_pos h]; unfold sgcPred; rw [if_pos rfl]; omega
  · rw [if_neg h]; unfold sgcPred; rw [if_neg (by omega)]; omega
theorem sgcPred_ne_succ (k i : Nat) (hk : 2 ≤ k) (hi : i < 2 * k - 1) : sgcPred k i ≠ sgcSucc k i := by
  unfold sgcSucc sgcPred
  by_cases h : i = 0
  · rw [if_pos h, if_neg (by omega)]; omega
  · rw [if_neg h]
    by_cases h2 : i = 2 * k - 2
    · rw [if_pos h2]; omega
    · rw [if_neg h2]; omega

theorem sgcPred_pos (k a : Nat) (ha : a ≠ 0) : sgcPred k a = a - 1 := by
  unfold sgcPred; rw [if_neg ha]
theorem sgcPred_zero (k : Nat) : sgcPred k 0 = 2 * k - 2 := by
  unfold sgcPred; rw [if_pos rfl]

/-- `pred (pred a) = a - 2` for `a ≥ 2`; the two wrap-arounds -/
theorem sgcPred2 (k a : Nat) (ha : 2 ≤ a) : sgcPred k (sgcPred k a) = a - 2 := by
  rw [sgcPred_pos k a (by omega), sgcPred_pos k (a - 1) (by omega)]; omega
theorem sgcPred2_zero (k : Nat) (hk : 2 ≤ k) : sgcPred k (sgcPred k 0) = 2 * k - 3 := by
  rw [sgcPred_zero, sgcPred_pos k _ (by omega)]; omega
theorem sgcPred2_one (k : Nat) : sgcPred k (sgcPred k 1) = 2 * k - 2 := by
  rw [sgcPred_pos k 1 (by omega), sgcPred_zero]

/-- a non-empty set of block indices closed under `pred ∘ pred` is everything (the block size is odd) -/
theorem pred2_closed_all (k : Nat) (hk : 2 ≤ k) (T : Nat → Prop)
    (hne : ∃ i, i < 2 * k - 1 ∧ T i)
    (hcl : ∀ i, i < 2 * k - 1 → T i → T (sgcPred k (sgcPred k i))) :
    ∀ j, j < 2 * k - 1 → T j := by
  -- going down by 2
  have down : ∀ t a, a < 2 * k - 1 → T a → 2 * t ≤ a → T (a - 2 * t) := by
    intro t
    induction t with
    | zero => intro a _ h _; simpa using h
    | succ t ih =>
      intro a ha h ht
      have h1 := ih a ha h (by omega)
      have h2 := hcl (a - 2 * t) (by omega) h1
      have e : sgcPred k (sgcPred k (a - 2 * t)) = a - 2 * (t + 1) := by
        rw [sgcPred2 k _ (by omega)]; omega
      rwa [e] at h2
  have wrap0 : T 0 → T (2 * k - 3) := by
    intro h
    have := hcl 0 (by omega) h
    have e : sgcPred k (sgcPred k 0) = 2 * k - 3 := sgcPred2_zero k hk
    rwa [e] at this
  have wrap1 : T 1 → T (2 * k - 2) := by
    intro h
    have := hcl 1 (by omega) h
    have e : sgcPred k (sgcPred k 1) = 2 * k - 2 := sgcPred2_one k
    rwa [e] at this
  obtain ⟨i, hi, hT⟩ := hne
  have hbase : T 0 ∧ T 1 := by
    have hlow := down (i / 2) i hi hT (by omega)
    rcases Nat.mod_two_eq_zero_or_one i with hpar | hpar
    · have e : i - 2 * (i / 2) = 0 := by omega
      rw [e] at hlow
      have h3 := wrap0 hlow
      have h1 := down (k - 2) (2 * k - 3) (by omega) h3 (by omega)
      rw [show 2 * k - 3 - 2 * (k - 2) = 1 from by omega] at h1
      exact ⟨hlow, h1⟩
    · have e : i - 2 * (i / 2) = 1 := by omega
      rw [e] at hlow
      have h2 := wrap1 hlow
      have h0 := down (k - 1) (2 * k - 2) (by omega) h2 (by omega)
      rw [show 2 * k - 2 - 2 * (k - 1) = 0 from by omega] at h0
      exact ⟨h0, hlow⟩
  have htop0 := wrap0 hbase.1
  have htop1 := wrap1 hbase.2
  intro j hj
  rcases Nat.mod_two_eq_zero_or_one j with hpar | hpar
  · have := down ((2 * k - 2 - j) / 2) (2 * k - 2) (by omega) htop1 (by omega)
    rwa [show 2 * k - 2 - 2 * ((2 * k - 2 - j) / 2) = j from by omega] at this
  · have := down ((2 * k - 3 - j) / 2) (2 * k - 3) (by omega) htop0 (by omega)
    rwa [show 2 * k - 3 - 2 * ((2 * k - 3 - j) / 2) = j from by omega] at this

/-- some block index has a non-negative gap (take the successor of an argmax) -/
theorem exists_gap_nonneg (k : Nat) (hk : 2 ≤ k) (z : Nat → K) :
    ∃ i, i < 2 * k - 1 ∧ 0 ≤ sgcGap k z i := by
  obtain ⟨j1, hj1, hmax⟩ := exists_max_image (range (2 * k - 1)) z ⟨0, mem_range.2 (by omega)⟩
  have hj1' := mem_range.1 hj1
  refine ⟨sgcSucc k j1, sgcSucc_lt k j1 hk hj1', ?_⟩
  unfold sgcGap
  rw [sgcPred_succ k j1 hk hj1']
  have := hmax (sgcSucc k (sgcSucc k j1)) (mem_range.2 (sgcSucc_lt k _ hk (sgcSucc_lt k j1 hk hj1')))
  linarith

/-- `z` cannot strictly increase along `pred ∘ pred` everywhere -/
theorem no_strict_pred2 (k : Nat) (hk : 2 ≤ k) (z : Nat → K)
    (h : ∀ l, l < 2 * k - 1 → z l < z (sgcPred k (sgcPred k l))) : False := by
  obtain ⟨j1, hj1, hmax⟩ := exists_max_image (range (2 * k - 1)) z ⟨0, mem_range.2 (by omega)⟩
  have hj1' := mem_range.1 hj1
  have h1 := h j1 hj1'
  have h2 := hmax _ (mem_range.2 (sgcPred_lt k _ hk (sgcPred_lt k j1 hk hj1')))
  linarith

/-- if `z` never increases along `pred ∘ pred`, it is constant on the block -/
theorem const_of_pred2_le (k : Nat) (hk : 2 ≤ k) (z : Nat → K)
    (h : ∀ l, l < 2 * k - 1 → z (sgcPred k (sgcPred k l)) ≤ z l) :
    ∀ a, a < 2 * k - 1 → z a = z 0 := by
  obtain ⟨l0, hl0, hmin⟩ := exists_min_image (range (2 * k - 1)) z ⟨0, mem_range.2 (by omega)⟩
  have hl0' := mem_range.1 hl0
  have hall := pred2_closed_all k hk (fun l => z l = z l0) ⟨l0, hl0', rfl⟩ (by
    intro i hi hT
    have h1 := h i hi
    have h2 := hmin _ (mem_range.2 (sgcPred_lt k _ hk (sgcPred_lt k i hk hi)))
    show z (sgcPred k (sgcPred k i)) = z l0
    rw [hT] at h1
    exact le_antisymm h1 h2)
  intro a ha
  rw [hall a ha, hall 0 (by omega)]

/-! ### payoffs on the block -/

theorem sgc_block_term (k : Nat) (hk : 2 ≤ k) (z : Nat → K)
    (hzero : ∀ j, 2 * k - 1 ≤ j → j < 4 * k - 1 → z j = 0) (i : Nat) (hi : i < 2 * k - 1) (j : Nat)
    (hj : j < 4 * k - 1) :
    (sgcEntry0 k i j * z j = 3 / 4 * z j + (if j = sgcPred k i then 1 / 4 * z j else 0)
        - (if j = sgcSucc k i then 1 / 4 * z j else 0)) ∧
    (sgcEntry1 k i j * z j = 3 / 4 * z j + (if j = sgcPred k i then 1 / 4 * z j else 0)
        - (if j = sgcSucc k i then 1 / 4 * z j else 0)) := by
  obtain ⟨h0, h1⟩ := sgc_def' (K := K) k hk i j (by omega) hj
  rw [h0, h1]
  by_cases hjm : j < 2 * k - 1
  · have hne := sgcPred_ne_succ k i hk hi
    unfold sgcPred sgcSucc at hne ⊢
    simp only [hi, hjm, if_true]
    by_cases hP : j = (if i = 0 then 2 * k - 2 else i - 1)
    · have hS : ¬ j = (if i = 2 * k - 2 then 0 else i + 1) := by rw [hP]; exact hne
      rw [if_pos hP, if_pos hP, if_neg hS]
      constructor <;> ring
    · rw [if_neg hP, if_neg hP]
      by_cases hS : j = (if i = 2 * k - 2 then 0 else i + 1)
      · rw [if_pos hS, if_pos hS]; constructor <;> ring
      · rw [if_neg hS, if_neg hS]; constructor <;> ring
  · rw [hzero j (by omega) hj]
    simp

theorem sgcU_block (k : Nat) (hk : 2 ≤ k) (z : Nat → K) (hz : IsMixed (4 * k - 1) z)
    (hzero : ∀ j, 2 * k - 1 ≤ j → j < 4 * k - 1 → z j = 0) (i : Nat) (hi : i < 2 * k - 1) :
    sgcU0 k z i = 3 / 4 + 1 / 4 * sgcGap k z i ∧ sgcU1 k z i = 3 / 4 + 1 / 4 * sgcGap k z i := by
  have hP : sgcPred k i ∈ range (4 * k - 1) := mem_range.2 (by have := sgcPred_lt k i hk hi; omega)
  have hS : sgcSucc k i ∈ range (4 * k - 1) := mem_range.2 (by have := sgcSucc_lt k i hk hi; omega)
  have hsum : ∑ j ∈ range (4 * k - 1), (3 / 4 * z j + (if j = sgcPred k i then 1 / 4 * z j else 0)
        - (if j = sgcSucc k i then 1 / 4 * z j else 0)) = 3 / 4 + 1 / 4 * sgcGap k z i := by
    rw [sum_sub_distrib, sum_add_distrib, ← mul_sum, hz.2, sum_ite_eq' _ (sgcPred k i),
      sum_ite_eq' _ (sgcSucc k i), if_pos hP, if_pos hS]
    unfold sgcGap; ring
  unfold sgcU0 sgcU1
  constructor
  · rw [← hsum]
    exact sum_congr rfl (fun j hj => (sgc_block_term k hk z hzero i hi j (mem_range.1 hj)).1)
  · rw [← hsum]
    exact sum_congr rfl (fun j hj => (sgc_block_term k hk z hzero i hi j (mem_range.1 hj)).2)

/-! ### the gaps vanish -/

theorem gap_nonpos (k : Nat) (hk : 2 ≤ k) (z w : Nat → K) (hz0 : ∀ i, 0 ≤ z i) (hw0 : ∀ i, 0 ≤ w i)
    (hwsupp : ∃ i, i < 2 * k - 1 ∧ 0 < w i)
    (H1 : ∀ i, i < 2 * k - 1 → 0 < w i → ∀ i', i' < 2 * k - 1 → sgcGap k z i' ≤ sgcGap k z i)
    (H2 : ∀ j, j < 2 * k - 1 → 0 < z j → ∀ j', j' < 2 * k - 1 → sgcGap k w j' ≤ sgcGap k w j) :
    ∀ i, i < 2 * k - 1 → sgcGap k z i ≤ 0 := by
  by_contra hc
  push Not at hc
  obtain ⟨i1, hi1, hpos⟩ := hc
  obtain ⟨i2, hi2, hg2⟩ := exists_gap_nonneg k hk w
  -- every block action of `w` is played
  have hall : ∀ i, i < 2 * k - 1 → 0 < w i := by
    apply pred2_closed_all k hk (fun i => 0 < w i) hwsupp
    intro i hi hwi
    have hgi : 0 < sgcGap k z i := lt_of_lt_of_le hpos (H1 i hi hwi i1 hi1)
    have hzp : 0 < z (sgcPred k i) := by
      unfold sgcGap at hgi
      have := hz0 (sgcSucc k i)
      linarith
    have hPi := sgcPred_lt k i hk hi
    have hgw : 0 ≤ sgcGap k w (sgcPred k i) := le_trans hg2 (H2 _ hPi hzp i2 hi2)
    unfold sgcGap at hgw
    rw [sgcSucc_pred k i hk hi] at hgw
    show 0 < w (sgcPred k (sgcPred k i))
    linarith
  apply no_strict_pred2 k hk z
  intro l hl
  have hPl := sgcPred_lt k l hk hl
  have hg : 0 < sgcGap k z (sgcPred k l) := lt_of_lt_of_le hpos (H1 _ hPl (hall _ hPl) i1 hi1)
  unfold sgcGap at hg
  rw [sgcSucc_pred k l hk hl] at hg
  linarith

/-- a mixed action that vanishes outside the block and whose gaps are all `≤ 0` is uniform on the block -/
theorem uniform_of_gap_nonpos (k : Nat) (hk : 2 ≤ k) (z : Nat → K) (hz : IsMixed (4 * k - 1) z)
    (hzero : ∀ j, 2 * k - 1 ≤ j → j < 4 * k - 1 → z j = 0)
    (hgap : ∀ i, i < 2 * k - 1 → sgcGap k z i ≤ 0) :
    ∀ i, i < 4 * k - 1 → z i = if i < 2 * k - 1 then 1 / ((2 * k - 1 : Nat) : K) else 0 := by
  have hconst := const_of_pred2_le k hk z (by
    intro l hl
    have := hgap (sgcPred k l) (sgcPred_lt k l hk hl)
    unfold sgcGap at this
    rw [sgcSucc_pred k l hk hl] at this
    linarith)
  have hsum : ∑ j ∈ range (2 * k - 1), z j = 1 := by
    rw [← hz.2]
    apply sum_subset (range_subset_range.2 (by omega))
    intro j hj hnj
    exact hzero j (by simpa using hnj) (mem_range.1 hj)
  have hval : ((2 * k - 1 : Nat) : K) * z 0 = 1 := by
    rw [← hsum, sum_congr rfl (fun j hj => hconst j (mem_range.1 hj)), sum_const, card_range]
    simp
  have hm : ((2 * k - 1 : Nat) : K) ≠ 0 := by
    have : (0 : K) < ((2 * k - 1 : Nat) : K) := by exact_mod_cast (by omega : 0 < 2 * k - 1)
    exact ne_of_gt this
  intro i hi
  by_cases him : i < 2 * k - 1
  · rw [if_pos him, hconst i him]
    field_simp
    linarith [hval]
  · rw [if_neg him]; exact hzero i (by omega) hi

/-- **Uniqueness.** -/
theorem sgc_unique_nash' (k : Nat) (hk : 2 ≤ k) (x y : Nat → K) (h : SgcNash k x y) :
    ∀ i, i < 4 * k - 1 →
      x i = (if i < 2 * k - 1 then 1 / ((2 * k - 1 : Nat) : K) else 0) ∧
      y i = (if i < 2 * k - 1 then 1 / ((2 * k - 1 : Nat) : K) else 0) := by
  have hsx : ∀ j, 2 * k - 1 ≤ j → j < 4 * k - 1 → x j = 0 := fun j h1 h2 => (sgc_nash_support' k hk x y h j h1 h2).1
  have hsy : ∀ j, 2 * k - 1 ≤ j → j < 4 * k - 1 → y j = 0 := fun j h1 h2 => (sgc_nash_support' k hk x y h j h1 h2).2
  obtain ⟨hx, hy, h0, h1⟩ := h
  -- somebody is played, and it is a block action
  have hsupp : ∀ (z : Nat → K), IsMixed (4 * k - 1) z → (∀ j, 2 * k - 1 ≤ j → j < 4 * k - 1 → z j = 0) →
      ∃ i, i < 2 * k - 1 ∧ 0 < z i := by
    intro z hz hzero
    by_contra hc
    push Not at hc
    have : ∑ i ∈ range (4 * k - 1), z i = 0 := by
      apply sum_eq_zero
      intro i hi
      by_cases him : i < 2 * k - 1
      · exact le_antisymm (hc i him) (hz.1 i)
      · exact hzero i (by omega) (mem_range.1 hi)
    rw [hz.2] at this
    exact one_ne_zero this
  have H1 : ∀ i, i < 2 * k - 1 → 0 < x i → ∀ i', i' < 2 * k - 1 → sgcGap k y i' ≤ sgcGap k y i := by
    intro i hi hpos i' hi'
    have := h0 i (by omega) hpos i' (by omega)
    rw [(sgcU_block k hk y hy hsy i hi).1, (sgcU_block k hk y hy hsy i' hi').1] at this
    linarith
  have H2 : ∀ j, j < 2 * k - 1 → 0 < y j → ∀ j', j' < 2 * k - 1 → sgcGap k x j' ≤ sgcGap k x j := by
    intro j hj hpos j' hj'
    have := h1 j (by omega) hpos j' (by omega)
    rw [(sgcU_block k hk x hx hsx j hj).2, (sgcU_block k hk x hx hsx j' hj').2] at this
    linarith
  have gy := gap_nonpos k hk y x hy.1 hx.1 (hsupp x hx hsx) H1 H2
  have gx := gap_nonpos k hk x y hx.1 hy.1 (hsupp y hy hsy) H2 H1
  intro i hi
  exact ⟨uniform_of_gap_nonpos k hk x hx hsx gx i hi, uniform_of_gap_nonpos k hk y hy hsy gy i hi⟩

end QE.C18
