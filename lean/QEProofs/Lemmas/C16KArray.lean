/-
  Lemmas for C16, part: next_k_array (Knuth Algorithm T) and k_array_rank.
  All final theorems are about the literal model `nextKArray` / `kArrayRank`.
-/
import Mathlib.Data.Nat.Choose.Basic
import Mathlib.Data.List.Basic
import Mathlib.Logic.Function.Iterate
import Mathlib.Tactic.Ring
import Mathlib.Tactic.Linarith
import QEModel.C16
import QEProofs.Lemmas.C16Comb
namespace QE.C16

/-! ### Step A: clean recursive form of `nextKArray` -/

/-- the carry part of Algorithm T on the suffix starting at position `i` -/
def nkGo : Nat → List Nat → List Nat
  | _, [] => []
  | _, [x] => [x + 1]
  | i, x :: y :: rest =>
    if x + 1 = y then i :: nkGo (i + 1) (y :: rest) else (x + 1) :: y :: rest

def nextRec : List Nat → List Nat
  | [] => []
  | [x] => [x + 1]
  | x :: y :: rest => if x + 1 < y then (x + 1) :: y :: rest else 0 :: nkGo 1 (y :: rest)

theorem getD_pre_succ (pre : List Nat) (c y : Nat) (rest : List Nat) :
    (pre ++ c :: y :: rest).getD (pre.length + 1) 0 = y := by
  simp [List.getD_eq_getElem?_getD]

theorem set_pre (pre : List Nat) (c v : Nat) (suf : List Nat) :
    (pre ++ c :: suf).set pre.length v = pre ++ v :: suf := by
  simp

/-- the `while` loop of `next_k_array`, followed by the final write, is `nkGo`. -/
theorem nkLoop_eq_nkGo : ∀ (suf : List Nat) (pre : List Nat) (c fuel k : Nat),
    k = pre.length + 1 + suf.length → suf.length ≤ fuel →
    (nkLoop k fuel (pre ++ c :: suf) pre.length (c + 1)).1.set
        (nkLoop k fuel (pre ++ c :: suf) pre.length (c + 1)).2.1
        (nkLoop k fuel (pre ++ c :: suf) pre.length (c + 1)).2.2
      = pre ++ nkGo pre.length (c :: suf) := by
  intro suf
  induction suf with
  | nil =>
    intro pre c fuel k hk _
    cases fuel with
    | zero => simp [nkLoop, nkGo]
    | succ f =>
      have hc : ¬ (pre.length < k - 1 ∧ c + 1 = (pre ++ [c]).getD (pre.length + 1) 0) := by
        simp at hk; omega
      rw [nkLoop, if_neg hc]
      simp [nkGo]
  | cons y rest ih =>
    intro pre c fuel k hk hf
    cases fuel with
    | zero => simp at hf
    | succ f =>
      rw [nkLoop]
      by_cases hcy : c + 1 = y
      · have hc : (pre.length < k - 1 ∧
            c + 1 = (pre ++ c :: y :: rest).getD (pre.length + 1) 0) := by
          rw [getD_pre_succ]; simp at hk; exact ⟨by omega, hcy⟩
        rw [if_pos hc]
        simp only [Nat.add_sub_cancel]
        rw [set_pre]
        have e : pre ++ pre.length :: y :: rest = (pre ++ [pre.length]) ++ y :: rest := by simp
        have e2 : pre.length + 1 = (pre ++ [pre.length]).length := by simp
        rw [getD_pre_succ, e, e2]
        rw [ih (pre ++ [pre.length]) y f k (by simp at hk ⊢; omega) (by simp at hf; omega)]
        simp [nkGo, hcy]
      · have hc : ¬ (pre.length < k - 1 ∧
            c + 1 = (pre ++ c :: y :: rest).getD (pre.length + 1) 0) := by
          rw [getD_pre_succ]; omega
        rw [if_neg hc]
        simp [nkGo, hcy]

theorem nextKArray_eq_nextRec (a : List Nat) : nextKArray a = nextRec a := by
  match a with
  | [] => simp [nextKArray, nextRec, nkLoop]
  | [x] => simp [nextKArray, nextRec]
  | x :: y :: rest =>
    unfold nextKArray
    by_cases h : x + 1 < y
    · simp [nextRec, h]
    · have hc : ¬ ((x :: y :: rest).length = 1 ∨
          (x :: y :: rest).getD 0 0 + 1 < (x :: y :: rest).getD 1 0) := by
        simp; omega
      simp only [if_neg hc]
      have := nkLoop_eq_nkGo rest [0] y (x :: y :: rest).length (x :: y :: rest).length
        (by simp; omega) (by simp; omega)
      simp only [List.length_singleton, List.singleton_append] at this
      simp only [List.set_cons_zero, List.getD_cons_succ, List.getD_cons_zero]
      rw [nextRec, if_neg h]
      exact this

example : nextKArray [1, 2, 5] = [0, 3, 5] := by decide
example : nextKArray [0, 1, 2] = [0, 1, 3] := by decide

/-! ### Step B: the rank goes up by one -/

theorem kArrayRankAux_nil (i : Nat) : kArrayRankAux [] i = 0 := rfl

theorem kArrayRankAux_cons (x : Nat) (l : List Nat) (i : Nat) :
    kArrayRankAux (x :: l) i = Nat.choose x (i + 1) + kArrayRankAux l (i + 1) := by
  rw [kArrayRankAux, chooseFast_eq_choose]

theorem choose_pascal (n k : Nat) :
    Nat.choose (n + 1) (k + 1) = Nat.choose n k + Nat.choose n (k + 1) :=
  Nat.choose_succ_succ n k

/-- the carry loop adds exactly `C(c, i)` to the tail sum (no monotonicity needed) -/
theorem kArrayRankAux_nkGo : ∀ (suf : List Nat) (c i : Nat),
    kArrayRankAux (nkGo i (c :: suf)) i = kArrayRankAux (c :: suf) i + Nat.choose c i := by
  intro suf
  induction suf with
  | nil =>
    intro c i
    simp only [nkGo, kArrayRankAux_cons, kArrayRankAux_nil, choose_pascal]
    omega
  | cons y rest ih =>
    intro c i
    by_cases hcy : c + 1 = y
    · rw [nkGo, if_pos hcy, kArrayRankAux_cons, ih y (i + 1), Nat.choose_succ_self,
        kArrayRankAux_cons c, ← hcy, choose_pascal]
      omega
    · rw [nkGo, if_neg hcy, kArrayRankAux_cons, kArrayRankAux_cons c, choose_pascal]
      omega

theorem kArrayRank_nextRec (a : List Nat) (hne : a ≠ []) (hp : a.Pairwise (· < ·)) :
    kArrayRank (nextRec a) = kArrayRank a + 1 := by
  match a, hne, hp with
  | [x], _, _ =>
    simp [nextRec, kArrayRank, kArrayRankAux_cons, kArrayRankAux_nil]
  | x :: y :: rest, _, hp =>
    have hxy : x < y := by
      have := List.rel_of_pairwise_cons hp (List.mem_cons_self)
      exact this
    unfold kArrayRank
    by_cases h : x + 1 < y
    · rw [nextRec, if_pos h, kArrayRankAux_cons, kArrayRankAux_cons x]
      simp only [Nat.zero_add, Nat.choose_one_right]
      omega
    · have hy : y = x + 1 := by omega
      rw [nextRec, if_neg h, kArrayRankAux_cons, kArrayRankAux_nkGo, kArrayRankAux_cons x]
      simp only [Nat.zero_add, Nat.choose_one_right]
      omega

/-- THEOREM 1: `next_k_array` moves to the array whose rank is one larger. -/
theorem kArrayRank_next (a : List Nat) (hne : a ≠ []) (hp : a.Pairwise (· < ·)) :
    kArrayRank (nextKArray a) = kArrayRank a + 1 := by
  rw [nextKArray_eq_nextRec]; exact kArrayRank_nextRec a hne hp

example : List.Pairwise (· < ·) [1, 2, 5] := by decide
example : kArrayRank (nextKArray [1, 2, 5]) = kArrayRank [1, 2, 5] + 1 := by decide

/-! ### Step C: strictly increasing arrays stay strictly increasing -/

theorem nkGo_length : ∀ (l : List Nat) (i : Nat), (nkGo i l).length = l.length
  | [], _ => rfl
  | [_], _ => rfl
  | x :: y :: rest, i => by
    by_cases h : x + 1 = y
    · rw [nkGo, if_pos h, List.length_cons, nkGo_length (y :: rest) (i + 1)]; rfl
    · rw [nkGo, if_neg h]; rfl

theorem nextRec_length : ∀ (a : List Nat), (nextRec a).length = a.length
  | [] => rfl
  | [_] => rfl
  | x :: y :: rest => by
    by_cases h : x + 1 < y
    · rw [nextRec, if_pos h]; rfl
    · rw [nextRec, if_neg h, List.length_cons, nkGo_length]; rfl

theorem nextKArray_length (a : List Nat) : (nextKArray a).length = a.length := by
  rw [nextKArray_eq_nextRec, nextRec_length]

theorem nkGo_pairwise : ∀ (suf : List Nat) (c i : Nat),
    (c :: suf).Pairwise (· < ·) → i ≤ c →
    (nkGo i (c :: suf)).Pairwise (· < ·) ∧ ∀ z ∈ nkGo i (c :: suf), i ≤ z := by
  intro suf
  induction suf with
  | nil =>
    intro c i _ hic
    simp only [nkGo, List.pairwise_cons, List.not_mem_nil, false_imp_iff, implies_true,
      List.Pairwise.nil, and_self, List.mem_singleton, forall_eq, true_and]
    omega
  | cons y rest ih =>
    intro c i hp hic
    rw [List.pairwise_cons] at hp
    obtain ⟨hc, hp'⟩ := hp
    have hcy : c < y := hc y List.mem_cons_self
    by_cases h : c + 1 = y
    · rw [nkGo, if_pos h]
      obtain ⟨ih1, ih2⟩ := ih y (i + 1) hp' (by omega)
      refine ⟨List.pairwise_cons.mpr ⟨fun z hz => ?_, ih1⟩, fun z hz => ?_⟩
      · have := ih2 z hz; omega
      · rcases List.mem_cons.mp hz with rfl | hz
        · exact Nat.le_refl _
        · have := ih2 z hz; omega
    · rw [nkGo, if_neg h]
      refine ⟨List.pairwise_cons.mpr ⟨fun z hz => ?_, hp'⟩, fun z hz => ?_⟩
      · rcases List.mem_cons.mp hz with rfl | hz
        · omega
        · have := List.rel_of_pairwise_cons hp' hz; omega
      · rcases List.mem_cons.mp hz with rfl | hz
        · omega
        · have := hc z hz; omega

theorem nextRec_pairwise (a : List Nat) (hp : a.Pairwise (· < ·)) :
    (nextRec a).Pairwise (· < ·) := by
  match a, hp with
  | [], _ => simp [nextRec]
  | [x], _ => simp [nextRec]
  | x :: y :: rest, hp =>
    rw [List.pairwise_cons] at hp
    obtain ⟨hc, hp'⟩ := hp
    by_cases h : x + 1 < y
    · rw [nextRec, if_pos h]
      refine List.pairwise_cons.mpr ⟨fun z hz => ?_, hp'⟩
      rcases List.mem_cons.mp hz with rfl | hz
      · exact h
      · have := List.rel_of_pairwise_cons hp' hz; omega
    · rw [nextRec, if_neg h]
      have hxy := hc y List.mem_cons_self
      obtain ⟨h1, h2⟩ := nkGo_pairwise rest y 1 hp' (by omega)
      refine List.pairwise_cons.mpr ⟨fun z hz => ?_, h1⟩
      have := h2 z hz; omega

/-- THEOREM 2: `next_k_array` keeps the array strictly increasing (and of the same length). -/
theorem nextKArray_pairwise (a : List Nat) (hp : a.Pairwise (· < ·)) :
    (nextKArray a).Pairwise (· < ·) := by
  rw [nextKArray_eq_nextRec]; exact nextRec_pairwise a hp

theorem nextKArray_ne_nil (a : List Nat) (hne : a ≠ []) : nextKArray a ≠ [] := by
  intro h
  have := nextKArray_length a
  rw [h] at this
  exact hne (List.length_eq_zero_iff.mp this.symm)

example : (nextKArray [1, 2, 5]).Pairwise (· < ·) := by decide

/-! ### Step D: the walk starts at rank 0 -/

theorem kArrayRankAux_range' : ∀ (n i : Nat), kArrayRankAux (List.range' i n) i = 0
  | 0, _ => rfl
  | n + 1, i => by
    rw [List.range'_succ, kArrayRankAux_cons, Nat.choose_succ_self, kArrayRankAux_range' n (i + 1)]

/-- THEOREM 3: `arange(k)` has rank 0. -/
theorem kArrayRank_range (k : Nat) : kArrayRank (List.range k) = 0 := by
  rw [List.range_eq_range']; exact kArrayRankAux_range' k 0

/-! ### Step E: bounds on the rank in terms of the last (largest) element -/

/-- strictly increasing naturals: `first + (length - 1) ≤ last` -/
theorem head_add_length_le_last : ∀ (l : List Nat) (c t : Nat),
    (c :: l).Pairwise (· < ·) → (c :: l).getLast? = some t → c + l.length ≤ t := by
  intro l
  induction l with
  | nil => intro c t _ h; simp at h; simp; omega
  | cons y rest ih =>
    intro c t hp h
    rw [List.getLast?_cons_cons] at h
    rw [List.pairwise_cons] at hp
    have := ih y t hp.2 h
    have hcy := hp.1 y List.mem_cons_self
    simp only [List.length_cons]; omega

/-- the rank tail sum dominates its last term -/
theorem kArrayRankAux_ge_last : ∀ (l : List Nat) (i t : Nat), l.getLast? = some t →
    Nat.choose t (i + l.length) ≤ kArrayRankAux l i
  | [], _, _, h => by simp at h
  | [c], i, t, h => by
    simp at h; subst h
    rw [kArrayRankAux_cons, kArrayRankAux_nil]; simp
  | c :: y :: rest, i, t, h => by
    rw [List.getLast?_cons_cons] at h
    have ih := kArrayRankAux_ge_last (y :: rest) (i + 1) t h
    rw [kArrayRankAux_cons]
    have e : i + (c :: y :: rest).length = i + 1 + (y :: rest).length := by
      simp only [List.length_cons]; omega
    rw [e]; omega

/-- upper bound with general start index -/
theorem kArrayRankAux_add_le : ∀ (l : List Nat) (i t : Nat), l.Pairwise (· < ·) →
    l.getLast? = some t →
    kArrayRankAux l i + Nat.choose (t + 1 - l.length) i ≤ Nat.choose (t + 1) (i + l.length)
  | [], _, _, _, h => by simp at h
  | [c], i, t, _, h => by
    simp at h; subst h
    rw [kArrayRankAux_cons, kArrayRankAux_nil]
    simp only [List.length_singleton, Nat.add_sub_cancel, choose_pascal]
    omega
  | c :: y :: rest, i, t, hp, h => by
    have hcl := head_add_length_le_last (y :: rest) c t hp h
    rw [List.getLast?_cons_cons] at h
    have ih := kArrayRankAux_add_le (y :: rest) (i + 1) t (List.pairwise_cons.mp hp).2 h
    rw [kArrayRankAux_cons]
    have e : i + (c :: y :: rest).length = i + 1 + (y :: rest).length := by
      simp only [List.length_cons]; omega
    rw [e]
    have e1 : t + 1 - (y :: rest).length = (t - (y :: rest).length) + 1 := by omega
    have e2 : t + 1 - (c :: y :: rest).length = t - (y :: rest).length := by
      simp only [List.length_cons]; omega
    rw [e1, choose_pascal] at ih
    rw [e2]
    have hmono : Nat.choose c (i + 1) ≤ Nat.choose (t - (y :: rest).length) (i + 1) :=
      Nat.choose_le_choose _ (by omega)
    omega

theorem kArrayRank_ge' (a : List Nat) (t : Nat) (h : a.getLast? = some t) :
    Nat.choose t a.length ≤ kArrayRank a := by
  have := kArrayRankAux_ge_last a 0 t h
  rwa [Nat.zero_add] at this

theorem kArrayRank_lt' (a : List Nat) (t : Nat) (hp : a.Pairwise (· < ·))
    (h : a.getLast? = some t) : kArrayRank a < Nat.choose (t + 1) a.length := by
  have := kArrayRankAux_add_le a 0 t hp h
  rw [Nat.zero_add, Nat.choose_zero_right] at this
  exact this

/-- THEOREM 4a: the rank is at least its last term `C(last, k)` -/
theorem kArrayRank_ge (a : List Nat) (hne : a ≠ []) :
    Nat.choose (a.getLast hne) a.length ≤ kArrayRank a :=
  kArrayRank_ge' a _ (List.getLast?_eq_some_getLast hne)

/-- THEOREM 4b: the rank of a strictly increasing array is below `C(last + 1, k)` -/
theorem kArrayRank_lt (a : List Nat) (hne : a ≠ []) (hp : a.Pairwise (· < ·)) :
    kArrayRank a < Nat.choose (a.getLast hne + 1) a.length :=
  kArrayRank_lt' a _ hp (List.getLast?_eq_some_getLast hne)

example : Nat.choose 5 3 ≤ kArrayRank [1, 2, 5] ∧ kArrayRank [1, 2, 5] < Nat.choose 6 3 := by
  decide

/-- THEOREM 5: the array is a subset of `{0..n-1}` iff its rank is below `C(n, k)` -/
theorem kArrayRank_lt_iff (a : List Nat) (hne : a ≠ []) (hp : a.Pairwise (· < ·)) (n : Nat) :
    kArrayRank a < Nat.choose n a.length ↔ a.getLast hne < n := by
  constructor
  · intro h
    by_contra hc
    have h1 : Nat.choose n a.length ≤ Nat.choose (a.getLast hne) a.length :=
      Nat.choose_le_choose _ (by omega)
    have h2 := kArrayRank_ge a hne
    omega
  · intro h
    have h1 : Nat.choose (a.getLast hne + 1) a.length ≤ Nat.choose n a.length :=
      Nat.choose_le_choose _ (by omega)
    have h2 := kArrayRank_lt a hne hp
    omega

/-! ### Step F: the rank is injective on strictly increasing arrays of a fixed length -/

theorem kArrayRankAux_append : ∀ (l : List Nat) (t i : Nat),
    kArrayRankAux (l ++ [t]) i = kArrayRankAux l i + Nat.choose t (i + l.length + 1)
  | [], t, i => by
    simp [kArrayRankAux_cons, kArrayRankAux_nil]
  | c :: l, t, i => by
    rw [List.cons_append, kArrayRankAux_cons, kArrayRankAux_append l t (i + 1),
      kArrayRankAux_cons]
    have e : i + 1 + l.length + 1 = i + (c :: l).length + 1 := by
      simp only [List.length_cons]; omega
    rw [e]; omega

theorem kArrayRank_append (l : List Nat) (t : Nat) :
    kArrayRank (l ++ [t]) = kArrayRank l + Nat.choose t (l.length + 1) := by
  unfold kArrayRank
  rw [kArrayRankAux_append, Nat.zero_add]

/-- arrays of equal length: a smaller last element forces a smaller rank -/
theorem kArrayRank_lt_of_last_lt (la lb : List Nat) (ta tb : Nat)
    (hlen : la.length = lb.length) (hp : (la ++ [ta]).Pairwise (· < ·)) (h : ta < tb) :
    kArrayRank (la ++ [ta]) < kArrayRank (lb ++ [tb]) := by
  have h1 := kArrayRank_lt' (la ++ [ta]) ta hp List.getLast?_concat
  have h2 := kArrayRank_ge' (lb ++ [tb]) tb List.getLast?_concat
  have e : (lb ++ [tb]).length = (la ++ [ta]).length := by simp [hlen]
  rw [e] at h2
  have h3 : Nat.choose (ta + 1) (la ++ [ta]).length ≤ Nat.choose tb (la ++ [ta]).length :=
    Nat.choose_le_choose _ (by omega)
  omega

theorem kArrayRank_inj_aux : ∀ (k : Nat) (a b : List Nat), a.length = k → b.length = k →
    a.Pairwise (· < ·) → b.Pairwise (· < ·) → kArrayRank a = kArrayRank b → a = b := by
  intro k
  induction k with
  | zero =>
    intro a b ha hb _ _ _
    rw [List.length_eq_zero_iff.mp ha, List.length_eq_zero_iff.mp hb]
  | succ k ih =>
    intro a b ha hb hpa hpb hr
    rcases List.eq_nil_or_concat a with rfl | ⟨la, ta, rfl⟩
    · simp at ha
    rcases List.eq_nil_or_concat b with rfl | ⟨lb, tb, rfl⟩
    · simp at hb
    simp only [List.concat_eq_append] at ha hb hpa hpb hr ⊢
    have hla : la.length = k := by simpa using ha
    have hlb : lb.length = k := by simpa using hb
    have ht : ta = tb := by
      rcases Nat.lt_trichotomy ta tb with h | h | h
      · have := kArrayRank_lt_of_last_lt la lb ta tb (by omega) hpa h; omega
      · exact h
      · have := kArrayRank_lt_of_last_lt lb la tb ta (by omega) hpb h; omega
    subst ht
    rw [kArrayRank_append, kArrayRank_append, hla, hlb] at hr
    have := ih la lb hla hlb (List.pairwise_append.mp hpa).1 (List.pairwise_append.mp hpb).1
      (by omega)
    rw [this]

/-- THEOREM 6: `k_array_rank` is injective on strictly increasing arrays of the same length -/
theorem kArrayRank_inj (a b : List Nat) (hlen : a.length = b.length)
    (hpa : a.Pairwise (· < ·)) (hpb : b.Pairwise (· < ·))
    (hr : kArrayRank a = kArrayRank b) : a = b :=
  kArrayRank_inj_aux b.length a b hlen rfl hpa hpb hr

example : kArrayRank [0, 3, 4] = 7 ∧ kArrayRank [1, 3, 4] = 8 := by decide

/-! ### Step G: the walk `a, next a, next (next a), …` -/

/-- `j`-fold application of `next_k_array` -/
def walk (a : List Nat) : Nat → List Nat
  | 0 => a
  | j + 1 => nextKArray (walk a j)

theorem walk_eq_iterate (a : List Nat) (j : Nat) : walk a j = nextKArray^[j] a := by
  induction j with
  | zero => rfl
  | succ j ih => rw [Function.iterate_succ_apply', ← ih]; rfl

theorem walk_spec (a : List Nat) (hne : a ≠ []) (hp : a.Pairwise (· < ·)) (j : Nat) :
    (walk a j).length = a.length ∧ (walk a j).Pairwise (· < ·) ∧
      kArrayRank (walk a j) = kArrayRank a + j := by
  induction j with
  | zero => exact ⟨rfl, hp, rfl⟩
  | succ j ih =>
    obtain ⟨h1, h2, h3⟩ := ih
    have hne' : walk a j ≠ [] := by
      intro h; rw [h] at h1; exact hne (List.length_eq_zero_iff.mp h1.symm)
    refine ⟨?_, ?_, ?_⟩
    · show (nextKArray (walk a j)).length = _
      rw [nextKArray_length, h1]
    · exact nextKArray_pairwise _ h2
    · show kArrayRank (nextKArray (walk a j)) = _
      rw [kArrayRank_next _ hne' h2, h3]; omega

/-- THEOREM 7: starting from `arange(k)` (`k ≥ 1`), the `j`-th array of the walk has length `k`,
    is strictly increasing and has rank exactly `j`. -/
theorem walk_range_spec (k : Nat) (hk : 1 ≤ k) (j : Nat) :
    (walk (List.range k) j).length = k ∧ (walk (List.range k) j).Pairwise (· < ·) ∧
      kArrayRank (walk (List.range k) j) = j := by
  have hne : List.range k ≠ [] := by
    intro h; have := congrArg List.length h; simp at this; omega
  obtain ⟨h1, h2, h3⟩ := walk_spec (List.range k) hne List.pairwise_lt_range j
  rw [kArrayRank_range, Nat.zero_add] at h3
  rw [List.length_range] at h1
  exact ⟨h1, h2, h3⟩

theorem walk_range_ne_nil (k : Nat) (hk : 1 ≤ k) (j : Nat) : walk (List.range k) j ≠ [] := by
  intro h
  have := (walk_range_spec k hk j).1
  rw [h] at this; simp at this; omega

/-- THEOREM 8: the `j`-th array of the walk lies in `{0..n-1}` iff `j < C(n, k)`:
    the loop `while a[-1] < n` of the docstring runs exactly `C(n, k)` times. -/
theorem walk_range_last_lt_iff (k n : Nat) (hk : 1 ≤ k) (j : Nat) :
    (walk (List.range k) j).getLast (walk_range_ne_nil k hk j) < n ↔ j < Nat.choose n k := by
  obtain ⟨h1, h2, h3⟩ := walk_range_spec k hk j
  have := kArrayRank_lt_iff _ (walk_range_ne_nil k hk j) h2 n
  rw [h1, h3] at this
  exact this.symm

/-- THEOREM 9: every strictly increasing nonempty array is reached by the walk from
    `arange(k)`, exactly at step `rank a`. -/
theorem eq_walk_rank (a : List Nat) (hne : a ≠ []) (hp : a.Pairwise (· < ·)) :
    a = walk (List.range a.length) (kArrayRank a) := by
  have hk : 1 ≤ a.length := List.length_pos_iff.mpr hne
  obtain ⟨h1, h2, h3⟩ := walk_range_spec a.length hk (kArrayRank a)
  exact kArrayRank_inj _ _ h1.symm hp h2 h3.symm

/-- the walk never visits an array twice -/
theorem walk_range_injective (k : Nat) (hk : 1 ≤ k) (j j' : Nat)
    (h : walk (List.range k) j = walk (List.range k) j') : j = j' := by
  have h1 := (walk_range_spec k hk j).2.2
  have h2 := (walk_range_spec k hk j').2.2
  rw [h] at h1; omega

example : walk (List.range 2) 3 = [0, 3] := by decide

theorem le_last_of_pairwise (a : List Nat) (t : Nat) (hp : a.Pairwise (· < ·))
    (h : a.getLast? = some t) : ∀ x ∈ a, x ≤ t := by
  rcases List.eq_nil_or_concat a with rfl | ⟨l, t', rfl⟩
  · simp at h
  · simp only [List.concat_eq_append] at hp h ⊢
    rw [List.getLast?_concat] at h
    have ht : t' = t := Option.some.inj h
    subst ht
    intro x hx
    rcases List.mem_append.mp hx with hx | hx
    · exact Nat.le_of_lt ((List.pairwise_append.mp hp).2.2 x hx t' (List.mem_singleton.mpr rfl))
    · rw [List.mem_singleton.mp hx]

/-- THEOREM 10 (Knuth Algorithm T, summary): for `k ≥ 1`, the first `C(n, k)` arrays of the walk
    from `arange(k)` are exactly the strictly increasing `k`-arrays with entries in `{0..n-1}`
    (each exactly once by `walk_range_injective`, in rank order by `walk_range_spec`). -/
theorem walk_enumerates (k n : Nat) (hk : 1 ≤ k) (a : List Nat) :
    (a.length = k ∧ a.Pairwise (· < ·) ∧ ∀ x ∈ a, x < n) ↔
      ∃ j, j < Nat.choose n k ∧ walk (List.range k) j = a := by
  constructor
  · rintro ⟨hlen, hp, hlt⟩
    have hne : a ≠ [] := by intro h; rw [h] at hlen; simp at hlen; omega
    refine ⟨kArrayRank a, ?_, ?_⟩
    · rw [← hlen]
      exact (kArrayRank_lt_iff a hne hp n).mpr (hlt _ (List.getLast_mem hne))
    · rw [← hlen]; exact (eq_walk_rank a hne hp).symm
  · rintro ⟨j, hj, rfl⟩
    obtain ⟨h1, h2, _⟩ := walk_range_spec k hk j
    refine ⟨h1, h2, fun x hx => ?_⟩
    have hl := (walk_range_last_lt_iff k n hk j).mpr hj
    have := le_last_of_pairwise _ _ h2
      (List.getLast?_eq_some_getLast (walk_range_ne_nil k hk j)) x hx
    omega

example : ([0, 1].length = 2 ∧ [0, 1].Pairwise (· < ·) ∧ ∀ x ∈ [0, 1], x < 4) := by decide
example : (4 : Nat).choose 2 = 6 ∧
    (List.range 6).map (walk (List.range 2)) = [[0, 1], [0, 2], [1, 2], [0, 3], [1, 3], [2, 3]] := by
  decide

end QE.C16
