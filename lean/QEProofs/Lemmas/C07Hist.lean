/-
  C07 helper lemmas, part 10: the LQ object across calls. No call changes the data, `T` or `Rf`;
  a finite-horizon `compute_sequence` does not read the mutable `(P, d, F)`.
-/
import QEProofs.Lemmas.C07Seq

set_option linter.unusedSectionVars false

namespace QE.C07
open QE QE.MatAlg

variable {α : Type} [Zero α] [One α] [Add α] [Sub α] [Mul α] [Div α] [Neg α] [BEq α]

/-- the part of the object no call writes to -/
def Obj.static (o : Obj α) : LQ α × Nat × M α := (o.lq, o.Tfin, o.Rf)

theorem objCall_lq (sol : M α → M α → Option (M α)) (o : Obj α) (c : Call α) :
    (objCall sol o c).1.lq = o.lq ∧ (objCall sol o c).1.Tfin = o.Tfin ∧ (objCall sol o c).1.Rf = o.Rf := by
  cases c with
  | update =>
    simp only [objCall]
    cases o.P with
    | none => exact ⟨rfl, rfl, rfl⟩
    | some P =>
      simp only
      cases lqUpdate sol o.lq ⟨P, o.d⟩ with
      | none => exact ⟨rfl, rfl, rfl⟩
      | some r => exact ⟨rfl, rfl, rfl⟩
  | stationary Pric =>
    simp only [objCall]
    cases lqStationary sol o.lq Pric with
    | none => exact ⟨rfl, rfl, rfl⟩
    | some r => exact ⟨rfl, rfl, rfl⟩
  | sequence ts x0 W Pric =>
    simp only [objCall]
    by_cases hT : o.Tfin ≠ 0
    · rw [if_pos hT]
      cases lqBackward sol o.lq (horizon o.Tfin ts) ⟨o.Rf, 0⟩ [] with
      | none => exact ⟨rfl, rfl, rfl⟩
      | some r => exact ⟨rfl, rfl, rfl⟩
    · rw [if_neg hT]
      cases hP : o.P with
      | some P =>
        simp only
        cases o.F with
        | none => exact ⟨rfl, rfl, rfl⟩
        | some F => exact ⟨rfl, rfl, rfl⟩
      | none =>
        simp only
        cases lqStationary sol o.lq Pric with
        | none => exact ⟨rfl, rfl, rfl⟩
        | some r => exact ⟨rfl, rfl, rfl⟩

theorem runCalls_lq (sol : M α → M α → Option (M α)) (cs : List (Call α)) :
    ∀ o : Obj α, (runCalls sol o cs).lq = o.lq ∧ (runCalls sol o cs).Tfin = o.Tfin ∧
      (runCalls sol o cs).Rf = o.Rf := by
  induction cs with
  | nil => intro o; exact ⟨rfl, rfl, rfl⟩
  | cons c r ih =>
    intro o
    obtain ⟨a1, a2, a3⟩ := ih (objCall sol o c).1
    obtain ⟨b1, b2, b3⟩ := objCall_lq sol o c
    exact ⟨a1.trans b1, a2.trans b2, a3.trans b3⟩

/-- a finite-horizon `compute_sequence` returns what `computeSequence` computes from `(Rf, 0)`, whatever
    `(P, d, F)` the object holds, and leaves the final value and the last policy in the object -/
theorem objCall_sequence_finite (sol : M α → M α → Option (M α)) (o : Obj α) (hT : o.Tfin ≠ 0)
    (ts : Nat) (x0 W Pric : M α) :
    (objCall sol o (.sequence ts x0 W Pric)).2 = .seq (computeSequence sol o.lq o.Rf o.Tfin ts x0 W) ∧
    ∀ pol vT, lqBackward sol o.lq (horizon o.Tfin ts) ⟨o.Rf, 0⟩ [] = some (pol, vT) →
      (objCall sol o (.sequence ts x0 W Pric)).1.P = some vT.P ∧
      (objCall sol o (.sequence ts x0 W Pric)).1.d = vT.d ∧
      (objCall sol o (.sequence ts x0 W Pric)).1.F = pol.getLast? := by
  simp only [objCall, computeSequence, hT, ne_eq, not_false_eq_true, if_true]
  cases hb : lqBackward sol o.lq (horizon o.Tfin ts) ⟨o.Rf, 0⟩ [] with
  | none => exact ⟨rfl, fun pol vT h => by cases h⟩
  | some r =>
    obtain ⟨pol, vT⟩ := r
    refine ⟨?_, ?_⟩
    · simp only
    · intro pol' vT' h
      simp only [Option.some.injEq, Prod.mk.injEq] at h
      obtain ⟨h1, h2⟩ := h
      subst h1; subst h2
      exact ⟨rfl, rfl, rfl⟩

end QE.C07
