/-
  Lemmas for C02: the running-error analysis for EVERY evaluation order of the sums and dot products.
  * `tree_apx`      a rounded sum of non-negative terms along any binary tree carries ≤ (#leaves − 1) factors
  * `OrdSpec`       what the analysis needs from an evaluation order (sum of m terms: ≤ m factors;
                    dot product of m pairs: ≤ m + 1 factors; normalising sum: ≤ n factors)
  * `gthRecO_apx`, `gthSolveO_apx`   the induction of C02Acc with the orders left open: same `E(n)`
  * instances: `seqOrd` (Numba kernel), `npOrd` (NumPy pairwise sum), `treeOrd` (arbitrary trees),
    FMA-accumulated dot products.
-/
import QEModel.C02
import QEProofs.Lemmas.C02Gth
import QEProofs.Lemmas.C02Round
import QEProofs.Lemmas.C02Acc
import Mathlib.Data.List.Perm.Basic
import Mathlib.Algebra.BigOperators.Group.List.Basic
namespace QE.C02
open Finset

set_option linter.unusedSectionVars false
set_option linter.unusedVariables false

section
variable {K : Type} [Field K] [LinearOrder K] [IsStrictOrderedRing K]
variable {R : RoundedOps K}

/-! ### exact sums of approximated terms -/

theorem sumUpTo_apx_exact (u : K) (e : ℕ) (ft f : ℕ → K) (m : ℕ)
    (h : ∀ t, t < m → Apx u e (ft t) (f t)) : Apx u e (sumUpTo ft m) (sumUpTo f m) := by
  induction m with
  | zero => simp only [sumUpTo]; exact ⟨by simp, by simp⟩
  | succ m ih =>
    rw [sumUpTo, sumUpTo]
    exact apx_add (ih (fun t ht => h t (by omega))) (h m (by omega))

theorem sumUpTo_nonneg (f : ℕ → K) (m : ℕ) (h : ∀ t, t < m → 0 ≤ f t) : 0 ≤ sumUpTo f m := by
  induction m with
  | zero => simp [sumUpTo]
  | succ m ih => rw [sumUpTo]; exact add_nonneg (ih (fun t ht => h t (by omega))) (h m (by omega))

theorem sumUpTo_eq_listsum (f : ℕ → K) (m : ℕ) : sumUpTo f m = ((List.range m).map f).sum := by
  induction m with
  | zero => simp [sumUpTo]
  | succ m ih => rw [sumUpTo, ih, List.range_succ, List.map_append, List.sum_append]; simp

theorem getD_map_range {β : Type} (g : ℕ → β) (m t : ℕ) (d : β) (ht : t < m) :
    ((List.range m).map g).getD t d = g t := by
  rw [List.getD_eq_getElem?_getD, List.getElem?_map, List.getElem?_range ht]; rfl

/-! ### any binary tree -/

/-- a rounded sum of non-negative terms evaluated along ANY binary tree carries at most
    (number of leaves − 1) factors -/
theorem tree_apx (R : RoundedOps K) (ft : ℕ → Fl R) (hnn : ∀ i, 0 ≤ (ft i).val) (T : SumTree) :
    1 ≤ T.leaves.length
    ∧ 0 ≤ (T.leaves.map fun i => (ft i).val).sum
    ∧ Apx R.u (T.leaves.length - 1) (T.eval ft).val ((T.leaves.map fun i => (ft i).val).sum) := by
  have hu := R.u_nonneg
  induction T with
  | leaf i =>
    simp only [SumTree.leaves, SumTree.eval, List.length_singleton, List.map_cons, List.map_nil,
      List.sum_cons, List.sum_nil, add_zero]
    exact ⟨le_refl _, hnn i, apx_refl hu _ (hnn i)⟩
  | node l r ihl ihr =>
    obtain ⟨hl1, hl0, hla⟩ := ihl
    obtain ⟨hr1, hr0, hra⟩ := ihr
    simp only [SumTree.leaves, SumTree.eval, List.length_append, List.map_append, List.sum_append]
    refine ⟨by omega, add_nonneg hl0 hr0, ?_⟩
    have hla' := apx_mono hu (show l.leaves.length - 1 ≤ l.leaves.length + r.leaves.length - 2 by omega) hl0 hla
    have hra' := apx_mono hu (show r.leaves.length - 1 ≤ l.leaves.length + r.leaves.length - 2 by omega) hr0 hra
    have hsum := apx_add hla' hra'
    have hr := R.fadd_spec _ _ (apx_nonneg hu hla hl0) (apx_nonneg hu hra hr0)
    rw [Fl.add_val]
    have := apx_trans hu hr hsum
    have e1 : l.leaves.length + r.leaves.length - 2 + 1 = l.leaves.length + r.leaves.length - 1 := by omega
    rw [e1] at this; exact this

/-- … in particular along any bracketing of any permutation of `0..m-1`: ≤ m − 1 factors
    relative to the sum in natural order -/
theorem tree_apx_perm (R : RoundedOps K) (ft : ℕ → Fl R) (hnn : ∀ i, 0 ≤ (ft i).val) (T : SumTree) (m : ℕ)
    (hperm : T.leaves.Perm (List.range m)) :
    Apx R.u (m - 1) (T.eval ft).val (sumUpTo (fun i => (ft i).val) m) := by
  obtain ⟨_, _, ha⟩ := tree_apx R ft hnn T
  have hlen : T.leaves.length = m := by rw [hperm.length_eq, List.length_range]
  rw [sumUpTo_eq_listsum, ← (hperm.map _).sum_eq, ← hlen]
  exact ha

/-! ### what the error analysis needs from an evaluation order -/

/-- requirements on an evaluation order, relative to the exact sums of the values it is given:
    a sum of `m` non-negative terms carries ≤ `m` factors, a dot product of `m` non-negative pairs
    ≤ `m+1`, the normalising sum of ≤ `n` terms ≤ `n+1`. (A tree needs one factor less than its number of
    terms; the extra ones pay for an accumulator started at 0, as in the Numba loops, and for NumPy's
    `identity + pairwise(...)`.) -/
structure OrdSpec (R : RoundedOps K) (n : ℕ) (o : Ord (Fl R)) : Prop where
  sumRow : ∀ l : List (Fl R), (∀ t, 0 ≤ (l.getD t 0).val) →
    Apx R.u l.length (o.sumRow l).val (sumUpTo (fun t => (l.getD t 0).val) l.length)
  dot : ∀ a b : List (Fl R), (∀ t, 0 ≤ (a.getD t 0).val) → (∀ t, 0 ≤ (b.getD t 0).val) →
    Apx R.u (a.length + 1) (o.dot a b).val
      (sumUpTo (fun t => (a.getD t 0).val * (b.getD t 0).val) a.length)
  norm : ∀ y : List (Fl R), (∀ t, 0 ≤ (y.getD t 0).val) → y.length ≤ n →
    Apx R.u (n + 1) (o.norm y).val (sumUpTo (fun t => (y.getD t 0).val) y.length)

theorem rowScaleO_apx (R : RoundedOps K) (n e : ℕ) (o : Ord (Fl R)) (ho : OrdSpec R n o)
    (At : M (Fl R)) (A : M K) (k : ℕ) (hk : k < n)
    (hA : OffNonneg n A) (h : ApxOff R n e At A) :
    0 ≤ rowScale n A k ∧ Apx R.u (e + (n - (k+1))) (o.sumRow (rowTerms n At k)).val (rowScale n A k) := by
  have hu := R.u_nonneg
  have hlen : (rowTerms n At k).length = n - (k+1) := by simp [rowTerms]
  have hget : ∀ t, t < n - (k+1) → (rowTerms n At k).getD t 0 = At.get k (k+1+t) := by
    intro t ht; unfold rowTerms; exact getD_map_range _ _ _ _ ht
  have hs0 : 0 ≤ rowScale n A k := by
    unfold rowScale
    exact sumUpTo_nonneg _ _ (fun t ht => hA k (k+1+t) hk (by omega) (by omega))
  refine ⟨hs0, ?_⟩
  have hnn : ∀ t, 0 ≤ ((rowTerms n At k).getD t 0).val := by
    intro t
    by_cases ht : t < n - (k+1)
    · rw [hget t ht]
      exact apx_nonneg hu (h k (k+1+t) hk (by omega) (by omega)) (hA k (k+1+t) hk (by omega) (by omega))
    · have hnone : (rowTerms n At k)[t]? = none := List.getElem?_eq_none (by omega)
      simp [List.getD_eq_getElem?_getD, hnone]
  have h1 := ho.sumRow (rowTerms n At k) hnn
  rw [hlen] at h1
  have h2 : Apx R.u e (sumUpTo (fun t => ((rowTerms n At k).getD t 0).val) (n - (k+1))) (rowScale n A k) := by
    unfold rowScale
    apply sumUpTo_apx_exact
    intro t ht
    rw [hget t ht]
    exact h k (k+1+t) hk (by omega) (by omega)
  exact apx_trans hu h1 h2

/-- **Main induction, every evaluation order.** Same statement and same count `xerr` as
    `gthRec_apx`, for the recursion `gthRecO o` with any order `o` satisfying `OrdSpec`. -/
theorem gthRecO_apx (R : RoundedOps K) (n : ℕ) (o : Ord (Fl R)) (ho : OrdSpec R n o) :
    ∀ (fuel k : ℕ) (At : M (Fl R)) (A : M K) (e : ℕ),
    k + fuel + 1 = n → OffNonneg n A → ApxOff R n e At A →
    (gthRecO o n fuel k At).length = (gthRec n fuel k A).length
    ∧ ∀ t, Apx R.u (xerr fuel e) ((gthRecO o n fuel k At).getD t 0).val ((gthRec n fuel k A).getD t 0) := by
  have hu := R.u_nonneg
  have hone : ∀ (X : ℕ) (t : ℕ), Apx R.u X (([1] : List (Fl R)).getD t 0).val (([1] : List K).getD t 0) := by
    intro X t
    cases t with
    | zero => simpa using apx_refl hu X (zero_le_one (α := K))
    | succ t => simpa using apx_refl hu X (le_refl (0 : K))
  intro fuel
  induction fuel with
  | zero =>
    intro k At A e hk hA h
    simp only [gthRecO, gthRec]
    exact ⟨rfl, hone _⟩
  | succ fuel ih =>
    intro k At A e hk hA h
    have hkn : k < n := by omega
    have hm : n - (k+1) = fuel + 1 := by omega
    obtain ⟨hs0, hsa⟩ := rowScaleO_apx R n e o ho At A k hkn hA h
    have hbranch : o.sumRow (rowTerms n At k) ≤ 0 ↔ rowScale n A k ≤ 0 := by
      rw [Fl.le_iff, Fl.zero_val]
      exact apx_le_zero_iff hu hsa hs0
    rw [gthRecO, gthRec]
    try simp only
    by_cases hs : rowScale n A k ≤ 0
    · rw [if_pos hs, if_pos (hbranch.2 hs)]
      exact ⟨rfl, hone _⟩
    · rw [if_neg hs, if_neg (fun hc => hs (hbranch.1 hc))]
      have hspos : 0 < rowScale n A k := not_le.1 hs
      obtain ⟨hcol, hoff⟩ := redStep_apx_gen R n e At A k hkn hA h hspos _ hsa
      rw [hm] at hcol hoff
      have hA'nn := redStep_offNonneg n A k _ hspos hA
      obtain ⟨hlen, hxs⟩ := ih (k+1) _ _ _ (by omega) hA'nn hoff
      obtain ⟨_, hxnn, _, _⟩ := gthRec_null n fuel (k+1) (redStep n A k (rowScale n A k)) (by omega) hA'nn
      have hlenle := gthRec_length n fuel (k+1) (redStep n A k (rowScale n A k))
      set At' := redStep n At k (o.sumRow (rowTerms n At k)) with hAt'
      set A' := redStep n A k (rowScale n A k) with hA'
      set xst := gthRecO o n fuel (k+1) At' with hxst
      set xs := gthRec n fuel (k+1) A' with hxsdef
      set X' := xerr fuel (3 * e + (fuel + 1) + 3) with hX'
      have hXle : X' ≤ xerr (fuel + 1) e := xerr_step_le fuel e
      have hcolget : ∀ t, t < xst.length → (colTerms At' k xst.length).getD t 0 = At'.get (k+1+t) k := by
        intro t ht; unfold colTerms; exact getD_map_range _ _ _ _ ht
      have hxtnn : ∀ t, 0 ≤ (xst.getD t 0).val := fun t => apx_nonneg hu (hxs t) (hxnn t)
      have hctnn : ∀ t, 0 ≤ ((colTerms At' k xst.length).getD t 0).val := by
        intro t
        by_cases ht : t < xst.length
        · rw [hcolget t ht]
          exact apx_nonneg hu (hcol (k+1+t) (by omega) (by omega)) (hA'nn (k+1+t) k (by omega) hkn (by omega))
        · have hnone : (colTerms At' k xst.length)[t]? = none :=
            List.getElem?_eq_none (by simp [colTerms]; omega)
          simp [List.getD_eq_getElem?_getD, hnone]
      have hhead : Apx R.u (xerr (fuel + 1) e) (o.dot xst (colTerms At' k xst.length)).val (dotCol A' k xs) := by
        have h1 := ho.dot xst (colTerms At' k xst.length) hxtnn hctnn
        have h2 : Apx R.u (X' + (2 * e + (fuel + 1) + 1))
            (sumUpTo (fun t => (xst.getD t 0).val * ((colTerms At' k xst.length).getD t 0).val) xst.length)
            (dotCol A' k xs) := by
          unfold dotCol
          rw [hlen]
          apply sumUpTo_apx_exact
          intro t ht
          have hcg := hcolget t (by omega)
          rw [hlen] at hcg
          rw [hcg]
          exact apx_mul hu (hxnn t) (hA'nn (k+1+t) k (by omega) hkn (by omega)) (hxs t)
            (hcol (k+1+t) (by omega) (by omega))
        have h3 := apx_trans hu h1 h2
        have hd0 : 0 ≤ dotCol A' k xs := by
          unfold dotCol
          exact sumUpTo_nonneg _ _ (fun t ht => mul_nonneg (hxnn t) (hA'nn (k+1+t) k (by omega) hkn (by omega)))
        refine apx_mono hu ?_ hd0 h3
        rw [xerr]; omega
      refine ⟨by simp only [List.length_cons, hlen], ?_⟩
      intro t
      cases t with
      | zero => simpa using hhead
      | succ t =>
        simp only [List.getD_cons_succ]
        exact apx_mono hu hXle (hxnn t) (hxs t)

/-- **Accuracy for every evaluation order** (factor form): `E(n) + 1` factors (`E(n)` is the count
    of the sequential kernel; the `+1` is the extra addition allowed in the normalising sum). -/
theorem gthSolveO_apx (R : RoundedOps K) (n : ℕ) (hn : 1 ≤ n) (o : Ord (Fl R)) (ho : OrdSpec R n o)
    (A : M K) (hA : OffNonneg n A) :
    ∀ i, Apx R.u (errBound n + 1) ((gthSolveO o n (liftM R n A)).getD i 0).val ((gthSolve n A).getD i 0) := by
  have hu := R.u_nonneg
  obtain ⟨hlen, hxs⟩ := gthRecO_apx R n o ho (n-1) 0 (liftM R n A) A 0 (by omega) hA (liftM_apx R n A hA)
  obtain ⟨_, hxnn, hlenle, _⟩ := gthRec_null n (n-1) 0 A (by omega) hA
  have hnormpos := gthRaw_norm_pos n hn A hA
  rw [gthRaw_eq_rec n hn A] at hnormpos
  intro i
  rw [gthSolve_getD, gthRaw_eq_rec n hn A]
  unfold gthSolveO
  simp only
  rw [getD_map_append_zero]
  set yt := gthRecO o n (n-1) 0 (liftM R n A) with hyt
  set y := gthRec n (n-1) 0 A with hy
  set X := xerr (n-1) 0 with hX
  have hytnn : ∀ t, 0 ≤ (yt.getD t 0).val := fun t => apx_nonneg hu (hxs t) (hxnn t)
  have hnorm : Apx R.u (X + (n + 1)) (o.norm yt).val (sumList y) := by
    have h1 := ho.norm yt hytnn (by omega)
    have h2 : Apx R.u X (sumUpTo (fun t => (yt.getD t 0).val) yt.length) (sumList y) := by
      unfold sumList
      rw [hlen]
      exact sumUpTo_apx_exact _ _ _ _ _ (fun t _ => hxs t)
    exact apx_trans hu h1 h2
  by_cases hi : i < yt.length
  · rw [if_pos hi, Fl.div_val]
    have hd := apx_div hu (hxnn i) hnormpos (hxs i) hnorm
    have hr := R.fdiv_spec _ _ (hytnn i) (apx_pos hu hnorm hnormpos)
    have := apx_trans hu hr hd
    have e1 : X + (X + (n + 1)) + 1 = errBound n + 1 := by unfold errBound; omega
    rw [e1] at this; exact this
  · rw [if_neg hi]
    have hl : y.length ≤ i := by omega
    have hnone : y[i]? = none := List.getElem?_eq_none hl
    have : y.getD i 0 = 0 := by simp [List.getD_eq_getElem?_getD, hnone]
    rw [this, zero_div, Fl.zero_val]
    exact apx_refl hu _ (le_refl _)

end
end QE.C02
