/-
  Lemmas for C13, part 9: on strictly increasing grids the rows of `cartesian` are pairwise
  distinct (row number ↦ grid point is injective), in both orders.
-/
import QEProofs.Properties.C16
import Mathlib.Algebra.BigOperators.Ring.List
namespace QE.C13
open QE QE.C16

theorem shape_pos_of_prod_pos (s : List Nat) (h : 0 < s.prod) (d : Nat) (hd : d < s.length) :
    0 < s.getD d 0 := by
  by_contra hc
  have h0 : s.getD d 0 = 0 := by omega
  rw [List.getD_eq_getElem?_getD, List.getElem?_eq_getElem hd] at h0
  simp only [Option.getD_some] at h0
  have : s.prod = 0 := List.prod_eq_zero (h0 ▸ List.getElem_mem hd)
  omega

section
variable {K : Type} [Field K] [LinearOrder K] [IsStrictOrderedRing K]

omit [IsStrictOrderedRing K] in
theorem getD_inj_of_pairwise (g : List K) (hg : g.Pairwise (· < ·)) (a b : Nat) (ha : a < g.length)
    (hb : b < g.length) (h : g.getD a 0 = g.getD b 0) : a = b := by
  have hnd : g.Nodup := hg.imp (fun h => ne_of_lt h)
  rw [List.getD_eq_getElem?_getD, List.getD_eq_getElem?_getD, List.getElem?_eq_getElem ha,
    List.getElem?_eq_getElem hb] at h
  simp only [Option.getD_some] at h
  exact (List.Nodup.getElem_inj_iff hnd).mp h

omit [IsStrictOrderedRing K] in
/-- **Distinct row numbers are distinct grid points** (strictly increasing grids, both orders). -/
theorem cartesian_row_injective (nodes : List (List K)) (hn : ∀ g ∈ nodes, g.Pairwise (· < ·))
    (o : Bool) (r r' : Nat) (hr : r < (nodes.map List.length).prod)
    (hr' : r' < (nodes.map List.length).prod)
    (h : (cartesian nodes o).getD r [] = (cartesian nodes o).getD r' []) : r = r' := by
  set s := nodes.map List.length with hs
  have hpos : 0 < s.prod := by omega
  have hlen : s.length = nodes.length := by simp [hs]
  have hsh : ∀ d, d < nodes.length → 0 < s.getD d 0 := fun d hd =>
    shape_pos_of_prod_pos s hpos d (by omega)
  cases o with
  | false =>
    have hdig : digitsC s r = digitsC s r' := by
      apply List.ext_getElem
      · rw [digitsC_length, digitsC_length]
      · intro d h1 h2
        have hd : d < s.length := by rw [digitsC_length] at h1; exact h1
        have hd' : d < nodes.length := by omega
        have e1 := digitsC_getD s r d hd
        have e2 := digitsC_getD s r' d hd
        rw [List.getD_eq_getElem?_getD, List.getElem?_eq_getElem h1] at e1
        rw [List.getD_eq_getElem?_getD, List.getElem?_eq_getElem h2] at e2
        simp only [Option.getD_some] at e1 e2
        rw [e1, e2]
        have c1 := cartesian_C nodes r d hr hd'
        have c2 := cartesian_C nodes r' d hr' hd'
        rw [h] at c1
        have hsd := shapes_getD nodes d hd'
        have hlt := digitC_lt s d r (hsh d hd')
        have hlt' := digitC_lt s d r' (hsh d hd')
        rw [hsd] at hlt hlt'
        exact getD_inj_of_pairwise _ (hn _ (nodes_getD_mem nodes d hd')) _ _ hlt hlt' (c1.symm.trans c2)
    rw [← cartesianIndex_digitsC s r hr, ← cartesianIndex_digitsC s r' hr', hdig]
  | true =>
    have hlF : ∀ q, (digitsF s q).length = s.length := by
      intro q; rw [digitsF_eq, List.length_reverse, digitsC_length, List.length_reverse]
    have hdig : digitsF s r = digitsF s r' := by
      apply List.ext_getElem
      · rw [hlF, hlF]
      · intro d h1 h2
        have hd : d < s.length := by rw [hlF] at h1; exact h1
        have hd' : d < nodes.length := by omega
        have e1 := digitsF_getD s r d hd
        have e2 := digitsF_getD s r' d hd
        rw [List.getD_eq_getElem?_getD, List.getElem?_eq_getElem h1] at e1
        rw [List.getD_eq_getElem?_getD, List.getElem?_eq_getElem h2] at e2
        simp only [Option.getD_some] at e1 e2
        rw [e1, e2]
        have c1 := cartesian_F nodes r d hr hd'
        have c2 := cartesian_F nodes r' d hr' hd'
        rw [h] at c1
        have hsd := shapes_getD nodes d hd'
        have hlt := digitF_lt s d r (hsh d hd')
        have hlt' := digitF_lt s d r' (hsh d hd')
        rw [hsd] at hlt hlt'
        exact getD_inj_of_pairwise _ (hn _ (nodes_getD_mem nodes d hd')) _ _ hlt hlt' (c1.symm.trans c2)
    rw [← cartesianIndex_digitsF s r hr, ← cartesianIndex_digitsF s r' hr', hdig]

end
end QE.C13
